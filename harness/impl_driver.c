/*
 * impl_driver.c -- runs the line protocol of DESIGN.md appendix A against the real library.
 *
 * Reads a case file on stdin; every case runs in its own forked child (the scanner keeps
 * process-global state, so a case must own its history from process start).  The child's
 * fd 1 is redirected to a scratch file (anything the library writes there is an "echo"
 * hazard), fd 0 is /dev/null, an alarm bounds its run time.  Observations are written by
 * the child to a pipe and copied to our stdout after the "CASE <id>" line, followed by
 * "H ..." lines describing abnormal termination.
 */
#define _GNU_SOURCE
#include <confuse.h>
#include <stdio.h>
#include <stdlib.h>
#include <string.h>
#include <stdarg.h>
#include <stdint.h>
#include <errno.h>
#include <unistd.h>
#include <fcntl.h>
#include <dirent.h>
#include <signal.h>
#include <sys/wait.h>
#include <sys/stat.h>
#include <math.h>
#include <sys/resource.h>
#include <sys/types.h>

extern int cfg_include_stack_ptr;

/* optional: provided by harness/fault_alloc.c in the fault build */
extern long verif_live_blocks(void) __attribute__((weak));
extern void verif_fail_at(long k) __attribute__((weak));
extern long verif_alloc_count(void) __attribute__((weak));
extern const char *verif_site_log(void) __attribute__((weak));
extern void verif_free(void *p) __attribute__((weak));

/* release memory that the library allocated and handed to the caller */
static void lib_free(void *p)
{
	if (verif_free)
		verif_free(p);
	else
		free(p);
}

static FILE *obs;			/* observation stream */
static int quiet;			/* suppress diagnostics made by the harness' own lookups */

/* ---------- hex ---------- */
static int nib(int c) { return c <= '9' ? c - '0' : (c | 32) - 'a' + 10; }

/* decode; returns malloc'ed buffer (NUL-terminated), *len set; "-" -> NULL, "." -> "" */
static char *unhex(const char *s, size_t *len)
{
	size_t n, i;
	char *b;

	if (len)
		*len = 0;
	if (!strcmp(s, "-"))
		return NULL;
	if (!strcmp(s, "."))
		return calloc(1, 1);
	n = strlen(s) / 2;
	b = malloc(n + 1);
	for (i = 0; i < n; i++)
		b[i] = (char)(nib(s[2 * i]) * 16 + nib(s[2 * i + 1]));
	b[n] = 0;
	if (len)
		*len = n;
	return b;
}

static void puthexn(const char *s, size_t n)
{
	size_t i;

	if (!s) {
		fputs("-", obs);
		return;
	}
	if (!n) {
		fputs(".", obs);
		return;
	}
	for (i = 0; i < n; i++)
		fprintf(obs, "%02x", (unsigned char)s[i]);
}

static void puthex(const char *s) { puthexn(s, s ? strlen(s) : 0); }

/* ---------- diagnostics ---------- */
static const struct { const char *prefix; const char *cls; } diagtab[] = {
	{ "no such option", "noSuchOption" },
	{ "no sub-section", "noSubSection" },
	{ "invalid integer value", "invalidInt" },
	{ "integer value for option", "rangeInt" },
	{ "invalid floating point value", "invalidFloat" },
	{ "floating point value for option", "rangeFloat" },
	{ "invalid boolean value", "invalidBool" },
	{ "found duplicate title", "dupTitle" },
	{ "unexpected token", "unexpectedToken" },
	{ "premature end of file", "prematureEof" },
	{ "unexpected closing brace", "unexpectedBrace" },
	{ "attempt to append to non-list", "appendNonList" },
	{ "missing equal sign", "missingEq" },
	{ "missing opening brace", "missingBrace" },
	{ "missing title", "missingTitle" },
	{ "missing parenthesis", "missingParen" },
	{ "syntax error in call of function", "funcSyntax" },
	{ "dropping deprecated", "deprecatedDrop" },
	{ "found deprecated option", "deprecatedKeep" },
	{ "unterminated string constant", "unterminatedString" },
	{ "unterminated comment", "unterminatedComment" },
	{ "invalid octal number", "badOctal" },
	{ "bad escape sequence", "badEscape" },
	{ "includes nested too deeply", "includeDepth" },
	{ "%s: Not found in search path", "includeNotFound" },
	{ "%s: Failed tilde expand", "includeNotFound" },
	{ "%s: %s", "includeOpen" },
	{ "wrong number of arguments to cfg_include", "includeArgs" },
	{ "callback failed", "callback" },
	{ "no parse callback", "noParseCb" },
	{ NULL, NULL }
};

static int in_nest;	/* > 0 while a callback runs a nested parse of another context */

static void errfunc_to(cfg_t *cfg, const char *fmt, const char *tag);

/* an application's error function formats the message it is handed: a format that does not fit the arguments (text of the
 * configuration taken for a format) reads or writes through whatever lies there */
static void format_like_an_app(const char *fmt, va_list ap)
{
	static char msg[8192];
	va_list ap2;

	va_copy(ap2, ap);
	vsnprintf(msg, sizeof msg, fmt, ap2);
	va_end(ap2);
}

static void errfunc(cfg_t *cfg, const char *fmt, va_list ap)
{
	format_like_an_app(fmt, ap);
	errfunc_to(cfg, fmt, "G ");
}

/* a second error function (EF): after the application has replaced the function of a context, every diagnostic of
 * a later operation on it - also from inside sections that earlier parses entered or created - goes to the new one */
static void errfunc2(cfg_t *cfg, const char *fmt, va_list ap)
{
	format_like_an_app(fmt, ap);
	errfunc_to(cfg, fmt, "G2 ");
}

static void errfunc_to(cfg_t *cfg, const char *fmt, const char *tag)
{
	int i;
	const char *cls = "other";

	if (quiet)
		return;
	for (i = 0; diagtab[i].prefix; i++)
		if (!strncmp(fmt, diagtab[i].prefix, strlen(diagtab[i].prefix))) {
			cls = diagtab[i].cls;
			break;
		}
	if (in_nest)
		fputs("T nest ", obs);
	fputs(tag, obs);
	puthex(cfg->filename);
	fprintf(obs, " %d %s\n", cfg->line, cls);
}

/* ---------- callbacks: the DSL shared with the model's mkOracle ---------- */
static int pending_errno = -1;	/* ERRNO n: value errno has when the next library call starts */
#define APPLY_ERRNO() do { if (pending_errno >= 0) { errno = pending_errno; pending_errno = -1; } } while (0)
static long cbcount;
static long fail_at = -1;

struct pv { char *tok; };

static int failing(void) { return fail_at >= 0 && cbcount == fail_at; }

static uint64_t dbits(double d) { uint64_t u; memcpy(&u, &d, 8); return u; }
static double bitsd(uint64_t u) { double d; memcpy(&d, &u, 8); return d; }

static cfg_t *ctx[4];

static int cb_parse(cfg_t *cfg, cfg_opt_t *opt, const char *value, void *result)
{
	int fail;

	fputs("T parse ", obs);
	puthex(opt->name);
	fputs(" ", obs);
	puthex(value);
	fputs("\n", obs);
	fail = !value || failing() || value[0] == '!';
	cbcount++;
	/* "nest:<text>": the callback parses <text> into context 1 while the parse that called it is still running, and then
	 * goes on using its argument: the token text it was given must still be there, unchanged */
	if (value && !strncmp(value, "nest:", 5) && ctx[1] && ctx[1] != cfg) {
		char *saved = strdup(value);
		int rc;

		in_nest++;
		rc = cfg_parse_buf(ctx[1], saved + 5);
		in_nest--;
		fprintf(obs, "T nest %d\n", rc);
		if (strcmp(value, saved) != 0)
			fprintf(obs, "H value-changed\n");
		free(saved);
	}
	if (fail) {
		if (value)
			cfg_error(cfg, "callback failed");
		return 1;
	}
	switch (opt->type) {
	case CFGT_INT:
		*(long *)result = (long)strlen(value);
		break;
	case CFGT_FLOAT:
		if (!strncmp(value, "huge", 4)) {
			*(double *)result = HUGE_VAL;		/* "never", "unlimited": a callback may well answer infinity */
		} else if (!strncmp(value, "erange", 6)) {
			*(double *)result = 1.0;
			errno = ERANGE;				/* ... or clamp an overflow itself and leave errno behind */
		} else {
			*(double *)result = (double)strlen(value);
		}
		break;
	case CFGT_BOOL:
		*(cfg_bool_t *)result = (cfg_bool_t)(strlen(value) % 2 == 1);
		break;
	case CFGT_STR: {
		static char buf[1 << 16];

		snprintf(buf, sizeof buf, "<%s>", value);
		*(const char **)result = buf;
		break;
	}
	case CFGT_PTR:
		if (!value[0]) {
			*(void **)result = NULL;
		} else {
			struct pv *p = malloc(sizeof *p);

			p->tok = strdup(value);
			*(void **)result = p;
		}
		break;
	default:
		return 1;
	}
	return 0;
}

static void cb_free(void *ptr)
{
	struct pv *p = ptr;

	fputs("T free ", obs);
	puthex(p->tok);
	fputs("\n", obs);
	cbcount++;
	free(p->tok);
	free(p);
}

static void put_snap(cfg_opt_t *opt, unsigned int i)
{
	switch (opt->type) {
	case CFGT_INT:
		fprintf(obs, " i%ld", cfg_opt_getnint(opt, i));
		break;
	case CFGT_FLOAT:
		fprintf(obs, " f%016lx", (unsigned long)dbits(cfg_opt_getnfloat(opt, i)));
		break;
	case CFGT_BOOL:
		fprintf(obs, " b%d", (int)cfg_opt_getnbool(opt, i));
		break;
	case CFGT_STR:
		fputs(" s", obs);
		puthex(cfg_opt_getnstr(opt, i));
		break;
	case CFGT_PTR: {
		struct pv *p = cfg_opt_getnptr(opt, i);

		fputs(" p", obs);
		puthex(p ? p->tok : NULL);
		break;
	}
	case CFGT_SEC:
		fputs(" t", obs);
		puthex(cfg_title(cfg_opt_getnsec(opt, i)));
		break;
	default:
		break;
	}
}

static int cb_valid(cfg_t *cfg, cfg_opt_t *opt)
{
	unsigned int i, n = cfg_opt_size(opt);
	int fail = failing();

	/* a validation callback reads a CFG_SIMPLE option the way an application does: through the getters, which
	 * give the caller's variable - one value */
	if (opt->simple_value.ptr)
		n = 1;
	fputs("T valid ", obs);
	puthex(opt->name);
	fprintf(obs, " %u", n);
	for (i = 0; i < n; i++)
		put_snap(opt, i);
	fputs("\n", obs);
	cbcount++;
	if (!fail && n > 0) {
		if (opt->type == CFGT_INT && cfg_opt_getnint(opt, n - 1) == 666)
			fail = 1;
		if (opt->type == CFGT_STR && cfg_opt_getnstr(opt, n - 1) && !strcmp(cfg_opt_getnstr(opt, n - 1), "bad"))
			fail = 1;
	}
	if (fail)
		cfg_error(cfg, "callback failed");
	return fail;
}

static int setter_kind;	/* which cfg_setn* is running: the validator gets a pointer of that kind */

static int cb_valid2(cfg_t *cfg, cfg_opt_t *opt, void *value)
{
	int fail = failing();

	fputs("T valid2 ", obs);
	puthex(opt->name);
	switch (setter_kind) {
	case 'I':
		fprintf(obs, " i%ld\n", *(long *)value);
		if (*(long *)value < 0)
			fail = 1;
		else if (!fail && *(long *)value > 1000)
			*(long *)value = 1000;
		break;
	case 'F':
		fprintf(obs, " f%016lx\n", (unsigned long)dbits(*(double *)value));
		break;
	case 'B':
		/* cfg_setnbool() hands the validator a pointer to the boolean (fix F54) */
		fprintf(obs, " i%d\n", *(cfg_bool_t *)value ? 1 : 0);
		break;
	default:
		fputs(" s", obs);
		puthex((const char *)value);
		fputs("\n", obs);
		if (value && ((const char *)value)[0] == '!')
			fail = 1;
		break;
	}
	cbcount++;
	if (fail)
		cfg_error(cfg, "callback failed");
	return fail;
}


/* streams that cannot be read: 0 = a directory opened for reading, 1 = a stream opened for writing only,
 * 2 = a stream that delivers `s = "abc` and then fails (the failure strikes inside a string) */
static const char cookie_text[] = "s = \"abc";
static ssize_t cookie_read(void *c, char *buf, size_t n)
{
	size_t *pos = c, left = sizeof cookie_text - 1 - *pos;

	if (left == 0) {
		errno = EIO;
		return -1;
	}
	if (n > left)
		n = left;
	memcpy(buf, cookie_text + *pos, n);
	*pos += n;
	return (ssize_t)n;
}
static size_t cookie_pos;
static FILE *failing_stream(int kind)
{
	cookie_io_functions_t io = { cookie_read, NULL, NULL, NULL };

	if (kind == 0)
		return fopen(".", "r");
	if (kind == 1)
		return fopen("/dev/null", "w");
	cookie_pos = 0;
	return fopencookie(&cookie_pos, "r", io);
}

static int cb_func(cfg_t *cfg, cfg_opt_t *opt, int argc, const char **argv)
{
	int i, fail = failing();

	fputs("T func ", obs);
	puthex(opt->name);
	fprintf(obs, " %d", argc);
	for (i = 0; i < argc; i++) {
		fputs(" ", obs);
		puthex(argv[i]);
	}
	fputs("\n", obs);
	cbcount++;
	if (argc > 0 && !strcmp(argv[0], "fail"))
		fail = 1;
	/* "nest:<text>": the callback itself parses <text> into context 1 while the parse
	 * that called it is still running (a second live context, used re-entrantly) */
	if (argc > 0 && !strncmp(argv[0], "nest:", 5) && ctx[1] && ctx[1] != cfg) {
		int rc, k;
		char *text = strdup(argv[0] + 5);
		char **saved = calloc((size_t)argc, sizeof *saved);

		for (k = 0; k < argc; k++)
			saved[k] = strdup(argv[k]);
		in_nest++;
		rc = cfg_parse_buf(ctx[1], text);
		in_nest--;
		fprintf(obs, "T nest %d\n", rc);
		/* the arguments handed to THIS invocation are still the ones it was called with */
		for (k = 0; k < argc; k++) {
			if (!argv[k] || strcmp(argv[k], saved[k]) != 0)
				fprintf(obs, "H argv-changed %d\n", k);
			free(saved[k]);
		}
		free(saved);
		free(text);
	}
	/* "nestpse<k>": the callback parses a stream that cannot be read (kind k) into context 1: whatever became of that
	 * parse, the one that called it reads on as if nothing had happened */
	if (argc > 0 && !strncmp(argv[0], "nestpse", 7) && ctx[1] && ctx[1] != cfg) {
		FILE *f = failing_stream(argv[0][7] ? argv[0][7] - '0' : 0);
		int rc = -9;

		in_nest++;
		if (f) {
			rc = cfg_parse_fp(ctx[1], f);
			fclose(f);
		}
		in_nest--;
		fprintf(obs, "T nest %d\n", rc);
	}
	/* "free2": the callback frees another (root) context while the parse that called it is still running */
	if (argc > 0 && !strcmp(argv[0], "free2") && ctx[2] && ctx[2] != cfg) {
		cfg_free(ctx[2]);
		ctx[2] = NULL;
		fputs("T nest freed\n", obs);
	}
	if (fail)
		cfg_error(cfg, "callback failed");
	return fail;
}

static void cb_print(cfg_opt_t *opt, unsigned int index, FILE *fp)
{
	fprintf(fp, "<%s:%u>", opt->name, index);
}

/* print filters: four slots, each with its own list of hidden names */
#define NFILT 8
static char *filt_names[NFILT][32];
static int filt_n[NFILT];
static int filt_used;
static unsigned print_toggle;

static int filt_generic(int k, cfg_opt_t *opt)
{
	int i;

	/* "non-zero = leave out": the verdicts are not all 1 - a filter written as `return strcmp(...)` or `return -1`
	 * hides an option just as well */
	for (i = 0; i < filt_n[k]; i++)
		if (!strcmp(filt_names[k][i], opt->name))
			return (i % 3 == 0) ? -1 : (i % 3 == 1) ? 1 : (int)0x40000000;
	return 0;
}
#define FILT(k) static int filt##k(cfg_t *cfg, cfg_opt_t *opt) { (void)cfg; return filt_generic(k, opt); }
FILT(0) FILT(1) FILT(2) FILT(3) FILT(4) FILT(5) FILT(6) FILT(7)
static cfg_print_filter_func_t filt_fn[NFILT] = { filt0, filt1, filt2, filt3, filt4, filt5, filt6, filt7 };

/* ---------- schema ---------- */
#define MAXROWS 512
struct row {
	int depth;
	char *name;
	cfg_type_t type;
	int flags;
	char *def;		/* raw text of the default column */
	char *cbs;
};
static struct row rows[MAXROWS];
static int nrows;

/* every allocation that belongs to the declarations, so that XP can poison and free them */
static void *schema_mem[8192];
static size_t schema_len[8192];
static int nschema;

static void *smalloc(size_t n)
{
	void *p = calloc(1, n ? n : 1);

	schema_mem[nschema] = p;
	schema_len[nschema++] = n ? n : 1;
	return p;
}

static char *sstrdup(const char *s)
{
	char *p = smalloc(strlen(s) + 1);

	strcpy(p, s);
	return p;
}

static cfg_type_t type_of(const char *s)
{
	if (!strcmp(s, "int")) return CFGT_INT;
	if (!strcmp(s, "float")) return CFGT_FLOAT;
	if (!strcmp(s, "str")) return CFGT_STR;
	if (!strcmp(s, "bool")) return CFGT_BOOL;
	if (!strcmp(s, "sec")) return CFGT_SEC;
	if (!strcmp(s, "func")) return CFGT_FUNC;
	return CFGT_PTR;
}

static const char *type_name(cfg_type_t t)
{
	switch (t) {
	case CFGT_INT: return "int";
	case CFGT_FLOAT: return "float";
	case CFGT_STR: return "str";
	case CFGT_BOOL: return "bool";
	case CFGT_SEC: return "sec";
	case CFGT_FUNC: return "func";
	case CFGT_PTR: return "ptr";
	default: return "none";
	}
}

/* CFG_SIMPLE_*: the value lives in a variable of the application.  One cell per declared simple option and cfg_init();
 * the array keeps them reachable (the strings the library stores in them belong to the application, which here never
 * frees them before exit) */
static cfg_value_t *simple_cells[1024];
static int nsimple;

/* build the cfg_opt_t array for rows[*pos...] of the given depth */
static cfg_opt_t *build_opts(int *pos, int depth)
{
	int start = *pos, n = 0, i, p;
	cfg_opt_t *opts, *prev_sub = NULL;

	/* count siblings */
	for (p = start; p < nrows && rows[p].depth >= depth; p++)
		if (rows[p].depth == depth)
			n++;
	opts = smalloc((n + 1) * sizeof(cfg_opt_t));
	for (i = 0; i < n; i++) {
		struct row *r = &rows[*pos];
		cfg_opt_t *o = &opts[i];

		(*pos)++;
		o->name = sstrdup(r->name);
		o->type = r->type;
		o->flags = r->flags;
		if (!strncmp(r->def, "L:", 2)) {
			/* list default: rebuild the text "{a, b}" with every token double-quoted via hex decode */
			char *buf = smalloc(strlen(r->def) * 3 + 16);
			char *q = buf;
			const char *s = r->def + 2;

			if (r->flags & CFGF_LIST)
				*q++ = '{';
			while (*s) {
				const char *e = strchr(s, ',');
				size_t l = e ? (size_t)(e - s) : strlen(s), k;
				char tmp[4096];
				char *t;
				size_t tl;

				memcpy(tmp, s, l);
				tmp[l] = 0;
				t = unhex(tmp, &tl);
				*q++ = '"';
				for (k = 0; k < tl; k++) {
					if (t[k] == '"' || t[k] == '\\')
						*q++ = '\\';
					*q++ = t[k];
				}
				*q++ = '"';
				free(t);
				s += l;
				if (*s == ',') {
					s++;
					*q++ = ',';
				}
			}
			if (r->flags & CFGF_LIST)
				*q++ = '}';
			*q = 0;
			o->def.parsed = buf;
		} else if (strchr(r->cbs, 's') && !(r->flags & CFGF_LIST) && nsimple < 1024 &&
			   (r->type == CFGT_INT || r->type == CFGT_FLOAT || r->type == CFGT_BOOL || r->type == CFGT_STR)) {
			/* what CFG_SIMPLE_INT(name, &var) etc. expand to; the default column says what the variable holds at first */
			cfg_value_t *cell = calloc(1, sizeof *cell);

			simple_cells[nsimple++] = cell;
			switch (r->type) {
			case CFGT_INT:
				cell->number = strtol(r->def, NULL, 10);
				o->simple_value.number = &cell->number;
				break;
			case CFGT_FLOAT:
				cell->fpnumber = bitsd(strtoull(r->def, NULL, 16));
				o->simple_value.fpnumber = &cell->fpnumber;
				break;
			case CFGT_BOOL:
				cell->boolean = (cfg_bool_t)(r->def[0] == '1');
				o->simple_value.boolean = &cell->boolean;
				break;
			default: {
				char *t = unhex(r->def, NULL);

				cell->string = t;	/* malloc()ed: the library releases it with free() when it stores another */
				o->simple_value.string = &cell->string;
				break;
			}
			}
		} else if (!(r->flags & CFGF_LIST)) {
			switch (r->type) {
			case CFGT_INT:
				o->def.number = strtol(r->def, NULL, 10);
				break;
			case CFGT_FLOAT:
				o->def.fpnumber = bitsd(strtoull(r->def, NULL, 16));
				break;
			case CFGT_BOOL:
				o->def.boolean = (cfg_bool_t)(r->def[0] == '1');
				break;
			case CFGT_STR: {
				char *t = unhex(r->def, NULL);

				o->def.string = t ? sstrdup(t) : NULL;
				free(t);
				break;
			}
			default:
				break;
			}
		}
		if (strchr(r->cbs, 'p')) o->parsecb = cb_parse;
		if (strchr(r->cbs, 'v')) o->validcb = cb_valid;
		if (strchr(r->cbs, 'w')) o->validcb2 = cb_valid2;
		if (strchr(r->cbs, 'f')) o->freecb = cb_free;
		if (strchr(r->cbs, 'r')) o->pf = cb_print;
		if (strchr(r->cbs, 'I')) o->func = cfg_include;
		if (strchr(r->cbs, 'U')) o->func = cb_func;
		if (r->type == CFGT_SEC) {
			if (strchr(r->cbs, 'S') && prev_sub) {
				/* the caller declares this section over the very same sub-option array as the section option
				 * before it (a shared table): its own rows repeat that table for the model and are skipped here */
				while (*pos < nrows && rows[*pos].depth > depth)
					(*pos)++;
				o->subopts = prev_sub;
			} else {
				o->subopts = build_opts(pos, depth + 1);
			}
			prev_sub = o->subopts;
		}
	}
	return opts;
}

/* ---------- contexts ---------- */

static void dump_cfg(cfg_t *cfg, int depth);

/* The dump reads the tree through the by-option accessors.  The by-name getters (cfg_getnint() ... cfg_size(),
 * cfg_getcomment(), cfg_getnsec(), cfg_gettsec(), cfg_name(), cfg_opt_name(), cfg_title()) are what applications
 * use ("as observed through the getters"): every dump also reads each value through them and reports a hazard when
 * the two views differ.  Only done for names that are plain words and the first of their name in the section. */
static int plain_first(cfg_t *cfg, cfg_opt_t *opt)
{
	const char *c;
	unsigned int i;
	cfg_opt_t *o;

	if (!opt->name || !opt->name[0])
		return 0;
	for (c = opt->name; *c; c++)
		if (!isalnum((unsigned char)*c) && *c != '_' && *c != '-' && *c != '.')
			return 0;
	for (i = 0; (o = cfg_getnopt(cfg, i)) && o != opt; i++)
		if (o->name && strcasecmp(o->name, opt->name) == 0)
			return 0;
	return 1;
}

static void getter_hazard(cfg_opt_t *opt, const char *what, unsigned int i)
{
	fprintf(obs, "H getter %s ", what);
	puthex(opt->name);
	fprintf(obs, " %u\n", i);
}

static void cross_check(cfg_t *cfg, cfg_opt_t *opt)
{
	unsigned int i, n = opt->nvalues;
	const char *nm = opt->name;
	int q = quiet;

	if (cfg_opt_name(opt) != opt->name)
		getter_hazard(opt, "opt_name", 0);
	if (cfg_opt_size(opt) != n)
		getter_hazard(opt, "opt_size", 0);
	if (cfg_opt_getcomment(opt) != opt->comment)
		getter_hazard(opt, "opt_getcomment", 0);
	if (!plain_first(cfg, opt))
		return;
	quiet = 1;
	if (cfg_getopt(cfg, nm) != opt)
		getter_hazard(opt, "getopt", 0);
	if (cfg_size(cfg, nm) != n)
		getter_hazard(opt, "size", 0);
	if (cfg_getcomment(cfg, nm) != opt->comment)
		getter_hazard(opt, "getcomment", 0);
	for (i = 0; i <= n; i++) {	/* one past the end too: both views must give the same 'no value' answer */
		switch (opt->type) {
		case CFGT_INT:
			if (cfg_getnint(cfg, nm, i) != cfg_opt_getnint(opt, i) || (i == 0 && cfg_getint(cfg, nm) != cfg_opt_getnint(opt, 0)))
				getter_hazard(opt, "getnint", i);
			break;
		case CFGT_FLOAT:
			if (dbits(cfg_getnfloat(cfg, nm, i)) != dbits(cfg_opt_getnfloat(opt, i)) || (i == 0 && dbits(cfg_getfloat(cfg, nm)) != dbits(cfg_opt_getnfloat(opt, 0))))
				getter_hazard(opt, "getnfloat", i);
			break;
		case CFGT_BOOL:
			if (cfg_getnbool(cfg, nm, i) != cfg_opt_getnbool(opt, i) || (i == 0 && cfg_getbool(cfg, nm) != cfg_opt_getnbool(opt, 0)))
				getter_hazard(opt, "getnbool", i);
			break;
		case CFGT_STR:
			if (cfg_getnstr(cfg, nm, i) != cfg_opt_getnstr(opt, i) || (i == 0 && (cfg_getstr(cfg, nm) != cfg_opt_getnstr(opt, 0) || cfg_opt_getstr(opt) != cfg_opt_getnstr(opt, 0))))
				getter_hazard(opt, "getnstr", i);
			break;
		case CFGT_PTR:
			if (cfg_getnptr(cfg, nm, i) != cfg_opt_getnptr(opt, i) || (i == 0 && cfg_getptr(cfg, nm) != cfg_opt_getnptr(opt, 0)))
				getter_hazard(opt, "getnptr", i);
			break;
		case CFGT_SEC: {
			cfg_t *s = cfg_opt_getnsec(opt, i);

			if (cfg_getnsec(cfg, nm, i) != s || (i == 0 && cfg_getsec(cfg, nm) != s))
				getter_hazard(opt, "getnsec", i);
			if (s) {
				unsigned int j;
				cfg_t *first = s;

				if (cfg_name(s) != s->name || strcmp(cfg_name(s), nm) != 0)
					getter_hazard(opt, "name", i);
				if (cfg_title(s) != s->title)
					getter_hazard(opt, "title", i);
				if (s->title && (opt->flags & CFGF_TITLE)) {
					/* the by-title getter returns the first instance carrying that title */
					int untitled_before = 0;	/* the by-title lookup gives up at an instance without a title */

					for (j = 0; j < i; j++) {
						cfg_t *e = cfg_opt_getnsec(opt, j);

						if (e && !e->title)
							untitled_before = 1;
						if (e && e->title && ((opt->flags & CFGF_NOCASE) ? strcasecmp(e->title, s->title) : strcmp(e->title, s->title)) == 0) {
							first = e;
							break;
						}
					}
					if (untitled_before)
						first = NULL;
					if (cfg_opt_gettsec(opt, s->title) != first || cfg_gettsec(cfg, nm, s->title) != first)
						getter_hazard(opt, "gettsec", i);
				}
			}
			break;
		}
		default:
			break;
		}
	}
	quiet = q;
}

static void dump_opt(cfg_t *cfg, cfg_opt_t *opt, int depth)
{
	unsigned int i;

	unsigned int n = opt->nvalues;
	int flags = opt->flags;

	cross_check(cfg, opt);
	if (opt->simple_value.ptr) {
		/* a simple option is shown as what it is: a scalar option holding exactly one value, the application's variable
		 * (read below through the getters).  The library keeps no cell of its own for it ... */
		if (opt->nvalues != 0 || opt->values)
			getter_hazard(opt, "simple_has_cells", opt->nvalues);
		n = 1;
		/* ... and never takes back the parser's "replace" mark, which it only looks at for cells of its own */
		flags &= ~CFGF_RESET;
	}
	fprintf(obs, "V %d ", depth);
	puthex(opt->name);
	fprintf(obs, " %s %d %u ", type_name(opt->type), flags, n);
	puthex(opt->comment);
	if (opt->type == CFGT_SEC) {
		fputs("\n", obs);
		for (i = 0; i < opt->nvalues; i++) {
			cfg_t *s = cfg_opt_getnsec(opt, i);

			fprintf(obs, "U %d ", depth);
			puthex(cfg_title(s));
			fprintf(obs, " %d\n", s->flags);
			dump_cfg(s, depth + 1);
		}
		return;
	}
	for (i = 0; i < n; i++) {
		switch (opt->type) {
		case CFGT_INT:
			fprintf(obs, " %ld", cfg_opt_getnint(opt, i));
			break;
		case CFGT_FLOAT:
			fprintf(obs, " %016lx", (unsigned long)dbits(cfg_opt_getnfloat(opt, i)));
			break;
		case CFGT_BOOL:
			fprintf(obs, " %d", (int)cfg_opt_getnbool(opt, i));
			break;
		case CFGT_STR:
			fputs(" ", obs);
			puthex(cfg_opt_getnstr(opt, i));
			break;
		case CFGT_PTR: {
			struct pv *p = cfg_opt_getnptr(opt, i);

			fputs(" ", obs);
			puthex(p ? p->tok : NULL);
			break;
		}
		default:
			break;
		}
	}
	fputs("\n", obs);
}

static void dump_cfg(cfg_t *cfg, int depth)
{
	unsigned int i;
	cfg_opt_t *o;

	if (cfg_num(cfg) != (unsigned int)({ unsigned int k = 0; while (cfg->opts[k].name) k++; k; }))
		fprintf(obs, "H getter num\n");
	for (i = 0; (o = cfg_getnopt(cfg, i)); i++)
		dump_opt(cfg, o, depth);
}

/* position of an option / section inside the tree */
static int find_opt(cfg_t *cfg, cfg_opt_t *target, char *path, size_t plen)
{
	unsigned int i, j;
	cfg_opt_t *o;

	for (i = 0; (o = cfg_getnopt(cfg, i)); i++) {
		if (o == target) {
			snprintf(path + strlen(path), plen - strlen(path), "%s%u", path[0] ? "/" : "", i);
			return 1;
		}
		if (o->type == CFGT_SEC)
			for (j = 0; j < o->nvalues; j++) {
				size_t l = strlen(path);

				snprintf(path + l, plen - l, "%s%u.%u", l ? "/" : "", i, j);
				if (find_opt(cfg_opt_getnsec(o, j), target, path, plen))
					return 1;
				path[l] = 0;
			}
	}
	return 0;
}

static int find_sec(cfg_t *cfg, cfg_t *target, char *path, size_t plen)
{
	unsigned int i, j;
	cfg_opt_t *o;

	for (i = 0; (o = cfg_getnopt(cfg, i)); i++)
		if (o->type == CFGT_SEC)
			for (j = 0; j < o->nvalues; j++) {
				size_t l = strlen(path);
				cfg_t *s = cfg_opt_getnsec(o, j);

				snprintf(path + l, plen - l, "%s%u.%u", l ? "/" : "", i, j);
				if (s == target || find_sec(s, target, path, plen))
					return 1;
				path[l] = 0;
			}
	return 0;
}

static long count_arrays(cfg_t *cfg)
{
	long n = 0;
	unsigned int i, j;
	cfg_opt_t *o;

	for (i = 0; (o = cfg_getnopt(cfg, i)); i++) {
		if (o->values)
			n++;
		if (o->type == CFGT_SEC)
			for (j = 0; j < o->nvalues; j++)
				n += count_arrays(cfg_opt_getnsec(o, j));
	}
	return n;
}

static int count_fds(void)
{
	int n = 0;
	DIR *d = opendir("/proc/self/fd");
	struct dirent *e;

	if (!d)
		return -1;
	while ((e = readdir(d)))
		if (e->d_name[0] != '.')
			n++;
	closedir(d);
	return n - 1;		/* minus the DIR's own descriptor */
}

static void mkdirs_for(const char *path)
{
	char tmp[4096];
	char *p;

	snprintf(tmp, sizeof tmp, "%s", path);
	for (p = tmp + 1; *p; p++)
		if (*p == '/') {
			*p = 0;
			mkdir(tmp, 0777);
			*p = '/';
		}
}

/*
 * The model prints "R <rc>" before the G/T lines of an operation, the implementation learns
 * rc only afterwards.  Each operation's lines are therefore buffered in memory and flushed
 * as: R line, then the buffered G/T lines, then the rest.
 */
static char *opbuf;
static size_t opbuf_len;
static FILE *real_obs;

static void op_begin(void)
{
	real_obs = obs;
	opbuf = NULL;
	opbuf_len = 0;
	obs = open_memstream(&opbuf, &opbuf_len);
}

static void op_end_r(const char *rline, const char *tail)
{
	fclose(obs);
	obs = real_obs;
	fputs(rline, obs);
	if (opbuf_len)
		fwrite(opbuf, 1, opbuf_len, obs);
	if (tail)
		fputs(tail, obs);
	free(opbuf);
	fflush(obs);
}

static void call_list(cfg_t *cfg, const char *path, cfg_type_t ty, int n, char **w, int append, int *rc)
{
	long iv[8];
	double dv[8];
	char *sv[8];
	int i;

	for (i = 0; i < n && i < 8; i++) {
		iv[i] = 0;
		dv[i] = 0;
		sv[i] = NULL;
		switch (ty) {
		case CFGT_FLOAT:
			dv[i] = bitsd(strtoull(w[i], NULL, 16));
			break;
		case CFGT_STR:
			sv[i] = unhex(w[i], NULL);
			break;
		default:
			iv[i] = strtol(w[i], NULL, 10);
			break;
		}
	}
#define CALL(f, A) \
	switch (n) { \
	case 0: *rc = f(cfg, path, 0); break; \
	case 1: *rc = f(cfg, path, 1, A(0)); break; \
	case 2: *rc = f(cfg, path, 2, A(0), A(1)); break; \
	case 3: *rc = f(cfg, path, 3, A(0), A(1), A(2)); break; \
	case 4: *rc = f(cfg, path, 4, A(0), A(1), A(2), A(3)); break; \
	case 5: *rc = f(cfg, path, 5, A(0), A(1), A(2), A(3), A(4)); break; \
	default: *rc = f(cfg, path, 6, A(0), A(1), A(2), A(3), A(4), A(5)); break; \
	}
#define AI(k) (int)iv[k]
#define AD(k) dv[k]
#define AS(k) sv[k]
	if (append) {
		if (ty == CFGT_FLOAT) { CALL(cfg_addlist, AD) }
		else if (ty == CFGT_STR) { CALL(cfg_addlist, AS) }
		else { CALL(cfg_addlist, AI) }
	} else {
		if (ty == CFGT_FLOAT) { CALL(cfg_setlist, AD) }
		else if (ty == CFGT_STR) { CALL(cfg_setlist, AS) }
		else { CALL(cfg_setlist, AI) }
	}
	for (i = 0; i < n && i < 8; i++)
		free(sv[i]);
}

static void run_line(char *line)
{
	char *w[600];
	int n = 0;
	char *save = NULL, *t;
	char rbuf[128];

	for (t = strtok_r(line, " \r\n", &save); t && n < 600; t = strtok_r(NULL, " \r\n", &save))
		w[n++] = t;
	if (!n)
		return;

#define CTX(i) ctx[atoi(w[i]) & 3]
#define NEEDCTX(i) if (!CTX(i)) { fputs("R nocontext\n", obs); return; }

	if (!strcmp(w[0], "S")) {
		nrows = 0;
	} else if (!strcmp(w[0], "O") && n == 7) {
		struct row *r = &rows[nrows++];

		r->depth = atoi(w[1]);
		r->name = unhex(w[2], NULL);
		r->type = type_of(w[3]);
		r->flags = atoi(w[4]);
		r->def = strdup(w[5]);
		r->cbs = strdup(w[6]);
	} else if (!strcmp(w[0], "E")) {
		/* nothing: arrays are built per X so that every context gets fresh declarations */
	} else if (!strcmp(w[0], "ENV") && n == 3) {
		char *name = unhex(w[1], NULL), *val = unhex(w[2], NULL);

		if (val)
			setenv(name, val, 1);
		else
			unsetenv(name);
		free(name);
		free(val);
	} else if (!strcmp(w[0], "CWD") && n == 2) {
		char *p = unhex(w[1], NULL);
		char tmp[4096];

		snprintf(tmp, sizeof tmp, "%s/x", p);
		mkdirs_for(tmp);
		if (chdir(p) != 0)
			fputs("H chdir\n", obs);
		free(p);
	} else if (!strcmp(w[0], "FILE") && n == 4) {
		char *p = unhex(w[1], NULL);
		size_t len;
		char *c = unhex(w[3], &len);

		mkdirs_for(p);
		if (!strcmp(w[2], "dir")) {
			mkdir(p, 0777);
		} else if (!strcmp(w[2], "unreadable")) {
			/* opens as a regular file, the first read fails (EIO) */
			if (symlink("/proc/self/mem", p) != 0)
				fputs("I symlink-failed\n", obs);
		} else {
			FILE *f = fopen(p, "w");

			if (f) {
				fwrite(c, 1, len, f);
				fclose(f);
			}
		}
		free(p);
		free(c);
	} else if (!strcmp(w[0], "STACK") && n == 2) {
		/* little stack for the rest of this case (each case is a process of its own): growth beyond it is a SIGSEGV */
		struct rlimit rl;

		if (getrlimit(RLIMIT_STACK, &rl) == 0) {
			rl.rlim_cur = (rlim_t)atol(w[1]) * 1024;
			setrlimit(RLIMIT_STACK, &rl);
		}
	} else if (!strcmp(w[0], "PW") || !strcmp(w[0], "MAXINC") || !strcmp(w[0], "MPB")) {
		/* oracle facts for the model only */
	} else if (!strcmp(w[0], "ERRNO") && n == 2) {
		pending_errno = atoi(w[1]);
	} else if (!strcmp(w[0], "FAILAT") && n == 2) {
		fail_at = strcmp(w[1], "-") ? atol(w[1]) : -1;
	} else if ((!strcmp(w[0], "X") || !strcmp(w[0], "XP")) && (n == 3 || n == 4)) {
		int pos = 0, first = nschema, i;
		cfg_opt_t *opts = build_opts(&pos, 0);
		cfg_t *c = cfg_init(opts, atoi(w[2]));

		if (c)
			cfg_set_error_function(c, errfunc);
		CTX(1) = c;
		if (n == 4) {
			/* a second context from the very same declaration arrays */
			cfg_t *c2 = cfg_init(opts, atoi(w[2]));

			if (c2)
				cfg_set_error_function(c2, errfunc);
			CTX(3) = c2;
		}
		if (!strcmp(w[0], "XP")) {
			/* the caller's declarations are gone from now on */
			for (i = first; i < nschema; i++) {
				memset(schema_mem[i], 0xA5, schema_len[i]);
				free(schema_mem[i]);
			}
			nschema = first;
		}
		fprintf(obs, "R %d\n", c ? 0 : -1);
	} else if (!strcmp(w[0], "SP") && n == 3) {
		char *d = unhex(w[2], NULL);

		NEEDCTX(1);
		fprintf(obs, "R %d\n", cfg_add_searchpath(CTX(1), d));
		free(d);
	} else if ((!strcmp(w[0], "PB") || !strcmp(w[0], "PS") || !strcmp(w[0], "PF")) && n == 3) {
		size_t len;
		char *t2 = unhex(w[2], &len);
		int rc, fds0;
		char tail[64];

		NEEDCTX(1);
		fds0 = count_fds();
		op_begin();
		if (!strcmp(w[0], "PB")) {
			APPLY_ERRNO();
			rc = cfg_parse_buf(CTX(1), t2);
		} else if (!strcmp(w[0], "PF")) {
			APPLY_ERRNO();
			rc = cfg_parse(CTX(1), t2);
		} else {
			FILE *f = tmpfile();

			fwrite(t2, 1, len, f);
			rewind(f);
			rc = cfg_parse_fp(CTX(1), f);
			fclose(f);
		}
		snprintf(rbuf, sizeof rbuf, "R %d\n", rc);
		snprintf(tail, sizeof tail, "I %d %d\n", cfg_include_stack_ptr, count_fds() - fds0);
		op_end_r(rbuf, tail);
		free(t2);
	} else if (!strcmp(w[0], "PSE") && n == 3) {
		/* cfg_parse_fp() on a stream that cannot be read: 0 = a directory opened for reading, 1 = a stream opened for writing */
		FILE *f;
		int rc = -9, fds0;
		char tail[64];

		NEEDCTX(1);
		fds0 = count_fds();
		f = failing_stream(atoi(w[2]));
		op_begin();
		if (f) {
			rc = cfg_parse_fp(CTX(1), f);
			fclose(f);
		}
		snprintf(rbuf, sizeof rbuf, "R %d\n", rc);
		snprintf(tail, sizeof tail, "I %d %d\n", cfg_include_stack_ptr, count_fds() - fds0);
		op_end_r(rbuf, tail);
	} else if (n == 5 && strlen(w[0]) == 2 && (w[0][0] == 'S' || w[0][0] == 'O') && strchr("IFBS", w[0][1])) {
		char *p = unhex(w[2], NULL);
		unsigned int idx = (unsigned int)strtoul(w[3], NULL, 10);
		int rc = -1, wrap;
		static unsigned wrap_toggle;
		cfg_t *c;
		cfg_opt_t *o = NULL;

		NEEDCTX(1);
		c = CTX(1);
		op_begin();
		if (w[0][0] == 'O')
			o = cfg_getopt(c, p);
		setter_kind = w[0][1];
		/* index 0 by name: every other call goes through the un-indexed wrapper (cfg_setint() ...), which must
		 * mean the same */
		wrap = (w[0][0] == 'S' && idx == 0) ? (wrap_toggle++ & 1) : 0;
		switch (w[0][1]) {
		case 'I':
			rc = wrap ? cfg_setint(c, p, strtol(w[4], NULL, 10)) :
			     w[0][0] == 'S' ? cfg_setnint(c, p, strtol(w[4], NULL, 10), idx) : cfg_opt_setnint(o, strtol(w[4], NULL, 10), idx);
			break;
		case 'F':
			rc = wrap ? cfg_setfloat(c, p, bitsd(strtoull(w[4], NULL, 16))) :
			     w[0][0] == 'S' ? cfg_setnfloat(c, p, bitsd(strtoull(w[4], NULL, 16)), idx)
					    : cfg_opt_setnfloat(o, bitsd(strtoull(w[4], NULL, 16)), idx);
			break;
		case 'B':
			rc = wrap ? cfg_setbool(c, p, (cfg_bool_t)atoi(w[4])) :
			     w[0][0] == 'S' ? cfg_setnbool(c, p, (cfg_bool_t)atoi(w[4]), idx) : cfg_opt_setnbool(o, (cfg_bool_t)atoi(w[4]), idx);
			break;
		case 'S': {
			char *v = unhex(w[4], NULL);

			rc = wrap ? cfg_setstr(c, p, v) :
			     w[0][0] == 'S' ? cfg_setnstr(c, p, v, idx) : cfg_opt_setnstr(o, v, idx);
			free(v);
			break;
		}
		}
		snprintf(rbuf, sizeof rbuf, "R %d\n", rc);
		op_end_r(rbuf, NULL);
		free(p);
	} else if ((!strcmp(w[0], "SL") || !strcmp(w[0], "AL")) && n >= 3) {
		char *p = unhex(w[2], NULL);
		cfg_opt_t *o;
		int rc = -1;

		NEEDCTX(1);
		quiet = 1;
		o = cfg_getopt(CTX(1), p);
		quiet = 0;
		op_begin();
		call_list(CTX(1), p, o ? o->type : CFGT_INT, n - 3, w + 3, !strcmp(w[0], "AL"), &rc);
		snprintf(rbuf, sizeof rbuf, "R %d\n", rc);
		op_end_r(rbuf, NULL);
		free(p);
	} else if (!strcmp(w[0], "SM") && n >= 3) {
		char *p = unhex(w[2], NULL);
		char *vals[600];
		int i, rc;

		NEEDCTX(1);
		for (i = 3; i < n; i++)
			vals[i - 3] = unhex(w[i], NULL);
		op_begin();
		APPLY_ERRNO();
		rc = cfg_setmulti(CTX(1), p, (unsigned int)(n - 3), vals);
		snprintf(rbuf, sizeof rbuf, "R %d\n", rc);
		op_end_r(rbuf, NULL);
		for (i = 3; i < n; i++)
			free(vals[i - 3]);
		free(p);
	} else if (!strcmp(w[0], "SO") && n == 4) {
		char *p = unhex(w[2], NULL), *v = unhex(w[3], NULL);
		cfg_value_t *r;

		NEEDCTX(1);
		op_begin();
		APPLY_ERRNO();
		r = cfg_setopt(CTX(1), cfg_getopt(CTX(1), p), v);
		snprintf(rbuf, sizeof rbuf, "R %d\n", r ? 0 : -1);
		op_end_r(rbuf, NULL);
		free(p);
		free(v);
	} else if (!strcmp(w[0], "SSA") && n == 4) {
		/* set a string from the very string the option holds at that index: cfg_setnstr(cfg, n, cfg_getnstr(cfg, n, i), i) */
		char *p = unhex(w[2], NULL);
		unsigned int idx = (unsigned int)strtoul(w[3], NULL, 10);
		int rc;

		NEEDCTX(1);
		op_begin();
		setter_kind = 'S';
		rc = cfg_setnstr(CTX(1), p, cfg_getnstr(CTX(1), p, idx), idx);
		snprintf(rbuf, sizeof rbuf, "R %d\n", rc);
		op_end_r(rbuf, NULL);
		free(p);
	} else if (!strcmp(w[0], "SLA") && n == 5) {
		/* replace a string list by two of its own elements: cfg_setlist(cfg, n, 2, cfg_getnstr(cfg, n, i), cfg_getnstr(cfg, n, j)) */
		char *p = unhex(w[2], NULL);
		unsigned int i = (unsigned int)strtoul(w[3], NULL, 10), j = (unsigned int)strtoul(w[4], NULL, 10);
		int rc;

		NEEDCTX(1);
		op_begin();
		rc = cfg_setlist(CTX(1), p, 2, cfg_getnstr(CTX(1), p, i), cfg_getnstr(CTX(1), p, j));
		snprintf(rbuf, sizeof rbuf, "R %d\n", rc);
		op_end_r(rbuf, NULL);
		free(p);
	} else if (!strcmp(w[0], "SOA") && n == 3) {
		/* set a string option from the very string it holds: the argument aliases what the call releases */
		char *p = unhex(w[2], NULL);
		cfg_opt_t *o;
		cfg_value_t *r;

		NEEDCTX(1);
		op_begin();
		o = cfg_getopt(CTX(1), p);
		r = cfg_setopt(CTX(1), o, (o && o->type == CFGT_STR) ? cfg_opt_getnstr(o, 0) : NULL);
		snprintf(rbuf, sizeof rbuf, "R %d\n", r ? 0 : -1);
		op_end_r(rbuf, NULL);
		free(p);
	} else if (!strcmp(w[0], "SC") && n == 4) {
		char *p = unhex(w[2], NULL), *v = unhex(w[3], NULL);
		int rc;

		NEEDCTX(1);
		op_begin();
		rc = cfg_setcomment(CTX(1), p, v);
		snprintf(rbuf, sizeof rbuf, "R %d\n", rc);
		op_end_r(rbuf, NULL);
		free(p);
		free(v);
	} else if (!strcmp(w[0], "AT") && n == 4) {
		char *p = unhex(w[2], NULL), *v = unhex(w[3], NULL);
		cfg_t *s;

		NEEDCTX(1);
		op_begin();
		s = cfg_addtsec(CTX(1), p, v);
		snprintf(rbuf, sizeof rbuf, "R %d\n", s ? 0 : -1);
		op_end_r(rbuf, NULL);
		free(p);
		free(v);
	} else if (!strcmp(w[0], "RN") && n == 4) {
		char *p = unhex(w[2], NULL);
		int rc;

		NEEDCTX(1);
		op_begin();
		rc = cfg_rmnsec(CTX(1), p, (unsigned int)strtoul(w[3], NULL, 10));
		snprintf(rbuf, sizeof rbuf, "R %d\n", rc);
		op_end_r(rbuf, NULL);
		free(p);
	} else if (!strcmp(w[0], "RT") && n == 4) {
		char *p = unhex(w[2], NULL), *v = unhex(w[3], NULL);
		int rc;

		NEEDCTX(1);
		op_begin();
		rc = cfg_rmtsec(CTX(1), p, v);
		snprintf(rbuf, sizeof rbuf, "R %d\n", rc);
		op_end_r(rbuf, NULL);
		free(p);
		free(v);
	} else if (!strcmp(w[0], "RS") && n == 3) {
		char *p = unhex(w[2], NULL);
		int rc;

		NEEDCTX(1);
		op_begin();
		APPLY_ERRNO();
		rc = cfg_rmsec(CTX(1), p);
		snprintf(rbuf, sizeof rbuf, "R %d\n", rc);
		op_end_r(rbuf, NULL);
		free(p);
	} else if (!strcmp(w[0], "GO") && n == 3) {
		char *p = unhex(w[2], NULL);
		cfg_opt_t *o;
		char path[1024] = "";

		NEEDCTX(1);
		op_begin();
		APPLY_ERRNO();	/* a lookup does not care what errno an earlier call has left behind */
		o = cfg_getopt(CTX(1), p);
		if (o && find_opt(CTX(1), o, path, sizeof path))
			snprintf(rbuf, sizeof rbuf, "P %s\n", path);
		else
			snprintf(rbuf, sizeof rbuf, "P none\n");
		op_end_r(rbuf, NULL);
		free(p);
	} else if (!strcmp(w[0], "GS") && n == 3) {
		char *p = unhex(w[2], NULL);
		cfg_t *s;
		char path[1024] = "";

		NEEDCTX(1);
		op_begin();
		APPLY_ERRNO();
		s = cfg_getsec(CTX(1), p);
		if (s && find_sec(CTX(1), s, path, sizeof path))
			snprintf(rbuf, sizeof rbuf, "P %s\n", path);
		else
			snprintf(rbuf, sizeof rbuf, "P none\n");
		op_end_r(rbuf, NULL);
		free(p);
	} else if (!strcmp(w[0], "VF") && n == 4) {
		char *p = unhex(w[2], NULL);
		cfg_opt_t *o;

		NEEDCTX(1);
		/* the setters return the *old* callback, which says nothing; resolve separately */
		if (w[3][0] == 'w')
			cfg_set_validate_func2(CTX(1), p, cb_valid2);
		else
			cfg_set_validate_func(CTX(1), p, cb_valid);
		/* found iff setting it again now returns our callback */
		if (w[3][0] == 'w')
			o = (cfg_opt_t *)(cfg_set_validate_func2(CTX(1), p, cb_valid2) == cb_valid2 ? (void *)1 : NULL);
		else
			o = (cfg_opt_t *)(cfg_set_validate_func(CTX(1), p, cb_valid) == cb_valid ? (void *)1 : NULL);
		fprintf(obs, "R %d\n", o ? 0 : -1);
		free(p);
	} else if (!strcmp(w[0], "VFS") && n == 5) {
		/* the registration function called on a section instance (not on the context) */
		char *sp = unhex(w[2], NULL), *p = unhex(w[3], NULL);
		cfg_t *sec;
		int found = 0;

		NEEDCTX(1);
		quiet = 1;
		sec = cfg_getsec(CTX(1), sp);
		if (sec) {
			if (w[4][0] == 'w') {
				cfg_set_validate_func2(sec, p, cb_valid2);
				found = cfg_set_validate_func2(sec, p, cb_valid2) == cb_valid2;
			} else {
				cfg_set_validate_func(sec, p, cb_valid);
				found = cfg_set_validate_func(sec, p, cb_valid) == cb_valid;
			}
		}
		quiet = 0;
		fprintf(obs, "R %d\n", found ? 0 : -1);
		free(sp);
		free(p);
	} else if (!strcmp(w[0], "PFN") && n == 4) {
		/* install (1) or remove (0) a print callback at run time */
		char *p = unhex(w[2], NULL);
		cfg_print_func_t want = w[3][0] == '1' ? cb_print : NULL;

		NEEDCTX(1);
		quiet = 1;
		cfg_set_print_func(CTX(1), p, want);
		/* found iff setting it again returns what was just installed */
		if (want)
			fprintf(obs, "R %d\n", cfg_set_print_func(CTX(1), p, want) == want ? 0 : -1);
		else
			fprintf(obs, "R %d\n", cfg_getopt(CTX(1), p) ? 0 : -1);
		quiet = 0;
		free(p);
	} else if (!strcmp(w[0], "FL") && n >= 3) {
		cfg_t *target;
		int i, k = filt_used++ % NFILT;

		NEEDCTX(1);
		if (!strcmp(w[2], ".")) {
			target = CTX(1);
		} else {
			char *p = unhex(w[2], NULL);

			quiet = 1;
			target = cfg_getsec(CTX(1), p);
			quiet = 0;
			free(p);
		}
		filt_n[k] = 0;
		for (i = 3; i < n && filt_n[k] < 32; i++)
			filt_names[k][filt_n[k]++] = unhex(w[i], NULL);
		if (target)
			cfg_set_print_filter_func(target, filt_fn[k]);
		fprintf(obs, "R %d\n", target ? 0 : -1);
	} else if (!strcmp(w[0], "D") && n == 2) {
		NEEDCTX(1);
		dump_cfg(CTX(1), 0);
		fputs(".\n", obs);
	} else if (!strcmp(w[0], "PR") && n == 2) {
		char *buf = NULL;
		size_t len = 0;
		FILE *f;

		NEEDCTX(1);
		f = open_memstream(&buf, &len);
		if (print_toggle++ & 1)
			cfg_print_indent(CTX(1), f, 0);	/* the same text by definition */
		else
			cfg_print(CTX(1), f);
		fclose(f);
		fputs("B ", obs);
		puthexn(buf, len);
		fputs("\n", obs);
		free(buf);
	} else if (!strcmp(w[0], "EF") && n == 3) {
		NEEDCTX(1);
		cfg_set_error_function(CTX(1), atoi(w[2]) ? errfunc2 : errfunc);
		fputs("R 0\n", obs);
	} else if (!strcmp(w[0], "PI") && n == 3) {
		/* cfg_print_indent() from a given starting level */
		char *buf = NULL;
		size_t len = 0;
		FILE *f;

		NEEDCTX(1);
		f = open_memstream(&buf, &len);
		cfg_print_indent(CTX(1), f, atoi(w[2]));
		fclose(f);
		fputs("B ", obs);
		puthexn(buf, len);
		fputs("\n", obs);
		free(buf);
	} else if (!strcmp(w[0], "POI") && n == 4) {
		char *p = unhex(w[2], NULL);
		cfg_opt_t *o;

		NEEDCTX(1);
		quiet = 1;
		o = cfg_getopt(CTX(1), p);
		quiet = 0;
		if (o) {
			char *buf = NULL;
			size_t len = 0;
			FILE *f = open_memstream(&buf, &len);

			cfg_opt_print_indent(o, f, atoi(w[3]));
			fclose(f);
			fputs("B ", obs);
			puthexn(buf, len);
			fputs("\n", obs);
			free(buf);
		} else {
			fputs("B -\n", obs);
		}
		free(p);
	} else if (!strcmp(w[0], "PP") && n == 3) {
		/* print context a to memory, parse that text into context b */
		char *buf = NULL;
		size_t len = 0;
		FILE *f;
		int rc, fds0;
		char tail[64];

		NEEDCTX(1);
		NEEDCTX(2);
		f = open_memstream(&buf, &len);
		cfg_print(CTX(1), f);
		fclose(f);
		fds0 = count_fds();
		op_begin();
		rc = cfg_parse_buf(CTX(2), buf);
		snprintf(rbuf, sizeof rbuf, "R %d\n", rc);
		snprintf(tail, sizeof tail, "I %d %d\n", cfg_include_stack_ptr, count_fds() - fds0);
		op_end_r(rbuf, tail);
		free(buf);
	} else if (!strcmp(w[0], "PO") && n == 3) {
		char *p = unhex(w[2], NULL);
		cfg_opt_t *o;

		NEEDCTX(1);
		quiet = 1;
		o = cfg_getopt(CTX(1), p);
		quiet = 0;
		if (o) {
			char *buf = NULL;
			size_t len = 0;
			FILE *f = open_memstream(&buf, &len);

			if (print_toggle++ & 1)
				cfg_opt_print_indent(o, f, 0);
			else
				cfg_opt_print(o, f);
			fclose(f);
			fputs("B ", obs);
			puthexn(buf, len);
			fputs("\n", obs);
			free(buf);
		} else {
			fputs("B -\n", obs);
		}
		free(p);
	} else if (!strcmp(w[0], "F") && n == 2) {
		NEEDCTX(1);
		op_begin();
		cfg_free(CTX(1));
		CTX(1) = NULL;
		op_end_r("R 0\n", NULL);
	} else if (!strcmp(w[0], "TE") && n == 2) {
		char *p = unhex(w[1], NULL);
		char *r = cfg_tilde_expand(p);

		fputs("S ", obs);
		puthex(r);
		fputs("\n", obs);
		lib_free(r);
		free(p);
	} else if (!strcmp(w[0], "SQ") && n == 3) {
		char *p = unhex(w[2], NULL);
		char *r;

		NEEDCTX(1);
		APPLY_ERRNO();	/* what errno an earlier call left behind is nothing a lookup looks at */
		r = CTX(1)->path ? cfg_searchpath(CTX(1)->path, p) : NULL;
		fputs("S ", obs);
		puthex(r);
		fputs("\n", obs);
		lib_free(r);
		free(p);
	} else if (!strcmp(w[0], "LIVE")) {
		/* live blocks allocated by confuse.c, minus the `values` pointer arrays (see Model/Ledger.lean) */
		long arrays = 0;
		int i;

		for (i = 0; i < 4; i++)
			if (ctx[i])
				arrays += count_arrays(ctx[i]);
		fprintf(obs, "L %ld\n", verif_live_blocks ? verif_live_blocks() - arrays : -1);
	} else if (!strcmp(w[0], "FAULT") && n == 2) {
		if (verif_fail_at)
			verif_fail_at(atol(w[1]));
	} else {
		fputs("bad-op\n", obs);
	}
	fflush(obs);
}

/* ---------- case loop ---------- */
static char **lines;
static size_t nlines;

static void run_case(size_t from, size_t to, int timeout_s)
{
	int pfd[2];
	pid_t pid;
	char capname[] = "/tmp/verif_cap_XXXXXX";
	int capfd = mkstemp(capname);
	char buf[65536];
	ssize_t r;
	int status;
	struct stat st;

	if (pipe(pfd) != 0)
		exit(3);
	fflush(stdout);
	pid = fork();
	if (pid == 0) {
		int devnull = open("/dev/null", O_RDWR);
		size_t i;

		close(pfd[0]);
		obs = fdopen(pfd[1], "w");
		dup2(devnull, 0);
		dup2(capfd, 1);
		dup2(devnull, 2);
		alarm((unsigned int)timeout_s);
		for (i = from; i < to; i++) {
			char *l = strdup(lines[i]);

			run_line(l);
			free(l);
		}
		fflush(obs);
		/* leave through exit() so that LeakSanitizer runs; contexts still alive are the case's business */
		exit(0);
	}
	close(pfd[1]);
	while ((r = read(pfd[0], buf, sizeof buf)) > 0)
		fwrite(buf, 1, (size_t)r, stdout);
	close(pfd[0]);
	waitpid(pid, &status, 0);
	if (WIFSIGNALED(status)) {
		if (WTERMSIG(status) == SIGALRM)
			printf("\nH timeout\n");
		else
			printf("\nH signal %d\n", WTERMSIG(status));
	} else if (WEXITSTATUS(status) == 99) {
		printf("\nH asan\n");
	} else if (WEXITSTATUS(status) == 98) {
		printf("\nH leak\n");
	} else if (WEXITSTATUS(status) != 0) {
		printf("\nH exit %d\n", WEXITSTATUS(status));
	}
	if (fstat(capfd, &st) == 0 && st.st_size > 0)
		printf("H stdout %ld\n", (long)st.st_size);
	close(capfd);
	unlink(capname);
}

int main(int argc, char **argv)
{
	char *line = NULL;
	size_t cap = 0, i, start = 0;
	ssize_t len;
	size_t alloc = 0;
	int timeout_s = argc > 1 ? atoi(argv[1]) : 10;
	int have_case = 0;

	while ((len = getline(&line, &cap, stdin)) > 0) {
		if (nlines == alloc) {
			alloc = alloc ? alloc * 2 : 1024;
			lines = realloc(lines, alloc * sizeof *lines);
		}
		lines[nlines++] = strdup(line);
	}
	for (i = 0; i <= nlines; i++) {
		if (i == nlines || !strncmp(lines[i], "CASE ", 5)) {
			if (have_case)
				run_case(start, i, timeout_s);
			if (i < nlines) {
				fputs(lines[i], stdout);
				start = i + 1;
				have_case = 1;
			}
		}
	}
	fflush(stdout);
	for (i = 0; i < nlines; i++)
		free(lines[i]);
	free(lines);
	free(line);
	return 0;
}
