#!/bin/sh
# Build the library objects from /repo's *current working tree* into $1.
# usage: build_impl.sh <outdir> <variant: plain|asan|fault> [repo]
# Produces $1/libconfuse_<variant>.a ; nothing is written under /repo.
set -e
HERE="$(cd "$(dirname "$0")" && pwd)"
OUT="$1"; VAR="${2:-plain}"; REPO="${3:-/repo}"
mkdir -p "$OUT/$VAR"
cd "$OUT/$VAR"
flex -Pcfg_yy -olexer.c "$REPO/src/lexer.l"
CF="-g -O1 -DHAVE_CONFIG_H -D_GNU_SOURCE -DLIBCONFUSE_VERIF -DLOCALEDIR=\"/usr/share/locale\" -I$REPO -I$REPO/src -I$HERE/fallback_config -w"
case "$VAR" in
  plain) CC=gcc ;;
  asan)  CC=gcc; CF="$CF -fsanitize=address,undefined -fno-sanitize-recover=undefined -fno-omit-frame-pointer" ;;
  fault) CC=gcc; CF="$CF -fsanitize=address,undefined -fno-sanitize-recover=undefined -fno-omit-frame-pointer" ;;
  cov|covfault) CC=gcc; CF="$CF -O0 --coverage" ;;   # tools/coverage.py only: which lines of the code the generated cases reach
esac
if [ "$VAR" = fault ] || [ "$VAR" = covfault ]; then
  $CC $CF -include "$HERE/fault_alloc.h" -c "$REPO/src/confuse.c" -o confuse.o
else
  $CC $CF -c "$REPO/src/confuse.c" -o confuse.o
fi
if [ "$VAR" = fault ] || [ "$VAR" = covfault ]; then
  $CC $CF -DVERIF_FREE_ONLY -include "$HERE/fault_alloc.h" -c lexer.c -o lexer.o
else
  $CC $CF -c lexer.c -o lexer.o
fi
ar rcs "$OUT/libconfuse_$VAR.a" confuse.o lexer.o
