/* Force-included into src/confuse.c (full mode) and into the generated lexer.c (VERIF_FREE_ONLY):
 * routes the library's own allocations through counting / failable wrappers.  No source change. */
#ifndef VERIF_FAULT_ALLOC_H
#define VERIF_FAULT_ALLOC_H
#include <stdlib.h>
#include <string.h>
#include <stdio.h>
void *verif_malloc(size_t n, const char *site);
void *verif_calloc(size_t a, size_t b, const char *site);
void *verif_realloc(void *p, size_t n, const char *site);
void *verif_reallocarray(void *p, size_t a, size_t b, const char *site);
char *verif_strdup(const char *s, const char *site);
char *verif_strndup(const char *s, size_t n, const char *site);
void verif_free(void *p);
#ifndef VERIF_FREE_ONLY
#define malloc(n) verif_malloc((n), __func__)
#define calloc(a, b) verif_calloc((a), (b), __func__)
#define realloc(p, n) verif_realloc((p), (n), __func__)
#define reallocarray(p, a, b) verif_reallocarray((p), (a), (b), __func__)
#undef strdup
#define strdup(s) verif_strdup((s), __func__)
#undef strndup
#define strndup(s, n) verif_strndup((s), (n), __func__)
#endif
#define free(p) verif_free(p)
#endif
