/* config.h.  Generated from config.h.in by configure.  */
/* config.h.in.  Generated from configure.ac by autoheader.  */

/* Define to 1 if translation of program messages to the user's native
   language is requested. */
#define ENABLE_NLS 1

/* Define to 1 if you have the Mac OS X function
   CFLocaleCopyPreferredLanguages in the CoreFoundation framework. */
/* #undef HAVE_CFLOCALECOPYPREFERREDLANGUAGES */

/* Define to 1 if you have the Mac OS X function CFPreferencesCopyAppValue in
   the CoreFoundation framework. */
/* #undef HAVE_CFPREFERENCESCOPYAPPVALUE */

/* Define if the GNU dcgettext() function is already present or preinstalled.
   */
#define HAVE_DCGETTEXT 1

/* Define to 1 if you have the <dlfcn.h> header file. */
#define HAVE_DLFCN_H 1

/* Define to 1 if you have the `fmemopen' function. */
#define HAVE_FMEMOPEN 1

/* Define to 1 if you have the `funopen' function. */
/* #undef HAVE_FUNOPEN */

/* Define if the GNU gettext() function is already present or preinstalled. */
#define HAVE_GETTEXT 1

/* Define if you have the iconv() function and it works. */
/* #undef HAVE_ICONV */

/* Define to 1 if you have the <inttypes.h> header file. */
#define HAVE_INTTYPES_H 1

/* Define to 1 if you have the `reallocarray' function. */
#define HAVE_REALLOCARRAY 1

/* Define to 1 if you have the `setenv' function. */
#define HAVE_SETENV 1

/* Define to 1 if you have the <stdint.h> header file. */
#define HAVE_STDINT_H 1

/* Define to 1 if you have the <stdio.h> header file. */
#define HAVE_STDIO_H 1

/* Define to 1 if you have the <stdlib.h> header file. */
#define HAVE_STDLIB_H 1

/* Define to 1 if you have the `strcasecmp' function. */
#define HAVE_STRCASECMP 1

/* Define to 1 if you have the `strdup' function. */
#define HAVE_STRDUP 1

/* Define to 1 if you have the <strings.h> header file. */
#define HAVE_STRINGS_H 1

/* Define to 1 if you have the <string.h> header file. */
#define HAVE_STRING_H 1

/* Define to 1 if you have the `strndup' function. */
#define HAVE_STRNDUP 1

/* Define to 1 if you have the <sys/stat.h> header file. */
#define HAVE_SYS_STAT_H 1

/* Define to 1 if you have the <sys/types.h> header file. */
#define HAVE_SYS_TYPES_H 1

/* Define to 1 if you have the <unistd.h> header file. */
#define HAVE_UNISTD_H 1

/* Define to 1 if you have the `unsetenv' function. */
#define HAVE_UNSETENV 1

/* Define to 1 if you have the <windows.h> header file. */
/* #undef HAVE_WINDOWS_H */

/* Define to 1 if you have the `_putenv' function. */
/* #undef HAVE__PUTENV */

/* Define to the sub-directory where libtool stores uninstalled libraries. */
#define LT_OBJDIR ".libs/"

/* Name of package */
#define PACKAGE "confuse"

/* Define to the address where bug reports for this package should be sent. */
#define PACKAGE_BUGREPORT "https://github.com/martinh/libconfuse/issues"

/* Define to the full name of this package. */
#define PACKAGE_NAME "libConfuse"

/* Define to the full name and version of this package. */
#define PACKAGE_STRING "libConfuse 3.3"

/* Define to the one symbol short name of this package. */
#define PACKAGE_TARNAME "confuse"

/* Define to the home page for this package. */
#define PACKAGE_URL ""

/* Define to the version of this package. */
#define PACKAGE_VERSION "3.3"

/* Define to 1 if all of the C90 standard headers exist (not just the ones
   required in a freestanding environment). This macro is provided for
   backward compatibility; new code need not use it. */
#define STDC_HEADERS 1

/* Version number of package */
#define VERSION "3.3"

/* Define to 1 if `lex' declares `yytext' as a `char *' by default, not a
   `char[]'. */
#define YYTEXT_POINTER 1

/* Define to empty if `const' does not conform to ANSI C. */
/* #undef const */
