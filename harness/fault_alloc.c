/* counting / failable allocator behind harness/fault_alloc.h */
#include <stdlib.h>
#include <string.h>
#include <stdio.h>
#include <stdint.h>

#define NSLOT (1 << 16)
static void *live[NSLOT];
static long nlive;
static long nalloc;		/* allocation requests seen since the last verif_fail_at() */
static long fail_k = -1;	/* the request with this index fails (once) */
static char sitelog[1 << 16];
static size_t sitelen;

static unsigned slot_of(void *p) { return (unsigned)(((uintptr_t)p >> 4) * 2654435761u) & (NSLOT - 1); }

static void track(void *p)
{
	unsigned i = slot_of(p);

	while (live[i])
		i = (i + 1) & (NSLOT - 1);
	live[i] = p;
	nlive++;
}

static int untrack(void *p)
{
	unsigned i = slot_of(p), j, k;

	while (live[i] && live[i] != p)
		i = (i + 1) & (NSLOT - 1);
	if (!live[i])
		return 0;
	/* delete with backward shift so that probing stays correct */
	live[i] = NULL;
	j = i;
	for (;;) {
		j = (j + 1) & (NSLOT - 1);
		if (!live[j])
			break;
		k = slot_of(live[j]);
		if ((i <= j) ? (i < k && k <= j) : (i < k || k <= j))
			continue;
		live[i] = live[j];
		live[j] = NULL;
		i = j;
	}
	nlive--;
	return 1;
}

static int should_fail(const char *site)
{
	long k = nalloc++;

	if (sitelen + strlen(site) + 2 < sizeof sitelog) {
		sitelen += (size_t)sprintf(sitelog + sitelen, "%s ", site);
	}
	if (k == fail_k) {
		fail_k = -1;
		return 1;
	}
	return 0;
}

void *verif_malloc(size_t n, const char *site)
{
	void *p;

	if (should_fail(site))
		return NULL;
	p = malloc(n ? n : 1);
	if (p)
		track(p);
	return p;
}

void *verif_calloc(size_t a, size_t b, const char *site)
{
	void *p;

	if (should_fail(site))
		return NULL;
	p = calloc(a ? a : 1, b ? b : 1);
	if (p)
		track(p);
	return p;
}

void *verif_realloc(void *old, size_t n, const char *site)
{
	void *p;

	if (should_fail(site))
		return NULL;
	if (old)
		untrack(old);
	if (old && n == 0) {
		/* as the C library the code runs against does it: realloc(p, 0) releases p and hands back NULL - code that
		 * takes that NULL for "could not shrink" keeps a released pointer */
		free(old);
		return NULL;
	}
	p = realloc(old, n ? n : 1);
	if (p)
		track(p);
	return p;
}

void *verif_reallocarray(void *old, size_t a, size_t b, const char *site)
{
	return verif_realloc(old, a * b, site);
}

char *verif_strdup(const char *s, const char *site)
{
	char *p;

	if (should_fail(site))
		return NULL;
	p = strdup(s);
	if (p)
		track(p);
	return p;
}

char *verif_strndup(const char *s, size_t n, const char *site)
{
	char *p;

	if (should_fail(site))
		return NULL;
	p = strndup(s, n);
	if (p)
		track(p);
	return p;
}

void verif_free(void *p)
{
	if (p)
		untrack(p);
	free(p);
}

long verif_live_blocks(void) { return nlive; }
long verif_alloc_count(void) { return nalloc; }
void verif_fail_at(long k) { fail_k = k; nalloc = 0; sitelen = 0; sitelog[0] = 0; }
const char *verif_site_log(void) { return sitelog; }
