#!/bin/sh
# usage: build_driver.sh <outdir> <variant> [repo] : builds library + driver -> <outdir>/impl_<variant>
set -e
HERE="$(cd "$(dirname "$0")" && pwd)"
OUT="$1"; VAR="${2:-plain}"; REPO="${3:-/repo}"
"$HERE/build_impl.sh" "$OUT" "$VAR" "$REPO"
CF="-g -O1 -w -I$REPO/src"
EXTRA=""; LD=""
case "$VAR" in
  asan) CF="$CF -fsanitize=address,undefined -fno-sanitize-recover=undefined" ;;
  fault) CF="$CF -fsanitize=address,undefined -fno-sanitize-recover=undefined"; EXTRA="$HERE/fault_alloc.c" ;;
  cov) LD="--coverage" ;;
  covfault) EXTRA="$HERE/fault_alloc.c"; LD="--coverage" ;;
esac
gcc $CF -o "$OUT/impl_$VAR" "$HERE/impl_driver.c" $EXTRA "$OUT/libconfuse_$VAR.a" $LD
