#!/usr/bin/env python3
"""Write seeded/<id>/meta.json from the sub-agent's NOTES.md, my own validation run and seeded/MATRIX.txt."""
import json, os, re, subprocess
V = os.path.dirname(os.path.dirname(os.path.abspath(__file__)))
S = os.path.join(V, "seeded")
head = subprocess.run(["git", "-C", "/repo", "rev-parse", "--short", "HEAD"], capture_output=True, text=True).stdout.strip()
matrix = {}
mp = os.path.join(S, "MATRIX.txt")
if os.path.exists(mp):
    for l in open(mp):
        if l.startswith("C") and ":" in l:
            k, v = l.split(":", 1)
            matrix[k.strip()] = v.split()
REBASED = {"C02", "C04", "C13"}
DEMO_WITH = {"C18": 3}
for d in sorted(os.listdir(S)):
    p = os.path.join(S, d)
    if not (os.path.isdir(p) and d.startswith("C")):
        continue
    notes = open(os.path.join(p, "NOTES.md")).read()
    secs = re.split(r"^## ", notes, flags=re.M)
    def sec(tag):
        for s in secs:
            if s.startswith(tag):
                return " ".join(s.split("\n", 1)[1].split())
        return ""
    extra = ""
    if d == "C18":
        extra = " -Wl,--wrap=malloc,--wrap=calloc,--wrap=realloc,--wrap=reallocarray -Wl,--wrap=strdup,--wrap=strndup,--wrap=free"
    meta = {
        "property": d,
        "origin": "written by a fresh sub-agent that saw only the property text and a scratch worktree of /repo; nothing from /verif",
        "base_commit": head,
        "rebased_by_hand": d in REBASED,
        "change": sec("(a)")[:1500],
        "clause_broken": sec("(b)")[:1200],
        "needs_to_manifest": sec("(c)")[:1500],
        "validated": {
            "where": "scratch worktree /tmp/wt/v%s of /repo HEAD (removed afterwards)" % d,
            "commands": [
                "git apply patch.diff && make && make check",
                "gcc -g -Isrc -o demo demo.c src/.libs/libconfuse.a%s && timeout 60 ./demo </dev/null" % extra,
            ],
            "suite_with_change": "PASS 24 FAIL 0 ERROR 0",
            "demo_exit_without_change": 0,
            "demo_exit_with_change": DEMO_WITH.get(d, 1),
        },
        "detected_by_quick_checks": matrix.get(d, []),
        "how_to_rerun": "tools/seed_matrix.sh quick %s   (applies to /repo, runs check.py %s, undoes with git checkout)" % (d, d),
    }
    json.dump(meta, open(os.path.join(p, "meta.json"), "w"), indent=1)
print("ok")
