#!/bin/sh
# usage: seed_matrix.sh [tier] [ids...]  -- run each seeded change against the check of its own property
# (apply to /repo, run check.py, undo).  Prints one line per change: <id> rc=<exit> <VIOLATION line or "no alarm">
TIER="${1:-quick}"; shift
IDS="$*"; [ -z "$IDS" ] && IDS=$(ls /verif/seeded)
cd /verif
for id in $IDS; do
  git -C /repo apply "/verif/seeded/$id/patch.diff" || { echo "$id patch-does-not-apply"; continue; }
  P=$(echo "$id" | sed "s/^R[0-9]//"); OUT=$(python3 check.py "$P" --tier "$TIER" 2>&1); RC=$?
  git -C /repo checkout -- .
  V=$(echo "$OUT" | grep -m1 '^VIOLATION' || echo "no alarm")
  echo "$id rc=$RC $V"
done
git -C /repo status --short | grep -v insert-header
