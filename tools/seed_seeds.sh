#!/bin/bash
# usage: seed_seeds.sh "<seeds>" [ids...]  -- every seeded change against its own quick check at several seeds, each change in its
# own scratch worktree of /repo HEAD (VERIF_REPO), outputs redirected (VERIF_OUT).  Writes seeded/SEEDS.txt.
SEEDS="${1:-1 2 3}"; shift
IDS="$*"; [ -z "$IDS" ] && IDS=$(ls /verif/seeded | grep -E '^(R[0-9])?C[0-9]+$')
S=$(mktemp -d /tmp/verif_seeds_XXXX)
cd /verif/lean && lake build >/dev/null 2>&1
one() {
  id=$1; P=$(echo "$id" | sed 's/^R[0-9]//'); WT=$S/wt_$id
  git -C /repo worktree add --detach -q "$WT" HEAD || return
  rsync -a --exclude .git --exclude '*.o' --exclude '*.lo' --exclude '*.la' --exclude .libs --ignore-existing /repo/ "$WT"/
  git -C "$WT" apply /verif/seeded/$id/patch.diff 2>/dev/null || { echo "$id patch-does-not-apply" > $S/$id.row; git -C /repo worktree remove --force "$WT"; return; }
  row="$id:"
  for seed in $SEEDS; do
    (cd /verif && VERIF_SEED=$seed VERIF_REPO=$WT VERIF_OUT=$S/out_$id VERIF_JOBS=4 python3 check.py $P --tier quick >/dev/null 2>&1); rc=$?
    row="$row seed$seed=$([ $rc -ne 0 ] && echo caught || echo MISSED)"
  done
  echo "$row" > $S/$id.row
  git -C /repo worktree remove --force "$WT"; rm -rf $S/out_$id
}
N=0
for id in $IDS; do one $id & N=$((N+1)); if [ $((N % 4)) -eq 0 ]; then wait; fi; done; wait
{ echo "# seeded change: its own property's quick check at seeds $SEEDS (worktree of /repo HEAD + the change)"; cat $S/*.row; } > /verif/seeded/SEEDS.txt
git -C /repo worktree prune; rm -rf $S
cat /verif/seeded/SEEDS.txt
