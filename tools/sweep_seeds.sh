#!/bin/sh
# usage: sweep_seeds.sh [seeds...]  -- every check's quick tier at several seeds; evidence and replays go to a scratch dir
HERE=$(cd "$(dirname "$0")/.." && pwd)
cd "$HERE"
OUT=$(mktemp -d /tmp/sweep_out.XXXXXX)
SEEDS="${*:-1 2 3 4 5 6}"
for s in $SEEDS; do
  for p in C01 C02 C03 C04 C05 C06 C07 C08 C09 C10 C11 C12 C13 C14 C15 C16 C17 C18 C19; do
    VERIF_SEED=$s VERIF_OUT=$OUT python3 check.py $p --tier quick > $OUT/log_${s}_$p.txt 2>&1
    echo "seed=$s $p rc=$? $(grep -E '^(VIOLATION|KNOWN-FINDING)' $OUT/log_${s}_$p.txt | tr '\n' ' ')| $(tail -1 $OUT/log_${s}_$p.txt)"
  done
done
rm -rf "$OUT"
