#!/bin/bash
# usage: seed_matrix_wt.sh [ids...]  -- like seed_matrix.sh, but every change is applied in its own scratch worktree of /repo HEAD
# (VERIF_REPO) so that /repo itself stays untouched; evidence and replays go to a scratch directory (VERIF_OUT)
IDS="$*"; [ -z "$IDS" ] && IDS=$(ls /verif/seeded | grep -E '^(R[0-9])?C[0-9]+$')
S=$(mktemp -d /tmp/verif_mwt_XXXX)
one() {
  id=$1; P=$(echo "$id" | sed 's/^R[0-9]//'); WT=$S/wt_$id
  git -C /repo worktree add --detach -q "$WT" HEAD || { echo "$id worktree-failed"; return; }
  rsync -a --exclude .git --ignore-existing /repo/ "$WT"/
  if ! git -C "$WT" apply /verif/seeded/$id/patch.diff 2>/dev/null; then echo "$id patch-does-not-apply"; git -C /repo worktree remove --force "$WT"; return; fi
  OUT=$(cd /verif && VERIF_REPO=$WT VERIF_OUT=$S/out_$id VERIF_JOBS=8 python3 check.py $P --tier quick 2>&1); rc=$?
  V=$(echo "$OUT" | grep -m1 '^VIOLATION' | sed "s#$S/out_$id/##" || true)
  echo "$id rc=$rc ${V:-no alarm}"
  git -C /repo worktree remove --force "$WT"; rm -rf $S/out_$id
}
N=0
for id in $IDS; do one $id & N=$((N+1)); if [ $((N % 2)) -eq 0 ]; then wait; fi; done; wait
git -C /repo worktree prune; rm -rf $S
