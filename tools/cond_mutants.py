#!/usr/bin/env python3
"""Mechanical mutants, unbiased sample: N random single-token changes of a relational / logical operator or a small
integer constant inside a condition of src/confuse.c, each in a scratch worktree of /repo under /tmp.  A mutant that
still builds and passes the existing test suite is run against every registered quick check (VERIF_REPO / VERIF_OUT,
nothing is written to /repo or to /verif/evidence).  Output: one line per mutant.

usage: cond_mutants.py <n> <seed> <out-file> [file ...]
"""
import os, random, re, subprocess, sys, shutil, json

N = int(sys.argv[1]); SEED = int(sys.argv[2]); OUT = sys.argv[3]
FILES = sys.argv[4:] or ["src/confuse.c"]
REPO = "/repo"; WT = "/tmp/wt_condmut"; VO = "/tmp/condmut_out"
rng = random.Random(SEED)
SWAPS = [("==", "!="), ("!=", "=="), ("<=", "<"), (">=", ">"), ("&&", "||"), ("||", "&&"), (" < ", " <= "), (" > ", " >= ")]


def sites():
    res = []
    for f in FILES:
        for ln, line in enumerate(open(os.path.join(REPO, f)), 1):
            t = line.strip()
            if not re.match(r"(\}?\s*else\s+)?(if|while|for)\s*\(|.*\?.*:", t) or t.startswith(("/*", "*", "//")):
                continue
            for a, b in SWAPS:
                for m in re.finditer(re.escape(a), line):
                    # not inside a string literal (crude: even number of quotes before the match)
                    if line[:m.start()].count('"') % 2 == 0:
                        res.append((f, ln, m.start(), a, b))
    return res


def run(cmd, cwd=None, timeout=3600):
    return subprocess.run(cmd, cwd=cwd, shell=True, stdout=subprocess.PIPE, stderr=subprocess.STDOUT, text=True, timeout=timeout)


allsites = sites()
rng.shuffle(allsites)
props = ["C%02d" % i for i in range(1, 20)]
with open(OUT, "w") as out:
    out.write("# %d candidate sites; sample of %d at seed %d\n" % (len(allsites), N, SEED))
    out.flush()
    done = 0
    for f, ln, col, a, b in allsites:
        if done >= N:
            break
        run("git -C %s worktree prune; rm -rf %s" % (REPO, WT))
        if run("git -C %s worktree add --detach %s HEAD" % (REPO, WT)).returncode:
            continue
        path = os.path.join(WT, f)
        lines = open(path).read().split("\n")
        old = lines[ln - 1]
        lines[ln - 1] = old[:col] + b + old[col + len(a):]
        open(path, "w").write("\n".join(lines))
        what = "%s:%d %r -> %r | %s" % (f, ln, a.strip(), b.strip(), old.strip()[:70])
        run("./autogen.sh >/dev/null 2>&1; ./configure >/dev/null 2>&1; make -j16 >/dev/null 2>&1", cwd=WT)
        if not os.path.exists(os.path.join(WT, "src/.libs/libconfuse.a")):
            out.write("BUILD-FAILS %s\n" % what); out.flush()
            run("git -C %s worktree remove --force %s" % (REPO, WT)); continue
        try:
            r = run("make check 2>&1 | grep -E '^# (PASS|FAIL|ERROR)' | tr -d '\\n'", cwd=WT, timeout=600)
            suite = r.stdout.strip()
        except subprocess.TimeoutExpired:
            suite = "TIMEOUT"
        norm = re.sub(r"\s+", " ", suite)
        if "FAIL: 0" not in norm or "ERROR: 0" not in norm or "PASS: 24" not in norm:
            out.write("SUITE-CATCHES [%s] %s\n" % (suite, what)); out.flush()
            run("git -C %s worktree remove --force %s" % (REPO, WT)); continue
        caught = []
        for p in props:
            try:
                r = run("VERIF_REPO=%s VERIF_OUT=%s VERIF_JOBS=16 python3 check.py %s --tier quick" % (WT, VO, p), cwd="/verif", timeout=1200)
                if re.search(r"^VIOLATION", r.stdout, re.M) or r.returncode != 0:
                    caught.append(p)
            except subprocess.TimeoutExpired:
                caught.append(p + "(timeout)")
        out.write("%s [%s] %s\n" % ("CAUGHT " + ",".join(caught) if caught else "SURVIVED", suite, what)); out.flush()
        done += 1
        run("git -C %s worktree remove --force %s; rm -rf %s" % (REPO, WT, VO))
    out.write("done\n")
