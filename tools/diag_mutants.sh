#!/bin/bash
# usage: diag_mutants.sh <out-file> [checks...]
# Mechanical mutants for C06: every cfg_error() call site of src/confuse.c and src/lexer.l is silenced in turn
# (the call is replaced by a comma expression with no effect), in a scratch worktree of /repo under /tmp; the
# existing test suite and the named quick checks (default: C06) are run against that worktree.  Nothing is
# written to /repo; evidence and replays of these runs go to a scratch directory (VERIF_OUT).
OUT=${1:-/tmp/diag_mutants.txt}; shift
CHECKS=${@:-C06}
WT=/tmp/wt_diagmut
: > $OUT
git -C /repo worktree prune
# DIAG_SITES="file:line ..." restricts the run to those call sites
SITES=${DIAG_SITES:-$(cd /repo && grep -n "cfg_error(" src/confuse.c src/lexer.l | grep -v "DLLIMPORT void cfg_error\|should have called" | cut -d: -f1,2)}
for S in $SITES; do
  F=${S%%:*}; L=${S##*:}
  rm -rf $WT; git -C /repo worktree prune
  git -C /repo worktree add --detach $WT HEAD >/dev/null 2>&1 || { echo "$S worktree failed" >> $OUT; continue; }
  ( cd $WT && sed -i "${L}s/cfg_error(/(void)(/" $F )
  WHAT=$(sed -n "${L}p" /repo/$F | sed 's/^[ \t]*//' | cut -c1-70)
  ( cd $WT && ./autogen.sh >/dev/null 2>&1; ./configure >/dev/null 2>&1; make -j16 >/dev/null 2>&1 )
  if [ ! -f $WT/src/.libs/libconfuse.a ]; then echo "$S BUILD-FAILS | $WHAT" >> $OUT; git -C /repo worktree remove --force $WT; continue; fi
  SUITE=$(cd $WT && make check 2>&1 | grep -E "^# (PASS|FAIL)" | tr -d '\n' | tr -s ' ')
  RES=""
  for C in $CHECKS; do
    R=$(cd /verif && VERIF_REPO=$WT VERIF_OUT=/tmp/diagmut_out VERIF_JOBS=16 python3 check.py $C --tier quick 2>&1 | grep -cE "^VIOLATION")
    RES="$RES $C=$([ "$R" -gt 0 ] && echo CAUGHT || echo missed)"
  done
  echo "$S suite[$SUITE]$RES | $WHAT" >> $OUT
  git -C /repo worktree remove --force $WT; rm -rf /tmp/diagmut_out
done
echo done >> $OUT
