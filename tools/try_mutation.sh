#!/bin/sh
# usage: try_mutation.sh <patch.diff> <prop> [tier]  -- apply a seeded change to /repo, run the check, undo
P="$1"; PROP="$2"; TIER="${3:-quick}"
cd /verif
git -C /repo apply "$P" || { echo "patch does not apply"; exit 2; }
python3 check.py "$PROP" --tier "$TIER" 2>&1 | tail -6
RC=$?
git -C /repo checkout -- .
git -C /repo status --short | grep -v insert-header
exit $RC
