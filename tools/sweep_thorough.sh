#!/bin/sh
# usage: sweep_thorough.sh [props...]  -- every check's thorough tier once; evidence and replays go to a scratch dir
HERE=$(cd "$(dirname "$0")/.." && pwd)
cd "$HERE"
OUT=$(mktemp -d /tmp/sweep_th.XXXXXX)
PROPS="${*:-C01 C02 C03 C04 C05 C06 C07 C08 C09 C10 C11 C12 C13 C14 C15 C16 C17 C18 C19}"
for p in $PROPS; do
  S=$(date +%s)
  VERIF_OUT=$OUT python3 check.py $p --tier thorough > $OUT/log_$p.txt 2>&1
  echo "$p rc=$? $(( $(date +%s) - S ))s $(grep -E '^(VIOLATION)' $OUT/log_$p.txt | tr '\n' ' ')| $(tail -1 $OUT/log_$p.txt)"
done
rm -rf "$OUT"
