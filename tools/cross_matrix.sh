#!/bin/bash
# usage: cross_matrix.sh [tier]  -- every seeded change against every check, each change in its own scratch worktree
# of /repo (VERIF_REPO), evidence/replays redirected to the scratch dir (VERIF_OUT).  Writes seeded/MATRIX.txt.
TIER="${1:-quick}"
S=$(mktemp -d /tmp/verif_cross_XXXX)
PROPS=$(ls /verif/seeded | grep '^C')
cd /verif/lean && lake build >/dev/null 2>&1
one() {
  id=$1; WT=$S/wt_$id
  git -C /repo worktree add --detach -q "$WT" HEAD || return
  rsync -a --exclude .git --exclude '*.o' --exclude '*.lo' --exclude '*.la' --exclude .libs --ignore-existing /repo/ "$WT"/
  git -C "$WT" apply /verif/seeded/$id/patch.diff || { echo "$id patch-does-not-apply" > $S/$id.row; return; }
  row="$id:"
  for p in $PROPS; do
    OUT=$(cd /verif && VERIF_REPO=$WT VERIF_OUT=$S/out_$id VERIF_JOBS=4 python3 check.py $p --tier $TIER 2>&1); rc=$?
    if [ $rc -ne 0 ]; then row="$row $p"; fi
  done
  echo "$row" > $S/$id.row
  git -C /repo worktree remove --force "$WT"; rm -rf $S/out_$id
}
N=0
for id in $PROPS; do one $id & N=$((N+1)); if [ $((N % 5)) -eq 0 ]; then wait; fi; done; wait
{ echo "# seeded change: checks (tier $TIER) that report a VIOLATION with the change applied"; cat $S/*.row; } > /verif/seeded/MATRIX.txt
git -C /repo worktree prune; rm -rf $S
cat /verif/seeded/MATRIX.txt
