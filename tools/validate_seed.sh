#!/bin/sh
# usage: validate_seed.sh <dir with patch.diff + demo.c> [name]
# Confirms a seeded change in a fresh scratch worktree of /repo HEAD: with the change the library builds, the unedited
# suite passes (24/24) and the demonstration fails; without it the demonstration passes.  Prints one summary line.
D="$1"; N="${2:-$(basename "$D")}"; W=/tmp/wt/val_$N
rm -rf "$W"; git -C /repo worktree prune
git -C /repo worktree add --detach "$W" HEAD >/dev/null 2>&1 || { echo "$N worktree-failed"; exit 2; }
rsync -a --exclude=.git /repo/ "$W/"
cd "$W"
build_demo() {
  if grep -q "fsanitize\|ASAN" "$D/NOTES.md" 2>/dev/null && grep -qi "asan\|sanitize" "$D/demo.c" 2>/dev/null; then :; fi
  gcc -g -I"$W/src" -I"$W" -o "$W/demo" "$D/demo.c" "$W/src/.libs/libconfuse.a" >/dev/null 2>"$W/demo.err" || { echo demo-build-failed; cat "$W/demo.err" | head -5; }
  # sanitizer build of the same demo against the sources
  gcc -g -O1 -fsanitize=address,undefined -fno-sanitize-recover=undefined -DHAVE_CONFIG_H -D_GNU_SOURCE -DLOCALEDIR='"/usr/share/locale"' -w \
      -I"$W" -I"$W/src" -o "$W/demo_asan" "$D/demo.c" "$W/src/confuse.c" "$W/src/lexer.c" >/dev/null 2>&1
}
run_demo() { (cd "$W" && timeout 120 ./demo </dev/null >/dev/null 2>&1; echo $?); }
run_demo_asan() { (cd "$W" && [ -x ./demo_asan ] && ASAN_OPTIONS=detect_leaks=1 timeout 120 ./demo_asan </dev/null >/dev/null 2>&1; echo $?); }
make -j8 >/dev/null 2>&1
build_demo; B0=$(run_demo); A0=$(run_demo_asan)
git apply "$D/patch.diff" || { echo "$N patch-does-not-apply"; cd /; git -C /repo worktree remove --force "$W"; exit 2; }
make -j8 >/dev/null 2>&1; MK=$?
SUITE=$(make check 2>&1 | grep -E "^# (PASS|FAIL|ERROR):" | tr -d '\n' | tr -s ' ')
build_demo; B1=$(run_demo); A1=$(run_demo_asan)
echo "$N make=$MK suite=[$SUITE] demo_without=$B0 demo_with=$B1 asan_without=$A0 asan_with=$A1"
cd /; git -C /repo worktree remove --force "$W"
