#!/bin/sh
# usage: sweep.sh <tier> [seed]  -- run every registered check once, print one line each
TIER="${1:-quick}"; SEED="${2:-1}"
cd /verif
for i in 01 02 03 04 05 06 07 08 09 10 11 12 13 14 15 16 17 18 19; do
  S=$(date +%s)
  OUT=$(VERIF_SEED=$SEED python3 check.py C$i --tier $TIER 2>&1); RC=$?
  E=$(( $(date +%s) - S ))
  echo "C$i rc=$RC ${E}s $(echo "$OUT" | grep -E '^(VIOLATION|KNOWN-FINDING)' | tr '\n' ' ') | $(echo "$OUT" | tail -1)"
done
