#!/usr/bin/env python3
"""Regenerates /verif/MANIFEST.json from the table below (claimed checks) and properties.jsonl."""
import json, os
V = os.path.dirname(os.path.dirname(os.path.abspath(__file__)))
CLAIMED = json.load(open(os.path.join(V, "tools", "claims.json")))
props = [json.loads(l)["id"] for l in open(os.path.join(V, "properties.jsonl"))]
checks = []
for pid in props:
    c = CLAIMED.get(pid)
    if not c or not c.get("claimed"):
        continue
    checks.append({
        "property_id": pid,
        "quick_cmd": "python3 check.py %s --tier quick" % pid,
        "thorough_cmd": "python3 check.py %s --tier thorough" % pid,
        "evidence_file": "/verif/evidence/%s.json" % pid,
        "replay_cmd_template": "python3 check.py %s --replay {path}" % pid,
        "engine": "lean4-model+correspondence",
        "level_claimed": {"category": "proof", "text": c["text"], "design_ref": "DESIGN.md section 7, " + pid},
        "level_note": c["note"],
        "technique": c["technique"],
    })
na = [{"property_id": p, "reason": (CLAIMED.get(p) or {}).get("na_reason", "check not built yet (work in progress)")}
      for p in props if not (CLAIMED.get(p) or {}).get("claimed")]
m = {
    "version": 1,
    "setup_cmd": "cd /verif/lean && lake build",
    "hooks": {
        "guard": "LIBCONFUSE_VERIF",
        "enable": "checks compile /repo/src/confuse.c and the flex output of /repo/src/lexer.l with -DLIBCONFUSE_VERIF into a scratch directory; no source hooks exist in /repo (the allocation-fault build force-includes harness/fault_alloc.h instead)",
        "baseline_off_cmd": "make -C /repo check",
        "source_commits": [],
        "add_only": True,
    },
    "engines": [{"name": "lean4-model+correspondence", "path": "/verif/lean, /verif/check.py, /verif/harness",
                 "serves_properties": [c["property_id"] for c in checks],
                 "kind_free_text": "Lean 4 theorems about a hand-written executable model of libconfuse; the model is tied to /repo's working tree on every run by differential execution of the compiled model and the real library on the same generated cases"}],
    "checks": checks,
    "notes": "Every check = proof gate (lake build, #print axioms audit, forbidden-token grep) + correspondence (model exe vs library rebuilt from /repo working tree) + direct oracles. See DESIGN.md.",
    "not_applicable": na,
}
json.dump(m, open(os.path.join(V, "MANIFEST.json"), "w"), indent=1)
print("claimed:", [c["property_id"] for c in checks])
