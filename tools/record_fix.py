#!/usr/bin/env python3
"""record_fix.py <Fnn> <Cxx> <commit> <witness path relative to /verif or -> <what failed ...>
Appends a 'fixed:' entry to known_findings.json (fixed entries suppress nothing)."""
import json, os, sys
V = os.path.dirname(os.path.dirname(os.path.abspath(__file__)))
fid, prop, commit, witness = sys.argv[1:5]
what = " ".join(sys.argv[5:])
p = os.path.join(V, "known_findings.json")
d = json.load(open(p))
assert not any(f["id"] == fid for f in d["findings"]), "id exists"
e = {"id": fid, "property": prop, "status": "fixed: property=%s %s %s" % (prop, commit, what), "what": what}
if witness != "-":
    assert os.path.exists(os.path.join(V, witness)), witness
    e["witness"] = witness
d["findings"].append(e)
json.dump(d, open(p, "w"), indent=1)
print("recorded", fid)
