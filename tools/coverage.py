#!/usr/bin/env python3
"""tools/coverage.py [tier] -- which lines / functions of src/confuse.c and src/lexer.l do the generated cases of ALL
checks reach?  Builds the library with --coverage from /repo's working tree into a scratch directory, runs every
property's corpus + generated cases through the C driver, and writes coverage/REPORT.txt (per function: lines hit /
lines; then every unreached line).  Not a check: a measure of what the correspondence can see (DESIGN.md section 4)."""
import importlib, os, random, re, subprocess, sys
sys.path.insert(0, os.path.dirname(os.path.dirname(os.path.abspath(__file__))))
from vlib import core
import check as checkmod

PROPS = ["C%02d" % i for i in range(1, 20)]


def gcov_lines(objdir, src):
    r = subprocess.run(["gcov", "-o", objdir, src], cwd=objdir, stdout=subprocess.PIPE, stderr=subprocess.STDOUT, text=True)
    res = {}
    for fn in os.listdir(objdir):
        if fn.endswith(".gcov"):
            name = None
            lines = {}
            for l in open(os.path.join(objdir, fn), errors="replace"):
                m = re.match(r"\s*([^:]+):\s*(\d+):(.*)$", l)
                if not m:
                    continue
                cnt, ln, txt = m.group(1).strip(), int(m.group(2)), m.group(3)
                if ln == 0:
                    if txt.startswith("Source:"):
                        name = os.path.basename(txt[7:])
                    continue
                if cnt == "-":
                    continue
                c = 0 if cnt.startswith("#") or cnt.startswith("=") else int(cnt.rstrip("*"))
                lines[ln] = (c, txt)
            if name:
                d = res.setdefault(name, {})
                for ln, (c, t) in lines.items():
                    d[ln] = (d.get(ln, (0, t))[0] + c, t)
            os.unlink(os.path.join(objdir, fn))
    return res


def main():
    tier = sys.argv[1] if len(sys.argv) > 1 else "quick"
    seed = core.get_seed()
    total = {}
    with core.Workdir() as wd:
        exes = {}
        for v in ("cov", "covfault"):
            exe, log = core.build_impl(wd, v)
            if exe is None:
                print(log); sys.exit(2)
            exes[v] = exe
        n = 0
        for prop in PROPS:
            mod = importlib.import_module("vlib.props." + prop)
            rng = random.Random(seed * 1000003 + sum(map(ord, prop)))
            cases = checkmod.load_corpus(prop) + mod.generate(rng, tier)
            v = "covfault" if getattr(mod, "VARIANT", "asan") == "fault" else "cov"
            ctx = {"wd": wd, "exe": exes[v], "tier": tier, "rng": rng, "seed": seed}
            if hasattr(mod, "prepare"):
                mod.prepare(ctx)
            core.run_impl(exes[v], cases, wd, tag="cov_" + prop, case_timeout=getattr(mod, "CASE_TIMEOUT", 10))
            n += len(cases)
            print(prop, len(cases), "cases", flush=True)
        for v in ("cov", "covfault"):
            od = os.path.join(wd.path, v)
            for src in ("confuse.c", "lexer.c"):
                for name, lines in gcov_lines(od, os.path.join(od, src) if src == "lexer.c" else os.path.join(core.REPO, "src", src)).items():
                    d = total.setdefault(name, {})
                    for ln, (c, t) in lines.items():
                        d[ln] = (d.get(ln, (0, t))[0] + c, t)
    out = []
    for name in sorted(total):
        if name not in ("confuse.c", "lexer.l"):
            continue
        lines = total[name]
        hit = sum(1 for c, _ in lines.values() if c)
        out.append("== %s: %d / %d executable lines reached by %d cases (tier %s, seed %d)" % (name, hit, len(lines), n, tier, seed))
        # per function (confuse.c): use a crude scan of the source for function starts
        if name == "confuse.c":
            src = open(os.path.join(core.REPO, "src", "confuse.c"), errors="replace").read().split("\n")
            funcs = []
            for i, l in enumerate(src, 1):
                m = re.match(r"^(?:DLLIMPORT\s+)?(?:static\s+)?[A-Za-z_][A-Za-z0-9_ \*]*?\b(?:__export\s+)?([a-z_][a-z0-9_]*)\(.*[^;]$", l)
                if m and not l.startswith(" ") and not l.startswith("\t") and not l.startswith("#"):
                    funcs.append((i, m.group(1)))
            funcs.append((len(src) + 1, None))
            for (a, f), (b, _) in zip(funcs, funcs[1:]):
                ls = [ln for ln in lines if a <= ln < b]
                if not ls:
                    continue
                h = sum(1 for ln in ls if lines[ln][0])
                out.append("  %-32s %3d / %3d%s" % (f, h, len(ls), "   <-- NEVER CALLED" if h == 0 else ("" if h == len(ls) else "   partial")))
        out.append("-- unreached lines of %s" % name)
        for ln in sorted(lines):
            if lines[ln][0] == 0:
                out.append("  %5d: %s" % (ln, lines[ln][1].rstrip()))
    os.makedirs(os.path.join(core.VERIF, "coverage"), exist_ok=True)
    open(os.path.join(core.VERIF, "coverage", "REPORT.txt"), "w").write("\n".join(out) + "\n")
    print("\n".join(o for o in out if o.startswith("==")))


if __name__ == "__main__":
    main()
