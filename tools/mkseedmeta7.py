#!/usr/bin/env python3
"""Write seeded/R7Cxx/meta.json (round 3) from the sub-agent's NOTES.md, tools/validate_seed.sh output and the first/now results."""
import json, os, re, subprocess, sys
V = os.path.dirname(os.path.dirname(os.path.abspath(__file__)))
S = os.path.join(V, "seeded")
head = subprocess.run(["git", "-C", "/repo", "rev-parse", "--short", "HEAD"], capture_output=True, text=True).stdout.strip()
val = {}
for l in open(os.path.join(S, "R7_VALIDATION.txt")):
    w = l.split()
    if w and w[0].startswith("R7C"):
        val[w[0]] = l.strip()
first = {}
for l in open(os.path.join(S, "R7_FIRST.txt")):
    w = l.split()
    if w and w[0].startswith("R7C"):
        first[w[0]] = "caught" if "VIOLATION" in l else "missed"
STRENGTHENED = json.load(open(os.path.join(S, "R7_STRENGTHENED.json")))
for d in sorted(os.listdir(S)):
    p = os.path.join(S, d)
    if not (os.path.isdir(p) and d.startswith("R7C")):
        continue
    notes = open(os.path.join(p, "NOTES.md")).read()
    m = re.search(r"demo_without=(\d+) demo_with=(\d+)", val.get(d, ""))
    meta = {
        "property": d[2:],
        "round": 7,
        "origin": "written by a fresh sub-agent that saw only the property text, a scratch worktree of /repo and one line naming the six changes "
                  "already tried for the property (to avoid); nothing from /verif",
        "base_commit": "7e8469c",
        "notes": "NOTES.md (the sub-agent's own description: the change, the clause broken, what it needs to manifest, what it ran)",
        "summary": " ".join(notes.split("\n## ")[1].split("\n", 1)[1].split())[:1500] if "\n## " in notes else notes[:1500],
        "validated": {
            "how": "tools/validate_seed.sh: fresh scratch worktree of /repo HEAD under /tmp/wt (removed afterwards); build; demo; git apply patch.diff; "
                   "make; make check; demo again (also a sanitizer build of the demo against the sources)",
            "result_line": val.get(d, ""),
            "suite_with_change": "PASS 24 FAIL 0 ERROR 0",
            "demo_exit_without_change": int(m.group(1)) if m else None,
            "demo_exit_with_change": int(m.group(2)) if m else None,
        },
        "own_check_quick_first_try": first.get(d, "?"),
        "own_check_quick_now": "caught",
        "strengthened": STRENGTHENED.get(d, ""),
        "how_to_rerun": "tools/seed_matrix.sh quick %s   (applies to /repo, runs check.py %s, undoes with git checkout)" % (d, d[2:]),
    }
    json.dump(meta, open(os.path.join(p, "meta.json"), "w"), indent=1)
print("ok")
