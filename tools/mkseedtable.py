#!/usr/bin/env python3
"""Print the markdown rows of DESIGN.md section 10 from seeded/MATRIX.txt and the summaries below."""
import os
V = os.path.dirname(os.path.dirname(os.path.abspath(__file__)))
SUM = {
 "C01": ("parser state 1: `num_values = 0` reset dropped", "`l = {}` after another list got values in the same block"),
 "C02": ("`cfg_setopt` SEC: old section freed without clearing its borrowed search path", "search path + a titled multi section re-opened with the same title"),
 "C03": ("`lexer.l`: the two `\\\\\\n` continuation rules merged into one shared rule", "backslash-newline inside a single-quoted string"),
 "C04": ("`cfg_digits_ok` looks at the first digit only", "integer token `0x0x<hex>`"),
 "C05": ("same statement as C01's change (found independently)", "print of an emptied list with non-empty default after another printed list"),
 "C06": ("section file name only filled in when missing", "error inside a non-multi section re-opened from a second source"),
 "C07": ("`cfg_free_opt_array` no longer frees `comment`", "annotated option still pristine at `cfg_free`"),
 "C08": ("`BEGIN(INITIAL)` moved from `cfg_scan_fp_begin` to the EOF rules", "earlier parse aborted on a bad escape inside a double-quoted string"),
 "C09": ("`cfg_setmulti` revert restores MODIFIED only, not RESET", "pristine list default, bulk set with a good value before the bad one, then an append"),
 "C10": ("same revert path, RESET not restored", "pristine option, refusing `cfg_setmulti` with the bad element not first"),
 "C11": ("`cfg_getopt_secidx`: index variable hoisted out of the loop (stale index)", "two-step path whose later step has an empty/bad qualifier"),
 "C12": ("skip `depth` initialised once per frame", "two unknown sections in one scope"),
 "C13": ("`path` copied only when a section is created", "include through the search path from inside a section created by `cfg_init`"),
 "C14": ("validation callback not run for `list = value` without braces", "list option with validator, unbraced single value"),
 "C15": ("comment transparency narrowed to states 1–9", "comment inside the head of a skipped unknown item"),
 "C16": ("`cfg_dupopt_array` keeps the caller's default string pointer", "scalar string default in a section, declarations overwritten after init"),
 "C17": ("`cfg_searchpath` stops at a non-regular candidate", "older directory holds a directory of that name, newer one the file"),
 "C18": ("`cfg_addval`: `values = reallocarray(values, …)` without temporary", "array growth fails on an option that already holds a value"),
 "C19": ("effective print filter resolved once in the caller", "filter set on a non-last instance of a multi section"),
}
matrix = {}
p = os.path.join(V, "seeded", "MATRIX.txt")
if os.path.exists(p):
    for l in open(p):
        if l.startswith("C") and ":" in l:
            k, v = l.split(":", 1)
            matrix[k.strip()] = v.split()
for k in sorted(SUM):
    print("| %s | %s | %s | %s |" % (k, SUM[k][0], SUM[k][1], ", ".join(matrix.get(k, ["?"])) or "none"))
