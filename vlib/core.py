"""Shared machinery for the libconfuse checks: builds, drivers, diffing, evidence, reporting."""
import fcntl
import hashlib
import json
import os
import random
import shutil
import subprocess
import sys
import tempfile
import time

VERIF = os.path.dirname(os.path.dirname(os.path.abspath(__file__)))
LEAN = os.path.join(VERIF, "lean")
REPO = os.environ.get("VERIF_REPO", "/repo")
NPROC = int(os.environ.get("VERIF_JOBS", str(os.cpu_count() or 4)))

TRUSTED_BASE = [
    "Lean 4.33 kernel; axioms per theorem listed under 'axioms' (at most propext, Quot.sound, Classical.choice)",
    "Lean compiler + leanc for the confuse_model executable (same definitions the theorems are about)",
    "hand-written model Confuse.Model.* of src/confuse.c and src/lexer.l; tie to the code is differential (sampled), not proved",
    "harness/impl_driver.c, vlib/*.py generators, canonicaliser and diff",
    "modelled, not verified: flex runtime (buffer = byte list, longest match), libc (strtol, strtod, printf, getenv, stat, getpwnam, fopen), C memory model",
    "assumed: LP64, ASCII, C locale, callbacks do not re-enter the library",
]


def hx(b):
    if b is None:
        return "-"
    if isinstance(b, str):
        b = b.encode("latin1")
    return b.hex() if b else "."


def unhx(s):
    if s == "-":
        return None
    if s == ".":
        return b""
    return bytes.fromhex(s)


class Case:
    """One case: an id, protocol lines, and free-form metadata used for evidence / non-triviality."""

    def __init__(self, cid, lines, meta=None):
        self.cid = cid
        self.lines = lines
        self.meta = meta or {}

    def text(self):
        return "CASE %s\n%s\n" % (self.cid, "\n".join(self.lines))

    def digest(self):
        return hashlib.sha1("\n".join(self.lines).encode()).hexdigest()


# ---------------------------------------------------------------- builds

def lake_build():
    """Build model, proofs and driver (no-op when up to date).  Serialised across concurrent checks."""
    lock = open(os.path.join(LEAN, ".build.lock"), "w")
    fcntl.flock(lock, fcntl.LOCK_EX)
    try:
        r = subprocess.run(["lake", "build"], cwd=LEAN, stdout=subprocess.PIPE, stderr=subprocess.STDOUT, text=True)
    finally:
        fcntl.flock(lock, fcntl.LOCK_UN)
        lock.close()
    return r.returncode, r.stdout


def model_exe():
    return os.path.join(LEAN, ".lake", "build", "bin", "confuse_model")


class Workdir:
    """Scratch directory outside /repo and /verif; removed on exit."""

    def __init__(self):
        self.path = tempfile.mkdtemp(prefix="verif_run_")

    def __enter__(self):
        return self

    def __exit__(self, *a):
        shutil.rmtree(self.path, ignore_errors=True)


def build_impl(wd, variant):
    """Build library + driver from /repo's current working tree.  Returns (path or None, log)."""
    r = subprocess.run([os.path.join(VERIF, "harness", "build_driver.sh"), wd.path, variant, REPO],
                       stdout=subprocess.PIPE, stderr=subprocess.STDOUT, text=True)
    exe = os.path.join(wd.path, "impl_" + variant)
    if r.returncode != 0 or not os.path.exists(exe):
        return None, r.stdout
    return exe, r.stdout


# ---------------------------------------------------------------- running drivers

def _split(cases, n):
    n = max(1, min(n, len(cases)))
    chunks = [[] for _ in range(n)]
    for i, c in enumerate(cases):
        chunks[i % n].append(c)
    return [c for c in chunks if c]


def parse_output(text):
    """driver output -> {case id: [lines]}"""
    out = {}
    cur = None
    for line in text.split("\n"):
        line = line.rstrip("\r")
        if not line:
            continue
        if line.startswith("CASE "):
            cur = line[5:].strip()
            out[cur] = []
        elif cur is not None:
            out[cur].append(line)
    return out


def canon_lines(lines):
    """within one operation the implementation interleaves diagnostics (G) and callback lines (T) as they
    happen while the model lists diagnostics first: order each run of G/T lines as all G, then all T"""
    out = []
    run = []
    for l in lines:
        if l.startswith("G ") or l.startswith("G2 ") or l.startswith("T "):
            run.append(l)
        else:
            if run:
                out += [x for x in run if x.startswith(("G ", "G2 "))] + [x for x in run if x.startswith("T ")]
                run = []
            out.append(l)
    if run:
        out += [x for x in run if x.startswith(("G ", "G2 "))] + [x for x in run if x.startswith("T ")]
    return out


def run_driver(cmd, cases, wd, tag, env=None, timeout=4 * 3600):
    """Run a driver over the cases in parallel chunks; returns {cid: [lines]}."""
    chunks = _split(cases, NPROC)
    procs = []
    for i, ch in enumerate(chunks):
        inp = os.path.join(wd.path, "%s_%d.in" % (tag, i))
        outp = os.path.join(wd.path, "%s_%d.out" % (tag, i))
        with open(inp, "w") as f:
            for c in ch:
                f.write(c.text())
        fi = open(inp)
        fo = open(outp, "w")
        e = dict(os.environ)
        if env:
            e.update(env)
        p = subprocess.Popen(cmd, stdin=fi, stdout=fo, stderr=subprocess.DEVNULL, env=e, cwd=wd.path)
        procs.append((p, fi, fo, outp))
    res = {}
    for p, fi, fo, outp in procs:
        try:
            p.wait(timeout=timeout)
        except subprocess.TimeoutExpired:
            p.kill()
        fi.close()
        fo.close()
        with open(outp, errors="replace") as f:
            res.update({k: canon_lines(v) for k, v in parse_output(f.read()).items()})
    return res


ASAN_ENV = {
    "ASAN_OPTIONS": "exitcode=99:detect_leaks=1:abort_on_error=0:allocator_may_return_null=1:detect_stack_use_after_return=0",
    "LSAN_OPTIONS": "exitcode=98",
    "UBSAN_OPTIONS": "halt_on_error=1:exitcode=99",
    "LC_ALL": "C",
}


def run_impl(exe, cases, wd, tag="impl", case_timeout=10):
    return run_driver([exe, str(case_timeout)], cases, wd, tag, env=ASAN_ENV)


def run_model(cases, wd, tag="model"):
    return run_driver([model_exe()], cases, wd, tag)


# ---------------------------------------------------------------- proof gate

FORBIDDEN = ["sorry", "admit", "native_decide", "bv_decide", "implemented_by", "unsafe ", "maxHeartbeats 0"]
ALLOWED_AXIOMS = {"propext", "Quot.sound", "Classical.choice"}


def grep_forbidden():
    """Forbidden tokens in the Lean sources outside comments."""
    hits = []
    for root, _, files in os.walk(os.path.join(LEAN, "Confuse")):
        for fn in files:
            if not fn.endswith(".lean"):
                continue
            p = os.path.join(root, fn)
            in_block = 0
            for ln, line in enumerate(open(p, errors="replace"), 1):
                s = line
                # strip block comments (coarse but conservative: nesting counted)
                out = ""
                i = 0
                while i < len(s):
                    if s.startswith("/-", i):
                        in_block += 1
                        i += 2
                    elif s.startswith("-/", i) and in_block:
                        in_block -= 1
                        i += 2
                    else:
                        if not in_block:
                            out += s[i]
                        i += 1
                out = out.split("--")[0]
                for tok in FORBIDDEN:
                    if tok in out:
                        hits.append("%s:%d: %s" % (os.path.relpath(p, LEAN), ln, tok.strip()))
                if out.lstrip().startswith("axiom "):
                    hits.append("%s:%d: axiom" % (os.path.relpath(p, LEAN), ln))
    return hits


def audit_theorems(prop, theorems):
    """#print axioms for every registered theorem; returns {name: [axioms] or None if missing}."""
    src = "import Confuse\nopen Confuse\n" + "".join("#print axioms %s\n" % t for t in theorems)
    fd, path = tempfile.mkstemp(suffix=".lean", prefix="audit_%s_" % prop)
    os.write(fd, src.encode())
    os.close(fd)
    try:
        r = subprocess.run(["lake", "env", "lean", path], cwd=LEAN, stdout=subprocess.PIPE, stderr=subprocess.STDOUT, text=True)
    finally:
        os.unlink(path)
    res = {}
    text = r.stdout
    for t in theorems:
        res[t] = None
    # messages look like: "'Confuse.foo' depends on axioms: [propext, Quot.sound]" or "... does not depend on any axioms"
    import re
    for m in re.finditer(r"'([^']+)' (depends on axioms: \[([^\]]*)\]|does not depend on any axioms)", text.replace("\n", " ")):
        name = m.group(1)
        axs = [a.strip() for a in m.group(3).split(",")] if m.group(3) else []
        for t in theorems:
            if name == t or name.endswith("." + t) or t.endswith("." + name):
                res[t] = axs
    return res, text


def leanchecker(module):
    r = subprocess.run(["lake", "env", "leanchecker", module], cwd=LEAN, stdout=subprocess.PIPE, stderr=subprocess.STDOUT, text=True)
    return r.returncode == 0, r.stdout[-2000:]


# ---------------------------------------------------------------- known findings

def load_findings():
    p = os.path.join(VERIF, "known_findings.json")
    if not os.path.exists(p):
        return []
    return json.load(open(p)).get("findings", [])


# ---------------------------------------------------------------- evidence / reporting

def write_evidence(prop, tier, seed, coverage, wall, violations, assumptions=None):
    ev = {
        "property_id": prop,
        "tier": tier,
        "seed": seed,
        "level": "proof",
        "coverage": coverage,
        "assumptions": assumptions or TRUSTED_BASE,
        "wall_s": round(wall, 2),
        "violations": violations,
    }
    # VERIF_OUT redirects evidence and replays (used only by tools/cross_matrix.sh, which runs the checks against
    # scratch worktrees carrying a seeded change; the registered commands never set it)
    evdir = os.path.join(os.environ.get("VERIF_OUT", VERIF), "evidence")
    os.makedirs(evdir, exist_ok=True)
    with open(os.path.join(evdir, prop + ".json"), "w") as f:
        json.dump(ev, f, indent=1)


def write_replay(prop, tag, content):
    rdir = os.path.join(os.environ.get("VERIF_OUT", VERIF), "replays")
    os.makedirs(rdir, exist_ok=True)
    h = hashlib.sha1(content.encode()).hexdigest()[:10]
    p = os.path.join(rdir, "%s-%s-%s.case" % (prop, tag, h))
    with open(p, "w") as f:
        f.write(content)
    return p


def get_seed():
    try:
        return int(os.environ.get("VERIF_SEED", "1"))
    except ValueError:
        return 1
