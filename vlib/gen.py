"""Generators shared by the checks: schemas, configuration texts (as token lists), renderings."""
import struct

from .core import hx

MULTI, LIST, NOCASE, TITLE, NODEFAULT, NO_TITLE_DUPES = 1, 2, 4, 8, 16, 32
RESET, DEFINIT, IGNORE_UNKNOWN, DEPRECATED, DROP, COMMENTS, MODIFIED, KEYSTRVAL = 64, 128, 256, 512, 1024, 2048, 4096, 8192


def dbits(x):
    return "%016x" % struct.unpack("<Q", struct.pack("<d", x))[0]


class Opt:
    def __init__(self, name, ty, flags=0, default=None, cbs="-", subs=None):
        self.name = name
        self.ty = ty
        self.flags = flags
        self.default = default      # int / float / bool / bytes-or-None / list of byte strings (for LIST) / None
        self.cbs = cbs
        self.subs = subs or []

    def is_list(self):
        return bool(self.flags & LIST)

    def rows(self, depth=0):
        if self.ty == "sec" or self.ty in ("func", "ptr"):
            d = "-"
        elif self.is_list():
            d = "-" if self.default is None else "L:" + ",".join(hx(t) for t in self.default)
        elif self.ty == "int":
            d = str(self.default if self.default is not None else 0)
        elif self.ty == "float":
            d = dbits(self.default if self.default is not None else 0.0)
        elif self.ty == "bool":
            d = "1" if self.default else "0"
        else:
            d = hx(self.default)
        out = ["O %d %s %s %d %s %s" % (depth, hx(self.name), self.ty, self.flags, d, self.cbs)]
        for s in self.subs:
            out += s.rows(depth + 1)
        return out


def schema_lines(opts):
    out = ["S"]
    for o in opts:
        out += o.rows(0)
    out.append("E")
    return out


# ------------------------------------------------------------------ value renderings

INT_TOKENS = ["0", "1", "7", "-5", "42", "+3", "0x1F", "0xff", "0b101", "017", "00", "123456789", "-2147483648",
              "9223372036854775807", "-9223372036854775808"]
FLOAT_TOKENS = ["1.5", "-0.25", "3", "1e3", "0x1p3", ".5", "5.", "2.5e-3", "-0", "100000.125", "1e-5", "123456.789"]
BOOL_TOKENS = ["true", "false", "yes", "no", "on", "off", "TRUE", "False", "oN", "Off", "YES"]
WORDS = ["a", "abc", "x1", "hello", "/usr/lib", "a/b", "v-1.2", "foo_bar", "$x", "a$", "é".encode("latin1").decode("latin1"), "k|v", "a\\b", "p:q"]
STR_BYTES = [b"", b"plain", b"with space", b"q\"uote", b"back\\slash", b"nl\nline", b"tab\there", b"${X}", b"$", b"{}", b"#no", b"//c",
             b"/*c*/", b"'sq'", b"a=b", b"\xe9\xff", b"end\\", b"a,b", b"(p)", b"+=", b"\x01\x7f"]


def _join_units(units, rng, p_cont):
    """concatenate the rendered units of a string body; with probability p_cont per gap a backslash-newline
    (line continuation: contributes nothing to the value, one line to the count) goes in between"""
    out = bytearray()
    for k, u in enumerate(units):
        if k and rng is not None and p_cont and rng.random() < p_cont:
            out += b"\\\n"
        out += u
    return bytes(out)


def dq_render(b, rng=None, p_cont=0.0):
    """render bytes as a double-quoted literal the way a careful user (or cfg_print) would"""
    units = []
    i = 0
    while i < len(b):
        c = b[i]
        if c == 0x22:
            units.append(b'\\"')
        elif c == 0x5c:
            units.append(b"\\\\")
        elif c == 0x24 and i + 1 < len(b) and b[i + 1] == 0x7b:
            units.append(b"\\$")
        elif rng is not None and c == 0x0a and rng.random() < 0.5:
            units.append(b"\\n")
        elif rng is not None and c == 0x09 and rng.random() < 0.5:
            units.append(b"\\t")
        # a numeric escape only where the byte after it cannot be read as one more digit of it ("\\164" then "2" is the
        # four-digit escape "\\1642", which the scanner rejects: the rendering would not denote the string)
        elif rng is not None and rng.random() < 0.05 and not (i + 1 < len(b) and chr(b[i + 1]) in "0123456789abcdefABCDEF"):
            units.append(b"\\x%02x" % c)
        elif rng is not None and rng.random() < 0.03 and not (i + 1 < len(b) and chr(b[i + 1]) in "0123456789"):
            units.append(b"\\%03o" % c)
        else:
            units.append(bytes([c]))
        i += 1
    return b'"' + _join_units(units, rng, p_cont) + b'"'


def sq_render(b, rng=None, p_cont=0.0):
    units = []
    for c in b:
        if c == 0x27:
            units.append(b"\\'")
        elif c == 0x5c:
            units.append(b"\\\\")
        else:
            units.append(bytes([c]))
    return b"'" + _join_units(units, rng, p_cont) + b"'"


WORD_SAFE = set(range(33, 127)) - set(b" #\"'={}()+,*$\\/|")


def str_token(rng, b):
    """source text of a string value denoting bytes b (no NUL)"""
    styles = ["dq", "dq", "sq"]
    if b and all(c in WORD_SAFE for c in b):
        styles.append("word")
    st = rng.choice(styles)
    if st == "word":
        return bytes(b)
    # a quarter of the quoted strings are written over several lines with continuations
    p_cont = 0.3 if rng.random() < 0.25 else 0.0
    if st == "sq" and not b.endswith(b"\\"):
        return sq_render(b, rng, p_cont)
    return dq_render(b, rng, p_cont)


def value_token(rng, ty):
    if ty == "int":
        return rng.choice(INT_TOKENS).encode()
    if ty == "float":
        return rng.choice(FLOAT_TOKENS).encode()
    if ty == "bool":
        return rng.choice(BOOL_TOKENS).encode()
    if ty == "ptr":
        return rng.choice([b"p1", b"obj", b"\"two words\""])
    return str_token(rng, rng.choice(STR_BYTES))


def case_mix(rng, name):
    # ASCII letters only: the library compares with strcasecmp() in the "C" locale (and 'ÿ'.upper() is not latin-1)
    return "".join((ch.upper() if rng.random() < 0.5 else ch.lower()) if ch.isascii() else ch for ch in name)


TITLES = [b"t1", b"t2", b"alpha", b"Beta", b"with space", b"q\"t", b"b\\s", b"${T}", b"x|y", b"it's"]


def title_token(rng, t):
    return str_token(rng, t)


def gen_items(rng, opts, ctxflags, depth=0, maxitems=6, p_unknown=0.0, titles=None, toks=None, bounds=None, kv_keys=None):
    """grammar-derived item list for the schema, as a flat list of source tokens (bytes).
    When `bounds` is given, it receives every index of `toks` at which an item starts or a body ends."""
    top = toks is None
    if toks is None:
        toks = []
    if not opts:
        if bounds is not None:
            bounds.append(len(toks))
        return toks
    n = rng.randint(0, maxitems)
    for _ in range(n):
        if bounds is not None:
            bounds.append(len(toks))
        o = rng.choice(opts)
        name = o.name
        if ctxflags & NOCASE and rng.random() < 0.5:
            name = case_mix(rng, name)
        nm = name.encode("latin1")
        if o.ty == "sec":
            toks.append(nm)
            if o.flags & TITLE:
                t = rng.choice(titles or TITLES)
                if ctxflags & NOCASE and rng.random() < 0.5:
                    # under case-insensitive names a title that differs in letter case only is the SAME title
                    t = case_mix(rng, t.decode("latin1")).encode("latin1")
                toks.append(title_token(rng, t))
            toks.append(b"{")
            if o.flags & KEYSTRVAL:
                # plain keys, and keys that look like paths: a key is any string, and a repeated key is the same option (F49)
                keys = [b"k1", b"k2", b"key", b"K1", b'"a|b"', b'"x=1"', b"p|q", b'"a|b|c"']
                if kv_keys:
                    # arbitrary byte strings as keys, written as whatever token form can carry them
                    keys = keys + [str_token(rng, k) for k in kv_keys]
                # keys that look like paths through a *declared* sub-section of the free-form section (F32)
                for ss in o.subs:
                    if ss.ty == "sec":
                        sn = ss.name.encode("latin1")
                        keys += [sn + b"|zzk", sn + b"|nosuch|zzk", b'"' + sn + b'=0|zzk"', sn + b"|"]
                for _k in range(rng.randint(0, 3)):
                    if bounds is not None:
                        bounds.append(len(toks))
                    k_ = rng.choice(keys)
                    toks += [k_, b"=", str_token(rng, rng.choice(STR_BYTES))]
                    if rng.random() < 0.25:
                        toks += [k_, b"=", str_token(rng, rng.choice(STR_BYTES))]
            if depth < 3:
                gen_items(rng, o.subs, ctxflags, depth + 1, max(1, maxitems - 2), p_unknown, titles, toks, bounds, kv_keys)
            elif bounds is not None:
                bounds.append(len(toks))
            toks.append(b"}")
        elif o.ty == "func":
            toks += [nm, b"("]
            k = rng.randint(0, 3)
            for i in range(k):
                if i:
                    toks.append(b",")
                toks.append(str_token(rng, rng.choice(STR_BYTES + [b"fail"] if rng.random() < 0.05 else STR_BYTES)))
            if k and rng.random() < 0.2:
                toks.append(b",")       # `f(a, b,)` is accepted like `f(a, b)`
            toks.append(b")")
            if rng.random() < 0.3:
                # functions are often called several times in a row (include, search paths, ...)
                toks += [nm, b"(", str_token(rng, rng.choice(STR_BYTES)), b")"]
        elif o.is_list():
            toks += [nm, rng.choice([b"=", b"=", b"+="])]
            form = rng.random()
            if form < 0.15:
                toks.append(value_token(rng, o.ty))
            else:
                toks.append(b"{")
                k = rng.choice([0, 1, 1, 2, 3, 4])
                for i in range(k):
                    if i:
                        toks.append(b",")
                    toks.append(value_token(rng, o.ty))
                if k and rng.random() < 0.1:
                    toks.append(b",")
                toks.append(b"}")
        else:
            toks += [nm, b"=", value_token(rng, o.ty)]
    if bounds is not None:
        bounds.append(len(toks))
    return toks


def gen_unknown(rng, depth=0, maxdepth=3):
    """a syntactically well-formed item whose name is not declared anywhere"""
    # plain names, and names that look like paths (the parser resolves every name with the path resolver)
    name = rng.choice([b"unk", b"unknown_opt", b"zz9", b"new-feature", b"Unk", b"extra|level", b"zzq|x|y", b'"zzp=1|x"', b"zzr|"])
    kind = rng.choice(["assign", "list", "append", "appendlist", "call", "sec", "tsec", "sec", "tsec"])
    # values include strings with braces, quotes of the other kind, escaped quotes and backslash-newline continuations: what
    # is skipped is still scanned as the language says
    v = lambda: rng.choice([b"1", b"x", b"\"q s\"", b"'}'", b"\"{\"", b"true", b"1.5", b"a/b", b"\"a\\\nb\"", b"'c\\\nd }'", b"\"it's { \\\" }\"",
                            b"'say \"}\" \\' {'", b"\"two\nlines }\"", b"\"${HOME:-}}\""])
    if kind == "assign":
        return [name, b"=", v()]
    if kind == "append":
        return [name, b"+=", v()]
    if kind in ("list", "appendlist"):
        t = [name, b"=" if kind == "list" else b"+=", b"{"]
        for i in range(rng.choice([0, 1, 2, 3])):
            if i:
                t.append(b",")
            t.append(v())
        return t + [b"}"]
    if kind == "call":
        t = [name, b"("]
        for i in range(rng.choice([0, 1, 2])):
            if i:
                t.append(b",")
            t.append(v())
        return t + [b")"]
    t = [name] + ([v()] if kind == "tsec" else []) + [b"{"]
    if depth < maxdepth:
        for _ in range(rng.choice([0, 1, 2, 3])):
            t += gen_unknown(rng, depth + 1, maxdepth)
    return t + [b"}"]


def deep_unknown(depth, leaf):
    """`depth` nested unknown sections around `leaf` tokens"""
    return [b"zzu", b"{"] * depth + leaf + [b"}"] * depth


def render(rng, toks, comments=False):
    """join tokens with white space; optionally sprinkle comments between tokens"""
    out = bytearray()
    for i, t in enumerate(toks):
        if i:
            r = rng.random()
            out += b"\n" if r < 0.25 else (b"  " if r < 0.35 else (b"\t" if r < 0.4 else b" "))
            if comments and rng.random() < 0.15:
                out += rng.choice([b"# c\n", b"// c\n", b"/* c */ ", b"/* a\n b */", b"#\n", b"/**/"])
        out += t
    if rng.random() < 0.7:
        out += b"\n"
    return bytes(out)


def mutate(rng, toks):
    """token-level mutation: delete / duplicate / swap / replace"""
    toks = list(toks)
    if not toks:
        return [rng.choice([b"}", b"=", b"x"])]
    k = rng.randint(1, 2)
    for _ in range(k):
        if not toks:
            break
        i = rng.randrange(len(toks))
        m = rng.random()
        if m < 0.3:
            del toks[i]
        elif m < 0.5:
            toks.insert(i, toks[i])
        elif m < 0.7 and len(toks) > 1:
            j = rng.randrange(len(toks))
            toks[i], toks[j] = toks[j], toks[i]
        else:
            toks[i] = rng.choice([b"{", b"}", b"=", b"+=", b",", b"(", b")", b"zz", b"\"s\"", b"9x"])
    return toks


# ------------------------------------------------------------------ schemas

class Names:
    def __init__(self):
        self.n = 0

    def new(self, prefix):
        self.n += 1
        return "%s%d" % (prefix, self.n)


def rand_default(rng, ty, is_list):
    if is_list:
        r = rng.random()
        if r < 0.3:
            return None
        k = rng.choice([0, 1, 2, 3])
        if ty == "int":
            return [rng.choice([b"1", b"2", b"30", b"-4"]) for _ in range(k)]
        if ty == "float":
            return [rng.choice([b"1.5", b"2", b"-0.5"]) for _ in range(k)]
        if ty == "bool":
            return [rng.choice([b"true", b"false"]) for _ in range(k)]
        return [rng.choice([b"a", b"bc", b"d e", b"x\"y"]) for _ in range(k)]
    if ty == "int":
        return rng.choice([0, 1, 7, -3, 1000])
    if ty == "float":
        return rng.choice([0.0, 1.5, -2.25, 100.0])
    if ty == "bool":
        return rng.choice([True, False])
    if ty == "str":
        return rng.choice([None, b"", b"dflt", b"two words"])
    return None


def rand_schema(rng, names=None, depth=0, maxdepth=2, width=5, allow=("int", "float", "bool", "str", "sec"),
                p_flags=0.3, with_callbacks=False, p_simple=0.0):
    """p_simple: probability that a top-level scalar option is declared CFG_SIMPLE_* (value in a variable of the caller;
    only for checks that neither count the library's blocks nor create two contexts from one declaration array)"""
    names = names or Names()
    opts = []
    for _ in range(rng.randint(2 if depth == 0 else 1, width)):
        ty = rng.choice(allow)
        if ty == "sec" and depth >= maxdepth:
            ty = "int"
        flags = 0
        cbs = ""
        if ty == "sec":
            if rng.random() < 0.55:
                flags |= MULTI
                if rng.random() < 0.65:
                    flags |= TITLE
                    if rng.random() < 0.3:
                        flags |= NO_TITLE_DUPES
            elif rng.random() < 0.2:
                flags |= TITLE          # titled but single: the one instance exists from cfg_init(), untitled
            if rng.random() < 0.1:
                flags |= KEYSTRVAL
            o = Opt(names.new("sec"), "sec", flags, None, "-",
                    rand_schema(rng, names, depth + 1, maxdepth, max(2, width - 1), allow, p_flags, with_callbacks))
            if with_callbacks and rng.random() < 0.3:
                o.cbs = "v"
        elif ty == "func":
            o = Opt(names.new("fn"), "func", 0, None, "U")
        elif ty == "ptr":
            is_list = rng.random() < 0.3
            # a pointer option needs a value-parsing callback to take a value from a text; one declared
            # without it refuses every value (F31: it used to do so silently)
            o = Opt(names.new("p"), "ptr", LIST if is_list else 0, None, rng.choice(["pf"] * 6 + ["f"]))
        else:
            is_list = rng.random() < p_flags
            if is_list:
                flags |= LIST
            if rng.random() < 0.08:
                flags |= NODEFAULT
            if rng.random() < 0.06:
                flags |= DEPRECATED
                if rng.random() < 0.5:
                    flags |= DROP
            d = rand_default(rng, ty, is_list)
            if flags & DEPRECATED and is_list:
                # a parsed default of a deprecated option is reported (and dropped) while the *default* is
                # parsed, i.e. inside cfg_init / section creation: not modelled, not generated
                d = None
            if with_callbacks:
                if rng.random() < 0.25 and not (is_list and d):
                    cbs += "p"
                if rng.random() < 0.3 and not (is_list and d):
                    cbs += "v"
                if rng.random() < 0.2:
                    cbs += "w"
            if depth == 0 and not is_list and rng.random() < p_simple:
                flags = 0
                cbs += "s"
            o = Opt(names.new({"int": "i", "float": "f", "bool": "b", "str": "s"}[ty]), ty, flags, d, cbs or "-")
        opts.append(o)
    return opts


def all_opts(opts, prefix=""):
    """yield (path, opt) for every declared option, descending through sections"""
    for o in opts:
        yield prefix + o.name, o
        if o.ty == "sec":
            yield from all_opts(o.subs, prefix + o.name + "|")


# ------------------------------------------------------------------ scratch file trees
import atexit
import shutil
import tempfile

_FSROOT = None


def fsroot():
    """per-run scratch directory for FILE/CWD operations (outside /repo and /verif), removed at exit"""
    global _FSROOT
    if _FSROOT is None:
        _FSROOT = tempfile.mkdtemp(prefix="verif_fs_")
        atexit.register(shutil.rmtree, _FSROOT, True)
    return _FSROOT
