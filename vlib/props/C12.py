"""C12 -- with ignore-unknown set, undeclared items are skipped cleanly."""
from ..core import Case, hx
from .. import gen
from ..gen import schema_lines, NOCASE, COMMENTS, IGNORE_UNKNOWN
from .C01 import hand_schemas

THEOREMS = ["C12_skip_body", "C12_skip_value", "C12_skip_list", "C12_skip_call", "C12_skip_section", "C12_skip_titled_section",
            "C12_clean", "C12_flag_off", "enter_skip", "skip_until", "getoptPath_quiet", "getoptPath_setLine", "depthAfter_nest", "C12_insert", "C12_insert_value", "C12_insert_list", "C12_insert_call", "C12_insert_section", "C12_insert_titled_section", "sim_step", "C12_insert_reachable", "pstep_inv", "parseToks_inv"]
PARTIAL = ("Proved: from an item boundary (state 0 of any frame, any depth) an undeclared name followed by a value, an append, a list, a call, or a "
           "plain/titled section whose content is ANY brace-balanced token sequence (any size, any nesting: depthAfter_nest) brings the machine back to "
           "state 0 of the same frame with the same tree, the same diagnostic and callback logs and the same number of frames (no recursion); path "
           "resolution is silent under IGNORE_UNKNOWN; without the flag the name is rejected; and C12_insert: whatever token sequence follows the skipped "
           "item - well-formed or not - is parsed to the same observable outcome as without the item: same acceptance, same values at every depth, same "
           "callback invocations, same diagnostic classes in order (simulation Sim over all 15 states: positions, the dropped pending annotation and "
           "the stale 'current option' local cannot reach a value). Hypotheses of the per-form corollaries: the item boundary is not right after a "
           "deprecated option and the frame's skip locals are clear (depth 0 / no pending ignore); the latter holds at every reachable boundary "
           "(invariant pstep_inv / clear_at_boundary, so C12_insert_reachable needs no such hypothesis).")
VARIANT = "asan"
RULE = ("accepted texts (token lists with their item boundaries at every depth) x one boundary x a generated unknown item "
        "(assignment, list, append, call, plain/titled section with recursively generated content; nesting to the tier's depth); "
        "oracle on the implementation alone: with CFGF_IGNORE_UNKNOWN return code, every value and the diagnostic count are the "
        "same with and without the item; without the flag the text with the item is rejected with a diagnostic; "
        "non-trivial = the inserted item is a section, a call or a list of >= 2")


def generate(rng, tier):
    cases = []
    n = 0
    nschema = 120 if tier == "quick" else 800
    per = 14 if tier == "quick" else 40
    deep = [10, 100, 1000] if tier == "quick" else [10, 1000, 100000]
    schemas = hand_schemas() + [gen.rand_schema(rng, allow=("int", "float", "bool", "str", "sec", "func"), p_flags=0.3) for _ in range(nschema)]
    for opts in schemas:
        sl = schema_lines(opts)
        for _ in range(per):
            ctxflags = IGNORE_UNKNOWN | rng.choice([0, 0, NOCASE, COMMENTS])
            bounds = []
            toks = gen.gen_items(rng, opts, ctxflags, maxitems=4, bounds=bounds)
            # half of the base texts already hold undeclared items (two unknown sections in one scope, an unknown
            # item right after another, ...): such a text is itself accepted when the flag is set
            if rng.random() < 0.5:
                for _ in range(rng.randint(1, 3)):
                    k0 = rng.choice(bounds)
                    u0 = gen.gen_unknown(rng)
                    toks = toks[:k0] + u0 + toks[k0:]
                    bounds = [b if b <= k0 else b + len(u0) for b in bounds] + [k0 + len(u0)]
                bounds = sorted(set(bounds))
            base = b" ".join(toks) + b"\n"
            for k in rng.sample(bounds, min(len(bounds), 3 if tier == "quick" else 6)):
                if rng.random() < 0.04:
                    d = rng.choice(deep)
                    unk = gen.deep_unknown(d, rng.choice([[], [b"a", b"=", b"1"], [b"l", b"=", b"{", b"1", b"}"], [b"f", b"(", b")"]]))
                else:
                    unk = gen.gen_unknown(rng)
                    if rng.random() < 0.15:
                        # an undeclared leaf under a declared name: `declared|zzu`
                        decl = [o.name.encode() for o in opts]
                        unk = [rng.choice(decl) + b"|zzu"] + unk[1:]
                var = b" ".join(toks[:k] + unk + toks[k:]) + b"\n"
                lines = sl + ["X 0 %d" % ctxflags, "PB 0 " + hx(base), "D 0", "X 1 %d" % ctxflags, "PB 1 " + hx(var), "D 1",
                              "X 2 %d" % (ctxflags & ~IGNORE_UNKNOWN), "PB 2 " + hx(var)]
                cases.append(Case("u%d" % n, lines, {"unk": b" ".join(unk[:12]), "k": k, "big": len(unk) > 50,
                                                      "kind": "sec" if b"{" in unk[1:3] else ("call" if unk[1:2] == [b"("] else ("list" if b"{" in unk else "scalar")),
                                                      "nvals": unk.count(b",") + 1,
                                                      "has_kv": any(o.flags & gen.KEYSTRVAL for _p, o in gen.all_opts(opts))}))
                n += 1
    return cases


def project(lines, case):
    return [l for l in lines if not l.startswith("I ")]


def _parse_blocks(il):
    """[(rc, diags, dump)] for the three contexts"""
    res = []
    i = 0
    while i < len(il):
        if il[i].startswith("R ") and i + 1 < len(il) and il[i + 1].startswith("R "):
            rc = il[i + 1]
            j = i + 2
            diags = []
            while j < len(il) and (il[j].startswith("G ") or il[j].startswith("T ") or il[j].startswith("I ")):
                if il[j].startswith("G "):
                    diags.append(il[j])
                j += 1
            dump = []
            while j < len(il) and (il[j].startswith("V ") or il[j].startswith("U ")):
                dump.append(il[j])
                j += 1
            if j < len(il) and il[j] == ".":
                j += 1
            res.append((rc, diags, dump))
            i = j
        else:
            i += 1
    return res


def oracle(case, il, ctx):
    hz = [l for l in il if l.startswith("H ")]
    if hz:
        return "hazard while skipping an unknown item: " + hz[0]
    b = _parse_blocks(il)
    if len(b) < 3:
        return "malformed output"
    (rc0, g0, d0), (rc1, g1, d1), (rc2, g2, _d2) = b[:3]
    if rc0 == "R 0":
        if rc1 != rc0:
            return "inserting unknown item '%s' changed the return code to %s" % (case.meta["unk"], rc1)
        if d0 != d1:
            return "inserting unknown item '%s' changed a value" % case.meta["unk"]
        if len(g1) != len(g0):
            return "inserting unknown item '%s' produced a diagnostic" % case.meta["unk"]
        if not case.meta.get("has_kv") and (rc2 != "R 1" or not g2):
            return "without the flag the text with the unknown item was not rejected with a diagnostic"
    return None


def nontrivial(case, model_lines):
    return case.meta["kind"] in ("sec", "call") or (case.meta["kind"] == "list" and case.meta["nvals"] >= 2)


def stats(case, model_lines):
    s = {"item_" + case.meta["kind"]: 1}
    if case.meta["big"]:
        s["deep_nesting"] = 1
    return s
