"""C04 -- text-to-number/boolean conversion is exact or rejected."""
import itertools
import re

from ..core import Case, hx
from ..gen import Opt, schema_lines, dq_render, LIST

THEOREMS = ["C04_int", "C04_int_range", "C04_bool", "C04_float_accept", "convInt_prefixed", "convInt_decimal"]
VARIANT = "asan"
RULE = ("tokens over the numeral alphabet {0 1 7 8 9 a f g x b X B + - . e p space tab}, exhaustive to the tier's length "
        "bound plus boundary numerals around LONG_MIN/LONG_MAX/2^63/DBL_MAX/DBL_MIN/denormals, each converted through "
        "cfg_setmulti, cfg_setopt and cfg_parse_buf under prior errno 0/ERANGE/EINVAL for int, float and bool options; "
        "non-trivial = at least one digit and one of: radix prefix, sign, point/exponent, range edge, trailing byte")
SCHEMA = [Opt("i", "int", 0, 1), Opt("f", "float", 0, 0.5), Opt("b", "bool", 0, False),
          Opt("il", "int", LIST, [b"3"]), Opt("fl", "float", LIST, None), Opt("bl", "bool", LIST, None)]
ALPHA = [bytes([c]) for c in b"01789afgxbXB+-.ep \t"]
BOUND = [b"9223372036854775807", b"9223372036854775808", b"-9223372036854775808", b"-9223372036854775809",
         b"0x7fffffffffffffff", b"0x8000000000000000", b"0xffffffffffffffff", b"0x10000000000000000",
         b"0777777777777777777777", b"01000000000000000000000", b"0b111111111111111111111111111111111111111111111111111111111111111",
         b"0b1000000000000000000000000000000000000000000000000000000000000000", b"18446744073709551616", b"4294967296", b"2147483648",
         b"1.7976931348623157e308", b"1.7976931348623159e308", b"1.8e308", b"1e309", b"-1e309", b"2.2250738585072014e-308",
         b"2.2250738585072011e-308", b"4.9406564584124654e-324", b"2.4703282292062327e-324", b"2.4703282292062328e-324", b"1e-400",
         b"0x1p-1074", b"0x1p-1075", b"0x1.fffffffffffffp1023", b"0x1p1024", b"9007199254740993", b"9007199254740992.5",
         b"0.1", b"1e23", b"8.5e-1", b"123456789012345678901234567890", b"0.000001", b"1e", b"1e+", b"1.e1", b".e1", b"0x", b"0b", b"0x.p1",
         b"0x1p", b"inf", b"nan", b"-inf", b"infinity", b"NAN", b"nan(1)", b"true", b"TRUE", b"yes", b"On", b"off", b"NO", b"fAlSe", b"t", b"1", b"0", b"",
         b"truee", b" true", b"0b102", b"0x1g", b"08", b"018", b"00", b"0-5", b"0x-5", b"0x0x5", b"0X1F", b"0B11", b"1_000", b"1,5", b"0" * 29 + b"12", b"0" * 30 + b"12", b"0" * 31 + b"12", b"0b" + b"1" * 29, b"0b" + b"1" * 30, b"0b" + b"1" * 31, b"0" * 30 + b"2z", b"0" * 31 + b"z", b"0" * 29 + b"2z",
         b"1." + b"0" * 26 + b"e10", b"1." + b"0" * 27 + b"e10", b"1." + b"0" * 28 + b"e10", b"0x" + b"0" * 28 + b"ff", b"0x" + b"0" * 29 + b"ff", b"0x" + b"0" * 27 + b"ff",
         b"1" + b"0" * 14, b"1" + b"0" * 15, b"1" + b"0" * 16, b"9" * 63, b"9" * 64, b"9" * 65, b"0." + b"3" * 61, b"0." + b"3" * 62, b"0." + b"3" * 63, b"0" * 127 + b"7", b"0" * 126 + b"7", b"0" * 128 + b"7",
         b"falsehood", b"False!", b"false ", b"FALSE-POSITIVE", b"falsee", b"yesss", b"yess", b"onn", b"offf", b"offs", b"nope", b"noo", b"tru", b"fals", b"truefalse", b"truee1", b"no0", b"on1", b"o", b"of", b"ye", b"n", b"y", b"trueyes", b"falseno", b"tRuE", b"FaLsE", b"oFf", b"yEs", b"-010", b"+010", b"-0x10", b"+0x1f", b"-0b11", b"-00", b"+0", b"-08", b"+09x", "\uff11".encode("utf8")]
BOUNDSET = set(BOUND)
SIGNPREFIX = re.compile(rb"^[+-]0[0-9A-Za-z]")


def mk_case(cid, tok, errno):
    lines = schema_lines(SCHEMA) + ["X 0 0"]
    text = b"i = " + dq_render(tok) + b"\nf = " + dq_render(tok) + b"\n"
    for path in ("i", "f", "b"):
        lines += ["ERRNO %d" % errno, "SM 0 %s %s" % (hx(path), hx(tok))]
    lines += ["D 0"]
    for path in ("i", "f", "b"):
        lines += ["ERRNO %d" % errno, "SO 0 %s %s" % (hx(path), hx(tok))]
    lines += ["D 0"]
    if b"\x00" not in tok:
        lines += ["ERRNO %d" % errno, "PB 0 " + hx(b"i = " + dq_render(tok) + b"\n"),
                  "ERRNO %d" % errno, "PB 0 " + hx(b"f = " + dq_render(tok) + b"\n"),
                  "PB 0 " + hx(b"b = " + dq_render(tok) + b"\n"), "D 0"]
        # the same token as an element of a list: without braces, appended, and in braces after a good element
        if not (len(tok) <= 2 or tok in BOUNDSET or (len(tok) + sum(tok)) % 4 == 0):
            return Case(cid, lines, {"tok": tok, "errno": errno, "signprefix": bool(SIGNPREFIX.match(tok))})
        forms = [b"%s = %s\n", b"%s += %s\n", b"%s = {%s}\n", b"%s += {%s, %s}\n"]
        k = len(tok) + errno
        for j, name in enumerate((b"il", b"fl", b"bl")):
            fm = forms[(k + j) % 4]
            q = dq_render(tok)
            text = fm % ((name, q, q) if fm.count(b"%s") == 3 else (name, q))
            lines += ["ERRNO %d" % errno, "PB 0 " + hx(text)]
        lines += ["D 0"]
    return Case(cid, lines, {"tok": tok, "errno": errno, "signprefix": bool(SIGNPREFIX.match(tok))})


def generate(rng, tier):
    cases = []
    n = 0
    maxlen = 3 if tier == "quick" else 4
    toks = []
    for L in range(0, maxlen + 1):
        for combo in itertools.product(ALPHA, repeat=L):
            toks.append(b"".join(combo))
    toks += BOUND
    nrand = 4000 if tier == "quick" else 40000
    for _ in range(nrand):
        toks.append(b"".join(rng.choice(ALPHA) for _ in range(rng.randint(maxlen + 1, 9))))
    for t in toks:
        cases.append(mk_case("t%d" % n, t, rng.choice([0, 34, 22])))
        n += 1
    return cases


def project(lines, case):
    out = []
    for l in lines:
        if l.startswith("I "):
            continue
        if l.startswith("G "):
            l = "G " + l.split()[-1]
        out.append(l)
    return out


def nontrivial(case, model_lines):
    t = case.meta.get("tok", b"")
    if not re.search(rb"[0-9]", t):
        return False
    return bool(re.search(rb"^0[xb0-7]|[+-]|[.ep]|[^0-9]$", t)) or len(t) >= 15


def stats(case, model_lines):
    s = {"errno_%d" % case.meta.get("errno", 0): 1}
    if case.meta.get("signprefix"):
        s["sign_then_radix_prefix"] = 1      # -010, +0x1f ...: decimal or invalid since fix F36
    acc = sum(1 for l in model_lines if l == "R 0")
    s["accepted_conversions"] = acc
    s["rejected_conversions"] = sum(1 for l in model_lines if l in ("R -1", "R 1"))
    return s

PARTIAL = ("Integers and booleans: full-strength equation with the numeral grammar (C04_int, C04_bool). Floats: proved that an "
           "accepted token is consumed whole, has no leading white space, raised no range error and is finite (C04_float_accept); "
           "that the accepted *set* equals a float-numeral grammar and that the value is the correctly rounded one rests on the "
           "model's strtodC/roundRat (exact Nat arithmetic), validated against glibc by the tie (boundary list + enumeration), not on a theorem. "
           "errno-independence and parser/cfg_setopt/cfg_setmulti agreement hold in the model by construction (the model has no errno; all three "
           "paths call the same setopt) and are checked on the implementation by the tie with three prior errno values per token.")
