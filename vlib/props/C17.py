"""C17 -- file names resolve deterministically via search path and tilde."""
import itertools
import pwd

from ..core import Case, hx
from .. import gen
from ..gen import Opt, schema_lines

THEOREMS = ["C17_first_added", "C17_precedence", "C17_absolute", "C17_regular_only", "C17_tilde", "C17_same_resolution"]
PARTIAL = ("The file system and the passwd database are oracles of the model. 'The result is a fresh allocation' and 'never depends on uninitialised "
           "memory' are statements about C memory: the tie runs the ~user branch under AddressSanitizer (which caught the unterminated user-name "
           "buffer before it was fixed) - runtime evidence supporting the tie, not a theorem.")
VARIANT = "asan"
RULE = ("search-path sequences (length 0..4) over a pool of directories (existing, missing, the same directory twice, ~-prefixed) x "
        "placements of a same-named regular file / directory / nothing in each x names (relative, with sub-directory, absolute, ~, "
        "~/x, ~user, ~user/x, ~nouser/x, empty); compared: strings returned by cfg_searchpath and cfg_tilde_expand, return code "
        "and marker value of cfg_parse and include() through the same path - include() at top level, inside a single section, inside a section "
        "nested in it and inside a titled multi section; ASan watches the ~user branch; "
        "non-trivial = >= 2 candidate directories, a ~ form, or a directory/regular clash")
def _body(extra=()):
    return [Opt("i", "int", 0, -1), Opt("inc", "int", 0, -1), Opt("include", "func", 0, None, "I")] + list(extra)


# include() is also declared inside a single section (created by cfg_init, before any search path exists), inside a
# section nested in it, and inside a titled multi section (created by the parse)
SCHEMA = _body([Opt("box", "sec", 0, None, "-", _body([Opt("inner", "sec", 0, None, "-", _body())])),
                Opt("mb", "sec", gen.MULTI | gen.TITLE, None, "-", _body())])
USERS = [u for u in ("root", "daemon", "nobody", "bin") if any(p.pw_name == u for p in pwd.getpwall())]


def pw_lines():
    out = []
    me = pwd.getpwuid(0)
    out.append("PW - %s" % hx(me.pw_dir))
    for u in USERS:
        out.append("PW %s %s" % (hx(u), hx(pwd.getpwnam(u).pw_dir)))
    return out


def generate(rng, tier):
    cases = []
    root = gen.fsroot()
    n = 0
    pool = ["d1", "d2", "d3", "dmiss"]
    kinds = ["reg", "dir", "none"]
    seqs = []
    for L in range(0, 4 if tier == "quick" else 5):
        seqs += list(itertools.product(pool, repeat=L))
    placements = list(itertools.product(kinds, repeat=3))
    combos = [(s, p) for s in seqs for p in placements]
    if tier == "quick":
        # a directory added again after another one (A, B, A ...) keeps the place of its FIRST addition
        again = [(s, p) for (s, p) in combos if len(s) == 3 and s[0] == s[2] != s[1] and p.count("reg") >= 2]
        combos = rng.sample(combos, min(len(combos), 220)) + rng.sample(again, min(len(again), 60))
    for seq, place in combos:
        cdir = "%s/s%d" % (root, n)
        lines = schema_lines(SCHEMA) + pw_lines() + ["CWD " + hx(cdir)]
        for k, (d, kind) in enumerate(zip(["d1", "d2", "d3"], place)):
            absolute = rng.random() < 0.3
            lines.append("FILE %s dir ." % hx(d + "/keep"))
            if kind == "reg":
                lines.append("FILE %s reg %s" % (hx(d + "/x.conf"), hx("i = %d\n" % (k + 1))))
                lines.append("FILE %s reg %s" % (hx(d + "/sub/y.conf"), hx("inc = %d\n" % (k + 1))))
                # relative names that look like something else on other systems: a drive letter, a backslash, a dot
                for odd in ("x:main.conf", "\\bs.conf", "C:x.conf", ".hidden", "a:b/c.conf"):
                    lines.append("FILE %s reg %s" % (hx(d + "/" + odd), hx("i = %d\n" % (10 + k))))
            elif kind == "dir":
                lines.append("FILE %s dir ." % hx(d + "/x.conf"))
        lines.append("FILE %s reg %s" % (hx("main.conf"), hx("include(\"x.conf\")\ninclude(\"sub/y.conf\")\n")))
        lines.append("X 0 0")
        forms = {}
        same_form = rng.random() < 0.7        # the same directory usually spelt the same way each time it is added
        for d in seq:
            form = rng.random()
            if same_form:
                form = forms.setdefault(d, form)
            dd = d if form < 0.6 else (cdir + "/" + d if form < 0.85 else rng.choice(["~/" + d, "~nouser/" + d, "~" + (USERS[0] if USERS else "root") + "/" + d]))
            lines.append("SP 0 " + hx(dd))
        names = ["x.conf", "sub/y.conf", cdir + "/d2/x.conf", cdir + "/d1", cdir + "/dmiss/x.conf", "missing.conf", "", "./d1/x.conf",
                 "x:main.conf", "\\bs.conf", "C:x.conf", ".hidden", "a:b/c.conf", "\\", "z:"]
        for nm in names:
            # errno as an earlier, survived failure may have left it (out of memory, no such file, range error)
            if rng.random() < 0.4:
                lines.append("ERRNO %d" % rng.choice([12, 12, 2, 34, 21]))
            lines.append("SQ 0 " + hx(nm))
        for t in ["~", "~/x", "~/", "~root", "~root/x/y", "~roo/x", "~r", "~ro", "~rootx/y", "~root/z", "~nouser/x", "~nouser", "plain", "", "a~b", "~~"] + ["~%s/f" % u for u in USERS]:
            lines.append("TE " + hx(t))
        lines += ["ERRNO 12", "PF 0 " + hx("x:main.conf"), "D 0", "ERRNO 12", "PB 0 " + hx("include(\"\\\\bs.conf\")\n"), "D 0", "PF 0 " + hx("x.conf"), "D 0", "PF 0 " + hx(cdir + "/main.conf" if seq else "main.conf"), "D 0",
                  "ERRNO 12", "PB 0 " + hx("include(\"x.conf\")\n"), "D 0",
                  "PB 0 " + hx("box { include(\"x.conf\") }\n"), "D 0",
                  "PB 0 " + hx("box { inner { include(\"sub/y.conf\") include(\"x.conf\") } }\n"), "D 0",
                  "PB 0 " + hx("mb t { include(\"x.conf\") }\n"), "D 0", "F 0"]
        cases.append(Case("s%d" % n, lines, {"seq": seq, "place": place}))
        n += 1
    return cases


def project(lines, case):
    return [l for l in lines if not l.startswith("I ")]


def oracle(case, il, ctx):
    hz = [l for l in il if l.startswith("H ")]
    return ("hazard: " + hz[0]) if hz else None


def nontrivial(case, model_lines):
    return len(set(case.meta["seq"])) >= 2 or ("dir" in case.meta["place"] and "reg" in case.meta["place"])


def stats(case, model_lines):
    s = {"pathlen_%d" % len(case.meta["seq"]): 1}
    s["resolved"] = sum(1 for l in model_lines if l.startswith("S ") and l != "S -")
    s["not_found"] = sum(1 for l in model_lines if l == "S -")
    return s
