"""C14 -- user callbacks see exactly the parsed items, and their verdict binds."""
from ..core import Case, hx
from .. import gen
from ..gen import Opt, schema_lines, LIST, MULTI, TITLE, NOCASE, dbits

THEOREMS = ["C14_parse_callback", "C14_parse_callback_str", "C14_stored_value", "C14_valid_after_store", "C14_func_args",
            "C14_failure_stops", "C14_preset", "C14_log_monotone", "C14_step_monotone", "C14_items_in_order",
            "C01_assign_general", "setopt_int_cb", "C14_assign_trace", "C14_list_trace", "list_tail_loop_valid", "pstep_value_list_valid", "pstep_close_list_valid", "validsOk_of_never_fails"]
PARTIAL = ("Proved for an arbitrary callback oracle: the parse callback gets exactly the decoded token and its result is what is stored (or the value is "
           "refused); right after a stored value the next invocation is the option's validation callback with a snapshot containing that value, and a "
           "non-zero verdict rejects the parse; function callbacks receive the collected arguments in order; after a rejection no later token changes "
           "anything (C14_failure_stops); the pre-set validator runs first and can veto or rewrite; the invocation log and the diagnostics only grow, in "
           "token order, whatever happens later (C14_log_monotone: one lemma per parser state), so the log of a text is the concatenation of what its "
           "pieces caused (C14_items_in_order). And for one whole item in closed form (C14_assign_trace, via C01_assign_general: the three tokens of "
           "an assignment are cfg_setopt + validation + annotation on exactly the selected option): the parse callback is invoked exactly once, first, with "
           "exactly the token text; a refusal rejects the parse with nothing stored and nothing else invoked; otherwise the value it produced is stored and the "
           "validation callback runs next seeing exactly that value, and its verdict decides between an item boundary with the option holding that value and "
           "rejection - the log is the old log plus these one or two invocations in this order. Not proved: the same closed formula for lists, calls and whole "
           "item lists (the pieces compose by C14_items_in_order); the tie compares complete invocation logs for every failing index k.")
VARIANT = "asan"
RULE = ("random schemas in which any subset of options carries a value-parsing, validation, pre-set validation, function or release "
        "callback (declared, or registered afterwards by schema path) x grammar-derived texts x 'the k-th callback invocation fails' "
        "for every k up to the number of invocations of the unfailed run (quick: sampled k); compared: the full invocation log "
        "(kind, option, decoded token / arguments / values visible), return code and tree dump; by-name setters with a vetoing / "
        "rewriting pre-set validator; non-trivial = trace length >= 2 or a failing invocation")


def strip_cbs(opts, keep):
    return [Opt(o.name, o.ty, o.flags, o.default, o.cbs if keep else "-", strip_cbs(o.subs, keep)) for o in opts]


def generate(rng, tier):
    cases = []
    n = 0
    nschema = 60 if tier == "quick" else 250
    per = 6 if tier == "quick" else 12
    maxk = 6 if tier == "quick" else 40
    for _ in range(nschema):
        opts = gen.rand_schema(rng, maxdepth=2, allow=("int", "float", "bool", "str", "sec", "func", "ptr"), p_flags=0.3, with_callbacks=True, p_simple=0.12)
        allo = list(gen.all_opts(opts))
        sl = schema_lines(opts)
        for _ in range(per):
            toks = gen.gen_items(rng, opts, 0, maxitems=5)
            # sprinkle tokens that make value-dependent callbacks fail
            if rng.random() < 0.2 and toks:
                i = rng.randrange(len(toks))
                if toks[i] not in (b"{", b"}", b"=", b"+=", b",", b"(", b")"):
                    toks[i] = rng.choice([b"666", b"bad", b"\"!no\"", b"fail", b"huge", b"erange", b"hugely", b"erange2"])
            text = b" ".join(toks) + b"\n"
            regs = []
            for p, o in allo:
                if o.ty in ("int", "str", "float", "bool") and rng.random() < 0.12 and not (o.is_list() and o.default):
                    regs.append("VF 0 %s %s" % (hx(p), rng.choice(["v", "w"])))
            setters = []
            for p, o in allo:
                if "w" in o.cbs or any(hx(p) in r and r.endswith(" w") for r in regs):
                    if o.ty == "int":
                        setters.append("SI 0 %s 0 %d" % (hx(p), rng.choice([5, -3, 5000])))
                    elif o.ty == "str":
                        setters.append("SS 0 %s 0 %s" % (hx(p), hx(rng.choice([b"ok", b"!veto"]))))
                    elif o.ty == "float":
                        setters.append("SF 0 %s 0 %s" % (hx(p), dbits(2.5)))
                    elif o.ty == "bool":
                        setters.append("SB 0 %s 0 %d" % (hx(p), rng.randint(0, 1)))
            # every syntactic form of an assignment for the options that carry (or get) a callback
            forms = []
            for p, o in allo:
                if "|" in p or o.ty not in ("int", "str", "float", "bool", "ptr"):
                    continue
                v1, v2 = gen.value_token(rng, o.ty), gen.value_token(rng, o.ty)
                nm = p.encode()
                if o.is_list():
                    forms += [[nm, b"=", v1], [nm, b"+=", v1], [nm, b"=", b"{", v1, b",", v2, b"}"], [nm, b"+=", b"{", v1, b"}"], [nm, b"=", b"{", b"}"],
                              [nm, b"=", b"666"], [nm, b"+=", b"bad"]]
                else:
                    forms += [[nm, b"=", v1], [nm, b"=", v1, nm, b"=", v2]]
                if o.ty == "float" and "p" in o.cbs:
                    forms += ([[nm, b"=", b"{", b"1.5", b",", b"huge", b",", b"erange", b"}"]] if o.is_list() else [[nm, b"=", b"huge"], [nm, b"=", b"erange"]])
            if forms and rng.random() < 0.6:
                extra = []
                for f in rng.sample(forms, min(3, len(forms))):
                    extra += f
                text = b" ".join(extra + toks) + b"\n"
                for p, o in allo:
                    if "|" not in p and o.is_list() and o.ty in ("int", "str") and rng.random() < 0.5:
                        regs.append("VF 0 %s v" % hx(p))
            ks = [None] + rng.sample(range(0, 24), maxk) if tier == "quick" else [None] + list(range(0, maxk))
            for k in ks:
                lines = sl + ["X 0 0"] + regs + ["FAILAT %s" % ("-" if k is None else k), "PB 0 " + hx(text), "D 0"] + setters[:3] + ["D 0", "F 0"]
                cases.append(Case("k%d" % n, lines, {"k": k, "text": text, "nregs": len(regs)}))
                n += 1
    # a function callback that itself parses a text containing further function calls into a second context, and then
    # looks at its own arguments again: they are still the ones it was called with
    nschema = [Opt("i", "int", 0, 0), Opt("hook", "func", 0, None, "U"), Opt("g", "func", 0, None, "U"),
               Opt("sec", "sec", 0, None, "-", [Opt("hook", "func", 0, None, "U")])]
    inner = [b'hook("in1")\n', b'hook("in1", "in2", "in3", "in4", "in5", "in6", "in7", "in8", "in9")\ng()\n', b'g("a") g("b", "c")\ni = 3\n',
             b'sec { hook("deep", "er") }\n', b'hook("x"\n']
    hosts = [b'hook("%s", "second", "third")\ni = 1\n', b'g("zero") hook("%s", "2") g("after", "wards")\n',
             b'sec { hook("%s", "s2", "s3", "s4") }\nhook("tail")\n', b'hook("%s")\nhook("%s", "again")\n']
    for host in hosts:
        for it in inner:
            arg = (b"nest:" + it).replace(b"\\", b"\\\\").replace(b'"', b'\\"').replace(b"\n", b"\\n")
            lines = schema_lines(nschema) + ["X 0 0", "X 1 0", "PB 0 " + hx(host.replace(b"%s", arg)), "D 0", "D 1", "F 0", "F 1"]
            cases.append(Case("nest%d" % n, lines, {"k": None, "text": host, "nregs": 0, "nested": True}))
            n += 1
    # callbacks registered by path AFTER instances of the section exist: every instance created later - a new title, the same
    # title again (which replaces), an untitled one more, the re-created single section - runs them; so does a by-name setter
    lschema = [Opt("m", "sec", gen.MULTI | gen.TITLE, None, "-", [Opt("x", "int", 0, 0), Opt("s", "str", 0, None)]),
               Opt("n", "sec", gen.MULTI, None, "-", [Opt("x", "int", 0, 0)]), Opt("one", "sec", 0, None, "-", [Opt("x", "int", 0, 0), Opt("bb", "bool", 0, True)]), Opt("i", "int", 0, 0), Opt("b", "bool", 0, False)]
    first = b"m a { x = 1 }\nn { x = 2 }\none { x = 3 }\n"
    regs_l = [["VF 0 %s w" % hx("b"), "VF 0 %s w" % hx("one|bb")], ["VF 0 %s v" % hx("m|x")], ["VF 0 %s v" % hx("n|x")], ["VF 0 %s v" % hx("one|x")], ["VF 0 %s w" % hx("m|x"), "VF 0 %s w" % hx("n|x")],
              ["VF 0 %s v" % hx("m|x"), "VF 0 %s v" % hx("m|s"), "VF 0 %s v" % hx("n|x"), "VF 0 %s v" % hx("one|x"), "VF 0 %s v" % hx("i")]]
    laters = [b"m b { x = 666 }\ni = 1\n", b"m a { x = 666 }\ni = 2\n", b"n { x = 666 }\ni = 3\n", b"one { x = 666 }\ni = 4\n", b"m c { s = bad }\n",
              b"m b { x = 5 } m c { x = 6 } n { x = 7 }\ni = 666\n"]
    for rg in regs_l:
        for lt in laters:
            for pre in ([first], [], [first, b"m z { }\n"]):
                lines = schema_lines(lschema) + ["X 0 0"] + ["PB 0 " + hx(t) for t in pre] + rg + ["PB 0 " + hx(lt), "D 0",
                         "AT 0 %s %s" % (hx("m"), hx("late")), "SI 0 %s 0 -4" % hx("m=late|x"), "SI 0 %s 0 5000" % hx("m=late|x"), "SI 0 %s 0 -4" % hx("m=a|x"),
                         "SB 0 %s 0 1" % hx("b"), "SB 0 %s 0 0" % hx("one|bb"), "SB 0 %s 0 0" % hx("b"),
                         "RS 0 %s" % hx("one"), "PB 0 " + hx(b"one { x = 666 }\n"), "D 0", "F 0"]
                cases.append(Case("late%d" % n, lines, {"k": None, "text": lt, "nregs": len(rg)}))
                n += 1
    # the same for value-parsing callbacks: the token text handed to the callback (the scanner's buffer for an unquoted
    # word, its scratch string for a quoted one) must survive a scan the callback starts itself
    pschema = [Opt("i", "int", 0, 0), Opt("s", "str", 0, b"d", "p"), Opt("n", "int", 0, 1, "p"), Opt("sl", "str", LIST, None, "p"),
               Opt("sec", "sec", 0, None, "-", [Opt("t", "str", 0, None, "p")])]
    ptexts = [b's = "nest:i = 3\\n"\ni = 1\n', b"s = nest:i=3\ni = 1\n", b"n = nest:i=77\ns = after\n", b'sl = { "nest:i = 1\\n", nest:i=2, "plain" }\n',
              b'sec { t = "nest:i = 9 s = \\"q\\"\\n" }\ns = x\n', b's = "nest:i = \\"open\n"\ns = y\n', b"s = 'nest:i = 5'\ns = \"nest:i = 6\"\n"]
    for t in ptexts:
        lines = schema_lines(pschema) + ["X 0 0", "X 1 0", "PB 0 " + hx(t), "D 0", "F 0", "F 1"]
        cases.append(Case("pnest%d" % n, lines, {"k": None, "text": t, "nregs": 0, "nested": True, "pnested": True}))
        n += 1
    return cases


def project(lines, case):
    if case.meta.get("pnested"):
        # context 0's outcome is the model's, which knows nothing of the nested parse (context 1's callbacks are the harness')
        return [l for l in lines if not l.startswith(("I ", "G ", "T "))]
    if case.meta.get("nested"):
        # the model does not run the nested parse: context 1's dump and the nested invocations are the harness' business
        out, skip = [], False
        for l in lines:
            if l.startswith(("I ", "G ", "T nest ")):
                continue
            out.append(l)
        return [l for l in out if l.startswith(("R ", "H "))]
    # ("T nest ..." lines are written by the harness about a parse its own callback started; the model does not run it)
    return [l for l in lines if not (l.startswith("I ") or l.startswith("G ") or l.startswith("T nest "))]


def oracle(case, il, ctx):
    hz = [l for l in il if l.startswith("H ")]
    if hz:
        return "hazard: " + hz[0]
    return None


def nontrivial(case, model_lines):
    ts = [l for l in model_lines if l.startswith("T ") and not l.startswith("T free")]
    return len(ts) >= 2 or (case.meta["k"] is not None and any(l == "R 1" for l in model_lines))


def stats(case, model_lines):
    s = {}
    for l in model_lines:
        if l.startswith("T "):
            k = "cb_" + l.split()[1]
            s[k] = s.get(k, 0) + 1
    s["failed_by_callback"] = 1 if (case.meta["k"] is not None and "R 1" in model_lines) else 0
    return s
