"""C06 -- rejected input is always reported, with the right file and line."""
from ..core import Case, hx
from .. import gen
from ..gen import Opt, schema_lines, LIST, MULTI, TITLE, KEYSTRVAL, NOCASE
from .C01 import hand_schemas

THEOREMS = ["lex_line_count", "dqRun_line", "sqRun_line", "commentRun_line", "lineComment_line", "pstep_line",
            "pstep_err_reported", "pstep_eof_reported", "pstep_nat", "C06_layout_independent", "C14_log_monotone",
            "C06_rejection_reported", "C06_rejecting_step_reports", "C06_invariant_reachable", "C06_accepted_only_notices",
            "C06_accepted_silent", "C06_accepted_silent_any", "pstep_ndm", "C06_notice_needs_flag", "C06_resolver", "C06_include_reported", "C06_pop_source", "C06_include_restarts",
            "C06_return_restores", "C06_close_position"]
PARTIAL = ("Proved: (a) every rejection is reported - a token stream that takes the machine to 'rejected' has delivered at least one more diagnostic "
           "or callback invocation than before the parse (C06_rejection_reported, from the per-step C06_rejecting_step_reports and the invariant "
           "'the current option exists and is of the kind that led to this state', which holds in every reachable state: C06_invariant_reachable); the "
           "one exemption is named in the statement: a function option declared with a NULL function, where the C library would call through the "
           "pointer. The resolver part: it returns only references that exist, is silent when it resolves, and speaks when it does not unless the "
           "context is IGNORE_UNKNOWN or free-form (C06_resolver). Every failure of include() reports (C06_include_reported). Proving this found two "
           "silent/noisy paths in the real code (F31, F32; both reproduced and fixed). (b) the converse: a parse that does not end rejected has "
           "delivered nothing but deprecation notices, and those only for a current option carrying the DEPRECATED flag (C06_accepted_only_notices, "
           "C06_notice_needs_flag). (c) positions: the scanner counts every newline exactly once on every path (lex_line_count, for inputs without '$': "
           "the body of a ${...} substitution is the unspecified zone); every running step leaves the current context on line + (scanner's count), "
           "through section entry and exit (pstep_line); scanner errors and premature end of input name the current file and line; an included source "
           "starts at line 1 under its own name and the loop goes on in the includer with the remembered name and line (C06_include_restarts, "
           "C06_return_restores); and positions are only ever reported, never acted on: the token machine commutes with the erasure of every file "
           "name and line number (pstep_nat), so the same tokens under ANY placement of newlines give the same acceptance, values, callback "
           "invocations and diagnostic classes (C06_layout_independent). And as the property words it: when no declaration of the schema "
           "carries the DEPRECATED flag, a parse that is not rejected delivers no diagnostic at all (C06_accepted_silent; the whole-tree invariant "
           "'no option at any depth is deprecated' is kept by every operation of the store and every step: pstep_ndm). Not proved: that the line reported for a *parser* diagnostic is the line the offending token ends on for "
           "whole byte-level runs with includes (pstep_line per step; the tie compares file and line of the first diagnostic).")
VARIANT = "asan"
RULE = ("grammar-derived valid texts rendered with many newlines, #, //, /* */ (single/multi-line, empty) comments, multi-line and "
        "continued strings, 0-2 include levels; an error injected at a token position (wrong token, bad value, unknown name, cut); "
        "compared: return code, whether any diagnostic was delivered, file and line of the first one; oracle on the implementation "
        "alone: rc=1 => at least one diagnostic, rc=0 and no deprecated option => none; non-trivial = rejected with the error at "
        "line >= 2 or inside an included file")
INC = Opt("include", "func", 0, None, "I")


def noisy_render(rng, toks):
    out = bytearray()
    for i, t in enumerate(toks):
        if i:
            r = rng.random()
            if r < 0.35:
                out += b"\n" * rng.randint(1, 3)
            elif r < 0.5:
                out += rng.choice([b"# c\n", b"// c\n", b"/* c */ ", b"/* a\n b\n */", b"#\n", b"/**/", b" # x ## y\n", b"/* * / ** */\n"])
            else:
                out += b" "
        # occasionally turn a double-quoted value into a multi-line / continued one (same value modulo newline)
        if t.startswith(b'"') and len(t) > 2 and rng.random() < 0.3:
            k = rng.randint(1, len(t) - 1)
            if t[k - 1:k] != b"\\" and t[k:k + 1] not in (b"{",) and t[k - 1:k] != b"$":
                t = t[:k] + b"\\\n" + t[k:]
        out += t
    out += b"\n" * rng.randint(0, 2)
    return bytes(out)


def inject(rng, toks, names=()):
    toks = list(toks)
    if not toks:
        return [b"}"], "stray"
    i = rng.randrange(len(toks))
    kind = rng.choice(["wrong", "badvalue", "unknown", "unknownbad", "cut", "cut"] + (["unknownpath"] if names else []))
    if kind == "wrong":
        toks[i] = rng.choice([b"}", b"=", b",", b"(", b")", b"{", b"+="])
    elif kind == "badvalue":
        toks[i] = rng.choice([b"9x", b"\"\\400\"", b"\"\\1234\"", b"zz", b"99999999999999999999", b"-9223372036854775809", b"1e999",
                              b"-1e999", b"inf", b"nan", b"0x", b"1.5x"])
    elif kind == "unknown":
        toks.insert(i, b"nosuchname")
    elif kind == "unknownbad":
        # an unknown name followed by something that cannot follow it even when unknown options are skipped
        # (states 10, 11 and 14 of the parser)
        toks[i:i] = rng.choice([[b"nosuchname", b","], [b"nosuchname", b")"], [b"nosuchname", b"}"], [b"nosuchname", b"t", b"="],
                                [b"nosuchname", b"t", b"t2"], [b"nosuchname", b"=", b")"], [b"nosuchname", b"+=", b","],
                                [b"nosuchname", b"=", b"="]])
    elif kind == "unknownpath":
        # an unknown name written as a path: through a declared option (section, free-form section, scalar), through nothing
        nm = rng.choice(list(names)).encode("latin1")
        toks[i:i] = [rng.choice([nm + b"|nosuch", b"nosuch|" + nm, nm + b"|", b'"' + nm + b'=0|nosuch"', nm + b"|nosuch|deeper"]), b"=", b"1"]
    else:
        toks = toks[:i] + rng.choice([[], [b"\"unterminated"], [b"/* open"], [b"'open"]])
    return toks, kind


def with_include(opts):
    def add(os):
        res = []
        for o in os:
            if o.ty == "sec":
                o = Opt(o.name, o.ty, o.flags, o.default, o.cbs, add(o.subs))
            res.append(o)
        if not any(x.name == "include" for x in res):
            res.append(INC)
        return res
    return add(opts)


def generate(rng, tier):
    cases = []
    root = gen.fsroot()
    n = 0
    nschema = 120 if tier == "quick" else 600
    per = 60 if tier == "quick" else 150
    schemas = [with_include(s) for s in hand_schemas()]
    for _ in range(nschema):
        schemas.append(with_include(gen.rand_schema(rng, p_flags=0.25, allow=("int", "float", "bool", "str", "sec", "sec", "ptr"))))
    for opts in schemas:
        for _ in range(per):
            ctxflags = (NOCASE if rng.random() < 0.2 else 0) | (gen.IGNORE_UNKNOWN if rng.random() < 0.25 else 0)
            cdir = "%s/c%d" % (root, n)
            lines = schema_lines(opts) + ["CWD " + hx(cdir), "X 0 %d" % ctxflags]
            nfiles = rng.choice([0, 0, 0, 1, 1, 2])
            main = gen.gen_items(rng, [o for o in opts if o.name != "include"], ctxflags, maxitems=6)
            where = rng.choice(["main"] + ["f%d" % k for k in range(nfiles)]) if rng.random() < 0.8 else None
            kind = None
            fnames = []
            prev_inc = None
            # build include chain: main includes f0 at a top-level item boundary, f0 includes f1 ...
            for k in reversed(range(nfiles)):
                body = gen.gen_items(rng, [o for o in opts if o.name != "include" and o.ty != "sec"], ctxflags, maxitems=4)
                if prev_inc is not None:
                    body = body + [b"include", b"(", b'"' + prev_inc.encode() + b'"', b")"] + gen.gen_items(
                        rng, [o for o in opts if o.name != "include" and o.ty != "sec"], ctxflags, maxitems=2)
                if where == "f%d" % k:
                    body, kind = inject(rng, body, [o.name for o in opts if o.name != "include"])
                name = "inc%d.conf" % k
                lines.append("FILE %s reg %s" % (hx(name), hx(noisy_render(rng, body))))
                prev_inc = name
                fnames.append(name)
            if prev_inc is not None:
                tail = gen.gen_items(rng, [o for o in opts if o.name != "include"], ctxflags, maxitems=3)
                main = main + [b"include", b"(", b'"' + prev_inc.encode() + b'"', b")"] + tail
            if where == "main":
                main, kind = inject(rng, main, [o.name for o in opts if o.name != "include"])
            elif where is None and rng.random() < 0.25:
                # include() failures: a file that includes itself (rejected at the depth limit, reported from inside the
                # innermost level), a directory, a missing file, a missing file looked up through a search path
                kind = rng.choice(["incdepth", "incdir", "incmissing", "incsp"])
                if kind == "incdepth":
                    lines.append("FILE %s reg %s" % (hx("loop.conf"), hx(b"# again\ninclude(\"loop.conf\")\n")))
                    main = main + [b"include", b"(", b'"loop.conf"', b")"]
                elif kind == "incdir":
                    lines.append("FILE %s dir ." % hx("adir/keep"))
                    main = main + [b"include", b"(", b'"adir"', b")"]
                elif kind == "incmissing":
                    main = main + [b"include", b"(", b'"nosuch.conf"', b")"]
                else:
                    lines.append("FILE %s dir ." % hx("spdir/keep"))
                    lines.append("SP 0 " + hx("spdir"))
                    main = main + [b"include", b"(", b'"nosuch.conf"', b")"]
            text = noisy_render(rng, main)
            lines += ["PB 0 " + hx(text)]
            # a second parse through cfg_parse (file) to exercise the other entry point
            if rng.random() < 0.3:
                lines += ["FILE %s reg %s" % (hx("main.conf"), hx(text)), "PF 0 " + hx("main.conf")]
            cases.append(Case("e%d" % n, lines, {"kind": kind, "where": where, "nfiles": nfiles,
                                                  "deprecated": any(o.flags & gen.DEPRECATED for _p, o in gen.all_opts(opts))}))
            n += 1
    # included files that are not brace-balanced: a section opened in one source and closed in another.  The offending
    # token is placed after the place where the sources change; it must be reported under the file it is in (F38)
    base = with_include(hand_schemas()[0])
    errs = [b"nosuch = 1\n", b"i = x\n", b"}\n", b"i =", b"l = { 1, \n\n zz }\n", b'include("nosuch.conf")\n']
    shapes = [
        ("open", b'i = 1\ninclude("open_m.conf")\n}\ni = 2\n%E', [("open_m.conf", b"m t {\n x = 1\n")]),
        ("open_err_in_file", b'i = 1\ninclude("open_m.conf")\n}\ni = 2\n', [("open_m.conf", b"m t {\n x = 1\n%E")]),
        ("close", b'i = 1\nm t {\ninclude("close.conf")\ni = 2\n%E', [("close.conf", b" x = 2\n}\n\n")]),
        ("close_err_in_file", b'i = 1\nm t {\ninclude("close.conf")\ni = 2\n', [("close.conf", b" x = 2\n}\n\n%E")]),
        ("reopen", b'm t {\ninclude("reopen.conf")\n}\n%E', [("reopen.conf", b"x = 1 }\nm t {\n x = 2\n")]),
        ("reopen_err_in_file", b'm t {\ninclude("reopen.conf")\n}\ni = 3\n', [("reopen.conf", b"x = 1 }\n%Em t {\n x = 2\n")]),
        ("nested_open", b'sec {\ninclude("open_chain.conf")\n}\n}\n%E', [("open_chain.conf", b'x = 1\n}\nn {\ninclude("open_inner.conf")\n'),
                                                                         ("open_inner.conf", b"inner q {\n z = 1\n")]),
        ("single_close", b'sec {\ninclude("close.conf")\n%E', [("close.conf", b" x = 2\n}\n")]),
        # newlines inside ${...} (the substitution text may span lines): each is a line (F39)
        ("env_dq_newline", b's = "${NOSUCHVAR_Q:-foo\nbar}"\n%E', []),
        ("env_word_newline", b's = ${NOSUCHVAR_Q:-foo\nbar\n\nbaz}\n%E', []),
        ("env_name_newline", b's = "a${NO\nSUCH}b" sl = { ${Q\n}, "x" }\n%E', []),
        ("env_in_section", b'm t {\n t = "${NOSUCHVAR_Q:-1\n2}"\n x = ${NOSUCHVAR_Q:-\n3}\n%E', []),
    ]
    for sname, text, files in shapes:
        for e in errs:
            for via in ("PB", "PF"):
                cdir = "%s/u%d" % (root, n)
                lines = schema_lines(base) + ["CWD " + hx(cdir), "X 0 0"]
                for fn, body in files:
                    lines.append("FILE %s reg %s" % (hx(fn), hx(body.replace(b"%E", e))))
                t = text.replace(b"%E", e)
                if via == "PB":
                    lines.append("PB 0 " + hx(t))
                else:
                    lines += ["FILE %s reg %s" % (hx("main.conf"), hx(t)), "PF 0 " + hx("main.conf")]
                cases.append(Case("u%d" % n, lines, {"kind": "unbalanced_" + sname, "where": "after", "nfiles": len(files), "deprecated": False}))
                n += 1
    # a section refused by its validation callback: the callback reports on the context it is handed, which by then stands where
    # the section ended - the line of the closing brace, the file it is in
    vschema = with_include([Opt("i", "int", 0, 0), Opt("m", "sec", gen.MULTI | gen.TITLE, None, "v", [Opt("x", "int", 0, 0)]),
                            Opt("sec", "sec", 0, None, "v", [Opt("x", "int", 0, 0), Opt("inner", "sec", 0, None, "v", [Opt("z", "int", 0, 0)])])])
    vsl = schema_lines(vschema)
    vtexts = [(b"m t {\n x = 1\n\n}\ni = 2\n", []), (b"i = 1\nsec {\n\n x = 2\n inner {\n  z = 3\n }\n\n\n}\n", []),
              (b'm t {\n x = 1\ninclude("tail.conf")\ni = 3\n', [("tail.conf", b" x = 2\n}\n\n")]),
              (b'sec {\ninclude("tail2.conf")\n}\n', [("tail2.conf", b"inner {\n z = 1\n\n}\n x = 4\n")]),
              (b"m a { x = 1 }\nm b {\n x = 2\n}\n", [])]
    for vt, vfiles in vtexts:
        for k in range(4):
            cdir = "%s/v%d" % (root, n)
            lines = vsl + ["CWD " + hx(cdir), "X 0 0"] + ["FILE %s reg %s" % (hx(fn), hx(body)) for fn, body in vfiles] + ["FAILAT %d" % k, "PB 0 " + hx(vt)]
            cases.append(Case("v%d" % n, lines, {"kind": "section_validator", "where": "closing_brace", "nfiles": len(vfiles), "deprecated": False}))
            n += 1
    # the error function of a context replaced between two parses: every diagnostic of the later parse - also from inside
    # sections an earlier parse entered or created - is delivered to the function installed now (G2), none to the old one
    eschema = [Opt("i", "int", 0, 0), Opt("s", "str", 0, None),
               Opt("sec", "sec", 0, None, "-", [Opt("x", "int", 0, 0), Opt("inner", "sec", 0, None, "-", [Opt("z", "int", 0, 0)])]),
               Opt("m", "sec", gen.MULTI | gen.TITLE, None, "-", [Opt("x", "int", 0, 0), Opt("deep", "sec", gen.MULTI, None, "-", [Opt("z", "int", 0, 0)])])]
    esl = schema_lines(eschema)
    firsts = [b"sec { x = 1 inner { z = 2 } }\nm t { x = 3 deep { z = 4 } }\n", b"i = 1\n", b"m t { }\nsec { }\n", b"sec { x = bad }\n"]
    bads = [b"sec { x = oops }\n", b"sec { inner { z = bad } }\n", b"m t { x = q }\n", b"m t { deep { z = q } }\n", b"m fresh { x = q }\n", b"i = x\n",
            b"sec { nosuch = 1 }\n", b"sec { inner { \n\n = } }\n", b"m t { deep { z = 1 }\n deep { z = '\n", b"sec { x = 5 }\n"]
    for f1 in firsts:
        for b1 in bads:
            for order in ((1, 0), (1, 1), (0, 1)):
                lines = esl + ["X 0 0", "PB 0 " + hx(f1), "EF 0 %d" % order[0], "PB 0 " + hx(b1), "EF 0 %d" % order[1], "PB 0 " + hx(rng.choice(bads)),
                               "PB 0 " + hx(b1)]
                cases.append(Case("ef%d" % n, lines, {"kind": "errfunc", "where": "sections", "nfiles": 0, "deprecated": False}))
                n += 1
    return cases


def _blocks(lines):
    """split driver output into per-operation blocks starting at each R line"""
    blocks = []
    for l in lines:
        if l.startswith("R "):
            blocks.append([l])
        elif blocks:
            blocks[-1].append(l)
    return blocks


def project(lines, case):
    if case.meta.get("kind") == "errfunc":
        # which of the two error functions got each diagnostic, and its class
        return [l if l.startswith(("R ", "H ")) else l.split()[0] + " " + l.split()[-1] for l in lines if l.startswith(("R ", "H ", "G ", "G2 "))]
    out = [l for l in lines if l.startswith("H ")]
    for b in _blocks(lines)[1:]:
        gs = [l for l in b if l.startswith("G ")]
        out.append(b[0])
        if b[0] == "R 1":
            out.append("first " + " ".join(gs[0].split()[1:3]) if gs else "first none")
        out.append("any %d" % (1 if gs else 0) if not case.meta.get("deprecated") or b[0] != "R 0" else "any ?")
        out += [l for l in b if l.startswith("I ")]
    return out


def oracle(case, impl_lines, ctx):
    for b in _blocks(impl_lines)[1:]:
        gs = [l for l in b if l.startswith(("G ", "G2 "))]
        if b[0] == "R 1" and not gs:
            return "parse failed (rc 1) without any diagnostic"
        if b[0] == "R 0" and gs and not case.meta.get("deprecated"):
            return "accepted parse of a schema without deprecated options delivered a diagnostic"
    return None


def nontrivial(case, model_lines):
    for b in _blocks(model_lines)[1:]:
        gs = [l for l in b if l.startswith("G ")]
        if b[0] == "R 1" and gs:
            f, ln = gs[0].split()[1:3]
            if int(ln) >= 2 or f != hx("[buf]"):
                return True
    return False


def stats(case, model_lines):
    s = {"inject_%s" % case.meta.get("kind"): 1, "where_%s" % case.meta.get("where"): 1}
    for b in _blocks(model_lines)[1:]:
        s["rc_" + b[0][2:]] = s.get("rc_" + b[0][2:], 0) + 1
    return s
