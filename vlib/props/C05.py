"""C05 -- printed configuration parses back to the same configuration."""
from ..core import Case, hx, unhx
from .. import gen
from ..gen import Opt, schema_lines, LIST, MULTI, TITLE, NOCASE, COMMENTS, DEPRECATED, KEYSTRVAL, NO_TITLE_DUPES, dbits

THEOREMS = ["C05_str", "C05_int", "C05_bool", "C05_null_prints_empty", "dqRun_escBody", "decDigits_spec", "C05_name", "C05_name_plain", "C05_name_quoted",
            "C05_flat_roundtrip", "C05_flat_fixpoint", "printOpts_congr", "flat_steps", "opt_step", "lex_opts", "lex_value", "loop_steps", "pstep_pending", "lexSteps_length", "C05_section_item", "pstep_name_sec", "pstep_lbrace_sec", "pstep_rbrace_pop", "setopt_new_untitled", "inst_steps", "tree1_steps", "C05_tree1_roundtrip", "lex_tree1", "lex_insts", "lex_instance", "lex_opts_indent", "accept_of_steps", "C05_single_section_item", "setopt_single", "pstep_lbrace_single", "C05_tree_steps", "tree1_steps_gen", "inst_steps_gen", "section_item_gen", "single_section_item_gen", "bodySteps_flat", "C05_tree_roundtrip", "lex_tree", "lex_tree1_gen", "lex_insts_gen", "lex_instance_gen", "treeToks_no_rparen"]
PARTIAL = ("Proved (leaf round trips, unbounded): every string or title without NUL printed by cfg_print scans back to itself in any environment "
           "(C05_str: quotes, backslashes, '${', newlines, comment markers - induction over the bytes); every long printed with %ld converts "
           "back to itself (C05_int, via the numeral-grammar theorem of C04 and a digit lemma); booleans (C05_bool); every option name - the keys of a "
           "free-form section can be any string - is written so that the scanner returns exactly it as one token in front of what follows (C05_name: "
           "as it is when it is a plain word, quoted otherwise; found and fixed F33). And, at token level, one whole printed SECTION INSTANCE (C05_section_item, Props/C05S): from an item boundary of a frame with the same declarations, the tokens `name { body }` of a printed instance of an untitled multi section - body = the tokens of its flat contents - push a frame holding a fresh instance built from the option's own declarations, run the body there (flat_steps, which holds under any enclosing frames), and at the closing brace write the instance back: the section option has ONE MORE instance, holding option by option exactly the printed values; everything else is as it was; any number of instances in a row (inst_steps); a SINGLE section's printed instance enters the instance the context already holds, whatever it holds, and leaves it holding the printed values (C05_single_section_item); and a whole configuration ONE LEVEL DEEP (tree1_steps): plain options, untitled multi sections and single sections with flat bodies in any mix, fed into a context with the same declarations whose multi sections have no instances yet and whose single sections hold their instance (as cfg_init leaves them) - every plain option ends up holding the printed values and every section option exactly the printed instances, in order, each holding the printed values. And at token level for ANY nesting depth (C05_tree_steps, Props/C05R): the depth-one development with the body of a section abstracted (BodySteps: what the tokens of an option list do to any frame holding the declared counterparts) - assumed for section bodies, proved for the option list around them (section_item_gen, single_section_item_gen, inst_steps_gen, tree1_steps_gen) - and closed by induction on the depth: plain options, untitled multi sections and single sections nested in one another to any depth are reproduced value by value, instance by instance. And at BYTE level for any depth as well (C05_tree_roundtrip d): parseBuf(cfgPrint c) = accepted, with the values and instances of c at every depth - the printed text scans, at every indentation, to the depth-d token relation (lex_tree, by the same body abstraction: LexBody; lex_instance_gen, lex_insts_gen, lex_tree1_gen), then C05_tree_steps and accept_of_steps. And, first proved on its own, that depth-one round trip at BYTE level (C05_tree1_roundtrip, Props/C05T): the bytes cfg_print writes for such a configuration - indentation, 'name {' lines, bodies at indentation 1, closing braces - scan to exactly those tokens (lex_tree1, lex_insts, lex_instance; blanks in front of a token change nothing: lexSteps_indent), the parse loop takes them, and the end of the input is accepted (accept_of_steps): parseBuf(cfgPrint c) into any context with the same declarations and still empty section options returns 0 and leaves every plain option and every section instance holding the printed values. And the whole round trip for FLAT configurations at byte level "
           "(C05_flat_roundtrip, ~1 500 lines in Props/C05F, C05B, C05L and Lemmas/Assign): the bytes the print model writes for a context whose "
           "options are top-level integer / boolean / string options, scalar or list of any length, without callbacks, annotations or print filter "
           "(cells in range, non-NULL, NUL-free), scanned by the scanner model, taken by the parse loop and fed through the token machine into ANY "
           "context with the same declarations (names distinct under its case rule), whatever that context held: accepted, and every option holds "
           "exactly the printed value sequence; and when that context carries no annotations, print callbacks or filter (as cfg_init makes it) the text printed for the re-parsed configuration is byte for byte the first text (C05_flat_fixpoint). Ingredients: the printed text scans to the options' tokens (lex_opts, by induction over options and "
           "values), the loop over one source takes exactly the scanned tokens (loop_steps; pstep_pending: only the ')' of a call can ask for an "
           "include; lexSteps_length: there is fuel for every token), each option's tokens are one closed-form update of that option "
           "(opt_step from C01_assign_denotes / C01_list_item), options do not disturb each other (flat_steps). Not proved: the float leaf (printf %f "
           "then strtod reproduces the printed text - argued in DESIGN.md, checked by the oracle on boundary doubles), sections (the recursion "
           "through C01_refinement), unset / NULL-string options (K01), and the fixpoint clause beyond flat configurations; these are what the implementation-side oracle (print, "
           "parse into a fresh context, compare, print, compare, cycle again) checks on every case.")
VARIANT = "asan"
RULE = ("schemas of printable kinds (int, float, bool, string, lists, plain/multi/titled sections, no deprecated or free-form "
        "options) x states produced by random accepted texts and random setter sequences, strings and titles over bytes 1..255 "
        "weighted to quotes, backslashes, '$', '{', newlines and comment markers; oracle on the implementation alone: print, parse "
        "the print into a fresh context of the same schema (must be accepted), compare the value dumps (floats via their printed "
        "form), print again: second text == first text (annotations off), and a third cycle leaves the text unchanged; "
        "non-trivial = printed text contains a metacharacter string, a nested section, or a list of >= 2")

META = [b'"', b"\\", b"$", b"{", b"}", b"#", b"/", b"*", b"'", b"\n", b"${X}", b"${", b"/*", b"*/", b"//", b"=", b",", b"(", b")", b" ", b"\t", b"\r",
        b"\x01", b"\x7f", b"\x80", b"\xff", b"a", b"Z", b"0", b"+=", b"\\n", b"\\\"", b"\\x41", b"\\101", b"end\\"]


def rbytes(rng, maxlen=8):
    return b"".join(rng.choice(META) if rng.random() < 0.7 else bytes([rng.randint(1, 255)]) for _ in range(rng.randint(0, maxlen)))


def printable_schema(rng):
    opts = gen.rand_schema(rng, maxdepth=3, p_flags=0.3, allow=("int", "float", "bool", "str", "sec", "int", "str", "sec", "ptr"), p_simple=0.12)

    def clean(os):
        res = []
        for o in os:
            fl = o.flags & ~(DEPRECATED | gen.DROP)
            # pointer options keep the callbacks that let a text give them a value; they have no printed form (F35)
            res.append(Opt(o.name, o.ty, fl, o.default, "pf" if o.ty == "ptr" else ("s" if "s" in o.cbs and o.ty != "sec" else "-"), clean(o.subs)))
        return res
    return clean(opts)


def generate(rng, tier):
    cases = []
    n = 0
    nschema = 80 if tier == "quick" else 1200
    per = 10 if tier == "quick" else 25
    for _ in range(nschema):
        opts = printable_schema(rng)
        sl = schema_lines(opts)
        allo = list(gen.all_opts(opts))
        for _ in range(per):
            ctxflags = rng.choice([0, 0, 0, COMMENTS, NOCASE])
            titles = [rbytes(rng, 5) or b"t" for _ in range(4)]
            titles = [t for t in titles if t]
            # keys of free-form sections: any bytes (F33: names that are not plain words are printed quoted)
            kv_keys = [rbytes(rng, 4) for _ in range(3)] + [b"a b", b"x=y", b"p//q", b"", b"k#", b"q\"k", b"it's", b"{b}"]
            toks = gen.gen_items(rng, opts, ctxflags, maxitems=5, titles=titles, kv_keys=kv_keys)
            lines = sl + ["X 0 %d" % ctxflags, "PB 0 " + hx(b" ".join(toks) + b"\n")]
            nulls = False
            for p, o in rng.sample(allo, min(4, len(allo))):
                if "|" in p:
                    continue
                if o.ty == "str" and not o.is_list():
                    if rng.random() < 0.08:
                        lines.append("SS 0 %s 0 -" % hx(p))
                        nulls = nulls or (o.default not in (None,))
                    elif rng.random() < 0.15:
                        # line ends of either convention, and lone carriage returns, inside a string: each byte is itself
                        lines.append("SS 0 %s 0 %s" % (hx(p), hx(rng.choice([b"a\r\nb", b"\r\n", b"x\r", b"\r\r\n\n", b"l1\nl2\r\nl3", b"tab\tcr\rlf\n"]))))
                    else:
                        lines.append("SS 0 %s 0 %s" % (hx(p), hx(rbytes(rng))))
                elif o.ty == "str":
                    vals = [rbytes(rng) for _ in range(rng.randint(0, 3))]
                    lines.append("SL 0 %s%s" % (hx(p), "".join(" " + hx(v) for v in vals)))
                elif o.ty == "int":
                    v = rng.choice([0, -1, 7, 2147483647, -2147483648])
                    lines.append(("SL 0 %s %d %d" % (hx(p), v, max(-2147483648, v - 1))) if o.is_list() else ("SI 0 %s 0 %d" % (hx(p), rng.choice([v, 9223372036854775807, -9223372036854775808]))))
                elif o.ty == "float" and not o.is_list():
                    if rng.random() < 0.04:
                        # a non-finite value can only come from the API; it has no spelling in a file (K03)
                        lines.append("SF 0 %s 0 %s" % (hx(p), rng.choice(["7ff0000000000000", "fff0000000000000", "7ff8000000000000"])))
                    else:
                        lines.append("SF 0 %s 0 %s" % (hx(p), dbits(rng.choice([0.1, -2.5, 1e15, 123456.789, 1e-7, 3.0, 2.0 ** 60, 1e300, 5e-324, -0.0, 1 / 3.0]))))
                elif o.ty == "bool" and not o.is_list():
                    lines.append("SB 0 %s 0 %d" % (hx(p), rng.randint(0, 1)))
                elif o.ty == "sec" and (o.flags & MULTI) and (o.flags & TITLE):
                    lines.append("AT 0 %s %s" % (hx(p), hx(rng.choice(titles))))
            if ctxflags & COMMENTS and allo:
                # annotations, multi-line ones too, on options at the top and inside single sections (printed indented there):
                # they are part of the text that must settle after one cycle
                decl = dict(allo)
                for _a in range(rng.randint(0, 3)):
                    p, o = rng.choice(allo)
                    parts = p.split("|")
                    anc = [decl["|".join(parts[:i + 1])] for i in range(len(parts) - 1)]
                    if o.ty != "sec" and all(a.ty == "sec" and not (a.flags & (MULTI | gen.KEYSTRVAL)) for a in anc):
                        lines.append("SC 0 %s %s" % (hx(p), hx(rng.choice([b"note", b"two words", b"a\nb", b"*", b"x / y", b"p */ t", b"#x */ y = 1", b"a\n*/ b", b"ends *",
                                                                          b"line one\n  line two\nthree", b"first\n\nthird\n  "]))))
            lines += ["D 0", "PR 0", "X 1 %d" % ctxflags, "PP 0 1", "D 1", "PR 1", "X 2 %d" % ctxflags, "PP 1 2", "PR 2"]
            cases.append(Case("r%d" % n, lines, {"ctxflags": ctxflags, "null_over_default": nulls}))
            n += 1
    return cases


def project(lines, case):
    return [l for l in lines if not (l.startswith("G ") or l.startswith("I "))]


def _printed_form(dump):
    """values as the property compares them: floats only to the printed precision (checked through the texts), flag bits ignored"""
    out = []
    for l in dump:
        w = l.split()
        if w[0] == "V":
            if w[3] == "ptr":
                # a pointer value has no text: it is not carried by print / re-parse, and is not compared
                out.append(" ".join(w[:4]))
                continue
            vals = w[7:] if w[3] != "float" else ["f"] * len(w[7:])
            cnt = w[5]
            if w[3] != "sec" and not (int(w[4]) & 2):
                # a scalar is observed through its getter: an absent cell reads like NULL / 0 / false
                dflt = {"str": "-", "int": "0", "bool": "0", "float": "f"}.get(w[3], "-")
                vals = [vals[0] if vals else dflt]
                cnt = "1"
            out.append(" ".join([w[0], w[1], w[2], w[3], cnt] + vals))
        else:
            out.append(" ".join(w[:3]))
    return out


def oracle(case, il, ctx):
    hz = [l for l in il if l.startswith("H ")]
    if hz:
        return "hazard: " + hz[0]
    dots = [i for i, l in enumerate(il) if l == "."]
    bs = [i for i, l in enumerate(il) if l.startswith("B ")]
    if len(dots) < 2 or len(bs) < 3:
        return "malformed output"

    def dump_before(dot):
        j = dot - 1
        out = []
        while j >= 0 and il[j].startswith(("V ", "U ")):
            out.append(il[j])
            j -= 1
        return out[::-1]
    d0, d1 = dump_before(dots[0]), dump_before(dots[1])
    t0, t1, t2 = il[bs[0]], il[bs[1]], il[bs[2]]
    # the parses of the printed text must be accepted
    rcs = [l for l in il[bs[0]:] if l.startswith("R ")]
    # rcs: X1, PP01, X2, PP12
    if len(rcs) < 4:
        return "malformed output"
    if rcs[1] != "R 0":
        return "the printed text was rejected by the parser"
    if _printed_form(d0) != _printed_form(d1):
        return "re-parsed configuration differs from the printed one (sections, titles, list lengths or values)"
    if not (case.meta["ctxflags"] & COMMENTS) and t0 != t1:
        return "printing the re-parsed configuration does not reproduce the first text"
    if rcs[3] != "R 0" or t1 != t2:
        return "a further parse-and-print cycle changed the text"
    return None


def recog_null_over_default(case, il, ml):
    """the case sets a string option with a non-NULL declared default to NULL through the API, and the ONLY
    difference between the printed and the re-parsed configuration is that option"""
    dflt = {}
    for l in case.lines:
        w = l.split()
        if w[0] == "O" and w[3] == "str" and not (int(w[4]) & 2):
            dflt[w[2]] = w[5]
    nulled = set()
    for l in case.lines:
        w = l.split()
        if w[0] in ("SS", "OS") and len(w) == 5 and w[4] == "-" and dflt.get(w[2], "-") != "-":
            nulled.add(w[2])
    if not nulled:
        return False
    dots = [i for i, l in enumerate(il) if l == "."]
    if len(dots) < 2:
        return False

    def dump_before(dot):
        j = dot - 1
        out = []
        while j >= 0 and il[j].startswith(("V ", "U ")):
            out.append(il[j])
            j -= 1
        return out[::-1]
    a, b = _printed_form(dump_before(dots[0])), _printed_form(dump_before(dots[1]))
    if len(a) != len(b):
        return False
    diff = [x.split()[2] for x, y in zip(a, b) if x != y]
    return bool(diff) and all(d in nulled for d in diff)


def recog_nonfinite_float(case, il, ml):
    """the case stores inf / nan in a float option through the API, the printed text spells it inf / nan, and the
    re-parse of that text stops at exactly that spelling: its first diagnostic is 'invalid floating point value'"""
    nonfinite = False
    for l in case.lines:
        w = l.split()
        if w[0] == "SF" and len(w) == 5 and len(w[4]) == 16 and (int(w[4], 16) >> 52) & 0x7ff == 0x7ff:
            nonfinite = True
    if not nonfinite:
        return False
    bs = [i for i, l in enumerate(il) if l.startswith("B ")]
    if not bs or il[bs[0]] in ("B .", "B -"):
        return False
    t = unhx(il[bs[0]][2:])
    if not any(x in t for x in (b"=inf\n", b"=-inf\n", b"=nan\n", b"=-nan\n")):
        return False
    gs = [l for l in il[bs[0]:] if l.startswith("G ")]
    return bool(gs) and gs[0].split()[-1] == "invalidFloat"


RECOGNIZERS = {"null_over_default": recog_null_over_default, "nonfinite_float": recog_nonfinite_float}


def nontrivial(case, model_lines):
    b = [l for l in model_lines if l.startswith("B ")]
    if not b or b[0] in ("B .", "B -"):
        return False
    t = unhx(b[0][2:])
    return b"\n  " in t or b", " in t or any(m in t for m in (b"\\\"", b"\\\\", b"\\$", b"#", b"/*"))


def stats(case, model_lines):
    s = {}
    b = [l for l in model_lines if l.startswith("B ")]
    if b and b[0] not in ("B .", "B -"):
        t = unhx(b[0][2:])
        s["printed_bytes"] = len(t)
        s["escaped_quotes"] = t.count(b'\\"')
        s["escaped_dollar"] = t.count(b"\\$")
        s["section_lines"] = t.count(b"{\n")
    if case.meta.get("null_over_default"):
        s["null_over_default"] = 1
    return s
