"""C13 -- including a file equals reading its text in place."""
from ..core import Case, hx
from .. import gen
from ..gen import Opt, schema_lines, MULTI, TITLE, NOCASE, LIST
from .C06 import with_include
from .C01 import hand_schemas

THEOREMS = ["C13_errors", "C13_enter", "C13_return", "C13_position_roundtrip", "C13_depth_limit", "C13_enter_positions_only", "C13_positions_irrelevant",
            "C13_include_in_place", "joint_run", "same_run", "core_observable", "C13_splice", "lexInitial_app", "lexInitial_bump", "pstep_srcs",
            "C13_loop_reads_scan", "C13_loop_reads_eof", "loop_mono"]
PARTIAL = ("Proved: C13_include_in_place - two runs of the byte-level parse loop (scanner + token machine + include handling) are compared: one in "
           "which the text a of an included file sits on the source stack above the includer's remaining text o (with any number of sources above it - "
           "includes nested inside a - and below), one in which the single source a ++ o stands in their place. They end in machines that agree on "
           "everything but positions and the source stack: same acceptance, same values at every depth, same callback invocations, same diagnostic "
           "classes in order (core_observable) - or the nested run, being one level deeper, was rejected with 'includes nested too deeply' (the one "
           "difference there can be; it is part of the statement). Hypotheses on a: no '$' (the look-ahead of ${...} is unbounded), it ends in a "
           "newline, it scans on its own without a scanner error. Ingredients: the scanner is stable under appending text (lexInitial_app, for every "
           "scanner path; C13_splice for whole buffers: no token is cut, merged or re-read across the joint), its line counter is a pure accumulator "
           "(lexInitial_bump), the token machine neither reads nor writes the source stack (pstep_srcs, 15 per-state lemmas), position erasure "
           "(pstep_nat), and a two-phase simulation over the loop with fuel accounting (joint_run / same_run / loop_mono). Also: entering a good "
           "target saves the includer's file name and line and starts at line 1; reaching its end restores them; missing / directory / unresolvable / "
           "too deep targets reject with one diagnostic at the includer's position and leave the stack of open sources unchanged. Not proved: texts "
           "with '$' or without a final newline (an unquoted word at the very end of a file would merge with what follows the include call only if "
           "that starts with a word byte - it starts with the rest of the line after ')'); 'never a lasting loss of include capacity' after an error "
           "inside an included file is C08/C07 territory and is compared by the tie.")
VARIANT = "asan"
CASE_TIMEOUT = 20
RULE = ("accepted texts as lists of top-level (and section-body) items, split at item boundaries into a tree of include files of "
        "depth 1 .. limit+2, files found directly or through a search path; oracle on the implementation alone: the tree dump of the "
        "split text equals that of the flat text; an error placed after an include is reported in the includer's file and line; "
        "missing / directory / self-including (depth limit) targets give rc=1 with a diagnostic and no hazard, the include stack and the "
        "descriptor table are as before, and a later good include still works; non-trivial = >= 2 include files, depth >= 2 or a failing include")


def inc(name):
    return [b"include", b"(", b'"' + name.encode() + b'"', b")"]


def split_items(rng, items, depth, files, prefix, counter):
    """move a random contiguous range of items into a file, recursively; returns the token list of this level"""
    if depth <= 0 or len(items) == 0:
        return [t for it in items for t in it]
    i = rng.randint(0, len(items))
    j = rng.randint(i, len(items))
    name = "%sf%d.conf" % (prefix, counter[0])
    counter[0] += 1
    inner = split_items(rng, items[i:j], depth - 1, files, prefix, counter)
    files[name] = inner
    rest_a = split_items(rng, items[:i], rng.randint(0, 1), files, prefix, counter) if rng.random() < 0.3 else [t for it in items[:i] for t in it]
    rest_b = [t for it in items[j:] for t in it]
    return rest_a + inc(name) + rest_b


def render_lines(rng, toks):
    out = bytearray()
    for i, t in enumerate(toks):
        if i:
            out += b"\n" if rng.random() < 0.3 else b" "
        out += t
    return bytes(out) + b"\n"


def generate(rng, tier):
    cases = []
    root = gen.fsroot()
    n = 0
    nschema = 50 if tier == "quick" else 500
    per = 8 if tier == "quick" else 20
    schemas = [with_include(s) for s in hand_schemas()[:1]] * 3 + [with_include(gen.rand_schema(rng, p_flags=0.25)) for _ in range(nschema)]
    for opts in schemas:
        plain = [o for o in opts if o.name != "include"]
        sl = schema_lines(opts)
        for _ in range(per):
            cdir = "%s/i%d" % (root, n)
            items = [gen.gen_items(rng, plain, 0, maxitems=1) for _ in range(rng.randint(1, 7))]
            items = [it for it in items if it]
            files = {}
            counter = [0]
            use_sp = rng.random() < 0.4
            # names with a directory part are relative names like any other: found through the search path as well
            prefix = rng.choice(["", "", "sub/", "./", "a/b/"])
            flat_items = list(items)
            # includes inside section bodies (single sections exist since cfg_init, multi ones are created by the parse):
            # the body of a section item is split into files as well
            secs = [o for o in plain if o.ty == "sec" and not (o.flags & gen.KEYSTRVAL)]
            for _k in range(rng.choice([0, 1, 1, 2]) if secs else 0):
                o = rng.choice(secs)
                subs_plain = [x for x in o.subs if x.name != "include"]
                body = [gen.gen_items(rng, subs_plain, 0, maxitems=1) for _ in range(rng.randint(1, 4))]
                body = [b for b in body if b]
                head = [o.name.encode("latin1")] + ([gen.title_token(rng, rng.choice(gen.TITLES))] if o.flags & gen.TITLE else []) + [b"{"]
                pos = rng.randint(0, len(items))
                flat_items.insert(pos, head + [t for b in body for t in b] + [b"}"])
                items.insert(pos, head + split_items(rng, body, rng.choice([1, 1, 2]), files, prefix, counter) + [b"}"])
            # an included file need not be brace-balanced: it may close the section it was included from and open
            # another instance (of the same title, too) or another section, which the includer then closes
            unbalanced = False
            if secs and rng.random() < 0.3:
                unbalanced = True
                o = rng.choice(secs)
                o2 = rng.choice([o, o, rng.choice(secs)])

                def body_of(so):
                    sp_ = [x for x in so.subs if x.name != "include"]
                    b = [gen.gen_items(rng, sp_, 0, maxitems=1) for _ in range(rng.randint(0, 3))]
                    return [t for x in b for t in x]

                def head_of(so, t):
                    return [so.name.encode("latin1")] + ([gen.title_token(rng, t)] if so.flags & gen.TITLE else []) + [b"{"]
                t1 = rng.choice(gen.TITLES)
                t2 = rng.choice([t1, t1, rng.choice(gen.TITLES)])
                a_, b1, b2, c_ = body_of(o), body_of(o), body_of(o2), body_of(o2)
                name = "%su%d.conf" % (prefix, counter[0])
                counter[0] += 1
                files[name] = b1 + [b"}"] + head_of(o2, t2) + b2
                pos = rng.randint(0, len(items))
                flat_items.insert(pos, head_of(o, t1) + a_ + b1 + [b"}"] + head_of(o2, t2) + b2 + c_ + [b"}"])
                items.insert(pos, head_of(o, t1) + a_ + inc(name) + c_ + [b"}"])
            flat = [t for it in flat_items for t in it]
            depth = rng.choice([1, 1, 2, 3, 5, 9, 10])
            main = split_items(rng, items, depth, files, prefix, counter)
            lines = sl + ["CWD " + hx(cdir)]
            for name, toks in files.items():
                lines.append("FILE %s reg %s" % (hx(("inc/" if use_sp else "") + name), hx(render_lines(rng, toks))))
            lines += ["X 0 0", "PB 0 " + hx(render_lines(rng, flat)), "D 0", "X 1 0"]
            if use_sp:
                lines.append("SP 1 " + hx("inc"))
            tail_err = rng.random() < 0.3
            maintext = render_lines(rng, main + ([b"}"] if tail_err else []))
            lines += ["PB 1 " + hx(maintext), "D 1"]
            kind = "split"
            if rng.random() < 0.25:
                # failing includes, then a good one
                kind = "failing"
                pre = "inc/" if use_sp else ""
                lines += ["FILE %s dir ." % hx(pre + "adir/keep"), "FILE %s reg %s" % (hx(pre + "self.conf"), hx("include(\"self.conf\")\n")),
                          "FILE %s reg %s" % (hx(pre + "good.conf"), hx("\n")),
                          "FILE %s reg %s" % (hx(pre + "badinside.conf"), hx("include(\"good.conf\")\n= broken\n"))]
                for _k in range(rng.randint(1, 12)):
                    lines.append("PB 1 " + hx(rng.choice([b'include("nosuch.conf")\n', b'include("adir")\n', b'include("self.conf")\n',
                                                          b'include("badinside.conf")\n', b'include("a", "b")\n', b'include()\n'])))
                lines += ["PB 1 " + hx(b'include("good.conf")\n'), "D 1"]
            cases.append(Case("i%d" % n, lines, {"kind": kind, "nfiles": len(files), "depth": depth, "tail_err": tail_err, "use_sp": use_sp,
                                                  "unbalanced": unbalanced}))
            n += 1
    nsl_early = schema_lines([Opt("x", "int", 0, 0), Opt("y", "int", 0, 0), Opt("z", "int", 0, 0), Opt("l", "int", LIST, None),
                              Opt("sec", "sec", 0, None, "-", [Opt("w", "int", 0, 0), Opt("wl", "int", LIST, [b"1", b"2"]), Opt("include", "func", 0, None, "I")]),
                              Opt("include", "func", 0, None, "I")])
    # an include target that opens but cannot be read is a reported parse error, whatever follows it - another include, a
    # section with a list default, the end of the text (only the return code is compared: the model has no unreadable files)
    for tail in (b'include("good.conf")\nx = 2\n', b"x = 2\n", b'sec { w = 1 }\ninclude("good.conf")\n', b"", b'include("good.conf")\ninclude("good.conf")\n'):
        for head in (b"", b"x = 1\n", b'include("good.conf")\n'):
            cdir = "%s/unr%d" % (root, n)
            lines = nsl_early + ["CWD " + hx(cdir), "FILE %s unreadable ." % hx("bad.conf"), "FILE %s reg %s" % (hx("good.conf"), hx(b"z = 3\nl = {4}\n")),
                                 "X 0 0", "PB 0 " + hx(head + b'include("bad.conf")\n' + tail), "D 0", "PB 0 " + hx(b"y = 9\n"), "D 0"]
            cases.append(Case("i%d" % n, lines, {"kind": "unreadable", "nfiles": 2, "depth": 0, "tail_err": False, "use_sp": False, "unbalanced": False}))
            n += 1
    # include() in a parse that a callback of another, still running parse started: context 1 must end up as the model says
    # the same text leaves it when parsed on its own (MPB: the model runs the nested text by itself), and the outer parse
    # goes on as if nothing had happened - at top level, inside a section, and from inside an included file
    nschema = [Opt("x", "int", 0, 0), Opt("y", "int", 0, 0), Opt("z", "int", 0, 0), Opt("l", "int", LIST, None),
               Opt("sec", "sec", 0, None, "-", [Opt("w", "int", 0, 0), Opt("include", "func", 0, None, "I"), Opt("hook", "func", 0, None, "U")]),
               Opt("include", "func", 0, None, "I"), Opt("hook", "func", 0, None, "U")]
    nsl = schema_lines(nschema)
    nested_texts = [b'x = 1\ninclude("g.conf")\ny = 2\n', b'include("g.conf")\ninclude("g2.conf")\ny = 3\nnosuch = 1\n',
                    b'sec { w = 1 include("gs.conf") }\ny = 4\n', b'include("deep.conf")\ny = 5\nl += {9}\n',
                    b'x = 1\ninclude("missing.conf")\ny = 6\n', b'include("g.conf")\n']
    hosts = [b'x = 7\nhook("%s")\ny = 8\nl = {1, 2}\n', b'sec { w = 3 hook("%s") w = 4 }\nz = 9\n', b'include("host.conf")\nz = 10\n',
             b'hook("%s")\nhook("%s")\ninclude("g2.conf")\nz = 11\n']
    for nt in nested_texts:
        for host in hosts:
            arg = (b"nest:" + nt).replace(b"\\", b"\\\\").replace(b'"', b'\\"').replace(b"\n", b"\\n")
            cdir = "%s/nest%d" % (root, n)
            fl = [("g.conf", b"z = 3\nl = {4}\n"), ("g2.conf", b"l += {5}\n"), ("gs.conf", b"w = 6\n"), ("deep.conf", b'include("g.conf")\nx = 12\n'),
                  ("host.conf", b'x = 13\nhook("' + arg + b'")\ny = 14\n')]
            lines = nsl + ["CWD " + hx(cdir)] + ["FILE %s reg %s" % (hx(nm), hx(c)) for nm, c in fl]
            lines += ["X 0 0", "X 1 0", "PB 0 " + hx(host.replace(b"%s", arg)), "D 0", "MPB 1 " + hx(nt)]
            if host.count(b"%s") == 2:
                lines.append("MPB 1 " + hx(nt))
            lines += ["D 1", "PB 1 " + hx(b'include("g2.conf")\n'), "D 1"]
            cases.append(Case("i%d" % n, lines, {"kind": "nested", "nfiles": len(fl), "depth": 0, "tail_err": False, "use_sp": False, "unbalanced": False}))
            n += 1
    return cases


def project(lines, case):
    if case.meta.get("kind") == "unreadable":
        return [l for l in lines if l.startswith(("R ", "H "))]
    out = []
    for l in lines:
        if l.startswith("T nest"):
            continue        # the harness' report about the parse its callback started (the model runs that text on its own: MPB)
        if l.startswith("G "):
            w = l.split()
            out.append("G %s %s %s" % (w[1], w[2], w[3]))
        else:
            out.append(l)
    return out


def _dumps(il):
    res = []
    cur = None
    for l in il:
        if l.startswith(("V ", "U ")):
            if cur is None:
                cur = []
            cur.append(l)
        elif l == ".":
            res.append(cur or [])
            cur = None
    return res


def oracle(case, il, ctx):
    hz = [l for l in il if l.startswith("H ")]
    if hz:
        return "hazard: " + hz[0]
    if case.meta.get("kind") == "unreadable":
        rcs = [l for l in il if l.startswith("R ")]
        if len(rcs) < 3 or rcs[1] != "R 1":
            return "a parse that includes a file which cannot be read did not fail: " + " ".join(rcs[:2])
        if not any(l.startswith("G ") for l in il):
            return "the unreadable include was not reported"
        return None if rcs[2] == "R 0" else "the context was not usable after the failed include"
    if case.meta.get("kind") == "nested":
        for l in il:
            if l.startswith("I ") and l != "I 0 0":
                return "include stack / descriptor table not restored after a parse: " + l
        return None
    ds = _dumps(il)
    if len(ds) < 2:
        return "malformed output"
    rcs = [l for l in il if l.startswith("R ")]
    # X0, PB0(flat), X1, [SP], PB1(split)
    flat_rc = rcs[1]
    for l in il:
        if l.startswith("I ") and l != "I 0 0":
            return "include stack / descriptor table not restored after a parse: " + l
    if flat_rc == "R 0" and not case.meta["tail_err"]:
        if ds[0] != ds[1]:
            return "the text split into include files gives a different configuration than the flat text"
    if case.meta["kind"] == "failing":
        # the last parse is the good include: must succeed
        last = [i for i, l in enumerate(il) if l.startswith("R ")][-1]
        if il[last] != "R 0":
            return "a good include after failing ones was rejected (lost include capacity?)"
    return None


def nontrivial(case, model_lines):
    return case.meta["nfiles"] >= 2 or case.meta["kind"] == "failing"


def stats(case, model_lines):
    s = {"kind_" + case.meta["kind"]: 1, "files": case.meta["nfiles"]}
    if case.meta["use_sp"]:
        s["via_search_path"] = 1
    if case.meta.get("unbalanced"):
        s["file_closes_and_reopens_a_section"] = 1
    for l in model_lines:
        if l.startswith("G ") and l.split()[3].startswith("include"):
            s["diag_" + l.split()[3]] = s.get("diag_" + l.split()[3], 0) + 1
    return s
