"""C11 -- path lookups resolve like step-by-step navigation."""
from ..core import Case, hx, unhx
from .. import gen
from ..gen import Opt, schema_lines, LIST, MULTI, TITLE, NOCASE, NO_TITLE_DUPES

THEOREMS = ["C11_title_roundtrip", "C11_plain_title", "C11_single_level", "C11_empty_path", "C11_unresolved_changes_nothing", "parseQuoted_esc", "C11_resolve", "secidx_walk", "pathQual_render", "instOf_index", "strtol_decDigits"]
PARTIAL = ("Proved: the title quoting of the path language ('...' with \\' and \\\\) reads back every byte string and reports its exact length "
           "(C11_title_roundtrip); an unquoted title/index runs to the next '|'; and the full statement C11_resolve: for EVERY path - any number of "
           "steps, each a section name with no qualifier, a plain qualifier (index or simple title) or a quoted title of arbitrary bytes, then an option "
           "name - the resolver returns exactly what navigating one level at a time with the single-level accessors returns (same option of the same "
           "section instance, or nothing); on an untitled multi section a decimal qualifier selects that instance number (instOf_index); the empty path "
           "resolves to nothing; every by-path setter/remover whose path does not resolve returns the configuration unchanged. Outside the theorem: "
           "paths with duplicated / leading / trailing separators and names containing '=' (generated and compared by the tie, and checked by an "
           "independent Python walk over the implementation's own dump).")
VARIANT = "asan"
RULE = ("random trees (random + hand-built schemas, parsed grammar-derived texts); for every reachable option and section a path in "
        "every qualifier form (none, =index, =title, ='quoted title'), and systematically broken variants (dropped / duplicated / "
        "leading / trailing separators, index out of range incl. 2^32 and -1, unknown title, qualifier on a single section, bad "
        "quoting, stray '='); compared: resolved tree position with the model; oracle: an independent Python walk over the "
        "implementation's own dump, one level at a time; failing setters/removers through a non-resolving path must leave the dump "
        "unchanged; non-trivial = path has >= 2 steps or a qualifier")

TITLES = [b"a", b"b c", b"it's", b"back\\slash", b"p|q", b"x=y", b"Alpha", b""]


def hand():
    leaf = [Opt("x", "int", 0, 1), Opt("y", "str", 0, b"d"), Opt("xs", "int", LIST, [b"1"])]
    inner = leaf + [Opt("in", "sec", MULTI, None, "-", leaf), Opt("tin", "sec", MULTI | TITLE, None, "-", leaf), Opt("one", "sec", 0, None, "-", leaf)]
    # names that are prefixes of one another, the longer one declared first: a step must match a whole name
    pleaf = [Opt("lev", "int", 0, 2), Opt("level", "int", 0, 3), Opt("le", "str", 0, b"e")]
    pre = [Opt("net6", "sec", MULTI | TITLE, None, "-", pleaf), Opt("net", "sec", MULTI | TITLE, None, "-", pleaf),
           Opt("ne", "sec", 0, None, "-", pleaf + [Opt("subsec", "sec", MULTI, None, "-", pleaf), Opt("sub", "sec", MULTI, None, "-", pleaf)]),
           Opt("n", "sec", MULTI, None, "-", pleaf), Opt("logfile", "str", 0, b"f"), Opt("log", "sec", 0, None, "-", pleaf),
           # the case rule of a by-title lookup is the section OPTION's flag, the one of names and of the parser's "same title"
           # test the context's: a section option that carries NOCASE itself in a case-sensitive context, and the reverse
           Opt("nc", "sec", MULTI | TITLE | NOCASE, None, "-", pleaf)]
    return [[Opt("top", "int", 0, 0), Opt("multi", "sec", MULTI, None, "-", inner), Opt("titled", "sec", MULTI | TITLE, None, "-", inner),
             Opt("single", "sec", 0, None, "-", inner)], pre]


class Node:
    def __init__(self, name, ty, flags, vals, secs):
        self.name, self.ty, self.flags, self.vals, self.secs = name, ty, flags, vals, secs   # secs: list of (title, [Node])


def parse_dump(lines):
    """dump lines -> list of Node (top level)"""
    pos = [0]

    def level(depth):
        nodes = []
        while pos[0] < len(lines):
            w = lines[pos[0]].split()
            if w[0] != "V" or int(w[1]) != depth:
                break
            pos[0] += 1
            name, ty, flags, n = unhx(w[2]), w[3], int(w[4]), int(w[5])
            secs = []
            if ty == "sec":
                for _ in range(n):
                    u = lines[pos[0]].split()
                    assert u[0] == "U"
                    pos[0] += 1
                    secs.append((unhx(u[2]), level(depth + 1)))
            nodes.append(Node(name, ty, flags, w[7:], secs))
        return nodes
    return level(0)


def find(nodes, name, nocase):
    for i, nd in enumerate(nodes):
        if nd.name == name or (nocase and nd.name.lower() == name.lower()):
            return i
    return None


def walk(tree, steps, leaf, nocase):
    """steps: list of (name, qual) with qual None | ('i', int) | ('t', bytes); returns position string or None"""
    cur = tree
    pos = []
    for name, qual in steps:
        i = find(cur, name, nocase)
        if i is None or cur[i].ty != "sec":
            return None
        nd = cur[i]
        if qual is None:
            k = 0
        elif not (nd.flags & MULTI):
            return None
        elif qual[0] == "t":
            if not (nd.flags & TITLE):
                try:
                    k = int(qual[1])
                except ValueError:
                    return None
            else:
                ks = [j for j, (t, _) in enumerate(nd.secs) if t == qual[1] or ((nd.flags & NOCASE) and t is not None and t.lower() == qual[1].lower())]
                if not ks:
                    return None
                k = ks[0]
        else:
            if nd.flags & TITLE:
                ks = [j for j, (t, _) in enumerate(nd.secs) if t == str(qual[1]).encode()]
                if not ks:
                    return None
                k = ks[0]
            else:
                k = qual[1]
        if k < 0 or k >= len(nd.secs):
            return None
        pos.append("%d.%d" % (i, k))
        cur = nd.secs[k][1]
    if leaf is None:
        return "/".join(pos) if pos else None
    j = find(cur, leaf, nocase)
    if j is None:
        return None
    return "/".join(pos + [str(j)])


def quote(t):
    return b"'" + t.replace(b"\\", b"\\\\").replace(b"'", b"\\'") + b"'"


def render_path(steps, leaf, rng):
    parts = []
    for name, qual in steps:
        s = name
        if qual is not None:
            if qual[0] == "i":
                s += b"=" + str(qual[1]).encode()
            else:
                t = qual[1]
                plain_ok = t and b"|" not in t and not t.startswith(b"'")
                s += b"=" + (t if plain_ok and rng.random() < 0.5 else quote(t))
        parts.append(s)
    if leaf is not None:
        parts.append(leaf)
    return b"|".join(parts)


def gen_text(rng, opts, ctxflags):
    toks = gen.gen_items(rng, opts, ctxflags, maxitems=6, titles=TITLES)
    return b" ".join(toks) + b"\n"


def rand_steps(rng, opts, depth=0):
    """random (steps, leaf, is_section_path) guided by the schema"""
    steps = []
    cur = opts
    while True:
        o = rng.choice(cur)
        if o.ty == "sec" and depth < 4 and (rng.random() < 0.75):
            r = rng.random()
            if not (o.flags & MULTI):
                qual = None if r < 0.8 else ("i", 0)
            elif o.flags & TITLE:
                qual = None if r < 0.2 else ("t", rng.choice(TITLES + [b"nosuch"]))
            else:
                qual = None if r < 0.25 else ("i", rng.choice([0, 0, 1, 2, 3, 7]))
            steps.append((o.name.encode(), qual))
            if rng.random() < 0.25 or not o.subs:
                return steps, None
            cur = o.subs
            depth += 1
        else:
            return steps, o.name.encode()


def broken_variants(rng, path):
    v = []
    v.append(("lead_sep", b"|" + path))
    v.append(("trail_sep", path + b"|"))
    v.append(("stray_eq", path + b"="))
    v.append(("only_eq", b"="))
    v.append(("empty", b""))
    # an empty step name in the middle or at the end: "sec|=x", "sec|=", "sec|='t'"
    for t in (b"|=x", b"|=", b"|='t'", b"|=0"):
        v.append(("mid_eq", path + t))
    if b"|" in path:
        i = path.index(b"|")
        v.append(("mid_eq", path[:i] + b"|=" + path[i + 1:]))
        v.append(("dup_sep", path[:i] + b"||" + path[i + 1:]))
        v.append(("drop_sep", path[:i] + path[i + 1:]))
    if b"=" in path:
        i = path.index(b"=")
        rest = path[i + 1:]
        j = rest.find(b"|")
        tail = rest[j:] if j >= 0 else b""
        for bad in (b"4294967296", b"-1", b"99", b"18446744073709551616", b"'unterminated", b"'bad\\escape'", b"", b"'a'junk"):
            v.append(("bad_qual", path[:i + 1] + bad + tail))
        # a quoted qualifier cut off right after a backslash: the path ends inside an escape
        for t in (b"t1", b"1", b"", b"alpha\\"):
            v.append(("bad_qual", path[:i + 1] + b"'" + t + b"\\"))
    return v


def generate(rng, tier):
    cases = []
    n = 0
    nschema = 150 if tier == "quick" else 1500
    per = 6 if tier == "quick" else 15
    schemas = hand() * 4 + [gen.rand_schema(rng, maxdepth=3, p_flags=0.25) for _ in range(nschema)]
    for opts in schemas:
        sl = schema_lines(opts)
        for _ in range(per):
            ctxflags = NOCASE if rng.random() < 0.25 else 0
            lines = sl + ["X 0 %d" % ctxflags, "PB 0 " + hx(gen_text(rng, opts, ctxflags)), "PB 0 " + hx(gen_text(rng, opts, ctxflags)), "D 0"]
            queries = []
            for _q in range(10 if tier == "quick" else 25):
                steps, leaf = rand_steps(rng, opts)
                path = render_path(steps, leaf, rng)
                if ctxflags & NOCASE and rng.random() < 0.4:
                    pass
                kind = "GO" if leaf is not None else "GS"
                queries.append((kind, path, steps, leaf, "wellformed"))
                # the same path with a title in another letter case: the same section only where the section OPTION carries
                # NOCASE (the by-title accessor's rule) - the context's flag is about names
                flip = [k for k, (_n, q) in enumerate(steps) if q is not None and q[0] == "t" and q[1].swapcase() != q[1]]
                if flip and rng.random() < 0.5:
                    k = rng.choice(flip)
                    st2 = list(steps)
                    st2[k] = (steps[k][0], ("t", steps[k][1][1].swapcase()))
                    queries.append((kind, render_path(st2, leaf, rng), st2, leaf, "wellformed"))
                if rng.random() < 0.5:
                    for bk, bp in rng.sample(broken_variants(rng, path), 2):
                        queries.append((rng.choice(["GO", "GS"]), bp, None, None, bk))
            for kind, path, steps, leaf, _k in queries:
                # what errno an earlier call left behind (a range error, an invalid argument) is nothing a lookup looks at
                if rng.random() < 0.3:
                    lines.append("ERRNO %d" % rng.choice([34, 34, 22, 2]))
                lines.append("%s 0 %s" % (kind, hx(path)))
            # failing by-path setters / removers must change nothing
            bad = [q for q in queries if q[4] in ("lead_sep", "trail_sep", "stray_eq", "only_eq", "empty", "bad_qual", "mid_eq")][:4]
            for kind, path, *_ in bad:
                lines += ["SI 0 %s 0 424242" % hx(path), "RS 0 %s" % hx(path)]
            lines.append("D 0")
            cases.append(Case("p%d" % n, lines, {"queries": queries, "nocase": bool(ctxflags & NOCASE), "nbad": len(bad)}))
            n += 1
    return cases


def project(lines, case):
    return [l for l in lines if not (l.startswith("G ") or l.startswith("I "))]


def oracle(case, il, ctx):
    hz = [l for l in il if l.startswith("H ")]
    if hz:
        return "hazard: " + hz[0]
    dots = [i for i, l in enumerate(il) if l == "."]
    if len(dots) < 2:
        return "malformed output"
    start = max(i for i, l in enumerate(il[:dots[0]]) if l.startswith("I ")) + 1
    d1 = il[start:dots[0]]
    try:
        tree = parse_dump(d1)
    except (AssertionError, IndexError, ValueError):
        return "cannot parse dump"
    answers = [l for l in il[dots[0] + 1:] if l.startswith("P ")]
    qs = case.meta["queries"]
    if len(answers) < len(qs):
        return "missing answers"
    for (kind, path, steps, leaf, bk), ans in zip(qs, answers):
        got = ans[2:]
        if bk == "wellformed":
            if kind == "GO":
                exp = walk(tree, steps, leaf, case.meta["nocase"])
            else:
                exp = walk(tree, steps, None, case.meta["nocase"])
            exp = exp if exp is not None else "none"
            if got != exp:
                return "path %r resolved to %s, stepwise navigation gives %s" % (path, got, exp)
        elif bk in ("lead_sep", "trail_sep", "stray_eq", "only_eq", "empty", "mid_eq"):
            if got != "none":
                return "malformed path %r (%s) resolved to %s" % (path, bk, got)
    # failing setters/removers changed nothing
    d2_start = dots[-2] + 1 if len(dots) >= 2 else 0
    tail = il[dots[0] + 1:dots[-1]]
    d2 = [l for l in tail if l.startswith(("V ", "U "))]
    if [l for l in d1 if l.startswith(("V ", "U "))] != d2:
        return "a setter/remover through a non-resolving path changed the configuration"
    return None


def nontrivial(case, model_lines):
    return any(q[4] == "wellformed" and (len(q[2]) >= 1) for q in case.meta["queries"])


def stats(case, model_lines):
    s = {}
    for q in case.meta["queries"]:
        s["q_" + q[4]] = s.get("q_" + q[4], 0) + 1
    s["resolved"] = sum(1 for l in model_lines if l.startswith("P ") and l != "P none")
    s["unresolved"] = sum(1 for l in model_lines if l == "P none")
    return s
