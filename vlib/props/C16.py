"""C16 -- a context owns a private copy of its schema and shares nothing."""
import itertools

from ..core import Case, hx
from .. import gen
from ..gen import NOCASE as gen_NOCASE
from ..gen import Opt, schema_lines, LIST, MULTI, TITLE, KEYSTRVAL, COMMENTS

THEOREMS = ["C16_dup_complete", "C16_dup_order", "C16_late_instance", "C16_late_default", "C16_sibling_frame",
            "C16_other_option_frame", "C16_context_frame", "lens_frame", "C09_other_options_untouched"]
PARTIAL = ("In the functional model a context is a value: absence of aliasing holds by construction and cannot be violated there. Proved: the copy is "
           "complete at every depth and every later section instance is built from it; updates through a reference leave sibling instances, other "
           "options and other contexts untouched. Real aliasing (a pointer into the caller's arrays, two instances sharing a buffer) is runtime "
           "behaviour: the tie destroys the declarations (0xA5 + free) right after cfg_init under AddressSanitizer and compares every participant of "
           "an interleaving with its solo run.")
VARIANT = "asan"
RULE = ("schemas with nested multi sections, string/list/parsed defaults at every level; the declaration arrays and every string in them "
        "are overwritten with 0xA5 and freed right after cfg_init (AddressSanitizer reports any later read); two contexts created from "
        "the SAME arrays; then all interleavings up to the tier's length of operations on the two contexts and on two instances of one "
        "multi section (new instances created late, setters, annotations, free-form keys, validator registration); oracle on the "
        "implementation alone: the dump of each participant equals its dump in the solo run of its own operations; model must agree; "
        "non-trivial = both participants were modified after the declarations were destroyed")
EXHAUSTIVE = {"quick": True, "thorough": True}

LEAF = [Opt("v", "int", 0, 7), Opt("name", "str", 0, b"unnamed"), Opt("tags", "str", LIST, [b"a", b"b c"]), Opt("nums", "int", LIST, [b"1", b"2"])]
INNER = LEAF + [Opt("inner", "sec", MULTI | TITLE, None, "-", LEAF), Opt("kv", "sec", KEYSTRVAL, None, "-", [])]
# "outer2" is declared over the very same sub-option table as "outer" (cbs 'S': the harness hands cfg_init one array for both,
# the way applications share a table between similar sections); the context's copies must still be separate
SCHEMA = [Opt("top", "str", 0, b"/bin/sh"), Opt("outer", "sec", MULTI | TITLE, None, "-", INNER), Opt("outer2", "sec", MULTI | TITLE, None, "S", INNER),
          Opt("plain", "sec", 0, None, "-", LEAF), Opt("lst", "str", LIST, [b"x"])]

# operations per participant; %c = context slot
OPS_CTX = [
    "PB %c " + hx(b'outer a { v = 1 inner i1 { name = n1 } }\n'),
    "PB %c " + hx(b'outer b { tags += { z } inner i2 { } inner i3 { nums = { 9 } } kv { k = v } }\n'),
    "PB %c " + hx(b'outer a { }\nplain { v = 3 }\n'),
    "AT %c " + hx("outer") + " " + hx("late"),
    "SS %c " + hx("top") + " 0 " + hx("changed"),
    "AL %c " + hx("lst") + " " + hx("y"),
    "SC %c " + hx("top") + " " + hx("annotated"),
    "SI %c " + hx("outer=a|v") + " 0 42",
    "AT %c " + hx("outer=a|inner") + " " + hx("third"),
    "VF %c " + hx("outer|v") + " v",
    "RT %c " + hx("outer") + " " + hx("a"),
    # a callback registered through ONE instance of the outer section, on an option of a nested multi section; instances
    # of the nested section created afterwards in that instance and in a sibling: only the former may see the callback
    "VFS %c " + hx("outer=a") + " " + hx("inner|v") + " v",
    "VFS %c " + hx("outer=b") + " " + hx("inner|name") + " w",
    "PB %c " + hx(b'outer b { inner late1 { v = 5 name = x } }\nouter a { inner late2 { v = 6 } }\nouter c { inner late3 { v = 8 } }\n'),
    "SS %c " + hx("outer=a|inner=late2|name") + " 0 " + hx("set"),
    # the twin section over the shared table: a callback registered for one of the two is the other's business in no way
    "VF %c " + hx("outer2|v") + " v",
    "PB %c " + hx(b'outer2 q { v = 2 inner j { v = 3 name = k } }\nouter r { v = 4 }\n'),
    "VF %c " + hx("outer|inner|name") + " v",
    "PB %c " + hx(b'outer2 q2 { inner j2 { name = m } tags = { t } }\n'),
    # titles in another letter case: by-title lookup and removal follow the section option's own flag, which is the
    # declared one in every context, whatever flags the context (or an earlier context from the same arrays) was created with
    "RT %c " + hx("outer") + " " + hx("A"),
    "GS %c " + hx("outer=B"),
    "AT %c " + hx("outer") + " " + hx("A"),
]
FOCUS = [0, 1, 11, 12, 13, 14, 9, 8, 15, 16, 17, 18, 19, 20, 21]


def mk(cid, seq, nocase=False):
    """seq: list of (participant, opindex); participants 0 and 1 are two contexts from the same arrays"""
    lines = schema_lines(SCHEMA) + ["XP 0 %d 1" % (COMMENTS | (gen_NOCASE if nocase else 0))]
    for part, oi in seq:
        lines.append(OPS_CTX[oi].replace("%c", str(part)))
    lines += ["D 0", "D 1", "PR 0", "PR 1", "F 0", "F 1"]
    return Case(cid, lines, {"seq": seq, "nocase": nocase})


def generate(rng, tier):
    cases = []
    n = 0
    # solo runs first (baselines for the oracle)
    maxlen = 3 if tier == "quick" else 4
    idx = list(range(len(OPS_CTX)))
    solos = []
    for L in range(0, maxlen + 1):
        combos = list(itertools.product(idx, repeat=L))
        if L >= 3:
            combos = rng.sample(combos, min(len(combos), 150 if tier == "quick" else 3000))
        solos += combos
    focus = list(itertools.permutations(FOCUS, 3)) + rng.sample(list(itertools.permutations(FOCUS, 4)), 200 if tier == "quick" else 1680)
    solos += [f for f in focus if f not in set(solos)]
    for s in solos:
        cases.append(mk("solo%d" % n, [(0, oi) for oi in s]))
        n += 1
    # the same under a case-insensitive context, for the sequences that look titles up in another letter case
    ncsolos = [f for f in solos if any(oi in (19, 20, 21) for oi in f)]
    for s in ncsolos:
        cases.append(mk("solo%d" % n, [(0, oi) for oi in s], nocase=True))
        n += 1
    # interleavings of two solo sequences
    for _ in range(900 if tier == "quick" else 30000):
        a = rng.choice(solos)
        b = rng.choice(solos)
        merged = [(0, x) for x in a] + [(1, x) for x in b]
        # random interleaving preserving each participant's order
        order = [0] * len(a) + [1] * len(b)
        rng.shuffle(order)
        ia = iter(a)
        ib = iter(b)
        seq = [(p, next(ia) if p == 0 else next(ib)) for p in order]
        nc = a in ncsolos and b in ncsolos and rng.random() < 0.5
        c = mk("mix%d" % n, seq, nocase=nc)
        c.meta["a"], c.meta["b"] = tuple(a), tuple(b)
        cases.append(c)
        n += 1
    return cases


def project(lines, case):
    return [l for l in lines if not (l.startswith("G ") or l.startswith("I "))]


SOLO = {}


def _dumps(il):
    res = []
    cur = []
    for l in il:
        if l.startswith(("V ", "U ")):
            cur.append(l)
        elif l == ".":
            res.append(cur)
            cur = []
    return res


def oracle(case, il, ctx):
    hz = [l for l in il if l.startswith("H ")]
    if hz:
        return "hazard (read of destroyed declarations?): " + hz[0]
    ds = _dumps(il)
    if len(ds) < 2:
        return "malformed output"
    seq = case.meta["seq"]
    if "a" not in case.meta:
        SOLO[(case.meta.get("nocase", False),) + tuple(oi for _p, oi in seq)] = ds[0]
        if ds[1] != SOLO.get((case.meta.get("nocase", False),), ds[1]) and (case.meta.get("nocase", False),) in SOLO:
            return "operations on one context changed the other (created from the same declarations)"
        return None
    nc = case.meta.get("nocase", False)
    sa, sb = SOLO.get((nc,) + tuple(case.meta["a"])), SOLO.get((nc,) + tuple(case.meta["b"]))
    if sa is not None and ds[0] != sa:
        return "context 0 after the interleaving differs from its solo run"
    if sb is not None and ds[1] != sb:
        return "context 1 after the interleaving differs from its solo run"
    return None


def nontrivial(case, model_lines):
    parts = set(p for p, _o in case.meta["seq"])
    return len(parts) == 2 or len(case.meta["seq"]) >= 2


def stats(case, model_lines):
    return {"solo" if "a" not in case.meta else "interleaved": 1, "ops": len(case.meta["seq"])}
