"""C07 -- everything acquired is released exactly once on every path."""
from ..core import Case, hx
from .. import gen
from ..gen import Opt, schema_lines, LIST, MULTI, TITLE, NO_TITLE_DUPES, COMMENTS, dbits
from .C06 import with_include
from . import C09

THEOREMS = ["freeEvCfg_eq", "C07_free_releases_each_pointer_once", "C07_never_twice", "C07_replace_releases_old",
            "C07_section_replace_releases", "C07_rmnsec_releases", "C07_sources_closed", "C07_footprint_append"]
PARTIAL = ("Count-level ledger. Proved: cfg_free calls the release function exactly once per stored non-null pointer value of an option that has "
           "one, at every depth, and for nothing else (mutual induction over values/options/contexts); released values are gone (a second release "
           "finds nothing); overwriting a pointer, replacing a titled section and removing a section hand over exactly what they drop; after any "
           "parse no included source stays open. NOT provable in the model: identity-level double free / use after free, and the release of the "
           "parser's temporaries (comment, title, argument vector) - in a functional model they cannot leak by construction. Those are exhibited "
           "by the tie: after EVERY operation the number of live heap blocks allocated by confuse.c (counting allocator) must equal the model's "
           "footprint of the state - so a temporary or value leaked on any path, at any token cut, shows as a count mismatch at that operation - "
           "plus AddressSanitizer/LeakSanitizer on every case.")
VARIANT = "fault"
CASE_TIMEOUT = 20
RULE = ("(a) grammar-derived valid texts (sections, lists, calls, includes, annotations, pointer options) cut or corrupted at EVERY "
        "token position; (b) API call sequences (exhaustive to the tier's depth over the C09 alphabet, random beyond) with and without a "
        "search path, annotations and pointer-valued options; after every operation the number of live heap blocks allocated by "
        "confuse.c (counting allocator force-included into the build, `values` arrays excluded) must equal the model's footprint of the "
        "state, the release callback log must equal the model's, the include stack / descriptor table must be restored, and after "
        "cfg_free the count is 0; ASan/LSan verdict per case; non-trivial = a free happened during an operation (not only at the end) "
        "or a parse was aborted with temporaries alive")

PSCHEMA = [Opt("i", "int", 0, 7), Opt("s", "str", 0, b"d"), Opt("l", "int", LIST, [b"1", b"2"]), Opt("sl", "str", LIST, [b"x"]),
           Opt("p", "ptr", 0, None, "pf"), Opt("pl", "ptr", LIST, None, "pf"),
           Opt("fn", "func", 0, None, "U"), Opt("include", "func", 0, None, "I"),
           Opt("sec", "sec", 0, None, "-", [Opt("x", "int", 0, 3), Opt("q", "ptr", 0, None, "pf"), Opt("include", "func", 0, None, "I")]),
           Opt("m", "sec", MULTI | TITLE, None, "-", [Opt("y", "str", 0, b"dy"), Opt("yl", "str", LIST, [b"a", b"b"]), Opt("r", "ptr", LIST, None, "pf")]),
           Opt("u", "sec", MULTI | TITLE | NO_TITLE_DUPES, None, "-", [Opt("z", "int", 0, 0)])]

TEXTS = [
    b'i = 5 s = "str" l = { 3 , 4 } l += { 5 } sl = { "a" , \'b\' } p = obj p = other pl = { p1 , p2 }',
    b'fn ( a , "b c" , d ) sec { x = 1 q = ptr1 q = ptr2 } m t1 { y = v yl += { c } r = { r1 , r2 } } m t2 { } m t1 { y = again }',
    b'# note\ni = 1 /* c */ s = two u a { z = 1 } u b { z = 2 } include ( "inc1.conf" ) i = 9',
    b'sec { include ( "inc2.conf" ) x = 4 } m "q t" { r = { a } } pl += { z } fn ( )',
    # every way an include can be refused, each followed by further use: nothing may stay open or allocated
    b'i = 1 include ( "self.conf" ) i = 2',
    b'p = keep include ( "nosuch.conf" ) i = 2',
    b'sec { q = held include ( "chain1.conf" ) } i = 3',
    b'pl = { a , b } include ( "adir" ) i = 4',
    b'm t1 { r = { r1 } } include ( "bad.conf" ) i = 5',
]
FILES = [("inc1.conf", b'l = { 7 } m inc { y = "from include" r = { k } }\n'), ("inc2.conf", b"x = 2 q = pp\n"),
         ("self.conf", b'l += { 1 }\ninclude("self.conf")\n'),                       # exceeds the depth limit with the file open
         ("chain1.conf", b'x = 7\ninclude("chain2.conf")\n'), ("chain2.conf", b'q = deep\ninclude("nosuch2.conf")\n'),
         ("bad.conf", b'p = obj\nm t2 { r = { z }\n= oops\n'), ("adir/keep", None)]
SEP = [b"{", b"}", b"=", b"+=", b",", b"(", b")"]


def parse_cases(rng, tier, root):
    cases = []
    n = 0
    for ti, text in enumerate(TEXTS):
        toks = text.split(b" ")
        variants = [("full", toks)]
        for k in range(len(toks) + 1):
            variants.append(("cut@%d" % k, toks[:k]))
            if k < len(toks):
                variants.append(("corrupt@%d" % k, toks[:k] + [rng.choice([b"}", b"=", b"9x", b'"open', b"/* open", b"("])] + toks[k + 1:]))
        if tier == "quick":
            variants = variants[:1] + rng.sample(variants[1:], min(len(variants) - 1, 45))
        for vname, vt in variants:
            for flags, sp in ((0, False), (COMMENTS, True)):
                cdir = "%s/p%d" % (root, n)
                lines = schema_lines(PSCHEMA) + ["CWD " + hx(cdir)] + [("FILE %s reg %s" % (hx(("incdir/" if sp else "") + nm), hx(c))) if c is not None else
                                                                          ("FILE %s dir ." % hx(("incdir/" if sp else "") + nm)) for nm, c in FILES]
                lines += ["X 0 %d" % flags, "LIVE"]
                if sp:
                    lines += ["SP 0 " + hx("incdir"), "SP 0 " + hx("other"), "LIVE"]
                lines += ["PB 0 " + hx(b" ".join(vt) + b"\n"), "LIVE", "PB 0 " + hx(b" ".join(vt) + b"\n"), "LIVE", "PR 0", "LIVE", "F 0", "LIVE"]
                cases.append(Case("p%d" % n, lines, {"kind": "parse", "variant": vname, "text": ti}))
                n += 1
    return cases


def api_cases(rng, tier):
    cases = []
    n = 0
    # without the CFG_SIMPLE options of C09's schema: what the library stores in the caller's variables is the caller's to
    # release, so "every block is released by cfg_free" is not what is promised for them
    ops = [op for op in C09.OPS if op.split()[2] not in C09.SIMPLE_NAMES and b"si = 3" not in bytes.fromhex(op.split()[2])] + ["SC 0 %s %s" % (hx("i"), hx("ann")), "SM 0 %s %s %s" % (hx("sl"), hx("a"), hx("b")),
                     "RN 0 %s 0" % hx("n"), "RT 0 %s %s" % (hx("u"), hx("a")),
                     # lookups that are refused half-way through a path (existing section, then something malformed):
                     # what the resolver allocated for the step must be released on that exit, too
                     "SI 0 %s 0 1" % hx("m='a'b|x"), "SS 0 %s 0 %s" % (hx("m='a'x|x"), hx("v")), "RS 0 %s" % hx("m='b'x"),
                     "GS 0 %s" % hx("m='a'="), "SI 0 %s 0 1" % hx("n=0x|z"), "RS 0 %s" % hx("n=0|"), "SI 0 %s 0 1" % hx("m=a|nosuch|x"),
                     "PB 0 " + hx(b'"m=\'a\'b|x" = 1\n'), "PB 0 " + hx(b'"m=\'a\'|x" = 1\n')]
    import itertools
    depth = 2 if tier == "quick" else 3
    seqs = []
    for d in range(1, depth + 1):
        allseq = list(itertools.product(ops, repeat=d))
        if d >= 2 and tier == "quick":
            allseq = rng.sample(allseq, 700)
        elif d >= 3:
            allseq = rng.sample(allseq, 60000)
        seqs += allseq
    for _ in range(300 if tier == "quick" else 10000):
        seqs.append(tuple(rng.choice(ops) for _ in range(rng.randint(3, 30))))
    # every section option emptied completely - by index, by title, by path, in either order - and then used again
    # (a new instance, a parse that mentions it, another removal) or just released with the context
    rm_all = {"m": [["RN 0 %s 0" % hx("m")] * 3, ["RT 0 %s %s" % (hx("m"), hx("a")), "RT 0 %s %s" % (hx("m"), hx("b"))],
                    ["RS 0 %s" % hx("m=b"), "RS 0 %s" % hx("m=a")], ["RN 0 %s 1" % hx("m"), "RN 0 %s 0" % hx("m")]],
              "n": [["RN 0 %s 0" % hx("n")] * 3, ["RS 0 %s" % hx("n=1"), "RS 0 %s" % hx("n=0")]],
              "u": [["RT 0 %s %s" % (hx("u"), hx("a"))], ["RN 0 %s 0" % hx("u")] * 2],
              "one": [["RN 0 %s 0" % hx("one")], ["RS 0 %s" % hx("one")]]}
    after = [[], ["AT 0 %s %s" % (hx("m"), hx("z"))], ["AT 0 %s %s" % (hx("u"), hx("z"))], ["PB 0 " + hx(b"n { z = 5 }\none { w = 2 }\nm q { }\nu r { }\n")],
             ["RN 0 %s 0" % hx("m"), "RN 0 %s 0" % hx("n")], ["SO 0 %s -" % hx("n"), "SO 0 %s -" % hx("one")]]
    for name, ways in rm_all.items():
        for way in ways:
            for aft in after:
                seqs.append(("PB 0 " + hx(C09.PARSED),) + tuple(way) + tuple(aft))
    for seq in seqs:
        sp = rng.random() < 0.5
        lines = schema_lines([o for o in C09.SCHEMA if "s" not in o.cbs or o.ty == "sec"]) + ["X 0 %d" % (COMMENTS if rng.random() < 0.3 else 0)]
        if sp:
            lines += ["SP 0 " + hx("/tmp"), "SP 0 " + hx("/nonexistent")]
        if rng.random() < 0.5:
            lines += ["PB 0 " + hx(C09.PARSED)]
        lines += ["LIVE"]
        for op in seq:
            lines += [op, "LIVE"]
        lines += ["F 0", "LIVE"]
        cases.append(Case("a%d" % n, lines, {"kind": "api", "seq": list(seq)}))
        n += 1
    return cases


def generate(rng, tier):
    return parse_cases(rng, tier, gen.fsroot()) + api_cases(rng, tier)


def project(lines, case):
    out = []
    for l in lines:
        if l.startswith(("L ", "R ", "I ", "H ")) or l.startswith("T free"):
            out.append(l)
    return out


def oracle(case, il, ctx):
    hz = [l for l in il if l.startswith("H ")]
    if hz:
        return "sanitizer / process verdict: " + hz[0]
    ls = [l for l in il if l.startswith("L ")]
    if not ls or ls[-1] != "L 0":
        return "heap blocks allocated by the library are still alive after cfg_free: " + (ls[-1] if ls else "no count")
    for l in il:
        if l.startswith("I ") and l != "I 0 0":
            return "include stack pointer / open descriptors not restored: " + l
    return None


def nontrivial(case, model_lines):
    if case.meta["kind"] == "parse":
        return case.meta["variant"] != "full"
    ls = [int(l[2:]) for l in model_lines if l.startswith("L ")]
    return any(b < a for a, b in zip(ls, ls[1:-1])) or any(l.startswith("T free") for l in model_lines[:-3])


def stats(case, model_lines):
    s = {"kind_" + case.meta["kind"]: 1}
    s["release_callbacks"] = sum(1 for l in model_lines if l.startswith("T free"))
    if case.meta["kind"] == "parse":
        s["aborted_parses"] = sum(1 for l in model_lines if l == "R 1")
    return s
