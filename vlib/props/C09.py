"""C09 -- setter, list and section API behaves as a simple typed store."""
import itertools

from ..core import Case, hx
from .. import gen
from ..gen import Opt, schema_lines, LIST, MULTI, TITLE, NO_TITLE_DUPES, NOCASE, dbits

THEOREMS = ["C09_setn_refines", "C09_setn_pristine", "C09_scalar_index_refused", "C09_wrong_type_refused", "C09_unknown_name_refused", "C09_append_keeps_defaults", "C09_setlist_replaces", "C09_remove_keeps_order", "C09_remove_missing_refused", "C09_remove_title_missing_refused", "C09_addtsec_existing_refused", "C09_addtsec_wrong_type", "C09_addtsec_never_replaces", "addlistInternal_appends", "lens_frame", "C09_other_options_untouched", "C09_api_frame"]
PARTIAL = ("Proved per operation (refinement to list operations on the option's value sequence: set-at-index, append, replace-all, erase-at-index, "
           "refuse) and the frame property at any depth: an update through one option reference leaves the option at every disjoint reference "
           "exactly as it was (lens_frame), so every by-path setter - successful or refused - touches the addressed option only (C09_api_frame): the "
           "store is a map from references to value sequences and each call is a point update. Sequences are compositions of these; that a path "
           "names the reference the caller means is C11_resolve. The tie enumerates all sequences to depth 2 over 92 calls (depth 3 in the thorough tier: all triples over the 30 basic calls plus 40 000 sampled ones) from two start states "
           "plus random sequences to length 40.")
VARIANT = "asan"
RULE = ("operation sequences over a finite alphabet of API calls and arguments (scalar/indexed setters, cfg_setlist/addlist, "
        "cfg_setmulti, cfg_setopt, cfg_addtsec, cfg_rmnsec/rmtsec/rmsec, wrong-type / bad-index / unknown-name calls), exhaustive "
        "to the tier's depth from the initial state and from a parsed state, plus random sequences up to length 40; after every "
        "call: return value and full dump (sizes, values, titles, MODIFIED/RESET bits) compared with the model; "
        "non-trivial = >= 2 operations on the same option or a section add/remove")
EXHAUSTIVE = {"quick": True, "thorough": True}

SCHEMA = [Opt("i", "int", 0, 7), Opt("s", "str", 0, b"d"), Opt("b", "bool", 0, False), Opt("f", "float", 0, 1.5),
          Opt("l", "int", LIST, [b"1", b"2"]), Opt("e", "str", LIST, None), Opt("sl", "str", LIST, [b"x"]),
          Opt("fl", "float", LIST, [b"1.5"]), Opt("bl", "bool", LIST, None),
          # decoys declared FIRST whose names merely begin with the names the calls use ("m", "one", "x"): a path step names a whole name
          Opt("mx", "sec", MULTI | TITLE, None, "-", [Opt("x", "int", 0, 9)]), Opt("onex", "int", 0, 0), Opt("ones", "sec", 0, None, "-", [Opt("w", "int", 0, 8)]),
          Opt("m", "sec", MULTI | TITLE, None, "-", [Opt("xx", "int", 0, 4), Opt("x", "int", 0, 3), Opt("xl", "int", LIST, [b"5"])]),
          Opt("u", "sec", MULTI | TITLE | NO_TITLE_DUPES, None, "-", [Opt("y", "str", 0, None)]),
          Opt("n", "sec", MULTI, None, "-", [Opt("z", "int", 0, 0)]),
          Opt("one", "sec", 0, None, "-", [Opt("w", "int", 0, 1), Opt("wl", "str", LIST, [b"a", b"b"])]),
          # CFG_SIMPLE_*: the value cell is a variable of the caller's
          Opt("si", "int", 0, 5, "s"), Opt("ss", "str", 0, b"init", "s"), Opt("sn", "str", 0, None, "s"), Opt("sb", "bool", 0, True, "s"),
          Opt("sf", "float", 0, 0.5, "s")]

SIMPLE_NAMES = {hx("si"), hx("ss"), hx("sn"), hx("sb"), hx("sf")}
OPS = [
    "SI 0 %s 0 5" % hx("i"), "SI 0 %s 1 6" % hx("i"), "SI 0 %s 0 9" % hx("l"), "SI 0 %s 1 9" % hx("l"), "SI 0 %s 5 9" % hx("l"),
    "SI 0 %s 0 1" % hx("s"), "SS 0 %s 0 %s" % (hx("s"), hx("new")), "SS 0 %s 0 -" % hx("s"), "SS 0 %s 2 %s" % (hx("sl"), hx("q")),
    "SB 0 %s 0 1" % hx("b"), "SF 0 %s 0 %s" % (hx("f"), dbits(2.5)), "SI 0 %s 0 1" % hx("nosuch"),
    "SL 0 %s 4 5" % hx("l"), "SL 0 %s" % hx("l"), "AL 0 %s 8" % hx("l"), "AL 0 %s 8 9" % hx("l"), "AL 0 %s %s" % (hx("e"), hx("k")),
    "AL 0 %s %s" % (hx("sl"), hx("y")), "SL 0 %s 1" % hx("i"), "AL 0 %s 1" % hx("i"),
    "SM 0 %s %s %s" % (hx("l"), hx("3"), hx("4")), "SM 0 %s %s %s" % (hx("l"), hx("3"), hx("x")), "SM 0 %s %s" % (hx("i"), hx("11")),
    "SM 0 %s %s" % (hx("s"), hx("multi")),
    # bulk set of the other value kinds: floats and booleans are converted from text one by one, too
    "SM 0 %s %s %s" % (hx("fl"), hx("2.5"), hx("1e3")), "SM 0 %s %s %s" % (hx("fl"), hx("0.5"), hx("1.5x")),
    "SM 0 %s %s %s" % (hx("bl"), hx("yes"), hx("Off")), "SM 0 %s %s %s" % (hx("bl"), hx("on"), hx("maybe")), "SM 0 %s %s" % (hx("b"), hx("TRUE")), "SO 0 %s %s" % (hx("l"), hx("21")), "SO 0 %s %s" % (hx("i"), hx("zz")), "SO 0 %s %s" % (hx("i"), hx("0x10")),
    "AT 0 %s %s" % (hx("m"), hx("a")), "AT 0 %s %s" % (hx("m"), hx("b")), "AT 0 %s %s" % (hx("u"), hx("a")), "AT 0 %s %s" % (hx("nosuch"), hx("a")),
    # adding a "section" to an option that is not one, and adding one without a title (F37)
    "AT 0 %s %s" % (hx("i"), hx("5")), "AT 0 %s -" % hx("m"), "AT 0 %s -" % hx("n"), "SO 0 %s -" % hx("m"),
    # the same title in another letter case: the same section under a case-insensitive context, another one otherwise
    "AT 0 %s %s" % (hx("m"), hx("A")), "RT 0 %s %s" % (hx("m"), hx("A")),
    "RN 0 %s 0" % hx("m"), "RN 0 %s 1" % hx("m"), "RT 0 %s %s" % (hx("m"), hx("a")), "RT 0 %s %s" % (hx("u"), hx("zz")), "RS 0 %s" % hx("m=b"),
    "RS 0 %s" % hx("m=zz"), "RN 0 %s 0" % hx("one"), "RN 0 %s 0" % hx("i"), "RT 0 %s %s" % (hx("n"), hx("a")),
    "SI 0 %s 0 4" % hx("m=a|x"), "AL 0 %s 6" % hx("m=a|xl"), "SI 0 %s 0 2" % hx("one|w"), "AL 0 %s %s" % (hx("one|wl"), hx("c")),
    "SC 0 %s %s" % (hx("l"), hx("note")),
    # a string option set from the very string it holds (the result of a getter handed back to cfg_setopt)
    "SOA 0 %s" % hx("s"), "SOA 0 %s" % hx("sl"), "SSA 0 %s 0" % hx("s"), "SSA 0 %s 0" % hx("sl"), "SSA 0 %s 1" % hx("sl"),
    # a string list replaced by elements of itself (cfg_setlist(cfg, n, 2, cfg_getnstr(cfg, n, 1), cfg_getnstr(cfg, n, 0)))
    "SLA 0 %s 1 0" % hx("sl"), "SLA 0 %s 0 0" % hx("sl"),
    # list set / append on float and boolean lists; validator registration through paths that name nothing, a non-section,
    # and (under a case-insensitive context) another letter case
    "AL 0 %s %s" % (hx("fl"), dbits(2.5)), "SL 0 %s %s %s" % (hx("fl"), dbits(0.5), dbits(8.0)), "AL 0 %s 1 0" % hx("bl"), "SL 0 %s 0" % hx("bl"),
    "VF 0 %s v" % hx("nosuch|x"), "VF 0 %s v" % hx("i|x"), "VF 0 %s v" % hx("M|X"), "VF 0 %s v" % hx("m|x"), "VF 0 %s w" % hx("one|W"),
    # options whose value is a variable of the caller's (CFG_SIMPLE_*): the same typed store, one cell
    "SI 0 %s 0 9" % hx("si"), "SI 0 %s 1 9" % hx("si"), "SS 0 %s 0 %s" % (hx("ss"), hx("new")), "SS 0 %s 0 -" % hx("ss"), "SS 0 %s 0 %s" % (hx("sn"), hx("n")),
    "SB 0 %s 0 0" % hx("sb"), "SM 0 %s %s %s" % (hx("ss"), hx("a"), hx("b")), "SM 0 %s %s %s" % (hx("si"), hx("1"), hx("x")), "SM 0 %s %s" % (hx("si"), hx("0x20")),
    "SO 0 %s %s" % (hx("si"), hx("12")), "SO 0 %s %s" % (hx("ss"), hx("so")), "SSA 0 %s 0" % hx("ss"), "SOA 0 %s" % hx("ss"), "SI 0 %s 0 1" % hx("ss"),
    "PB 0 %s" % hx(b"si = 3 ss = p sb = no sf = 2.5\n"), "SC 0 %s %s" % (hx("si"), hx("note")), "AL 0 %s 4" % hx("si"),
    # a plain (single) section removed, and mentioned again by a parse: the new instance starts from the declared defaults
    "RS 0 %s" % hx("one"), "PB 0 %s" % hx(b"one { }\n"), "PB 0 %s" % hx(b"one { wl += {z} }\n"),
]
PARSED = b"i = 3\nl += {4}\nm a { x = 1 }\nm b { }\nu a { y = q }\nn { z = 1 }\nn { z = 2 }\none { w = 5 }\n"


def mk(cid, seq, parsed, meta, nocase=False):
    lines = schema_lines(SCHEMA) + ["X 0 %d" % (NOCASE if nocase else 0)]
    if parsed:
        lines += ["PB 0 " + hx(PARSED)]
    for op in seq:
        lines += [op, "D 0"]
    lines += ["F 0"]
    m = dict(meta)
    m["seq"] = seq
    return Case(cid, lines, m)


def generate(rng, tier):
    cases = []
    n = 0
    depth = 2 if tier == "quick" else 3
    simple = [op for op in OPS if op.split()[2] in SIMPLE_NAMES or b"si = 3" in bytes.fromhex(op.split()[2])]
    core = [op for op in OPS if op not in simple]
    # the calls on CFG_SIMPLE options: all sequences among themselves, and pairs with every other call (sampled in the quick tier)
    for d in range(1, depth + 1):
        for seq in itertools.product(simple, repeat=d):
            cases.append(mk("x%d" % n, list(seq), d % 2 == 0, {"kind": "exhaustive_simple", "depth": d}))
            n += 1
    mixed = [(a, b) for a in simple for b in core] + [(b, a) for a in simple for b in core]
    for seq in (mixed if tier != "quick" else rng.sample(mixed, 500)):
        cases.append(mk("x%d" % n, list(seq), rng.random() < 0.5, {"kind": "mixed_simple", "depth": 2}))
        n += 1
    def core_seqs(d):
        if d <= 2:
            return itertools.product(core, repeat=d)
        # depth 3: every triple over the 30 basic calls, and a large sample of triples over all of them (the full cube of 75
        # calls x 2 start states ran for an hour)
        hot = core[:30]
        return itertools.chain(itertools.product(hot, repeat=3), (tuple(rng.choice(core) for _ in range(3)) for _ in range(40000)))
    for d in range(1, depth + 1):
        for seq in core_seqs(d):
            for parsed in ((False, True) if d <= 2 else (rng.random() < 0.5,)):
                cases.append(mk("x%d" % n, list(seq), parsed, {"kind": "exhaustive", "depth": d}))
                n += 1
            if d == 1 or (d == 2 and any(" 6d " in op for op in seq)):
                # case-insensitive context (matters for the titled section m only)
                cases.append(mk("x%d" % n, list(seq), True, {"kind": "exhaustive", "depth": d, "nocase": True}, nocase=True))
                n += 1
    nrand = 1500 if tier == "quick" else 60000
    for _ in range(nrand):
        seq = [rng.choice(OPS) for _ in range(rng.randint(3, 40))]
        cases.append(mk("r%d" % n, seq, rng.random() < 0.5, {"kind": "random", "depth": len(seq)}, nocase=rng.random() < 0.3))
        n += 1
    return cases


def project(lines, case):
    return [l for l in lines if not (l.startswith("G ") or l.startswith("I "))]


def nontrivial(case, model_lines):
    seq = case.meta["seq"]
    targets = [op.split()[2] for op in seq]
    return len(targets) != len(set(targets)) or any(op.split()[0] in ("AT", "RN", "RT", "RS") for op in seq)


def stats(case, model_lines):
    s = {"kind_" + case.meta["kind"]: 1}
    for op in case.meta["seq"]:
        k = "op_" + op.split()[0]
        s[k] = s.get(k, 0) + 1
    s["calls_ok"] = sum(1 for l in model_lines if l == "R 0")
    s["calls_refused"] = sum(1 for l in model_lines if l == "R -1")
    return s
