"""C19 -- print emits each unfiltered option once, in order, at its depth."""
from ..core import Case, hx, unhx
from .. import gen
from ..gen import Opt, schema_lines, LIST, MULTI, TITLE, NOCASE
from .C11 import parse_dump, TITLES, gen_text

THEOREMS = ["C19_effective_filter", "C19_once_in_order", "C19_section_instances", "C19_inherit", "C19_own_filter",
            "C19_unset_commented", "C19_callback", "C19_scalar_indent", "C19_pointer_without_callback"]
PARTIAL = ""
VARIANT = "asan"
RULE = ("random + hand-built schemas (some options with a print callback) x states reached by parsing and by setters x print "
        "filters (subsets of option names) installed on the root and/or on any subset of section instances; cfg_print and "
        "cfg_opt_print bytes compared with the model; oracle on the implementation alone: the sequence of option lines in the "
        "output equals, per section instance, the declared order minus the names hidden by the nearest filter, each exactly once, "
        "indented by its depth; non-trivial = at least one option filtered out and one printed at depth >= 1")


def with_printcb(rng, opts):
    res = []
    for o in opts:
        subs = with_printcb(rng, o.subs) if o.ty == "sec" else []
        cbs = o.cbs
        if o.ty != "sec" and rng.random() < 0.15:
            cbs = (cbs if cbs != "-" else "") + "r"
        res.append(Opt(o.name, o.ty, o.flags, o.default, cbs, subs))
    return res


def all_sections(tree, prefix=b""):
    """yield (path, depth-position info) for every section instance in a parsed dump"""
    for nd in tree:
        if nd.ty == "sec":
            for k, (title, sub) in enumerate(nd.secs):
                if nd.flags & MULTI:
                    if nd.flags & TITLE:
                        if title is None:
                            continue
                        q = b"'" + title.replace(b"\\", b"\\\\").replace(b"'", b"\\'") + b"'"
                    else:
                        q = str(k).encode()
                    p = prefix + nd.name + b"=" + q
                else:
                    p = prefix + nd.name
                yield p, sub
                yield from all_sections(sub, p + b"|")


def generate(rng, tier):
    cases = []
    n = 0
    nschema = 160 if tier == "quick" else 1500
    per = 8 if tier == "quick" else 20
    for _ in range(nschema):
        opts = with_printcb(rng, gen.rand_schema(rng, maxdepth=3, allow=("int", "float", "bool", "str", "sec", "func", "ptr"), p_flags=0.3, p_simple=0.15))
        sl = schema_lines(opts)
        names = [o.name for _p, o in gen.all_opts(opts)]
        secs = [p for p, o in gen.all_opts(opts) if o.ty == "sec"]
        for _ in range(per):
            lines = sl + ["X 0 0"]
            early = []
            if rng.random() < 0.35:
                # a filter installed BEFORE the sections of the text exist, and (below) replaced or kept afterwards:
                # instances created in between must follow the context's filter of the time of printing
                early = [(".", rng.sample(names, rng.randint(0, max(1, len(names) // 2))))]
                lines.append("FL 0 . " + " ".join(hx(h) for h in early[0][1]))
            lines += ["PB 0 " + hx(gen_text(rng, opts, 0)), "PB 0 " + hx(gen_text(rng, opts, 0))]
            # a few setter calls so that API-built states are printed, too
            for p, o in rng.sample(list(gen.all_opts(opts)), min(3, len(names))):
                if o.ty == "int" and not o.is_list() and "|" not in p:
                    lines.append("SI 0 %s 0 %d" % (hx(p), rng.randint(-5, 5)))
                if o.ty == "str" and "|" not in p and not o.is_list():
                    lines.append("SS 0 %s 0 %s" % (hx(p), rng.choice([hx(b"v\"q"), "-", hx(b"${X}")])))
                if o.is_list() and o.ty == "int" and "|" not in p:
                    lines.append("SL 0 %s%s" % (hx(p), "".join(" %d" % rng.randint(0, 9) for _ in range(rng.randint(0, 3)))))
            filters = list(early)
            if rng.random() < 0.6:
                hide = rng.sample(names, rng.randint(1, max(1, len(names) // 2)))
                filters.append((".", hide))
            for sp in secs:
                if rng.random() < 0.3:
                    hide = rng.sample(names, rng.randint(0, max(1, len(names) // 2)))
                    q = sp
                    filters.append((q, hide))
            filters = filters[:8]
            for sp, hide in filters[len(early):]:
                lines.append("FL 0 %s %s" % (sp if sp == "." else hx(sp), " ".join(hx(h) for h in hide)))
            # print callbacks installed / removed at run time on top-level options (cfg_set_print_func)
            pcb = set(o.name for _p, o in gen.all_opts(opts) if "r" in o.cbs)
            tops = [o for o in opts if o.ty != "sec"]
            for o in rng.sample(tops, min(len(tops), rng.choice([0, 0, 1, 2]))):
                on = rng.random() < 0.6
                lines.append("PFN 0 %s %d" % (hx(o.name), 1 if on else 0))
                (pcb.add if on else pcb.discard)(o.name)
            lines += ["D 0", "PR 0"]
            for p in rng.sample(names, min(2, len(names))):
                if "|" not in p:
                    lines.append("PO 0 " + hx(p))
            # the same from a starting level other than 0 (cfg_print_indent / cfg_opt_print_indent): every level is two blanks
            if rng.random() < 0.5:
                lines.append("PI 0 %d" % rng.choice([1, 2, 7, 8, 9, 10, 16, 17, 33, 64]))
                tn = [p for p in names if "|" not in p]
                if tn:
                    lines.append("POI 0 %s %d" % (hx(rng.choice(tn)), rng.choice([1, 8, 9, 15, 16, 17, 40])))
            cases.append(Case("f%d" % n, lines, {"filters": filters, "names": names, "early": len(early),
                                                  "printcb": [x.encode() for x in sorted(pcb)]}))
            n += 1
    # sections nested far deeper than any random schema: level k is indented by 2k blanks, for every k
    for depth in (9, 12, 20, 35):
        inner = [Opt("v%d" % depth, "int", 0, depth), Opt("s%d" % depth, "str", LIST, [b"a", b"b"])]
        for d in range(depth - 1, -1, -1):
            flags = (MULTI | TITLE) if d % 3 == 1 else (MULTI if d % 3 == 2 else 0)
            inner = [Opt("v%d" % d, "int", 0, d), Opt("sec%d" % d, "sec", flags, None, "-", inner), Opt("w%d" % d, "bool", 0, True)]
        text, close = b"", b""
        for d in range(depth):
            text += b"v%d = %d sec%d %s{ " % (d, 100 + d, d, b"t " if d % 3 == 1 else b"")
            close += b"} w%d = false " % d
        text += b"v%d = 7 " % depth + close + b"\n"
        names = [o.name for _p, o in gen.all_opts(inner)]
        for filt in ([], [(".", ["w3", "v%d" % depth])]):
            lines = schema_lines(inner) + ["X 0 0", "PB 0 " + hx(text)]
            for sp, hide in filt:
                lines.append("FL 0 . " + " ".join(hx(h) for h in hide))
            lines += ["D 0", "PR 0", "PI 0 3", "PI 0 9", "POI 0 %s 11" % hx("sec0")]
            cases.append(Case("f%d" % n, lines, {"filters": filt, "names": names, "early": 0, "printcb": []}))
            n += 1
    return cases


def project(lines, case):
    return [l for l in lines if not (l.startswith("G ") or l.startswith("I ") or l.startswith("T "))]


def expected_seq(tree, eff, depth, filt_by_node):
    out = []
    for nd in tree:
        if eff is not None and nd.name in eff:
            continue
        if nd.ty == "sec":
            for (title, sub) in nd.secs:
                out.append((depth, nd.name))
                own = filt_by_node.get(id(sub))
                out += expected_seq(sub, own if own is not None else eff, depth + 1, filt_by_node)
        elif nd.ty in ("func", "ptr"):
            # no text of their own: written only through a print callback (F35)
            if nd.printcb:
                out.append((depth, nd.name))
        else:
            out.append((depth, nd.name))
    return out


def find_sub(tree, steps):
    cur = tree
    for name in steps:
        nd = [x for x in cur if x.name == name]
        if not nd or nd[0].ty != "sec" or not nd[0].secs:
            return None
        cur = nd[0].secs[0][1]
    return cur


def oracle(case, il, ctx):
    from .C11 import walk
    hz = [l for l in il if l.startswith("H ")]
    if hz:
        return "hazard: " + hz[0]
    dots = [i for i, l in enumerate(il) if l == "."]
    if not dots:
        return "malformed output"
    start = max(i for i, l in enumerate(il[:dots[0]]) if l.startswith("R ")) + 1
    dump = [l for l in il[start:dots[0]] if l.startswith(("V ", "U "))]
    if any(" 0a" in l or "0a" in l.split()[6] for l in dump if l.startswith("V ")) or any("0a" in w for l in dump for w in l.split()[7:]):
        return None   # values with raw newlines make the line-based reading below ambiguous
    try:
        tree = parse_dump(dump)
    except (AssertionError, IndexError, ValueError):
        return "cannot parse dump"
    # mark print callbacks
    cbnames = set(case.meta.get("printcb", []))

    def mark(t):
        for nd in t:
            nd.printcb = nd.name in cbnames
            for _t, sub in nd.secs:
                mark(sub)
    mark(tree)
    filt = {}
    root_f = None
    for sp, hide in case.meta["filters"]:
        hb = set(h.encode() for h in hide)
        if sp == ".":
            root_f = hb
        else:
            sub = find_sub(tree, [x.encode() for x in sp.split("|")])
            if sub is not None:
                filt[id(sub)] = hb
    exp = expected_seq(tree, root_f, 0, filt)
    b = [l for l in il if l.startswith("B ")]
    if not b:
        return "no print output"
    text = unhx(b[0][2:]) or b""
    got = []
    for line in text.split(b"\n"):
        if not line.strip():
            continue
        ind = len(line) - len(line.lstrip(b" "))
        body = line.strip()
        if body == b"}" or body.startswith(b"/*"):
            continue
        if body.startswith(b"# "):
            body = body[2:]
        if body.startswith(b"<"):
            name = body[1:].split(b":")[0]
        elif body.startswith(b'"'):
            # a name that is not a plain word is printed as a quoted string (\" \\ \$ escapes)
            name, k = bytearray(), 1
            while k < len(body) and body[k:k + 1] != b'"':
                if body[k:k + 1] == b"\\" and k + 1 < len(body):
                    k += 1
                name += body[k:k + 1]
                k += 1
            name = bytes(name)
        else:
            name = body.split(b"=")[0].split(b" ")[0]
        got.append((ind // 2, name))
    if got != exp:
        k = next((i for i, (a, c) in enumerate(zip(got, exp)) if a != c), min(len(got), len(exp)))
        return "printed option sequence differs from declaration order minus effective filter at entry %d: got %r, expected %r" % (
            k, got[k:k + 2], exp[k:k + 2])
    return None


def nontrivial(case, model_lines):
    if not case.meta["filters"]:
        return False
    b = [l for l in model_lines if l.startswith("B ")]
    if not b or b[0] == "B .":
        return False
    text = unhx(b[0][2:])
    return b"\n  " in text and any(h for _s, h in case.meta["filters"])


def stats(case, model_lines):
    s = {"filters_%d" % min(3, len(case.meta["filters"])): 1, "filter_before_sections_exist": case.meta.get("early", 0),
         "runtime_print_callback_changes": sum(1 for l in case.lines if l.startswith("PFN "))}
    b = [l for l in model_lines if l.startswith("B ")]
    if b and b[0] != "B .":
        t = unhx(b[0][2:])
        s["printed_lines"] = t.count(b"\n")
        s["commented_out"] = t.count(b"# ")
        s["print_callback_used"] = t.count(b"<")
    return s
