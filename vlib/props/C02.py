"""C02 -- no input text can corrupt memory, hang or kill the host process."""
from ..core import Case, hx
from .. import gen
from ..gen import Opt, schema_lines, LIST, MULTI, TITLE, COMMENTS, IGNORE_UNKNOWN, NOCASE, KEYSTRVAL
from .C06 import with_include
from .C01 import hand_schemas

THEOREMS = ["lex_progress", "lexAll_complete", "dqRun_rest", "sqRun_rest", "commentRun_rest", "C02_scratch", "C02_scratch_run",
            "C02_outcome", "C02_unknown_no_recursion"]
PARTIAL = ("Proved (the logic a model can carry): every scanner call on a non-empty input consumes at least one byte, so scanning any byte string ends "
           "in an end-of-input or error token after at most length+1 calls (lex_progress, lexAll_complete - no hang, and since every byte of every start "
           "condition is handled by the total scanner functions there is no 'no rule matches' case that flex would echo to stdout); the scratch "
           "buffer's write index never passes its capacity and every write and the terminating NUL lie inside the allocation for tokens of any length "
           "(C02_scratch, C02_scratch_run); unknown text never adds a parser frame however deeply it nests (C02_unknown_no_recursion, from C12); every "
           "parse ends with a documented return code; all model functions are total (Lean accepts them by structural recursion). NOT provable in a "
           "model: out-of-bounds, use-after-free, uninitialised reads, stack overflow, assertions, exit() and stdout writes of the compiled C, of flex's "
           "buffer code and of libc. Those are exhibited by the tie: ASan+UBSan build, stdout captured, stdin closed, a per-case time limit, 10^3 / 10^5 "
           "deep nesting, 200 KB / 1 MB tokens, special files, and the context is printed, parsed into again and freed after every input.")
VARIANT = "asan"
CASE_TIMEOUT = 30
RULE = ("byte strings given through cfg_parse_buf, cfg_parse_fp (stream, NUL allowed) and cfg_parse / include(): arbitrary bytes, "
        "grammar-derived texts, token mutations, and shapes: nesting 10^3 / 10^5 deep (declared-looking and unknown sections, lists, "
        "parentheses), 1 MB tokens (words, strings, comments, titles), unterminated string/comment/list/call/section, backslash at end of "
        "input, empty and marker-only comments with annotations on, include targets that are missing, a directory, /dev/null, "
        "self-including; every schema/flag mix; under ASan+UBSan with stdout captured and a timeout. The model predicts 'no hazard' "
        "for every input; afterwards the context must still print, parse again and free. For NUL-free input the return code and tree "
        "must equal the model's. non-trivial = the model reached a non-INITIAL start condition, depth >= 2, an include or an error exit")


def shapes(tier):
    big = 1000 if tier == "quick" else 100000
    mb = 200000 if tier == "quick" else 1000000
    s = []
    for d in (10, big):
        s.append(("deep_unknown_sec", b"u { " * d + b"} " * d))
        s.append(("deep_unknown_open", b"u { " * d))
        s.append(("deep_sec", b"sec { " * d + b"} " * d))
        s.append(("deep_list", b"l = " + b"{ " * d + b"} " * d))
        s.append(("deep_paren", b"fn " + b"( " * d + b") " * d))
        s.append(("deep_close", b"} " * d))
        s.append(("many_items", b"i = 1\n" * d))
        s.append(("many_multi", b"m t { }\n" * min(d, 20000)))
    # a call with very many arguments, parsed with little stack left (STACK: soft limit in KB for the process of this case):
    # what a text can make arbitrarily large must not live on the stack
    nargs = 20000 if tier == "quick" else 60000
    s.append(("many_args", b"fn ( " + b"a , " * (nargs - 1) + b"a )\ni = 1\n"))
    s.append(("many_args_include", b'include ( ' + b'"a" , ' * (nargs - 1) + b'"a" )\n'))
    s.append(("long_word", b"s = " + b"w" * mb))
    s.append(("long_dq", b's = "' + b"q" * mb + b'"'))
    s.append(("long_sq", b"s = '" + b"q" * mb + b"'"))
    s.append(("long_comment", b"# " + b"c" * mb + b"\ni = 1"))
    s.append(("long_ccomment", b"/* " + b"c" * mb + b" */ i = 1"))
    s.append(("long_title", b'm "' + b"t" * mb + b'" { }'))
    s.append(("long_name", b"n" * mb + b" = 1"))
    s.append(("long_escapes", b's = "' + b"\\x41\\101\\n" * (mb // 12) + b'"'))
    s.append(("long_env", b"s = ${" + b"V" * mb + b"}"))
    for frag in (b'"abc', b"'abc", b"/* abc", b"l = { 1, 2", b"fn ( a , b", b"sec { x = 1", b's = "abc\\', b"s = 'abc\\", b"\\", b'"', b"'", b"/*", b"/", b"$", b"${",
                 b"${}", b"s = ${", b"+", b"+=", b"=", b"{", b"}", b"(", b")", b",", b"#", b"//", b"/**/", b"#\n#\n/**/ //\ni = 1", b"\r\n\r\n", b"\x00", b"i = \x00 1",
                 b"s = \"a\x00b\"", b"# c\x00d\ni = 1", b"/* a\x00b */ i = 2", b"s = 'a\x00b'", b"\xff\xfe\x00\x01", b"i = 1 \x1a", b"include(\"/dev/null\")",
                 b'include("/")', b'include("nosuch")', b'include("self.conf")', b'include("/dev/null", "x")', b"include", b"include(", b'include("~nouser/x")',
                 b'include("")', b'include("my%20settings.conf")', b'include("%s%s%s%n.conf")', b'include("/tmp/%n%n%s")', b'include("100%done/")', b"sec sec sec", b"m m m { {", b"i = = 1", b"l += += 1", b"s = \"\\", b"s = \"\\x\"", b"s = \"\\8\"", b"s = \"\\400\"",
                 b"s = \"${\"", b"s = \"${X\"", b"s = \"${X:-\"", b"s = ${X:-${Y}}", b"m \"\" { }", b"\"\" = 1", b"'' = 1"):
        s.append(("frag", frag))
    # option names written as paths (the parser resolves every name with the path resolver): quoted titles with
    # escapes, indices at the edges, unterminated quotes, stray separators
    for frag in (b'm "it\'s" { x = 1 }\n"m=\'it\\\\\'s\'|x" = 2\n', b'm "a\\\\b" { x = 1 }\n"m=\'a\\\\\\\\b\'|x" = 2\n', b'"m=\'\\\\\'|x" = 1\n',
                 b'"m=\'\\\\" = 1\n', b'"m=\'unterminated|x" = 1\n', b'"m=\'\'|x" = 1\n', b"sec|x = 3\n", b'"sec|x" = 3\n', b"sec|sec|x = 3\n", b"sec| = 3\n",
                 b"|x = 1\n", b'"m=t|" = 1\n', b'm t { }\n"m=0|x" = 1\n', b'"m=4294967296|x" = 1\n', b'"m=-1|x" = 1\n', b'"m=|x" = 1\n', b'"m==|x" = 1\n',
                 b'"sec=0|x" = 1\n', b'"i|x" = 1\n', b'"m=\'' + b"\\\\'" * 200 + b'\'|x" = 1\n'):
        s.append(("path_name", frag))
    # include files that are not brace-balanced: they close the section they were included from, open it (or another
    # instance of the same title) again, leave a section open for the includer to close, or close one too many
    for frag in (b'm t { include("reopen_m.conf") }\n', b'm t { include("reopen_m.conf") } m t { include("reopen_m.conf") x = 5 }\n',
                 b'u a { include("reopen_u.conf") }\n', b'sec { include("close.conf")\ni = 2\n', b'include("open_sec.conf") x = 3 }\ni = 4\n',
                 b'n { inner q { include("reopen_inner.conf") } }\n', b'm t { include("close.conf") m t { include("close.conf") i = 1\n',
                 b'include("open_sec.conf")\n', b'sec { include("close.conf") }\n', b'm t { x = 1 include("reopen_m.conf") x = 9 } m t { }\n'):
        s.append(("unbalanced_include", frag))
    return s

UNBALANCED_FILES = [("reopen_m.conf", b"x = 1 }\nm t { x = 2\n"), ("reopen_u.conf", b"x = 1 }\nu b { x = 2 }\nu c {\n"), ("close.conf", b"}\n"),
                    ("open_sec.conf", b"sec {\n"), ("reopen_inner.conf", b"z = 2 }\ninner q { zl += { b }\n")]


def generate(rng, tier):
    cases = []
    root = gen.fsroot()
    n = 0
    base = with_include(hand_schemas()[0])
    schemas = [base, with_include(hand_schemas()[1])] + [with_include(gen.rand_schema(rng, allow=("int", "float", "bool", "str", "sec", "func", "ptr"), with_callbacks=True)) for _ in range(20 if tier == "quick" else 300)]

    def mk(kind, text, opts, flags, via):
        nonlocal n
        cdir = "%s/z%d" % (root, n)
        lines = schema_lines(opts) + ["CWD " + hx(cdir), "FILE %s reg %s" % (hx("self.conf"), hx(b'include("self.conf")\n')),
                                      ] + (["FILE %s reg %s" % (hx(nm), hx(c)) for nm, c in UNBALANCED_FILES] if kind == "unbalanced_include" else []) + [
                                      "ENV %s %s" % (hx("X"), hx(b"x\"}{")), "X 0 %d" % flags]
        nul = b"\x00" in text
        if kind.startswith("many_args"):
            lines.append("STACK 128")
        if n % 3 == 0:
            lines += ["SP 0 " + hx(cdir), "SP 0 " + hx("/nonexistent")]
        if via == "PB" and not nul:
            lines.append("PB 0 " + hx(text))
        elif via == "PF" and not nul:
            lines += ["FILE %s reg %s" % (hx("in.conf"), hx(text)), "PF 0 " + hx("in.conf")]
        else:
            lines.append("PS 0 " + hx(text))
        lines += ["D 0", "PR 0", "PB 0 " + hx(b"\n"), "GO 0 " + hx(opts[0].name), "SQ 0 " + hx("self.conf"), "F 0"]
        cases.append(Case("z%d" % n, lines, {"kind": kind, "nul": nul, "len": len(text), "via": via}))
        n += 1

    # streams that cannot be read at all (a directory opened for reading, a stream opened for writing): an error return,
    # not the end of the process, and the context goes on working
    for k in (0, 1):
        for flags in (0, COMMENTS | IGNORE_UNKNOWN):
            cdir = "%s/z%d" % (root, n)
            lines = schema_lines(base) + ["CWD " + hx(cdir), "X 0 %d" % flags, "PB 0 " + hx(b"i = 3\n"), "PSE 0 %d" % k, "D 0", "PSE 0 %d" % (1 - k),
                                          "PS 0 " + hx(b"i = 4 s = after\n"), "D 0", "PR 0", "F 0"]
            cases.append(Case("z%d" % n, lines, {"kind": "unreadable_stream", "nul": False, "len": 0, "via": "PSE"}))
            n += 1
    for kind, text in shapes(tier):
        for flags in (0, COMMENTS | IGNORE_UNKNOWN):
            mk(kind, text, base, flags, "PB" if b"\x00" not in text else "PS")
    nrand = 2500 if tier == "quick" else 120000
    alphabet = [bytes([c]) for c in b" \t\n\r\"'\\${}()=+,#/*:-0789axnXb.;|~"] + [b"i", b"s", b"l", b"sec", b"m", b"fn", b"include", b"\x00", b"\xff", b"/*", b"*/", b"//", b"+=", b"${X}"]
    for _ in range(nrand):
        opts = rng.choice(schemas)
        flags = rng.choice([0, COMMENTS, IGNORE_UNKNOWN, NOCASE | COMMENTS | IGNORE_UNKNOWN])
        r = rng.random()
        if r < 0.4:
            text = b"".join(rng.choice(alphabet) for _ in range(rng.randint(0, 60)))
            kind = "bytes"
        elif r < 0.7:
            toks = gen.mutate(rng, gen.gen_items(rng, [o for o in opts if o.name != "include"], flags, maxitems=5))
            text = gen.render(rng, toks, comments=True)
            kind = "mutated"
        else:
            text = bytes(rng.randint(0, 255) for _ in range(rng.randint(1, 40)))
            kind = "random"
        mk(kind, text, opts, flags, rng.choice(["PB", "PF", "PS"]))
    return cases


def project(lines, case):
    if case.meta.get("nul"):
        # C strings end at NUL in many places of the scanner: unspecified, only hazards are compared
        return [l for l in lines if l.startswith("H ")]
    return [l for l in lines if not (l.startswith("G ") or l.startswith("I ") or l.startswith("T "))]


def oracle(case, il, ctx):
    hz = [l for l in il if l.startswith("H ")]
    if hz:
        return "the process was hurt: " + "; ".join(hz[:3])
    rcs = [l for l in il if l.startswith("R ")]
    if case.meta.get("kind") == "unreadable_stream" or any(l.startswith("PSE ") for l in case.lines):
        # X, PB, PSE, PSE, PS, F: the two unreadable streams are refused with an error return, the parses around them succeed
        if len(rcs) < 6 or rcs[1] != "R 0" or rcs[4] != "R 0":
            return "the context was not usable around a stream that cannot be read"
        if rcs[2] != "R 1" or rcs[3] != "R 1":
            return "a stream that cannot be read was not refused with a parse error: %s %s" % (rcs[2], rcs[3])
        return None if any(l.startswith("B ") for l in il) else "printing afterwards produced nothing"
    if len(rcs) < 4:
        return "the context was not usable afterwards (missing results)"
    if rcs[1] not in ("R 0", "R 1", "R -1"):
        return "unexpected return code " + rcs[1]
    if rcs[2] != "R 0":
        return "parsing an empty buffer into the same context afterwards failed"
    if not any(l.startswith("B ") for l in il):
        return "printing afterwards produced nothing"
    return None


def nontrivial(case, model_lines):
    if case.meta.get("kind") in ("bytes", "random", "mutated"):
        return any(l in ("R 1", "R -1") for l in model_lines) or case.meta.get("len", 0) > 20
    return True


def stats(case, model_lines):
    s = {"kind_" + case.meta.get("kind", "corpus"): 1, "via_" + case.meta.get("via", "corpus"): 1}
    if case.meta.get("nul"):
        s["nul_not_compared"] = 1
    for l in model_lines[1:3]:
        if l.startswith("R "):
            s["rc_" + l[2:]] = 1
    return s
