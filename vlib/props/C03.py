"""C03 -- string, escape, environment and comment lexing decode as specified."""
import itertools
import re

from ..core import Case, hx
from ..gen import Opt, LIST, schema_lines

THEOREMS = ["C03_dq_decode", "C03_dq_reject_octal", "C03_dq_reject_bad", "C03_sq_decode", "C03_sq_unterminated",
            "C03_dq_unterminated", "C03_unquoted_verbatim", "C03_env_initial", "C03_env_dq", "C03_env_not_in_sq",
            "C03_comment_no_value"]
VARIANT = "asan"
RULE = ("literals over the scanner's byte classes (one representative each, plus ${..} atoms) placed in double-quoted, "
        "single-quoted and unquoted position of 's = <lit>'; exhaustive to length 2 over all 50 atoms (and, thorough tier, to length 3 over the 25 atoms that interact: quotes, backslash, $ { } : -, digits, newline, space, # and the ${..} forms), random beyond; "
        "non-trivial = uses an escape, a substitution, a continuation or a quote-kind switch; distinct by SHA-1 of the case")
EXHAUSTIVE = {"quick": False, "thorough": False}

SCHEMA = [Opt("s", "str", 0, b"D"), Opt("sl", "str", LIST, None), Opt("i", "int", 0, 0)]

ATOMS = [bytes([c]) for c in b"\"'\\${}:-0789afgxntevrb\n\r \t#/*=+,()A|"] + [b"\xe9", b"${V1}", b"${V2:-d}", b"${V3}", b"${V2}", b"\\\n", b"${V3:-d}", b"${V1:-x}", b"${V2:-}", b"\\400", b"\\777", b"\\501", b"\\377", b"\\412", b"\\101", b"\\x41", b"\\xff"]
ENVS = [("V1", b"val\"q\\b}"), ("V2", None), ("V3", b"")]
WELL = re.compile(rb"\$\{[A-Za-z0-9_]+(:-[^}\"'\n\\$]*)?\}")


def unspecified(text):
    i = 0
    while True:
        i = text.find(b"${", i)
        if i < 0:
            return False
        m = WELL.match(text, i)
        if not m:
            return True
        i = m.end()


def mk_case(cid, lit, mode):
    if mode == "dq":
        text = b's = "' + lit + b'"\ni = 1\n'
    elif mode == "sq":
        text = b"s = '" + lit + b"'\ni = 1\n"
    elif mode == "un":
        text = b"s = " + lit + b"\ni = 1\n"
    else:  # list context
        text = b"sl = {" + lit + b"}\ni = 1\n"
    lines = schema_lines(SCHEMA)
    for n, v in ENVS:
        lines.append("ENV %s %s" % (hx(n), hx(v)))
    lines += ["X 0 0", "PB 0 " + hx(text), "D 0"]
    return Case(cid, lines, {"lit": lit, "mode": mode, "text": text, "unspecified": unspecified(text)})


NEST_BAD = [b"s = 'abc", b's = "abc', b's = "\\400"', b"/* open", b's = "\\9"', b"s = 'a\\", b"sl = {'x', \"y"]


def mk_nested(cid, lit, mode, bad, where):
    """the same literal, read after a callback of the running parse has parsed (into context 1) a text that is rejected in
    the middle of a string or comment: the forms of the outer text denote what they denote on their own"""
    c = mk_case(cid, lit, mode)
    arg = (b"nest:" + bad).replace(b"\\", b"\\\\").replace(b'"', b'\\"')
    call = b'hook("' + arg + b'")\n'
    text = call + c.meta["text"] if where == 0 else c.meta["text"] + call + c.meta["text"]
    lines = schema_lines(SCHEMA + [Opt("hook", "func", 0, None, "U")])
    for n, v in ENVS:
        lines.append("ENV %s %s" % (hx(n), hx(v)))
    lines += ["X 0 0", "X 1 0", "PB 0 " + hx(text), "D 0"]
    return Case(cid, lines, {"lit": lit, "mode": mode, "text": text, "unspecified": unspecified(text), "nested": True})


def generate(rng, tier):
    cases = []
    n = 0
    for k in range(400 if tier == "quick" else 6000):
        L = rng.randint(0, 6)
        lit = b"".join(rng.choice(ATOMS) for _ in range(L))
        cases.append(mk_nested("k%d" % k, lit, rng.choice(("dq", "sq", "un", "li")), NEST_BAD[k % len(NEST_BAD)], k % 2))
    maxlen = 2 if tier == "quick" else 3
    core = [a for a in ATOMS if a in (b'"', b"'", b"\\", b"$", b"{", b"}", b":", b"-", b"0", b"7", b"8", b"x", b"n", b"\n", b" ", b"#", b"A")
            or a.startswith(b"${") or a == b"\\\n"]
    for L in range(0, maxlen + 1):
        for combo in itertools.product(ATOMS if L <= 2 else core, repeat=L):
            lit = b"".join(combo)
            for mode in ("dq", "sq", "un", "li"):
                cases.append(mk_case("x%d" % n, lit, mode))
                n += 1
    nrand = 12000 if tier == "quick" else 60000
    for _ in range(nrand):
        L = rng.randint(3, 10)
        lit = b"".join(rng.choice(ATOMS) for _ in range(L))
        cases.append(mk_case("r%d" % n, lit, rng.choice(("dq", "dq", "sq", "un", "li"))))
        n += 1
    return cases


def project(lines, case):
    if case.meta.get("unspecified"):
        # outside the forms the property defines: only "did not crash" is compared
        return [l for l in lines if l.startswith("H ")]
    out = []
    for l in lines:
        if l.startswith("T "):
            continue        # the harness' own report about the nested parse
        if l.startswith("R ") or l.startswith("H "):
            out.append(l)
        elif l.startswith("V 0 73 ") or l.startswith("V 0 736c ") or l.startswith("V 0 69 "):
            out.append(l)
        elif l.startswith("G "):
            out.append("G " + l.split()[-1])
    return out


def nontrivial(case, model_lines):
    lit = case.meta.get("lit", b"")
    return (b"\\" in lit or b"${" in lit or (case.meta.get("mode") == "dq" and b"'" in lit)
            or (case.meta.get("mode") == "sq" and b'"' in lit) or b"\n" in lit)


def stats(case, model_lines):
    s = {"mode_" + case.meta.get("mode", "?"): 1}
    if case.meta.get("unspecified"):
        s["unspecified_not_compared"] = 1
    for l in model_lines:
        if l.startswith("R "):
            s["rc_" + l[2:]] = 1
        if l.startswith("G "):
            s["diag_" + l.split()[-1]] = 1
    return s
