"""C10 -- a rejected update leaves the option exactly as it was."""
import itertools

from ..core import Case, hx
from ..gen import Opt, schema_lines, LIST, MULTI, TITLE, NO_TITLE_DUPES, dbits

THEOREMS = ["C10_setmulti_refused", "C10_setopt_refused", "C10_veto", "C10_type_or_index_refused", "setopt_sameDecl", "setmultiLoop_sameDecl", "C09_remove_missing_refused", "C09_remove_title_missing_refused", "C09_addtsec_existing_refused"]
PARTIAL = ""
VARIANT = "asan"
RULE = ("every option state (pristine default, explicitly set, emptied, annotated, list of n for n up to the tier's bound) x every "
        "refusing call (cfg_setmulti with the unconvertible element at every position, vetoed by-name setter, wrong type, illegal "
        "index, cfg_addtsec of an existing title, cfg_rm*sec of a missing one, cfg_setopt with unconvertible text) ; oracle on the "
        "implementation alone: the call reports failure and the dump of the whole context (values, count, order, annotation, "
        "RESET/MODIFIED bits) is identical before and after; non-trivial = the refused call met a non-pristine state")
EXHAUSTIVE = {"quick": True, "thorough": True}

SCHEMA = [Opt("i", "int", 0, 7, "w"), Opt("s", "str", 0, b"d", "w"), Opt("f", "float", 0, 1.5, "w"), Opt("b", "bool", 0, True),
          Opt("l", "int", LIST, [b"1", b"2"], "w"), Opt("sl", "str", LIST, [b"x", b"y"]), Opt("e", "int", LIST, None),
          Opt("fl", "float", LIST, [b"0.5", b"2"]), Opt("bl", "bool", LIST, [b"true"]),
          Opt("m", "sec", MULTI | TITLE, None, "-", [Opt("x", "int", 0, 3)]),
          Opt("one", "sec", 0, None, "-", [Opt("w", "int", 0, 1)]),
          Opt("n", "sec", MULTI, None, "-", [Opt("y", "int", 0, 4)]),
          # CFG_SIMPLE_*: the value is a variable of the caller's; a refused update leaves that variable alone too
          Opt("si", "int", 0, 5, "s"), Opt("ss", "str", 0, b"init", "s"), Opt("sf", "float", 0, 0.5, "s"), Opt("sb", "bool", 0, True, "s"),
          Opt("sw", "int", 0, 6, "sw"), Opt("sp", "str", 0, b"init", "sp")]

# state preparations per option
def preps(maxn):
    out = {"pristine": []}
    out["set"] = ["SI 0 %s 0 5" % hx("i"), "SS 0 %s 0 %s" % (hx("s"), hx("v")), "SF 0 %s 0 %s" % (hx("f"), dbits(2.0)), "SB 0 %s 0 0" % hx("b"),
                  "SL 0 %s 4 5 6" % hx("l"), "SL 0 %s %s" % (hx("sl"), hx("z")), "AL 0 %s 9" % hx("e"),
                  "SM 0 %s %s %s %s" % (hx("fl"), hx("1"), hx("2"), hx("3")), "SM 0 %s %s" % (hx("bl"), hx("no")), "AT 0 %s %s" % (hx("m"), hx("a")),
                  "AT 0 %s %s" % (hx("m"), hx("b")), "SI 0 %s 0 2" % hx("one|w"),
                  "PB 0 " + hx(b"n { y = 1 } n { y = 2 } n { y = 3 }\n"),
                  "SI 0 %s 0 8" % hx("si"), "PB 0 " + hx(b"ss = parsed sb = off sp = word\n"), "SF 0 %s 0 %s" % (hx("sf"), dbits(4.0))]
    # a titled multi section whose FIRST instance has no title (cfg_setopt(cfg, opt, NULL) on the empty option):
    # lookups by title stop at it, the duplicate check of an add must not
    out["untitled_first"] = ["SO 0 %s -" % hx("m"), "AT 0 %s %s" % (hx("m"), hx("a")), "SI 0 %s 0 42" % hx("m='a'|x")]
    out["emptied"] = ["SL 0 %s" % hx("l"), "SL 0 %s" % hx("sl"), "SS 0 %s 0 -" % hx("s")]
    out["annotated"] = ["SC 0 %s %s" % (hx(n), hx("note " + n)) for n in ("i", "s", "f", "l", "sl", "e", "fl", "bl")]
    out["annotated_set"] = out["set"] + out["annotated"]
    for n in range(3, maxn + 1):
        out["list%d" % n] = ["SL 0 %s %s" % (hx("l"), " ".join(str(k) for k in range(n)))] if n <= 6 else \
            ["SL 0 %s 0 1 2 3 4 5" % hx("l")] + ["AL 0 %s %d" % (hx("l"), k) for k in range(6, n)]
    return out


def refusing(maxpos):
    ops = []
    for pos in range(0, maxpos):
        vals = [hx(str(10 + k)) for k in range(maxpos)]
        vals[pos] = hx("x%d" % pos)
        ops.append(("setmulti_int_bad@%d" % pos, "SM 0 %s %s" % (hx("l"), " ".join(vals))))
        ops.append(("setmulti_scalar_bad@%d" % pos, "SM 0 %s %s" % (hx("i"), " ".join(vals[:pos + 1]))))
        fv = [hx("1.5")] * maxpos
        fv[pos] = hx("1e999")
        ops.append(("setmulti_float_range@%d" % pos, "SM 0 %s %s" % (hx("f"), " ".join(fv[:pos + 1]))))
        fv[pos] = hx("2.5.")
        ops.append(("setmulti_floatlist_bad@%d" % pos, "SM 0 %s %s" % (hx("fl"), " ".join(fv))))
        bv = [hx("yes"), hx("off")] * maxpos
        bv = bv[:maxpos]
        bv[pos] = hx("1")
        ops.append(("setmulti_boollist_bad@%d" % pos, "SM 0 %s %s" % (hx("bl"), " ".join(bv))))
        ops.append(("setmulti_bool_bad@%d" % pos, "SM 0 %s %s" % (hx("b"), " ".join(bv[:pos + 1]))))
        ops.append(("setmulti_simple_int_bad@%d" % pos, "SM 0 %s %s" % (hx("si"), " ".join(vals[:pos + 1]))))
        ops.append(("setmulti_simple_float_bad@%d" % pos, "SM 0 %s %s" % (hx("sf"), " ".join(fv[:pos] + [hx("2.5.")]))))
        ops.append(("setmulti_simple_bool_bad@%d" % pos, "SM 0 %s %s" % (hx("sb"), " ".join(bv[:pos + 1]))))
        ops.append(("setmulti_simple_str_cb_bad@%d" % pos, "SM 0 %s %s" % (hx("sp"), " ".join([hx("ok%d" % k) for k in range(pos)] + [hx("!refused")]))))
    ops += [("veto_int", "SI 0 %s 0 -4" % hx("i")), ("veto_int_list", "SI 0 %s 1 -4" % hx("l")), ("veto_str", "SS 0 %s 0 %s" % (hx("s"), hx("!no"))),
            ("wrong_type", "SI 0 %s 0 1" % hx("s")), ("wrong_type2", "SS 0 %s 0 %s" % (hx("i"), hx("q"))), ("wrong_type3", "SB 0 %s 0 1" % hx("l")),
            ("bad_index", "SI 0 %s 3 1" % hx("i")), ("bad_index_str", "SS 0 %s 1 %s" % (hx("s"), hx("q"))),
            ("addtsec_existing", "AT 0 %s %s" % (hx("m"), hx("a"))), ("addtsec_nonsection", "AT 0 %s %s" % (hx("i"), hx("9"))),
            ("addtsec_nonsection_list", "AT 0 %s %s" % (hx("l"), hx("9"))), ("addtsec_no_title", "AT 0 %s -" % hx("m")), ("rmtsec_missing", "RT 0 %s %s" % (hx("m"), hx("zz"))),
            ("rmnsec_missing", "RN 0 %s 7" % hx("m")), ("rmsec_missing", "RS 0 %s" % hx("m=zz")),
            ("setopt_bad_int", "SO 0 %s %s" % (hx("i"), hx("9x"))), ("setopt_bad_list", "SO 0 %s %s" % (hx("l"), hx("0x"))),
            ("setopt_bad_float", "SO 0 %s %s" % (hx("f"), hx("inf"))), ("setopt_bad_bool", "SO 0 %s %s" % (hx("b"), hx("maybe"))),
            ("rmsec_idx_3", "RS 0 %s" % hx("n=3")), ("rmsec_idx_neg", "RS 0 %s" % hx("n=-1")), ("rmsec_idx_2^32", "RS 0 %s" % hx("n=4294967296")),
            ("rmsec_idx_2^32+1", "RS 0 %s" % hx("n=4294967297")), ("rmsec_idx_hex", "RS 0 %s" % hx("n=0x100000002")),
            ("rmsec_idx_2^64", "RS 0 %s" % hx("n=18446744073709551616")), ("rmsec_idx_junk", "RS 0 %s" % hx("n=1x")),
            ("rmnsec_idx_3", "RN 0 %s 3" % hx("n")), ("setn_path_2^32", "SI 0 %s 0 9" % hx("n=4294967296|y")),
            ("setmulti_empty", "SM 0 %s" % hx("l")), ("setlist_nonlist", "SL 0 %s 1" % hx("i")), ("unknown_name", "SI 0 %s 0 1" % hx("zz")),
            ("simple_setopt_bad", "SO 0 %s %s" % (hx("si"), hx("9x"))), ("simple_wrong_type", "SS 0 %s 0 %s" % (hx("si"), hx("q"))),
            ("simple_bad_index", "SI 0 %s 1 3" % hx("si")), ("simple_str_bad_index", "SS 0 %s 2 %s" % (hx("ss"), hx("q"))),
            ("simple_veto", "SI 0 %s 0 -4" % hx("sw")),
            ("simple_setlist", "SL 0 %s 1" % hx("si"))]
    return ops


def generate(rng, tier):
    maxn = 4 if tier == "quick" else 8
    cases = []
    n = 0
    for sname, prep in preps(maxn).items():
        for rname, op in refusing(maxn):
            lines = schema_lines(SCHEMA) + ["X 0 0"] + prep + ["D 0", op, "D 0", "F 0"]
            cases.append(Case("c%d" % n, lines, {"state": sname, "call": rname, "op": op}))
            n += 1
    return cases


def project(lines, case):
    return [l for l in lines if not (l.startswith("G ") or l.startswith("I "))]


def oracle(case, il, ctx):
    hz = [l for l in il if l.startswith("H ")]
    if hz:
        return "hazard: " + hz[0]
    dots = [i for i, l in enumerate(il) if l == "."]
    if len(dots) < 2:
        return "malformed output"
    d2_end = dots[-1]
    d1_end = dots[-2]
    # first dump ends at d1_end; find its start: after the last R line before it
    starts = [i for i, l in enumerate(il[:d1_end]) if l.startswith("R ")]
    d1 = [l for l in il[starts[-1] + 1:d1_end] if l.startswith(("V ", "U "))]
    mid = il[d1_end + 1:d2_end]
    rc = [l for l in mid if l.startswith("R ")]
    d2 = [l for l in mid if l.startswith(("V ", "U "))]
    if not rc:
        return "no return code"
    if rc[0] == "R 0":
        return None          # not refused in this state (e.g. the title does not exist yet): nothing to check
    if d1 != d2:
        return "refused call '%s' in state '%s' changed the option" % (case.meta["call"], case.meta["state"])
    return None


def nontrivial(case, model_lines):
    return case.meta["state"] != "pristine"


def stats(case, model_lines):
    dots = [i for i, l in enumerate(model_lines) if l == "."]
    refused = len(dots) >= 2 and any(l == "R -1" for l in model_lines[dots[-2]:dots[-1]])
    return {"refused" if refused else "not_refused_in_this_state": 1, "state_" + case.meta["state"]: 1, "call_" + case.meta["call"].split("@")[0]: 1}
