"""C01 -- parsed configuration equals the reference meaning of the text."""
from ..core import Case, hx
from .. import gen
from ..gen import Opt, schema_lines, LIST, MULTI, TITLE, NO_TITLE_DUPES, NOCASE, KEYSTRVAL, DEPRECATED, DROP, NODEFAULT, IGNORE_UNKNOWN

THEOREMS = ["C01_eq_replaces", "C01_pluseq_appends", "C01_scalar_last_wins", "C01_bad_value_rejected", "C01_multi_accumulates",
            "C01_new_title_appends", "C01_repeated_title_replaces", "C01_unique_title_rejected", "C01_single_section_merges",
            "C01_default_materialised", "C01_parse_eq", "C01_parse_pluseq", "C01_parse_pluseq_nonlist",
            "C01_frame_local", "C01_compositional", "C01_compositional_top", "C01_refinement", "C01_items_then_eof", "C01_assign_scalar", "C01_assign_denotes", "C01_list_item", "C01_list_item_values", "C01_empty_list_item", "setopt_replace_plain", "setopt_list_plain", "list_tail_loop", "setOpt_setOpt", "setOpt_self", "C01_freeform_key_refound", "C01_freeform_key_found", "C01_simple_holds_variable"]
PARTIAL = ("Proved: (1) each clause of the statement as a law of the model's value store (what '=' / '+=' / repeated scalar / multi section / "
           "repeated title / unique titles / re-opened single section / defaults do) and what the token machine hands to the store on '=' and '+='; "
           "(2) the nesting structure, unconditionally: for EVERY list of items (assignments, braced lists, calls, comments, plain/titled sections "
           "nested to any depth; every schema, flag set, callback oracle, line layout) started at an item boundary, the 15-state explicit-stack "
           "machine run over the flattened tokens equals the compositional evaluation evalItems - a section body is evaluated by a recursive call on "
           "a machine holding only the new section's frame and re-attached at the closing brace - on top of any enclosing stack, which it neither "
           "reads nor changes (C01_frame_local, C01_refinement); the evaluation is total (the grammar's braces are the machine's brace accounting, "
           "also through skipped undeclared sections) and always ends at an item boundary or rejected (C01_refinement, C01_items_then_eof). "
           "Not proved: exactness in the other direction (every ACCEPTED token sequence is the flattening of some item list - texts with a trailing "
           "comma in a list, or comments between the tokens of one item, are accepted but are not in the Item grammar), and the linear part of "
           "evalItems is still phrased through the machine's own per-token step, characterised by the clause theorems of (1) rather than by one "
           "closed formula per item. Both are covered by the tie (random + hand-built schemas x mutated texts, full tree dumps compared).")
VARIANT = "asan"
RULE = ("random and hand-built schemas (option kinds x flags x nesting) x context flags x grammar-derived texts, then token "
        "deletion/duplication/swap/replacement, 1-3 texts parsed into the same context; compared: return code and full tree "
        "dump (values, counts, titles, flag bits); non-trivial = model visited a section or list and either changed a value "
        "or rejected after >= 2 tokens; distinct by SHA-1 of the case. Plus EVERY token sequence up to length 3 (quick) / 4 (thorough) over a "
        "14-token alphabet (declared scalar / list / section / titled multi section names, an undeclared name, = += { } , ( ) and two values) with and "
        "without IGNORE_UNKNOWN, and a sample of longer ones")


def hand_schemas():
    sub = [Opt("x", "int", 0, 3), Opt("t", "str", 0, b"d"), Opt("xs", "int", LIST, [b"1", b"2"])]
    deep = [Opt("y", "str", 0, None), Opt("inner", "sec", MULTI | TITLE, None, "-", [Opt("z", "int", 0, 1), Opt("zl", "str", LIST, [b"a"])])]
    return [
        [Opt("i", "int", 0, 7), Opt("f", "float", 0, 1.5), Opt("s", "str", 0, b"dflt"), Opt("b", "bool", 0, True),
         Opt("l", "int", LIST, [b"1", b"2"]), Opt("sl", "str", LIST, None), Opt("sec", "sec", 0, None, "-", sub),
         Opt("m", "sec", MULTI | TITLE, None, "-", sub), Opt("u", "sec", MULTI | TITLE | NO_TITLE_DUPES, None, "-", sub),
         Opt("n", "sec", MULTI, None, "-", deep)],
        [Opt("kv", "sec", KEYSTRVAL, None, "-", []), Opt("mkv", "sec", MULTI | TITLE | KEYSTRVAL, None, "-", [Opt("fixed", "int", 0, 1)]),
         Opt("old", "int", DEPRECATED, 1), Opt("gone", "str", DEPRECATED | DROP | LIST, [b"a"]), Opt("nd", "int", NODEFAULT, 9),
         Opt("ndl", "str", LIST | NODEFAULT, [b"q"]), Opt("el", "float", LIST, [])],
        [Opt("Name", "str", 0, b"x"), Opt("LIST", "int", LIST, [b"5"]), Opt("Sec", "sec", MULTI | TITLE, None, "-", [Opt("Val", "int", 0, 0)])],
    ]


def mk_case(cid, opts, ctxflags, texts, meta):
    lines = schema_lines(opts) + ["X 0 %d" % ctxflags]
    for t in texts:
        lines += ["PB 0 " + hx(t), "D 0"]
    meta = dict(meta)
    meta["texts"] = texts
    return Case(cid, lines, meta)


EXH_ALPHABET = [b"i", b"l", b"sec", b"m", b"zz", b"=", b"+=", b"{", b"}", b",", b"1", b'"t"', b"(", b")"]


def exhaustive_tokens(rng, tier):
    """every token sequence up to a length bound over a 14-token alphabet (declared scalar / list / plain and titled
    multi section names, an undeclared name, every punctuation token, a number, a string), with and without
    IGNORE_UNKNOWN: the parser's 15 states x every token, by enumeration rather than by grammar"""
    import itertools
    sub = [Opt("i", "int", 0, 3)]
    opts = [Opt("i", "int", 0, 7), Opt("l", "int", LIST, [b"1", b"2"]), Opt("sec", "sec", 0, None, "-", sub),
            Opt("m", "sec", MULTI | TITLE, None, "-", sub)]
    full = 3 if tier == "quick" else 4
    cases = []
    n = 0
    for ctxflags in (0, IGNORE_UNKNOWN):
        for k in range(1, full + 1):
            for seq in itertools.product(EXH_ALPHABET, repeat=k):
                cases.append(mk_case("x%d" % n, opts, ctxflags, [b" ".join(seq) + b"\n"], {"hand": True, "mutated": False, "ctxflags": ctxflags, "exh": k}))
                n += 1
        # a sample of longer sequences
        for _ in range(1500 if tier == "quick" else 20000):
            k = rng.randint(full + 1, full + 4)
            seq = [rng.choice(EXH_ALPHABET) for _ in range(k)]
            cases.append(mk_case("x%d" % n, opts, ctxflags, [b" ".join(seq) + b"\n"], {"hand": True, "mutated": False, "ctxflags": ctxflags, "exh": 0}))
            n += 1
    return cases


def generate(rng, tier):
    cases = exhaustive_tokens(rng, tier)
    n = 0
    nschema = 250 if tier == "quick" else 700
    per = 30 if tier == "quick" else 60
    schemas = [(s, True) for s in hand_schemas()]
    for _ in range(nschema):
        schemas.append((gen.rand_schema(rng, p_simple=0.1), False))
    for opts, hand in schemas:
        for _ in range(per if not hand else per * 3):
            ctxflags = 0
            if rng.random() < 0.3:
                ctxflags |= NOCASE
            if rng.random() < 0.15:
                ctxflags |= IGNORE_UNKNOWN
            if rng.random() < 0.15:
                ctxflags |= gen.COMMENTS
            texts = []
            mutated = False
            for _t in range(rng.choice([1, 1, 1, 2, 3])):
                toks = gen.gen_items(rng, opts, ctxflags)
                if rng.random() < 0.35:
                    toks = gen.mutate(rng, toks)
                    mutated = True
                texts.append(gen.render(rng, toks, comments=rng.random() < 0.2))
            cases.append(mk_case("c%d" % n, opts, ctxflags, texts, {"hand": hand, "mutated": mutated, "ctxflags": ctxflags}))
            n += 1
    # names written as paths in the text ("log|level = 5", "servers=a|port = 1") in a schema where an option declared earlier
    # merely BEGINS with a step's name: a step names a whole name
    decoy = [Opt("logfile", "str", 0, b"f"), Opt("log", "sec", 0, None, "-", [Opt("lev", "int", 0, 1), Opt("level", "int", 0, 2)]),
             Opt("servers", "sec", gen.MULTI | gen.TITLE, None, "-", [Opt("port", "int", 0, 10)]), Opt("server", "sec", 0, None, "-", [Opt("port", "int", 0, 20)]),
             Opt("hostname", "str", 0, None), Opt("host", "sec", gen.MULTI, None, "-", [Opt("n", "int", 0, 0)])]
    ptexts = [b"log|level = 5\nserver|port = 2001\n", b"servers a { port = 1 }\nserver|port = 7\nservers=a|port = 8\n", b"log|lev = 3\nlog|level = 4\nlogfile = x\n",
              b"host { n = 1 } host { n = 2 }\nhost=1|n = 9\nhostname = h\n", b"log { level = 6 }\nserver { port = 5 }\nserver|port = 6\nlog|nosuch = 1\n",
              b"serve|port = 1\n", b"lo|level = 1\n", b"servers|port = 1\n"]
    for t in ptexts:
        for ctxflags in (0, NOCASE):
            cases.append(mk_case("c%d" % n, decoy, ctxflags, [t], {"hand": True, "mutated": False, "ctxflags": ctxflags}))
            n += 1
    return cases


def project(lines, case):
    out = []
    for l in lines:
        if l.startswith("G ") or l.startswith("I ") or l.startswith("T "):
            continue
        out.append(l)
    return out


def nontrivial(case, model_lines):
    rc1 = any(l == "R 1" for l in model_lines)
    structured = any(l.startswith("U ") for l in model_lines) or any(l.startswith("V ") and " 4226 " in l for l in model_lines)
    changed = any(l.startswith("V ") and int(l.split()[4]) & 4096 for l in model_lines)
    return structured and (changed or rc1)


def stats(case, model_lines):
    s = {"hand_schema" if case.meta.get("hand") else "random_schema": 1}
    if "exh" in case.meta:
        s["enumerated_len_%d" % case.meta["exh"] if case.meta["exh"] else "enumerated_sampled_longer"] = 1
    if case.meta.get("mutated"):
        s["mutated"] = 1
    s["accepted_parses"] = sum(1 for l in model_lines[1:] if l == "R 0")
    s["rejected_parses"] = sum(1 for l in model_lines if l == "R 1")
    for l in model_lines:
        if l.startswith("G "):
            k = "diag_" + l.split()[-1]
            s[k] = s.get(k, 0) + 1
    return s
