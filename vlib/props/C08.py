"""C08 -- a parse depends only on its own input, not on earlier parses."""
import itertools

from ..core import Case, hx
from .. import gen
from ..gen import Opt, schema_lines, LIST, MULTI, TITLE

THEOREMS = ["C08_independent", "C08_is_parseFp", "C08_clean", "C08_history", "C08_history_clean", "C08_frame"]
PARTIAL = "The scanner globals (start condition, include stack pointer, buffer stack height, scratch buffer) are modelled explicitly in Confuse.Model.Globals; C08_independent holds because the fixed code resets the start condition when a source is pushed - the theorem is short because the mechanism is one statement, and the tie is what shows the real scanner behaves like it (all histories to length 2/3 over 17 events x probes, against the model AND against a fresh process)."
VARIANT = "asan"
RULE = ("all histories up to the tier's length over the event alphabet {accepted parse, parse aborted inside a \"string, inside a "
        "'string, inside a /* comment, on a bad escape, on an octal escape out of range, on a lone backslash, on a missing include, "
        "inside an included file, at the include depth limit, on a range error, inside a section, in a list; free + re-init; the same "
        "on a second context} followed by each of 12 probe parses into a brand-new context; oracle on the implementation alone: "
        "return code, diagnostics and tree dump of the probe equal those of the same probe run in a fresh process (a history-free "
        "case); the model must agree as well; plus nested use: a function callback of a running parse (top level, in a section, one and "
        "two include levels down) parses an accepted / aborted-in-string / failing / including text into a second context - the first "
        "context's outcome must be the model's, which knows nothing of the nested parse; non-trivial = the history contains an aborted "
        "parse or a context switch")
EXHAUSTIVE = {"quick": True, "thorough": True}

SCHEMA = [Opt("i", "int", 0, 1), Opt("f", "float", 0, 0.25), Opt("s", "str", 0, b"d"), Opt("l", "int", LIST, [b"1"]), Opt("sec", "sec", 0, None, "-", [Opt("x", "int", 0, 0), Opt("hook", "func", 0, None, "U")]),
          Opt("m", "sec", MULTI | TITLE, None, "-", [Opt("y", "str", 0, None)]), Opt("include", "func", 0, None, "I"),
          Opt("hook", "func", 0, None, "U"), Opt("ps", "str", 0, None, "p"), Opt("pl", "str", LIST, None, "p")]

EVENTS = {
    "ok": [b"i = 2\ns = ok\n"],
    "dq_open": [b's = "abc\ni = 3\n'],
    "sq_open": [b"s = 'abc\n"],
    "comment_open": [b"i = 4 /* never closed\n"],
    "bad_escape": [b's = "C:\\9data"\n'],
    "bad_octal": [b's = "x\\777"\n'],
    "lone_backslash": [b's = "abc\\'],
    "inc_missing": [b'include("nosuch.conf")\n'],
    "inc_bad_inside": [b'include("bad.conf")\n'],
    "inc_dq_inside": [b'include("dq.conf")\n'],
    "inc_depth": [b'include("self.conf")\n'],
    "range": [b"i = 99999999999999999999\n"],
    "frange": [b"f = 1e999\n"],
    "in_section": [b"sec { x = 1\n"],
    "in_list": [b"l = { 1, 2\n"],
    "dq_then_more": [b's = "one\n', b'two"\n'],
    # a single section entered (and left, or not) by an earlier parse under another source name
    "sec_ok": [b"sec { x = 1 }\ni = 3\n"],
    "sec_from_file": ["PF:secfile.conf"],
    "sec_from_stream": ["PS:" + "sec { x = 3 }\n"],
    "sec_bad_in_include": [b'sec { include("bad.conf") }\n'],
    "unreadable_stream": ["PSE:0"],
    "writeonly_stream": ["PSE:1"],
    "stream_fails_in_string": ["PSE:2"],
}
PROBES = [b"i = 5\n", b's = "str"\n', b"s = 'sq'\n", b"/* c */ i = 6\n", b"l = {7, 8}\n", b"sec { x = 9 }\n", b'm "t" { y = v }\n',
          b'include("good.conf")\n', b"i = x\n", b'"\n', b"*/ i = 7\n", b"'\n", b"f = 1.5\n", b"f = 2.5 i = 0x10\n",
          # diagnostics inside a re-opened single section and after it has closed: they name the source being read now
          b"sec { x = 9 }\ni = bad\n", b"sec {\n x = q }\n", b"sec { x = 2 }\n\nsec { }\n= broken\n"]
FILES = [("secfile.conf", b"sec { x = 2 }\ni = 4\n"), ("bad.conf", b"i = 1\n= broken\n"), ("dq.conf", b's = "open\n'), ("self.conf", b'include("self.conf")\n'), ("good.conf", b"i = 77\n")]


def event_lines(ev, ctxno):
    if ev == "free_reinit":
        return ["F %d" % ctxno, "X %d 0" % ctxno]
    out = []
    for t in EVENTS[ev]:
        if isinstance(t, str) and t.startswith("PF:"):
            out.append("PF %d %s" % (ctxno, hx(t[3:])))
        elif isinstance(t, str) and t.startswith("PSE:"):
            out.append("PSE %d %s" % (ctxno, t[4:]))
        elif isinstance(t, str) and t.startswith("PS:"):
            out.append("PS %d %s" % (ctxno, hx(t[3:])))
        else:
            out.append("PB %d %s" % (ctxno, hx(t)))
    return out


def mk(cid, hist, probe_idx, root):
    cdir = "%s/%s" % (root, cid)
    lines = schema_lines(SCHEMA) + ["CWD " + hx(cdir)] + ["FILE %s reg %s" % (hx(n), hx(c)) for n, c in FILES]
    lines += ["X 0 0", "X 1 0"]
    for ev, ctxno in hist:
        lines += event_lines(ev, ctxno)
    lines += ["X 3 0", "PB 3 " + hx(PROBES[probe_idx]), "D 3"]
    # the same probe once more, into a context of the history, through the stream entry point (cfg_parse_fp): return code,
    # values and diagnostics - the name they carry included - are those of a stream, whatever that context parsed before
    lines += ["PS 0 " + hx(PROBES[probe_idx])]
    return Case(cid, lines, {"hist": hist, "probe": probe_idx})


def generate(rng, tier):
    root = gen.fsroot()
    cases = []
    n = 0
    for p in range(len(PROBES)):
        cases.append(mk("base%d" % p, [], p, root))
    alphabet = [(e, 0) for e in EVENTS] + [("free_reinit", 0)] + [(e, 1) for e in ("ok", "dq_open", "inc_bad_inside", "comment_open")]
    maxlen = 2 if tier == "quick" else 3
    hists = []
    for L in range(1, maxlen + 1):
        hists += list(itertools.product(alphabet, repeat=L))
    if tier == "quick":
        pass
    for h in hists:
        probes = range(len(PROBES)) if len(h) <= 1 else rng.sample(range(len(PROBES)), 3 if tier == "quick" else 4)
        for p in probes:
            cases.append(mk("h%d" % n, list(h), p, root))
            n += 1
    # a second context used *while* a parse of the first is running: a function callback (top level, inside a section,
    # inside an included file, two include levels down) parses a text into context 1; context 0's outcome must be what
    # the model - which knows nothing of the nested parse - predicts, i.e. what it is without it
    # (a range failure in the nested parse leaves errno = ERANGE behind while the outer text is already buffered: the
    # next numeral of the outer text - float or integer - must not care)
    nest_texts = [b"i = 5\n", b"i = 5\ninclude(\"good.conf\")\n", b's = "open\n', b"i = x\n", b'include("bad.conf")\n', b"sec { x = 4 }\n",
                  b"i = 99999999999999999999\n", b"f = 1e999\n"]
    hosts = [b'i = 1\nhook("%s")\ni = 2\nl = {7, 8}\n', b'i = 1\ninclude("n1.conf")\ns = after\n',
             b'sec { x = 1 }\ninclude("n2.conf")\ns = after\nl += {3}\n', b'hook("%s") hook("%s")\ns = z\n',
             b'hook("%s")\nf = 1.5\ni = 3\n', b'hook("%s")\ni = 0x7fffffffffffffff\nf = 2.5\n', b'sec { hook("%s") x = 9223372036854775807 }\nf = 3.5\n']
    for host in hosts:
        for nt in nest_texts:
            arg = (b"nest:" + nt).replace(b"\\", b"\\\\").replace(b'"', b'\\"').replace(b"\n", b"\\n")
            cdir = "%s/n%d" % (root, n)
            files = FILES + [("n1.conf", b'i = 10\nhook("' + arg + b'")\ni = 11\nl = {4}\n'), ("n2.conf", b'include("n1.conf")\ni = 12\n')]
            lines = schema_lines(SCHEMA) + ["CWD " + hx(cdir)] + ["FILE %s reg %s" % (hx(nm), hx(c)) for nm, c in files]
            text = host.replace(b"%s", arg)
            lines += ["X 0 0", "X 1 0", "PB 0 " + hx(text), "D 0", "X 3 0", "PB 3 " + hx(PROBES[0]), "D 3"]
            cases.append(Case("n%d" % n, lines, {"hist": [("nested", 0)], "probe": 0, "nested": True}))
            n += 1
    # value-parsing callbacks that start a scan themselves (parse a word / a text into context 1) and go on using the token
    # text they were handed - an unquoted word lives in the scanner's own buffer, a quoted one in its scratch string
    for t in (b"ps = nest:zz\ns = tail\ni = 4\n", b"ps = nest:i\nl = {3}\n", b'ps = "nest:i = 5\\n"\ns = q\n', b"pl = {nest:a, nest:bb, \"nest:i = 6\"}\ni = 2\n",
              b"pl += nest:word\npl += nest:w2\ns = z\n", b'include("np.conf")\ns = after\n'):
        cdir = "%s/n%d" % (root, n)
        files = FILES + [("np.conf", b"ps = nest:inner\ni = 21\n")]
        lines = schema_lines(SCHEMA) + ["CWD " + hx(cdir)] + ["FILE %s reg %s" % (hx(nm), hx(c)) for nm, c in files]
        lines += ["X 0 0", "X 1 0", "PB 0 " + hx(t), "D 0", "X 3 0", "PB 3 " + hx(PROBES[0]), "D 3"]
        cases.append(Case("n%d" % n, lines, {"hist": [("nested_parsecb", 0)], "probe": 0, "nested": True}))
        n += 1
    # a callback that parses a stream which cannot be read (a directory, a write-only stream, one that fails in the middle of
    # a string) into context 1: the running parse goes on to its end as if nothing had happened
    for k in (0, 1, 2):
        for host in (b'i = 1\nhook("nestpse%d")\ni = 7\nl = {5, 6}\ns = tail\n', b'sec { hook("nestpse%d") x = 4 }\ni = 8\n',
                     b'include("good.conf")\nhook("nestpse%d")\ns = "after"\n'):
            cdir = "%s/n%d" % (root, n)
            lines = schema_lines(SCHEMA) + ["CWD " + hx(cdir)] + ["FILE %s reg %s" % (hx(nm), hx(c)) for nm, c in FILES]
            lines += ["X 0 0", "X 1 0", "PB 0 " + hx(host.replace(b"%d", str(k).encode())), "D 0", "X 3 0", "PB 3 " + hx(PROBES[0]), "D 3"]
            cases.append(Case("n%d" % n, lines, {"hist": [("nested_unreadable", 0)], "probe": 0, "nested": True}))
            n += 1
    # a callback that FREES another root context during a parse, after includes were used earlier in the process
    # (accepted, aborted, nested): the rest of the running text must still be read
    for pre in ([], [b'include("good.conf")\n'], [b'include("bad.conf")\n'], [b'include("good.conf")\n', b'include("self.conf")\n'],
                [b'sec { x = 1 }\ninclude("good.conf")\ni = 3\n', b'include("dq.conf")\n']):
        for host in (b'i = 1\nhook("free2")\ni = 7\nl = {5, 6}\ns = tail\n', b'sec { hook("free2") x = 4 }\ni = 8\n',
                     b'include("good.conf")\nhook("free2")\ni = 9\n'):
            cdir = "%s/n%d" % (root, n)
            lines = schema_lines(SCHEMA) + ["CWD " + hx(cdir)] + ["FILE %s reg %s" % (hx(nm), hx(c)) for nm, c in FILES]
            lines += ["X 0 0", "X 1 0"] + ["PB 1 " + hx(t) for t in pre] + ["X 2 0", "PB 0 " + hx(host), "D 0", "X 3 0", "PB 3 " + hx(PROBES[0]), "D 3"]
            cases.append(Case("n%d" % n, lines, {"hist": [("free_in_callback", 0)], "probe": 0, "nested": True}))
            n += 1
    # long random histories
    for _ in range(200 if tier == "quick" else 5000):
        h = [rng.choice(alphabet) for _ in range(rng.randint(4, 14))]
        cases.append(mk("r%d" % n, h, rng.randrange(len(PROBES)), root))
        n += 1
    return cases


def project(lines, case):
    # the harness reports the return code of a nested parse; the model does not run it
    return [l for l in lines if not l.startswith("T nest ")]


BASE = {}


def _tail(il, with_stream_probe=True):
    idx = [i for i, l in enumerate(il) if l.startswith("R ")]
    # the probe block: X 3 (R), PB 3 (R ...), dump
    if not with_stream_probe:
        return il[idx[-2]:] if len(idx) >= 2 else None
    if len(idx) < 3:
        return None
    # find the R of "X 3": the third-to-last R line; the last one belongs to the stream probe into context 0
    return il[idx[-3]:idx[-1]]


def oracle(case, il, ctx):
    hz = [l for l in il if l.startswith("H ")]
    if hz:
        return "hazard: " + hz[0]
    t = _tail(il, any(l.startswith("PS ") for l in case.lines))
    if t is None:
        return "malformed output"
    if "hist" in case.meta and not case.meta.get("nested"):
        last = max(i for i, l in enumerate(il) if l.startswith("R "))
        for l in il[last:]:
            if l.startswith("G ") and l.split()[1] != hx("FILE"):
                return "a diagnostic of cfg_parse_fp() on a stream names %r: a name left behind by an earlier parse" % l.split()[1]
    if "hist" not in case.meta:       # a corpus case: the model comparison alone decides
        return None
    if not case.meta["hist"]:
        BASE[case.meta["probe"]] = t
        return None
    b = BASE.get(case.meta["probe"])
    if b is None:
        return None
    if t != b:
        return "probe %r after history %r differs from the same probe in a fresh process" % (PROBES[case.meta["probe"]], [e for e, _c in case.meta["hist"]])
    return None


def nontrivial(case, model_lines):
    hist = case.meta.get("hist", [("corpus", 0)])
    return any(e != "ok" for e, _c in hist) or any(c == 1 for _e, c in hist)


def stats(case, model_lines):
    hist = case.meta.get("hist", [])
    s = {"histlen_%d" % min(4, len(hist)): 1}
    for e, c in hist:
        s["ev_" + e] = s.get("ev_" + e, 0) + 1
    return s
