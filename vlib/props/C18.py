"""C18 -- running out of memory yields an error return, not corruption."""
from ..core import Case, hx
from .. import gen
from ..gen import Opt, schema_lines, LIST, MULTI, TITLE, NO_TITLE_DUPES, COMMENTS, KEYSTRVAL, dbits
from .C17 import pw_lines

THEOREMS = ["C18_addval", "C18_setnNum_nofault", "C18_setnNum", "C18_setcomment", "C18_setnStr_wellformed", "cellsOk_append", "C18_setopt_plain", "C18_addlist_completes"]
PARTIAL = ("Modelled at allocation-sequence fidelity (Confuse.Model.Fault) and proved for EVERY position k of the failing request: cfg_addval, "
           "the numeric / boolean / string indexed setters, cfg_opt_setcomment and cfg_setopt on plain options either complete - then they equal the "
           "fault-free operation - or report failure, leaving every cell of the option with the option's type (a new string cell exists only as NULL). "
           "For these the tie compares return value and full dump with the model for every k. Every other entry point (cfg_init, the parser, section "
           "creation, path lookups, search path, tilde expansion, bulk set, list set/append, print) is NOT modelled under faults: for them the check "
           "is the implementation-side verdict for every k - no crash / abort / sanitizer report, the call returns, the context can be dumped, printed, "
           "looked up and freed, the counting allocator reports zero live blocks afterwards, and - 'either completes or reports failure' - whenever the "
           "call answers what it answers without a fault, the configuration (both contexts for cfg_init) equals the fault-free one. That part is fault "
           "enumeration supporting the claim, not a theorem. It found F40 (cfg_init_defaults() ignored or abort()ed on allocation failures; formerly "
           "known finding K02), now repaired.")
VARIANT = "fault"
CASE_TIMEOUT = 20
RULE = ("workloads covering every public entry point (init, parse from buffer/file/stream with sections, lists, calls, includes, "
        "annotations, free-form keys; every setter; list set/append; bulk set; set-from-text; annotate; add/remove sections; search path; "
        "tilde expansion; path lookups; print); for each workload and each k the k-th allocation request issued by confuse.c during the "
        "operation under test fails (counting allocator force-included into the build, scanner-internal allocations untouched); oracle on "
        "the implementation: no crash / abort / sanitizer report, the call returns, the context (if any) can be dumped, printed and freed, "
        "no block allocated by the library is alive afterwards, and a call that reports success left exactly the fault-free configuration; for the store-level operations the model predicts return value and "
        "resulting tree for every k; non-trivial = the failing allocation was not the first of the call")
EXHAUSTIVE = {"quick": True, "thorough": True}

SCHEMA = [Opt("i", "int", 0, 7), Opt("s", "str", 0, b"dflt"), Opt("f", "float", 0, 1.5), Opt("b", "bool", 0, True),
          Opt("l", "int", LIST, None), Opt("sl", "str", LIST, None), Opt("e", "str", 0, None), Opt("dl", "str", LIST, [b"d1", b"d2"]),
          Opt("fn", "func", 0, None, "U"), Opt("include", "func", 0, None, "I"),
          Opt("m", "sec", MULTI | TITLE, None, "-", [Opt("x", "int", 0, 3), Opt("y", "str", 0, b"dy"), Opt("yl", "int", LIST, [b"4"])]),
          Opt("n", "sec", MULTI, None, "-", [Opt("z", "int", 0, 0)]),
          Opt("one", "sec", 0, None, "-", [Opt("w", "str", 0, b"dw")]),
          Opt("kv", "sec", KEYSTRVAL, None, "-", [])]

PREP = ["SI 0 %s 0 1" % hx("l"), "AL 0 %s %s" % (hx("sl"), hx("a")), "AT 0 %s %s" % (hx("m"), hx("t0")), "SS 0 %s 0 %s" % (hx("e"), hx("set"))]

# (name, op line(s), number of allocation indices to try)
WORKLOADS = [
    ("setnint_list_append", ["SI 0 %s 5 9" % hx("l")], 3),
    ("setnstr_scalar", ["SS 0 %s 0 %s" % (hx("s"), hx("new"))], 3),
    ("setnstr_list_append", ["SS 0 %s 3 %s" % (hx("sl"), hx("b"))], 4),
    ("setnstr_pristine", ["SS 0 %s 0 %s" % (hx("sl"), hx("b"))], 4),
    ("setfloat", ["SF 0 %s 0 %s" % (hx("f"), dbits(2.5))], 3),
    ("addlist3", ["AL 0 %s 1 2 3" % hx("l")], 7),
    ("setlist2", ["SL 0 %s %s %s" % (hx("sl"), hx("p"), hx("q"))], 8),
    ("setmulti", ["SM 0 %s %s %s" % (hx("sl"), hx("u"), hx("v"))], 10),
    ("setmulti_fail", ["SM 0 %s %s %s" % (hx("l"), hx("1"), hx("x"))], 6),
    ("setopt_int", ["SO 0 %s %s" % (hx("i"), hx("42"))], 3),
    ("setopt_strlist", ["SO 0 %s %s" % (hx("sl"), hx("so"))], 5),
    ("setcomment", ["SC 0 %s %s" % (hx("i"), hx("note"))], 3),
    ("addtsec_new", ["AT 0 %s %s" % (hx("m"), hx("t1"))], 40),
    ("addtsec_replace_path", ["AT 0 %s %s" % (hx("m=t0|zz"), hx("q"))], 6),
    ("setint_by_path", ["SI 0 %s 0 5" % hx("m=t0|x")], 6),
    ("setint_by_quoted_path", ["SI 0 %s 0 5" % hx("m='t0'|x")], 6),
    ("getsec_path", ["GS 0 %s" % hx("m=t0")], 5),
    ("rmtsec", ["RT 0 %s %s" % (hx("m"), hx("t0"))], 3),
    ("searchpath_add", ["SP 0 %s" % hx("~/dir")], 5),
    ("searchpath_add_plain", ["SP 0 %s" % hx("/tmp")], 4),
    ("tilde", ["TE %s" % hx("~root/x")], 4),
    ("tilde_plain", ["TE %s" % hx("plain")], 3),
    ("parse_scalars", ["PB 0 " + hx(b"i = 3 s = \"v\" f = 2 b = no e = w\n")], 12),
    ("parse_lists", ["PB 0 " + hx(b"l = { 1, 2 } sl += { a, b } l += 3\n")], 25),
    ("parse_sections", ["PB 0 " + hx(b"m a { x = 1 y = q } n { z = 2 } one { w = r } m a { }\n")], 90),
    ("parse_func", ["PB 0 " + hx(b"fn ( a , b , c ) fn ( )\n")], 16),
    ("parse_comments", ["PB 0 " + hx(b"# note\ni = 1 /* other */ s = x\n")], 14),
    ("parse_kv", ["PB 0 " + hx(b"kv { k1 = v1 k2 = v2 k1 = v3 }\n")], 30),
    ("parse_include", ["PB 0 " + hx(b'include("inc.conf") i = 2\n')], 20),
    ("parse_file", ["PF 0 " + hx("main.conf")], 20),
    ("parse_stream", ["PS 0 " + hx(b"i = 4\n")], 6),
    ("parse_error", ["PB 0 " + hx(b"m \"t\" { x = oops\n")], 40),
    # the same section creations in a context that has a search path (sections borrow it)
    ("addtsec_new_searchpath", ["AT 0 %s %s" % (hx("m"), hx("t1"))], 40, ["SP 0 %s" % hx("/tmp")]),
    ("parse_sections_searchpath", ["PB 0 " + hx(b"m a { x = 1 } one { w = r } m a { }\n")], 60, ["SP 0 %s" % hx("/tmp")]),
    ("parse_file_two_dirs", ["PF 0 " + hx("two.conf")], 24,
     ["FILE %s reg %s" % (hx("d1/two.conf"), hx(b"i = 11\n")), "FILE %s reg %s" % (hx("d2/two.conf"), hx(b"i = 22\n")),
      "SP 0 %s" % hx("d1"), "SP 0 %s" % hx("d2")]),
    ("include_two_dirs", ["PB 0 " + hx(b'include("two.conf")\n')], 24,
     ["FILE %s reg %s" % (hx("d1/two.conf"), hx(b"i = 11\n")), "FILE %s reg %s" % (hx("d2/two.conf"), hx(b"i = 22\n")),
      "SP 0 %s" % hx("d1"), "SP 0 %s" % hx("d2")]),
    ("print", ["PR 0"], 3),
    ("init", ["X 1 %d" % COMMENTS], 120),
]


def generate(rng, tier):
    cases = []
    root = gen.fsroot()
    n = 0
    for wl in WORKLOADS:
        name, ops, maxk = wl[0], wl[1], wl[2]
        extra_prep = wl[3] if len(wl) > 3 else []
        ks = list(range(maxk)) if tier == "thorough" or maxk <= 30 else sorted(set(list(range(12)) + rng.sample(range(12, maxk), 18)))
        for k in [None] + ks:
            cdir = "%s/w%d" % (root, n)
            lines = schema_lines(SCHEMA) + pw_lines() + ["CWD " + hx(cdir), "FILE %s reg %s" % (hx("inc.conf"), hx(b"l = { 5 }\n")),
                                            "FILE %s reg %s" % (hx("main.conf"), hx(b"i = 8\ninclude(\"inc.conf\")\n")),
                                            "X 0 %d" % COMMENTS] + PREP + extra_prep + ["D 0", "LIVE"]
            if k is not None:
                lines.append("FAULT %d" % k)
            lines += ops
            lines += ["FAULT -1", "D 0", "LIVE", "PR 0", "GO 0 " + hx("i"), "F 0"]
            if name == "init":
                lines += ["D 1", "F 1"]
            lines += ["LIVE"]
            cases.append(Case("w%d" % n, lines, {"workload": name, "k": k, "modelled": name in MODELLED}))
            n += 1
    return cases


# workloads whose outcome under every k is predicted by the model (Confuse.Model.Fault)
MODELLED = {"setnint_list_append", "setnstr_scalar", "setnstr_list_append", "setnstr_pristine", "setfloat", "setcomment", "setopt_int", "setopt_strlist",
            "addlist3", "setlist2"}


def _k(case):
    if "k" in case.meta:
        return case.meta["k"]
    ks = [int(l.split()[1]) for l in case.lines if l.startswith("FAULT ") and not l.split()[1].startswith("-")]
    case.meta["k"] = ks[0] if ks else None
    case.meta.setdefault("workload", case.meta.get("origin", "corpus"))
    case.meta.setdefault("modelled", False)
    return case.meta["k"]


def project(lines, case):
    if _k(case) is None or case.meta["modelled"]:
        return [l for l in lines if not (l.startswith("G ") or l.startswith("I ") or l.startswith("T "))]
    # an injected fault in an operation the model does not represent at allocation-sequence fidelity:
    # only the process verdict is compared (the oracle below judges the rest on the implementation alone)
    return [l for l in lines if l.startswith("H ")]


BASELINE = {}


def _after_fault(il, case):
    """(result lines of the operation under test, dumps that follow it) - everything after the second LIVE-less marker:
    the operation comes right after the first 'L' line (the LIVE before it)"""
    try:
        i = next(k for k, l in enumerate(il) if l.startswith("L "))
    except StopIteration:
        return None
    rest = il[i + 1:]
    res = [l for l in rest if l.startswith(("R ", "S "))][:1]
    dumps, cur = [], None
    for l in rest:
        if l.startswith(("V ", "U ")):
            cur = (cur or []) + [l]
        elif l == ".":
            dumps.append(cur or [])
            cur = None
    return res, dumps


def oracle(case, il, ctx):
    _k(case)
    hz = [l for l in il if l.startswith("H ")]
    if hz:
        return "allocation failure %s in workload '%s' hurt the process: %s" % (case.meta["k"], case.meta["workload"], "; ".join(hz[:2]))
    # "the call either completes or reports failure through its return value": when the operation under test answers what it
    # answers without a fault, the context (and the second context for 'init') must be what it is without a fault
    af = _after_fault(il, case)
    if af is not None and "origin" not in case.meta:
        if case.meta["k"] is None:
            BASELINE[case.meta["workload"]] = af
        else:
            base = BASELINE.get(case.meta["workload"])
            if base is not None and base[0] == ["R 0"] and af[0] == base[0] and af[1] != base[1]:
                return ("allocation failure %s in workload '%s': the call reported the same result as without a fault (%s) but the configuration "
                        "differs from the fault-free one (neither completed nor reported)" % (case.meta["k"], case.meta["workload"], " ".join(af[0])))
    ls = [l for l in il if l.startswith("L ")]
    if not ls or ls[-1] != "L 0":
        return "blocks allocated by the library are still alive after cfg_free (leak after an injected failure): " + (ls[-1] if ls else "-")
    if not any(l.startswith("B ") for l in il):
        return "the context could not be printed after the injected failure"
    return None


def recog_abort_in_default(case, il, ml):
    """abort() (SIGABRT, nothing else) after an injected allocation failure, in a schema that has parsed list defaults:
    cfg_init_defaults() treats any failure while parsing a default value - also out of memory - as a programming error"""
    hz = [l for l in il if l.startswith("H ")]
    has_list_default = any(l.startswith("O ") and l.split()[5].startswith("L:") and len(l.split()[5]) > 2 for l in case.lines)
    return _k(case) is not None and hz == ["H signal 6"] and has_list_default


RECOGNIZERS = {"abort_in_default_parse": recog_abort_in_default}


def nontrivial(case, model_lines):
    return _k(case) is not None and case.meta["k"] >= 1


def stats(case, model_lines):
    _k(case)
    return {"workload_" + case.meta["workload"]: 1, "fault" if case.meta["k"] is not None else "no_fault": 1}
