"""C15 -- comments are transparent; annotations stick to the next option."""
from ..core import Case, hx
from .. import gen
from ..gen import schema_lines, NOCASE, COMMENTS, IGNORE_UNKNOWN
from .C01 import hand_schemas

THEOREMS = ["C15_step_other", "C15_step_s0_off", "C15_step_s0_on", "C15_insert", "C15_ws", "C15_line_comment_token", "C15_annotation_attach", "C15_transparent_annotations_on", "C15_annotation_readback", "C15_annotation_readback_block", "C15_annotation_readback_line", "commentRun_block"]
PARTIAL = ("Proved: a comment token is the identity on the whole machine in every state but 0 (C15_step_other), and in state 0 changes only the "
           "pending-annotation slot (C15_step_s0_on) or nothing (annotations off, C15_step_s0_off); with annotation support off inserting a comment "
           "token anywhere in any token list leaves the final machine unchanged (C15_insert, unbounded); with annotation support ON inserting a comment "
           "token anywhere changes at most positions and annotations - acceptance, every value at every depth, callbacks and diagnostic classes are the "
           "same (C15_transparent_annotations_on, from the erasure theorem; side condition: the insertion point is not the item boundary right after a "
           "DEPRECATED option, where the comment token triggers that option's deprecation diagnostic one token early - the code does that too); white "
           "space only moves the line counter (C15_ws); '# text' scans to one trimmed comment token (C15_line_comment_token); a pending comment becomes "
           "the annotation of the option whose value is stored next (C15_annotation_attach). Not proved: the print / re-parse read-back of annotations; "
           "checked on the implementation by the oracle.")
VARIANT = "asan"
RULE = ("accepted and rejected (mutated) texts as token lists; a comment of every form (#, //, /* */ single/multi-line/empty/"
        "marker-only) or extra white space inserted at one token boundary (inside lists, after '=', between name/title and '{', "
        "inside call arguments, before the first and after the last token), annotations on and off; oracle on the implementation "
        "alone: return code and every value equal with and without the insertion; annotation cases: comment directly before a "
        "scalar / non-empty-list assignment must come back trimmed from the getter, from print, and from a re-parse of the print; "
        "non-trivial = insertion point not at an item boundary, or the comment became an annotation")

COMMENT_FORMS = [b"# c\n", b"#\n", b"## x # y\n", b"// c\n", b"//\n", b"/// z\n", b"/* c */", b"/**/", b"/* a\n b */", b"/** d **/",
                 b"/* * / */", b"/*\n*/", b"# { } = \" '\n", b"/* \" ' { */", b"  ", b"\n\n", b"\t", b" \n\t ",
                 # line comments that contain the end-of-comment marker (F34: printed inside /* */ they escaped it)
                 b"# p */ t\n", b"// a */ i = 7 /* b\n", b"## #x */\n", b"# */\n"]


def render_plain(toks):
    return b" ".join(toks) + b"\n"


def insert_at(toks, k, piece):
    return b" ".join(toks[:k]) + (b" " if k else b"") + piece + b" " + b" ".join(toks[k:]) + b"\n"


def expected_annotation(piece):
    if piece.startswith(b"#"):
        t = piece.rstrip(b"\n").lstrip(b"#")
    elif piece.startswith(b"//"):
        t = piece.rstrip(b"\n").lstrip(b"/")
    else:
        t = piece[2:-2].rstrip(b"*")
    return t.strip(b" \t\n\v\f\r")


def generate(rng, tier):
    cases = []
    n = 0
    nschema = 60 if tier == "quick" else 350
    per = 16 if tier == "quick" else 40
    schemas = hand_schemas() + [gen.rand_schema(rng, allow=("int", "float", "bool", "str", "sec", "func"), p_flags=0.35) for _ in range(nschema)]
    for opts in schemas:
        sl = schema_lines(opts)
        for _ in range(per):
            ctxflags = rng.choice([0, 0, COMMENTS, COMMENTS, NOCASE | COMMENTS, IGNORE_UNKNOWN])
            toks = gen.gen_items(rng, opts, ctxflags, maxitems=4)
            if ctxflags & IGNORE_UNKNOWN and rng.random() < 0.7:
                k = rng.randrange(len(toks) + 1) if toks else 0
                k = 0 if not toks else k
                unk = rng.choice([[b"unk", b"=", b"5"], [b"unk", b"+=", b"{", b"1", b",", b"2", b"}"], [b"unk", b"(", b"a", b")"],
                                  [b"unk", b"t", b"{", b"a", b"=", b"1", b"}"], [b"unk", b"{", b"}"]])
                toks = unk + toks
            if rng.random() < 0.25:
                toks = gen.mutate(rng, toks)
            if not toks:
                continue
            base = render_plain(toks)
            positions = list(range(len(toks) + 1))
            rng.shuffle(positions)
            for k in positions[:4 if tier == "quick" else 8]:
                piece = rng.choice(COMMENT_FORMS)
                var = insert_at(toks, k, piece)
                lines = sl + ["X 0 %d" % ctxflags, "PB 0 " + hx(base), "D 0", "X 1 %d" % ctxflags, "PB 1 " + hx(var), "D 1"]
                boundary = k == 0 or k == len(toks) or toks[k - 1] in (b"}", b")") or (k >= 3 and toks[k - 2] == b"=")
                cases.append(Case("t%d" % n, lines, {"kind": "transparent", "piece": piece, "k": k, "ntok": len(toks),
                                                      "item_boundary": boundary, "base": base, "var": var}))
                n += 1
        # annotation cases
        # (options at any depth: the printed annotation of an option inside a section is indented, and must still read back)
        decl = dict(gen.all_opts(opts))

        def plain_path(p):
            parts = p.split("|")
            return all(not (decl["|".join(parts[:i + 1])].flags & (gen.KEYSTRVAL | gen.DEPRECATED)) for i in range(len(parts) - 1))
        scal = [(p, o) for p, o in gen.all_opts(opts) if o.ty in ("int", "float", "bool", "str") and not (o.flags & gen.DEPRECATED) and plain_path(p)]
        for _ in range(per):
            if not scal:
                break
            p, o = rng.choice(scal)
            piece = rng.choice([c for c in COMMENT_FORMS if c.strip() and (c.startswith(b"#") or c.startswith(b"/"))])
            if o.is_list():
                val = [b"{", gen.value_token(rng, o.ty), b",", gen.value_token(rng, o.ty), b"}"] if rng.random() < 0.7 else [gen.value_token(rng, o.ty)]
            else:
                val = [gen.value_token(rng, o.ty)]
            parts = p.split("|")
            item = [parts[-1].encode(), b"="] + val
            if rng.random() < 0.5:
                # more comments INSIDE the assignment (after the name, after '=', after '{', between values): transparent, and
                # the comment in front of the option stays its annotation
                for _j in range(rng.randint(1, 3)):
                    item.insert(rng.randint(1, len(item)), rng.choice([b"/* in */", b"/**/", b"# in\n", b"// in\n", b"/* two\nlines */"]))
            text = piece + (b"" if piece.endswith(b"\n") else b" ") + b" ".join(item) + b"\n"
            for i in range(len(parts) - 2, -1, -1):
                so = decl["|".join(parts[:i + 1])]
                text = parts[i].encode() + (b' "t 1"' if so.flags & gen.TITLE else b"") + b" {\n" + text + b"}\n"
            lines = sl + ["X 0 %d" % COMMENTS, "PB 0 " + hx(text), "D 0", "PR 0", "X 1 %d" % COMMENTS, "PP 0 1", "D 1"]
            cases.append(Case("a%d" % n, lines, {"kind": "annotation", "piece": piece, "opt": p, "expect": expected_annotation(piece), "text": text}))
            n += 1
    return cases


def _dump(lines, start):
    out = []
    i = start
    while i < len(lines) and lines[i] != ".":
        out.append(lines[i])
        i += 1
    return out, i + 1


def _values_only(dump):
    res = []
    for l in dump:
        w = l.split()
        if w[0] == "V":
            w[4] = str(int(w[4]) & ~2048)   # COMMENTS bit
            w[6] = "-"                      # annotation text
        res.append(" ".join(w))
    return res


def project(lines, case):
    # the model must agree with the implementation on everything but the I/G bookkeeping
    return [l for l in lines if not (l.startswith("I ") or l.startswith("G "))]


def oracle(case, il, ctx):
    if any(l.startswith("H ") for l in il):
        return "hazard: " + [l for l in il if l.startswith("H ")][0]
    if case.meta["kind"] == "transparent":
        # blocks: R(X0) R(PB0) dump . R(X1) R(PB1) dump .
        try:
            i = 0
            assert il[i].startswith("R "); i += 1
            rc0 = il[i]; i += 1
            while not il[i].startswith(("V ", ".")): i += 1
            d0, i = _dump(il, i)
            assert il[i].startswith("R "); i += 1
            rc1 = il[i]; i += 1
            while not il[i].startswith(("V ", ".")): i += 1
            d1, i = _dump(il, i)
        except (AssertionError, IndexError):
            return "malformed output"
        if rc0 != rc1:
            return "inserting %r at token boundary %d changed the return code (%s -> %s)" % (case.meta["piece"], case.meta["k"], rc0, rc1)
        if _values_only(d0) != _values_only(d1):
            return "inserting %r at token boundary %d changed a value" % (case.meta["piece"], case.meta["k"])
        return None
    # annotation
    exp = hx(case.meta["expect"])
    name = hx(case.meta["opt"])
    got = None
    depth = str(case.meta["opt"].count("|"))
    name = hx(case.meta["opt"].split("|")[-1])
    for l in il:
        w = l.split()
        if w[0] == "V" and w[1] == depth and w[2] == name:
            got = w[6]
    if got != exp:
        return "comment before '%s = ...' did not become its trimmed annotation (got %s, want %s)" % (case.meta["opt"], got, exp)
    printed = [l for l in il if l.startswith("B ")]
    if not printed:
        return "no print output"
    if b"*/" in case.meta["expect"]:
        return None      # an annotation containing "*/" cannot be written as a C comment: recorded, not compared
    # after "PP 0 1": the re-parsed context must carry the same annotation
    try:
        k = max(i for i, l in enumerate(il) if l.startswith("I "))
    except ValueError:
        return "no re-parse output"
    if "R 0" not in il[k - 3:k + 1] and not any(l == "R 0" for l in il[k - 6:k]):
        pass
    got2 = None
    for l in il[k:]:
        w = l.split()
        if w[0] == "V" and w[1] == depth and w[2] == name:
            got2 = w[6]
    if got2 != exp:
        return "annotation of '%s' was not read back from the printed text (got %s, want %s)" % (case.meta["opt"], got2, exp)
    return None


def nontrivial(case, model_lines):
    if case.meta["kind"] == "annotation":
        return True
    return not case.meta.get("item_boundary")


def stats(case, model_lines):
    s = {"kind_" + case.meta["kind"]: 1}
    if case.meta["kind"] == "annotation":
        s["annotation_at_depth_%d" % case.meta["opt"].count("|")] = 1
        s["annotation_multi_line"] = 1 if b"\n" in case.meta["expect"] else 0
    if case.meta["kind"] == "transparent":
        s["inside_item" if not case.meta["item_boundary"] else "item_boundary"] = 1
        s["accepted" if model_lines[1:2] == ["R 0"] else "rejected"] = 1
    return s
