/-!
# Bytes, byte constants, character classes

Model of C strings: `Bytes = List Nat` with every element `< 256`.  Byte constants are
`notation`s for numerals (not `def`s) so that `simp`/`omega`/`decide` see literals.
-/
namespace Confuse

abbrev Bytes := List Nat

notation "c_tab" => (9 : Nat)
notation "c_nl" => (10 : Nat)
notation "c_cr" => (13 : Nat)
notation "c_sp" => (32 : Nat)
notation "c_dq" => (34 : Nat)
notation "c_hash" => (35 : Nat)
notation "c_dollar" => (36 : Nat)
notation "c_sq" => (39 : Nat)
notation "c_lp" => (40 : Nat)
notation "c_rp" => (41 : Nat)
notation "c_star" => (42 : Nat)
notation "c_plus" => (43 : Nat)
notation "c_comma" => (44 : Nat)
notation "c_minus" => (45 : Nat)
notation "c_slash" => (47 : Nat)
notation "c_colon" => (58 : Nat)
notation "c_eq" => (61 : Nat)
notation "c_bs" => (92 : Nat)
notation "c_lbr" => (123 : Nat)
notation "c_pipe" => (124 : Nat)
notation "c_rbr" => (125 : Nat)

/-- C `isspace` in the "C" locale -/
def isSpaceC (c : Nat) : Bool := (9 ≤ c && c ≤ 13) || c == 32
def isBlank (c : Nat) : Bool := c == 32 || c == 9
def isOct (c : Nat) : Bool := 48 ≤ c && c ≤ 55
def isDec (c : Nat) : Bool := 48 ≤ c && c ≤ 57
def isHex (c : Nat) : Bool := isDec c || (65 ≤ c && c ≤ 70) || (97 ≤ c && c ≤ 102)
def hexVal (c : Nat) : Nat := if isDec c then c - 48 else if c ≤ 70 then c - 55 else c - 87
def isUpper (c : Nat) : Bool := 65 ≤ c && c ≤ 90
def isLower (c : Nat) : Bool := 97 ≤ c && c ≤ 122
def isAlpha (c : Nat) : Bool := isUpper c || isLower c
def toLower (c : Nat) : Nat := if isUpper c then c + 32 else c

/-- bytes that may appear inside an unquoted word: complement of `` #"'\t\n\r={}()+,*`` and space -/
def isWordByte (c : Nat) : Bool :=
  !(c == 32 || c == 35 || c == 34 || c == 39 || c == 9 || c == 10 || c == 13 || c == 61 ||
    c == 123 || c == 125 || c == 40 || c == 41 || c == 43 || c == 44 || c == 42)

/-- what a C function sees of a buffer: the bytes before the first NUL -/
def cstr (b : Bytes) : Bytes := b.takeWhile (· != 0)

/-- `trim_whitespace` of lexer.l on a NUL-free string: strip C white space at both ends -/
def trimWs (b : Bytes) : Bytes :=
  ((b.dropWhile isSpaceC).reverse.dropWhile isSpaceC).reverse

def lowerBytes (b : Bytes) : Bytes := b.map toLower
/-- `strcasecmp(a,b) == 0` (ASCII) -/
def eqNoCase (a b : Bytes) : Bool := lowerBytes a == lowerBytes b

def strOfBytes (b : Bytes) : String := String.ofList (b.map (fun n => Char.ofNat n))
def bytesOfString (s : String) : Bytes := s.toList.map (fun c => c.toNat)

instance {ε α} [DecidableEq ε] [DecidableEq α] : DecidableEq (Except ε α) := fun a b =>
  match a, b with
  | .ok x, .ok y => if h : x = y then isTrue (by rw [h]) else isFalse (by intro e; injection e; contradiction)
  | .error x, .error y => if h : x = y then isTrue (by rw [h]) else isFalse (by intro e; injection e; contradiction)
  | .ok _, .error _ => isFalse (by intro e; cases e)
  | .error _, .ok _ => isFalse (by intro e; cases e)

end Confuse
