import Confuse.Model.Api
import Confuse.Model.Ledger
import Confuse.Model.Fault
/-!
# Line-protocol driver for the model (see DESIGN.md appendix A)

Reads case files on stdin, writes canonical observations on stdout.  The C driver
(`harness/impl_driver.c`) reads the same file and must print the same lines.
-/
namespace Confuse.Driver
open Confuse

def hexDigit (n : Nat) : Char := if n < 10 then Char.ofNat (48 + n) else Char.ofNat (87 + n)

def hexOfBytes (b : Bytes) : String :=
  if b.isEmpty then "." else String.ofList (b.flatMap (fun c => [hexDigit (c / 16), hexDigit (c % 16)]))

def hexOpt : Option Bytes → String
  | none => "-"
  | some b => hexOfBytes b

def hexNib (c : Char) : Nat :=
  let n := c.toNat
  if 48 ≤ n && n ≤ 57 then n - 48 else if 97 ≤ n && n ≤ 102 then n - 87 else if 65 ≤ n && n ≤ 70 then n - 55 else 0

def bytesOfHexChars : List Char → Bytes
  | a :: b :: rest => (hexNib a * 16 + hexNib b) :: bytesOfHexChars rest
  | _ => []

def bytesOfHex (s : String) : Bytes := if s == "." then [] else bytesOfHexChars s.toList

def optOfHex (s : String) : Option Bytes := if s == "-" then none else some (bytesOfHex s)

def natOfHex (s : String) : Nat := s.toList.foldl (fun a c => a * 16 + hexNib c) 0

def hex16 (n : Nat) : String :=
  String.ofList ((List.range 16).reverse.map (fun i => hexDigit (n / 16 ^ i % 16)))

def intOfString (s : String) : Int := s.toInt?.getD 0

/-! ## schema -/

def tyOfString : String → Ty
  | "int" => .int | "float" => .float | "str" => .str | "bool" => .bool
  | "sec" => .sec | "func" => .func | _ => .ptr

def tyName : Ty → String
  | .int => "int" | .float => "float" | .str => "str" | .bool => "bool"
  | .sec => "sec" | .func => "func" | .ptr => "ptr"

/-- flat schema rows (depth, decl without children) → tree -/
partial def buildDecls (rows : List (Nat × OptInfo × Flags)) (depth : Nat) : List Decl × List (Nat × OptInfo × Flags) :=
  match rows with
  | [] => ([], [])
  | (d, info, fl) :: rest =>
    if d < depth then ([], rows)
    else
      let (subs, rest1) := buildDecls rest (depth + 1)
      let (sibs, rest2) := buildDecls rest1 depth
      (.mk info fl subs :: sibs, rest2)

def parseDef (ty : Ty) (isList : Bool) (s : String) (info : OptInfo) : OptInfo :=
  if s.startsWith "L:" then
    let body := (s.drop 2).toString
    let toks := if body.isEmpty then [] else (body.splitOn ",").map bytesOfHex
    { info with defList := some toks }
  else if isList then info
  else match ty with
    | .int => { info with defInt := intOfString s }
    | .float => { info with defFlt := natOfHex s }
    | .bool => { info with defBool := s == "1" }
    | .str => { info with defStr := optOfHex s }
    | _ => info

def parseRow (ws : List String) : Option (Nat × OptInfo × Flags) :=
  match ws with
  | [_, d, name, ty, fl, df, cbs] =>
    let t := tyOfString ty
    let flags := Flags.ofNat fl.toNat!
    let info : OptInfo := { name := bytesOfHex name, ty := t }
    let info := parseDef t flags.list df info
    let has (c : Char) : Bool := cbs.toList.contains c
    let info := { info with parseCb := has 'p', validCb := has 'v', valid2Cb := has 'w', freeCb := has 'f',
                            printCb := has 'r', simple := has 's' && !flags.list && (t == .int || t == .float || t == .bool || t == .str),
                            func := if has 'I' then .incl else if has 'U' then .user else .none }
    some (d.toNat!, info, flags)
  | _ => none

/-! ## world -/

structure Ctx where
  cfg : Cfg
  dirs : List Bytes := []
  errfn : Nat := 0        -- which of the harness' two error functions is installed (EF): diagnostics go to that one
deriving Inhabited

structure World where
  rows : List (Nat × OptInfo × Flags) := []     -- schema being read (reversed)
  decls : List Decl := []
  ctxs : List (Option Ctx) := [none, none, none, none]
  env : List (Bytes × Bytes) := []
  files : List (Bytes × FileKind × Bytes) := []
  passwd : List (Option Bytes × Bytes) := []
  k : Nat := 0
  failAt : Option Nat := none
  maxInc : Nat := 10
  cwd : Bytes := []
  fault : Option Nat := none      -- FAULT k: the k-th allocation of the next modelled store operation fails
deriving Inhabited

/-- type of the first declaration with this name anywhere in the schema -/
partial def findTy (name : Bytes) : List Decl → Option Ty
  | [] => none
  | .mk i _ subs :: ds =>
    if i.name == name then some i.ty else
    match findTy name subs with
    | some t => some t
    | none => findTy name ds

def bang : Nat := 33

/-- the callback DSL shared with the C harness -/
def mkOracle (w : World) : Oracle := fun k call =>
  let failNow := w.failAt == some k
  match call with
  | .parse opt tok =>
    (match tok with
     | none => .fail
     | some t =>
       if failNow || t.head? == some bang then .fail
       else match findTy opt w.decls with
         | some .int => .int t.length
         | some .float =>
           -- "huge…": the callback answers infinity; "erange…": it answers 1.0 and leaves errno = ERANGE behind.  What a
           -- callback produced is what is stored: the library's own range / not-a-number tests are about text IT converts
           if t.take 4 == [104, 117, 103, 101] then .flt 0x7ff0000000000000
           else if t.take 6 == [101, 114, 97, 110, 103, 101] then .flt 0x3ff0000000000000
           else .flt (ofDecimal false t.length 0).val.toBits
         | some .bool => .bool (t.length % 2 == 1)
         | some .str => .str (some ([60] ++ t ++ [62]))
         | some .ptr => .ptr (if t.isEmpty then none else some t)
         | _ => .fail)
  | .valid _ snaps =>
    if failNow then .fail
    else match snaps.getLast? with
      | some (.int 666) => .fail
      | some (.str (some [98, 97, 100])) => .fail
      | _ => .ok
  | .valid2int _ v => if failNow || v < 0 then .fail else if v > 1000 then .int 1000 else .int v
  | .valid2flt _ b => if failNow then .fail else .flt b
  | .valid2str _ s => if failNow || (s.bind (·.head?)) == some bang then .fail else .ok
  | .func _ args => if failNow || args.head? == some [102, 97, 105, 108] then .fail else .ok
  | .free _ => .ok

/-- split at '/' -/
def splitSlash (p : Bytes) : List Bytes :=
  (p.foldr (fun c acc => if c == c_slash then [] :: acc else match acc with | a :: as => (c :: a) :: as | [] => [[c]]) [[]])

/-- the file the kernel would open for `p`: relative names start at the case's working directory,
empty and "." segments vanish (".." is never generated) -/
def normPath (cwd p : Bytes) : Bytes :=
  let full := if p.head? == some c_slash then p else cwd ++ [c_slash] ++ p
  let segs := (splitSlash full).filter (fun s => !s.isEmpty && s != [46])
  segs.foldl (fun acc s => acc ++ [c_slash] ++ s) []

def mkPEnv (w : World) (dirs : List Bytes) : PEnv :=
  { env := fun n => if n.isEmpty || n.contains c_eq then none else (w.env.find? (·.1 == n)).map (·.2),
    fs := fun p => if p.isEmpty then none
      else if normPath w.cwd p == [47, 100, 101, 118, 47, 110, 117, 108, 108] then some (FileKind.dev, [])     -- /dev/null
      else if normPath w.cwd p == [] then some (FileKind.dir, [])      -- "/"
      else (w.files.find? (·.1 == normPath w.cwd p)).map (fun e => (e.2.1, e.2.2)),
    passwd := fun u => (w.passwd.find? (·.1 == u)).map (·.2),
    maxInc := w.maxInc, dirs := dirs }

def getCtx (w : World) (c : Nat) : Option Ctx := (w.ctxs[c]?).join
def setCtx (w : World) (c : Nat) (x : Option Ctx) : World := { w with ctxs := listSet w.ctxs c x }

/-! ## output -/

def diagName : DiagCls → String
  | .noSuchOption => "noSuchOption" | .invalidInt => "invalidInt" | .rangeInt => "rangeInt"
  | .invalidFloat => "invalidFloat" | .rangeFloat => "rangeFloat" | .invalidBool => "invalidBool"
  | .dupTitle => "dupTitle" | .unexpectedToken => "unexpectedToken" | .prematureEof => "prematureEof"
  | .unexpectedBrace => "unexpectedBrace" | .appendNonList => "appendNonList" | .missingEq => "missingEq"
  | .missingBrace => "missingBrace" | .missingTitle => "missingTitle" | .missingParen => "missingParen"
  | .funcSyntax => "funcSyntax" | .deprecatedDrop => "deprecatedDrop" | .deprecatedKeep => "deprecatedKeep"
  | .unterminatedString => "unterminatedString" | .unterminatedComment => "unterminatedComment"
  | .badOctal => "badOctal" | .badEscape => "badEscape" | .includeDepth => "includeDepth"
  | .includeNotFound => "includeNotFound" | .includeOpen => "includeOpen" | .includeArgs => "includeArgs"
  | .noSubSection => "noSubSection" | .callback => "callback" | .noParseCb => "noParseCb" | .other => "other"

def showDiag (d : Diag) : String := s!"G {hexOpt d.file} {d.line} {diagName d.cls}"

def showSnap : Snap → String
  | .int n => s!"i{n}" | .flt b => s!"f{hex16 b}" | .bool b => if b then "b1" else "b0"
  | .str s => s!"s{hexOpt s}" | .ptr p => s!"p{hexOpt p}" | .sec t => s!"t{hexOpt t}"

def showCall : CbCall → String
  | .parse o t => s!"T parse {hexOfBytes o} {hexOpt t}"
  | .valid o vs => s!"T valid {hexOfBytes o} {vs.length}" ++ String.join (vs.map (fun v => " " ++ showSnap v))
  | .valid2int o v => s!"T valid2 {hexOfBytes o} i{v}"
  | .valid2flt o b => s!"T valid2 {hexOfBytes o} f{hex16 b}"
  | .valid2str o s => s!"T valid2 {hexOfBytes o} s{hexOpt s}"
  | .func o args => s!"T func {hexOfBytes o} {args.length}" ++ String.join (args.map (fun a => " " ++ hexOfBytes a))
  | .free p => s!"T free {hexOfBytes p}"

def showVal : Val → String
  | .int n => toString n
  | .flt b => hex16 b
  | .bool b => if b then "1" else "0"
  | .str s => hexOpt s
  | .ptr p => hexOpt p
  | .sec _ => "sec"

mutual
partial def dumpOpt (depth : Nat) (o : Opt) : List String :=
  -- a CFG_SIMPLE option never has the parser's "replace" mark taken back (the library looks at it only for cells of its
  -- own): the bit is left out of the comparison on both sides
  let fl : Flags := if o.info.simple then { o.flags with reset := false } else o.flags
  let head := s!"V {depth} {hexOfBytes o.name} {tyName o.ty} {fl.toNat} {o.vals.length} {hexOpt o.comment}"
  if o.ty == .sec then
    head :: o.vals.flatMap (fun v => match v with
      | .sec s => s!"U {depth} {hexOpt s.info.title} {s.info.flags.toNat}" :: dumpCfg (depth + 1) s
      | _ => [])
  else [head ++ String.join (o.vals.map (fun v => " " ++ showVal v))]
partial def dumpCfg (depth : Nat) (c : Cfg) : List String := c.opts.flatMap (dumpOpt depth)
end

def showPos (steps : List (Nat × Nat)) (leaf : Option Nat) : String :=
  let s := String.intercalate "/" (steps.map (fun (a, b) => s!"{a}.{b}"))
  match leaf with
  | some l => if s.isEmpty then s!"P {l}" else s!"P {s}/{l}"
  | none => if s.isEmpty then "P root" else s!"P {s}"

/-! ## operations -/

def valOfWords (ty : Ty) (s : String) : Val :=
  match ty with
  | .int => .int (intOfString s)
  | .float => .flt (natOfHex s)
  | .bool => .bool (s == "1")
  | _ => .str (optOfHex s)

def optTyAt (c : Cfg) (path : Bytes) : Option Ty := ((getoptPath c path).ref.bind c.getOpt).map (·.ty)

def emitApi (w : World) (ci : Nat) (x : Ctx) (out : ApiOut) : World × List String :=
  let ds := out.diags.map (fun cls => showDiag ⟨x.cfg.info.filename, x.cfg.info.line, cls⟩)
  let w1 := setCtx { w with k := w.k + out.calls.length } ci (some { x with cfg := out.cfg })
  (w1, [s!"R {out.rc}"] ++ ds ++ out.calls.map showCall)

def emitParse (w : World) (ci : Nat) (x : Ctx) (out : ParseOut) : World × List String :=
  let w1 := setCtx { w with k := w.k + out.trace.length } ci (some { x with cfg := out.cfg })
  (w1, [s!"R {out.rc}"] ++ out.diags.map showDiag ++ out.trace.map showCall ++
        [s!"I {out.incAfter} 0"] ++ (if out.fuelOut then ["H fuel"] else []))

/-- `cfg_setlist` / `cfg_addlist`; with a fault schedule pending, through the allocation-level model -/
def listUnderFault (w : World) (ci : Nat) (x : Ctx) (path : Bytes) (vs : List Val) (append : Bool) : World × List String :=
  match w.fault, (getoptPath x.cfg path).ref, (getoptPath x.cfg path).ref.bind x.cfg.getOpt with
  | some _, some r, some o =>
    if !o.flags.list then emitApi { w with fault := none } ci x (apiList x.cfg path vs append)
    else
      let o1 := if append then o.setFlags { o.flags with reset := false } else (freeValue o).1
      let out := addlistF o1 vs w.fault
      (setCtx { w with fault := none } ci (some { x with cfg := x.cfg.setOpt r out.opt }), [if out.ok then "R 0" else "R -1"])
  | _, _, _ => emitApi w ci x (apiList x.cfg path vs append)

def step (w : World) (ws : List String) : World × List String :=
  let orc := mkOracle w
  let withCtx (c : String) (f : Nat → Ctx → World × List String) : World × List String :=
    let ci := c.toNat!
    match getCtx w ci with
    | some x =>
      let r := f ci x
      -- every diagnostic of an operation on this context is delivered to the error function installed on it now
      if x.errfn == 1 then (r.1, r.2.map (fun l => if l.startsWith "G " then "G2 " ++ (l.drop 2).toString else l)) else r
    | none => (w, ["R nocontext"])
  match ws with
  | ["S"] => ({ w with rows := [] }, [])
  | "O" :: _ => (match parseRow ws with
      | some r => ({ w with rows := r :: w.rows }, [])
      | none => (w, ["bad-op"]))
  | ["E"] => ({ w with decls := (buildDecls w.rows.reverse 0).1 }, [])
  | ["ENV", n, v] =>
    let name := bytesOfHex n
    let env' := w.env.filter (·.1 != name)
    ({ w with env := match optOfHex v with | some b => (name, b) :: env' | none => env' }, [])
  -- a file that opens but cannot be read (the harness links it to /proc/self/mem): the model has no such thing and does
  -- as if it were not there - a parse that includes it fails either way, which is all that is compared for these cases
  | ["FILE", _, "unreadable", _] => (w, [])
  | ["FILE", p, kind, content] =>
    -- creating a file also creates its parent directories
    let path := normPath w.cwd (bytesOfHex p)
    let segs := (splitSlash path).filter (fun s => !s.isEmpty)
    let parents := (List.range segs.length).filterMap (fun k =>
      if k == 0 then none else some ((segs.take k).foldl (fun acc s => acc ++ [c_slash] ++ s) [], FileKind.dir, ([] : Bytes)))
    let newParents := parents.filter (fun e => !(w.files.any (·.1 == e.1)))
    ({ w with files := (path, (if kind == "dir" then FileKind.dir else FileKind.reg), bytesOfHex content) :: (newParents ++ w.files) }, [])
  | ["PW", u, h] =>
    (match optOfHex h with
     | some home => ({ w with passwd := (optOfHex u, home) :: w.passwd }, [])
     | none => (w, []))
  | ["FAILAT", k] => ({ w with failAt := if k == "-" then none else some k.toNat! }, [])
  | ["FAULT", k] => ({ w with fault := if k.startsWith "-" then none else some k.toNat! }, [])
  | ["ERRNO", _] => (w, [])       -- the model has no errno: the outcome does not depend on it
  | ["CWD", d] => ({ w with cwd := bytesOfHex d }, [])
  | ["MAXINC", n] => ({ w with maxInc := n.toNat! }, [])
  | ["X", c, fl] =>
    let cfg := cfgInit w.decls (Flags.ofNat fl.toNat!)
    (setCtx w c.toNat! (some { cfg := cfg }), ["R 0"])
  -- XP: the caller's declarations are overwritten and freed right after cfg_init; the model never looks at them again anyway
  | ["XP", c, fl] =>
    let cfg := cfgInit w.decls (Flags.ofNat fl.toNat!)
    (setCtx w c.toNat! (some { cfg := cfg }), ["R 0"])
  | ["XP", c, fl, c2] =>
    let cfg := cfgInit w.decls (Flags.ofNat fl.toNat!)
    (setCtx (setCtx w c.toNat! (some { cfg := cfg })) c2.toNat! (some { cfg := cfg }), ["R 0"])
  | ["SP", c, d] => withCtx c fun ci x =>
      (setCtx w ci (some { x with dirs := tildeExpand (mkPEnv w []) (bytesOfHex d) :: x.dirs }), ["R 0"])
  | ["STACK", _] => (w, [])       -- a resource limit of the harness' process: nothing the model knows of
  | ["EF", c, k] => withCtx c fun ci x => (setCtx w ci (some { x with errfn := k.toNat! }), ["R 0"])
  | ["PB", c, t] => withCtx c fun ci x => emitParse w ci x (parseBuf orc (mkPEnv w x.dirs) x.cfg (bytesOfHex t) w.k)
  -- model-only parse: what a parse the harness' own callback starts (nested in a running parse, which the model
  -- does not run there) must leave in its context - the same as the parse on its own
  | ["MPB", c, t] => withCtx c fun ci x => ((emitParse w ci x (parseBuf orc (mkPEnv w x.dirs) x.cfg (bytesOfHex t) w.k)).1, [])
  | ["PS", c, t] => withCtx c fun ci x => emitParse w ci x (parseStream orc (mkPEnv w x.dirs) x.cfg (bytesOfHex t) w.k)
  -- cfg_parse_fp() on a stream that cannot be read (a directory, a stream opened for writing): the input ends at once,
  -- with an error: reported under the stream's name at line 1, the parse fails, nothing else changes (fix F52: the
  -- generated scanner used to end the process)
  | ["PSE", c, kind] => withCtx c fun ci x =>
      if kind == "2" then
        -- the stream delivers `s = "abc` and then fails: the string is never closed
        emitParse w ci x (parseStream orc (mkPEnv w x.dirs) x.cfg [115, 32, 61, 32, 34, 97, 98, 99] w.k)
      else
        let out := parseStream orc (mkPEnv w x.dirs) x.cfg [] w.k
        emitParse w ci x { out with rc := 1, diags := [⟨some fileName, 1, .other⟩] }
  | ["PF", c, p] => withCtx c fun ci x => emitParse w ci x (parseFile orc (mkPEnv w x.dirs) x.cfg (bytesOfHex p) w.k)
  | "SL" :: c :: p :: vs => withCtx c fun ci x =>
      let ty := (optTyAt x.cfg (bytesOfHex p)).getD .int
      listUnderFault w ci x (bytesOfHex p) (vs.map (valOfWords ty)) false
  | "AL" :: c :: p :: vs => withCtx c fun ci x =>
      let ty := (optTyAt x.cfg (bytesOfHex p)).getD .int
      listUnderFault w ci x (bytesOfHex p) (vs.map (valOfWords ty)) true
  | "SM" :: c :: p :: vs => withCtx c fun ci x =>
      emitApi w ci x (apiSetmulti orc w.k x.cfg (bytesOfHex p) (vs.map optOfHex))
  | ["SLA", c, p, i, j] => withCtx c fun ci x =>
      -- cfg_setlist(cfg, name, 2, cfg_getnstr(cfg, name, i), cfg_getnstr(cfg, name, j)): the arguments are elements of the list replaced
      let cur (k : Nat) : Val :=
        match (getoptPath x.cfg (bytesOfHex p)).ref.bind x.cfg.getOpt with
        | some o => (match o.ty, o.vals[k]? with | .str, some (.str s) => .str s | _, _ => .str none)
        | none => .str none
      emitApi w ci x (apiList x.cfg (bytesOfHex p) [cur i.toNat!, cur j.toNat!] false)
  | ["SSA", c, p, idx] => withCtx c fun ci x =>
      -- cfg_setnstr(cfg, name, cfg_getnstr(cfg, name, i), i): the argument aliases what the call may release
      let cur : Val :=
        match (getoptPath x.cfg (bytesOfHex p)).ref.bind x.cfg.getOpt with
        | some o => (match o.ty, o.vals[idx.toNat!]? with | .str, some (.str s) => .str s | _, _ => .str none)
        | none => .str none
      emitApi w ci x (apiSetn orc w.k x.cfg (bytesOfHex p) .str cur idx.toNat! true)
  | ["SOA", c, p] => withCtx c fun ci x =>
      -- cfg_setopt(cfg, opt, <the string the option holds now>): the argument aliases what the call releases
      let cur : Option Bytes :=
        match (getoptPath x.cfg (bytesOfHex p)).ref.bind x.cfg.getOpt with
        | some o => (match o.ty, o.vals.head? with | .str, some (.str s) => s | _, _ => none)
        | none => none
      emitApi w ci x (apiSetopt orc w.k x.cfg (bytesOfHex p) cur)
  | ["SO", c, p, v] => withCtx c fun ci x =>
      match w.fault, (getoptPath x.cfg (bytesOfHex p)).ref, (getoptPath x.cfg (bytesOfHex p)).ref.bind x.cfg.getOpt with
      | some _, some r, some o =>
        (match setoptConvert orc w.k o (optOfHex v) with
         | .ok (cv, _) =>
           let out := setoptPlainF o cv w.fault
           (setCtx { w with fault := none } ci (some { x with cfg := x.cfg.setOpt r out.opt }), [if out.ok then "R 0" else "R -1"])
         | .error _ => emitApi { w with fault := none } ci x (apiSetopt orc w.k x.cfg (bytesOfHex p) (optOfHex v)))
      | _, _, _ => emitApi w ci x (apiSetopt orc w.k x.cfg (bytesOfHex p) (optOfHex v))
  | ["SC", c, p, v] => withCtx c fun ci x =>
      match w.fault, (getoptPath x.cfg (bytesOfHex p)).ref, (getoptPath x.cfg (bytesOfHex p)).ref.bind x.cfg.getOpt, optOfHex v with
      | some _, some r, some o, some cm =>
        let out := setcommentF o cm w.fault
        (setCtx { w with fault := none } ci (some { x with cfg := x.cfg.setOpt r out.opt }), [if out.ok then "R 0" else "R -1"])
      | _, _, _, _ => emitApi w ci x (apiSetcomment x.cfg (bytesOfHex p) (optOfHex v))
  | ["AT", c, p, t] => withCtx c fun ci x => emitApi w ci x (apiAddtsec orc w.k x.cfg (bytesOfHex p) (if t == "-" then none else some (bytesOfHex t)))
  | ["RN", c, p, i] => withCtx c fun ci x => emitApi w ci x (apiRmnsec x.cfg (bytesOfHex p) i.toNat!)
  | ["RT", c, p, t] => withCtx c fun ci x => emitApi w ci x (apiRmtsec x.cfg (bytesOfHex p) (bytesOfHex t))
  | ["RS", c, p] => withCtx c fun ci x => emitApi w ci x (apiRmsec x.cfg (bytesOfHex p))
  | ["GO", c, p] => withCtx c fun _ x =>
      let r := getoptPath x.cfg (bytesOfHex p)
      let ds := r.diags.map (fun cls => showDiag ⟨x.cfg.info.filename, x.cfg.info.line, cls⟩)
      (w, [match r.ref with | some ref => showPos ref.steps (some ref.leaf) | none => "P none"] ++ ds)
  | ["GS", c, p] => withCtx c fun _ x =>
      let (pos, diags) := apiGetsec x.cfg (bytesOfHex p)
      let ds := diags.map (fun cls => showDiag ⟨x.cfg.info.filename, x.cfg.info.line, cls⟩)
      (w, [match pos with | some st => showPos st none | none => "P none"] ++ ds)
  | ["VF", c, p, kind] => withCtx c fun ci x =>
      let f : OptInfo → OptInfo := fun i => if kind == "w" then { i with valid2Cb := true } else { i with validCb := true }
      let (cfg', ok) := apiRegister x.cfg (bytesOfHex p) f
      (setCtx w ci (some { x with cfg := cfg' }), [if ok then "R 0" else "R -1"])
  | ["VFS", c, sp, p, kind] => withCtx c fun ci x =>
      -- register a validation callback by calling the registration function ON a section instance (found at `sp`)
      let f : OptInfo → OptInfo := fun i => if kind == "w" then { i with valid2Cb := true } else { i with validCb := true }
      let (pos, _) := apiGetsec x.cfg (bytesOfHex sp)
      (match pos with
       | some steps =>
         (match steps.getLast?, cfgAt x.cfg steps with
          | some (oi, ii), some s =>
            let (s', ok) := apiRegister s (bytesOfHex p) f
            let cfg' := updOptAt (fun o => o.setVals (listSet o.vals ii (.sec s'))) x.cfg steps.dropLast oi
            (setCtx w ci (some { x with cfg := cfg' }), [if ok then "R 0" else "R -1"])
          | _, _ => (w, ["R -1"]))
       | none => (w, ["R -1"]))
  | ["PFN", c, p, on] => withCtx c fun ci x =>
      let (cfg', ok) := apiRegister x.cfg (bytesOfHex p) (fun i => { i with printCb := on == "1" })
      (setCtx w ci (some { x with cfg := cfg' }), [if ok then "R 0" else "R -1"])
  | "FL" :: c :: sp :: names => withCtx c fun ci x =>
      -- install a print filter (hiding `names`) on the section at `sp` ("." = the context itself)
      let hide := names.map bytesOfHex
      if sp == "." then
        (setCtx w ci (some { x with cfg := x.cfg.setInfo { x.cfg.info with pff := some hide } }), ["R 0"])
      else
        let (pos, _) := apiGetsec x.cfg (bytesOfHex sp)
        (match pos with
         | some steps =>
           (match steps.getLast?, cfgAt x.cfg steps with
            | some (oi, ii), some s =>
              let parentSteps := steps.dropLast
              let s' := s.setInfo { s.info with pff := some hide }
              let cfg' := updOptAt (fun o => o.setVals (listSet o.vals ii (.sec s'))) x.cfg parentSteps oi
              (setCtx w ci (some { x with cfg := cfg' }), ["R 0"])
            | _, _ => (w, ["R -1"]))
         | none => (w, ["R -1"]))
  | ["D", c] => withCtx c fun _ x => (w, dumpCfg 0 x.cfg ++ ["."])
  | ["PR", c] => withCtx c fun _ x => (w, ["B " ++ hexOfBytes (cfgPrint x.cfg)])
  | ["PI", c, ind] => withCtx c fun _ x => (w, ["B " ++ hexOfBytes (printCfg none ind.toNat! x.cfg)])
  | ["POI", c, p, ind] => withCtx c fun _ x =>
      (match (getoptPath x.cfg (bytesOfHex p)).ref.bind x.cfg.getOpt with
       | some o => (w, ["B " ++ hexOfBytes (printOpt none ind.toNat! o)])
       | none => (w, ["B -"]))
  | ["PP", a, b] => withCtx a fun _ xa => withCtx b fun cb xb =>
      emitParse w cb xb (parseBuf orc (mkPEnv w xb.dirs) xb.cfg (cfgPrint xa.cfg) w.k)
  | ["PO", c, p] => withCtx c fun _ x =>
      (match (getoptPath x.cfg (bytesOfHex p)).ref.bind x.cfg.getOpt with
       | some o => (w, ["B " ++ hexOfBytes (optPrint o)])
       | none => (w, ["B -"]))
  | ["F", c] => withCtx c fun ci x =>
      let ev := apiFree x.cfg
      (setCtx { w with k := w.k + ev.length } ci none, ["R 0"] ++ ev.map showCall)
  | ["LIVE"] =>
      let total := w.ctxs.foldl (fun acc x => match x with
        | some c => acc + footCfg c.cfg + searchPathBlocks c.dirs
        | none => acc) 0
      (w, [s!"L {total}"])
  | ["TE", n] => (w, ["S " ++ hexOfBytes (tildeExpand (mkPEnv w []) (bytesOfHex n))])
  | ["SQ", c, f] => withCtx c fun _ x =>
      (w, ["S " ++ (if x.dirs.isEmpty then "-" else hexOpt (searchpath (mkPEnv w x.dirs) x.dirs (bytesOfHex f)))])
  | [op, c, p, idx, v] =>
    if ["SI", "SF", "SB", "SS", "OI", "OF", "OB", "OS"].contains op && w.fault.isSome then
      -- store operation under an injected allocation failure (Model/Fault.lean); simple names only
      withCtx c fun ci x =>
        let ty : Ty := if op == "SI" || op == "OI" then .int else if op == "SF" || op == "OF" then .float
                       else if op == "SB" || op == "OB" then .bool else .str
        let pth := getoptPath x.cfg (bytesOfHex p)
        match pth.ref, pth.ref.bind x.cfg.getOpt with
        | some r, some o =>
          let out : FOut :=
            if o.ty != ty then ⟨o, false, 0⟩
            else if ty == .str then setnStrF o (optOfHex v) idx.toNat! w.fault
            else setnNumF o (valOfWords ty v) idx.toNat! w.fault
          (setCtx { w with fault := none } ci (some { x with cfg := x.cfg.setOpt r out.opt }), [if out.ok then "R 0" else "R -1"])
        | _, _ => ({ w with fault := none }, ["R -1"])
    else if ["SI", "SF", "SB", "SS", "OI", "OF", "OB", "OS"].contains op then
      withCtx c fun ci x =>
        let ty : Ty := if op == "SI" || op == "OI" then .int else if op == "SF" || op == "OF" then .float
                       else if op == "SB" || op == "OB" then .bool else .str
        emitApi w ci x (apiSetn orc w.k x.cfg (bytesOfHex p) ty (valOfWords ty v) idx.toNat! (op.startsWith "S"))
    else (w, ["bad-op"])
  | _ => (w, ["bad-op"])

partial def loop (h : IO.FS.Stream) (out : IO.FS.Stream) (w : World) : IO Unit := do
  let line ← h.getLine
  if line.isEmpty then return ()
  let ws := (line.trimAscii.toString.splitOn " ").filter (· != "")
  match ws with
  | [] => loop h out w
  | ["CASE", id] =>
    out.putStrLn s!"CASE {id}"
    loop h out {}
  | _ =>
    let (w', lines) := step w ws
    for l in lines do out.putStrLn l
    loop h out w'

end Confuse.Driver
