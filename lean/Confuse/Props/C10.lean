import Confuse.Props.C09
/-!
# C10 — a rejected update leaves the option exactly as it was
-/
namespace Confuse

/-- the flags with the two steering bits masked out -/
def Flags.base (f : Flags) : Flags := { f with reset := false, modified := false }

/-- same declaration part, same flags except RESET/MODIFIED -/
def SameDecl (o r : Opt) : Prop := r.info = o.info ∧ r.subs = o.subs ∧ r.flags.base = o.flags.base

theorem dropDefaults_sameDecl (o : Opt) : SameDecl o (dropDefaults o).1 := by
  obtain ⟨info, f, subs, vals, c⟩ := o
  unfold dropDefaults
  by_cases hr : f.reset = true
  · simp [Opt.flags, hr, freeValue, Opt.setFlags, SameDecl, Opt.info, Opt.subs, Flags.base, Opt.comment]
  · simp [Opt.flags, hr, SameDecl]

theorem setOut_ite (Q : Opt → Prop) (c : Prop) [Decidable c] (a b : SetOut) (ha : Q a.opt) (hb : Q b.opt) :
    Q (if c then a else b).opt := by
  split <;> assumption

/-- `cfg_setopt` never touches the declaration part of an option, nor any flag but RESET/MODIFIED -/
theorem setopt_sameDecl (orc : Oracle) (k : Nat) (ci : CfgInfo) (o : Opt) (v : Option Bytes) :
    SameDecl o (setopt orc k ci o v).opt := by
  unfold setopt
  cases hcv : setoptConvert orc k o v with
  | error e => simp [SameDecl]
  | ok p =>
    have hd := dropDefaults_sameDecl o
    simp only []
    generalize dropDefaults o = dd at hd ⊢
    obtain ⟨o1, ev1⟩ := dd
    simp only [] at hd ⊢
    refine setOut_ite _ _ _ _ hd (setOut_ite _ _ _ _ hd ?_)
    obtain ⟨h1, h2, h3⟩ := hd
    refine ⟨h1, h2, ?_⟩
    simp only [Opt.flags] at h3 ⊢
    rw [← h3]
    simp [Flags.base]

theorem setmultiLoop_sameDecl (orc : Oracle) (k : Nat) (ci : CfgInfo) (vs : List (Option Bytes)) :
    ∀ (o : Opt) (ds : List DiagCls) (cs : List CbCall), SameDecl o (setmultiLoop orc k ci o vs ds cs).1 := by
  induction vs with
  | nil => intro o ds cs; simp [setmultiLoop, SameDecl]
  | cons v vs ih =>
    intro o ds cs
    simp only [setmultiLoop]
    have h1 := setopt_sameDecl orc (k + cs.length) ci o v
    split
    · exact h1
    · have h2 := ih (setopt orc (k + cs.length) ci o v).opt (ds ++ (setopt orc (k + cs.length) ci o v).diags) (cs ++ (setopt orc (k + cs.length) ci o v).calls)
      exact ⟨h2.1.trans h1.1, h2.2.1.trans h1.2.1, h2.2.2.trans h1.2.2⟩

theorem flags_eq_of_base (a b : Flags) (hb : a.base = b.base) (hr : a.reset = b.reset) (hm : a.modified = b.modified) : a = b := by
  cases a; cases b
  simp only [Flags.base, Flags.mk.injEq] at hb
  simp_all

/-- **C10 (bulk set).** If `cfg_setmulti` reports failure — whichever element was the unconvertible
one, first, middle or last — the option record it returns is *equal* to the one it was given:
values, count, order, annotation, RESET and MODIFIED bits, everything. -/
theorem C10_setmulti_refused (orc : Oracle) (k : Nat) (ci : CfgInfo) (o : Opt) (values : List (Option Bytes))
    (h : (setmulti orc k ci o values).2.1 = false) :
    (setmulti orc k ci o values).1 = o := by
  unfold setmulti at h ⊢
  by_cases he : values.isEmpty = true
  · simp [he]
  · simp only [he, Bool.false_eq_true, if_false] at h ⊢
    have hs := setmultiLoop_sameDecl orc k ci values (Opt.mk o.info o.flags o.subs [] none) [] []
    generalize setmultiLoop orc k ci (Opt.mk o.info o.flags o.subs [] none) values [] [] = r at hs h ⊢
    obtain ⟨o1, ok, ds, cs⟩ := r
    simp only [] at hs h ⊢
    cases ok with
    | true => simp at h
    | false =>
      simp only [Bool.false_eq_true, if_false]
      obtain ⟨h1, h2, h3⟩ := hs
      obtain ⟨info, f, subs, vals, c⟩ := o
      simp only [Opt.info, Opt.flags, Opt.subs, Opt.vals, Opt.comment] at h1 h2 h3 ⊢
      rw [h1, h2]
      congr 1
      apply flags_eq_of_base
      · simpa [Flags.base] using h3
      · rfl
      · rfl

/-- **C10 (set-from-text).** `cfg_setopt` with unconvertible text returns the option it was given. -/
theorem C10_setopt_refused (orc : Oracle) (k : Nat) (ci : CfgInfo) (o : Opt) (v : Option Bytes) (ds : List DiagCls) (cs : List CbCall)
    (h : setoptConvert orc k o v = .error (ds, cs)) :
    (setopt orc k ci o v).opt = o ∧ (setopt orc k ci o v).res = none := by
  unfold setopt
  simp [h]

/-- **C10 (veto).** A by-name setter vetoed by the pre-set validation callback changes nothing. -/
theorem C10_veto (orc : Oracle) (k : Nat) (c : Cfg) (path : Bytes) (ty : Ty) (v : Val) (i : Nat) (r : OptRef) (o : Opt)
    (hr : (getoptPath c path).ref = some r) (ho : c.getOpt r = some o) (hcb : o.info.valid2Cb = true) (hty : ty ≠ .bool)
    (hveto : ∀ call, orc k call = .fail) :
    (apiSetn orc k c path ty v i true).cfg = c ∧ (apiSetn orc k c path ty v i true).rc = -1 := by
  unfold apiSetn
  simp [hr, ho, hcb, hty, hveto]

/-- **C10 (wrong type / illegal index).** -/
theorem C10_type_or_index_refused (c : Cfg) (r : OptRef) (o : Opt) (ty : Ty) (v : Val) (i : Nat) (ds : List DiagCls)
    (ho : c.getOpt r = some o)
    (hbad : o.ty ≠ ty ∨ (i ≠ 0 ∧ o.flags.list = false ∧ o.flags.multi = false)) :
    (modOpt c r (optSetn ty v i) ds).rc = -1 ∧ ∃ o', (modOpt c r (optSetn ty v i) ds).cfg = c.setOpt r o' ∧ o' = o := by
  unfold modOpt
  simp only [ho]
  rcases hbad with h | ⟨h1, h2, h3⟩
  · simp [C09_wrong_type_refused ty o v i h]
  · by_cases ht : o.ty = ty
    · simp [optSetn, ht, C09_scalar_index_refused o v i h1 h2 h3]
    · simp [C09_wrong_type_refused ty o v i ht]

end Confuse
