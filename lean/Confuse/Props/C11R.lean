import Confuse.Props.C11
import Confuse.Props.C05
/-!
# C11 — multi-step paths resolve like step-by-step navigation

`renderPath steps leaf` writes a path in the mini-language (`name`, `name=qualifier`, joined by `|`,
the qualifier plain or `'quoted'`); `walk` navigates one level at a time with the single-level
accessors.  `C11_resolve`: the resolver on the rendered path is the walk, for every path length.
-/
namespace Confuse

/-- the qualifier of a path step: nothing, plain text (an index or a simple title), or any title in
quoted form -/
inductive Qual | none | plain (t : Bytes) | quoted (t : Bytes)

def Qual.text : Qual → Option Bytes
  | .none => Option.none | .plain t => some t | .quoted t => some t

def Qual.render : Qual → Bytes
  | .none => [] | .plain t => c_eq :: t | .quoted t => c_eq :: quoteTitle t

/-- what may be written unquoted: non-empty, no `|`, not starting with a quote -/
def Qual.ok : Qual → Prop
  | .none => True
  | .plain t => t ≠ [] ∧ t.head? ≠ some c_sq ∧ ∀ c ∈ t, c ≠ c_pipe
  | .quoted _ => True

structure PStep where
  name : Bytes
  qual : Qual

def renderPath : List PStep → Bytes → Bytes
  | [], leaf => leaf
  | s :: ss, leaf => s.name ++ s.qual.render ++ c_pipe :: renderPath ss leaf

/-- the instance a qualifier selects, by the option's kind: none → the first; on a titled section
the text is a title, otherwise a number (as `strtol` reads it, whole text consumed) -/
def instOf (o : Opt) : Option Bytes → Int
  | none => 0
  | some t =>
    if !o.flags.multi then -1
    else if o.flags.title then (match gettsecidx o t with | some k => (k : Int) | none => -1)
    else (if (strtolC t 0).rest.isEmpty then (strtolC t 0).val else -1)

/-- step-by-step navigation with the single-level accessors -/
def walk : Cfg → List (Nat × Nat) → List PStep → Bytes → Option OptRef
  | c, acc, [], leaf => (getoptLeaf c leaf).map (fun i => ⟨acc, i⟩)
  | c, acc, s :: ss, leaf =>
    match pathOpt c s.name with
    | none => none
    | some (oi, o) =>
      match pathInst o (instOf o s.qual.text) with
      | none => none
      | some (ii, sub) => walk sub (acc ++ [(oi, ii)]) ss leaf

theorem renderPath_head (ss : List PStep) (leaf : Bytes) (hleaf : plainName leaf) (hss : ∀ s ∈ ss, plainName s.name) :
    ∃ c cs, renderPath ss leaf = c :: cs ∧ isSep c = false := by
  cases ss with
  | nil =>
    obtain ⟨hne, hs⟩ := hleaf
    cases leaf with
    | nil => exact absurd rfl hne
    | cons c cs => exact ⟨c, cs, rfl, hs c (by simp)⟩
  | cons s ss =>
    obtain ⟨hne, hs⟩ := hss s (by simp)
    cases hn : s.name with
    | nil => exact absurd hn hne
    | cons c cs =>
      refine ⟨c, cs ++ s.qual.render ++ c_pipe :: renderPath ss leaf, by simp [renderPath, hn], ?_⟩
      exact hs c (by simp [hn])

theorem takeWhile_name (n rest : Bytes) (c : Nat) (h : ∀ x ∈ n, isSep x = false) (hc : isSep c = true) :
    (n ++ c :: rest).takeWhile (fun x => !isSep x) = n := by
  induction n with
  | nil => simp [hc]
  | cons a as ih => simp [h a (by simp), ih (fun x hx => h x (by simp [hx]))]


theorem qual_tail_sep (q : Qual) (R : Bytes) : ∃ x xs, q.render ++ c_pipe :: R = x :: xs ∧ isSep x = true := by
  cases q with
  | none => exact ⟨c_pipe, R, rfl, by decide⟩
  | plain t => exact ⟨c_eq, t ++ c_pipe :: R, rfl, by decide⟩
  | quoted t => exact ⟨c_eq, quoteTitle t ++ c_pipe :: R, rfl, by decide⟩

/-- the qualifier parser on a rendered qualifier: the instance `instOf` names, and (when the option
can have instances) exactly the rendered length -/
theorem pathQual_render (o : Opt) (q : Qual) (R : Bytes) (len : Nat) (hq : q.ok) :
    (pathQual o (q.render ++ c_pipe :: R) len).1 = instOf o q.text ∧
    ((pathQual o (q.render ++ c_pipe :: R) len).1 ≥ 0 → (pathQual o (q.render ++ c_pipe :: R) len).2 = len + q.render.length) := by
  cases q with
  | none =>
    simp [pathQual, Qual.render, Qual.text, instOf]
  | plain t =>
    obtain ⟨h1, h2, h3⟩ := hq
    have hp := (C11_plain_title t R h1 h2 h3).1
    unfold pathQual
    simp only [Qual.render, Qual.text, instOf, List.cons_append, List.head?_cons, bne_self_eq_false, Bool.false_eq_true, if_false,
      List.drop_succ_cons, List.drop_zero, hp, List.length_cons]
    by_cases hm : o.flags.multi = true
    · simp only [hm, Bool.not_true, Bool.false_eq_true, if_false]
      by_cases ht : o.flags.title = true
      · simp only [ht, if_true]
        exact ⟨by cases gettsecidx o t <;> rfl, fun _ => by omega⟩
      · simp only [ht, Bool.false_eq_true, if_false]
        exact ⟨trivial, fun _ => by omega⟩
    · simp [hm]
  | quoted t =>
    have hp := C11_title_roundtrip t (c_pipe :: R)
    unfold pathQual
    simp only [Qual.render, Qual.text, instOf, List.cons_append, List.head?_cons, bne_self_eq_false, Bool.false_eq_true, if_false,
      List.drop_succ_cons, List.drop_zero, hp, List.length_cons]
    by_cases hm : o.flags.multi = true
    · simp only [hm, Bool.not_true, Bool.false_eq_true, if_false]
      by_cases ht : o.flags.title = true
      · simp only [ht, if_true]
        exact ⟨by cases gettsecidx o t <;> rfl, fun _ => by omega⟩
      · simp only [ht, Bool.false_eq_true, if_false]
        exact ⟨trivial, fun _ => by omega⟩
    · simp [hm]

theorem pathInst_nonneg (o : Opt) (i : Int) (x : Nat × Cfg) (h : pathInst o i = some x) : i ≥ 0 := by
  unfold pathInst at h
  split at h
  · rename_i hc
    simp only [Bool.and_eq_true, decide_eq_true_eq] at hc
    exact hc.1
  · simp at h


theorem drop_append_len (a b r : Bytes) : (a ++ b ++ r).drop (a.length + b.length) = r := by
  rw [← List.length_append]
  simp

theorem secidx_walk : ∀ (steps : List PStep) (fuel : Nat) (c : Cfg) (acc : List (Nat × Nat)) (lo : Option OptRef) (li : Int) (leaf : Bytes),
    plainName leaf → (∀ s ∈ steps, plainName s.name ∧ s.qual.ok) → fuel ≥ steps.length + 1 →
    (secidxLoop false fuel c acc lo li (renderPath steps leaf)).ref = walk c acc steps leaf := by
  intro steps
  induction steps with
  | nil =>
    intro fuel c acc lo li leaf hleaf _ hfuel
    obtain ⟨k, rfl⟩ : ∃ k, fuel = k + 1 := ⟨fuel - 1, by simp at hfuel; omega⟩
    obtain ⟨hne, hs⟩ := hleaf
    have he : leaf.isEmpty = false := by cases leaf <;> simp_all
    simp only [renderPath, walk]
    rw [secidxLoop]
    simp only [he, Bool.false_eq_true, if_false, takeWhile_plain leaf hs, List.drop_length, List.isEmpty_nil, Bool.not_false, Bool.and_self, if_true]
    cases hg : getoptLeaf c leaf <;> simp
  | cons s ss ih =>
    intro fuel c acc lo li leaf hleaf hss hfuel
    obtain ⟨k, rfl⟩ : ∃ k, fuel = k + 1 := ⟨fuel - 1, by simp at hfuel; omega⟩
    have hk : k ≥ ss.length + 1 := by simp at hfuel; omega
    obtain ⟨⟨hne, hs⟩, hq⟩ := hss s (by simp)
    have hss' : ∀ s' ∈ ss, plainName s'.name ∧ s'.qual.ok := fun s' h => hss s' (by simp [h])
    obtain ⟨x, xs, hX, hx⟩ := qual_tail_sep s.qual (renderPath ss leaf)
    obtain ⟨r0, rs, hR, hr0⟩ := renderPath_head ss leaf hleaf (fun s' h => (hss' s' h).1)
    have hname : renderPath (s :: ss) leaf = s.name ++ (s.qual.render ++ c_pipe :: renderPath ss leaf) := by
      simp [renderPath]
    have hnil : (renderPath (s :: ss) leaf).isEmpty = false := by
      rw [hname]; cases hn : s.name <;> simp_all
    have htw : (renderPath (s :: ss) leaf).takeWhile (fun c => !isSep c) = s.name := by
      rw [hname, hX]; exact takeWhile_name s.name xs x hs hx
    have hafter : (renderPath (s :: ss) leaf).drop s.name.length = s.qual.render ++ c_pipe :: renderPath ss leaf := by
      rw [hname]; simp
    have hlen0 : (s.name.length == 0) = false := by cases hn : s.name <;> simp_all
    simp only [walk]
    rw [secidxLoop]
    simp only [hnil, Bool.false_eq_true, if_false, htw, hafter, hlen0]
    have hae : (s.qual.render ++ c_pipe :: renderPath ss leaf).isEmpty = false := by rw [hX]; rfl
    simp only [hae, Bool.and_false, Bool.false_eq_true, if_false]
    cases hpo : pathOpt c s.name with
    | none => rfl
    | some oo =>
      obtain ⟨oi, o⟩ := oo
      simp only []
      obtain ⟨hq1, hq2⟩ := pathQual_render o s.qual (renderPath ss leaf) s.name.length hq
      rw [hq1]
      cases hpi : pathInst o (instOf o s.qual.text) with
      | none => rfl
      | some is =>
        obtain ⟨ii, sub⟩ := is
        simp only []
        have hge := pathInst_nonneg o _ _ hpi
        have hq2' := hq2 (by rw [hq1]; exact hge)
        rw [hq2']
        have hdrop : (renderPath (s :: ss) leaf).drop (s.name.length + s.qual.render.length) = c_pipe :: renderPath ss leaf := by
          rw [hname, ← List.append_assoc]
          exact drop_append_len s.name s.qual.render _
        rw [hdrop]
        have hseps : ((c_pipe :: renderPath ss leaf).takeWhile (· == c_pipe)).length = 1 := by
          rw [hR]
          have : r0 ≠ c_pipe := by
            intro e; subst e; simp [isSep] at hr0
          simp [this]
        simp only [hseps, Bool.false_and, Bool.false_eq_true, if_false, List.drop_succ_cons, List.drop_zero]
        exact ih k sub (acc ++ [(oi, ii)]) (some ⟨acc, oi⟩) (instOf o s.qual.text) leaf hleaf hss' hk

/-- **C11 (paths are step-by-step navigation).** For every path — any number of steps, each a
section name with no qualifier, a plain qualifier (index or simple title) or a quoted title of
arbitrary bytes, then an option name — the resolver returns exactly what navigating one level at a
time with the single-level accessors returns (the same option of the same section instance, or
nothing). -/
theorem C11_resolve (c : Cfg) (steps : List PStep) (leaf : Bytes)
    (hleaf : plainName leaf) (hsteps : ∀ s ∈ steps, plainName s.name ∧ s.qual.ok)
    (hkv : c.flags.keystrval = false) :     -- in a free-form section a key of exactly that spelling comes first (keyFirst)
    (getoptPath c (renderPath steps leaf)).ref = walk c [] steps leaf := by
  unfold getoptPath getoptSecidx
  have hkf : keyFirst c (renderPath steps leaf) false = none := by simp [keyFirst, hkv]
  rw [hkf]
  obtain ⟨r0, rs, hR, _⟩ := renderPath_head steps leaf hleaf (fun s h => (hsteps s h).1)
  have hne : (renderPath steps leaf).isEmpty = false := by rw [hR]; rfl
  simp only [hne, Bool.false_eq_true, if_false]
  have hlen : (renderPath steps leaf).length + 1 ≥ steps.length + 1 := by
    have : ∀ (ss : List PStep) (l : Bytes), (renderPath ss l).length ≥ ss.length := by
      intro ss l
      induction ss with
      | nil => simp
      | cons a as ih => simp [renderPath]; omega
    have := this steps leaf
    omega
  have h := secidx_walk steps _ c [] none (-1) leaf hleaf hsteps hlen
  split <;> simpa using h


open Confuse.Spec in
/-- a decimal index reads back as the number -/
theorem strtol_decDigits (n : Nat) (hn : n ≤ 9223372036854775807) : strtolC (decDigits n) 0 = ⟨(n : Int), [], false⟩ := by
  obtain ⟨h1, h2, c, cs, h3, h4, h5, h6⟩ := decDigits_spec n
  have hc10 : digitVal c < 10 := by
    have := h1; rw [h3] at this
    simp only [allDigits, List.all_cons, Bool.and_eq_true, decide_eq_true_eq] at this; exact this.1
  obtain ⟨hs, hm, hp, _⟩ := digit_not_space_sign c 10 (by omega) hc10
  unfold strtolC
  rw [h3, dropWhile_space_digit c cs hs, splitSign_digit c cs hm hp]
  by_cases h0 : n = 0
  · subst h0
    have : decDigits 0 = [48] := by rw [decDigits]; simp
    rw [this] at h3
    simp only [List.cons.injEq] at h3
    obtain ⟨rfl, rfl⟩ := h3
    decide
  · have hc : c ≠ 48 := h4 (by omega)
    have hhex : hexPrefix 0 (c :: cs) = false := by
      unfold hexPrefix
      cases cs with
      | nil => simp
      | cons d ds => cases ds <;> simp [hc]
    rw [h3] at h1 h2
    have hsc : (some c == some 48) = false := by simp [hc]
    simp [hhex, hsc]
    rw [strtolCore_all false 10 _ (c :: cs) (by simp) h1, h2]
    have : ¬ (n > 9223372036854775807) := by omega
    simp [this]

/-- on an untitled multi section a decimal qualifier selects that instance number -/
theorem instOf_index (o : Opt) (n : Nat) (hm : o.flags.multi = true) (ht : o.flags.title = false) (hn : n ≤ 9223372036854775807) :
    instOf o (some (decDigits n)) = (n : Int) := by
  simp [instOf, hm, ht, strtol_decDigits n hn]

end Confuse

namespace Confuse
/-! ### non-vacuity: a three-level path through a titled and an indexed section -/
private def exD : List Decl :=
  [ .mk { name := [97], ty := .sec } { multi := true, title := true }
      [ .mk { name := [98], ty := .sec } { multi := true }
          [ .mk { name := [120], ty := .int, defInt := 1 } {} [] ] ] ]
-- one instance of `a` titled `it's`, holding two instances of `b`
private def exB : Opt := .mk { name := [98], ty := .sec } { multi := true } [ .mk { name := [120], ty := .int, defInt := 1 } {} [] ]
    [ .sec (mkSection { name := [97] } (.mk { name := [98], ty := .sec } { multi := true } [ .mk { name := [120], ty := .int, defInt := 1 } {} [] ] [] none) none),
      .sec (mkSection { name := [97] } (.mk { name := [98], ty := .sec } { multi := true } [ .mk { name := [120], ty := .int, defInt := 1 } {} [] ] [] none) none) ] none
private def exC : Cfg :=
  .mk { name := rootName }
    [ .mk { name := [97], ty := .sec } { multi := true, title := true } []
        [ .sec (.mk { name := [97], title := some [105, 116, 39, 115] } [exB]) ] none ]
private def exSteps : List PStep := [ ⟨[97], .quoted [105, 116, 39, 115]⟩, ⟨[98], .plain [49]⟩ ]

example : (getoptPath exC (renderPath exSteps [120])).ref = some ⟨[(0, 0), (0, 1)], 0⟩ := by decide +kernel
example : walk exC [] exSteps [120] = some ⟨[(0, 0), (0, 1)], 0⟩ := by decide +kernel
example : renderPath exSteps [120] = [97, 61, 39, 105, 116, 92, 39, 115, 39, 124, 98, 61, 49, 124, 120] := by decide +kernel
end Confuse
