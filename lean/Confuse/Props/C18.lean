import Confuse.Model.Fault
import Confuse.Props.C09
/-!
# C18 — running out of memory yields an error return, not corruption (store-level operations)

For every option state and EVERY position `k` of the failing allocation request the modelled calls
either complete — then they are exactly the fault-free operation — or report failure, and in both
cases the option stays well-formed (every cell has the option's type; a string cell may be NULL),
hence queryable, printable and releasable.
-/
namespace Confuse

theorem cellsOk_append (o : Opt) (v : Val) (f : Flags) (c : Option Bytes) (h : cellsOk o = true)
    (hv : (match o.ty, v with
      | .int, .int _ => true | .float, .flt _ => true | .bool, .bool _ => true | .str, .str _ => true
      | .ptr, .ptr _ => true | .sec, .sec _ => true | _, _ => false) = true) :
    cellsOk (.mk o.info f o.subs (o.vals ++ [v]) c) = true := by
  obtain ⟨i, fl, s, vs, cm⟩ := o
  simp only [cellsOk, Opt.vals, Opt.ty, Opt.info, List.all_append, List.all_cons, List.all_nil, Bool.and_true, Bool.and_eq_true] at h hv ⊢
  exact ⟨h, hv⟩

/-- **C18 (`cfg_addval`).** Whichever of its two requests fails, the option is exactly as before and
failure is reported; without a failure the cell is appended. -/
theorem C18_addval (o : Opt) (cell : Val) (fail : Option Nat) :
    ((addvalF o cell fail).ok = false → (addvalF o cell fail).opt = o ∧ (fail = some 0 ∨ fail = some 1)) ∧
    ((addvalF o cell fail).ok = true → (addvalF o cell fail).opt.vals = o.vals ++ [cell] ∧ fail ≠ some 0 ∧ fail ≠ some 1) := by
  unfold addvalF
  by_cases h0 : fail = some 0
  · subst h0; simp
  · by_cases h1 : fail = some 1
    · subst h1; simp
    · have e0 : (fail == some 0) = false := by simpa using h0
      have e1 : (fail == some 1) = false := by simpa using h1
      simp [e0, e1, Opt.vals, h0, h1]

/-- **C18 (no fault = the ordinary operation).** -/
theorem C18_setnNum_nofault (o : Opt) (v : Val) (i : Nat) :
    (setnNumF o v i none).opt = (setnVal o v i).1 ∧ (setnNumF o v i none).ok = (setnVal o v i).2.1 := by
  unfold setnNumF setnVal addvalF dropDefaults
  by_cases hidx : (i != 0 && !o.flags.list && !o.flags.multi) = true
  · simp [hidx]
  · simp only [hidx, Bool.false_eq_true, if_false]
    by_cases hr : o.flags.reset = true
    · simp only [hr, if_true]
      by_cases hi : i ≥ ((freeValue o).1.setFlags { (freeValue o).1.flags with reset := false }).vals.length <;> simp [hi]
    · simp only [hr, Bool.false_eq_true, if_false]
      by_cases hi : i ≥ o.vals.length <;> simp [hi]

/-- **C18 (numeric setters).** For every `k`: failure is reported only when one of the (at most two)
requests failed, and then the only change is that pristine defaults were dropped — every remaining
cell still has the option's type. -/
theorem C18_setnNum (o : Opt) (v : Val) (i : Nat) (fail : Option Nat) (hwf : cellsOk o = true)
    (hv : (match o.ty, v with
      | .int, .int _ => true | .float, .flt _ => true | .bool, .bool _ => true | .str, .str _ => true
      | .ptr, .ptr _ => true | .sec, .sec _ => true | _, _ => false) = true)
    (hidx : i = 0 ∨ o.flags.list = true ∨ o.flags.multi = true) :
    ((setnNumF o v i fail).ok = false → (setnNumF o v i fail).opt = (dropDefaults o).1 ∧ (fail = some 0 ∨ fail = some 1)) ∧
    (setnNumF o v i fail).allocs ≤ 2 := by
  unfold setnNumF
  have hn : (i != 0 && !o.flags.list && !o.flags.multi) = false := by
    rcases hidx with h | h | h <;> simp [h]
  simp only [hn, Bool.false_eq_true, if_false]
  by_cases hi : i ≥ (dropDefaults o).1.vals.length
  · simp only [hi, if_true]
    have ha := C18_addval (dropDefaults o).1 v fail
    by_cases hok : (addvalF (dropDefaults o).1 v fail).ok = true
    · simp only [hok, if_true]
      refine ⟨by intro h; simp at h, ?_⟩
      unfold addvalF; repeat' split
      all_goals simp
    · have hok' : (addvalF (dropDefaults o).1 v fail).ok = false := by simpa using hok
      simp only [hok', Bool.false_eq_true, if_false]
      refine ⟨fun _ => ha.1 hok', ?_⟩
      unfold addvalF; repeat' split
      all_goals simp
  · simp [hi]

/-- **C18 (`cfg_opt_setcomment`).** -/
theorem C18_setcomment (o : Opt) (c : Bytes) (fail : Option Nat) :
    ((setcommentF o c fail).ok = false → (setcommentF o c fail).opt = o) ∧
    ((setcommentF o c fail).ok = true → (setcommentF o c fail).opt.comment = some c ∧ (setcommentF o c fail).opt.vals = o.vals) := by
  unfold setcommentF
  by_cases h : (fail == some 0) = true <;> simp [h, Opt.comment, Opt.vals]

/-- **C18 (string setter: no dangling or half-built cell).** After `cfg_opt_setnstr` with any failing
request every cell of a string option is still a string cell (possibly NULL): the new cell exists
only as a NULL string, never as a freed or uninitialised one. -/
theorem C18_setnStr_wellformed (o : Opt) (s : Option Bytes) (i : Nat) (fail : Option Nat)
    (hty : o.ty = .str) (hwf : cellsOk o = true) (hr : o.flags.reset = false) :
    cellsOk (setnStrF o s i fail).opt = true := by
  have hdd : (dropDefaults o).1 = o := by simp [dropDefaults, hr]
  have set_ok : ∀ (o' : Opt) (f : Flags) (k : Nat) (b : Option Bytes), o'.ty = .str → cellsOk o' = true →
      cellsOk (.mk o'.info f o'.subs (listSet o'.vals k (.str b)) o'.comment) = true := by
    intro o' f k b ht hw
    obtain ⟨inf, fl, sb, vs, cm⟩ := o'
    simp only [cellsOk, Opt.vals, Opt.ty, Opt.info] at ht hw ⊢
    rw [List.all_eq_true] at hw ⊢
    intro x hx
    induction vs generalizing k with
    | nil => simp [listSet] at hx
    | cons a as ih =>
      cases k with
      | zero =>
        simp only [listSet, List.mem_cons] at hx
        rcases hx with rfl | hx
        · simp [ht]
        · exact hw x (by simp [hx])
      | succ n =>
        simp only [listSet, List.mem_cons] at hx
        rcases hx with rfl | hx
        · exact hw _ (by simp)
        · exact ih n (fun y hy => hw y (by simp [hy])) hx
  unfold setnStrF
  simp only []
  by_cases hA : ((if s.isSome = true then 1 else 0) == 1 && fail == some 0) = true
  · simp only [hA, if_true]; exact hwf
  · simp only [hA, Bool.false_eq_true, if_false]
    by_cases hB : (i != 0 && !o.flags.list && !o.flags.multi) = true
    · simp only [hB, if_true]; exact hwf
    · simp only [hB, Bool.false_eq_true, if_false, hdd]
      have happ : ∀ f c, cellsOk (.mk o.info f o.subs (o.vals ++ [.str s]) c) = true :=
        fun f c => cellsOk_append o (.str s) f c hwf (by simp [hty])
      by_cases hneed : i ≥ o.vals.length
      · simp only [hneed, decide_true, if_true]
        unfold addvalF
        by_cases h0 : (shiftFail fail (if s.isSome = true then 1 else 0) == some 0) = true
        · simp only [h0, if_true, Bool.not_false, if_true]; exact hwf
        · by_cases h1 : (shiftFail fail (if s.isSome = true then 1 else 0) == some 1) = true
          · simp only [h0, h1, Bool.false_eq_true, if_false, if_true, Bool.not_false]; exact hwf
          · simp only [h0, h1, Bool.false_eq_true, if_false, Bool.not_true]
            have hty' : (Opt.mk o.info { o.flags with modified := true } o.subs (o.vals ++ [.str s]) o.comment).ty = .str := by
              simpa [Opt.ty, Opt.info] using hty
            exact set_ok _ _ _ _ hty' (happ _ _)
      · simp only [hneed, decide_false, Bool.false_eq_true, if_false, Bool.not_true]
        exact set_ok o _ _ _ hty hwf


/-- **C18 (`cfg_setopt` from text, plain options).** For EVERY position `k` of the failing request:
(1) the call completes exactly when no request of its own failed, and then the option is the one the fault-free
call produces; (2) since fix F42 the text is copied before the option is touched, so when that first request
fails NOTHING has changed - not even the pristine defaults are gone; (3) a later failure (while the value cell is
added) reports failure with the defaults dropped and nothing else changed. -/
theorem C18_setopt_plain (o : Opt) (cv : Conv) (fail : Option Nat) :
    ((setoptPlainF o cv fail).ok = true → (setoptPlainF o cv fail).opt = (setoptPlainF o cv none).opt) ∧
    ((∃ s, cv = .str s) → fail = some 0 → (setoptPlainF o cv fail).ok = false ∧ (setoptPlainF o cv fail).opt = o) ∧
    ((setoptPlainF o cv fail).ok = false → (setoptPlainF o cv fail).opt = o ∨ (setoptPlainF o cv fail).opt = (dropDefaults o).1) := by
  unfold setoptPlainF
  refine ⟨?_, ?_, ?_⟩
  · intro hok
    cases cv <;> simp only [] at hok ⊢
    all_goals (
      repeat' split at hok
      all_goals first
        | (simp at hok; done)
        | skip)
    all_goals (
      simp only [shiftFail, addvalF] at *
      repeat' split
      all_goals first
        | rfl
        | simp_all)
  · rintro ⟨s, rfl⟩ hf
    subst hf
    simp
  · intro hok
    cases cv <;> simp only [] at hok ⊢
    all_goals (
      simp only [shiftFail, addvalF] at *
      repeat' split at hok
      all_goals first
        | (simp at hok; done)
        | skip)
    all_goals (
      repeat' split
      all_goals first
        | (left; rfl)
        | (right; rfl)
        | simp_all)

/-! ## list set / append -/

theorem addvalF_ok (o : Opt) (c : Val) (fail : Option Nat) (h : (addvalF o c fail).ok = true) :
    addvalF o c fail = addvalF o c none := by
  unfold addvalF at h ⊢
  by_cases h0 : (fail == some 0) = true
  · simp [h0] at h
  · by_cases h1 : (fail == some 1) = true
    · simp [h0, h1] at h
    · simp [h0, h1]

theorem setnNumF_ok (o : Opt) (v : Val) (i : Nat) (fail : Option Nat) (h : (setnNumF o v i fail).ok = true) :
    (setnNumF o v i fail).opt = (setnNumF o v i none).opt := by
  unfold setnNumF at h ⊢
  by_cases hi : (i != 0 && !o.flags.list && !o.flags.multi) = true
  · simp [hi] at h
  · simp only [hi, Bool.false_eq_true, if_false] at h ⊢
    by_cases hn : i ≥ (dropDefaults o).1.vals.length
    · simp only [hn, if_true] at h ⊢
      have hok : (addvalF (dropDefaults o).1 v fail).ok = true := by
        by_cases hh : (addvalF (dropDefaults o).1 v fail).ok = true
        · exact hh
        · simp [hh] at h
      rw [addvalF_ok _ _ _ hok]
    · simp [hn]

theorem setnStrF_ok (o : Opt) (s : Option Bytes) (i : Nat) (fail : Option Nat) (h : (setnStrF o s i fail).ok = true) :
    (setnStrF o s i fail).opt = (setnStrF o s i none).opt := by
  have hsn : ∀ n, shiftFail none n = none := fun _ => rfl
  unfold setnStrF at h ⊢
  simp only [] at h ⊢
  by_cases hA : ((if s.isSome = true then 1 else 0) == 1 && fail == some 0) = true
  · simp [hA] at h
  · have hA0 : ((if s.isSome = true then 1 else 0) == 1 && (none : Option Nat) == some 0) = false := by simp
    simp only [hA, hA0, Bool.false_eq_true, if_false] at h ⊢
    by_cases hB : (i != 0 && !o.flags.list && !o.flags.multi) = true
    · simp [hB] at h
    · simp only [hB, Bool.false_eq_true, if_false, hsn] at h ⊢
      by_cases hn : i ≥ (dropDefaults o).1.vals.length
      · simp only [hn, decide_true, if_true] at h ⊢
        by_cases hok : (addvalF (dropDefaults o).1 (.str s) (shiftFail fail (if s.isSome = true then 1 else 0))).ok = true
        · rw [addvalF_ok _ _ _ hok]
        · simp [hok] at h
      · simp only [hn, decide_false, Bool.false_eq_true, if_false]

theorem setnStrF_none_ok (o : Opt) (s : Option Bytes) (i : Nat) (h : (i != 0 && !o.flags.list && !o.flags.multi) = false) :
    (setnStrF o s i none).ok = true := by
  unfold setnStrF
  have hA0 : ((if s.isSome = true then 1 else 0) == 1 && (none : Option Nat) == some 0) = false := by simp
  simp only [hA0, h, Bool.false_eq_true, if_false]
  by_cases hn : i ≥ (dropDefaults o).1.vals.length <;> simp [hn, addvalF, shiftFail]

theorem setnStrF_ok_idx (o : Opt) (s : Option Bytes) (i : Nat) (fail : Option Nat) (h : (setnStrF o s i fail).ok = true) :
    (i != 0 && !o.flags.list && !o.flags.multi) = false := by
  unfold setnStrF at h
  simp only [] at h
  by_cases hA : ((if s.isSome = true then 1 else 0) == 1 && fail == some 0) = true
  · simp [hA] at h
  · simp only [hA, Bool.false_eq_true, if_false] at h
    by_cases hi : (i != 0 && !o.flags.list && !o.flags.multi) = true
    · simp [hi] at h
    · simpa using hi

theorem addOneF_ok (o : Opt) (v : Val) (fail : Option Nat) (h : (addOneF o v fail).ok = true) :
    (addOneF o v fail).opt = (addOneF o v none).opt := by
  cases v <;> first | exact setnNumF_ok _ _ _ _ h | exact setnStrF_ok _ _ _ _ h

theorem setnNumF_none_ok (o : Opt) (v : Val) (i : Nat) (h : (i != 0 && !o.flags.list && !o.flags.multi) = false) :
    (setnNumF o v i none).ok = true := by
  unfold setnNumF
  simp only [h, Bool.false_eq_true, if_false]
  by_cases hn : i ≥ (dropDefaults o).1.vals.length <;> simp [hn, addvalF]

theorem setnNumF_ok_idx (o : Opt) (v : Val) (i : Nat) (fail : Option Nat) (h : (setnNumF o v i fail).ok = true) :
    (i != 0 && !o.flags.list && !o.flags.multi) = false := by
  unfold setnNumF at h
  by_cases hi : (i != 0 && !o.flags.list && !o.flags.multi) = true
  · simp [hi] at h
  · simpa using hi

theorem addOneF_ok_none (o : Opt) (v : Val) (fail : Option Nat) (h : (addOneF o v fail).ok = true) : (addOneF o v none).ok = true := by
  cases v <;> first
    | exact setnNumF_none_ok _ _ _ (setnNumF_ok_idx _ _ _ _ h)
    | exact setnStrF_none_ok _ _ _ (setnStrF_ok_idx _ _ _ _ h)

/-- **C18 (`cfg_setlist` / `cfg_addlist`: completes or reports failure).** For EVERY position of the failing request and
any number of elements: if the call reports success, the option is exactly what the fault-free call produces. -/
theorem C18_addlist_completes (vs : List Val) : ∀ (o : Opt) (fail : Option Nat),
    (addlistF o vs fail).ok = true → (addlistF o vs fail).opt = (addlistF o vs none).opt := by
  induction vs with
  | nil => intro o fail _; rfl
  | cons v vs ih =>
    intro o fail h
    simp only [addlistF] at h ⊢
    by_cases hok : (addOneF o v fail).ok = true
    · have hnone : (addOneF o v none).ok = true := addOneF_ok_none o v fail hok
      simp only [hok, hnone, Bool.not_true, Bool.false_eq_true, if_false] at h ⊢
      rw [addOneF_ok o v fail hok] at h ⊢
      have := ih (addOneF o v none).opt (shiftFail fail (addOneF o v fail).allocs) h
      rw [this]
      have hsn : ∀ n, shiftFail none n = none := fun _ => rfl
      rw [hsn]
    · simp [hok] at h

end Confuse
