import Confuse.Props.C05F
/-!
# C01 — free-form sections: a key is any string, and a repeated key is the same option

In a `CFGF_KEYSTRVAL` context the parser adds an option for a name it does not find (state 0 of the token machine,
`cfg_addopt`).  Whatever bytes the key consists of - also ones that look like a path (`a|b`, `x=1`) - the option just
added is what the next lookup of that key returns, silently: so a repeated key assigns to the same option ("a repeated
scalar keeps the last value") instead of adding a second one (fix F49).
-/
namespace Confuse

theorem findOptIdx_none (nc : Bool) (name : Bytes) : ∀ (os : List Opt) (k : Nat), findOptIdx nc name os k = none →
    ∀ p ∈ os, titleEq nc p.name name = false := by
  intro os
  induction os with
  | nil => intro k _ p hp; cases hp
  | cons o os ih =>
    intro k h p hp
    simp only [findOptIdx] at h
    split at h
    · cases h
    · rename_i hne
      rcases List.mem_cons.mp hp with rfl | hp
      · simpa using hne
      · exact ih (k + 1) h p hp

/-- **C01 (free-form keys).** For every non-empty key: once added, the key resolves to exactly the added option. -/
theorem C01_freeform_key_refound (c : Cfg) (name : Bytes) (hne : name ≠ []) (hkv : c.flags.keystrval = true)
    (hnew : getoptLeaf c name = none) :
    (getoptPath (c.setOpts (c.opts ++ [Opt.mk { name := name, ty := .str } {} [] [] none])) name).ref = some ⟨[], c.opts.length⟩ ∧
    (getoptPath (c.setOpts (c.opts ++ [Opt.mk { name := name, ty := .str } {} [] [] none])) name).diags = [] := by
  have hall := findOptIdx_none c.flags.nocase name c.opts 0 hnew
  have hfl : (c.setOpts (c.opts ++ [Opt.mk { name := name, ty := .str } {} [] [] none])).flags = c.flags := by cases c; rfl
  have hl : getoptLeaf (c.setOpts (c.opts ++ [Opt.mk { name := name, ty := .str } {} [] [] none])) name = some c.opts.length := by
    unfold getoptLeaf
    rw [hfl]
    have : (c.setOpts (c.opts ++ [Opt.mk { name := name, ty := .str } {} [] [] none])).opts = c.opts ++ (Opt.mk { name := name, ty := .str } {} [] [] none) :: [] := by
      cases c; rfl
    rw [this, findOptIdx_skip _ _ c.opts _ [] 0 hall (titleEq_refl _ _)]
    simp
  have he : name.isEmpty = false := by cases name <;> simp_all
  unfold getoptPath getoptSecidx
  simp only [he, Bool.false_eq_true, if_false, keyFirst, hfl, hkv, Bool.not_false, Bool.and_self, if_true, hl]
  simp

/-- the key found again is the option the next `=` assigns to: a context in which the key exists resolves it, whatever
the key looks like -/
theorem C01_freeform_key_found (c : Cfg) (name : Bytes) (hne : name ≠ []) (hkv : c.flags.keystrval = true) (i : Nat)
    (h : getoptLeaf c name = some i) : (getoptPath c name).ref = some ⟨[], i⟩ ∧ (getoptPath c name).diags = [] := by
  have he : name.isEmpty = false := by cases name <;> simp_all
  unfold getoptPath getoptSecidx
  simp only [he, Bool.false_eq_true, if_false, keyFirst, hkv, Bool.not_false, Bool.and_self, if_true, h]
  simp

/-- non-vacuity: the key `a|b` in an empty free-form section -/
example : (getoptPath ((Cfg.mk { name := [115], flags := { keystrval := true } } []).setOpts
    ([] ++ [Opt.mk { name := [97, 124, 98], ty := .str } {} [] [] none])) [97, 124, 98]).ref = some ⟨[], 0⟩ := by decide

end Confuse
