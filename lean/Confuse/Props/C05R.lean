import Confuse.Props.C05T
/-!
# C05 — configurations of ANY depth (untitled multi sections and single sections), token level

The development of `C05S` with the body of a section abstracted: what the tokens of an option list do to a frame holding
the declared counterparts (`BodySteps`) is assumed for section bodies and proved for the option list around them; the
recursion over the nesting depth closes the loop.
-/
namespace Confuse

/-- what the tokens `ts` of an option list `os` (relation `P`) do to ANY frame whose options `os0` are the declared
counterparts (relation `A`, which includes the distinctness of names under the frame's case rule): the machine ends at an
item boundary of the same frame, the options related to the printed ones by `R` -/
def BodySteps (orc : Oracle) (P : List Opt → List (Tok × Nat) → Prop) (A : Bool → List Opt → List Opt → Prop)
    (R : List Opt → List Opt → Prop) : Prop :=
  ∀ (os os0 : List Opt) (ts : List (Tok × Nat)) (m : PM) (f : Frame) (rest : List Frame),
    P os ts → A f.cfg.flags.nocase os os0 → m.status = .running → m.frames = f :: rest → AtItem f → f.opttitle = none →
    f.cfg.opts = os0 →
    ∃ f' done md, parseToks orc m ts = { m with frames := f' :: rest, maxDepth := md } ∧ AtItem f' ∧ f'.opttitle = none ∧
      f'.level = f.level ∧ f'.back = f.back ∧ f'.cfg.opts = done ∧ f'.cfg.flags = f.cfg.flags ∧ R done os

/-- the flat case: `flat_steps` -/
theorem bodySteps_flat (orc : Oracle) :
    BodySteps orc FlatToks (fun nc os os0 => All2 Aligned os os0 ∧ List.Pairwise (fun a b => titleEq nc a.name b.name = false) os)
      (fun done os => All2 (fun r o => r.vals = o.vals) done os) := by
  intro os os0 ts m f rest hP hA hrun hfr hat hot hopts
  obtain ⟨f', done, e, hat', hlev, hbk, hot', ho, hfl, _, hv, _⟩ :=
    flat_steps orc os os0 ts m f rest [] hP hA.1 hrun hfr hat (by simpa using hopts) (by intro p hp; cases hp) hA.2
  exact ⟨f', done, m.maxDepth, by simpa using e, hat', by rw [hot']; exact hot, hlev, hbk, by simpa using ho, hfl, hv⟩

/-- **one printed instance of an untitled multi section, any body.** -/
theorem section_item_gen (orc : Oracle) {P : List Opt → List (Tok × Nat) → Prop} {A : Bool → List Opt → List Opt → Prop}
    {R : List Opt → List Opt → Prop} (hbs : BodySteps orc P A R) (m : PM) (f : Frame) (rest : List Frame) (o0 : Opt) (pre post : List Opt) (c : Cfg)
    (body : List (Tok × Nat)) (n1 n2 n3 : Nat)
    (hrun : m.status = .running) (hfr : m.frames = f :: rest) (hat : AtItem f) (hot : f.opttitle = none)
    (hopts : f.cfg.opts = pre ++ o0 :: post)
    (hpre : ∀ p ∈ pre, titleEq f.cfg.flags.nocase p.name o0.name = false)
    (hd : SecDecl o0) (hbody : P c.opts body)
    (hal : ∀ ci, A f.cfg.flags.nocase c.opts (mkSection ci o0 none).opts) :
    ∃ f' res s' md, parseToks orc m ([(.str o0.name, n1), (.lbrace, n2)] ++ body ++ [(.rbrace, n3)]) =
        { m with frames := f' :: rest, maxDepth := md } ∧
      AtItem f' ∧ f'.opttitle = none ∧ f'.level = f.level ∧ f'.back = f.back ∧
      f'.cfg.opts = pre ++ res :: post ∧ f'.cfg.flags = f.cfg.flags ∧
      res = Opt.mk o0.info { o0.flags with modified := true } o0.subs (o0.vals ++ [.sec s']) o0.comment ∧
      R s'.opts c.opts := by
  let r : OptRef := ⟨[], pre.length⟩
  have hlook := getoptPath_top f.cfg o0.name pre o0 post hd.name hopts hpre (titleEq_refl _ _)
  have hget := getOpt_top f.cfg pre o0 post hopts
  let mk : Frame → PM := fun F => { m with frames := F :: rest }
  let F1 : Frame := { f with cfg := f.cfg.setLine (f.cfg.line + n1), opt := some r, state := .s5 }
  have e1 : pstep orc m (.str o0.name) n1 = mk F1 :=
    pstep_name_sec orc m f rest o0.name n1 r o0 hrun hfr hat.st hat.nd hlook.1 hlook.2 hget hd.sec.1 hd.notitle
  have g1 : F1.cfg.getOpt r = some o0 := by show (f.cfg.setLine _).getOpt r = some o0; rw [getOpt_setLine]; exact hget
  let S := mkSection (F1.cfg.setLine (F1.cfg.line + n2)).info o0 none
  let P : Cfg := (F1.cfg.setLine (F1.cfg.line + n2)).setOpt r (o0.withInstance S)
  let child : Frame := { cfg := newInstance P o0, level := f.level + 1, back := some (r, o0.vals.length) }
  let F2 : Frame := { F1 with cfg := P, opttitle := none }
  let m2 : PM := { m with frames := child :: F2 :: rest, maxDepth := max m.maxDepth (rest.length + 2) }
  have e2 : pstep orc (mk F1) .lbrace n2 = m2 := by
    have := pstep_lbrace_sec orc (mk F1) F1 rest n2 r o0 hrun rfl rfl rfl hot g1 hd.sec hd.multi hd.notitle
    rw [this]
  have hPflags : P.flags = f.cfg.flags := by
    show ((F1.cfg.setLine _).setOpt r _).flags = f.cfg.flags
    rw [setOpt_flags]
    have : ∀ (c : Cfg) (n : Nat), (c.setLine n).flags = c.flags := by intro c n; cases c; rfl
    rw [this, this]
  have hchild_nc : child.cfg.flags.nocase = f.cfg.flags.nocase := by
    show (newInstance P o0).flags.nocase = _
    rw [newInstance_nocase, hPflags]
  obtain ⟨ch', done, md3, e3, hat3, _, hlev3, hbk3, hopts3, _, hv3⟩ :=
    hbs c.opts (mkSection P.info o0 none).opts body m2 child (F2 :: rest) hbody
      (by rw [hchild_nc]; exact hal _) hrun rfl
      ⟨rfl, rfl, by intro r' o' hr' _; cases hr'⟩ rfl
      (by show (newInstance P o0).opts = _; rw [newInstance_opts])
  have gP : F2.cfg.getOpt r = some (o0.withInstance S) := getOpt_setOpt _ r o0 _ (by rw [getOpt_setLine]; exact g1)
  have e4 := pstep_rbrace_pop orc { m2 with frames := ch' :: F2 :: rest, maxDepth := md3 } ch' F2 rest n3 r o0.vals.length (o0.withInstance S)
    hrun rfl hat3.st (by rw [hlev3]; exact Nat.succ_ne_zero _) hat3.nd (by rw [hbk3]) rfl gP (by cases o0; exact hd.noValid)
  let chL := ch'.cfg.setLine (ch'.cfg.line + n3)
  let res : Opt := (o0.withInstance S).setVals (listSet (o0.withInstance S).vals o0.vals.length (.sec chL))
  refine ⟨{ F2 with cfg := (F2.cfg.setOpt r res).afterSection chL, state := .s0 }, res, chL, md3, ?_, ⟨rfl, hat.cm, ?_⟩, rfl, rfl, rfl, ?_, ?_, ?_, ?_⟩
  · simp only [parseToks, List.foldl_append, List.foldl]
    rw [e1, e2]
    have e3' : List.foldl (fun m (t : Tok × Nat) => pstep orc m t.1 t.2) m2 body = { m2 with frames := ch' :: F2 :: rest, maxDepth := md3 } := e3
    rw [e3', e4]
  · intro r' o' hr' ho'
    simp only at hr' ho'
    injection hr' with hr'; subst hr'
    rw [getOpt_afterSection, getOpt_setOpt _ _ _ _ gP] at ho'
    injection ho' with ho'; subst ho'
    cases o0; exact hd.notDep
  · simp only [Cfg.afterSection_opts]
    exact setOpt_top _ pre (o0.withInstance S) res post (by
      show ((F1.cfg.setLine _).setOpt r (o0.withInstance S)).opts = _
      exact setOpt_top _ pre o0 _ post (by simp only [opts_setLine]; exact hopts))
  · simp only [Cfg.afterSection_flags, setOpt_flags]; exact hPflags
  · show (o0.withInstance S).setVals (listSet (o0.vals ++ [.sec S]) o0.vals.length (.sec chL)) = _
    rw [listSet_append_length]
    cases o0; rfl
  · show R (ch'.cfg.setLine _).opts c.opts
    simp only [opts_setLine, hopts3]
    exact hv3

/-- **the printed instance of a single section, any body.** -/
theorem single_section_item_gen (orc : Oracle) {P : List Opt → List (Tok × Nat) → Prop} {A : Bool → List Opt → List Opt → Prop}
    {R : List Opt → List Opt → Prop} (hbs : BodySteps orc P A R) (m : PM) (f : Frame) (rest : List Frame) (o0 : Opt) (s0 : Cfg) (pre post : List Opt) (c : Cfg)
    (body : List (Tok × Nat)) (n1 n2 n3 : Nat)
    (hrun : m.status = .running) (hfr : m.frames = f :: rest) (hat : AtItem f) (hot : f.opttitle = none)
    (hopts : f.cfg.opts = pre ++ o0 :: post)
    (hpre : ∀ p ∈ pre, titleEq f.cfg.flags.nocase p.name o0.name = false)
    (hd : SingleDecl o0) (hv0 : o0.vals = [.sec s0]) (hbody : P c.opts body)
    (hal : A s0.flags.nocase c.opts s0.opts) :
    ∃ f' res s' md, parseToks orc m ([(.str o0.name, n1), (.lbrace, n2)] ++ body ++ [(.rbrace, n3)]) =
        { m with frames := f' :: rest, maxDepth := md } ∧
      AtItem f' ∧ f'.opttitle = none ∧ f'.level = f.level ∧ f'.back = f.back ∧
      f'.cfg.opts = pre ++ res :: post ∧ f'.cfg.flags = f.cfg.flags ∧
      res = Opt.mk o0.info { o0.flags with modified := true } o0.subs [.sec s'] o0.comment ∧
      R s'.opts c.opts := by
  let r : OptRef := ⟨[], pre.length⟩
  have hlook := getoptPath_top f.cfg o0.name pre o0 post hd.name hopts hpre (titleEq_refl _ _)
  have hget := getOpt_top f.cfg pre o0 post hopts
  let mk : Frame → PM := fun F => { m with frames := F :: rest }
  let F1 : Frame := { f with cfg := f.cfg.setLine (f.cfg.line + n1), opt := some r, state := .s5 }
  have e1 : pstep orc m (.str o0.name) n1 = mk F1 :=
    pstep_name_sec orc m f rest o0.name n1 r o0 hrun hfr hat.st hat.nd hlook.1 hlook.2 hget hd.sec.1 hd.notitle
  have g1 : F1.cfg.getOpt r = some o0 := by show (f.cfg.setLine _).getOpt r = some o0; rw [getOpt_setLine]; exact hget
  let O1 : Opt := Opt.mk o0.info { o0.flags with modified := true } o0.subs [.sec s0] o0.comment
  let P : Cfg := (F1.cfg.setLine (F1.cfg.line + n2)).setOpt r O1
  let child : Frame := { cfg := enterInstance P s0, level := f.level + 1, back := some (r, 0) }
  let F2 : Frame := { F1 with cfg := P, opttitle := none }
  let m2 : PM := { m with frames := child :: F2 :: rest, maxDepth := max m.maxDepth (rest.length + 2) }
  have e2 : pstep orc (mk F1) .lbrace n2 = m2 := by
    have := pstep_lbrace_single orc (mk F1) F1 rest n2 r o0 s0 hrun rfl rfl rfl hot g1 hd.sec hd.single hd.nolist hv0
    rw [this]
  have hPflags : P.flags = f.cfg.flags := by
    show ((F1.cfg.setLine _).setOpt r _).flags = f.cfg.flags
    rw [setOpt_flags]
    have : ∀ (c : Cfg) (n : Nat), (c.setLine n).flags = c.flags := by intro c n; cases c; rfl
    rw [this, this]
  obtain ⟨ch', done, md3, e3, hat3, _, hlev3, hbk3, hopts3, _, hv3⟩ :=
    hbs c.opts s0.opts body m2 child (F2 :: rest) hbody
      (by show A (enterInstance P s0).flags.nocase c.opts s0.opts; rw [enterInstance_flags]; exact hal) hrun rfl
      ⟨rfl, rfl, by intro r' o' hr' _; cases hr'⟩ rfl
      (by show (enterInstance P s0).opts = _; rw [enterInstance_opts])
  have gP : F2.cfg.getOpt r = some O1 := getOpt_setOpt _ r o0 _ (by rw [getOpt_setLine]; exact g1)
  have e4 := pstep_rbrace_pop orc { m2 with frames := ch' :: F2 :: rest, maxDepth := md3 } ch' F2 rest n3 r 0 O1
    hrun rfl hat3.st (by rw [hlev3]; exact Nat.succ_ne_zero _) hat3.nd (by rw [hbk3]) rfl gP (by cases o0; exact hd.noValid)
  let chL := ch'.cfg.setLine (ch'.cfg.line + n3)
  let res : Opt := O1.setVals (listSet O1.vals 0 (.sec chL))
  refine ⟨{ F2 with cfg := (F2.cfg.setOpt r res).afterSection chL, state := .s0 }, res, chL, md3, ?_, ⟨rfl, hat.cm, ?_⟩, rfl, rfl, rfl, ?_, ?_, ?_, ?_⟩
  · simp only [parseToks, List.foldl_append, List.foldl]
    rw [e1, e2]
    have e3' : List.foldl (fun m (t : Tok × Nat) => pstep orc m t.1 t.2) m2 body = { m2 with frames := ch' :: F2 :: rest, maxDepth := md3 } := e3
    rw [e3', e4]
  · intro r' o' hr' ho'
    simp only at hr' ho'
    injection hr' with hr'; subst hr'
    rw [getOpt_afterSection, getOpt_setOpt _ _ _ _ gP] at ho'
    injection ho' with ho'; subst ho'
    cases o0; exact hd.notDep
  · simp only [Cfg.afterSection_opts]
    exact setOpt_top _ pre O1 res post (by
      show ((F1.cfg.setLine _).setOpt r O1).opts = _
      exact setOpt_top _ pre o0 _ post (by simp only [opts_setLine]; exact hopts))
  · simp only [Cfg.afterSection_flags, setOpt_flags]; exact hPflags
  · cases o0; rfl
  · show R (ch'.cfg.setLine _).opts c.opts
    simp only [opts_setLine, hopts3]
    exact hv3


/-- the tokens of the printed instances of ONE untitled multi section option, in order -/
inductive InstToksP (P : List Opt → List (Tok × Nat) → Prop) (name : Bytes) : List Cfg → List (Tok × Nat) → Prop
  | nil : InstToksP P name [] []
  | cons (c : Cfg) (cs : List Cfg) (body ts : List (Tok × Nat)) (n1 n2 n3 : Nat) :
      P c.opts body → InstToksP P name cs ts →
      InstToksP P name (c :: cs) ([(.str name, n1), (.lbrace, n2)] ++ body ++ [(.rbrace, n3)] ++ ts)

theorem withInstances_withInstances' (o : Opt) (s : Cfg) (ss : List Cfg) :
    (Opt.mk o.info { o.flags with modified := true } o.subs (o.vals ++ [.sec s]) o.comment).withInstances ss = o.withInstances (s :: ss) := by
  cases o
  simp [Opt.withInstances, Opt.info, Opt.flags, Opt.subs, Opt.vals, Opt.comment, List.append_assoc]

/-- **all printed instances of one section option.** `name { … } name { … } …` (at least one) appends, in order, one
instance per printed instance, each holding exactly the printed values. -/
theorem inst_steps_gen (orc : Oracle) {P : List Opt → List (Tok × Nat) → Prop} {A : Bool → List Opt → List Opt → Prop}
    {R : List Opt → List Opt → Prop} (hbs : BodySteps orc P A R) : ∀ (cs : List Cfg) (c : Cfg) (ts : List (Tok × Nat)) (m : PM) (f : Frame) (rest : List Frame) (o0 : Opt) (pre post : List Opt),
    InstToksP P o0.name (c :: cs) ts →
    m.status = .running → m.frames = f :: rest → AtItem f → f.opttitle = none →
    f.cfg.opts = pre ++ o0 :: post →
    (∀ p ∈ pre, titleEq f.cfg.flags.nocase p.name o0.name = false) →
    SecDecl o0 →
    (∀ x ∈ c :: cs, ∀ ci, A f.cfg.flags.nocase x.opts (mkSection ci o0 none).opts) →
    ∃ f' ss md, parseToks orc m ts = { m with frames := f' :: rest, maxDepth := md } ∧
      AtItem f' ∧ f'.opttitle = none ∧ f'.level = f.level ∧ f'.back = f.back ∧
      f'.cfg.opts = pre ++ (o0.withInstances ss) :: post ∧ f'.cfg.flags = f.cfg.flags ∧
      All2 (fun s' x => R s'.opts x.opts) ss (c :: cs) := by
  intro cs
  induction cs with
  | nil =>
    intro c ts m f rest o0 pre post hts hrun hfr hat hot hopts hpre hd hall
    cases hts with
    | cons _ _ body ts' n1 n2 n3 hb hrest =>
      cases hrest
      have hal := hall c (by simp)
      obtain ⟨f', res, s', md, e, hat', hot', hlev', hbk', hopts', hfl', hres, hv⟩ :=
        section_item_gen orc hbs m f rest o0 pre post c body n1 n2 n3 hrun hfr hat hot hopts hpre hd hb hal
      refine ⟨f', [s'], md, ?_, hat', hot', hlev', hbk', ?_, hfl', All2.cons hv All2.nil⟩
      · simpa using e
      · rw [hopts', hres]; rfl
  | cons c2 cs ih =>
    intro c ts m f rest o0 pre post hts hrun hfr hat hot hopts hpre hd hall
    cases hts with
    | cons _ _ body ts' n1 n2 n3 hb hrest =>
      have hal := hall c (by simp)
      obtain ⟨f1, res, s', md1, e1, hat1, hot1, hlev1, hbk1, hopts1, hfl1, hres, hv⟩ :=
        section_item_gen orc hbs m f rest o0 pre post c body n1 n2 n3 hrun hfr hat hot hopts hpre hd hb hal
      have hname : res.name = o0.name := by rw [hres]; rfl
      have hd1 : SecDecl res := by
        rw [hres]
        obtain ⟨⟨h1, h2⟩, h3, h4, h5, h6, h7⟩ := hd
        cases o0
        exact ⟨⟨h1, h2⟩, h3, h4, h5, h6, h7⟩
      have hmk : ∀ ci, mkSection ci res none = mkSection ci o0 none := by
        intro ci
        apply mkSection_congr
        · exact hname
        · rw [hres]; cases o0; rfl
        · rw [hres]; cases o0; rfl
      obtain ⟨f2, ss, md, e2, hat2, hot2, hlev2, hbk2, hopts2, hfl2, hv2⟩ :=
        ih c2 ts' { m with frames := f1 :: rest, maxDepth := md1 } f1 rest res pre post
          (by rw [hname]; exact hrest) hrun rfl hat1 hot1 hopts1
          (by rw [hfl1, hname]; exact hpre) hd1
          (by
            intro x hx
            have h1 := hall x (by simp [List.mem_cons] at hx ⊢; rcases hx with h | h <;> simp [h])
            intro ci
            rw [hmk, hfl1]; exact h1 ci)
      refine ⟨f2, s' :: ss, md, ?_, hat2, hot2, by rw [hlev2, hlev1], by rw [hbk2, hbk1], ?_, by rw [hfl2, hfl1], All2.cons hv hv2⟩
      · have : ([(Tok.str o0.name, n1), (Tok.lbrace, n2)] ++ body ++ [(Tok.rbrace, n3)] ++ ts') =
            ([(Tok.str o0.name, n1), (Tok.lbrace, n2)] ++ body ++ [(Tok.rbrace, n3)]) ++ ts' := by simp
        rw [this, parseToks_append, e1, e2]
      · rw [hopts2, hres, withInstances_withInstances']


/-- the tokens a printed configuration of depth one scans to: option after option; a section option contributes the
tokens of its instances, none if it has none -/
inductive Tree1ToksP (P : List Opt → List (Tok × Nat) → Prop) : List Opt → List (Tok × Nat) → Prop
  | nil : Tree1ToksP P [] []
  | plain (o : Opt) (os : List Opt) (ts tss : List (Tok × Nat)) :
      o.ty ≠ .sec → OptToks o ts → Tree1ToksP P os tss → Tree1ToksP P (o :: os) (ts ++ tss)
  | secNone (o : Opt) (os : List Opt) (tss : List (Tok × Nat)) :
      o.ty = .sec → o.vals = [] → Tree1ToksP P os tss → Tree1ToksP P (o :: os) tss
  | sec (o : Opt) (os : List Opt) (c : Cfg) (cs : List Cfg) (ts tss : List (Tok × Nat)) :
      o.ty = .sec → o.vals = (c :: cs).map Val.sec → InstToksP P o.name (c :: cs) ts → Tree1ToksP P os tss →
      Tree1ToksP P (o :: os) (ts ++ tss)

/-- declared counterpart at depth one: a plain option as in the flat case; a section option is an untitled multi section
without instances whose sub-options are the declared counterparts of every printed instance's options, or a single
section holding its instance -/
def Aligned1P (A : Bool → List Opt → List Opt → Prop) (nc : Bool) (o o0 : Opt) : Prop :=
  (o.ty ≠ .sec ∧ Aligned o o0) ∨
  (o.ty = .sec ∧ o0.name = o.name ∧ SecDecl o0 ∧ o0.vals = [] ∧
     ∀ c, Val.sec c ∈ o.vals → ∀ ci, A nc c.opts (mkSection ci o0 none).opts) ∨
  -- a single section: both sides hold the one instance, and the instance's options are counterparts
  (o.ty = .sec ∧ o0.name = o.name ∧ SingleDecl o0 ∧
     ∃ c s0, o.vals = [.sec c] ∧ o0.vals = [.sec s0] ∧ A s0.flags.nocase c.opts s0.opts)

/-- the same values, one level deep: a plain option holds the printed value sequence; a section option has one instance
per printed instance, in order, each holding option by option the printed values -/
def SameVals1P (R : List Opt → List Opt → Prop) (r o : Opt) : Prop :=
  (o.ty ≠ .sec ∧ r.vals = o.vals) ∨
  (o.ty = .sec ∧ ∃ ss cs, o.vals = cs.map Val.sec ∧ r.vals = ss.map Val.sec ∧
     All2 (fun s' c => R s'.opts c.opts) ss cs)

/-- **a whole printed configuration of depth one, token level.** The tokens a printed configuration scans to - plain
options and untitled multi sections with flat bodies, any number of instances each - fed to the machine at an item
boundary of a context with the same declarations (section options still without instances, as `cfg_init` leaves them):
the machine ends at an item boundary, every plain option holds exactly the printed values, and every section option
has exactly the printed instances, in order, each holding exactly the printed values. -/
theorem tree1_steps_gen (orc : Oracle) {P : List Opt → List (Tok × Nat) → Prop} {A : Bool → List Opt → List Opt → Prop}
    {R : List Opt → List Opt → Prop} (hbs : BodySteps orc P A R) (nc : Bool) : ∀ (os os0 : List Opt) (ts : List (Tok × Nat)) (m : PM) (f : Frame) (rest : List Frame) (pre : List Opt),
    Tree1ToksP P os ts → All2 (Aligned1P A nc) os os0 → f.cfg.flags.nocase = nc →
    m.status = .running → m.frames = f :: rest → AtItem f → f.opttitle = none → f.cfg.opts = pre ++ os0 →
    (∀ p ∈ pre, ∀ o ∈ os, titleEq nc p.name o.name = false) →
    List.Pairwise (fun a b => titleEq nc a.name b.name = false) os →
    ∃ f' done md, parseToks orc m ts = { m with frames := f' :: rest, maxDepth := md } ∧ AtItem f' ∧ f'.opttitle = none ∧
      f'.level = f.level ∧ f'.back = f.back ∧ f'.cfg.opts = pre ++ done ∧ f'.cfg.flags = f.cfg.flags ∧
      All2 (SameVals1P R) done os := by
  intro os
  induction os with
  | nil =>
    intro os0 ts m f rest pre hts hal _ hrun hfr hat hot hopts _ _
    cases hts
    cases hal
    refine ⟨f, [], m.maxDepth, ?_, hat, hot, rfl, rfl, by simpa using hopts, rfl, All2.nil⟩
    obtain ⟨frames, srcs, status, diags, trace, pi, md⟩ := m
    simp only at hfr; subst hfr
    rfl
  | cons o os ih =>
    intro os0 ts m f rest pre hts hal hnc hrun hfr hat hot hopts hpre hpw
    cases hal with
    | cons hA hAs =>
      rename_i o0 os0'
      have hpre0 : ∀ p ∈ pre, titleEq f.cfg.flags.nocase p.name o.name = false := by
        intro p hp; rw [hnc]; exact hpre p hp o (by simp)
      -- what the induction hypothesis needs once the first option is done
      have next : ∀ (m1 : PM) (f1 : Frame) (res : Opt) (tss : List (Tok × Nat)), Tree1ToksP P os tss →
          m1.status = .running → m1.frames = f1 :: rest → AtItem f1 → f1.opttitle = none → f1.level = f.level → f1.back = f.back →
          f1.cfg.opts = pre ++ res :: os0' → f1.cfg.flags = f.cfg.flags → res.name = o.name → SameVals1P R res o →
          ∃ f' done md, parseToks orc m1 tss = { m1 with frames := f' :: rest, maxDepth := md } ∧ AtItem f' ∧ f'.opttitle = none ∧
            f'.level = f.level ∧ f'.back = f.back ∧ f'.cfg.opts = pre ++ done ∧ f'.cfg.flags = f.cfg.flags ∧
            All2 (SameVals1P R) done (o :: os) := by
        intro m1 f1 res tss h2 hrun1 hfr1 hat1 hot1 hlev1 hbk1 hopts1 hfl1 hresname hsv
        obtain ⟨f2, done, md, e2, hat2, hot2, hlev2, hbk2, hopts2, hfl2, hv2⟩ :=
          ih os0' tss m1 f1 rest (pre ++ [res]) h2 hAs (by rw [hfl1]; exact hnc) hrun1 hfr1 hat1 hot1
            (by rw [hopts1]; simp)
            (by
              intro p hp o' ho'
              rcases List.mem_append.mp hp with hp | hp
              · exact hpre p hp o' (by simp [ho'])
              · simp only [List.mem_singleton] at hp
                subst hp
                rw [hresname]
                exact (List.pairwise_cons.mp hpw).1 o' ho')
            (List.pairwise_cons.mp hpw).2
        exact ⟨f2, res :: done, md, e2, hat2, hot2, by rw [hlev2, hlev1], by rw [hbk2, hbk1], by rw [hopts2]; simp,
          by rw [hfl2, hfl1], All2.cons hsv hv2⟩
      cases hts with
      | plain _ _ ts1 tss hty h1 h2 =>
        rcases hA with ⟨_, hA⟩ | ⟨hsec, _⟩ | ⟨hsec, _⟩
        · obtain ⟨hname, hty', hlist, hd⟩ := hA
          obtain ⟨f1, res, e1, hat1, hlev1, hbk1, hot1, hopts1, hfl1, _, hv1, hi1, _, _, _⟩ :=
            opt_step orc m f rest o o0 pre os0' ts1 hrun hfr hat hopts hpre0 hname hty' hlist hd h1
          have hresname : res.name = o.name := by
            have : res.name = o0.name := by simp [Opt.name, hi1]
            rw [this, hname]
          obtain ⟨f', done, md, e2, rest'⟩ :=
            next { m with frames := f1 :: rest } f1 res tss h2 hrun rfl hat1 (by rw [hot1]; exact hot) hlev1 hbk1 hopts1 hfl1 hresname
              (Or.inl ⟨hty, hv1⟩)
          exact ⟨f', done, md, by rw [parseToks_append, e1, e2], rest'⟩
        · exact absurd hsec hty
        · exact absurd hsec hty
      | secNone =>
        rename_i hty hv h2
        rcases hA with ⟨hns, _⟩ | ⟨_, hname, hd, hv0, _⟩ | ⟨_, _, _, c', _, hvc, _⟩
        · exact absurd hty hns
        · exact next m f o0 ts h2 hrun hfr hat hot rfl rfl hopts rfl hname
            (Or.inr ⟨hty, [], [], by simpa using hv, by simpa using hv0, All2.nil⟩)
        · rw [hv] at hvc; cases hvc
      | sec _ _ c cs ts1 tss hty hv h1 h2 =>
        rcases hA with ⟨hns, _⟩ | ⟨_, hname, hd, hv0, hinst⟩ | ⟨_, hname, hd, c', s0, hvc, hv0, halc⟩
        · exact absurd hty hns
        · obtain ⟨f1, ss, md1, e1, hat1, hot1, hlev1, hbk1, hopts1, hfl1, hvs⟩ :=
            inst_steps_gen orc hbs cs c ts1 m f rest o0 pre os0' (by rw [hname]; exact h1) hrun hfr hat hot hopts
              (by rw [hname]; exact hpre0) hd
              (by
                intro x hx ci
                have hm : Val.sec x ∈ o.vals := by rw [hv]; exact List.mem_map.mpr ⟨x, hx, rfl⟩
                rw [hnc]; exact hinst x hm ci)
          have hresname : (o0.withInstances ss).name = o.name := by rw [← hname]; rfl
          obtain ⟨f', done, md, e2, rest'⟩ :=
            next { m with frames := f1 :: rest, maxDepth := md1 } f1 (o0.withInstances ss) tss h2 hrun rfl hat1 hot1 hlev1 hbk1 hopts1 hfl1 hresname
              (Or.inr ⟨hty, ss, c :: cs, hv, by show o0.vals ++ ss.map Val.sec = ss.map Val.sec; rw [hv0]; rfl, hvs⟩)
          exact ⟨f', done, md, by rw [parseToks_append, e1, e2], rest'⟩
        · -- a single section: exactly one printed instance
          rw [hv] at hvc
          simp only [List.map_cons, List.cons.injEq, Val.sec.injEq, List.map_eq_nil_iff] at hvc
          obtain ⟨hcc, hcs⟩ := hvc
          subst hcc; subst hcs
          cases h1 with
          | cons _ _ body ts' n1 n2 n3 hb hrest =>
            cases hrest
            obtain ⟨f1, res, s', md1, e1, hat1, hot1, hlev1, hbk1, hopts1, hfl1, hres, hvs⟩ :=
              single_section_item_gen orc hbs m f rest o0 s0 pre os0' c body n1 n2 n3 hrun hfr hat hot hopts
                (by rw [hname]; exact hpre0) hd hv0 hb halc
            have hresname : res.name = o.name := by rw [hres, ← hname]; rfl
            obtain ⟨f', done, md, e2, rest'⟩ :=
              next { m with frames := f1 :: rest, maxDepth := md1 } f1 res tss h2 hrun rfl hat1 hot1 hlev1 hbk1 hopts1 hfl1 hresname
                (Or.inr ⟨hty, [s'], [c], hv, by rw [hres]; rfl, All2.cons hvs All2.nil⟩)
            refine ⟨f', done, md, ?_, rest'⟩
            rw [parseToks_append]
            have e1' : parseToks orc m ([(Tok.str o.name, n1), (Tok.lbrace, n2)] ++ body ++ [(Tok.rbrace, n3)] ++ []) =
                { m with frames := f1 :: rest, maxDepth := md1 } := by
              rw [← hname]; simpa using e1
            rw [e1', e2]


/-! ## the recursion over the nesting depth -/

/-- names distinct under a case rule -/
def NamesDistinct (nc : Bool) (os : List Opt) : Prop := List.Pairwise (fun a b => titleEq nc a.name b.name = false) os

/-- the tokens a printed configuration of nesting depth at most `d` scans to -/
def TreeToks : Nat → List Opt → List (Tok × Nat) → Prop
  | 0 => FlatToks
  | d + 1 => Tree1ToksP (TreeToks d)

/-- declared counterparts, to depth `d`, names distinct in every option list along the way -/
def AlignedT : Nat → Bool → List Opt → List Opt → Prop
  | 0 => fun nc os os0 => All2 Aligned os os0 ∧ NamesDistinct nc os
  | d + 1 => fun nc os os0 => All2 (Aligned1P (AlignedT d) nc) os os0 ∧ NamesDistinct nc os

/-- the same values, to depth `d`: plain options hold the printed value sequences, section options have the printed
instances, in order, and so on inside every instance -/
def SameValsT : Nat → List Opt → List Opt → Prop
  | 0 => fun done os => All2 (fun r o => r.vals = o.vals) done os
  | d + 1 => fun done os => All2 (SameVals1P (SameValsT d)) done os

/-- **C05 (configurations of any depth, token level).** For every nesting depth `d`: the tokens a printed configuration
scans to - plain options, untitled multi sections with any number of instances, single sections, nested in one another
to depth `d` - fed to the machine at an item boundary of ANY frame (under any enclosing frames) whose options are the
declared counterparts: the machine ends at an item boundary of the same frame, every plain option at every depth holds
exactly the printed values, and every section option at every depth has exactly the printed instances, in order.
Induction on `d`; the step is `tree1_steps_gen` with the induction hypothesis as the body lemma. -/
theorem C05_tree_steps (orc : Oracle) : ∀ d, BodySteps orc (TreeToks d) (AlignedT d) (SameValsT d) := by
  intro d
  induction d with
  | zero => exact bodySteps_flat orc
  | succ d ih =>
    intro os os0 ts m f rest hP hA hrun hfr hat hot hopts
    obtain ⟨f', done, md, e, hat', hot', hlev, hbk, ho, hfl, hv⟩ :=
      tree1_steps_gen orc ih f.cfg.flags.nocase os os0 ts m f rest [] hP hA.1 rfl hrun hfr hat hot (by simpa using hopts)
        (by intro p hp; cases hp) hA.2
    exact ⟨f', done, md, e, hat', hot', hlev, hbk, by simpa using ho, hfl, hv⟩

/-- non-vacuity at depth 2: `a { b { z = 5 } }` - a multi section inside a multi section - is in the token relation -/
example :
    let inner : Cfg := Cfg.mk { name := [98] } [Opt.mk { name := [122], ty := .int } {} [] [.int 5] none]
    let ob : Opt := Opt.mk { name := [98], ty := .sec } { multi := true } [Decl.mk { name := [122], ty := .int } {} []] [.sec inner] none
    let outer : Cfg := Cfg.mk { name := [97] } [ob]
    let oa : Opt := Opt.mk { name := [97], ty := .sec } { multi := true } [] [.sec outer] none
    TreeToks 2 [oa] ([(.str [97], 0), (.lbrace, 0)] ++ ([(.str [98], 0), (.lbrace, 0)] ++ [(.str [122], 1), (.eq, 0), (.str (printInt 5), 0)] ++ [(.rbrace, 1)] ++ [] ++ []) ++
      [(.rbrace, 1)] ++ [] ++ []) := by
  intro inner ob outer oa
  have hz : FlatToks inner.opts [(.str [122], 1), (.eq, 0), (.str (printInt 5), 0)] :=
    FlatToks.cons (Opt.mk { name := [122], ty := .int } {} [] [.int 5] none) [] _ []
      (OptToks.scalar _ (.int 5) (printInt 5) 1 0 0 rfl rfl rfl (by decide)) FlatToks.nil
  have hb : TreeToks 1 outer.opts ([(.str [98], 0), (.lbrace, 0)] ++ [(.str [122], 1), (.eq, 0), (.str (printInt 5), 0)] ++ [(.rbrace, 1)] ++ [] ++ []) :=
    Tree1ToksP.sec ob [] inner [] _ [] rfl rfl (InstToksP.cons inner [] _ [] 0 0 1 hz InstToksP.nil) Tree1ToksP.nil
  exact Tree1ToksP.sec oa [] outer [] _ [] rfl rfl (InstToksP.cons outer [] _ [] 0 0 1 hb InstToksP.nil) Tree1ToksP.nil

/-! ## byte level: scanning at any indentation, any depth -/

/-- what the printing side provides for an option list in `Q`: printed at any indentation `j`, in front of any `rest` and
after any pending newlines, it scans to tokens in `P` and leaves pending newlines -/
def LexBody (env : Env) (Q : List Opt → Prop) (P : List Opt → List (Tok × Nat) → Prop) : Prop :=
  ∀ (j : Nat) (os : List Opt) (k : Nat) (rest : Bytes), Q os →
    ∃ ts k', P os ts ∧ LexSteps env (List.replicate k c_nl ++ (printOpts none j os ++ rest)) ts (List.replicate k' c_nl ++ rest)

/-- **one printed section instance scans to its tokens**: name, `{`, the body's tokens, `}` -/
theorem lex_instance_gen (env : Env) {Q : List Opt → Prop} {P : List Opt → List (Tok × Nat) → Prop} (hlb : LexBody env Q P)
    (name : Bytes) (s : Cfg) (j k : Nat) (tail : Bytes) (h0 : ∀ c ∈ name, c ≠ 0) (hpf : s.info.pff = none) (hq : Q s.opts) :
    ∃ body n1 n3, P s.opts body ∧
      LexSteps env (List.replicate k c_nl ++ (indentBytes j ++ printName name ++ [c_sp, c_lbr, c_nl] ++ printCfg none (j + 1) s ++
                      indentBytes j ++ [c_rbr, c_nl] ++ tail))
        ([(.str name, n1), (.lbrace, 0)] ++ body ++ [(.rbrace, n3)]) (List.replicate 1 c_nl ++ tail) := by
  have hcfg : printCfg none (j + 1) s = printOpts none (j + 1) s.opts := by
    cases s with
    | mk info opts => have := hpf; simp only [Cfg.info] at this; simp [printCfg, this, effPff, Cfg.opts]
  obtain ⟨body, k', hb, sb⟩ := hlb (j + 1) s.opts 1 (indentBytes j ++ c_rbr :: c_nl :: tail) hq
  obtain ⟨n1, e1⟩ := C05_name env name (c_lbr :: c_nl :: (printOpts none (j + 1) s.opts ++ (indentBytes j ++ c_rbr :: c_nl :: tail))) c_sp k h0 (Or.inl rfl)
  refine ⟨body, n1, k', hb, ?_⟩
  have shape : indentBytes j ++ printName name ++ [c_sp, c_lbr, c_nl] ++ printCfg none (j + 1) s ++ indentBytes j ++ [c_rbr, c_nl] ++ tail =
      List.replicate (2 * j) c_sp ++ (printName name ++ c_sp :: c_lbr :: c_nl :: (printOpts none (j + 1) s.opts ++ (indentBytes j ++ c_rbr :: c_nl :: tail))) := by
    rw [hcfg]; simp [indentBytes]
  rw [shape]
  -- the name
  refine LexSteps.cons _ (.str name) n1 _ _ _ (by rw [lex_lead, lex_spaces]; exact e1) rfl ?_
  -- the opening brace
  refine LexSteps.cons _ .lbrace 0 _ _ _ (by rw [lex_sp]; exact lex_lbr env 0 _) rfl ?_
  -- the body, then the closing brace
  have sb' : LexSteps env (c_nl :: (printOpts none (j + 1) s.opts ++ (indentBytes j ++ c_rbr :: c_nl :: tail))) body
      (List.replicate k' c_nl ++ (indentBytes j ++ c_rbr :: c_nl :: tail)) := by simpa using sb
  refine LexSteps.append sb' ?_
  refine LexSteps.one (t := .rbrace) (nl := k') ?_ rfl
  rw [lex_lead]
  show lexInitial env k' (List.replicate (2 * j) c_sp ++ c_rbr :: c_nl :: tail) = _
  rw [lex_spaces]
  simpa using lex_rbr env k' (c_nl :: tail)

/-- **all printed instances of an untitled section option scan to their tokens** -/
theorem lex_insts_gen (env : Env) {Q : List Opt → Prop} {P : List Opt → List (Tok × Nat) → Prop} (hlb : LexBody env Q P) (o : Opt) (j : Nat) (ht : o.flags.title = false) (h0 : ∀ c ∈ o.name, c ≠ 0) :
    ∀ (cs : List Cfg) (k : Nat) (tail : Bytes), (∀ c ∈ cs, c.info.pff = none ∧ Q c.opts) →
    ∃ ts k', InstToksP P o.name cs ts ∧
      LexSteps env (List.replicate k c_nl ++ (printVals o none j (cs.map Val.sec) ++ tail)) ts (List.replicate k' c_nl ++ tail) := by
  intro cs
  induction cs with
  | nil => intro k tail _; exact ⟨[], k, InstToksP.nil, by simpa [printVals] using LexSteps.nil _⟩
  | cons c cs ih =>
    intro k tail hall
    obtain ⟨ts2, k', h2, s2⟩ := ih 1 tail (fun x hx => hall x (by simp [hx]))
    obtain ⟨body, n1, n3, hb, s1⟩ := lex_instance_gen env hlb o.name c j k (printVals o none j (cs.map Val.sec) ++ tail) h0 (hall c (by simp)).1 (hall c (by simp)).2
    refine ⟨[(.str o.name, n1), (.lbrace, 0)] ++ body ++ [(.rbrace, n3)] ++ ts2, k', InstToksP.cons c cs body ts2 n1 0 n3 hb h2, ?_⟩
    have e : printVals o none j ((c :: cs).map Val.sec) ++ tail =
        indentBytes j ++ printName o.name ++ [c_sp, c_lbr, c_nl] ++ printCfg none (j + 1) c ++ indentBytes j ++ [c_rbr, c_nl] ++
          (printVals o none j (cs.map Val.sec) ++ tail) := by
      simp [printVals, ht]
    rw [e]
    exact LexSteps.append s1 s2

/-- a section option the byte-level theorem covers (printing side): untitled, not annotated, every instance without a
print filter and with options in `Q` -/
structure PrintableSecP (Q : List Opt → Prop) (o : Opt) : Prop where
  ty : o.ty = .sec
  notitle : o.flags.title = false
  noComment : o.comment = none
  name0 : ∀ c ∈ o.name, c ≠ 0
  insts : ∃ cs : List Cfg, o.vals = cs.map Val.sec ∧ ∀ c ∈ cs, c.info.pff = none ∧ Q c.opts

theorem print_sec_indent {Q : List Opt → Prop} (o : Opt) (j : Nat) (hp : PrintableSecP Q o) : printOpt none j o = printVals o none j o.vals := by
  obtain ⟨info, fl, subs, vals, cm⟩ := o
  have h1 := hp.ty; have h2 := hp.noComment
  simp only [Opt.ty, Opt.info, Opt.comment] at h1 h2
  subst h2
  simp [printOpt, h1, Opt.vals]

/-- **an option list whose sections have bodies in `Q` scans, at any indentation, to the token relation over `P`** -/
theorem lex_tree1_gen (env : Env) {Q : List Opt → Prop} {P : List Opt → List (Tok × Nat) → Prop} (hlb : LexBody env Q P) :
    LexBody env (fun os => ∀ o ∈ os, (o.ty ≠ .sec ∧ Printable o) ∨ PrintableSecP Q o) (Tree1ToksP P) := by
  intro j os
  induction os with
  | nil => intro k rest _; exact ⟨[], k, Tree1ToksP.nil, by simpa [printOpts] using LexSteps.nil _⟩
  | cons o os ih =>
    intro k rest hall
    have e : printOpts none j (o :: os) ++ rest = printOpt none j o ++ (printOpts none j os ++ rest) := by
      simp [printOpts, hides]
    rw [e]
    rcases hall o (by simp) with ⟨hns, hp⟩ | hp
    · obtain ⟨ts1, h1, s1⟩ := lex_opt env o k (printOpts none j os ++ rest) hp
      obtain ⟨ts2, k', h2, s2⟩ := ih 1 rest (fun x hx => hall x (by simp [hx]))
      refine ⟨ts1 ++ ts2, k', Tree1ToksP.plain o os ts1 ts2 hns h1 h2, ?_⟩
      rw [printOpt_indent o j hp]
      have : indentBytes j ++ printOpt none 0 o ++ (printOpts none j os ++ rest) =
          List.replicate (2 * j) c_sp ++ (printOpt none 0 o ++ (printOpts none j os ++ rest)) := by simp [indentBytes]
      rw [this]
      exact LexSteps.append (lexSteps_indent env k (2 * j) _ ts1 _ (optToks_ne_nil h1) s1) s2
    · obtain ⟨cs, hv, hcs⟩ := hp.insts
      rw [print_sec_indent o j hp, hv]
      cases cs with
      | nil =>
        obtain ⟨ts2, k', h2, s2⟩ := ih k rest (fun x hx => hall x (by simp [hx]))
        exact ⟨ts2, k', Tree1ToksP.secNone o os ts2 hp.ty (by simpa using hv) h2, by simpa [printVals] using s2⟩
      | cons c cs =>
        obtain ⟨ts1, k1, h1, s1⟩ := lex_insts_gen env hlb o j hp.notitle hp.name0 (c :: cs) k (printOpts none j os ++ rest) hcs
        obtain ⟨ts2, k', h2, s2⟩ := ih k1 rest (fun x hx => hall x (by simp [hx]))
        exact ⟨ts1 ++ ts2, k', Tree1ToksP.sec o os c cs ts1 ts2 hp.ty hv h1 h2, LexSteps.append s1 s2⟩

/-- what can be printed and scanned back, to nesting depth `d` -/
def PrintableT : Nat → List Opt → Prop
  | 0 => fun os => ∀ o ∈ os, Printable o
  | d + 1 => fun os => ∀ o ∈ os, (o.ty ≠ .sec ∧ Printable o) ∨ PrintableSecP (PrintableT d) o

/-- **the printed text of a configuration of any depth scans, at any indentation, to its tokens** -/
theorem lex_tree (env : Env) : ∀ d, LexBody env (PrintableT d) (TreeToks d) := by
  intro d
  induction d with
  | zero => exact fun j os k rest hq => lex_opts_indent env j os k rest hq
  | succ d ih => exact lex_tree1_gen env ih

theorem instToksP_no_rparen {P : List Opt → List (Tok × Nat) → Prop} (hP : ∀ os ts, P os ts → ∀ t ∈ ts, t.1 ≠ .rparen)
    {name : Bytes} {cs : List Cfg} {ts : List (Tok × Nat)} (h : InstToksP P name cs ts) : ∀ t ∈ ts, t.1 ≠ .rparen := by
  induction h with
  | nil => intro t ht; cases ht
  | cons c cs body ts' n1 n2 n3 hb _ ih =>
    intro t ht
    simp only [List.mem_append, List.mem_cons, List.not_mem_nil, or_false] at ht
    rcases ht with ((((rfl | rfl) | hb') | rfl) | ht')
    · simp
    · simp
    · exact hP _ _ hb t hb'
    · simp
    · exact ih t ht'

theorem tree1ToksP_no_rparen {P : List Opt → List (Tok × Nat) → Prop} (hP : ∀ os ts, P os ts → ∀ t ∈ ts, t.1 ≠ .rparen)
    {os : List Opt} {ts : List (Tok × Nat)} (h : Tree1ToksP P os ts) : ∀ t ∈ ts, t.1 ≠ .rparen := by
  induction h with
  | nil => intro t ht; cases ht
  | plain o os ts1 tss _ h1 _ ih =>
    intro t ht
    rcases List.mem_append.mp ht with h | h
    · exact optToks_no_rparen h1 t h
    · exact ih t h
  | secNone o os tss _ _ _ ih => exact ih
  | sec o os c cs ts1 tss _ _ h1 _ ih =>
    intro t ht
    rcases List.mem_append.mp ht with h | h
    · exact instToksP_no_rparen hP h1 t h
    · exact ih t h

theorem treeToks_no_rparen : ∀ d os ts, TreeToks d os ts → ∀ t ∈ ts, t.1 ≠ .rparen := by
  intro d
  induction d with
  | zero => exact fun os ts h => flatToks_no_rparen h
  | succ d ih => exact fun os ts h => tree1ToksP_no_rparen ih h

/-- **C05 (configurations of any depth, byte level).** For every nesting depth `d`: print a configuration `c` built from
plain integer / boolean / string options, untitled multi sections with any number of instances and single sections,
nested in one another to depth `d` - no callbacks, annotations or print filters - and parse the printed text with
`cfg_parse_buf` into ANY context `c0` with the same declarations at every level (multi sections still empty, single
sections holding their instance, names distinct under the case rule): the parse is accepted, and every plain option at
every depth holds exactly the printed values, every section option at every depth exactly the printed instances, in
order.  Bytes, indentation, scanner, parse loop, token machine with its frame stack: all inside the statement. -/
theorem C05_tree_roundtrip (orc : Oracle) (pe : PEnv) (d : Nat) (c c0 : Cfg)
    (hpff : c.info.pff = none) (hpr : PrintableT d c.opts)
    (hal : AlignedT d c0.flags.nocase c.opts c0.opts) :
    (parseBuf orc pe c0 (cfgPrint c)).rc = 0 ∧
    SameValsT d (parseBuf orc pe c0 (cfgPrint c)).cfg.opts c.opts := by
  have htext : cfgPrint c = printOpts none 0 c.opts := by
    cases c with
    | mk info opts => simp only [Cfg.info] at hpff; simp [cfgPrint, printCfg, hpff, effPff, Cfg.opts]
  obtain ⟨ts, k', hft, hlex⟩ := lex_tree pe.env d 0 c.opts 0 [] hpr
  simp only [List.replicate_zero, List.nil_append, List.append_nil] at hlex
  let c1 := (c0.setFilename (some bufName)).setLine 1
  have hopts1 : c1.opts = c0.opts := by cases c0; rfl
  have hfl1 : c1.flags = c0.flags := by cases c0; rfl
  let f0 : Frame := { cfg := c1 }
  let m0 : PM := startPM c1 (cfgPrint c) 0
  have hat0 : AtItem f0 := ⟨rfl, rfl, by intro r o hr _; simp [f0] at hr⟩
  obtain ⟨f', done, md, e1, hat', _, hlev', _, hopts', _, hvals⟩ :=
    C05_tree_steps orc d c.opts c0.opts ts m0 f0 [] hft (by show AlignedT d c1.flags.nocase _ _; rw [hfl1]; exact hal) rfl rfl hat0 rfl hopts1
  rw [← htext] at hlex
  obtain ⟨hrc, ho, _⟩ := accept_of_steps orc pe c0 (cfgPrint c) ts k' f' md hlex (treeToks_no_rparen d _ _ hft) e1 hat' hlev'
  refine ⟨hrc, ?_⟩
  rw [ho, hopts']
  exact hvals

/-- non-vacuity: `i=7` and one instance `n { z=5 }`, printed and parsed into a context declared alike, meets the premises
of `C05_tree_roundtrip` at depth 1 -/
example :
    let inst : Cfg := Cfg.mk { name := [110] } [Opt.mk { name := [122], ty := .int } {} [] [.int 5] none]
    let c : Cfg := Cfg.mk { name := [114] }
      [Opt.mk { name := [105], ty := .int } {} [] [.int 7] none,
       Opt.mk { name := [110], ty := .sec } { multi := true } [Decl.mk { name := [122], ty := .int } {} []] [.sec inst] none]
    let c0 : Cfg := Cfg.mk { name := [114] }
      [Opt.mk { name := [105], ty := .int } {} [] [.int 1] none,
       Opt.mk { name := [110], ty := .sec } { multi := true } [Decl.mk { name := [122], ty := .int } {} []] [] none]
    c.info.pff = none ∧ PrintableT 1 c.opts ∧ AlignedT 1 c0.flags.nocase c.opts c0.opts := by
  intro inst c c0
  have hz : Printable (Opt.mk { name := [122], ty := .int } {} [] [.int 5] none) :=
    ⟨Or.inl rfl, rfl, rfl, by decide, by intro v hv; simp [Opt.vals] at hv; subst hv; decide, fun _ => ⟨_, rfl⟩⟩
  have hi : Printable (Opt.mk { name := [105], ty := .int } {} [] [.int 7] none) :=
    ⟨Or.inl rfl, rfl, rfl, by decide, by intro v hv; simp [Opt.vals] at hv; subst hv; decide, fun _ => ⟨_, rfl⟩⟩
  refine ⟨rfl, ?_, ?_, ?_⟩
  · intro o ho
    simp only [c, Cfg.opts, List.mem_cons, List.not_mem_nil, or_false] at ho
    rcases ho with rfl | rfl
    · exact Or.inl ⟨by decide, hi⟩
    · exact Or.inr ⟨rfl, rfl, rfl, by decide, [inst], rfl, by
        intro x hx; simp at hx; subst hx
        exact ⟨rfl, by intro o ho; simp [inst, Cfg.opts] at ho; subst ho; exact hz⟩⟩
  · refine All2.cons (Or.inl ⟨by decide, rfl, rfl, rfl, ⟨Or.inl rfl, rfl, rfl, rfl, rfl, ⟨by decide, by decide⟩, rfl⟩⟩)
      (All2.cons (Or.inr (Or.inl ⟨rfl, rfl, ?_, rfl, ?_⟩)) All2.nil)
    · exact ⟨⟨rfl, rfl⟩, rfl, rfl, rfl, rfl, ⟨by decide, by decide⟩⟩
    · intro x hx ci
      simp [Opt.vals] at hx
      subst hx
      refine ⟨?_, by simp [NamesDistinct, inst, Cfg.opts]⟩
      have hn : ∀ si, (mkOpt si (Decl.mk { name := [122], ty := .int } {} [])).name = [122] := fun _ => rfl
      refine All2.cons ⟨rfl, rfl, rfl, ⟨Or.inl rfl, rfl, rfl, rfl, rfl, ?_, rfl⟩⟩ All2.nil
      rw [hn]; exact ⟨by decide, by decide⟩
  · simp [NamesDistinct, c, Cfg.opts, titleEq, Opt.name, Opt.info]
    decide

end Confuse
