import Confuse.Lemmas.SkipInv
/-!
# C12 — an undeclared item inserted between two items changes nothing

The simulation behind `C12_insert`: after an undeclared item has been skipped the machine differs
from the machine that never saw it in positions, in the pending annotation and in the stale "current
option" local of the frame.  `Sim` relates two machines that are equal up to positions/annotations,
or additionally differ in that local while sitting at an item boundary, or have both stopped with
the same observable outcome.  Every step preserves it.
-/
namespace Confuse

/-- what the caller of the parser can observe of a machine: status, callback invocations, the
classes of the diagnostics, and the tree (positions and annotations erased) -/
def obs (m : PM) : Status × List CbCall × List DiagCls × Option Cfg :=
  (m.status, m.trace, m.diags.map (·.cls), (collapse m.frames).map (fun f => eraseCfg f.cfg))

def dropOpt (f : Frame) : Frame := { f with opt := none }

/-- logs and sources equal up to positions -/
def LogsEq (m m' : PM) : Prop := erasePM { m with frames := [] } = erasePM { m' with frames := [] }

/-- both at an item boundary, equal up to positions, annotations and the stale current option -/
def Stale (m m' : PM) : Prop :=
  m.status = .running ∧ m'.status = .running ∧
  ∃ f rest f' rest', m.frames = f :: rest ∧ m'.frames = f' :: rest' ∧ f.state = .s0 ∧
    noPendingDeprecated f ∧ noPendingDeprecated f' ∧ eraseFrame (dropOpt f) = eraseFrame (dropOpt f') ∧
    rest.map eraseFrame = rest'.map eraseFrame ∧ LogsEq m m'

def StoppedEq (m m' : PM) : Prop := m.status ≠ .running ∧ m'.status ≠ .running ∧ obs m = obs m'

def Sim (m m' : PM) : Prop := erasePM m = erasePM m' ∨ Stale m m' ∨ StoppedEq m m'

theorem collapse_erase (fs : List Frame) :
    (collapse (fs.map eraseFrame)).map (fun f => f.cfg) = (collapse fs).map (fun f => eraseCfg f.cfg) := by
  cases fs with
  | nil => rfl
  | cons f rest => simp [collapse, ← collapseInto_erase]

theorem obs_of_erase {m m' : PM} (h : erasePM m = erasePM m') : obs m = obs m' := by
  have h1 := congrArg PM.status h
  have h2 := congrArg PM.trace h
  have h3 := congrArg (fun x => x.diags.map (·.cls)) h
  have h4 := congrArg (fun x => (collapse x.frames).map (fun f => f.cfg)) h
  simp only [erasePM_status, erasePM_trace] at h1 h2
  simp only [erasePM_diags, List.map_map] at h3
  simp only [erasePM_erase_frames, collapse_erase] at h4
  have h3' : m.diags.map (·.cls) = m'.diags.map (·.cls) := by
    simpa [Function.comp_def, eraseDiag] using h3
  simp [obs, h1, h2, h3', h4]

/-- `writeBack` and the unwinding look at a child's tree and position in the parent only -/
theorem writeBack_dropOpt (p c : Frame) : writeBack p (dropOpt c) = writeBack p c := rfl

theorem collapseInto_dropOpt_cfg (c : Frame) (ps : List Frame) :
    (collapseInto (dropOpt c) ps).cfg = (collapseInto c ps).cfg := by
  cases ps with
  | nil => rfl
  | cons p ps => simp only [collapseInto, writeBack_dropOpt]


theorem eraseFrame_dropOpt (f : Frame) : eraseFrame (dropOpt f) = dropOpt (eraseFrame f) := rfl

theorem collapsed_cfg_eq (f f' : Frame) (rest rest' : List Frame)
    (hf : eraseFrame (dropOpt f) = eraseFrame (dropOpt f')) (hr : rest.map eraseFrame = rest'.map eraseFrame) :
    eraseCfg (collapseInto f rest).cfg = eraseCfg (collapseInto f' rest').cfg := by
  have h1 : eraseCfg (collapseInto f rest).cfg = (collapseInto (dropOpt (eraseFrame f)) (rest.map eraseFrame)).cfg := by
    rw [collapseInto_dropOpt_cfg, ← collapseInto_erase]; rfl
  have h2 : eraseCfg (collapseInto f' rest').cfg = (collapseInto (dropOpt (eraseFrame f')) (rest'.map eraseFrame)).cfg := by
    rw [collapseInto_dropOpt_cfg, ← collapseInto_erase]; rfl
  rw [h1, h2, ← eraseFrame_dropOpt, ← eraseFrame_dropOpt, hf, hr]

theorem logsEq_fields {m m' : PM} (h : LogsEq m m') :
    m.status = m'.status ∧ m.trace = m'.trace ∧ m.diags.map eraseDiag = m'.diags.map eraseDiag ∧
    m.srcs.map eraseSrc = m'.srcs.map eraseSrc ∧ m.pendingInclude = m'.pendingInclude ∧ m.maxDepth = m'.maxDepth := by
  unfold LogsEq at h
  rw [erasePM_eq_iff] at h
  obtain ⟨_, h2, h3, h4, h5, h6, h7⟩ := h
  exact ⟨h3, h5, h4, h2, h6, h7⟩

theorem diags_cls_of_erase {a b : List Diag} (h : a.map eraseDiag = b.map eraseDiag) : a.map (·.cls) = b.map (·.cls) := by
  have := congrArg (List.map (·.cls)) h
  simpa [Function.comp_def, eraseDiag] using this

theorem stale_obs {m m' : PM} (h : Stale m m') : obs m = obs m' := by
  obtain ⟨hr, hr', f, rest, f', rest', hfr, hfr', _, _, _, hf, hrest, hl⟩ := h
  obtain ⟨_, l2, l3, _, _, _⟩ := logsEq_fields hl
  simp only [obs, hr, hr', l2, diags_cls_of_erase l3, hfr, hfr', collapse, Option.map_some, collapsed_cfg_eq f f' rest rest' hf hrest]

/-- rejecting from stale-related frames: the same observable outcome -/
theorem stoppedEq_reject (M M' : PM) (f f' : Frame) (rest rest' : List Frame) (hl : LogsEq M M')
    (hf : eraseFrame (dropOpt f) = eraseFrame (dropOpt f')) (hr : rest.map eraseFrame = rest'.map eraseFrame) :
    StoppedEq (M.reject f rest) (M'.reject f' rest') := by
  obtain ⟨_, l2, l3, _, _, _⟩ := logsEq_fields hl
  refine ⟨by simp, by simp, ?_⟩
  simp only [obs, PM.reject, collapse, Option.map_some, l2, diags_cls_of_erase l3, collapseInto, collapsed_cfg_eq f f' rest rest' hf hr]

theorem logsEq_addDiags (M M' : PM) (f f' : Frame) (cs : List DiagCls) (hl : LogsEq M M') :
    LogsEq (M.addDiags f cs) (M'.addDiags f' cs) := by
  unfold LogsEq at hl ⊢
  rw [erasePM_eq_iff] at hl ⊢
  obtain ⟨h1, h2, h3, h4, h5, h6, h7⟩ := hl
  refine ⟨rfl, h2, h3, ?_, h5, h6, h7⟩
  simp only [PM.addDiags, List.map_append, List.map_reverse, List.map_map, eraseDiag_comp_diag]
  simp only at h4
  rw [h4]
  congr 2
  apply List.map_congr_left
  intro c _
  simp [Frame.diag, eraseFrame]

theorem logsEq_addCalls (M M' : PM) (cs : List CbCall) (hl : LogsEq M M') : LogsEq (M.addCalls cs) (M'.addCalls cs) := by
  unfold LogsEq at hl ⊢
  rw [erasePM_eq_iff] at hl ⊢
  obtain ⟨h1, h2, h3, h4, h5, h6, h7⟩ := hl
  refine ⟨rfl, h2, h3, h4, ?_, h6, h7⟩
  simp only [PM.addCalls] at h5 ⊢
  rw [h5]

theorem stoppedEq_rejectWith (M M' : PM) (f f' : Frame) (rest rest' : List Frame) (c : DiagCls) (hl : LogsEq M M')
    (hf : eraseFrame (dropOpt f) = eraseFrame (dropOpt f')) (hr : rest.map eraseFrame = rest'.map eraseFrame) :
    StoppedEq (M.rejectWith f rest c) (M'.rejectWith f' rest' c) := by
  unfold PM.rejectWith
  exact stoppedEq_reject _ _ f f' rest rest' (logsEq_addDiags M M' f f' [c] hl) hf hr


theorem erase_of_logs (X X' : PM) (fs fs' : List Frame) (hl : LogsEq X X') (hfs : fs.map eraseFrame = fs'.map eraseFrame) :
    erasePM { X with frames := fs } = erasePM { X' with frames := fs' } := by
  unfold LogsEq at hl
  rw [erasePM_eq_iff] at hl ⊢
  obtain ⟨_, h2, h3, h4, h5, h6, h7⟩ := hl
  exact ⟨hfs, h2, h3, h4, h5, h6, h7⟩

theorem erase_of_logs_st (X X' : PM) (fs fs' : List Frame) (st : Status) (hl : LogsEq X X') (hfs : fs.map eraseFrame = fs'.map eraseFrame) :
    erasePM { X with frames := fs, status := st } = erasePM { X' with frames := fs', status := st } := by
  unfold LogsEq at hl
  rw [erasePM_eq_iff] at hl ⊢
  obtain ⟨_, h2, h3, h4, h5, h6, h7⟩ := hl
  exact ⟨hfs, h2, rfl, h4, h5, h6, h7⟩

theorem logsEq_setFrames (X X' : PM) (fs fs' : List Frame) (hl : LogsEq X X') : LogsEq { X with frames := fs } { X' with frames := fs' } := hl

theorem stale_fields {f f' : Frame} (h : eraseFrame (dropOpt f) = eraseFrame (dropOpt f')) :
    eraseCfg f.cfg = eraseCfg f'.cfg ∧ f.level = f'.level ∧ f.state = f'.state ∧ f.opttitle = f'.opttitle ∧
    f.funcargs = f'.funcargs ∧ f.ignore = f'.ignore ∧ f.depth = f'.depth ∧ f.numValues = f'.numValues ∧ f.back = f'.back := by
  rw [eraseFrame_eq_iff] at h
  obtain ⟨a1, a2, a3, _, a5, a6, a7, a8, a9, a10⟩ := h
  exact ⟨a1, a2, a3, a5, a6, a7, a8, a9, a10⟩

theorem stale_addLine {f f' : Frame} (n n' : Nat) (h : eraseFrame (dropOpt f) = eraseFrame (dropOpt f')) :
    eraseFrame (dropOpt (f.addLine n)) = eraseFrame (dropOpt (f'.addLine n')) := by
  obtain ⟨a1, a2, a3, a5, a6, a7, a8, a9, a10⟩ := stale_fields h
  rw [eraseFrame_eq_iff]
  simp only [dropOpt, Frame.addLine, eraseCfg_setLine]
  exact ⟨a1, a2, a3, trivial, a5, a6, a7, a8, a9, a10⟩

/-- frames that agree up to the stale option agree once the option is overwritten -/
theorem stale_set (f f' : Frame) (h : eraseFrame (dropOpt f) = eraseFrame (dropOpt f')) (o : Option OptRef) (st : PState) :
    eraseFrame { f with opt := o, state := st } = eraseFrame { f' with opt := o, state := st } := by
  obtain ⟨a1, a2, a3, a5, a6, a7, a8, a9, a10⟩ := stale_fields h
  rw [eraseFrame_eq_iff]
  exact ⟨a1, a2, rfl, rfl, a5, a6, a7, a8, a9, a10⟩


theorem getoptPath_of_erase {c c' : Cfg} (h : eraseCfg c = eraseCfg c') (v : Bytes) : getoptPath c v = getoptPath c' v := by
  rw [← getoptPath_erase c v, ← getoptPath_erase c' v, h]

/-- state 0 on stale-related frames -/
theorem step_s0_stale (orc : Oracle) (M M' : PM) (F F' : Frame) (rest rest' : List Frame) (tok : Tok)
    (hrun : M.status = .running) (hrun' : M'.status = .running)
    (hl : LogsEq M M') (hf : eraseFrame (dropOpt F) = eraseFrame (dropOpt F')) (hr : rest.map eraseFrame = rest'.map eraseFrame)
    (hnp : noPendingDeprecated F) (hnp' : noPendingDeprecated F') (hs0 : F.state = .s0) :
    Sim (step_s0 orc M F rest tok) (step_s0 orc M' F' rest' tok) := by
  obtain ⟨a1, a2, a3, a5, a6, a7, a8, a9, a10⟩ := stale_fields hf
  unfold step_s0
  rw [handleDeprecated_id _ _ hnp, handleDeprecated_id _ _ hnp']
  simp only []
  cases tok with
  | rbrace =>
    cases rest with
    | nil =>
      cases rest' with
      | nil => exact Or.inr (Or.inr (stoppedEq_rejectWith M M' F F' [] [] _ hl hf rfl))
      | cons _ _ => simp at hr
    | cons p rs =>
      cases rest' with
      | nil => simp at hr
      | cons p' rs' =>
        simp only [List.map_cons, List.cons.injEq] at hr
        obtain ⟨hp, hrs⟩ := hr
        simp only [a2]
        split
        · exact Or.inr (Or.inr (stoppedEq_rejectWith M M' F F' _ _ _ hl hf (by simp [hp, hrs])))
        · left
          have e1 : eraseFrame (writeBack p F) = eraseFrame (writeBack p' F') := by
            rw [← writeBack_dropOpt p F, ← writeBack_dropOpt p' F', writeBack_erase, writeBack_erase, hp, hf]
          have hline : True := trivial
          generalize writeBack p F = w at e1 ⊢
          generalize writeBack p' F' = w' at e1 ⊢
          have hp2 : eraseFrame { w with cfg := w.cfg.afterSection F.cfg } = eraseFrame { w' with cfg := w'.cfg.afterSection F'.cfg } := by
            rw [eraseFrame_eq_iff] at e1 ⊢
            obtain ⟨b1, b2, b3, b4, b5, b6, b7, b8, b9, b10⟩ := e1
            exact ⟨by simpa using b1, b2, b3, b4, b5, b6, b7, b8, b9, b10⟩
          have hp3 : eraseFrame { w with cfg := w.cfg.afterSection F.cfg, state := .s0 } = eraseFrame { w' with cfg := w'.cfg.afterSection F'.cfg, state := .s0 } := by
            rw [eraseFrame_eq_iff] at e1 ⊢
            obtain ⟨b1, b2, b3, b4, b5, b6, b7, b8, b9, b10⟩ := e1
            exact ⟨by simpa using b1, b2, rfl, b4, b5, b6, b7, b8, b9, b10⟩
          simp only [runValid_spec]
          have hk : M.k = M'.k := by
            obtain ⟨_, l2, _⟩ := logsEq_fields hl
            simp [PM.k, l2]
          have hvv : validVerdict orc M.k { w with cfg := w.cfg.afterSection F.cfg } = validVerdict orc M'.k { w' with cfg := w'.cfg.afterSection F'.cfg } := by
            rw [← validVerdict_erase orc M.k _, ← validVerdict_erase orc M'.k _, hp2, hk]
          rw [← hvv]
          cases validVerdict orc M.k { w with cfg := w.cfg.afterSection F.cfg } with
          | none =>
            simp only [Option.map_none]
            have hve : erasePM (vetoed orc M { w with cfg := w.cfg.afterSection F.cfg }) = erasePM (vetoed orc M' { w' with cfg := w'.cfg.afterSection F'.cfg }) ∨ True := Or.inr trivial
            have hlv : LogsEq (vetoed orc M { w with cfg := w.cfg.afterSection F.cfg }) (vetoed orc M' { w' with cfg := w'.cfg.afterSection F'.cfg }) := by
              unfold LogsEq
              have h1 := vetoed_erase orc { M with frames := [] } { w with cfg := w.cfg.afterSection F.cfg }
              have h2 := vetoed_erase orc { M' with frames := [] } { w' with cfg := w'.cfg.afterSection F'.cfg }
              have hM : erasePM { M with frames := [] } = erasePM { M' with frames := [] } := hl
              rw [hM, hp2] at h1
              have e3 : ∀ (X : PM) (g : Frame), ({ vetoed orc X g with frames := [] } : PM) = vetoed orc { X with frames := [] } g := by
                intro X g
                unfold vetoed
                repeat' split
                all_goals rfl
              rw [e3, e3, h1, h2]
            unfold PM.reject
            simp only [collapse]
            refine erase_of_logs_st _ _ [_] [_] _ hlv ?_
            simp only [List.map_cons, List.map_nil, collapseInto_erase, hp2, hrs]
          | some cs =>
            simp only [Option.map_some]
            refine erase_of_logs _ _ (_ :: _) (_ :: _) (logsEq_addCalls M M' cs hl) ?_
            simp only [List.map_cons, hrs, hp3]
  | comment v =>
    have hfl : F.cfg.flags = F'.cfg.flags := by
      have := congrArg Cfg.flags a1; simpa using this
    simp only [hfl]
    split
    · right; left
      refine ⟨hrun, hrun', _, rest, _, rest', rfl, rfl, hs0, ?_, ?_, ?_, hr, hl⟩
      · intro r o h1 h2; exact hnp r o h1 h2
      · intro r o h1 h2; exact hnp' r o h1 h2
      · rw [eraseFrame_eq_iff] at hf ⊢
        exact hf
    · right; left
      exact ⟨hrun, hrun', F, rest, F', rest', rfl, rfl, hs0, hnp, hnp', hf, hr, hl⟩
  | str v =>
    simp only []
    rw [getoptPath_of_erase a1 v]
    have hfl : F.cfg.flags = F'.cfg.flags := by
      have := congrArg Cfg.flags a1; simpa using this
    have hlog : LogsEq (M.addDiags F (getoptPath F'.cfg v).diags) (M'.addDiags F' (getoptPath F'.cfg v).diags) :=
      logsEq_addDiags M M' F F' _ hl
    generalize getoptPath F'.cfg v = gp at hlog ⊢
    generalize M.addDiags F gp.diags = M1 at hlog ⊢
    generalize M'.addDiags F' gp.diags = M1' at hlog ⊢
    cases gp.ref with
    | none =>
      simp only [hfl]
      split
      · left
        exact erase_of_logs _ _ _ _ hlog (by simp only [List.map_cons, hr, stale_set F F' hf none .s10])
      · split
        · left
          refine erase_of_logs _ _ _ _ hlog ?_
          simp only [List.map_cons, hr, List.cons.injEq, and_true]
          have hlen : F.cfg.opts.length = F'.cfg.opts.length := by
            have := congrArg (fun c => c.opts.length) a1; simpa using this
          rw [eraseFrame_eq_iff]
          refine ⟨?_, a2, rfl, by simp [hlen], a5, a6, a7, a8, a9, a10⟩
          have ho : (eraseCfg F.cfg).opts = (eraseCfg F'.cfg).opts := by rw [a1]
          have hi : (eraseCfg F.cfg).info = (eraseCfg F'.cfg).info := by rw [a1]
          simp only [setOpts_erase, List.map_append, a1]
          simp only [eraseCfg_opts] at ho
          rw [ho]
        · split
          · exact Or.inr (Or.inr (stoppedEq_rejectWith M1 M1' _ _ rest rest' _ hlog hf hr))
          · exact Or.inr (Or.inr (stoppedEq_reject M1 M1' _ _ rest rest' hlog hf hr))
    | some ref =>
      simp only []
      have hg := eraseCfg_eq_getOpt a1 ref
      cases h1 : F.cfg.getOpt ref with
      | none =>
        cases h2 : F'.cfg.getOpt ref with
        | none => exact Or.inr (Or.inr (stoppedEq_reject M1 M1' F F' rest rest' hlog hf hr))
        | some o' => simp [h1, h2] at hg
      | some o =>
        cases h2 : F'.cfg.getOpt ref with
        | none => simp [h1, h2] at hg
        | some o' =>
          have hoo : eraseOpt o = eraseOpt o' := by simpa [h1, h2] using hg
          have hty : o.ty = o'.ty := by have := congrArg Opt.ty hoo; simpa using this
          have htt : o.flags.title = o'.flags.title := by have := congrArg (fun x => x.flags.title) hoo; simpa using this
          simp only [hty, htt]
          left
          exact erase_of_logs _ _ _ _ hlog (by simp only [List.map_cons, hr, stale_set F F' hf (some ref) _])
  | _ => exact Or.inr (Or.inr (stoppedEq_rejectWith M M' F F' rest rest' _ hl hf hr))


theorem sim_step (orc : Oracle) (m m' : PM) (t : Tok) (n n' : Nat) (h : Sim m m') :
    Sim (pstep orc m t n) (pstep orc m' t n') := by
  rcases h with h | h | h
  · exact Or.inl (pstep_erase_congr orc m m' t n n' h)
  · obtain ⟨hrun, hrun', f, rest, f', rest', hfr, hfr', hs0, hnp, hnp', hf, hr, hl⟩ := h
    have hs0' : f'.state = .s0 := by rw [← (stale_fields hf).2.2.1]; exact hs0
    have hF := stale_addLine n n' hf
    have hnpF := noPending_addLine f n hnp
    have hnpF' := noPending_addLine f' n' hnp'
    have hlM : LogsEq ({ m with frames := f.addLine n :: rest } : PM) ({ m' with frames := f'.addLine n' :: rest' } : PM) := hl
    cases t with
    | err e =>
      rw [pstep_err orc m f rest e n hrun hfr, pstep_err orc m' f' rest' e n' hrun' hfr']
      exact Or.inr (Or.inr (stoppedEq_rejectWith _ _ _ _ rest rest' _ hlM hF hr))
    | eof =>
      rw [pstep_eof orc m f rest n hrun hfr, pstep_eof orc m' f' rest' n' hrun' hfr']
      have hlev : f.level = f'.level := (stale_fields hf).2.1
      simp only [hs0, hs0', hlev]
      split
      · exact Or.inr (Or.inr (stoppedEq_rejectWith _ _ _ _ rest rest' _ hlM hF hr))
      · rw [handleDeprecated_id _ _ hnpF, handleDeprecated_id _ _ hnpF']
        refine Or.inr (Or.inr ⟨by simp, by simp, ?_⟩)
        obtain ⟨_, l2, l3, _, _, _⟩ := logsEq_fields hlM
        simp only [obs, collapse, collapseInto, Option.map_some]
        have := collapsed_cfg_eq (f.addLine n) (f'.addLine n') [] [] hF rfl
        simp only [collapseInto] at this
        simp only [this]
        simp only at l2 l3
        rw [l2, diags_cls_of_erase l3]
    | comment v =>
      rw [pstep_running orc m f rest _ n hrun hfr rfl (Or.inr hs0), pstep_running orc m' f' rest' _ n' hrun' hfr' rfl (Or.inr hs0')]
      simp only [hs0, hs0']
      exact step_s0_stale orc _ _ _ _ rest rest' _ hrun hrun' hlM hF hr hnpF hnpF' hs0
    | str v =>
      rw [pstep_running orc m f rest _ n hrun hfr rfl (Or.inl rfl), pstep_running orc m' f' rest' _ n' hrun' hfr' rfl (Or.inl rfl)]
      simp only [hs0, hs0']
      exact step_s0_stale orc _ _ _ _ rest rest' _ hrun hrun' hlM hF hr hnpF hnpF' hs0
    | lbrace =>
      rw [pstep_running orc m f rest _ n hrun hfr rfl (Or.inl rfl), pstep_running orc m' f' rest' _ n' hrun' hfr' rfl (Or.inl rfl)]
      simp only [hs0, hs0']
      exact step_s0_stale orc _ _ _ _ rest rest' _ hrun hrun' hlM hF hr hnpF hnpF' hs0
    | rbrace =>
      rw [pstep_running orc m f rest _ n hrun hfr rfl (Or.inl rfl), pstep_running orc m' f' rest' _ n' hrun' hfr' rfl (Or.inl rfl)]
      simp only [hs0, hs0']
      exact step_s0_stale orc _ _ _ _ rest rest' _ hrun hrun' hlM hF hr hnpF hnpF' hs0
    | lparen =>
      rw [pstep_running orc m f rest _ n hrun hfr rfl (Or.inl rfl), pstep_running orc m' f' rest' _ n' hrun' hfr' rfl (Or.inl rfl)]
      simp only [hs0, hs0']
      exact step_s0_stale orc _ _ _ _ rest rest' _ hrun hrun' hlM hF hr hnpF hnpF' hs0
    | rparen =>
      rw [pstep_running orc m f rest _ n hrun hfr rfl (Or.inl rfl), pstep_running orc m' f' rest' _ n' hrun' hfr' rfl (Or.inl rfl)]
      simp only [hs0, hs0']
      exact step_s0_stale orc _ _ _ _ rest rest' _ hrun hrun' hlM hF hr hnpF hnpF' hs0
    | eq =>
      rw [pstep_running orc m f rest _ n hrun hfr rfl (Or.inl rfl), pstep_running orc m' f' rest' _ n' hrun' hfr' rfl (Or.inl rfl)]
      simp only [hs0, hs0']
      exact step_s0_stale orc _ _ _ _ rest rest' _ hrun hrun' hlM hF hr hnpF hnpF' hs0
    | pluseq =>
      rw [pstep_running orc m f rest _ n hrun hfr rfl (Or.inl rfl), pstep_running orc m' f' rest' _ n' hrun' hfr' rfl (Or.inl rfl)]
      simp only [hs0, hs0']
      exact step_s0_stale orc _ _ _ _ rest rest' _ hrun hrun' hlM hF hr hnpF hnpF' hs0
    | comma =>
      rw [pstep_running orc m f rest _ n hrun hfr rfl (Or.inl rfl), pstep_running orc m' f' rest' _ n' hrun' hfr' rfl (Or.inl rfl)]
      simp only [hs0, hs0']
      exact step_s0_stale orc _ _ _ _ rest rest' _ hrun hrun' hlM hF hr hnpF hnpF' hs0
  · obtain ⟨h1, h2, h3⟩ := h
    rw [pstep_stopped orc m t n h1, pstep_stopped orc m' t n' h2]
    exact Or.inr (Or.inr ⟨h1, h2, h3⟩)

theorem sim_parse (orc : Oracle) : ∀ (ts ts' : List LTok) (m m' : PM), ts.map (·.1) = ts'.map (·.1) → Sim m m' →
    Sim (parseToks orc m ts) (parseToks orc m' ts')
  | [], [], _, _, _, h => h
  | [], _ :: _, _, _, ht, _ => by simp at ht
  | _ :: _, [], _, _, ht, _ => by simp at ht
  | t :: ts, t' :: ts', m, m', ht, h => by
    simp only [List.map_cons, List.cons.injEq] at ht
    rw [parseToks_cons, parseToks_cons]
    refine sim_parse orc ts ts' _ _ ht.2 ?_
    rw [ht.1]
    exact sim_step orc m m' t'.1 t.2 t'.2 h

theorem sim_obs {m m' : PM} (h : Sim m m') : obs m = obs m' := by
  rcases h with h | h | h
  · exact obs_of_erase h
  · exact stale_obs h
  · exact h.2.2

/-- **C12 (insertion).** Let an undeclared item `unk` be skipped at an item boundary, i.e. its tokens
bring the machine back to the same frame with the same tree (any of `C12_skip_*`).  Then whatever
follows — any token sequence `post`, well-formed or not — is parsed to the same observable outcome
as without the item: same acceptance, same values at every depth, same callback invocations, same
diagnostic classes in the same order.  (Positions in later diagnostics shift by the item's lines,
a pending annotation is dropped, and the parser's stale "current option" local differs: none of the
three can reach a value.) -/
theorem C12_insert (orc : Oracle) (m : PM) (f g : Frame) (rest : List Frame) (unk post : List LTok)
    (hrun : m.status = .running) (hfr : m.frames = f :: rest) (hs0 : f.state = .s0) (hnp : noPendingDeprecated f)
    (hskip : parseToks orc m unk = { m with frames := g :: rest })
    (hg : eraseFrame (dropOpt g) = eraseFrame (dropOpt f)) (hgo : g.opt = none) :
    obs (parseToks orc m (unk ++ post)) = obs (parseToks orc m post) := by
  rw [parseToks_append', hskip]
  apply sim_obs
  refine sim_parse orc post post _ _ rfl (Or.inr (Or.inl ?_))
  have hgs : g.state = .s0 := by rw [(stale_fields hg).2.2.1]; exact hs0
  refine ⟨hrun, hrun, g, rest, f, rest, rfl, hfr, hgs, ?_, hnp, hg, rfl, ?_⟩
  · intro r o hr _; rw [hgo] at hr; simp at hr
  · rfl


theorem skipped_rel (f : Frame) (n : Nat) (hs0 : f.state = .s0) :
    eraseFrame (dropOpt (f.skipped n)) = eraseFrame (dropOpt f) := by
  rw [eraseFrame_eq_iff]
  simp [Frame.skipped, Frame.addLine, dropOpt, hs0]

theorem skipped_rel_ignore (f : Frame) (n : Nat) (hs0 : f.state = .s0) (hi : f.ignore = .none) :
    eraseFrame (dropOpt { f.skipped n with ignore := .none }) = eraseFrame (dropOpt f) := by
  rw [eraseFrame_eq_iff]
  simp [Frame.skipped, Frame.addLine, dropOpt, hs0, hi]

theorem skipped_rel_depth (f : Frame) (n : Nat) (hs0 : f.state = .s0) (hd : f.depth = 0) :
    eraseFrame (dropOpt { f.skipped n with depth := 0 }) = eraseFrame (dropOpt f) := by
  rw [eraseFrame_eq_iff]
  simp [Frame.skipped, Frame.addLine, dropOpt, hs0, hd]

/-- `unknown = value` / `unknown += value` inserted before any `post` -/
theorem C12_insert_value (orc : Oracle) (m : PM) (f : Frame) (rest : List Frame) (name v : Bytes) (asg : Tok) (n1 n2 n3 : Nat)
    (post : List LTok) (hrun : m.status = .running) (hfr : m.frames = f :: rest) (hu : UnknownHere f name)
    (hasg : asg = .eq ∨ asg = .pluseq) :
    obs (parseToks orc m ([(.str name, n1), (asg, n2), (.str v, n3)] ++ post)) = obs (parseToks orc m post) :=
  C12_insert orc m f _ rest _ post hrun hfr hu.1 hu.2.2.2.2
    (C12_skip_value orc m f rest name v asg n1 n2 n3 hrun hfr hu hasg) (skipped_rel f _ hu.1) rfl

/-- `unknown = { … }` / `unknown += { … }` -/
theorem C12_insert_list (orc : Oracle) (m : PM) (f : Frame) (rest : List Frame) (name : Bytes) (asg : Tok) (n1 n2 n3 n4 : Nat)
    (body post : List LTok) (hrun : m.status = .running) (hfr : m.frames = f :: rest) (hu : UnknownHere f name)
    (hasg : asg = .eq ∨ asg = .pluseq) (hbody : ∀ t ∈ body, t.1.inner = true ∧ t.1 ≠ .rbrace) (hi : f.ignore = .none) :
    obs (parseToks orc m (([(.str name, n1), (asg, n2), (.lbrace, n3)] ++ body ++ [(.rbrace, n4)]) ++ post)) = obs (parseToks orc m post) :=
  C12_insert orc m f _ rest _ post hrun hfr hu.1 hu.2.2.2.2
    (C12_skip_list orc m f rest name asg n1 n2 n3 n4 body hrun hfr hu hasg hbody) (skipped_rel_ignore f _ hu.1 hi) rfl

/-- `unknown( … )` -/
theorem C12_insert_call (orc : Oracle) (m : PM) (f : Frame) (rest : List Frame) (name : Bytes) (n1 n2 n3 : Nat)
    (body post : List LTok) (hrun : m.status = .running) (hfr : m.frames = f :: rest) (hu : UnknownHere f name)
    (hbody : ∀ t ∈ body, t.1.inner = true ∧ t.1 ≠ .rparen) (hi : f.ignore = .none) :
    obs (parseToks orc m (([(.str name, n1), (.lparen, n2)] ++ body ++ [(.rparen, n3)]) ++ post)) = obs (parseToks orc m post) :=
  C12_insert orc m f _ rest _ post hrun hfr hu.1 hu.2.2.2.2
    (C12_skip_call orc m f rest name n1 n2 n3 body hrun hfr hu hbody) (skipped_rel_ignore f _ hu.1 hi) rfl

/-- `unknown { … }` with any brace-balanced content of any size and nesting -/
theorem C12_insert_section (orc : Oracle) (m : PM) (f : Frame) (rest : List Frame) (name : Bytes) (n1 n2 n3 : Nat)
    (body post : List LTok) (hrun : m.status = .running) (hfr : m.frames = f :: rest) (hu : UnknownHere f name)
    (hin : ∀ t ∈ body, t.1.inner = true) (hbal : depthAfter 1 body = some 1) (hd : f.depth = 0) :
    obs (parseToks orc m (([(.str name, n1), (.lbrace, n2)] ++ body ++ [(.rbrace, n3)]) ++ post)) = obs (parseToks orc m post) :=
  C12_insert orc m f _ rest _ post hrun hfr hu.1 hu.2.2.2.2
    (C12_skip_section orc m f rest name n1 n2 n3 body hrun hfr hu hin hbal) (skipped_rel_depth f _ hu.1 hd) rfl

/-- `unknown title { … }` -/
theorem C12_insert_titled_section (orc : Oracle) (m : PM) (f : Frame) (rest : List Frame) (name title : Bytes) (n1 n2 n3 n4 : Nat)
    (body post : List LTok) (hrun : m.status = .running) (hfr : m.frames = f :: rest) (hu : UnknownHere f name)
    (hin : ∀ t ∈ body, t.1.inner = true) (hbal : depthAfter 1 body = some 1) (hd : f.depth = 0) :
    obs (parseToks orc m (([(.str name, n1), (.str title, n2), (.lbrace, n3)] ++ body ++ [(.rbrace, n4)]) ++ post)) = obs (parseToks orc m post) :=
  C12_insert orc m f _ rest _ post hrun hfr hu.1 hu.2.2.2.2
    (C12_skip_titled_section orc m f rest name title n1 n2 n3 n4 body hrun hfr hu hin hbal) (skipped_rel_depth f _ hu.1 hd) rfl

end Confuse

namespace Confuse

/-- at a boundary of a machine that satisfies the invariant the skip locals are clear -/
theorem clear_at_boundary (m : PM) (f : Frame) (rest : List Frame) (hinv : InvM m) (hfr : m.frames = f :: rest) (hs0 : f.state = .s0) :
    f.depth = 0 ∧ f.ignore = .none := by
  have := hinv.1 f (by simp [hfr])
  exact ⟨this.1 (by simp [hs0]), this.2 (by simp [hs0])⟩

/-- **C12 (insertion, at any boundary reached by a parse).** `pre` is any token sequence parsed from
the machine a parse starts with; if that leaves the parser at an item boundary where `name` is
undeclared (and not right after a deprecated option), then inserting the section `name { body }` —
`body` any brace-balanced token sequence — before any continuation `post` does not change the
observable outcome. -/
theorem C12_insert_reachable (orc : Oracle) (c : Cfg) (text : Bytes) (k0 : Nat) (pre body post : List LTok)
    (f : Frame) (rest : List Frame) (name : Bytes) (n1 n2 n3 : Nat)
    (hrun : (parseToks orc (startPM c text k0) pre).status = .running)
    (hfr : (parseToks orc (startPM c text k0) pre).frames = f :: rest) (hu : UnknownHere f name)
    (hin : ∀ t ∈ body, t.1.inner = true) (hbal : depthAfter 1 body = some 1) :
    obs (parseToks orc (startPM c text k0) (pre ++ (([(.str name, n1), (.lbrace, n2)] ++ body ++ [(.rbrace, n3)]) ++ post))) =
      obs (parseToks orc (startPM c text k0) (pre ++ post)) := by
  rw [parseToks_append', parseToks_append' orc _ pre post]
  have hinv := parseToks_inv orc pre _ (startPM_inv c text k0)
  exact C12_insert_section orc _ f rest name n1 n2 n3 body post hrun hfr hu hin hbal
    (clear_at_boundary _ f rest hinv hfr hu.1).1

end Confuse

namespace Confuse
/-! ### non-vacuity: the hypotheses of `C12_insert_section` hold at the start of a parse -/
private def exCfg : Cfg := cfgInit [ .mk { name := [97], ty := .int, defInt := 5 } {} [] ] { ignoreUnknown := true }
private def exF : Frame := { cfg := exCfg }
private def exM0 : PM := { frames := [exF], srcs := [] }

example (orc : Oracle) (post : List LTok) :
    obs (parseToks orc exM0 (([(.str [122], 0), (.lbrace, 0)] ++ [(.str [113], 1), (.eq, 0), (.str [49], 0), (.str [117], 0), (.lbrace, 0), (.rbrace, 2)] ++ [(.rbrace, 0)]) ++ post)) =
      obs (parseToks orc exM0 post) :=
  C12_insert_section orc exM0 exF [] [122] 0 0 0 _ post rfl rfl
    ⟨rfl, by decide +kernel, by decide +kernel, by decide +kernel, by intro r o h; simp [exF] at h⟩
    (by decide) (by decide) rfl
end Confuse
