import Confuse.Lemmas.Parser
/-!
# C12 — with ignore-unknown set, undeclared items are skipped cleanly

`C12_skip_*`: from an item boundary (state 0 of any frame at any depth) an undeclared name followed
by any well-formed item body — a value, a list, an append, a call, a plain or titled section whose
content is *any* brace-balanced token sequence of any size and nesting — brings the machine back to
the same boundary with the same tree, no diagnostic and no new stack frame.
-/
namespace Confuse

/-- tokens that may occur inside skipped text (everything but end of input and scanner errors) -/
def Tok.inner : Tok → Bool
  | .eof => false
  | .err _ => false
  | _ => true

def sumNl (ts : List (Tok × Nat)) : Nat := (ts.map (·.2)).sum

/-- brace depth after a token sequence inside an unknown section; `none` if the section would
close early -/
def depthAfter : Nat → List (Tok × Nat) → Option Nat
  | d, [] => some d
  | d, (.lbrace, _) :: ts => depthAfter (d + 1) ts
  | d, (.rbrace, _) :: ts => if d ≤ 1 then none else depthAfter (d - 1) ts
  | d, _ :: ts => depthAfter d ts

/-- advance the frame's line, leave everything else -/
def Frame.addLine (f : Frame) (n : Nat) : Frame := { f with cfg := f.cfg.setLine (f.cfg.line + n) }

theorem addLine_addLine (f : Frame) (a b : Nat) : (f.addLine a).addLine b = f.addLine (a + b) := by
  obtain ⟨⟨i, o⟩, _⟩ := f
  simp [Frame.addLine, Cfg.setLine, Cfg.setInfo, Cfg.line, Cfg.info, Cfg.opts, Nat.add_assoc]

@[simp] theorem setLine_setLine (c : Cfg) (x y : Nat) : (c.setLine x).setLine y = c.setLine y := by
  obtain ⟨i, o⟩ := c; rfl

theorem parseToks_append' (orc : Oracle) (m : PM) (a b : List (Tok × Nat)) :
    parseToks orc m (a ++ b) = parseToks orc (parseToks orc m a) b := by
  simp [parseToks, List.foldl_append]

theorem addLine_zero (f : Frame) : f.addLine 0 = f := by
  obtain ⟨⟨i, o⟩, _⟩ := f
  simp [Frame.addLine, Cfg.setLine, Cfg.setInfo, Cfg.line, Cfg.info, Cfg.opts]

/-- what a step does to a running machine whose top frame is `f`, in terms of the per-state function -/
theorem pstep_running (orc : Oracle) (m : PM) (f : Frame) (rest : List Frame) (tok : Tok) (nl : Nat)
    (hrun : m.status = .running) (hfr : m.frames = f :: rest) (hin : tok.inner = true)
    (hnc : (match tok with | .comment _ => true | _ => false) = false ∨ f.state = .s0) :
    pstep orc m tok nl =
      (match f.state with
      | .s0 => step_s0 orc { m with frames := f.addLine nl :: rest } (f.addLine nl) rest tok
      | .s1 => step_s1 orc { m with frames := f.addLine nl :: rest } (f.addLine nl) rest tok
      | .s2 => step_s2 orc { m with frames := f.addLine nl :: rest } (f.addLine nl) rest tok
      | .s3 => step_s3 orc { m with frames := f.addLine nl :: rest } (f.addLine nl) rest tok
      | .s4 => step_s4 orc { m with frames := f.addLine nl :: rest } (f.addLine nl) rest tok
      | .s5 => step_s5 orc { m with frames := f.addLine nl :: rest } (f.addLine nl) rest tok
      | .s6 => step_s6 orc { m with frames := f.addLine nl :: rest } (f.addLine nl) rest tok
      | .s7 => step_s7 orc { m with frames := f.addLine nl :: rest } (f.addLine nl) rest tok
      | .s8 => step_s8 orc { m with frames := f.addLine nl :: rest } (f.addLine nl) rest tok
      | .s9 => step_s9 orc { m with frames := f.addLine nl :: rest } (f.addLine nl) rest tok
      | .s10 => step_s10 orc { m with frames := f.addLine nl :: rest } (f.addLine nl) rest tok
      | .s11 => step_s11 orc { m with frames := f.addLine nl :: rest } (f.addLine nl) rest tok
      | .s12 => step_s12 orc { m with frames := f.addLine nl :: rest } (f.addLine nl) rest tok
      | .s13 => step_s13 orc { m with frames := f.addLine nl :: rest } (f.addLine nl) rest tok
      | .s14 => step_s14 orc { m with frames := f.addLine nl :: rest } (f.addLine nl) rest tok) := by
  unfold pstep
  simp only [hrun, hfr, bne_self_eq_false, Bool.false_eq_true, if_false]
  cases tok with
  | eof => simp [Tok.inner] at hin
  | err e => simp [Tok.inner] at hin
  | comment v =>
    rcases hnc with h | h
    · simp at h
    · obtain ⟨cfg, level, state, opt, comment, opttitle, funcargs, ignore, depth, numValues, back⟩ := f
      simp only at h
      subst h
      rfl
  | str v => obtain ⟨cfg, level, state, opt, comment, opttitle, funcargs, ignore, depth, numValues, back⟩ := f; cases state <;> rfl
  | lbrace => obtain ⟨cfg, level, state, opt, comment, opttitle, funcargs, ignore, depth, numValues, back⟩ := f; cases state <;> rfl
  | rbrace => obtain ⟨cfg, level, state, opt, comment, opttitle, funcargs, ignore, depth, numValues, back⟩ := f; cases state <;> rfl
  | lparen => obtain ⟨cfg, level, state, opt, comment, opttitle, funcargs, ignore, depth, numValues, back⟩ := f; cases state <;> rfl
  | rparen => obtain ⟨cfg, level, state, opt, comment, opttitle, funcargs, ignore, depth, numValues, back⟩ := f; cases state <;> rfl
  | eq => obtain ⟨cfg, level, state, opt, comment, opttitle, funcargs, ignore, depth, numValues, back⟩ := f; cases state <;> rfl
  | pluseq => obtain ⟨cfg, level, state, opt, comment, opttitle, funcargs, ignore, depth, numValues, back⟩ := f; cases state <;> rfl
  | comma => obtain ⟨cfg, level, state, opt, comment, opttitle, funcargs, ignore, depth, numValues, back⟩ := f; cases state <;> rfl

/-- the same for a machine written as `{ m with frames := f :: rest }` -/
theorem pstep_at (orc : Oracle) (m : PM) (f : Frame) (rest : List Frame) (tok : Tok) (nl : Nat)
    (hrun : m.status = .running) (hin : tok.inner = true)
    (hnc : (match tok with | .comment _ => true | _ => false) = false ∨ f.state = .s0) :
    pstep orc { m with frames := f :: rest } tok nl =
      (match f.state with
      | .s0 => step_s0 orc { m with frames := f.addLine nl :: rest } (f.addLine nl) rest tok
      | .s1 => step_s1 orc { m with frames := f.addLine nl :: rest } (f.addLine nl) rest tok
      | .s2 => step_s2 orc { m with frames := f.addLine nl :: rest } (f.addLine nl) rest tok
      | .s3 => step_s3 orc { m with frames := f.addLine nl :: rest } (f.addLine nl) rest tok
      | .s4 => step_s4 orc { m with frames := f.addLine nl :: rest } (f.addLine nl) rest tok
      | .s5 => step_s5 orc { m with frames := f.addLine nl :: rest } (f.addLine nl) rest tok
      | .s6 => step_s6 orc { m with frames := f.addLine nl :: rest } (f.addLine nl) rest tok
      | .s7 => step_s7 orc { m with frames := f.addLine nl :: rest } (f.addLine nl) rest tok
      | .s8 => step_s8 orc { m with frames := f.addLine nl :: rest } (f.addLine nl) rest tok
      | .s9 => step_s9 orc { m with frames := f.addLine nl :: rest } (f.addLine nl) rest tok
      | .s10 => step_s10 orc { m with frames := f.addLine nl :: rest } (f.addLine nl) rest tok
      | .s11 => step_s11 orc { m with frames := f.addLine nl :: rest } (f.addLine nl) rest tok
      | .s12 => step_s12 orc { m with frames := f.addLine nl :: rest } (f.addLine nl) rest tok
      | .s13 => step_s13 orc { m with frames := f.addLine nl :: rest } (f.addLine nl) rest tok
      | .s14 => step_s14 orc { m with frames := f.addLine nl :: rest } (f.addLine nl) rest tok) :=
  pstep_running orc { m with frames := f :: rest } f rest tok nl hrun rfl hin hnc

/-- a comment in a state other than 0 only advances the line -/
theorem pstep_comment_skip (orc : Oracle) (m : PM) (f : Frame) (rest : List Frame) (v : Bytes) (nl : Nat)
    (hrun : m.status = .running) (hfr : m.frames = f :: rest) (hs : f.state ≠ .s0) :
    pstep orc m (.comment v) nl = { m with frames := f.addLine nl :: rest } := by
  unfold pstep
  have : (f.state != .s0) = true := by simpa using hs
  simp [hrun, hfr, this, Frame.addLine]

/-- **C12 (inside an unknown section).** Any token sequence whose braces stay open is swallowed:
only the brace depth (and the line) of the current frame change. -/
theorem C12_skip_body (orc : Oracle) (ts : List (Tok × Nat)) : ∀ (m : PM) (f : Frame) (rest : List Frame) (d d' : Nat),
    m.status = .running → m.frames = f :: rest → f.state = .s12 → f.depth = d →
    (∀ t ∈ ts, t.1.inner = true) → depthAfter d ts = some d' →
    parseToks orc m ts = { m with frames := { f.addLine (sumNl ts) with depth := d' } :: rest } := by
  induction ts with
  | nil =>
    intro m f rest d d' _ hfr _ hd _ hda
    simp only [depthAfter, Option.some.injEq] at hda
    subst hda
    simp only [parseToks, List.foldl_nil, sumNl, List.map_nil, List.sum_nil, addLine_zero]
    cases m; cases f; simp_all
  | cons t ts ih =>
    intro m f rest d d' hrun hfr hs hd hin hda
    obtain ⟨tok, nl⟩ := t
    have hin1 : tok.inner = true := hin (tok, nl) (by simp)
    have hin2 : ∀ t ∈ ts, t.1.inner = true := fun t ht => hin t (by simp [ht])
    have hsum : sumNl ((tok, nl) :: ts) = nl + sumNl ts := by simp [sumNl]
    simp only [parseToks, List.foldl_cons]
    have hne : f.state ≠ .s0 := by rw [hs]; simp
    -- one step
    have step : ∃ d1, pstep orc m tok nl = { m with frames := { f.addLine nl with depth := d1 } :: rest } ∧
        depthAfter d ((tok, nl) :: ts) = depthAfter d1 ts := by
      cases tok with
      | eof => simp [Tok.inner] at hin1
      | err e => simp [Tok.inner] at hin1
      | comment v =>
        refine ⟨d, ?_, by simp [depthAfter]⟩
        rw [pstep_comment_skip orc m f rest v nl hrun hfr hne]
        simp [Frame.addLine, hd]
      | lbrace =>
        refine ⟨d + 1, ?_, by simp [depthAfter]⟩
        rw [pstep_running orc m f rest .lbrace nl hrun hfr rfl (Or.inl rfl)]
        simp [hs, step_s12, Frame.addLine, hd]
      | rbrace =>
        by_cases hle : d ≤ 1
        · simp [depthAfter, hle] at hda
        · refine ⟨d - 1, ?_, by simp [depthAfter, hle]⟩
          rw [pstep_running orc m f rest .rbrace nl hrun hfr rfl (Or.inl rfl)]
          simp [hs, step_s12, Frame.addLine, hd, hle]
      | str v =>
        refine ⟨d, ?_, by simp [depthAfter]⟩
        rw [pstep_running orc m f rest (.str v) nl hrun hfr rfl (Or.inl rfl)]
        simp [hs, step_s12, Frame.addLine, hd]
      | lparen =>
        refine ⟨d, ?_, by simp [depthAfter]⟩
        rw [pstep_running orc m f rest .lparen nl hrun hfr rfl (Or.inl rfl)]
        simp [hs, step_s12, Frame.addLine, hd]
      | rparen =>
        refine ⟨d, ?_, by simp [depthAfter]⟩
        rw [pstep_running orc m f rest .rparen nl hrun hfr rfl (Or.inl rfl)]
        simp [hs, step_s12, Frame.addLine, hd]
      | eq =>
        refine ⟨d, ?_, by simp [depthAfter]⟩
        rw [pstep_running orc m f rest .eq nl hrun hfr rfl (Or.inl rfl)]
        simp [hs, step_s12, Frame.addLine, hd]
      | pluseq =>
        refine ⟨d, ?_, by simp [depthAfter]⟩
        rw [pstep_running orc m f rest .pluseq nl hrun hfr rfl (Or.inl rfl)]
        simp [hs, step_s12, Frame.addLine, hd]
      | comma =>
        refine ⟨d, ?_, by simp [depthAfter]⟩
        rw [pstep_running orc m f rest .comma nl hrun hfr rfl (Or.inl rfl)]
        simp [hs, step_s12, Frame.addLine, hd]
    obtain ⟨d1, hstep, hda1⟩ := step
    rw [hstep]
    have := ih { m with frames := { f.addLine nl with depth := d1 } :: rest } { f.addLine nl with depth := d1 } rest d1 d'
      hrun rfl (by simp [Frame.addLine, hs]) rfl hin2 (by rw [← hda1]; exact hda)
    simp only [parseToks] at this
    rw [this, hsum]
    simp [Frame.addLine, Nat.add_assoc]

/-- skipping up to a closing token (`)` of a call, `}` of a list) -/
theorem skip_until (orc : Oracle) (ts : List (Tok × Nat)) : ∀ (m : PM) (f : Frame) (rest : List Frame) (ig : Ignore) (close : Tok),
    m.status = .running → m.frames = f :: rest → f.state = .s13 → f.ignore = ig →
    (ig = .rparen ∧ close = .rparen ∨ ig = .rbrace ∧ close = .rbrace) →
    (∀ t ∈ ts, t.1.inner = true ∧ t.1 ≠ close) →
    parseToks orc m ts = { m with frames := f.addLine (sumNl ts) :: rest } := by
  induction ts with
  | nil =>
    intro m f rest ig close _ hfr _ _ _ _
    simp only [parseToks, List.foldl_nil, sumNl, List.map_nil, List.sum_nil, addLine_zero]
    cases m; simp_all
  | cons t ts ih =>
    intro m f rest ig close hrun hfr hs hig hcl hin
    obtain ⟨tok, nl⟩ := t
    have h1 := hin (tok, nl) (by simp)
    have hin2 : ∀ t ∈ ts, t.1.inner = true ∧ t.1 ≠ close := fun t ht => hin t (by simp [ht])
    have hne : f.state ≠ .s0 := by rw [hs]; simp
    simp only [parseToks, List.foldl_cons]
    have step : pstep orc m tok nl = { m with frames := f.addLine nl :: rest } := by
      cases tok with
      | eof => simp [Tok.inner] at h1
      | err e => simp [Tok.inner] at h1
      | comment v => exact pstep_comment_skip orc m f rest v nl hrun hfr hne
      | rparen =>
        rw [pstep_running orc m f rest .rparen nl hrun hfr rfl (Or.inl rfl)]
        rcases hcl with ⟨h, hc⟩ | ⟨h, hc⟩
        · subst hc; simp at h1
        · simp [hs, step_s13, Frame.addLine, hig, h]
      | rbrace =>
        rw [pstep_running orc m f rest .rbrace nl hrun hfr rfl (Or.inl rfl)]
        rcases hcl with ⟨h, hc⟩ | ⟨h, hc⟩
        · simp [hs, step_s13, Frame.addLine, hig, h]
        · subst hc; simp at h1
      | str v => rw [pstep_running orc m f rest (.str v) nl hrun hfr rfl (Or.inl rfl)]; simp [hs, step_s13]
      | lbrace => rw [pstep_running orc m f rest .lbrace nl hrun hfr rfl (Or.inl rfl)]; simp [hs, step_s13]
      | lparen => rw [pstep_running orc m f rest .lparen nl hrun hfr rfl (Or.inl rfl)]; simp [hs, step_s13]
      | eq => rw [pstep_running orc m f rest .eq nl hrun hfr rfl (Or.inl rfl)]; simp [hs, step_s13]
      | pluseq => rw [pstep_running orc m f rest .pluseq nl hrun hfr rfl (Or.inl rfl)]; simp [hs, step_s13]
      | comma => rw [pstep_running orc m f rest .comma nl hrun hfr rfl (Or.inl rfl)]; simp [hs, step_s13]
    rw [step]
    have := ih { m with frames := f.addLine nl :: rest } (f.addLine nl) rest ig close hrun rfl
      (by simp [Frame.addLine, hs]) (by simp [Frame.addLine, hig]) hcl hin2
    simp only [parseToks] at this
    rw [this]
    simp [sumNl, addLine_addLine]

/-- an undeclared name under IGNORE_UNKNOWN: resolution fails quietly -/
def UnknownHere (f : Frame) (name : Bytes) : Prop :=
  f.state = .s0 ∧ f.cfg.flags.ignoreUnknown = true ∧
  (getoptPath f.cfg name).ref = none ∧ (getoptPath f.cfg name).diags = [] ∧
  (∀ r o, f.opt = some r → f.cfg.getOpt r = some o → o.flags.deprecated = false)

theorem secidx_setLine (w : Bool) (fuel : Nat) (c : Cfg) (n : Nat) (steps : List (Nat × Nat)) (lo : Option OptRef) (li : Int) (name : Bytes) :
    secidxLoop w fuel (c.setLine n) steps lo li name = secidxLoop w fuel c steps lo li name := by
  obtain ⟨i, o⟩ := c
  cases fuel with
  | zero => rfl
  | succ k => rfl

/-- path resolution does not look at the line counter -/
theorem getoptPath_setLine (c : Cfg) (n : Nat) (name : Bytes) : getoptPath (c.setLine n) name = getoptPath c name := by
  unfold getoptPath getoptSecidx
  split
  · rfl
  · rw [secidx_setLine]
    obtain ⟨i, o⟩ := c
    rfl

/-- the frame an unknown item leaves behind: same tree, back at the item boundary -/
def Frame.skipped (f : Frame) (n : Nat) : Frame := { f.addLine n with opt := none, comment := none, state := .s0 }

theorem noPending_addLine (f : Frame) (n : Nat) (h : noPendingDeprecated f) : noPendingDeprecated (f.addLine n) := by
  intro r o hr ho
  simp only [Frame.addLine, getOpt_setLine] at hr ho
  exact h r o hr ho

/-- the name of an undeclared item moves the frame into the discard states, silently -/
theorem enter_skip (orc : Oracle) (m : PM) (f : Frame) (rest : List Frame) (name : Bytes) (nl : Nat)
    (hrun : m.status = .running) (hfr : m.frames = f :: rest) (hu : UnknownHere f name) :
    pstep orc m (.str name) nl = { m with frames := { f.addLine nl with opt := none, state := .s10 } :: rest } := by
  obtain ⟨hs, hig, href, hdiag, hdep⟩ := hu
  rw [pstep_running orc m f rest (.str name) nl hrun hfr rfl (Or.inl rfl)]
  simp only [hs]
  unfold step_s0
  rw [handleDeprecated_id _ _ (noPending_addLine f nl hdep)]
  have hp : getoptPath (f.addLine nl).cfg name = getoptPath f.cfg name := getoptPath_setLine f.cfg _ name
  simp only [hp, href, hdiag]
  have hig' : (f.addLine nl).cfg.flags.ignoreUnknown = true := by simpa [Frame.addLine, Cfg.flags, Cfg.setLine, Cfg.setInfo, Cfg.info] using hig
  simp [hig', PM.addDiags]

/-- **C12 (assignment / append).** `unknown = value` and `unknown += value`. -/
theorem C12_skip_value (orc : Oracle) (m : PM) (f : Frame) (rest : List Frame) (name v : Bytes) (asg : Tok) (n1 n2 n3 : Nat)
    (hrun : m.status = .running) (hfr : m.frames = f :: rest) (hu : UnknownHere f name)
    (hasg : asg = .eq ∨ asg = .pluseq) :
    parseToks orc m [(.str name, n1), (asg, n2), (.str v, n3)] =
      { m with frames := f.skipped (n1 + n2 + n3) :: rest } := by
  simp only [parseToks, List.foldl_cons, List.foldl_nil]
  rw [enter_skip orc m f rest name n1 hrun hfr hu]
  have e2 : pstep orc { m with frames := { f.addLine n1 with opt := none, state := .s10 } :: rest } asg n2 =
      { m with frames := { (f.addLine n1).addLine n2 with opt := none, comment := none, state := .s14 } :: rest } := by
    rcases hasg with rfl | rfl
    · rw [pstep_at orc m _ rest .eq n2 hrun rfl (Or.inl rfl)]
      simp [step_s10, Frame.addLine]
    · rw [pstep_at orc m _ rest .pluseq n2 hrun rfl (Or.inl rfl)]
      simp [step_s10, Frame.addLine]
  rw [e2]
  rw [pstep_at orc m _ rest (.str v) n3 hrun rfl (Or.inl rfl)]
  simp [step_s14, Frame.addLine, Frame.skipped, Nat.add_assoc]

/-- **C12 (list / appended list).** `unknown = { … }`, `unknown += { … }` with any tokens but `}` inside. -/
theorem C12_skip_list (orc : Oracle) (m : PM) (f : Frame) (rest : List Frame) (name : Bytes) (asg : Tok) (n1 n2 n3 n4 : Nat)
    (body : List (Tok × Nat))
    (hrun : m.status = .running) (hfr : m.frames = f :: rest) (hu : UnknownHere f name)
    (hasg : asg = .eq ∨ asg = .pluseq) (hbody : ∀ t ∈ body, t.1.inner = true ∧ t.1 ≠ .rbrace) :
    parseToks orc m ([(.str name, n1), (asg, n2), (.lbrace, n3)] ++ body ++ [(.rbrace, n4)]) =
      { m with frames := { f.skipped (n1 + n2 + n3 + sumNl body + n4) with ignore := .none } :: rest } := by
  rw [parseToks_append', parseToks_append']
  simp only [parseToks, List.foldl_cons, List.foldl_nil]
  rw [enter_skip orc m f rest name n1 hrun hfr hu]
  have e2 : pstep orc { m with frames := { f.addLine n1 with opt := none, state := .s10 } :: rest } asg n2 =
      { m with frames := { (f.addLine n1).addLine n2 with opt := none, comment := none, state := .s14 } :: rest } := by
    rcases hasg with rfl | rfl
    · rw [pstep_at orc m _ rest .eq n2 hrun rfl (Or.inl rfl)]
      simp [step_s10, Frame.addLine]
    · rw [pstep_at orc m _ rest .pluseq n2 hrun rfl (Or.inl rfl)]
      simp [step_s10, Frame.addLine]
  rw [e2]
  rw [pstep_at orc m _ rest .lbrace n3 hrun rfl (Or.inl rfl)]
  simp only [step_s14]
  have := skip_until orc body { m with frames := { ((f.addLine n1).addLine n2).addLine n3 with opt := none, comment := none, ignore := .rbrace, state := .s13 } :: rest }
    { ((f.addLine n1).addLine n2).addLine n3 with opt := none, comment := none, ignore := .rbrace, state := .s13 } rest .rbrace .rbrace hrun rfl rfl rfl (Or.inr ⟨rfl, rfl⟩) hbody
  simp only [parseToks] at this
  simp only [Frame.addLine] at this ⊢
  rw [this]
  rw [pstep_at orc m _ rest .rbrace n4 hrun rfl (Or.inl rfl)]
  simp [step_s13, Frame.addLine, Frame.skipped, Nat.add_assoc]

/-- **C12 (function call).** `unknown( … )` with any tokens but `)` inside. -/
theorem C12_skip_call (orc : Oracle) (m : PM) (f : Frame) (rest : List Frame) (name : Bytes) (n1 n2 n3 : Nat)
    (body : List (Tok × Nat))
    (hrun : m.status = .running) (hfr : m.frames = f :: rest) (hu : UnknownHere f name)
    (hbody : ∀ t ∈ body, t.1.inner = true ∧ t.1 ≠ .rparen) :
    parseToks orc m ([(.str name, n1), (.lparen, n2)] ++ body ++ [(.rparen, n3)]) =
      { m with frames := { f.skipped (n1 + n2 + sumNl body + n3) with ignore := .none } :: rest } := by
  rw [parseToks_append', parseToks_append']
  simp only [parseToks, List.foldl_cons, List.foldl_nil]
  rw [enter_skip orc m f rest name n1 hrun hfr hu]
  rw [pstep_at orc m _ rest .lparen n2 hrun rfl (Or.inl rfl)]
  simp only [step_s10]
  have := skip_until orc body { m with frames := { (f.addLine n1).addLine n2 with opt := none, comment := none, ignore := .rparen, state := .s13 } :: rest }
    { (f.addLine n1).addLine n2 with opt := none, comment := none, ignore := .rparen, state := .s13 } rest .rparen .rparen hrun rfl rfl rfl (Or.inl ⟨rfl, rfl⟩) hbody
  simp only [parseToks] at this
  simp only [Frame.addLine] at this ⊢
  rw [this]
  rw [pstep_at orc m _ rest .rparen n3 hrun rfl (Or.inl rfl)]
  simp [step_s13, Frame.addLine, Frame.skipped, Nat.add_assoc]

/-- **C12 (plain section).** `unknown { … }` around any brace-balanced content, of any size and depth. -/
theorem C12_skip_section (orc : Oracle) (m : PM) (f : Frame) (rest : List Frame) (name : Bytes) (n1 n2 n3 : Nat)
    (body : List (Tok × Nat))
    (hrun : m.status = .running) (hfr : m.frames = f :: rest) (hu : UnknownHere f name)
    (hin : ∀ t ∈ body, t.1.inner = true) (hbal : depthAfter 1 body = some 1) :
    parseToks orc m ([(.str name, n1), (.lbrace, n2)] ++ body ++ [(.rbrace, n3)]) =
      { m with frames := { f.skipped (n1 + n2 + sumNl body + n3) with depth := 0 } :: rest } := by
  rw [parseToks_append', parseToks_append']
  simp only [parseToks, List.foldl_cons, List.foldl_nil]
  rw [enter_skip orc m f rest name n1 hrun hfr hu]
  rw [pstep_at orc m _ rest .lbrace n2 hrun rfl (Or.inl rfl)]
  simp only [step_s10]
  have := C12_skip_body orc body { m with frames := { (f.addLine n1).addLine n2 with opt := none, comment := none, depth := 1, state := .s12 } :: rest }
    { (f.addLine n1).addLine n2 with opt := none, comment := none, depth := 1, state := .s12 } rest 1 1 hrun rfl rfl rfl hin hbal
  simp only [parseToks] at this
  simp only [Frame.addLine] at this ⊢
  rw [this]
  rw [pstep_at orc m _ rest .rbrace n3 hrun rfl (Or.inl rfl)]
  simp [step_s12, Frame.addLine, Frame.skipped, Nat.add_assoc]

/-- **C12 (titled section).** `unknown title { … }`. -/
theorem C12_skip_titled_section (orc : Oracle) (m : PM) (f : Frame) (rest : List Frame) (name title : Bytes) (n1 n2 n3 n4 : Nat)
    (body : List (Tok × Nat))
    (hrun : m.status = .running) (hfr : m.frames = f :: rest) (hu : UnknownHere f name)
    (hin : ∀ t ∈ body, t.1.inner = true) (hbal : depthAfter 1 body = some 1) :
    parseToks orc m ([(.str name, n1), (.str title, n2), (.lbrace, n3)] ++ body ++ [(.rbrace, n4)]) =
      { m with frames := { f.skipped (n1 + n2 + n3 + sumNl body + n4) with depth := 0 } :: rest } := by
  rw [parseToks_append', parseToks_append']
  simp only [parseToks, List.foldl_cons, List.foldl_nil]
  rw [enter_skip orc m f rest name n1 hrun hfr hu]
  rw [pstep_at orc m _ rest (.str title) n2 hrun rfl (Or.inl rfl)]
  simp only [step_s10]
  rw [pstep_at orc m _ rest .lbrace n3 hrun rfl (Or.inl rfl)]
  simp only [step_s11]
  have := C12_skip_body orc body { m with frames := { ((f.addLine n1).addLine n2).addLine n3 with opt := none, comment := none, depth := 1, state := .s12 } :: rest }
    { ((f.addLine n1).addLine n2).addLine n3 with opt := none, comment := none, depth := 1, state := .s12 } rest 1 1 hrun rfl rfl rfl hin hbal
  simp only [parseToks] at this
  simp only [Frame.addLine] at this ⊢
  rw [this]
  rw [pstep_at orc m _ rest .rbrace n4 hrun rfl (Or.inl rfl)]
  simp [step_s12, Frame.addLine, Frame.skipped, Nat.add_assoc]

/-- what "skipped cleanly" means for the whole machine: still running, same number of frames (no
recursion per nesting level), same logs (no diagnostic, no callback), the top frame back in state 0
with the same tree. -/
theorem C12_clean (m : PM) (f : Frame) (rest : List Frame) (f' : Frame) (n : Nat)
    (h : f'.cfg = (f.skipped n).cfg ∧ f'.state = .s0 ∧ f'.level = f.level) :
    let m' : PM := { m with frames := f' :: rest }
    m'.status = m.status ∧ m'.diags = m.diags ∧ m'.trace = m.trace ∧ m'.frames.length = (f :: rest).length ∧
    f'.cfg.opts = f.cfg.opts ∧ f'.state = .s0 := by
  obtain ⟨h1, h2, _⟩ := h
  refine ⟨rfl, rfl, rfl, by simp, ?_, h2⟩
  rw [h1]
  simp [Frame.skipped, Frame.addLine, Cfg.setLine, Cfg.setInfo, Cfg.opts]

theorem depthAfter_append (a b : List (Tok × Nat)) : ∀ d, depthAfter d (a ++ b) = (depthAfter d a).bind (fun d' => depthAfter d' b) := by
  induction a with
  | nil => intro d; simp [depthAfter]
  | cons t ts ih =>
    intro d
    obtain ⟨tok, n⟩ := t
    cases tok <;> simp only [List.cons_append, depthAfter, ih]
    split <;> simp

/-- nested sections of any depth are brace-balanced (so `C12_skip_section` covers depth 10^5 as well as 1) -/
theorem depthAfter_nest (k : Nat) (inner : List (Tok × Nat)) : ∀ (d : Nat), d ≥ 1 → depthAfter (d + k) inner = some (d + k) →
    depthAfter d (List.replicate k (.lbrace, 0) ++ inner ++ List.replicate k (.rbrace, 0)) = some d := by
  induction k with
  | zero => intro d _ h; simpa using h
  | succ k ih =>
    intro d hd h
    have h' : depthAfter (d + 1 + k) inner = some (d + 1 + k) := by
      have : d + (k + 1) = d + 1 + k := by omega
      rw [this] at h; exact h
    have := ih (d + 1) (by omega) h'
    rw [List.replicate_succ, List.replicate_succ']
    simp only [List.cons_append, depthAfter]
    have e : List.replicate k (Tok.lbrace, 0) ++ inner ++ (List.replicate k (Tok.rbrace, 0) ++ [(Tok.rbrace, 0)]) =
        (List.replicate k (Tok.lbrace, 0) ++ inner ++ List.replicate k (Tok.rbrace, 0)) ++ [(Tok.rbrace, 0)] := by
      simp [List.append_assoc]
    rw [e, depthAfter_append, this]
    have hle : ¬ (d + 1 ≤ 1) := by omega
    simp [depthAfter, hle]

/-- non-vacuity: a thousand nested empty unknown sections form a valid section body -/
example : depthAfter 1 (List.replicate 1000 (.lbrace, 0) ++ [] ++ List.replicate 1000 (.rbrace, 0)) = some 1 :=
  depthAfter_nest 1000 [] 1 (by omega) (by simp [depthAfter])

/-- under IGNORE_UNKNOWN path resolution never reports anything -/
theorem getoptPath_quiet (c : Cfg) (name : Bytes) (hq : c.flags.ignoreUnknown = true) : (getoptPath c name).diags = [] := by
  unfold getoptPath getoptSecidx
  split
  · rfl
  · split
    · rfl
    · simp [hq]

/-- so "undeclared here" needs no separate quietness assumption -/
theorem unknownHere_of (f : Frame) (name : Bytes) (hs : f.state = .s0) (hq : f.cfg.flags.ignoreUnknown = true)
    (href : (getoptPath f.cfg name).ref = none) (hdep : noPendingDeprecated f) : UnknownHere f name :=
  ⟨hs, hq, href, getoptPath_quiet f.cfg name hq, hdep⟩

/-- **C12 (flag off).** Without IGNORE_UNKNOWN (and outside free-form sections) the same name is
rejected on the spot. -/
theorem C12_flag_off (orc : Oracle) (m : PM) (f : Frame) (rest : List Frame) (name : Bytes) (nl : Nat)
    (hrun : m.status = .running) (hfr : m.frames = f :: rest) (hs : f.state = .s0)
    (hoff : f.cfg.flags.ignoreUnknown = false) (hkv : f.cfg.flags.keystrval = false)
    (href : (getoptPath f.cfg name).ref = none) (hdep : noPendingDeprecated f) :
    (pstep orc m (.str name) nl).status = .rejected := by
  rw [pstep_running orc m f rest (.str name) nl hrun hfr rfl (Or.inl rfl)]
  simp only [hs]
  unfold step_s0
  rw [handleDeprecated_id _ _ (noPending_addLine f nl hdep)]
  have hp : getoptPath (f.addLine nl).cfg name = getoptPath f.cfg name := getoptPath_setLine f.cfg _ name
  have h1 : (f.addLine nl).cfg.flags.ignoreUnknown = false := by simpa [Frame.addLine, Cfg.flags, Cfg.setLine, Cfg.setInfo, Cfg.info] using hoff
  have h2 : (f.addLine nl).cfg.flags.keystrval = false := by simpa [Frame.addLine, Cfg.flags, Cfg.setLine, Cfg.setInfo, Cfg.info] using hkv
  simp only [hp, href, h1, h2]
  simp
  split <;> simp

end Confuse
