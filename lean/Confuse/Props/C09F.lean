import Confuse.Props.C09
import Confuse.Props.C16
/-!
# C09 / C16 — an update through one option reference changes no other option

`disjointRef r r'`: the option `r'` is neither `r` itself, nor an option inside one of `r`'s section
instances, nor an option whose section instances contain `r`.  `lens_frame`: updating at `r` leaves
the option at every disjoint `r'` exactly as it was, at any depth.
-/
namespace Confuse

def disjointAt : List (Nat × Nat) → Nat → List (Nat × Nat) → Nat → Bool
  | [], leaf, [], leaf' => leaf != leaf'
  | [], leaf, (oj, _) :: _, _ => oj != leaf
  | (oi, _) :: _, _, [], leaf' => leaf' != oi
  | (oi, ii) :: rest, leaf, (oj, ij) :: rest', leaf' =>
    if oi = oj ∧ ii = ij then disjointAt rest leaf rest' leaf' else true

def disjointRef (r r' : OptRef) : Bool := disjointAt r.steps r.leaf r'.steps r'.leaf

theorem child_setOpts_ne (c : Cfg) (leaf oj ij : Nat) (o : Opt) (h : oj ≠ leaf) :
    (c.setOpts (listSet c.opts leaf o)).child oj ij = c.child oj ij := by
  unfold Cfg.child
  simp only [Cfg.setOpts, Cfg.opts]
  rw [listSet_get_ne _ _ _ _ (Ne.symm h)]

theorem child_setChild_ne (c : Cfg) (oi ii oj ij : Nat) (s : Cfg) (h : ¬ (oi = oj ∧ ii = ij)) :
    (c.setChild oi ii s).child oj ij = c.child oj ij := by
  unfold Cfg.setChild
  cases ho : c.opts[oi]? with
  | none => rfl
  | some o =>
    simp only []
    by_cases h1 : oi = oj
    · subst h1
      have h2 : ii ≠ ij := fun e => h ⟨rfl, e⟩
      have hg : (c.setOpts (listSet c.opts oi (o.setVals (listSet o.vals ii (Val.sec s))))).opts[oi]? =
          some (o.setVals (listSet o.vals ii (Val.sec s))) := by
        have := listSet_get c.opts oi (o.setVals (listSet o.vals ii (Val.sec s))) (by simp [ho])
        cases c; exact this
      unfold Cfg.child
      rw [hg, ho]
      simp only []
      cases o with
      | mk i f sb vs cm =>
        simp only [Opt.setVals, Opt.vals]
        rw [listSet_get_ne _ _ _ _ h2]
    · exact child_setOpts_ne c oi oj ij _ (Ne.symm h1)

theorem opts_setChild_ne (c : Cfg) (oi ii k : Nat) (s : Cfg) (h : k ≠ oi) :
    (c.setChild oi ii s).opts[k]? = c.opts[k]? := by
  unfold Cfg.setChild
  cases c.opts[oi]? with
  | none => rfl
  | some o => simp only [Cfg.setOpts, Cfg.opts]; rw [listSet_get_ne _ _ _ _ (Ne.symm h)]

/-- **Frame property of the option lens, at any depth.** -/
theorem lens_frame (g : Opt → Opt) : ∀ (steps : List (Nat × Nat)) (c : Cfg) (leaf : Nat) (steps' : List (Nat × Nat)) (leaf' : Nat),
    disjointAt steps leaf steps' leaf' = true →
    getOptAt (updOptAt g c steps leaf) steps' leaf' = getOptAt c steps' leaf' := by
  intro steps
  induction steps with
  | nil =>
    intro c leaf steps' leaf' hd
    cases steps' with
    | nil =>
      simp only [disjointAt, bne_iff_ne, ne_eq] at hd
      simp only [getOptAt]
      exact C16_other_option_frame g c leaf leaf' hd
    | cons st rest' =>
      obtain ⟨oj, ij⟩ := st
      simp only [disjointAt, bne_iff_ne, ne_eq] at hd
      simp only [getOptAt, updOptAt]
      cases c.opts[leaf]? with
      | none => rfl
      | some o => simp only []; rw [child_setOpts_ne c leaf oj ij _ hd]
  | cons st rest ih =>
    intro c leaf steps' leaf' hd
    obtain ⟨oi, ii⟩ := st
    simp only [updOptAt]
    cases hc : c.child oi ii with
    | none => rfl
    | some s =>
      simp only []
      cases steps' with
      | nil =>
        simp only [disjointAt, bne_iff_ne, ne_eq] at hd
        simp only [getOptAt]
        exact opts_setChild_ne c oi ii leaf' _ hd
      | cons st' rest' =>
        obtain ⟨oj, ij⟩ := st'
        simp only [disjointAt] at hd
        simp only [getOptAt]
        by_cases hsame : oi = oj ∧ ii = ij
        · obtain ⟨rfl, rfl⟩ := hsame
          simp only [and_self, if_true] at hd
          rw [child_setChild c oi ii s _ hc, hc]
          exact ih s leaf rest' leaf' hd
        · rw [child_setChild_ne c oi ii oj ij _ hsame]

/-- **C09 / C16 (no operation reaches another option).** Whatever is stored through the reference
`r`, every option at a disjoint reference — a different option of the same section, an option of a
sibling instance, of another section, of an enclosing or an unrelated context, at any depth — reads
back exactly as before. -/
theorem C09_other_options_untouched (c : Cfg) (r r' : OptRef) (o : Opt) (h : disjointRef r r' = true) :
    (c.setOpt r o).getOpt r' = c.getOpt r' :=
  lens_frame (fun _ => o) r.steps c r.leaf r'.steps r'.leaf h


theorem modOpt_frame (c : Cfg) (r r' : OptRef) (f : Opt → Opt × Bool × List CbCall) (ds : List DiagCls)
    (h : disjointRef r r' = true) : (modOpt c r f ds).cfg.getOpt r' = c.getOpt r' := by
  unfold modOpt
  split
  · exact C09_other_options_untouched c r r' _ h
  · rfl

/-- **C09 (a setter touches the addressed option only).** After any by-path typed setter, list set /
append, bulk set or set-from-text — successful or refused — every option at a reference disjoint
from the one the path resolves to reads back exactly as before. -/
theorem C09_api_frame (orc : Oracle) (k : Nat) (c : Cfg) (path : Bytes) (r r' : OptRef)
    (hr : (getoptPath c path).ref = some r) (hd : disjointRef r r' = true) :
    (∀ ty v idx b, (apiSetn orc k c path ty v idx b).cfg.getOpt r' = c.getOpt r') ∧
    (∀ vs app, (apiList c path vs app).cfg.getOpt r' = c.getOpt r') ∧
    (∀ values, (apiSetmulti orc k c path values).cfg.getOpt r' = c.getOpt r') ∧
    (∀ value, (apiSetopt orc k c path value).cfg.getOpt r' = c.getOpt r') := by
  refine ⟨?_, ?_, ?_, ?_⟩
  · intro ty v idx b
    unfold apiSetn
    simp only [hr]
    cases c.getOpt r with
    | none => rfl
    | some o =>
      simp only []
      split
      · split
        · rfl
        · exact modOpt_frame c r r' _ _ hd
      · exact modOpt_frame c r r' _ _ hd
  · intro vs app
    unfold apiList
    simp only [hr]
    cases c.getOpt r with
    | none => rfl
    | some o =>
      simp only []
      split
      · rfl
      · exact C09_other_options_untouched c r r' _ hd
  · intro values
    unfold apiSetmulti
    simp only [hr]
    cases c.getOpt r with
    | none => rfl
    | some o => exact C09_other_options_untouched c r r' _ hd
  · intro value
    unfold apiSetopt
    simp only [hr]
    cases c.getOpt r with
    | none => rfl
    | some o => exact C09_other_options_untouched c r r' _ hd

end Confuse
