import Confuse.Props.C01A
import Confuse.Props.C11
import Confuse.Props.C05
/-!
# C05 — the round trip of a flat configuration, token level

The tokens a printed flat configuration scans to (any line layout), fed to the token machine from an item boundary of
a context with the same declarations, leave every option holding exactly the printed configuration's values.
-/
namespace Confuse

/-- the text of a value as the printer writes it and the scanner hands it back (strings: decoded) -/
def valText : Val → Option Bytes
  | .int n => some (printInt n)
  | .bool b => some (if b then bTrue else bFalse)
  | .str (some s) => some s
  | _ => none

/-- a cell the flat round trip covers: an integer in range, a boolean, a non-NULL string without NUL bytes -/
def goodCell (ty : Ty) : Val → Bool
  | .int n => ty == .int && decide (longMin ≤ n) && decide (n ≤ longMax)
  | .bool _ => ty == .bool
  | .str (some s) => ty == .str && s.all (· != 0)      -- C strings end at a NUL
  | _ => false

theorem convTok_valText (ty : Ty) (v : Val) (h : goodCell ty v = true) : ∃ t, valText v = some t ∧ convTok ty t = some v := by
  cases v with
  | int n =>
    simp only [goodCell, Bool.and_eq_true, beq_iff_eq, decide_eq_true_eq] at h
    obtain ⟨⟨ht, h1⟩, h2⟩ := h
    subst ht
    exact ⟨_, rfl, by simp [convTok, C05_int n h1 h2]⟩
  | bool b =>
    simp only [goodCell, beq_iff_eq] at h
    subst h
    exact ⟨_, rfl, by simp [convTok, C05_bool b]⟩
  | str s =>
    cases s with
    | none => simp [goodCell] at h
    | some s =>
      simp only [goodCell, Bool.and_eq_true, beq_iff_eq] at h
      obtain ⟨h, _⟩ := h
      subst h
      exact ⟨_, rfl, rfl⟩
  | flt b => simp [goodCell] at h
  | ptr p => simp [goodCell] at h
  | sec c => simp [goodCell] at h

theorem titleEq_refl (nc : Bool) (a : Bytes) : titleEq nc a a = true := by
  cases nc <;> simp [titleEq, eqNoCase]

theorem findOptIdx_skip (nc : Bool) (name : Bytes) : ∀ (pre : List Opt) (o0 : Opt) (post : List Opt) (k : Nat),
    (∀ p ∈ pre, titleEq nc p.name name = false) → titleEq nc o0.name name = true →
    findOptIdx nc name (pre ++ o0 :: post) k = some (k + pre.length) := by
  intro pre
  induction pre with
  | nil => intro o0 post k _ h; simp [findOptIdx, h]
  | cons p ps ih =>
    intro o0 post k hp h
    have h1 := hp p (by simp)
    simp only [List.cons_append, findOptIdx, h1, Bool.false_eq_true, if_false]
    rw [ih o0 post (k + 1) (fun q hq => hp q (by simp [hq])) h]
    simp only [List.length_cons]
    congr 1; omega

/-- a plain name that is the first of its kind resolves, silently, to its top-level position -/
theorem getoptPath_top (c : Cfg) (name : Bytes) (pre : List Opt) (o0 : Opt) (post : List Opt)
    (hn : plainName name) (hopts : c.opts = pre ++ o0 :: post)
    (hpre : ∀ p ∈ pre, titleEq c.flags.nocase p.name name = false) (hname : titleEq c.flags.nocase o0.name name = true) :
    (getoptPath c name).ref = some ⟨[], pre.length⟩ ∧ (getoptPath c name).diags = [] := by
  have hl : getoptLeaf c name = some pre.length := by
    unfold getoptLeaf
    rw [hopts, findOptIdx_skip _ _ pre o0 post 0 hpre hname]
    simp
  obtain ⟨hne, hs⟩ := hn
  unfold getoptPath getoptSecidx
  have he : name.isEmpty = false := by cases name <;> simp_all
  simp only [he, Bool.false_eq_true, if_false]
  cases hk : keyFirst c name false with
  | some i =>
    have : i = pre.length := by
      unfold keyFirst at hk
      split at hk
      · rw [hl] at hk; injection hk with hk; exact hk.symm
      · cases hk
    subst this
    simp
  | none =>
    simp only []
    rw [secidxLoop]
    simp only [he, Bool.false_eq_true, if_false, takeWhile_plain name hs, List.drop_length, List.isEmpty_nil, Bool.not_false, Bool.and_self, if_true, hl]
    split <;> simp

theorem getOpt_top (c : Cfg) (pre : List Opt) (o0 : Opt) (post : List Opt) (h : c.opts = pre ++ o0 :: post) :
    c.getOpt ⟨[], pre.length⟩ = some o0 := by
  simp [Cfg.getOpt, getOptAt, h]

theorem setOpt_top (c : Cfg) (pre : List Opt) (o0 o1 : Opt) (post : List Opt) (h : c.opts = pre ++ o0 :: post) :
    (c.setOpt ⟨[], pre.length⟩ o1).opts = pre ++ o1 :: post := by
  have hget : c.opts[pre.length]? = some o0 := by simp [h]
  have hls : ∀ (pre : List Opt) (x y : Opt) (post : List Opt), listSet (pre ++ x :: post) pre.length y = pre ++ y :: post := by
    intro pre x y post
    induction pre with
    | nil => rfl
    | cons a as ih => simp [listSet, ih]
  cases c with
  | mk info opts =>
    simp only [Cfg.opts] at h hget
    subst h
    simp [Cfg.setOpt, updOptAt, Cfg.opts, Cfg.setOpts, hls]

/-- an option the flat round trip covers (declaration side): plain type, no callbacks, not deprecated, plain name -/
structure PlainDecl (o : Opt) : Prop where
  ty : o.ty = .int ∨ o.ty = .bool ∨ o.ty = .str
  noParse : o.info.parseCb = false
  noValid : o.info.validCb = false
  notDep : o.flags.deprecated = false
  notMulti : o.flags.multi = false
  name : plainName o.name
  free : freeEvOpt o = []

/-- the tokens a printed option scans to, with any line increments -/
inductive OptToks : Opt → List (Tok × Nat) → Prop
  | scalar (o : Opt) (v : Val) (t : Bytes) (n1 n2 n3 : Nat) :
      o.flags.list = false → o.vals = [v] → valText v = some t → goodCell o.ty v = true →
      OptToks o [(.str o.name, n1), (.eq, n2), (.str t, n3)]
  | listNil (o : Opt) (n1 n2 n3 n4 : Nat) :
      o.flags.list = true → o.vals = [] →
      OptToks o [(.str o.name, n1), (.eq, n2), (.lbrace, n3), (.rbrace, n4)]
  | listCons (o : Opt) (v0 : Val) (t0 : Bytes) (vs : List Val) (seq : List (Nat × Bytes × Nat)) (n1 n2 n3 c0 n0 n4 : Nat) :
      o.flags.list = true → o.vals = v0 :: vs → valText v0 = some t0 → goodCell o.ty v0 = true →
      seq.length = vs.length → (∀ i (h1 : i < seq.length) (h2 : i < vs.length), valText vs[i] = some seq[i].2.1 ∧ goodCell o.ty vs[i] = true) →
      OptToks o ([(.str o.name, n1), (.eq, n2), (.lbrace, n3)] ++ flatSeq true ((c0, t0, n0) :: seq) ++ [(.rbrace, n4)])

theorem convToks_of_good (ty : Ty) : ∀ (seq : List (Nat × Bytes × Nat)) (vs : List Val), seq.length = vs.length →
    (∀ i (h1 : i < seq.length) (h2 : i < vs.length), valText vs[i] = some seq[i].2.1 ∧ goodCell ty vs[i] = true) →
    convToks ty (seq.map (·.2.1)) = some vs := by
  intro seq
  induction seq with
  | nil => intro vs hl _; cases vs <;> simp_all [convToks]
  | cons x xs ih =>
    intro vs hl h
    cases vs with
    | nil => simp at hl
    | cons v vs' =>
      have h0 := h 0 (by simp) (by simp)
      simp only [List.getElem_cons_zero] at h0
      obtain ⟨t, ht, hc⟩ := convTok_valText ty v h0.2
      rw [h0.1] at ht
      injection ht with ht
      have ih' := ih vs' (by simpa using hl) (fun i h1 h2 => by
        have := h (i + 1) (by simp; omega) (by simp; omega)
        simpa using this)
      simp only [List.map_cons, convToks, ht, hc, ih']

/-- what must be true of a frame between two printed options -/
structure AtItem (f : Frame) : Prop where
  st : f.state = .s0
  cm : f.comment = none
  nd : noPendingDeprecated f

/-- **one printed option.** From an item boundary of a top-level frame whose option list is `pre ++ o0 :: post`, with
`o0` the declared counterpart of `o` (same name, type and list flag; plain) and no earlier option of that name, the
tokens of `o`'s printed form leave the machine at an item boundary of the same frame with that one option holding
exactly `o`'s values and everything else as it was. -/
theorem opt_step (orc : Oracle) (m : PM) (f : Frame) (rest : List Frame) (o o0 : Opt) (pre post : List Opt) (ts : List (Tok × Nat))
    (hrun : m.status = .running) (hfr : m.frames = f :: rest) (hat : AtItem f)
    (hopts : f.cfg.opts = pre ++ o0 :: post)
    (hpre : ∀ p ∈ pre, titleEq f.cfg.flags.nocase p.name o.name = false)
    (hname : o0.name = o.name) (hty : o0.ty = o.ty) (hlist : o0.flags.list = o.flags.list)
    (hd : PlainDecl o0) (hts : OptToks o ts) :
    ∃ f' res, parseToks orc m ts = { m with frames := f' :: rest } ∧ AtItem f' ∧ f'.level = f.level ∧ f'.back = f.back ∧ f'.opttitle = f.opttitle ∧
      f'.cfg.opts = pre ++ res :: post ∧ f'.cfg.flags = f.cfg.flags ∧ f'.cfg.info.pff = f.cfg.info.pff ∧
      res.vals = o.vals ∧ res.info = o0.info ∧ res.flags.deprecated = false ∧
      res.flags.list = o0.flags.list ∧ res.comment = o0.comment := by
  have hnm : plainName o.name := hname ▸ hd.name
  have hpff : ∀ (r : OptRef) (x : Opt) (n : Nat), ((f.cfg.setOpt r x).setLine n).info.pff = f.cfg.info.pff := by
    intro r x n
    have h1 : ∀ (c : Cfg) (n : Nat), (c.setLine n).info.pff = c.info.pff := by intro c n; cases c; rfl
    rw [h1, setOpt_info]
  have hlook := getoptPath_top f.cfg o.name pre o0 post hnm hopts hpre (by rw [hname]; exact titleEq_refl _ _)
  have hget := getOpt_top f.cfg pre o0 post hopts
  have hty4 : o0.ty = .int ∨ o0.ty = .float ∨ o0.ty = .bool ∨ o0.ty = .str := by
    rcases hd.ty with h | h | h <;> simp [h]
  cases hts with
  | scalar v t n1 n2 n3 hl hv ht hg =>
    obtain ⟨t', ht', hconv⟩ := convTok_valText o.ty v hg
    rw [ht] at ht'; injection ht' with ht'; subst ht'
    have := C01_assign_denotes orc m f rest o.name t n1 n2 n3 ⟨[], pre.length⟩ o0 v hrun hfr hat.st hat.nd hat.cm
      hlook.1 hlook.2 hget hty4 hd.noParse hd.noValid (by rw [hlist]; exact hl) hd.notMulti (by rw [hty]; exact hconv) hd.free
    refine ⟨_, Opt.mk o0.info { o0.flags with reset := false, modified := true } o0.subs [v] o0.comment, this, ⟨rfl, hat.cm, ?_⟩, rfl, rfl, rfl, ?_, ?_, hpff _ _ _, ?_, rfl, hd.notDep, rfl, rfl⟩
    · intro r o' hr ho'
      simp only at hr ho'
      injection hr with hr; subst hr
      rw [getOpt_setLine, getOpt_setOpt _ _ _ _ hget] at ho'
      injection ho' with ho'; subst ho'
      exact hd.notDep
    · simp only [opts_setLine]; exact setOpt_top _ _ _ _ _ hopts
    · show ((f.cfg.setOpt _ _).setLine _).flags = f.cfg.flags
      have : ∀ (c : Cfg) (n : Nat), (c.setLine n).flags = c.flags := by intro c n; cases c; rfl
      rw [this, setOpt_flags]
    · rw [hv]; rfl
  | listNil n1 n2 n3 n4 hl hv =>
    have hty' : o0.ty ≠ .sec ∧ o0.ty ≠ .func := by rcases hd.ty with h | h | h <;> simp [h]
    have := C01_empty_list_item orc m f rest o.name n1 false n2 n3 n4 ⟨[], pre.length⟩ o0 hrun hfr hat.st hat.nd
      hlook.1 hlook.2 hget hty' (by rw [hlist]; exact hl) hd.free
    simp only [asgTok, Bool.false_eq_true, if_false] at this
    refine ⟨_, (freeValue (o0.markAsg false)).1, this, ⟨rfl, hat.cm, ?_⟩, rfl, rfl, rfl, ?_, ?_, hpff _ _ _, ?_, ?_, ?_, by cases o0; rfl, by cases o0; rfl⟩
    · intro r o' hr ho'
      simp only at hr ho'
      injection hr with hr; subst hr
      rw [getOpt_setLine, getOpt_setOpt _ _ _ _ hget] at ho'
      injection ho' with ho'; subst ho'
      cases o0; exact hd.notDep
    · simp only [opts_setLine]; exact setOpt_top _ _ _ _ _ hopts
    · show ((f.cfg.setOpt _ _).setLine _).flags = f.cfg.flags
      have : ∀ (c : Cfg) (n : Nat), (c.setLine n).flags = c.flags := by intro c n; cases c; rfl
      rw [this, setOpt_flags]
    · rw [hv]; cases o0; rfl
    · cases o0; rfl
    · cases o0; exact hd.notDep
  | listCons v0 t0 vs seq n1 n2 n3 c0 n0 n4 hl hv ht0 hg0 hlen hall =>
    obtain ⟨t', ht', hconv0⟩ := convTok_valText o.ty v0 hg0
    rw [ht0] at ht'; injection ht' with ht'; subst ht'
    have hcs := convToks_of_good o.ty seq vs hlen hall
    have := C01_list_item orc m f rest o.name n1 false n2 n3 c0 t0 n0 seq n4 ⟨[], pre.length⟩ o0 v0 vs hrun hfr hat.st hat.nd hat.cm
      hlook.1 hlook.2 hget hty4 hd.noParse hd.noValid (by rw [hlist]; exact hl) hd.free (by rw [hty]; exact hconv0) (by rw [hty]; exact hcs)
    simp only [asgTok, Bool.false_eq_true, if_false] at this
    have hinfoVals : ∀ (o' : Opt) (l : List Val), (o'.appendVals l).info = o'.info ∧ (o'.appendVals l).flags.deprecated = o'.flags.deprecated ∧
        (o'.appendVals l).flags.list = o'.flags.list ∧ (o'.appendVals l).comment = o'.comment := by
      intro o' l; induction l generalizing o' with
      | nil => exact ⟨rfl, rfl, rfl, rfl⟩
      | cons a as ih => simp only [Opt.appendVals]; rw [(ih _).1, (ih _).2.1, (ih _).2.2.1, (ih _).2.2.2]; cases o'; exact ⟨rfl, rfl, rfl, rfl⟩
    refine ⟨_, (o0.markAsg false).appendVals (v0 :: vs), this, ⟨rfl, hat.cm, ?_⟩, rfl, rfl, rfl, ?_, ?_, hpff _ _ _, ?_, ?_, ?_, by rw [(hinfoVals _ _).2.2.1]; cases o0; rfl, by rw [(hinfoVals _ _).2.2.2]; cases o0; rfl⟩
    · intro r o' hr ho'
      simp only at hr ho'
      injection hr with hr; subst hr
      rw [getOpt_setLine, getOpt_setOpt _ _ _ _ hget] at ho'
      injection ho' with ho'; subst ho'
      rw [(hinfoVals _ _).2.1]; cases o0; exact hd.notDep
    · simp only [opts_setLine]; exact setOpt_top _ _ _ _ _ hopts
    · show ((f.cfg.setOpt _ _).setLine _).flags = f.cfg.flags
      have : ∀ (c : Cfg) (n : Nat), (c.setLine n).flags = c.flags := by intro c n; cases c; rfl
      rw [this, setOpt_flags]
    · rw [C01_list_item_values, hv]; simp
    · rw [(hinfoVals _ _).1]; cases o0; rfl
    · rw [(hinfoVals _ _).2.1]; cases o0; exact hd.notDep

/-- the tokens of a whole flat configuration: the options' tokens one after the other -/
inductive FlatToks : List Opt → List (Tok × Nat) → Prop
  | nil : FlatToks [] []
  | cons (o : Opt) (os : List Opt) (ts tss : List (Tok × Nat)) : OptToks o ts → FlatToks os tss → FlatToks (o :: os) (ts ++ tss)

/-- two lists related element by element -/
inductive All2 {α β : Type} (R : α → β → Prop) : List α → List β → Prop
  | nil : All2 R [] []
  | cons {a b as bs} : R a b → All2 R as bs → All2 R (a :: as) (b :: bs)

/-- declared counterpart: same name, type and list flag; plain -/
def Aligned (o o0 : Opt) : Prop := o0.name = o.name ∧ o0.ty = o.ty ∧ o0.flags.list = o.flags.list ∧ PlainDecl o0

theorem parseToks_append (orc : Oracle) (m : PM) (a b : List (Tok × Nat)) : parseToks orc m (a ++ b) = parseToks orc (parseToks orc m a) b := by
  simp [parseToks, List.foldl_append]

/-- **all printed options, one after the other** (token level) -/
theorem flat_steps (orc : Oracle) : ∀ (os os0 : List Opt) (ts : List (Tok × Nat)) (m : PM) (f : Frame) (rest : List Frame) (pre : List Opt),
    FlatToks os ts → All2 Aligned os os0 →
    m.status = .running → m.frames = f :: rest → AtItem f → f.cfg.opts = pre ++ os0 →
    (∀ p ∈ pre, ∀ o ∈ os, titleEq f.cfg.flags.nocase p.name o.name = false) →
    List.Pairwise (fun a b => titleEq f.cfg.flags.nocase a.name b.name = false) os →
    ∃ f' done, parseToks orc m ts = { m with frames := f' :: rest } ∧ AtItem f' ∧ f'.level = f.level ∧ f'.back = f.back ∧
      f'.opttitle = f.opttitle ∧ f'.cfg.opts = pre ++ done ∧ f'.cfg.flags = f.cfg.flags ∧ f'.cfg.info.pff = f.cfg.info.pff ∧
      All2 (fun r o => r.vals = o.vals) done os ∧
      All2 (fun r o0 => r.info = o0.info ∧ r.flags.list = o0.flags.list ∧ r.comment = o0.comment) done os0 := by
  intro os
  induction os with
  | nil =>
    intro os0 ts m f rest pre hft hal hrun hfr hat hopts _ _
    cases hft
    cases hal
    refine ⟨f, [], ?_, hat, rfl, rfl, rfl, by simpa using hopts, rfl, rfl, All2.nil, All2.nil⟩
    obtain ⟨frames, srcs, status, diags, trace, pi, md⟩ := m
    simp only at hfr; subst hfr
    rfl
  | cons o os ih =>
    intro os0 ts m f rest pre hft hal hrun hfr hat hopts hpre hpw
    cases hft with
    | cons _ _ ts1 tss h1 h2 =>
      cases hal with
      | cons hA hAs =>
        rename_i o0 os0'
        obtain ⟨hname, hty, hlist, hd⟩ := hA
        obtain ⟨f1, res, e1, hat1, hlev1, hbk1, hot1, hopts1, hfl1, hpf1, hv1, hi1, hdep1, hls1, hcm1⟩ :=
          opt_step orc m f rest o o0 pre os0' ts1 hrun hfr hat hopts (fun p hp => hpre p hp o (by simp)) hname hty hlist hd h1
        rw [parseToks_append, e1]
        have hresname : res.name = o.name := by
          have : res.name = o0.name := by simp [Opt.name, hi1]
          rw [this, hname]
        obtain ⟨f2, done, e2, hat2, hlev2, hbk2, hot2, hopts2, hfl2, hpf2, hv2, hd2⟩ :=
          ih os0' tss { m with frames := f1 :: rest } f1 rest (pre ++ [res]) h2 hAs hrun rfl hat1
            (by rw [hopts1]; simp)
            (by
              intro p hp o' ho'
              rw [hfl1]
              rcases List.mem_append.mp hp with hp | hp
              · exact hpre p hp o' (by simp [ho'])
              · simp only [List.mem_singleton] at hp
                subst hp
                rw [hresname]
                exact (List.pairwise_cons.mp hpw).1 o' ho')
            (by rw [hfl1]; exact (List.pairwise_cons.mp hpw).2)
        refine ⟨f2, res :: done, e2, hat2, by rw [hlev2, hlev1], by rw [hbk2, hbk1], by rw [hot2, hot1], by rw [hopts2]; simp, by rw [hfl2, hfl1], by rw [hpf2, hpf1],
          All2.cons hv1 hv2, All2.cons ⟨hi1, hls1, hcm1⟩ hd2⟩

end Confuse
