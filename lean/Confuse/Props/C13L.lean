import Confuse.Lemmas.LoopSim
import Confuse.Props.C12I
/-!
# C13 — including a file equals reading its text in place (the parse loop, byte level)

Two runs of the parse loop are compared: one in which the source stack holds the text `a` of an
included file on top of the includer's remaining text `o` (with any number of sources above —
includes nested inside `a` — and below), and one in which the single source `a ++ o` stands in their
place.  They end in machines that agree on everything but positions and the source stack: same
acceptance, same values at every depth, same callback invocations, same diagnostic classes in the
same order.  Hypotheses on `a`: no `$` (the `${…}` look-ahead is unbounded), it ends in a newline,
and it scans on its own without a scanner error.  The one way the two runs can differ is named in
the conclusion: the nested run is one include level deeper, so it can hit the depth limit where
the flat one does not — then it is rejected with "includes nested too deeply".
-/
namespace Confuse

def Out (F F' : PM) : Prop := Core F F' ∨ DepthHit F

theorem depthHit_stopped (orc : Oracle) (pe : PEnv) (fuel : Nat) (N : PM) (h : DepthHit N) :
    parseLoopFrom orc pe fuel .initial N = N :=
  loop_stopped orc pe fuel N (by rw [h.1]; decide)

theorem same_run (orc : Oracle) (pe : PEnv) : ∀ (fuel : Nat) (M M' : PM), SameR pe.env M M' →
    Out (parseLoopFrom orc pe fuel .initial M) (parseLoopFrom orc pe fuel .initial M') := by
  intro fuel
  induction fuel with
  | zero =>
    intro M M' h
    have hc := h.1
    rw [loop_zero, loop_zero, ← hc.status]
    split
    · exact Or.inl (core_outOfFuel hc)
    · exact Or.inl hc
  | succ n ih =>
    intro M M' h
    have hc := h.1
    by_cases hrun : M.status = .running
    · obtain ⟨N, N', e1, e2, hN⟩ := sameStep orc pe h hrun
      have hrun' : M'.status = .running := hc.status ▸ hrun
      rw [loop_unfold, loop_unfold]
      simp only [hrun, hrun', bne_self_eq_false, Bool.false_eq_true, if_false, e1, e2]
      rcases hN with hd | hs
      · rw [depthHit_stopped orc pe n N hd]; exact Or.inr hd
      · exact ih N N' hs
    · have hrun' : M'.status ≠ .running := fun x => hrun (hc.status.trans x)
      rw [loop_stopped orc pe _ M hrun, loop_stopped orc pe _ M' hrun']
      exact Or.inl hc

theorem joint_run (orc : Oracle) (pe : PEnv) : ∀ (fuel : Nat) (M M' : PM), JointR pe.env M M' →
    (parseLoopFrom orc pe fuel .initial M).status ≠ .outOfFuel →
    Out (parseLoopFrom orc pe fuel .initial M) (parseLoopFrom orc pe fuel .initial M') := by
  intro fuel
  induction fuel with
  | zero =>
    intro M M' h hf
    have hc := h.1
    rw [loop_zero] at hf
    by_cases hrun : M.status = .running
    · simp [hrun] at hf
    · have hrun' : M'.status ≠ .running := fun x => hrun (hc.status.trans x)
      rw [loop_stopped orc pe _ M hrun, loop_stopped orc pe _ M' hrun']
      exact Or.inl hc
  | succ n ih =>
    intro M M' h hf
    have hc := h.1
    by_cases hrun : M.status = .running
    · have hrun' : M'.status = .running := hc.status ▸ hrun
      obtain ⟨N, e1, hN⟩ := jointStep orc pe h hrun
      have hM : parseLoopFrom orc pe (n + 1) .initial M = parseLoopFrom orc pe n .initial N := by
        rw [loop_unfold]; simp only [hrun, bne_self_eq_false, Bool.false_eq_true, if_false, e1]
      rw [hM] at hf ⊢
      rcases hN with hd | ⟨N', e2, hj⟩ | hs
      · rw [depthHit_stopped orc pe n N hd]; exact Or.inr hd
      · have hM' : parseLoopFrom orc pe (n + 1) .initial M' = parseLoopFrom orc pe n .initial N' := by
          rw [loop_unfold]; simp only [hrun', bne_self_eq_false, Bool.false_eq_true, if_false, e2]
        rw [hM']
        exact ih N N' hj hf
      · rcases same_run orc pe n N M' hs with hcore | hd
        · have hst : (parseLoopFrom orc pe n .initial M').status ≠ .outOfFuel := by rw [← hcore.status]; exact hf
          rw [loop_mono orc pe n M' hst]
          exact Or.inl hcore
        · exact Or.inr hd
    · have hrun' : M'.status ≠ .running := fun x => hrun (hc.status.trans x)
      rw [loop_stopped orc pe _ M hrun, loop_stopped orc pe _ M' hrun']
      exact Or.inl hc

/-- what `Core` says in terms of what an application can observe -/
theorem core_observable {F F' : PM} (h : Core F F') :
    F.status = F'.status ∧ F.trace = F'.trace ∧ F.diags.map (·.cls) = F'.diags.map (·.cls) ∧
    (collapse F.frames).map (fun f => eraseCfg f.cfg) = (collapse F'.frames).map (fun f => eraseCfg f.cfg) := by
  rw [core_iff] at h
  obtain ⟨h1, h2, h3, h4, _, _⟩ := h
  refine ⟨h2, h4, ?_, ?_⟩
  · have := congrArg (List.map (·.cls)) h3
    simpa [List.map_map, Function.comp_def, eraseDiag] using this
  · rw [← collapse_erase, ← collapse_erase, h1]

/-- **C13 (include = text in place).**  `m0` is a running machine about to open the file whose text
is `a`; `src` is its current source, whose remaining text is what follows the `include(…)` call. -/
theorem C13_include_in_place (orc : Oracle) (pe : PEnv) (fuel : Nat) (m0 : PM) (fname xf a : Bytes) (src : Src) (srcs : List Src)
    (f : Frame) (rest : List Frame) (hfr : m0.frames = f :: rest) (hs : m0.srcs = src :: srcs)
    (hdepth : ¬ (m0.srcs.length - 1 ≥ pe.maxInc)) (hres : resolveFile pe fname = some xf) (hopen : openFile pe xf = some a)
    (hnd : NoDollar a) (hen : EndsNl a) (hscan : ∃ ta, Scan pe.env a (ta ++ [.eof]))
    (hfuel : (parseLoopFrom orc pe fuel .initial (doInclude pe m0 fname)).status ≠ .outOfFuel) :
    Out (parseLoopFrom orc pe fuel .initial (doInclude pe m0 fname))
        (parseLoopFrom orc pe fuel .initial
          (setSrcs { m0 with pendingInclude := none } ({ src with rest := a ++ src.rest } :: srcs))) := by
  refine joint_run orc pe fuel _ _ ?_ hfuel
  have hd : doInclude pe m0 fname =
      { ({ m0 with pendingInclude := none } : PM) with
        frames := { f with cfg := f.cfg.setInfo { f.cfg.info with filename := some xf, line := 1 } } :: rest,
        srcs := { rest := a, savedFile := f.cfg.info.filename, savedLine := f.cfg.info.line } :: m0.srcs } := by
    unfold doInclude
    simp only [hfr, hdepth, if_false, hres, hopen]
  rw [hd]
  refine ⟨?_, fun _ => ⟨_, _, rfl⟩, [], a, src.rest, srcs.map (·.rest), ?_, ?_, hnd, hen, hscan⟩
  · have := core_setFrames (Core.refl ({ m0 with pendingInclude := none } : PM))
      ({ f with cfg := f.cfg.setInfo { f.cfg.info with filename := some xf, line := 1 } } :: rest) (f :: rest)
      (by simp only [List.map_cons, eraseFrame_setPos])
      ({ rest := a, savedFile := f.cfg.info.filename, savedLine := f.cfg.info.line } :: m0.srcs)
      ({ src with rest := a ++ src.rest } :: srcs)
    rw [core_iff] at this ⊢
    simpa [setSrcs, hfr] using this
  · simp [rests, hs]
  · simp [rests, setSrcs]

/-! ### the hypotheses on the included text are met by an ordinary file -/

private def envN : Env := fun _ => none
private def exA : Bytes := [120, 32, 61, 32, 50, 10]          -- "x = 2\n"

example : NoDollar exA ∧ EndsNl exA :=
  ⟨by intro c hc; simp [exA] at hc; omega, by intro x hx; simp [exA] at hx; omega⟩

example : ∃ ta, Scan envN exA (ta ++ [.eof]) := by
  refine ⟨[.str [120], .eq, .str [50]], ?_⟩
  have h1 : lexInitial envN 0 exA = ⟨.str [120], 0, [32, 61, 32, 50, 10]⟩ := by decide
  have h2 : lexInitial envN 0 [32, 61, 32, 50, 10] = ⟨.eq, 0, [32, 50, 10]⟩ := by decide
  have h3 : lexInitial envN 0 [32, 50, 10] = ⟨.str [50], 0, [10]⟩ := by decide
  have h4 : lexInitial envN 0 [10] = ⟨.eof, 1, []⟩ := by decide
  have s4 : Scan envN [10] [.eof] := Scan.eof _ (by rw [h4])
  have s3 : Scan envN [32, 50, 10] [.str [50], .eof] := by
    have := Scan.tok (env := envN) [32, 50, 10] [.eof] (by rw [h3]; decide) (by rw [h3]; rfl) (by rw [h3]; exact s4)
    rw [h3] at this; exact this
  have s2 : Scan envN [32, 61, 32, 50, 10] [.eq, .str [50], .eof] := by
    have := Scan.tok (env := envN) [32, 61, 32, 50, 10] _ (by rw [h2]; decide) (by rw [h2]; rfl) (by rw [h2]; exact s3)
    rw [h2] at this; exact this
  have := Scan.tok (env := envN) exA _ (by rw [h1]; decide) (by rw [h1]; rfl) (by rw [h1]; exact s2)
  rw [h1] at this; exact this

end Confuse
