import Confuse.Model.Print
/-!
# C19 — print emits each unfiltered option once, in order, at its depth
-/
namespace Confuse

/-- the effective filter of a context: its own, else the one handed down -/
def effFilter (c : Cfg) (fb : Option (List Bytes)) : Option (List Bytes) := effPff c.info.pff fb

/-- **C19 (filter selection / inheritance).** A context prints its options under its own filter if
it has one, otherwise under the filter of the nearest ancestor that has one. -/
theorem C19_effective_filter (c : Cfg) (fb : Option (List Bytes)) (indent : Nat) :
    printCfg fb indent c = printOpts (effFilter c fb) indent c.opts := by
  obtain ⟨info, opts⟩ := c
  simp [printCfg, effFilter, Cfg.info, Cfg.opts]

/-- **C19 (once, in order, nothing else).** The output for a list of options is the concatenation,
in declaration order, of the entries of exactly those options the filter does not hide. -/
theorem C19_once_in_order (pff : Option (List Bytes)) (indent : Nat) (opts : List Opt) :
    printOpts pff indent opts =
      ((opts.filter (fun o => !hides pff o.name)).map (printOpt pff indent)).flatten := by
  induction opts with
  | nil => simp [printOpts]
  | cons o os ih =>
    simp only [printOpts, ih]
    by_cases h : hides pff o.name = true
    · simp [h]
    · simp [h]

/-- **C19 (section bodies).** A section option prints, per instance and in order, a header at its
own depth, the instance's print one level deeper under the same effective filter, and a closer. -/
theorem C19_section_instances (o : Opt) (pff : Option (List Bytes)) (indent : Nat) (secs : List Cfg) :
    printVals o pff indent (secs.map Val.sec) =
      (secs.map (fun s =>
        indentBytes indent ++ printName o.name ++ (if o.flags.title then [c_sp] ++ printQuoted s.info.title else []) ++
          [c_sp, c_lbr, c_nl] ++ printCfg pff (indent + 1) s ++ indentBytes indent ++ [c_rbr, c_nl])).flatten := by
  induction secs with
  | nil => simp [printVals]
  | cons s ss ih =>
    simp only [List.map_cons, printVals, ih, List.flatten_cons]

/-- **C19 (a nested section without a filter of its own inherits).** -/
theorem C19_inherit (s : Cfg) (eff : Option (List Bytes)) (indent : Nat) (h : s.info.pff = none) :
    printCfg eff indent s = printOpts eff indent s.opts := by
  rw [C19_effective_filter]
  simp [effFilter, effPff, h]

/-- **C19 (own filter wins).** -/
theorem C19_own_filter (s : Cfg) (eff : Option (List Bytes)) (p : List Bytes) (indent : Nat) (h : s.info.pff = some p) :
    printCfg eff indent s = printOpts (some p) indent s.opts := by
  rw [C19_effective_filter]
  simp [effFilter, effPff, h]

/-- **C19 (unset scalars are commented out).** -/
theorem C19_unset_commented (pff : Option (List Bytes)) (indent : Nat) (info : OptInfo) (flags : Flags) (subs : List Decl)
    (hs : info.ty ≠ .sec) (hf : info.ty ≠ .func) (hp : info.ty ≠ .ptr) (hl : flags.list = false) :
    printOpt pff indent (.mk info flags subs [] none) =
      indentBytes indent ++ [c_hash, c_sp] ++ printName info.name ++ [c_eq] ++ printValue (.mk info flags subs [] none) 0 ++ [c_nl] := by
  simp [printOpt, hs, hf, hp, hl, isUnset, Opt.vals, List.append_assoc]

/-- **C19 (print callback).** The callback's output replaces the built-in formatting of exactly
that option's values, at every index. -/
theorem C19_callback (o : Opt) (i : Nat) :
    (o.info.printCb = true → printValue o i = printCbOut o.name i) ∧
    (o.info.printCb = false → printValue o i = nprintVar o.ty o.vals[i]?) := by
  constructor <;> intro h <;> simp [printValue, h]

/-- **C19 (depth).** Every entry of a context printed at depth `d` starts with `2*d` blanks
(shown for the scalar form; sections and lists use the same `indentBytes`). -/
theorem C19_scalar_indent (pff : Option (List Bytes)) (indent : Nat) (info : OptInfo) (flags : Flags) (subs : List Decl) (vals : List Val)
    (hs : info.ty ≠ .sec) (hf : info.ty ≠ .func) (hp : info.ty ≠ .ptr) (hl : flags.list = false) :
    ∃ rest, printOpt pff indent (.mk info flags subs vals none) = indentBytes indent ++ rest := by
  refine ⟨(if isUnset (.mk info flags subs vals none) then [c_hash, c_sp] else []) ++ printName info.name ++ [c_eq] ++
    printValue (.mk info flags subs vals none) 0 ++ [c_nl], ?_⟩
  simp [printOpt, hs, hf, hp, hl, List.append_assoc]

/-- **C19 / C05 (pointer options).** A pointer value has no text of its own: an option of pointer type
without a print callback contributes nothing to the printed text — no `name=` that would take the
next word of the file as its value when read back, and no annotation that would stick to the next
option. -/
theorem C19_pointer_without_callback (pff : Option (List Bytes)) (indent : Nat) (info : OptInfo) (flags : Flags) (subs : List Decl)
    (vals : List Val) (comment : Option Bytes) (hp : info.ty = .ptr) (hc : info.printCb = false) :
    printOpt pff indent (.mk info flags subs vals comment) = [] := by
  simp [printOpt, hp, hc]

end Confuse
