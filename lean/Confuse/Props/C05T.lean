import Confuse.Props.C05S
/-!
# C05 — configurations one level deep, BYTE level

The bytes `cfg_print` writes for a configuration of depth one (plain options and untitled multi sections with flat
bodies), scanned by the scanner model, taken by the parse loop and fed through the token machine.
-/
namespace Confuse

/-- **from "the text scans to these tokens and the tokens drive the machine there" to "the parse is accepted".** The tail
of every byte-level round trip: the parse loop takes exactly the scanned tokens, the end of the input at the top-level
item boundary is accepted, and the result is the top frame's tree. -/
theorem accept_of_steps (orc : Oracle) (pe : PEnv) (c0 : Cfg) (text : Bytes) (ts : List (Tok × Nat)) (k' : Nat) (f' : Frame) (md : Nat)
    (hlex : LexSteps pe.env text ts (List.replicate k' c_nl))
    (hnp : ∀ t ∈ ts, t.1 ≠ .rparen)
    (e1 : parseToks orc (startPM ((c0.setFilename (some bufName)).setLine 1) text 0) ts =
            { startPM ((c0.setFilename (some bufName)).setLine 1) text 0 with frames := [f'], maxDepth := md })
    (hat' : AtItem f') (hlev' : f'.level = 0) :
    (parseBuf orc pe c0 text).rc = 0 ∧ (parseBuf orc pe c0 text).cfg.opts = f'.cfg.opts ∧
    (parseBuf orc pe c0 text).cfg.info.pff = f'.cfg.info.pff := by
  let c1 := (c0.setFilename (some bufName)).setLine 1
  let m0 : PM := startPM c1 text 0
  have hlen := lexSteps_length pe.env hlex
  have hfin : (parseToks orc m0 ts).status = .running := by rw [e1]; rfl
  obtain ⟨F, hF⟩ : ∃ F, fuelFor pe text = F + 1 + ts.length := ⟨fuelFor pe text - 1 - ts.length, by unfold fuelFor; omega⟩
  have hloop := loop_steps orc pe hlex hnp (F + 1) m0 { rest := text } rfl rfl rfl rfl hfin
  let m1 : PM := setSrcs (parseToks orc m0 ts) [{ rest := List.replicate k' c_nl }]
  have heof : (lexInitial pe.env 0 (List.replicate k' c_nl)).tok = .eof := by
    have := lex_only_newlines pe.env k'; simpa using this
  have hround := C13_loop_reads_eof orc pe F m1 { rest := List.replicate k' c_nl } (by show (parseToks orc m0 ts).status = _; exact hfin) rfl heof
  have hpst : ∀ nl (S : List Src),
      pstep orc (setSrcs { m0 with frames := [f'], maxDepth := md } S) .eof nl =
        { setSrcs { m0 with frames := [f'], maxDepth := md } S with frames := [{ f' with cfg := f'.cfg.setLine (f'.cfg.line + nl) }], status := .accepted } :=
    fun nl S => pstep_eof_top orc _ f' nl rfl rfl hat'.st hlev' hat'.nd
  unfold parseBuf parseFp
  show (finishParse c1 (parseLoop orc pe (fuelFor pe text) m0) 0).rc = 0 ∧ (finishParse c1 (parseLoop orc pe (fuelFor pe text) m0) 0).cfg.opts = f'.cfg.opts ∧
    (finishParse c1 (parseLoop orc pe (fuelFor pe text) m0) 0).cfg.info.pff = f'.cfg.info.pff
  unfold parseLoop
  rw [hF, hloop, hround]
  simp only [m1]
  rw [e1]
  have e2 : ({ setSrcs { m0 with frames := [f'], maxDepth := md } [{ rest := List.replicate k' c_nl }] with srcs := [{ ({ rest := List.replicate k' c_nl } : Src) with rest := (lexInitial pe.env 0 (List.replicate k' c_nl)).rest }] } : PM)
      = setSrcs { m0 with frames := [f'], maxDepth := md } [{ rest := (lexInitial pe.env 0 (List.replicate k' c_nl)).rest }] := rfl
  rw [e2, hpst]
  generalize hM : ({ setSrcs { m0 with frames := [f'], maxDepth := md } [{ rest := (lexInitial pe.env 0 (List.replicate k' c_nl)).rest }] with
        frames := [{ f' with cfg := f'.cfg.setLine (f'.cfg.line + (lexInitial pe.env 0 (List.replicate k' c_nl)).nl) }], status := .accepted } : PM) = M
  have hMp : M.pendingInclude = none := by rw [← hM]; rfl
  have hMs : M.status = .accepted := by rw [← hM]
  have hMf : M.frames = [{ f' with cfg := f'.cfg.setLine (f'.cfg.line + (lexInitial pe.env 0 (List.replicate k' c_nl)).nl) }] := by rw [← hM]
  simp only [afterTok, hMp]
  rw [loop_stopped orc pe F M (by rw [hMs]; simp)]
  have hpfl : ∀ (x : Cfg) (n : Nat), (x.setLine n).info.pff = x.info.pff := by intro x n; cases x; rfl
  refine ⟨by simp [finishParse, hMs], ?_, ?_⟩
  · simp only [finishParse, hMf, collapse, collapseInto, opts_setLine]
  · simp only [finishParse, hMf, collapse, collapseInto]
    rw [hpfl]

/-! ## scanning: indentation and section lines -/

theorem lex_spaces (env : Env) (j : Nat) (nl : Nat) (Y : Bytes) : lexInitial env nl (List.replicate j c_sp ++ Y) = lexInitial env nl Y := by
  induction j with
  | zero => rfl
  | succ j ih => simp only [List.replicate_succ, List.cons_append, lex_sp]; exact ih

/-- blanks in front of the first token (after any newlines) change nothing -/
theorem lexSteps_indent (env : Env) (k j : Nat) (X : Bytes) (ts : List (Tok × Nat)) (out : Bytes) (hne : ts ≠ [])
    (h : LexSteps env (List.replicate k c_nl ++ X) ts out) :
    LexSteps env (List.replicate k c_nl ++ (List.replicate j c_sp ++ X)) ts out := by
  cases h with
  | nil => exact absurd rfl hne
  | cons _ t nl rest ts' _ hl hg hrest =>
    refine LexSteps.cons _ t nl rest ts' out ?_ hg hrest
    rw [lex_lead, lex_spaces, ← lex_lead]; exact hl

theorem optToks_ne_nil {o : Opt} {ts : List (Tok × Nat)} (h : OptToks o ts) : ts ≠ [] := by
  cases h <;> simp

/-- a printable option at any indentation is its line at indentation 0 behind that many blanks -/
theorem printOpt_indent (o : Opt) (j : Nat) (hp : Printable o) : printOpt none j o = indentBytes j ++ printOpt none 0 o := by
  obtain ⟨info, fl, subs, vals, cm⟩ := o
  have hnc := hp.noComment
  simp only [Opt.comment] at hnc
  subst hnc
  have hty := hp.ty
  simp only [Opt.ty, Opt.info] at hty
  rcases hty with h | h | h <;> by_cases hl : fl.list = true <;>
    simp [printOpt, h, hl, indentBytes]

/-- the options of a flat instance, printed at any indentation, scan to their tokens -/
theorem lex_opts_indent (env : Env) (j : Nat) : ∀ (os : List Opt) (k : Nat) (rest : Bytes), (∀ o ∈ os, Printable o) →
    ∃ ts k', FlatToks os ts ∧ LexSteps env (List.replicate k c_nl ++ (printOpts none j os ++ rest)) ts (List.replicate k' c_nl ++ rest) := by
  intro os
  induction os with
  | nil => intro k rest _; exact ⟨[], k, FlatToks.nil, by simpa [printOpts] using LexSteps.nil _⟩
  | cons o os ih =>
    intro k rest hall
    obtain ⟨ts1, h1, s1⟩ := lex_opt env o k (printOpts none j os ++ rest) (hall o (by simp))
    obtain ⟨ts2, k', h2, s2⟩ := ih 1 rest (fun x hx => hall x (by simp [hx]))
    refine ⟨ts1 ++ ts2, k', FlatToks.cons o os ts1 ts2 h1 h2, ?_⟩
    have e : printOpts none j (o :: os) ++ rest = List.replicate (2 * j) c_sp ++ (printOpt none 0 o ++ (printOpts none j os ++ rest)) := by
      simp [printOpts, hides, printOpt_indent o j (hall o (by simp)), indentBytes]
    rw [e]
    exact LexSteps.append (lexSteps_indent env k (2 * j) _ ts1 _ (optToks_ne_nil h1) s1) s2

/-- a printed flat instance the byte-level theorem covers -/
structure PrintableInst (s : Cfg) : Prop where
  nopff : s.info.pff = none
  opts : ∀ o ∈ s.opts, Printable o

/-- **one printed section instance scans to its tokens**: name, `{`, the body's tokens, `}` -/
theorem lex_instance (env : Env) (name : Bytes) (s : Cfg) (j k : Nat) (tail : Bytes) (h0 : ∀ c ∈ name, c ≠ 0) (hs : PrintableInst s) :
    ∃ body n1 n3, FlatToks s.opts body ∧
      LexSteps env (List.replicate k c_nl ++ (indentBytes j ++ printName name ++ [c_sp, c_lbr, c_nl] ++ printCfg none (j + 1) s ++
                      indentBytes j ++ [c_rbr, c_nl] ++ tail))
        ([(.str name, n1), (.lbrace, 0)] ++ body ++ [(.rbrace, n3)]) (List.replicate 1 c_nl ++ tail) := by
  have hcfg : printCfg none (j + 1) s = printOpts none (j + 1) s.opts := by
    cases s with
    | mk info opts => have := hs.nopff; simp only [Cfg.info] at this; simp [printCfg, this, effPff, Cfg.opts]
  obtain ⟨body, k', hb, sb⟩ := lex_opts_indent env (j + 1) s.opts 1 (indentBytes j ++ c_rbr :: c_nl :: tail) hs.opts
  obtain ⟨n1, e1⟩ := C05_name env name (c_lbr :: c_nl :: (printOpts none (j + 1) s.opts ++ (indentBytes j ++ c_rbr :: c_nl :: tail))) c_sp k h0 (Or.inl rfl)
  refine ⟨body, n1, k', hb, ?_⟩
  have shape : indentBytes j ++ printName name ++ [c_sp, c_lbr, c_nl] ++ printCfg none (j + 1) s ++ indentBytes j ++ [c_rbr, c_nl] ++ tail =
      List.replicate (2 * j) c_sp ++ (printName name ++ c_sp :: c_lbr :: c_nl :: (printOpts none (j + 1) s.opts ++ (indentBytes j ++ c_rbr :: c_nl :: tail))) := by
    rw [hcfg]; simp [indentBytes]
  rw [shape]
  -- the name
  refine LexSteps.cons _ (.str name) n1 _ _ _ (by rw [lex_lead, lex_spaces]; exact e1) rfl ?_
  -- the opening brace
  refine LexSteps.cons _ .lbrace 0 _ _ _ (by rw [lex_sp]; exact lex_lbr env 0 _) rfl ?_
  -- the body, then the closing brace
  have sb' : LexSteps env (c_nl :: (printOpts none (j + 1) s.opts ++ (indentBytes j ++ c_rbr :: c_nl :: tail))) body
      (List.replicate k' c_nl ++ (indentBytes j ++ c_rbr :: c_nl :: tail)) := by simpa using sb
  refine LexSteps.append sb' ?_
  refine LexSteps.one (t := .rbrace) (nl := k') ?_ rfl
  rw [lex_lead]
  show lexInitial env k' (List.replicate (2 * j) c_sp ++ c_rbr :: c_nl :: tail) = _
  rw [lex_spaces]
  simpa using lex_rbr env k' (c_nl :: tail)

/-- **all printed instances of an untitled section option scan to their tokens** -/
theorem lex_insts (env : Env) (o : Opt) (j : Nat) (ht : o.flags.title = false) (h0 : ∀ c ∈ o.name, c ≠ 0) :
    ∀ (cs : List Cfg) (k : Nat) (tail : Bytes), (∀ c ∈ cs, PrintableInst c) →
    ∃ ts k', InstToks o.name cs ts ∧
      LexSteps env (List.replicate k c_nl ++ (printVals o none j (cs.map Val.sec) ++ tail)) ts (List.replicate k' c_nl ++ tail) := by
  intro cs
  induction cs with
  | nil => intro k tail _; exact ⟨[], k, InstToks.nil, by simpa [printVals] using LexSteps.nil _⟩
  | cons c cs ih =>
    intro k tail hall
    obtain ⟨ts2, k', h2, s2⟩ := ih 1 tail (fun x hx => hall x (by simp [hx]))
    obtain ⟨body, n1, n3, hb, s1⟩ := lex_instance env o.name c j k (printVals o none j (cs.map Val.sec) ++ tail) h0 (hall c (by simp))
    refine ⟨[(.str o.name, n1), (.lbrace, 0)] ++ body ++ [(.rbrace, n3)] ++ ts2, k', InstToks.cons c cs body ts2 n1 0 n3 hb h2, ?_⟩
    have e : printVals o none j ((c :: cs).map Val.sec) ++ tail =
        indentBytes j ++ printName o.name ++ [c_sp, c_lbr, c_nl] ++ printCfg none (j + 1) c ++ indentBytes j ++ [c_rbr, c_nl] ++
          (printVals o none j (cs.map Val.sec) ++ tail) := by
      simp [printVals, ht]
    rw [e]
    exact LexSteps.append s1 s2

/-- a section option the byte-level theorem covers (printing side): untitled, not annotated, holding flat instances -/
structure PrintableSec (o : Opt) : Prop where
  ty : o.ty = .sec
  notitle : o.flags.title = false
  noComment : o.comment = none
  name0 : ∀ c ∈ o.name, c ≠ 0
  insts : ∃ cs : List Cfg, o.vals = cs.map Val.sec ∧ ∀ c ∈ cs, PrintableInst c

def Printable1 (o : Opt) : Prop := (o.ty ≠ .sec ∧ Printable o) ∨ PrintableSec o

theorem print_sec (o : Opt) (hp : PrintableSec o) : printOpt none 0 o = printVals o none 0 o.vals := by
  obtain ⟨info, fl, subs, vals, cm⟩ := o
  have h1 := hp.ty; have h2 := hp.noComment
  simp only [Opt.ty, Opt.info, Opt.comment] at h1 h2
  subst h2
  simp [printOpt, h1, Opt.vals]

/-- **the printed text of a configuration of depth one scans to its tokens** -/
theorem lex_tree1 (env : Env) : ∀ (os : List Opt) (k : Nat) (rest : Bytes), (∀ o ∈ os, Printable1 o) →
    ∃ ts k', Tree1Toks os ts ∧ LexSteps env (List.replicate k c_nl ++ (printOpts none 0 os ++ rest)) ts (List.replicate k' c_nl ++ rest) := by
  intro os
  induction os with
  | nil => intro k rest _; exact ⟨[], k, Tree1Toks.nil, by simpa [printOpts] using LexSteps.nil _⟩
  | cons o os ih =>
    intro k rest hall
    have e : printOpts none 0 (o :: os) ++ rest = printOpt none 0 o ++ (printOpts none 0 os ++ rest) := by
      simp [printOpts, hides]
    rw [e]
    rcases hall o (by simp) with ⟨hns, hp⟩ | hp
    · obtain ⟨ts1, h1, s1⟩ := lex_opt env o k (printOpts none 0 os ++ rest) hp
      obtain ⟨ts2, k', h2, s2⟩ := ih 1 rest (fun x hx => hall x (by simp [hx]))
      exact ⟨ts1 ++ ts2, k', Tree1Toks.plain o os ts1 ts2 hns h1 h2, LexSteps.append s1 s2⟩
    · obtain ⟨cs, hv, hcs⟩ := hp.insts
      rw [print_sec o hp, hv]
      cases cs with
      | nil =>
        obtain ⟨ts2, k', h2, s2⟩ := ih k rest (fun x hx => hall x (by simp [hx]))
        exact ⟨ts2, k', Tree1Toks.secNone o os ts2 hp.ty (by simpa using hv) h2, by simpa [printVals] using s2⟩
      | cons c cs =>
        obtain ⟨ts1, k1, h1, s1⟩ := lex_insts env o 0 hp.notitle hp.name0 (c :: cs) k (printOpts none 0 os ++ rest) hcs
        -- after at least one instance exactly one newline is pending
        obtain ⟨ts2, k', h2, s2⟩ := ih k1 rest (fun x hx => hall x (by simp [hx]))
        exact ⟨ts1 ++ ts2, k', Tree1Toks.sec o os c cs ts1 ts2 hp.ty hv h1 h2, LexSteps.append s1 s2⟩

theorem instToks_no_rparen {name : Bytes} {cs : List Cfg} {ts : List (Tok × Nat)} (h : InstToks name cs ts) : ∀ t ∈ ts, t.1 ≠ .rparen := by
  induction h with
  | nil => intro t ht; cases ht
  | cons c cs body ts' n1 n2 n3 hb _ ih =>
    intro t ht
    simp only [List.mem_append, List.mem_cons, List.not_mem_nil, or_false] at ht
    rcases ht with ((((rfl | rfl) | hb') | rfl) | ht')
    · simp
    · simp
    · exact flatToks_no_rparen hb t hb'
    · simp
    · exact ih t ht'

theorem tree1Toks_no_rparen {os : List Opt} {ts : List (Tok × Nat)} (h : Tree1Toks os ts) : ∀ t ∈ ts, t.1 ≠ .rparen := by
  induction h with
  | nil => intro t ht; cases ht
  | plain o os ts1 tss _ h1 _ ih =>
    intro t ht
    rcases List.mem_append.mp ht with h | h
    · exact optToks_no_rparen h1 t h
    · exact ih t h
  | secNone o os tss _ _ _ ih => exact ih
  | sec o os c cs ts1 tss _ _ h1 _ ih =>
    intro t ht
    rcases List.mem_append.mp ht with h | h
    · exact instToks_no_rparen h1 t h
    · exact ih t h

/-- **C05 (configurations one level deep, byte level).** Print a configuration `c` whose options are plain integer /
boolean / string options (scalar or list), untitled multi sections holding any number of flat instances, and single
sections holding their one flat instance - no callbacks, annotations or print filter - and parse the printed text with
`cfg_parse_buf` into ANY context `c0` with the same declarations whose multi sections have no instances yet and whose
single sections hold their instance (as `cfg_init` leaves them; what the instance's options hold does not matter): the parse is
accepted, every plain option of the result holds exactly the value sequence of its counterpart in `c`, and every section
option has exactly `c`'s instances, in order, each holding option by option exactly the printed values.  Bytes
(indentation included), scanner, parse loop and token machine (frames pushed and popped) are all inside the statement. -/
theorem C05_tree1_roundtrip (orc : Oracle) (pe : PEnv) (c c0 : Cfg)
    (hpff : c.info.pff = none) (hpr : ∀ o ∈ c.opts, Printable1 o)
    (hal : All2 (Aligned1 c0.flags.nocase) c.opts c0.opts)
    (hpw : List.Pairwise (fun a b => titleEq c0.flags.nocase a.name b.name = false) c.opts) :
    (parseBuf orc pe c0 (cfgPrint c)).rc = 0 ∧
    All2 SameVals1 (parseBuf orc pe c0 (cfgPrint c)).cfg.opts c.opts := by
  have htext : cfgPrint c = printOpts none 0 c.opts := by
    cases c with
    | mk info opts => simp only [Cfg.info] at hpff; simp [cfgPrint, printCfg, hpff, effPff, Cfg.opts]
  obtain ⟨ts, k', hft, hlex⟩ := lex_tree1 pe.env c.opts 0 [] hpr
  simp only [List.replicate_zero, List.nil_append, List.append_nil] at hlex
  let c1 := (c0.setFilename (some bufName)).setLine 1
  have hopts1 : c1.opts = [] ++ c0.opts := by cases c0; rfl
  have hfl1 : c1.flags = c0.flags := by cases c0; rfl
  let f0 : Frame := { cfg := c1 }
  let m0 : PM := startPM c1 (cfgPrint c) 0
  have hat0 : AtItem f0 := ⟨rfl, rfl, by intro r o hr _; simp [f0] at hr⟩
  obtain ⟨f', done, md, e1, hat', _, hlev', _, hopts', _, hvals⟩ :=
    tree1_steps orc c0.flags.nocase c.opts c0.opts ts m0 f0 [] [] hft hal (by show c1.flags.nocase = _; rw [hfl1]) rfl rfl hat0 rfl hopts1
      (by intro p hp; simp at hp) hpw
  rw [← htext] at hlex
  obtain ⟨hrc, ho, _⟩ := accept_of_steps orc pe c0 (cfgPrint c) ts k' f' md hlex (tree1Toks_no_rparen hft) e1 hat' hlev'
  refine ⟨hrc, ?_⟩
  rw [ho, hopts']
  simpa using hvals

/-- non-vacuity: `i=7` and one instance `n { z=5 }`, printed and parsed into a context declared alike (`i` holding
another value, `n` still without instances), meets every premise of `C05_tree1_roundtrip` -/
example :
    let inst : Cfg := Cfg.mk { name := [110] } [Opt.mk { name := [122], ty := .int } {} [] [.int 5] none]
    let c : Cfg := Cfg.mk { name := [114] }
      [Opt.mk { name := [105], ty := .int } {} [] [.int 7] none,
       Opt.mk { name := [110], ty := .sec } { multi := true } [Decl.mk { name := [122], ty := .int } {} []] [.sec inst] none]
    let c0 : Cfg := Cfg.mk { name := [114] }
      [Opt.mk { name := [105], ty := .int } {} [] [.int 1] none,
       Opt.mk { name := [110], ty := .sec } { multi := true } [Decl.mk { name := [122], ty := .int } {} []] [] none]
    c.info.pff = none ∧ (∀ o ∈ c.opts, Printable1 o) ∧ All2 (Aligned1 c0.flags.nocase) c.opts c0.opts ∧
      List.Pairwise (fun a b => titleEq c0.flags.nocase a.name b.name = false) c.opts := by
  intro inst c c0
  have hz : Printable (Opt.mk { name := [122], ty := .int } {} [] [.int 5] none) :=
    ⟨Or.inl rfl, rfl, rfl, by decide, by intro v hv; simp [Opt.vals] at hv; subst hv; decide, fun _ => ⟨_, rfl⟩⟩
  have hi : Printable (Opt.mk { name := [105], ty := .int } {} [] [.int 7] none) :=
    ⟨Or.inl rfl, rfl, rfl, by decide, by intro v hv; simp [Opt.vals] at hv; subst hv; decide, fun _ => ⟨_, rfl⟩⟩
  refine ⟨rfl, ?_, ?_, ?_⟩
  · intro o ho
    simp only [c, Cfg.opts, List.mem_cons, List.not_mem_nil, or_false] at ho
    rcases ho with rfl | rfl
    · exact Or.inl ⟨by decide, hi⟩
    · exact Or.inr ⟨rfl, rfl, rfl, by decide, [inst], rfl, by intro x hx; simp at hx; subst hx; exact ⟨rfl, by intro o ho; simp [inst, Cfg.opts] at ho; subst ho; exact hz⟩⟩
  · refine All2.cons (Or.inl ⟨by decide, rfl, rfl, rfl, ⟨Or.inl rfl, rfl, rfl, rfl, rfl, ⟨by decide, by decide⟩, rfl⟩⟩) (All2.cons (Or.inr (Or.inl ⟨rfl, rfl, ?_, rfl, ?_⟩)) All2.nil)
    · exact ⟨⟨rfl, rfl⟩, rfl, rfl, rfl, rfl, ⟨by decide, by decide⟩⟩
    · intro x hx
      simp [Opt.vals] at hx
      subst hx
      refine ⟨?_, by simp [inst, Cfg.opts]⟩
      intro ci
      have hn : ∀ si, (mkOpt si (Decl.mk { name := [122], ty := .int } {} [])).name = [122] := fun _ => rfl
      refine All2.cons ⟨rfl, rfl, rfl, ⟨Or.inl rfl, rfl, rfl, rfl, rfl, ?_, rfl⟩⟩ All2.nil
      rw [hn]; exact ⟨by decide, by decide⟩
  · simp [c, Cfg.opts, titleEq, Opt.name, Opt.info]
    decide

end Confuse
