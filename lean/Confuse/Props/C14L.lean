import Confuse.Props.C14A
/-!
# C14 — the callback log of a whole list assignment in closed form

`name = { v1, …, vk }` / `name += { … }` for a list option with a validation callback: after every value the parser
stores, the callback runs with the values held so far visible (all of them, in order), before the next token is looked
at; it runs once more at the closing brace.  The log is the old log plus exactly these k + 1 invocations, in this order,
as long as every verdict lets the parse go on.
-/
namespace Confuse

/-- the invocations (newest first) the values `vals`, stored one after the other into `o`, cause -/
def validTrace : Opt → List Val → List CbCall
  | _, [] => []
  | o, v :: vs => validTrace (o.appendVal v) vs ++ [CbCall.valid o.name ((o.appendVal v).vals.map Val.snap)]

/-- every one of these verdicts lets the parse go on; `k` is the number of invocations so far -/
def validsOk (orc : Oracle) : Nat → Opt → List Val → Prop
  | _, _, [] => True
  | k, o, v :: vs => orc k (CbCall.valid o.name ((o.appendVal v).vals.map Val.snap)) ≠ .fail ∧ validsOk orc (k + 1) (o.appendVal v) vs

theorem validTrace_length (o : Opt) (vals : List Val) : (validTrace o vals).length = vals.length := by
  induction vals generalizing o with
  | nil => rfl
  | cons v vs ih => simp [validTrace, ih]

/-- a value token inside the braces of a list option with a validation callback whose verdict is "go on" -/
theorem pstep_value_list_valid (orc : Oracle) (m : PM) (f : Frame) (rest : List Frame) (v : Bytes) (n3 : Nat) (r : OptRef) (o : Opt) (val : Val)
    (hrun : m.status = .running) (hfr : m.frames = f :: rest) (hst : f.state = .s2) (hopt : f.opt = some r)
    (hcm : f.comment = none) (hget : f.cfg.getOpt r = some o)
    (hty : o.ty = .int ∨ o.ty = .float ∨ o.ty = .bool ∨ o.ty = .str) (hpc : o.info.parseCb = false) (hvc : o.info.validCb = true)
    (hl : o.flags.list = true) (hconv : convTok o.ty v = some val) (hfree : freeEvOpt o = [])
    (hok : orc m.k (CbCall.valid o.name ((o.appendVal val).vals.map Val.snap)) ≠ .fail) :
    pstep orc m (.str v) n3 =
      { m with frames := { f with cfg := (f.cfg.setLine (f.cfg.line + n3)).setOpt r (o.appendVal val),
                                  state := .s4, numValues := f.numValues + 1 } :: rest,
               trace := CbCall.valid o.name ((o.appendVal val).vals.map Val.snap) :: m.trace } := by
  obtain ⟨cfg, level, state, opt, comment, opttitle, funcargs, ignore, depth, numValues, back⟩ := f
  simp only at hst hopt hget hcm
  subst hst; subst hopt; subst hcm
  unfold pstep
  simp only [hrun, hfr]
  simp only [step_s2, storeValue, getOpt_setLine, hget, Option.bind, hl, PM.k]
  rw [setopt_list_plain orc _ _ o v val hty hpc hl hconv hfree]
  have hvc1 : (o.appendVal val).info.validCb = true := hvc
  have hn1 : (o.appendVal val).name = o.name := by unfold Opt.appendVal; cases o; rfl
  rw [← hn1] at hok ⊢
  generalize o.appendVal val = o1 at hvc1 hok ⊢
  have hg : ((cfg.setLine (cfg.line + n3)).setOpt r o1).getOpt r = some o1 :=
    getOpt_setOpt _ r o _ (by rw [getOpt_setLine]; exact hget)
  simp only [PM.k] at hok
  simp [runValid, hg, hvc1, inheritComment, PM.addCalls, PM.addDiags, PM.k, hok]

theorem appendVal_name (o : Opt) (v : Val) : (o.appendVal v).name = o.name := by unfold Opt.appendVal; cases o; rfl

/-- **the values after the first one**, each followed by its validation -/
theorem list_tail_loop_valid (orc : Oracle) : ∀ (vs : List (Nat × Bytes × Nat)) (vals : List Val) (m : PM) (f : Frame) (rest : List Frame)
    (r : OptRef) (o : Opt),
    m.status = .running → m.frames = f :: rest → f.state = .s4 → f.opt = some r → f.comment = none →
    f.cfg.getOpt r = some o →
    (o.ty = .int ∨ o.ty = .float ∨ o.ty = .bool ∨ o.ty = .str) → o.info.parseCb = false → o.info.validCb = true →
    o.flags.list = true → freeEvOpt o = [] →
    convToks o.ty (vs.map (·.2.1)) = some vals →
    validsOk orc m.k o vals →
    parseToks orc m (flatSeq false vs) =
      { m with frames := { f with cfg := (f.cfg.setOpt r (o.appendVals vals)).setLine (f.cfg.line + seqLines vs),
                                  numValues := f.numValues + vs.length } :: rest,
               trace := validTrace o vals ++ m.trace } := by
  intro vs
  induction vs with
  | nil =>
    intro vals m f rest r o hrun hfr hst hopt hcm hget _ _ _ _ _ hcv _
    simp only [List.map, convToks] at hcv
    injection hcv with hcv; subst hcv
    obtain ⟨frames, srcs, status, diags, trace, pi, md⟩ := m
    simp only at hfr; subst hfr
    simp only [flatSeq, parseToks, List.foldl, Opt.appendVals, seqLines, Nat.add_zero, List.length_nil, setOpt_self _ _ _ hget, setLine_same,
      validTrace, List.nil_append]
  | cons x xs ih =>
    intro vals m f rest r o hrun hfr hst hopt hcm hget hty hpc hvc hl hfree hcv hok
    obtain ⟨c, t, n⟩ := x
    simp only [List.map, convToks] at hcv
    cases h1 : convTok o.ty t with
    | none => simp [h1] at hcv
    | some val =>
      cases h2 : convToks o.ty (xs.map (·.2.1)) with
      | none => simp [h1, h2] at hcv
      | some vals' =>
        simp only [h1, h2, Option.some.injEq] at hcv
        subst hcv
        obtain ⟨hok1, hok2⟩ := hok
        simp only [flatSeq, parseToks, List.foldl]
        rw [pstep_comma_list orc m f rest c hrun hfr hst]
        rw [pstep_value_list_valid orc { m with frames := { f with cfg := f.cfg.setLine (f.cfg.line + c), state := .s2 } :: rest }
              { f with cfg := f.cfg.setLine (f.cfg.line + c), state := .s2 } rest t n r o val hrun rfl rfl hopt hcm
              (by simp only [getOpt_setLine]; exact hget) hty hpc hvc hl h1 hfree hok1]
        have ih' := ih vals'
          { m with frames := { f with cfg := ((f.cfg.setLine (f.cfg.line + c)).setLine ((f.cfg.setLine (f.cfg.line + c)).line + n)).setOpt r (o.appendVal val),
                                      state := .s4, numValues := f.numValues + 1 } :: rest,
                   trace := CbCall.valid o.name ((o.appendVal val).vals.map Val.snap) :: m.trace }
          { f with cfg := ((f.cfg.setLine (f.cfg.line + c)).setLine ((f.cfg.setLine (f.cfg.line + c)).line + n)).setOpt r (o.appendVal val),
                   state := .s4, numValues := f.numValues + 1 } rest r (o.appendVal val)
          hrun rfl rfl hopt hcm
          (getOpt_setOpt _ r o _ (by simp only [getOpt_setLine]; exact hget))
          (by simpa using hty) (by simpa using hpc) (by simpa using hvc) (by simpa using hl)
          (appendVal_free o t val hfree h1) (by simpa using h2)
          (by simpa [PM.k] using hok2)
        simp only [parseToks] at ih'
        dsimp only at ih' ⊢
        rw [ih']
        simp only [setLine_line, setLine_setLine, setOpt_setLine, setOpt_setOpt, Opt.appendVals, seqLines, List.length_cons,
          validTrace, List.append_assoc, List.singleton_append]
        have e1 : f.cfg.line + c + n + seqLines xs = f.cfg.line + (c + n + seqLines xs) := by omega
        have e2 : f.numValues + 1 + xs.length = f.numValues + (xs.length + 1) := by omega
        rw [e1, e2, hst]

/-- `}` after the last value: the validation callback runs once more, over the whole list -/
theorem pstep_close_list_valid (orc : Oracle) (m : PM) (f : Frame) (rest : List Frame) (n : Nat) (r : OptRef) (o : Opt)
    (hrun : m.status = .running) (hfr : m.frames = f :: rest) (hst : f.state = .s4) (hopt : f.opt = some r)
    (hget : f.cfg.getOpt r = some o) (hvc : o.info.validCb = true)
    (hok : orc m.k (CbCall.valid o.name (o.vals.map Val.snap)) ≠ .fail) :
    pstep orc m .rbrace n = { m with frames := { f with cfg := f.cfg.setLine (f.cfg.line + n), state := .s0 } :: rest,
                                     trace := CbCall.valid o.name (o.vals.map Val.snap) :: m.trace } := by
  obtain ⟨cfg, level, state, opt, comment, opttitle, funcargs, ignore, depth, numValues, back⟩ := f
  simp only at hst hopt hget
  subst hst; subst hopt
  unfold pstep
  simp only [hrun, hfr]
  simp only [PM.k] at hok
  simp [step_s4, runValid, getOpt_setLine, hget, hvc, PM.addCalls, PM.k, hok]

/-- **C14 (the callback log of one list assignment, in closed form).** `name = { v1, …, vk }` or `name += { … }` (k ≥ 1)
at an item boundary, for a list option with a validation callback (and no value-parsing callback) whose tokens convert:
if every verdict lets the parse go on, the machine ends at an item boundary with the option holding the denoted values,
and the log is the old log plus exactly k + 1 invocations of the validation callback - after the i-th stored value with
the values held at that moment (what was there, if appended to, then v1 … vi), and once more at the closing brace with
all of them - in this order, nothing else. -/
theorem C14_list_trace (orc : Oracle) (m : PM) (f : Frame) (rest : List Frame) (name : Bytes) (n1 : Nat) (app : Bool) (n2 n3 : Nat)
    (c0 : Nat) (v0 : Bytes) (n0 : Nat) (vs : List (Nat × Bytes × Nat)) (n4 : Nat)
    (r : OptRef) (o : Opt) (val0 : Val) (vals : List Val)
    (hrun : m.status = .running) (hfr : m.frames = f :: rest) (hst : f.state = .s0)
    (hnd : noPendingDeprecated f) (hcm : f.comment = none)
    (hres : (getoptPath f.cfg name).ref = some r) (hsil : (getoptPath f.cfg name).diags = [])
    (hget : f.cfg.getOpt r = some o)
    (hty : o.ty = .int ∨ o.ty = .float ∨ o.ty = .bool ∨ o.ty = .str)
    (hpc : o.info.parseCb = false) (hvc : o.info.validCb = true) (hl : o.flags.list = true) (hfree : freeEvOpt o = [])
    (hc0 : convTok o.ty v0 = some val0) (hcs : convToks o.ty (vs.map (·.2.1)) = some vals)
    (hok : validsOk orc m.k (o.markAsg app) (val0 :: vals))
    (hokc : orc (m.k + (vals.length + 1)) (CbCall.valid o.name (((o.markAsg app).appendVals (val0 :: vals)).vals.map Val.snap)) ≠ .fail) :
    parseToks orc m ([(.str name, n1), (asgTok app, n2), (.lbrace, n3)] ++ flatSeq true ((c0, v0, n0) :: vs) ++ [(.rbrace, n4)]) =
      { m with frames :=
          { f with cfg := (f.cfg.setOpt r ((o.markAsg app).appendVals (val0 :: vals))).setLine
                            (f.cfg.line + n1 + n2 + n3 + n0 + seqLines vs + n4),
                   opt := some r, state := .s0, numValues := vs.length + 1 } :: rest,
               trace := CbCall.valid o.name (((o.markAsg app).appendVals (val0 :: vals)).vals.map Val.snap) ::
                          (validTrace (o.markAsg app) (val0 :: vals) ++ m.trace) } := by
  have hty' : o.ty ≠ .sec ∧ o.ty ≠ .func := by rcases hty with h | h | h | h <;> simp [h]
  obtain ⟨p1, p2, p3, p4, p5, p6⟩ := markAsg_props o app
  have hinfoVals : ∀ (o' : Opt) (l : List Val), (o'.appendVals l).info = o'.info := by
    intro o' l; induction l generalizing o' with
    | nil => rfl
    | cons a as ih => simp [Opt.appendVals, ih]
  have hnameVals : ∀ (o' : Opt) (l : List Val), (o'.appendVals l).name = o'.name := by
    intro o' l; simp [Opt.name, hinfoVals]
  have hmn : (o.markAsg app).name = o.name := by simp [Opt.name, p2]
  obtain ⟨hok1, hok2⟩ := hok
  let T1 : List CbCall := CbCall.valid (o.markAsg app).name (((o.markAsg app).appendVal val0).vals.map Val.snap) :: m.trace
  let mk : Frame → PM := fun F => { m with frames := F :: rest }
  let mk1 : Frame → PM := fun F => { m with frames := F :: rest, trace := T1 }
  let o1 := o.markAsg app
  let o2 := o1.appendVal val0
  let o3 := o2.appendVals vals
  let T2 : List CbCall := validTrace o2 vals ++ T1
  let mk2 : Frame → PM := fun F => { m with frames := F :: rest, trace := T2 }
  let F1 : Frame := { f with cfg := f.cfg.setLine (f.cfg.line + n1), opt := some r, state := .s1 }
  let F2 : Frame := { F1 with cfg := (F1.cfg.setLine (F1.cfg.line + n2)).setOpt r o1, state := .s3, numValues := 0 }
  let F3 : Frame := { F2 with cfg := F2.cfg.setLine (F2.cfg.line + n3), state := .s2 }
  let F4 : Frame := { F3 with cfg := (F3.cfg.setLine (F3.cfg.line + n0)).setOpt r o2, state := .s4, numValues := F3.numValues + 1 }
  let F5 : Frame := { F4 with cfg := (F4.cfg.setOpt r o3).setLine (F4.cfg.line + seqLines vs), numValues := F4.numValues + vs.length }
  let F6 : Frame := { F5 with cfg := F5.cfg.setLine (F5.cfg.line + n4), state := .s0 }
  have g0 : ∀ (c : Cfg), c.getOpt r = some o → ∀ n, (c.setLine n).getOpt r = some o := by
    intro c h n; rw [getOpt_setLine]; exact h
  have g1 : F1.cfg.getOpt r = some o := g0 _ hget _
  have g2 : F2.cfg.getOpt r = some o1 := getOpt_setOpt _ r o _ (g0 _ g1 _)
  have g3 : F3.cfg.getOpt r = some o1 := by show (F2.cfg.setLine _).getOpt r = some o1; rw [getOpt_setLine]; exact g2
  have g4 : F4.cfg.getOpt r = some o2 := getOpt_setOpt _ r o1 _ (by rw [getOpt_setLine]; exact g3)
  have g5 : F5.cfg.getOpt r = some o3 := by
    show ((F4.cfg.setOpt r o3).setLine _).getOpt r = some o3
    rw [getOpt_setLine]; exact getOpt_setOpt _ r o2 _ g4
  have e1 : pstep orc m (.str name) n1 = mk F1 := pstep_name orc m f rest name n1 r o hrun hfr hst hnd hres hsil hget hty'
  have e2 : pstep orc (mk F1) (asgTok app) n2 = mk F2 := pstep_asg_list orc (mk F1) F1 rest app n2 r o hrun rfl rfl rfl g1 hl
  have e3 : pstep orc (mk F2) .lbrace n3 = mk F3 := pstep_lbrace_list orc (mk F2) F2 rest n3 hrun rfl rfl
  have e4 : pstep orc (mk F3) (.str v0) n0 = mk1 F4 :=
    pstep_value_list_valid orc (mk F3) F3 rest v0 n0 r o1 val0 hrun rfl rfl rfl hcm g3
      (by show (o.markAsg app).ty = _ ∨ _; rw [p1]; exact hty) (by show (o.markAsg app).info.parseCb = false; rw [p2]; exact hpc)
      (by show (o.markAsg app).info.validCb = true; rw [p2]; exact hvc) (by show (o.markAsg app).flags.list = true; rw [p3]; exact hl)
      (by show convTok (o.markAsg app).ty v0 = some val0; rw [p1]; exact hc0) (by show freeEvOpt (o.markAsg app) = []; rw [p6]; exact hfree)
      hok1
  have e5 : parseToks orc (mk1 F4) (flatSeq false vs) = mk2 F5 :=
    list_tail_loop_valid orc vs vals (mk1 F4) F4 rest r o2 hrun rfl rfl rfl hcm g4
      (by show ((o.markAsg app).appendVal val0).ty = _ ∨ _; rw [appendVal_ty, p1]; exact hty)
      (by show ((o.markAsg app).appendVal val0).info.parseCb = false; rw [appendVal_info, p2]; exact hpc)
      (by show ((o.markAsg app).appendVal val0).info.validCb = true; rw [appendVal_info, p2]; exact hvc)
      (by show ((o.markAsg app).appendVal val0).flags.list = true; rw [appendVal_list, p3]; exact hl)
      (appendVal_free _ v0 val0 (by rw [p6]; exact hfree) (by rw [p1]; exact hc0))
      (by show convToks ((o.markAsg app).appendVal val0).ty _ = some vals; rw [appendVal_ty, p1]; exact hcs)
      (by simpa [PM.k, mk1, T1] using hok2)
  have hk2 : (mk2 F5).k = m.k + (vals.length + 1) := by
    simp [PM.k, mk2, T2, T1, validTrace_length]; omega
  have e6 : pstep orc (mk2 F5) .rbrace n4 = { mk2 F5 with frames := F6 :: rest, trace := CbCall.valid o3.name (o3.vals.map Val.snap) :: T2 } :=
    pstep_close_list_valid orc (mk2 F5) F5 rest n4 r o3 hrun rfl rfl rfl g5
      (by show (((o.markAsg app).appendVal val0).appendVals vals).info.validCb = true; rw [hinfoVals, appendVal_info, p2]; exact hvc)
      (by rw [hk2]
          have : o3.name = o.name := by show (((o.markAsg app).appendVal val0).appendVals vals).name = o.name; rw [hnameVals, appendVal_name, hmn]
          rw [this]; exact hokc)
  simp only [parseToks, List.foldl_append, List.foldl, flatSeq] at e5 ⊢
  rw [e1, e2, e3, e4, e5, e6]
  have hn3 : o3.name = o.name := by show (((o.markAsg app).appendVal val0).appendVals vals).name = o.name; rw [hnameVals, appendVal_name, hmn]
  show ({ m with frames := F6 :: rest, trace := CbCall.valid o3.name (o3.vals.map Val.snap) :: T2 } : PM) = _
  rw [hn3]
  simp only [F6, F5, F4, F3, F2, F1, T2, T1, o3, o2, o1, setLine_line, setLine_setLine, setOpt_setLine, setOpt_setOpt, Opt.appendVals,
    validTrace, List.append_assoc, List.singleton_append]
  have ev : 0 + 1 + vs.length = vs.length + 1 := by omega
  rw [ev]

/-- the premises about the verdicts are met by every callback that never refuses -/
theorem validsOk_of_never_fails (orc : Oracle) (h : ∀ k c, orc k c ≠ .fail) : ∀ (vals : List Val) (k : Nat) (o : Opt), validsOk orc k o vals := by
  intro vals
  induction vals with
  | nil => intro k o; trivial
  | cons v vs ih => intro k o; exact ⟨h _ _, ih _ _⟩

example : validsOk (fun _ _ => CbRes.ok) 0 (default : Opt) [.int 1, .int 2] :=
  validsOk_of_never_fails _ (by intro k c; simp) _ _ _

end Confuse
