import Confuse.Lemmas.Parser
/-!
# C06 — rejected input is reported with the right file and line

`lex_line_count`: over EVERY input (since fix F39 also inside substitutions, whose bodies were the one
unspecified zone) every scanner path — code, `#`/`//`/`/* */` comments, single- and double-quoted
multi-line strings, continuations, error exits — increments the line counter exactly once per
newline it consumes.  `pstep_line`: the token machine adds exactly the scanner's count to the
current context and hands the line across section entry and exit.
-/
namespace Confuse

def countNl (b : Bytes) : Nat := b.count c_nl

@[simp] theorem countNl_nil : countNl [] = 0 := rfl
theorem countNl_cons (c : Nat) (cs : Bytes) : countNl (c :: cs) = (if c = c_nl then 1 else 0) + countNl cs := by
  unfold countNl
  by_cases h : c = c_nl
  · subst h; simp [Nat.add_comm]
  · simp [h]

theorem countNl_dropWhile (p : Nat → Bool) (_hp : p c_nl = false → True) (b : Bytes) (h : ∀ c, p c = true → c ≠ c_nl) :
    countNl (b.dropWhile p) = countNl b := by
  induction b with
  | nil => rfl
  | cons c cs ih =>
    by_cases hc : p c = true
    · simp only [List.dropWhile_cons_of_pos hc, ih, countNl_cons, h c hc, if_false, Nat.zero_add]
    · simp [List.dropWhile_cons_of_neg hc]

/-- the one thing the step machine relies on between two steps: after `$` the `{` is next -/
def dqModeOk (m : DqMode) (inp : Bytes) : Bool :=
  match m with
  | .envOpen => inp.head? == some c_lbr
  | _ => true

theorem dqPlain_line (acc : Bytes) (nl c : Nat) (cs : Bytes) :
    match dqPlain acc nl c cs with
    | .inl s' => s'.nl + countNl cs = nl + countNl (c :: cs) ∧ dqModeOk s'.mode cs = true
    | .inr o => o.nl + countNl o.rest = nl + countNl (c :: cs) := by
  unfold dqPlain
  rw [countNl_cons]
  by_cases h1 : c = c_dq
  · subst h1; simp
  · by_cases h2 : c = c_nl
    · subst h2; simp [dqModeOk]; omega
    · by_cases h3 : c = c_bs
      · subst h3; simp [dqModeOk]
      · by_cases h4 : c = c_dollar
        · subst h4
          simp only [h1, h2, h3, if_false, if_true]
          cases cs with
          | nil => simp [dqModeOk]
          | cons d ds =>
            simp only []
            by_cases h5 : (d = c_lbr && hasRbr ds) = true
            · simp only [h5, if_true]
              simp only [Bool.and_eq_true, decide_eq_true_eq] at h5
              simp [dqModeOk, h5.1]
            · simp [h5, dqModeOk]
        · simp [h1, h2, h3, h4, dqModeOk]

theorem dqStep_line (env : Env) (s : DqSt) (c : Nat) (cs : Bytes) (hm : dqModeOk s.mode (c :: cs) = true) :
    match dqStep env s c cs with
    | .inl s' => s'.nl + countNl cs = s.nl + countNl (c :: cs) ∧ dqModeOk s'.mode cs = true
    | .inr o => o.nl + countNl o.rest = s.nl + countNl (c :: cs) := by
  obtain ⟨mode, acc, nl⟩ := s
  cases mode with
  | plain => exact dqPlain_line acc nl c cs
  | envOpen =>
    have hc : c = c_lbr := by simpa [dqModeOk] using hm
    subst hc
    simp [dqStep, dqModeOk, countNl_cons]
  | env i =>
    simp only [dqStep]
    rw [countNl_cons]
    by_cases h1 : c = c_rbr
    · subst h1; simp [dqModeOk]
    · by_cases h2 : c = c_nl
      · subst h2; simp [dqModeOk]; omega
      · simp [h1, h2, dqModeOk]
  | esc =>
    simp only [dqStep]
    rw [countNl_cons]
    by_cases h1 : c = c_nl
    · subst h1; simp [dqModeOk]; omega
    · by_cases h2 : isDec c = true
      · simp [h1, h2, dqModeOk]
      · by_cases h3 : c = 120
        · subst h3; simp [dqModeOk, isDec]
        · simp only [h1, h2, h3, if_false]
          cases simpleEsc c <;> simp [dqModeOk, h1]
  | hex0 =>
    simp only [dqStep]
    by_cases h : isHex c = true
    · have : c ≠ c_nl := by intro e; subst e; simp [isHex, isDec] at h
      simp [h, dqModeOk, countNl_cons, this]
    · simp only [h, if_false]
      exact dqPlain_line _ nl c cs
  | hex1 v =>
    simp only [dqStep]
    by_cases h : isHex c = true
    · have : c ≠ c_nl := by intro e; subst e; simp [isHex, isDec] at h
      simp [h, dqModeOk, countNl_cons, this]
    · simp only [h, if_false]
      exact dqPlain_line _ nl c cs
  | digits n ao v =>
    simp only [dqStep]
    by_cases h : isDec c = true
    · have : c ≠ c_nl := by intro e; subst e; simp [isDec] at h
      simp [h, dqModeOk, countNl_cons, this]
    · simp only [h, if_false]
      cases finDigits n ao v with
      | ok b => exact dqPlain_line _ nl c cs
      | error e => simp

/-- **C06 (every newline of a double-quoted string is counted once)**: plain newlines, continuations, and
(since fix F39) the newlines inside a `${…}` substitution - for EVERY input -/
theorem dqRun_line (env : Env) (inp : Bytes) : ∀ (s : DqSt), dqModeOk s.mode inp = true →
    (dqRun env s inp).nl + countNl (dqRun env s inp).rest = s.nl + countNl inp := by
  induction inp with
  | nil =>
    intro s _
    simp only [dqRun, dqEof]
    split
    · split <;> simp
    · simp
  | cons c cs ih =>
    intro s hm
    have hstep := dqStep_line env s c cs hm
    simp only [dqRun]
    cases hs : dqStep env s c cs with
    | inl s' =>
      rw [hs] at hstep
      simp only
      rw [ih s' hstep.2]
      exact hstep.1
    | inr o =>
      rw [hs] at hstep
      exact hstep

theorem sqRun_line (inp : Bytes) : ∀ (mode : SqMode) (acc : Bytes) (nl : Nat),
    (sqRun mode acc nl inp).nl + countNl (sqRun mode acc nl inp).rest = nl + countNl inp := by
  induction inp with
  | nil => intro mode acc nl; cases mode <;> simp [sqRun]
  | cons c cs ih =>
    intro mode acc nl
    rw [countNl_cons]
    cases mode with
    | plain =>
      simp only [sqRun]
      by_cases h1 : c = c_sq
      · subst h1; simp
      · by_cases h2 : c = c_nl
        · subst h2; simp [ih]; omega
        · by_cases h3 : c = c_bs
          · subst h3; simp [ih]
          · simp [h1, h2, h3, ih]
    | esc =>
      simp only [sqRun]
      by_cases h2 : c = c_nl
      · subst h2; simp [ih]; omega
      · by_cases h3 : (c = c_bs || c = c_sq) = true
        · simp [h2, h3, ih]
        · simp [h2, h3, ih]

theorem commentEnd_count (inp rest : Bytes) (h : commentEnd inp = some rest) : countNl rest = countNl inp := by
  unfold commentEnd at h
  have hb : countNl (inp.dropWhile isBlank) = countNl inp :=
    countNl_dropWhile isBlank (fun _ => trivial) inp (by intro c hc; intro e; subst e; simp [isBlank] at hc)
  generalize inp.dropWhile isBlank = r at h hb
  cases r with
  | nil => simp at h
  | cons c t =>
    simp only at h
    by_cases hc : c = c_star
    · subst hc
      simp only [if_true] at h
      have hs : countNl ((c_star :: t).dropWhile (· == c_star)) = countNl (c_star :: t) :=
        countNl_dropWhile _ (fun _ => trivial) _ (by intro c hc; intro e; subst e; simp at hc)
      generalize (c_star :: t).dropWhile (· == c_star) = r2 at h hs
      cases r2 with
      | nil => simp at h
      | cons d ds =>
        simp only at h
        by_cases hd : d = c_slash
        · subst hd
          simp only [if_true, Option.some.injEq] at h
          subst h
          rw [← hb, ← hs, countNl_cons]; simp
        · simp [hd] at h
    · simp [hc] at h

theorem commentRun_line (inp : Bytes) : ∀ (acc : Bytes) (nl : Nat),
    (commentRun acc nl inp).nl + countNl (commentRun acc nl inp).rest = nl + countNl inp := by
  induction inp with
  | nil => intro acc nl; simp [commentRun]
  | cons c cs ih =>
    intro acc nl
    simp only [commentRun]
    cases he : commentEnd (c :: cs) with
    | some rest => simp [commentEnd_count _ _ he]
    | none =>
      simp only
      by_cases h : c = c_nl
      · subst h; simp [ih, countNl_cons]; omega
      · simp [h, ih, countNl_cons]

theorem lineComment_line (marker nl : Nat) (inp : Bytes) :
    (lineComment marker nl inp).nl + countNl (lineComment marker nl inp).rest = nl + countNl inp := by
  simp only [lineComment]
  rw [countNl_dropWhile (· != c_nl) (fun _ => trivial) inp (by intro c hc; simpa using hc)]

theorem lexWord_line (nl : Nat) (inp : Bytes) :
    (lexWord nl inp).nl + countNl (lexWord nl inp).rest = nl + countNl inp := by
  simp only [lexWord]
  rw [countNl_dropWhile isWordByte (fun _ => trivial) inp (by intro c hc; intro e; subst e; simp [isWordByte] at hc)]

theorem nlCount_eq_countNl (b : Bytes) : nlCount b = countNl b := by
  induction b with
  | nil => rfl
  | cons c cs ih =>
    rw [countNl_cons, ← ih]
    by_cases h : c = c_nl <;> simp [nlCount, h]; omega

/-- the body of `${…}` and what follows the closing brace hold all the newlines of the text after `${` -/
theorem countNl_envSplit (ds : Bytes) (h : hasRbr ds = true) :
    countNl (ds.takeWhile (· != c_rbr)) + countNl ((ds.dropWhile (· != c_rbr)).drop 1) = countNl ds := by
  induction ds with
  | nil => simp [hasRbr] at h
  | cons d ds ih =>
    by_cases hd : d = c_rbr
    · subst hd; simp [countNl_cons]
    · have hh : hasRbr ds = true := by simpa [hasRbr, hd] using h
      have hb : (d != c_rbr) = true := by simp [hd]
      have e1 : (d :: ds).takeWhile (· != c_rbr) = d :: ds.takeWhile (· != c_rbr) := by simp only [List.takeWhile, hb]
      have e2 : (d :: ds).dropWhile (· != c_rbr) = ds.dropWhile (· != c_rbr) := by simp only [List.dropWhile, hb]
      rw [e1, e2, countNl_cons, countNl_cons, ← ih hh]
      omega

/-- **C06 (every newline counted once).** For EVERY input: newlines in code, comments, multi-line strings,
continuations and - since fix F39 - inside `${…}` substitutions are each counted exactly once. -/
theorem lex_line_count (env : Env) (inp : Bytes) : ∀ (nl : Nat),
    (lexInitial env nl inp).nl + countNl (lexInitial env nl inp).rest = nl + countNl inp := by
  induction inp with
  | nil => intro nl; simp [lexInitial]
  | cons c cs ih =>
    intro nl
    rw [countNl_cons]
    simp only [lexInitial]
    by_cases h1 : (c = c_sp || c = c_tab) = true
    · have : c ≠ c_nl := by intro e; subst e; simp at h1
      simp [h1, ih nl, this]
    · simp only [h1, if_false, Bool.false_eq_true]
      by_cases h2 : c = c_nl
      · subst h2; simp [ih _]; omega
      · simp only [h2, if_false, Nat.zero_add]
        by_cases h3 : c = c_hash
        · subst h3; simp [lineComment_line, countNl_cons]
        · simp only [h3, if_false]
          by_cases h4 : c = c_slash
          · subst h4
            simp only [if_true]
            cases cs with
            | nil => simp [lexWord_line, countNl_cons]
            | cons d ds =>
              simp only
              by_cases h5 : d = c_slash
              · subst h5; simp [lineComment_line, countNl_cons]
              · by_cases h6 : d = c_star
                · subst h6; simp [commentRun_line, countNl_cons]
                · simp [h5, h6, lexWord_line, countNl_cons]
          · simp only [h4, if_false]
            by_cases h7 : c = c_lbr; · subst h7; simp
            by_cases h8 : c = c_rbr; · subst h8; simp
            by_cases h9 : c = c_lp; · subst h9; simp
            by_cases h10 : c = c_rp; · subst h10; simp
            by_cases h11 : c = c_eq; · subst h11; simp
            by_cases h12 : c = c_comma; · subst h12; simp
            simp only [h7, h8, h9, h10, h11, h12, if_false]
            by_cases h13 : c = c_plus
            · subst h13
              simp only [if_true]
              cases cs with
              | nil => simp [lexInitial]
              | cons d ds =>
                simp only
                by_cases hd2 : d = c_eq
                · subst hd2; simp [countNl_cons]
                · simp [hd2, ih nl]
            · simp only [h13, if_false]
              by_cases h14 : c = c_dq
              · subst h14
                simp only [if_true]
                exact dqRun_line env cs ⟨.plain, [], nl⟩ rfl
              · simp only [h14, if_false]
                by_cases h15 : c = c_sq
                · subst h15; simp only [if_true]; exact sqRun_line cs .plain [] nl
                · simp only [h15, if_false]
                  have hw := lexWord_line nl (c :: cs)
                  simp only [countNl_cons, h2, if_false, Nat.zero_add] at hw
                  by_cases hc : c = c_dollar
                  · subst hc
                    simp only [if_true]
                    cases cs with
                    | nil => simpa using hw
                    | cons d ds =>
                      simp only []
                      by_cases h17 : (d = c_lbr && hasRbr ds) = true
                      · simp only [h17, if_true]
                        simp only [Bool.and_eq_true, decide_eq_true_eq] at h17
                        have hd : d ≠ c_nl := by rw [h17.1]; decide
                        rw [countNl_cons, nlCount_eq_countNl]
                        simp only [hd, if_false, Nat.zero_add]
                        have := countNl_envSplit ds h17.2
                        omega
                      · simp only [h17]
                        exact hw
                  · simp only [hc, if_false]
                    by_cases h16 : isWordByte c = true
                    · simp [h16, hw]
                    · simp [h16, ih nl]

/-! ## the token machine hands the line on -/

macro "line_auto" : tactic => `(tactic| (
  repeat' split
  all_goals (first
    | exact lineOk_reject _ _ _ _
    | exact lineOk_rejectWith _ _ _ _ _
    | exact storeValue_line _ _ _ _ _ _
    | exact callFunction_line _ _ _ _
    | (intro _; exact ⟨_, _, rfl, by simp⟩)
    | (intro h; simp at h))))

theorem step_s1_line (orc : Oracle) (m : PM) (f : Frame) (rest : List Frame) (tok : Tok) :
    LineOk f.cfg.line (step_s1 orc m f rest tok) := by
  unfold step_s1; dsimp only; line_auto
theorem step_s3_line (orc : Oracle) (m : PM) (f : Frame) (rest : List Frame) (tok : Tok) :
    LineOk f.cfg.line (step_s3 orc m f rest tok) := by
  unfold step_s3; line_auto
theorem step_s6_line (orc : Oracle) (m : PM) (f : Frame) (rest : List Frame) (tok : Tok) :
    LineOk f.cfg.line (step_s6 orc m f rest tok) := by
  unfold step_s6; line_auto
theorem step_s7_line (orc : Oracle) (m : PM) (f : Frame) (rest : List Frame) (tok : Tok) :
    LineOk f.cfg.line (step_s7 orc m f rest tok) := by
  unfold step_s7; line_auto
theorem step_s8_line (orc : Oracle) (m : PM) (f : Frame) (rest : List Frame) (tok : Tok) :
    LineOk f.cfg.line (step_s8 orc m f rest tok) := by
  unfold step_s8; line_auto
theorem step_s9_line (orc : Oracle) (m : PM) (f : Frame) (rest : List Frame) (tok : Tok) :
    LineOk f.cfg.line (step_s9 orc m f rest tok) := by
  unfold step_s9; line_auto
theorem step_s10_line (orc : Oracle) (m : PM) (f : Frame) (rest : List Frame) (tok : Tok) :
    LineOk f.cfg.line (step_s10 orc m f rest tok) := by
  unfold step_s10; dsimp only; line_auto
theorem step_s11_line (orc : Oracle) (m : PM) (f : Frame) (rest : List Frame) (tok : Tok) :
    LineOk f.cfg.line (step_s11 orc m f rest tok) := by
  unfold step_s11; line_auto
theorem step_s14_line (orc : Oracle) (m : PM) (f : Frame) (rest : List Frame) (tok : Tok) :
    LineOk f.cfg.line (step_s14 orc m f rest tok) := by
  unfold step_s14; line_auto

theorem step_s12_line (orc : Oracle) (m : PM) (f : Frame) (rest : List Frame) (tok : Tok) (hm : m.frames = f :: rest) :
    LineOk f.cfg.line (step_s12 orc m f rest tok) := by
  unfold step_s12
  repeat' split
  all_goals (first | (intro _; exact ⟨_, _, rfl, by simp⟩) | (intro _; exact ⟨_, _, hm, rfl⟩))

theorem step_s13_line (orc : Oracle) (m : PM) (f : Frame) (rest : List Frame) (tok : Tok) (hm : m.frames = f :: rest) :
    LineOk f.cfg.line (step_s13 orc m f rest tok) := by
  unfold step_s13
  dsimp only
  repeat' split
  all_goals (first | (intro _; exact ⟨_, _, rfl, by simp⟩) | (intro _; exact ⟨_, _, hm, rfl⟩))

theorem step_s4_line (orc : Oracle) (m : PM) (f : Frame) (rest : List Frame) (tok : Tok) :
    LineOk f.cfg.line (step_s4 orc m f rest tok) := by
  unfold step_s4
  repeat' split
  all_goals (first
    | exact lineOk_reject _ _ _ _
    | exact lineOk_rejectWith _ _ _ _ _
    | (intro _; exact ⟨_, _, rfl, by simp⟩))

theorem step_s2_line (orc : Oracle) (m : PM) (f : Frame) (rest : List Frame) (tok : Tok) :
    LineOk f.cfg.line (step_s2 orc m f rest tok) := by
  unfold step_s2
  dsimp only
  repeat' split
  all_goals (first
    | exact lineOk_reject _ _ _ _
    | exact lineOk_rejectWith _ _ _ _ _
    | exact storeValue_line _ _ _ _ _ _
    | (intro _; exact ⟨_, _, rfl, by simp [freeValue]⟩))

/-- entering a section: the child starts on the parent's line -/
theorem step_s5_line (orc : Oracle) (m : PM) (f : Frame) (rest : List Frame) (tok : Tok) :
    LineOk f.cfg.line (step_s5 orc m f rest tok) := by
  unfold step_s5
  dsimp only
  repeat' split
  all_goals (first
    | exact lineOk_reject _ _ _ _
    | exact lineOk_rejectWith _ _ _ _ _
    | (intro _; exact ⟨_, _, rfl, by simp⟩))

/-- state 0, including leaving a section: the parent continues on the child's line -/
theorem step_s0_line (orc : Oracle) (m : PM) (f : Frame) (rest : List Frame) (tok : Tok) :
    LineOk f.cfg.line (step_s0 orc m f rest tok) := by
  unfold step_s0
  have hd := handleDeprecated_line m f
  generalize handleDeprecated m f = p at hd
  obtain ⟨m1, f1⟩ := p
  simp only at hd
  dsimp only
  repeat' split
  all_goals (first
    | exact lineOk_reject _ _ _ _
    | exact lineOk_rejectWith _ _ _ _ _
    | (intro _; exact ⟨_, _, rfl, by simp [hd.1]⟩)
    | (intro _; exact ⟨_, _, rfl, by simp [hd.1, Cfg.setOpts]⟩)
    | (intro _; exact ⟨_, _, rfl, by simp [hd.1, Cfg.setFilename, Cfg.setInfo, Cfg.setLine, Cfg.line, Cfg.info]⟩))

/-- `cfg_handle_deprecated` does not touch the frame's file name -/
theorem handleDeprecated_file (m : PM) (f : Frame) : (handleDeprecated m f).2.cfg.info.filename = f.cfg.info.filename := by
  unfold handleDeprecated
  repeat' split
  all_goals first
    | rfl
    | (unfold Cfg.setOpt; rw [updOptAt_info])

/-- **C06 / C13 (fix F38).** When `}` closes a section and parsing goes on, the enclosing context continues on the
section's line and - when the section has a file name - under that name: a section may be closed in another source
than it was opened in (an included file that closes it, or one that ends inside it), and what follows must be
reported in the source it is in.  (Before the fix only the line was handed up, so after `include("f")` with `f` =
`sec {` the rest of the includer was reported under the name of `f`, and after an `f` that closed the includer's
section the rest of `f` was reported under the includer's name.) -/
theorem C06_close_position (orc : Oracle) (m : PM) (f p : Frame) (rest : List Frame) :
    (step_s0 orc m f (p :: rest) .rbrace).status = .running →
    ∃ q, (step_s0 orc m f (p :: rest) .rbrace).frames = q :: rest ∧ q.cfg.line = f.cfg.line ∧
      (∀ fn, f.cfg.info.filename = some fn → q.cfg.info.filename = some fn) := by
  unfold step_s0
  have hd := handleDeprecated_line m f
  have hfile := handleDeprecated_file m f
  generalize handleDeprecated m f = pr at hd hfile
  obtain ⟨m1, f1⟩ := pr
  simp only at hd hfile
  dsimp only
  split
  · intro h; simp at h
  · split
    · intro h; simp at h
    · intro _
      refine ⟨_, rfl, by simp [hd.1], ?_⟩
      intro fn hfn
      rw [← hfile] at hfn
      cases hc : (writeBack p f1).cfg
      cases hc1 : f1.cfg
      rw [hc1] at hfn
      simp only [Cfg.info] at hfn
      simp [Cfg.afterSection, Cfg.setInfo, Cfg.info, hfn]

theorem dispatch_line (orc : Oracle) (m : PM) (f : Frame) (rest : List Frame) (tok : Tok) (hm : m.frames = f :: rest) :
    LineOk f.cfg.line
      (match f.state with
      | .s0 => step_s0 orc m f rest tok
      | .s1 => step_s1 orc m f rest tok
      | .s2 => step_s2 orc m f rest tok
      | .s3 => step_s3 orc m f rest tok
      | .s4 => step_s4 orc m f rest tok
      | .s5 => step_s5 orc m f rest tok
      | .s6 => step_s6 orc m f rest tok
      | .s7 => step_s7 orc m f rest tok
      | .s8 => step_s8 orc m f rest tok
      | .s9 => step_s9 orc m f rest tok
      | .s10 => step_s10 orc m f rest tok
      | .s11 => step_s11 orc m f rest tok
      | .s12 => step_s12 orc m f rest tok
      | .s13 => step_s13 orc m f rest tok
      | .s14 => step_s14 orc m f rest tok) := by
  cases f.state <;> simp only
  · exact step_s0_line orc m f rest tok
  · exact step_s1_line orc m f rest tok
  · exact step_s2_line orc m f rest tok
  · exact step_s3_line orc m f rest tok
  · exact step_s4_line orc m f rest tok
  · exact step_s5_line orc m f rest tok
  · exact step_s6_line orc m f rest tok
  · exact step_s7_line orc m f rest tok
  · exact step_s8_line orc m f rest tok
  · exact step_s9_line orc m f rest tok
  · exact step_s10_line orc m f rest tok
  · exact step_s11_line orc m f rest tok
  · exact step_s12_line orc m f rest tok hm
  · exact step_s13_line orc m f rest tok hm
  · exact step_s14_line orc m f rest tok

/-- **C06 (the parser adds exactly the scanner's count).** A step that keeps the machine running
leaves the current context on `line + nl`, across every state, section entry and section exit. -/
theorem pstep_line (orc : Oracle) (m : PM) (f : Frame) (rest : List Frame) (tok : Tok) (nl : Nat)
    (hfr : m.frames = f :: rest) :
    LineOk (f.cfg.line + nl) (pstep orc m tok nl) := by
  intro hstill
  unfold pstep at hstill ⊢
  by_cases hrun : (m.status != .running) = true
  · simp only [hrun, if_true] at hstill
    simp [hstill] at hrun
  · simp only [hrun, hfr, Bool.false_eq_true, if_false] at hstill ⊢
    have key : ∀ t : Tok, LineOk (f.cfg.line + nl)
        (match ({ f with cfg := f.cfg.setLine (f.cfg.line + nl) } : Frame).state with
        | .s0 => step_s0 orc { m with frames := { f with cfg := f.cfg.setLine (f.cfg.line + nl) } :: rest } { f with cfg := f.cfg.setLine (f.cfg.line + nl) } rest t
        | .s1 => step_s1 orc { m with frames := { f with cfg := f.cfg.setLine (f.cfg.line + nl) } :: rest } { f with cfg := f.cfg.setLine (f.cfg.line + nl) } rest t
        | .s2 => step_s2 orc { m with frames := { f with cfg := f.cfg.setLine (f.cfg.line + nl) } :: rest } { f with cfg := f.cfg.setLine (f.cfg.line + nl) } rest t
        | .s3 => step_s3 orc { m with frames := { f with cfg := f.cfg.setLine (f.cfg.line + nl) } :: rest } { f with cfg := f.cfg.setLine (f.cfg.line + nl) } rest t
        | .s4 => step_s4 orc { m with frames := { f with cfg := f.cfg.setLine (f.cfg.line + nl) } :: rest } { f with cfg := f.cfg.setLine (f.cfg.line + nl) } rest t
        | .s5 => step_s5 orc { m with frames := { f with cfg := f.cfg.setLine (f.cfg.line + nl) } :: rest } { f with cfg := f.cfg.setLine (f.cfg.line + nl) } rest t
        | .s6 => step_s6 orc { m with frames := { f with cfg := f.cfg.setLine (f.cfg.line + nl) } :: rest } { f with cfg := f.cfg.setLine (f.cfg.line + nl) } rest t
        | .s7 => step_s7 orc { m with frames := { f with cfg := f.cfg.setLine (f.cfg.line + nl) } :: rest } { f with cfg := f.cfg.setLine (f.cfg.line + nl) } rest t
        | .s8 => step_s8 orc { m with frames := { f with cfg := f.cfg.setLine (f.cfg.line + nl) } :: rest } { f with cfg := f.cfg.setLine (f.cfg.line + nl) } rest t
        | .s9 => step_s9 orc { m with frames := { f with cfg := f.cfg.setLine (f.cfg.line + nl) } :: rest } { f with cfg := f.cfg.setLine (f.cfg.line + nl) } rest t
        | .s10 => step_s10 orc { m with frames := { f with cfg := f.cfg.setLine (f.cfg.line + nl) } :: rest } { f with cfg := f.cfg.setLine (f.cfg.line + nl) } rest t
        | .s11 => step_s11 orc { m with frames := { f with cfg := f.cfg.setLine (f.cfg.line + nl) } :: rest } { f with cfg := f.cfg.setLine (f.cfg.line + nl) } rest t
        | .s12 => step_s12 orc { m with frames := { f with cfg := f.cfg.setLine (f.cfg.line + nl) } :: rest } { f with cfg := f.cfg.setLine (f.cfg.line + nl) } rest t
        | .s13 => step_s13 orc { m with frames := { f with cfg := f.cfg.setLine (f.cfg.line + nl) } :: rest } { f with cfg := f.cfg.setLine (f.cfg.line + nl) } rest t
        | .s14 => step_s14 orc { m with frames := { f with cfg := f.cfg.setLine (f.cfg.line + nl) } :: rest } { f with cfg := f.cfg.setLine (f.cfg.line + nl) } rest t) := by
      intro t
      exact dispatch_line orc { m with frames := { f with cfg := f.cfg.setLine (f.cfg.line + nl) } :: rest }
        { f with cfg := f.cfg.setLine (f.cfg.line + nl) } rest t rfl
    cases tok with
    | err e => simp at hstill
    | eof =>
      dsimp only at hstill
      split at hstill
      · simp at hstill
      · simp at hstill
    | comment v =>
      dsimp only at hstill ⊢
      by_cases hs : (true && ({ f with cfg := f.cfg.setLine (f.cfg.line + nl) } : Frame).state != .s0) = true
      · simp only [hs, if_true] at hstill ⊢
        exact ⟨_, _, rfl, rfl⟩
      · simp only [hs, if_false, Bool.false_eq_true] at hstill ⊢
        exact key (.comment v) hstill
    | str v => dsimp only at hstill ⊢; simp only [Bool.false_and, Bool.false_eq_true, if_false] at hstill ⊢; exact key (.str v) hstill
    | lbrace => dsimp only at hstill ⊢; simp only [Bool.false_and, Bool.false_eq_true, if_false] at hstill ⊢; exact key .lbrace hstill
    | rbrace => dsimp only at hstill ⊢; simp only [Bool.false_and, Bool.false_eq_true, if_false] at hstill ⊢; exact key .rbrace hstill
    | lparen => dsimp only at hstill ⊢; simp only [Bool.false_and, Bool.false_eq_true, if_false] at hstill ⊢; exact key .lparen hstill
    | rparen => dsimp only at hstill ⊢; simp only [Bool.false_and, Bool.false_eq_true, if_false] at hstill ⊢; exact key .rparen hstill
    | eq => dsimp only at hstill ⊢; simp only [Bool.false_and, Bool.false_eq_true, if_false] at hstill ⊢; exact key .eq hstill
    | pluseq => dsimp only at hstill ⊢; simp only [Bool.false_and, Bool.false_eq_true, if_false] at hstill ⊢; exact key .pluseq hstill
    | comma => dsimp only at hstill ⊢; simp only [Bool.false_and, Bool.false_eq_true, if_false] at hstill ⊢; exact key .comma hstill

/-- **C06 (a scanner error is reported where it happened).** An error token makes the parse fail
and delivers exactly one diagnostic carrying the current file name and the line reached. -/
theorem pstep_err_reported (orc : Oracle) (m : PM) (f : Frame) (rest : List Frame) (e : LexErr) (nl : Nat)
    (hrun : m.status = .running) (hfr : m.frames = f :: rest) :
    (pstep orc m (.err e) nl).status = .rejected ∧
    ∃ cls, (pstep orc m (.err e) nl).diags = ⟨f.cfg.info.filename, f.cfg.line + nl, cls⟩ :: m.diags := by
  unfold pstep
  simp only [hrun, hfr]
  refine ⟨by simp, ?_⟩
  simp [PM.rejectWith, PM.reject, PM.addDiags, Frame.diag, collapse, Cfg.setLine, Cfg.setInfo, Cfg.info, Cfg.line]

/-- **C06 (premature end).** End of input anywhere but between items of the outermost level fails
the parse with a diagnostic on the last line. -/
theorem pstep_eof_reported (orc : Oracle) (m : PM) (f : Frame) (rest : List Frame) (nl : Nat)
    (hrun : m.status = .running) (hfr : m.frames = f :: rest) (hbad : f.state ≠ .s0 ∨ f.level > 0) :
    (pstep orc m .eof nl).status = .rejected ∧
    (pstep orc m .eof nl).diags = ⟨f.cfg.info.filename, f.cfg.line + nl, .prematureEof⟩ :: m.diags := by
  unfold pstep
  simp only [hrun, hfr]
  have : (f.state != .s0 || decide (f.level > 0)) = true := by
    rcases hbad with h | h
    · simp [h]
    · simp [h]
  simp [this, PM.rejectWith, PM.reject, PM.addDiags, Frame.diag, collapse, Cfg.setLine, Cfg.setInfo, Cfg.info, Cfg.line]

end Confuse
