import Confuse.Model.Api
/-!
# C11 — path lookups resolve like step-by-step navigation
-/
namespace Confuse

/-- quoting of a title inside a path: `'…'` with `\'` and `\\` -/
def escTitle : Bytes → Bytes
  | [] => []
  | c :: cs => if c = c_sq || c = c_bs then c_bs :: c :: escTitle cs else c :: escTitle cs

def quoteTitle (t : Bytes) : Bytes := c_sq :: (escTitle t ++ [c_sq])

theorem parseQuoted_quote (acc rest : Bytes) (n : Nat) : parseQuoted (c_sq :: rest) acc n = some (acc.reverse, n + 1) := by
  rw [parseQuoted.eq_def]; simp

theorem parseQuoted_escaped (d : Nat) (ds acc : Bytes) (n : Nat) (h : (d = c_sq || d = c_bs) = true) :
    parseQuoted (c_bs :: d :: ds) acc n = parseQuoted ds (d :: acc) (n + 2) := by
  rw [parseQuoted.eq_def]; simp [h]

theorem parseQuoted_plain (c : Nat) (cs acc : Bytes) (n : Nat) (h1 : c ≠ c_sq) (h2 : c ≠ c_bs) :
    parseQuoted (c :: cs) acc n = parseQuoted cs (c :: acc) (n + 1) := by
  rw [parseQuoted.eq_def]; simp [h1, h2]

theorem parseQuoted_esc (t : Bytes) : ∀ (acc rest : Bytes) (n : Nat),
    parseQuoted (escTitle t ++ c_sq :: rest) acc n = some (acc.reverse ++ t, n + (escTitle t).length + 1) := by
  induction t with
  | nil => intro acc rest n; simp [escTitle, parseQuoted_quote]
  | cons c cs ih =>
    intro acc rest n
    by_cases h : (c = c_sq || c = c_bs) = true
    · simp only [escTitle, h, if_true, List.cons_append]
      rw [parseQuoted_escaped c _ acc n h, ih]
      simp [Nat.add_assoc, Nat.add_comm, Nat.add_left_comm]
    · have h' : c ≠ c_sq ∧ c ≠ c_bs := by simpa using h
      simp only [escTitle, h, Bool.false_eq_true, if_false, List.cons_append]
      rw [parseQuoted_plain c _ acc n h'.1 h'.2, ih]
      simp [Nat.add_assoc, Nat.add_comm, Nat.add_left_comm]

/-- **C11 (title quoting).** A quoted title with `\'` and `\\` escapes reads back as the title, for
every byte string, and tells the resolver exactly how many bytes it occupied. -/
theorem C11_title_roundtrip (t rest : Bytes) :
    parseTitle (quoteTitle t ++ rest) = some (t, (quoteTitle t).length) := by
  simp only [quoteTitle, List.cons_append, parseTitle, if_true, List.append_assoc, List.nil_append]
  rw [parseQuoted_esc t [] rest 1]
  simp [Nat.add_comm, Nat.add_left_comm]

/-- an unquoted title / index runs up to the next `|` -/
theorem C11_plain_title (t rest : Bytes) (hne : t ≠ []) (hq : t.head? ≠ some c_sq) (hp : ∀ c ∈ t, c ≠ c_pipe) :
    parseTitle (t ++ c_pipe :: rest) = some (t, t.length) ∧ parseTitle t = some (t, t.length) := by
  have tw : ∀ (l r : Bytes), (∀ c ∈ l, c ≠ c_pipe) → (l ++ c_pipe :: r).takeWhile (· != c_pipe) = l := by
    intro l r hl
    induction l with
    | nil => simp
    | cons a as ih =>
      have : a ≠ c_pipe := hl a (by simp)
      simp [this, ih (fun x hx => hl x (by simp [hx]))]
  have tw2 : ∀ (l : Bytes), (∀ c ∈ l, c ≠ c_pipe) → l.takeWhile (· != c_pipe) = l := by
    intro l hl
    induction l with
    | nil => simp
    | cons a as ih =>
      have : a ≠ c_pipe := hl a (by simp)
      simp [this, ih (fun x hx => hl x (by simp [hx]))]
  cases t with
  | nil => exact absurd rfl hne
  | cons c cs =>
    have hc : c ≠ c_sq := by simpa using hq
    constructor
    · have := tw (c :: cs) rest hp
      simp only [List.cons_append] at this
      simp [parseTitle, hc, this]
    · have := tw2 (c :: cs) hp
      simp [parseTitle, hc, this]

/-- names as they occur in paths: non-empty, no separator bytes -/
def plainName (n : Bytes) : Prop := n ≠ [] ∧ ∀ c ∈ n, isSep c = false

theorem takeWhile_plain (n : Bytes) (h : ∀ c ∈ n, isSep c = false) : n.takeWhile (fun c => !isSep c) = n := by
  induction n with
  | nil => rfl
  | cons a as ih => simp [h a (by simp), ih (fun x hx => h x (by simp [hx]))]

/-- **C11 (one level).** A path that is just a name resolves exactly like the single-level lookup. -/
theorem C11_single_level (c : Cfg) (name : Bytes) (hn : plainName name) :
    (getoptPath c name).ref = (getoptLeaf c name).map (fun i => ⟨[], i⟩) := by
  obtain ⟨hne, hs⟩ := hn
  unfold getoptPath getoptSecidx
  have he : name.isEmpty = false := by cases name <;> simp_all
  simp only [he, Bool.false_eq_true, if_false]
  cases hk : keyFirst c name false with
  | some i =>
    have : getoptLeaf c name = some i := by
      unfold keyFirst at hk
      split at hk
      · exact hk
      · cases hk
    simp [this]
  | none =>
    simp only []
    rw [secidxLoop]
    simp only [he, Bool.false_eq_true, if_false, takeWhile_plain name hs, List.drop_length, List.isEmpty_nil, Bool.not_false, Bool.and_self, if_true]
    cases hg : getoptLeaf c name <;> split <;> simp [hg]

/-- **C11 (empty path).** -/
theorem C11_empty_path (c : Cfg) (w : Bool) : (getoptSecidx c [] w).ref = none := by
  simp [getoptSecidx]

/-- **C11 (getters are pure; failing by-path calls change nothing).** -/
theorem C11_unresolved_changes_nothing (orc : Oracle) (k : Nat) (c : Cfg) (path : Bytes) (ty : Ty) (v : Val) (i : Nat) (b : Bool)
    (h : (getoptPath c path).ref = none) (h2 : (getoptSecidx c path true).ref = none) :
    (apiSetn orc k c path ty v i b).cfg = c ∧ (apiRmsec c path).cfg = c ∧ (apiRmnsec c path i).cfg = c ∧
    (apiSetmulti orc k c path []).cfg = c ∧ (apiList c path [] true).cfg = c := by
  refine ⟨?_, ?_, ?_, ?_, ?_⟩
  · unfold apiSetn; simp [h]
  · unfold apiRmsec; simp [h2]
  · unfold apiRmnsec; simp [h]
  · unfold apiSetmulti; simp [h]
  · unfold apiList; simp [h]

end Confuse
