import Confuse.Model.Api
import Confuse.Lemmas.Path
/-!
# C09 — setter, list and section API behaves as a simple typed store

The abstract store of one option is its value list; `setnVal`, `addlist`, `setlist`, `rmnsec`,
`rmtsec`, `setopt` (used by `cfg_addtsec`) are shown to act on it as set-at-index / append /
replace-all / erase-at-index, and refused calls to leave the option untouched.
-/
namespace Confuse

/-- abstract "set index i" on a value sequence: replace inside, append at or beyond the end -/
def aSet (vals : List Val) (i : Nat) (v : Val) : List Val :=
  if i ≥ vals.length then vals ++ [v] else listSet vals i v

/-- **indexed setter = set-at-index** on an option that is not pristine -/
theorem C09_setn_refines (o : Opt) (v : Val) (i : Nat) (hr : o.flags.reset = false)
    (hidx : i = 0 ∨ o.flags.list = true ∨ o.flags.multi = true) :
    (setnVal o v i).1.vals = aSet o.vals i v ∧ (setnVal o v i).2.1 = true ∧ (setnVal o v i).1.flags.modified = true ∧
    (setnVal o v i).1.flags.list = o.flags.list ∧ (setnVal o v i).1.flags.reset = false := by
  obtain ⟨info, f, subs, vals, c⟩ := o
  simp only [Opt.flags, Opt.vals] at hr hidx ⊢
  have : (i != 0 && !f.list && !f.multi) = false := by
    rcases hidx with h | h | h <;> simp [h]
  unfold setnVal aSet
  simp only [Opt.flags, Opt.vals, Opt.info, Opt.subs, Opt.comment, this, hr, Bool.false_eq_true, if_false]
  by_cases hi : i ≥ vals.length <;> simp [hi]

/-- **a pristine option is cleared by its first indexed set** (the default/"RESET" rule) -/
theorem C09_setn_pristine (o : Opt) (v : Val) (i : Nat) (hr : o.flags.reset = true)
    (hidx : i = 0 ∨ o.flags.list = true ∨ o.flags.multi = true) :
    (setnVal o v i).1.vals = [v] ∧ (setnVal o v i).1.flags.reset = false ∧ (setnVal o v i).1.flags.list = o.flags.list := by
  obtain ⟨info, f, subs, vals, c⟩ := o
  simp only [Opt.flags, Opt.vals] at hr hidx ⊢
  have : (i != 0 && !f.list && !f.multi) = false := by
    rcases hidx with h | h | h <;> simp [h]
  unfold setnVal
  simp [Opt.flags, Opt.vals, Opt.info, Opt.subs, Opt.comment, this, hr, freeValue, Opt.setFlags]

/-- **index beyond a scalar fails without effect** -/
theorem C09_scalar_index_refused (o : Opt) (v : Val) (i : Nat) (hi : i ≠ 0) (hl : o.flags.list = false) (hm : o.flags.multi = false) :
    setnVal o v i = (o, false, []) := by
  unfold setnVal
  simp [hi, hl, hm]

/-- **wrong type fails without effect** -/
theorem C09_wrong_type_refused (ty : Ty) (o : Opt) (v : Val) (i : Nat) (h : o.ty ≠ ty) :
    optSetn ty v i o = (o, false, []) := by
  unfold optSetn
  simp [h]

/-- **unknown name fails without effect** (every by-name setter) -/
theorem C09_unknown_name_refused (orc : Oracle) (k : Nat) (c : Cfg) (path : Bytes) (ty : Ty) (v : Val) (i : Nat) (byName : Bool)
    (h : (getoptPath c path).ref = none) :
    (apiSetn orc k c path ty v i byName).cfg = c ∧ (apiSetn orc k c path ty v i byName).rc = -1 := by
  unfold apiSetn
  simp [h]

theorem addlistInternal_appends (vs : List Val) : ∀ (o : Opt), o.flags.reset = false → o.flags.list = true →
    (addlistInternal o vs).1.vals = o.vals ++ vs := by
  induction vs with
  | nil => intro o _ _; simp [addlistInternal]
  | cons v vs ih =>
    intro o hr hl
    simp only [addlistInternal]
    have h1 := C09_setn_refines o v o.vals.length hr (Or.inr (Or.inl hl))
    have := ih (setnVal o v o.vals.length).1 h1.2.2.2.2 (by rw [h1.2.2.2.1]; exact hl)
    rw [this, h1.1]
    simp [aSet]

/-- **appending appends to whatever the option currently holds, defaults included** -/
theorem C09_append_keeps_defaults (o : Opt) (vs : List Val) (hl : o.flags.list = true) :
    (addlist o vs).1.vals = o.vals ++ vs := by
  unfold addlist
  obtain ⟨info, f, subs, vals, c⟩ := o
  have := addlistInternal_appends vs (Opt.mk info { f with reset := false } subs vals c) rfl (by simpa [Opt.flags] using hl)
  simpa [Opt.setFlags, Opt.vals, Opt.flags, Opt.info, Opt.subs, Opt.comment] using this

theorem freeValue_fst (o : Opt) : (freeValue o).1.vals = [] ∧ (freeValue o).1.flags = o.flags := by
  obtain ⟨info, f, subs, vals, c⟩ := o
  simp [freeValue, Opt.vals, Opt.flags, Opt.info, Opt.subs, Opt.comment]

/-- **cfg_setlist = replace all** (non-empty argument list) -/
theorem C09_setlist_replaces (o : Opt) (v : Val) (vs : List Val) (hl : o.flags.list = true) :
    (setlist o (v :: vs)).1.vals = v :: vs := by
  unfold setlist
  have hfv := freeValue_fst o
  simp only [addlistInternal]
  generalize (freeValue o).1 = o1 at hfv ⊢
  have hl1 : o1.flags.list = true := by rw [hfv.2]; exact hl
  by_cases hr : o1.flags.reset = true
  · have h1 := C09_setn_pristine o1 v o1.vals.length hr (Or.inr (Or.inl hl1))
    have := addlistInternal_appends vs (setnVal o1 v o1.vals.length).1 h1.2.1 (by rw [h1.2.2]; exact hl1)
    rw [this, h1.1]; rfl
  · have hr' : o1.flags.reset = false := by simpa using hr
    have h1 := C09_setn_refines o1 v o1.vals.length hr' (Or.inr (Or.inl hl1))
    have := addlistInternal_appends vs (setnVal o1 v o1.vals.length).1 h1.2.2.2.2 (by rw [h1.2.2.2.1]; exact hl1)
    rw [this, h1.1, hfv.1]
    simp [aSet]

/-- **removal keeps the order of the rest** -/
theorem C09_remove_keeps_order (o : Opt) (i : Nat) (hs : o.ty = .sec) (hi : i < o.vals.length)
    (hidx : i = 0 ∨ o.flags.list = true ∨ o.flags.multi = true) :
    (rmnsec o i).1.vals = o.vals.eraseIdx i ∧ (rmnsec o i).2.1 = true := by
  obtain ⟨info, f, subs, vals, c⟩ := o
  simp only [Opt.flags, Opt.vals, Opt.ty, Opt.info] at hs hi hidx ⊢
  have h1 : ¬ (i ≥ vals.length) := by omega
  have h2 : (i != 0 && !f.list && !f.multi) = false := by
    rcases hidx with h | h | h <;> simp [h]
  unfold rmnsec
  simp [Opt.ty, Opt.info, Opt.flags, Opt.vals, Opt.setVals, Opt.subs, Opt.comment, hs, h1, h2]

/-- **removing what is not there fails without effect** -/
theorem C09_remove_missing_refused (o : Opt) (i : Nat) (hi : i ≥ o.vals.length) : rmnsec o i = (o, false, []) := by
  unfold rmnsec
  by_cases hs : o.ty = .sec <;> simp [hs, hi]

theorem C09_remove_title_missing_refused (o : Opt) (t : Bytes) (h : gettsecidx o t = none) : rmtsec o t = (o, false, []) := by
  unfold rmtsec
  by_cases ht : o.flags.title = true <;> simp [ht, h]

/-- **titles stay unique**: `cfg_addtsec` refuses a title that an instance already carries -/
theorem C09_addtsec_existing_refused (orc : Oracle) (k : Nat) (c : Cfg) (path t : Bytes) (r : OptRef) (o : Opt) (i : Nat)
    (hr : (getoptPath c path).ref = some r) (ho : c.getOpt r = some o) (hs : o.ty = .sec) (ht : o.flags.title = true)
    (hex : gettsecidx o t = some i) :
    (apiAddtsec orc k c path (some t)).cfg = c ∧ (apiAddtsec orc k c path (some t)).rc = -1 := by
  unfold apiAddtsec
  simp [hr, ho, hs, ht, hex]

/-- **wrong type**: adding a section to an option that is not a section fails without effect (fix F37: the
library stored the title as the option's value and then followed it as a pointer) -/
theorem C09_addtsec_wrong_type (orc : Oracle) (k : Nat) (c : Cfg) (path : Bytes) (t : Option Bytes) (r : OptRef) (o : Opt)
    (hr : (getoptPath c path).ref = some r) (ho : c.getOpt r = some o) (hs : o.ty ≠ .sec) :
    (apiAddtsec orc k c path t).cfg = c ∧ (apiAddtsec orc k c path t).rc = -1 := by
  unfold apiAddtsec
  cases t <;> simp [hr, ho, hs]

/-- **an add never replaces**: a title that `cfg_setopt` would match under the context's case rule is refused,
whatever the option's own flags say (fix F37: under a case-insensitive context `FOO` replaced `foo`) -/
theorem C09_addtsec_never_replaces (orc : Oracle) (k : Nat) (c : Cfg) (path t : Bytes) (r : OptRef) (o : Opt) (i : Nat)
    (hr : (getoptPath c path).ref = some r) (ho : c.getOpt r = some o) (hs : o.ty = .sec) (ht : o.flags.title = true)
    (hex : findTitle c.info.flags.nocase t o.vals 0 = some i) :
    (apiAddtsec orc k c path (some t)).cfg = c ∧ (apiAddtsec orc k c path (some t)).rc = -1 := by
  unfold apiAddtsec
  by_cases hg : (gettsecidx o t).isSome = true <;> simp [hr, ho, hs, ht, hex, hg]

end Confuse
