import Confuse.Model.Parser
/-!
# C17 — file names resolve deterministically via search path and tilde

The file system and the passwd database are oracles (`PEnv.fs`, `PEnv.passwd`).  The search path is
stored newest-first (the C list is prepended to) and searched oldest-first (the C recursion goes to
the tail first), i.e. in the order the directories were added.
-/
namespace Confuse

/-- the directories in the order they were added -/
def addedOrder (dirs : List Bytes) : List Bytes := dirs.reverse

def candidate (d file : Bytes) : Bytes := d ++ [c_slash] ++ file

/-- **C17 (first directory, in the order added, that holds a regular file).** -/
theorem C17_first_added (pe : PEnv) (dirs : List Bytes) (file : Bytes) (h : file.head? ≠ some c_slash) :
    searchpath pe dirs file = ((addedOrder dirs).find? (fun d => isRegular pe (candidate d file))).map (fun d => candidate d file) := by
  unfold searchpath addedOrder candidate
  have : (file.head? == some c_slash) = false := by simpa using h
  simp only [this, Bool.false_eq_true, if_false]
  induction dirs.reverse with
  | nil => rfl
  | cons d ds ih =>
    simp only [List.map_cons, List.find?_cons]
    cases hreg : isRegular pe (d ++ [c_slash] ++ file)
    · simp only [hreg]; exact ih
    · simp [hreg]

/-- earlier-added directories win, whatever comes later -/
theorem C17_precedence (pe : PEnv) (older newer : List Bytes) (d file : Bytes) (h : file.head? ≠ some c_slash)
    (hreg : isRegular pe (candidate d file) = true)
    (hnone : ∀ e ∈ older, isRegular pe (candidate e file) = false) :
    -- the C list holds the newest first: newer ++ [d] ++ older.reverse is "older added first, then d, then newer"
    searchpath pe (newer ++ d :: older.reverse) file = some (candidate d file) := by
  rw [C17_first_added pe _ file h]
  simp only [addedOrder, List.reverse_append, List.reverse_cons, List.reverse_reverse, List.append_assoc]
  rw [List.find?_append]
  have h1 : older.find? (fun d => isRegular pe (candidate d file)) = none := by
    rw [List.find?_eq_none]; intro e he; simp [hnone e he]
  simp [h1, hreg]

/-- **C17 (absolute names bypass the list).** -/
theorem C17_absolute (pe : PEnv) (dirs : List Bytes) (file : Bytes) (h : file.head? = some c_slash) :
    searchpath pe dirs file = (if isRegular pe file then some file else none) := by
  simp [searchpath, h]

/-- **C17 (directories and missing files never match).** -/
theorem C17_regular_only (pe : PEnv) (dirs : List Bytes) (file r : Bytes) (h : searchpath pe dirs file = some r) :
    isRegular pe r = true := by
  unfold searchpath at h
  split at h
  · split at h
    · rename_i hr; injection h with h; subst h; exact hr
    · simp at h
  · have := List.find?_some h
    exact this

/-- **C17 (tilde).** `~` and `~/x` use the effective user's home, `~user` and `~user/x` that user's;
an unknown user leaves the text unchanged; anything not starting with `~` is unchanged. -/
theorem C17_tilde (pe : PEnv) :
    (∀ rest home, pe.passwd none = some home → tildeExpand pe (126 :: c_slash :: rest) = home ++ c_slash :: rest) ∧
    (∀ home, pe.passwd none = some home → tildeExpand pe [126] = home) ∧
    (∀ user rest home, user ≠ [] → (∀ c ∈ user, c ≠ c_slash) → pe.passwd (some user) = some home →
        tildeExpand pe (126 :: user ++ c_slash :: rest) = home ++ c_slash :: rest) ∧
    (∀ user rest, user ≠ [] → (∀ c ∈ user, c ≠ c_slash) → pe.passwd (some user) = none →
        tildeExpand pe (126 :: user ++ c_slash :: rest) = 126 :: user ++ c_slash :: rest) ∧
    (∀ c cs, c ≠ 126 → tildeExpand pe (c :: cs) = c :: cs) := by
  have tw : ∀ (u : Bytes) (r : Bytes), (∀ c ∈ u, c ≠ c_slash) →
      (u ++ c_slash :: r).takeWhile (· != c_slash) = u ∧ (u ++ c_slash :: r).dropWhile (· != c_slash) = c_slash :: r := by
    intro u r hu
    induction u with
    | nil => simp
    | cons a as ih =>
      have ha : a ≠ c_slash := hu a (by simp)
      have := ih (fun x hx => hu x (by simp [hx]))
      simp [ha, this]
  refine ⟨?_, ?_, ?_, ?_, ?_⟩
  · intro rest home h; simp [tildeExpand, h]
  · intro home h; simp [tildeExpand, h]
  · intro user rest home hne hu hp
    cases user with
    | nil => exact absurd rfl hne
    | cons u us =>
      have hu0 : u ≠ c_slash := hu u (by simp)
      have := tw (u :: us) rest hu
      simp only [List.cons_append] at this
      simp [tildeExpand, hu0, this.1, this.2, hp]
  · intro user rest hne hu hp
    cases user with
    | nil => exact absurd rfl hne
    | cons u us =>
      have hu0 : u ≠ c_slash := hu u (by simp)
      have := tw (u :: us) rest hu
      simp only [List.cons_append] at this
      simp [tildeExpand, hu0, this.1, this.2, hp]
  · intro c cs h; simp [tildeExpand, h]

/-- **C17 (same resolution for top-level parse and include).** Both go through `resolveFile`. -/
theorem C17_same_resolution (orc : Oracle) (pe : PEnv) (c : Cfg) (name : Bytes) (m : PM) (f : Frame) (rest : List Frame)
    (hfr : m.frames = f :: rest) (hdepth : ¬ (m.srcs.length - 1 ≥ pe.maxInc)) (hnone : resolveFile pe name = none) :
    (parseFile orc pe c name).rc = -1 ∧ (doInclude pe m name).status = .rejected := by
  constructor
  · simp [parseFile, hnone]
  · unfold doInclude
    simp [hfr, hdepth, hnone, PM.rejectWith, PM.reject, collapse]

end Confuse
