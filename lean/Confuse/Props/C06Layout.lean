import Confuse.Lemmas.Erase
/-!
# C06 / C13 / C15 — what positions and annotations can NOT influence

`erasePM` forgets every file name and line number (of every context at every depth, of the
diagnostics, of the saved include positions) and every annotation.  The token machine commutes with
it (`pstep_nat`, 15 per-state lemmas over the store, the path resolver and the callbacks).  The
theorems below are the user-visible consequences.
-/
namespace Confuse

/-- **C06 (line layout is only ever reported, never acted on).** Two token sequences with the same
tokens but ANY placement of newlines (different line increments per token), run from machines that
differ at most in positions and annotations, end in machines that differ at most in positions and
annotations: same acceptance, same values at every depth, same callback invocations, same classes
of diagnostics in the same order. -/
theorem C06_layout_independent (orc : Oracle) (ts ts' : List LTok) (m m' : PM)
    (htoks : ts.map (·.1) = ts'.map (·.1)) (hm : erasePM m = erasePM m') :
    erasePM (parseToks orc m ts) = erasePM (parseToks orc m' ts') ∧
    (parseToks orc m ts).status = (parseToks orc m' ts').status ∧
    (parseToks orc m ts).trace = (parseToks orc m' ts').trace ∧
    (parseToks orc m ts).diags.map (·.cls) = (parseToks orc m' ts').diags.map (·.cls) := by
  have h := parseToks_erase_congr orc ts ts' m m' htoks hm
  refine ⟨h, ?_, ?_, ?_⟩
  · have := congrArg PM.status h; simpa using this
  · have := congrArg PM.trace h; simpa using this
  · have := congrArg (fun x => x.diags.map (·.cls)) h
    simpa [erasePM, eraseDiag, Function.comp_def] using this

/-- **C13 (entering an include changes positions only).** When the target resolves and opens, the
machine after `cfg_lexer_include` differs from the machine before in positions, in the new source on
the stack and in the consumed request — nothing else: no value, flag, callback or diagnostic. -/
theorem C13_enter_positions_only (pe : PEnv) (m : PM) (f : Frame) (rest : List Frame) (name xf content : Bytes)
    (hfr : m.frames = f :: rest) (hdepth : ¬ m.srcs.length - 1 ≥ pe.maxInc)
    (hres : resolveFile pe name = some xf) (hopen : openFile pe xf = some content) :
    erasePM (doInclude pe m name) =
      { erasePM m with srcs := eraseSrc { rest := content, savedFile := f.cfg.info.filename, savedLine := f.cfg.info.line } :: (erasePM m).srcs,
                       pendingInclude := none } := by
  unfold doInclude
  simp only [hfr, hdepth, if_false, hres, hopen]
  simp [erasePM, hfr, eraseFrame, eraseCfg_setInfo, eraseInfo]
  cases hc : f.cfg with
  | mk i os => simp [eraseCfg, Cfg.setInfo, Cfg.info, Cfg.opts, eraseInfo]

/-- **C13 (the saved and restored positions never matter to values).** Whatever file name and line
an include left in the contexts, in the source stack or in earlier diagnostics, the parse of the
tokens that follow computes the same values, acceptance, callbacks and diagnostic classes. -/
theorem C13_positions_irrelevant (orc : Oracle) (ts : List LTok) (m m' : PM) (hm : erasePM m = erasePM m') :
    erasePM (parseToks orc m ts) = erasePM (parseToks orc m' ts) :=
  parseToks_erase_congr orc ts ts m m' rfl hm

/-- **C15 (comments are transparent with annotation support ON).** Inserting a comment token at any
position of any token sequence changes at most positions and annotations — acceptance, every value
at every depth, the callback invocations and the diagnostic classes stay the same — provided that at
the insertion point the machine is not sitting at an item boundary right after a *deprecated*
option (there the comment token triggers that option's deprecation handling one token early,
which adds a diagnostic). -/
theorem C15_transparent_annotations_on (orc : Oracle) (a b : List LTok) (m : PM) (c : Bytes) (n : Nat)
    (hpoint : ∀ f rest, (parseToks orc m a).status = .running → (parseToks orc m a).frames = f :: rest →
      f.state = .s0 → noPendingDeprecated f) :
    erasePM (parseToks orc m (a ++ (.comment c, n) :: b)) = erasePM (parseToks orc m (a ++ b)) := by
  rw [parseToks_append', parseToks_append', parseToks_cons]
  refine parseToks_erase_congr orc b b _ _ rfl ?_
  generalize parseToks orc m a = ma at hpoint ⊢
  by_cases hrun : ma.status = .running
  · cases hfr : ma.frames with
    | nil =>
      have : pstep orc ma (.comment c) n = ma := by unfold pstep; simp [hfr]
      rw [this]
    | cons f rest =>
      by_cases hs0 : f.state = .s0
      · have hnp := hpoint f rest hrun hfr hs0
        rw [pstep_running orc ma f rest _ n hrun hfr rfl (Or.inr hs0)]
        simp only [hs0, step_s0]
        rw [handleDeprecated_id _ _ (noPending_addLine f n hnp)]
        simp only []
        split
        · simp [erasePM, hfr, eraseFrame, Frame.addLine]
        · simp [erasePM, hfr, eraseFrame, Frame.addLine]
      · rw [pstep_comment_skip orc ma f rest c n hrun hfr hs0]
        simp [erasePM, hfr, eraseFrame, Frame.addLine]
  · rw [pstep_stopped orc ma _ _ hrun]

end Confuse

namespace Confuse
/-- non-vacuity: at the start of a parse (no current option) the side condition of
`C15_transparent_annotations_on` holds -/
example (orc : Oracle) (b : List LTok) (c : Bytes) (n : Nat) (cfg : Cfg) :
    erasePM (parseToks orc { frames := [{ cfg := cfg }], srcs := [] } ([] ++ (.comment c, n) :: b)) =
      erasePM (parseToks orc { frames := [{ cfg := cfg }], srcs := [] } ([] ++ b)) :=
  C15_transparent_annotations_on orc [] b _ c n (by
    intro f rest _ hfr _ r o hr _
    simp only [parseToks, List.foldl_nil, List.cons.injEq] at hfr
    obtain ⟨rfl, _⟩ := hfr
    simp at hr)
end Confuse
