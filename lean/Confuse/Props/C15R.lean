import Confuse.Props.C15
import Confuse.Props.C05
import Confuse.Lemmas.Splice
import Confuse.Props.C03
/-!
# C15 / C05 — a printed annotation is read back as that annotation

`cfg_print_comment` writes an annotation as `/* text */`; when the text contains the end-of-comment
marker it writes `# text` (or `// text` when the text starts with `#`).  Either way the scanner
returns one comment token carrying exactly the text (trimmed of white space at both ends, as every
comment is), and nothing of the text is read as configuration.
-/
namespace Confuse

theorem hasStarSlash_cons (c : Nat) (cs : Bytes) (h : hasStarSlash (c :: cs) = false) : hasStarSlash cs = false := by
  cases cs with
  | nil => rfl
  | cons d ds => simp only [hasStarSlash, Bool.or_eq_false_iff] at h; exact h.2

theorem hasStarSlash_suffix {r x : Bytes} (hs : Suffix r x) (h : hasStarSlash x = false) : hasStarSlash r = false := by
  obtain ⟨p, rfl⟩ := hs
  induction p with
  | nil => exact h
  | cons q qs ih => exact ih (hasStarSlash_cons q _ h)

def allBlank (x : Bytes) : Bool := x.all isBlank

theorem trimWs_append_blank (a x : Bytes) (h : allBlank x = true) : trimWs (a ++ x) = trimWs a := by
  unfold trimWs
  have hb : ∀ c ∈ x, isSpaceC c = true := by
    intro c hc
    have := (List.all_eq_true.1 h) c hc
    simp only [isBlank, Bool.or_eq_true, beq_iff_eq] at this
    rcases this with rfl | rfl <;> decide
  have : ((a ++ x).dropWhile isSpaceC).reverse.dropWhile isSpaceC = (a.dropWhile isSpaceC).reverse.dropWhile isSpaceC := by
    by_cases ha : a.dropWhile isSpaceC = []
    · have hall : ∀ c ∈ a, isSpaceC c = true := dropWhile_nil_all _ _ ha
      have : (a ++ x).dropWhile isSpaceC = [] := by
        have hall2 : ∀ c ∈ a ++ x, isSpaceC c = true := by
          intro c hc
          rcases List.mem_append.1 hc with h1 | h1
          · exact hall c h1
          · exact hb c h1
        generalize a ++ x = y at hall2
        induction y with
        | nil => rfl
        | cons w ws ih2 =>
          simp only [List.dropWhile_cons, hall2 w (by simp), if_true]
          exact ih2 (fun c hc => hall2 c (List.mem_cons_of_mem _ hc))
      rw [this, ha]
    · rw [dropWhile_app_of_ne_nil _ _ _ ha, List.reverse_append]
      have : (x.reverse ++ (a.dropWhile isSpaceC).reverse).dropWhile isSpaceC = (a.dropWhile isSpaceC).reverse.dropWhile isSpaceC := by
        generalize (a.dropWhile isSpaceC).reverse = y
        have hb' : ∀ c ∈ x.reverse, isSpaceC c = true := fun c hc => hb c (List.mem_reverse.1 hc)
        generalize x.reverse = z at hb'
        induction z with
        | nil => rfl
        | cons w ws ih =>
          simp only [List.cons_append, List.dropWhile_cons, hb' w (by simp), if_true]
          exact ih (fun c hc => hb' c (List.mem_cons_of_mem _ hc))
      rw [this]
  rw [this]

theorem countNl_blank (x : Bytes) (h : allBlank x = true) : countNl x = 0 := by
  unfold countNl
  rw [List.count_eq_zero]
  intro hc
  have := (List.all_eq_true.1 h) _ hc
  simp [isBlank] at this

theorem commentEnd_blank_term (x tail : Bytes) (h : allBlank x = true) :
    commentEnd (x ++ c_sp :: c_star :: c_slash :: tail) = some tail := by
  unfold commentEnd
  have : (x ++ c_sp :: c_star :: c_slash :: tail).dropWhile isBlank = c_star :: c_slash :: tail := by
    induction x with
    | nil => simp [isBlank]
    | cons c cs ih =>
      simp only [allBlank, List.all_cons, Bool.and_eq_true] at h
      simp only [List.cons_append, List.dropWhile_cons, h.1, if_true]
      exact ih h.2
  simp [this]

/-- a text that is not all blanks and does not contain the marker does not start a terminator,
whatever follows the ` */` appended to it -/
theorem commentEnd_none_block (x tail : Bytes) (hb : allBlank x = false) (hm : hasStarSlash x = false) :
    commentEnd (x ++ c_sp :: c_star :: c_slash :: tail) = none := by
  have hd : x.dropWhile isBlank ≠ [] := by
    intro e
    have := dropWhile_nil_all _ _ e
    have : allBlank x = true := List.all_eq_true.2 this
    rw [this] at hb; cases hb
  unfold commentEnd
  simp only []
  rw [dropWhile_app_of_ne_nil _ _ _ hd]
  have hsuf := suffix_dropWhile isBlank x
  cases hr : x.dropWhile isBlank with
  | nil => exact absurd hr hd
  | cons d r1 =>
    rw [hr] at hsuf
    simp only [List.cons_append]
    by_cases hds : d = c_star
    · subst hds
      simp only [if_true]
      have hm1 := hasStarSlash_suffix hsuf hm
      -- the run of stars
      have key : ∀ (r : Bytes), hasStarSlash (c_star :: r) = false →
          (match List.dropWhile (fun x => x == c_star) (c_star :: (r ++ c_sp :: c_star :: c_slash :: tail)) with
           | d :: ds => if d = c_slash then some ds else none
           | [] => none) = none := by
        intro r
        induction r with
        | nil => intro _; simp
        | cons e es ih =>
          intro hh
          simp only [hasStarSlash, Bool.or_eq_false_iff, Bool.and_eq_false_iff] at hh
          by_cases hes : e = c_star
          · subst hes
            have := ih (by simpa [hasStarSlash] using hh.2)
            simpa using this
          · have hne : e ≠ c_slash := by
              intro e2; subst e2
              simp at hh
            simp [hes, hne]
      exact key r1 hm1
    · simp [hds]

theorem commentRun_block : ∀ (x acc : Bytes) (nl : Nat) (tail : Bytes), hasStarSlash x = false →
    commentRun acc nl (x ++ c_sp :: c_star :: c_slash :: tail) = ⟨.comment (trimWs (acc.reverse ++ x)), nl + countNl x, tail⟩ := by
  intro x
  induction x with
  | nil =>
    intro acc nl tail _
    have := commentEnd_blank_term [] tail rfl
    simp only [List.nil_append] at this
    simp [commentRun, this]
  | cons c cs ih =>
    intro acc nl tail hm
    by_cases hb : allBlank (c :: cs) = true
    · have := commentEnd_blank_term (c :: cs) tail hb
      simp only [List.cons_append] at this
      simp only [List.cons_append, commentRun, this]
      rw [trimWs_append_blank _ _ hb, countNl_blank _ hb]
      rfl
    · have hb' : allBlank (c :: cs) = false := by simpa using hb
      have := commentEnd_none_block (c :: cs) tail hb' hm
      simp only [List.cons_append] at this
      simp only [List.cons_append, commentRun, this]
      have hm' := hasStarSlash_cons c cs hm
      by_cases hc : c = c_nl
      · subst hc
        simp only [if_true]
        rw [ih _ _ _ hm', countNl_cons]
        simp only [if_true, LexOut.mk.injEq, true_and]
        refine ⟨by simp, by omega, trivial⟩
      · simp only [hc, if_false]
        rw [ih _ _ _ hm', countNl_cons]
        simp [hc]

/-- **C15 (read-back, block form).** -/
theorem C15_annotation_readback_block (env : Env) (c rest : Bytes) (nl : Nat) (hm : hasStarSlash c = false) :
    lexInitial env nl (printComment c ++ rest) = ⟨.comment (trimWs c), nl + countNl c, c_nl :: rest⟩ := by
  unfold printComment
  simp only [hm, Bool.not_false, if_true]
  have := commentRun_block (c_sp :: c) [] nl (c_nl :: rest) (by
    cases c with
    | nil => rfl
    | cons d ds => simp [hasStarSlash, hm])
  simp only [List.cons_append, List.nil_append, List.append_assoc, lexInitial]
  simp only [List.cons_append, List.reverse_nil, List.nil_append] at this
  simp
  rw [this]
  have h1 : trimWs (c_sp :: c) = trimWs c := by
    unfold trimWs
    simp [isSpaceC]
  have h2 : countNl (c_sp :: c) = countNl c := by rw [countNl_cons]; simp
  rw [h1, h2]

theorem trimWs_sp (c : Bytes) : trimWs (c_sp :: c) = trimWs c := by
  unfold trimWs
  simp [isSpaceC]

/-- **C15 (read-back, line form).** -/
theorem C15_annotation_readback_line (env : Env) (c rest : Bytes) (nl : Nat) (hm : hasStarSlash c = true)
    (hnl : c.all (· != c_nl) = true) (h0 : ∀ x ∈ c, x ≠ 0) :
    lexInitial env nl (printComment c ++ rest) = ⟨.comment (trimWs c), nl, c_nl :: rest⟩ := by
  unfold printComment
  have hc : c.contains c_nl = false := by
    rw [Bool.eq_false_iff]
    intro hcon
    have hmem : c_nl ∈ c := by simpa using hcon
    have := (List.all_eq_true.1 hnl) _ hmem
    simp at this
  simp only [hm, Bool.not_true, Bool.false_eq_true, if_false, hc, Bool.not_false, if_true]
  by_cases hh : c.head? = some c_hash
  · simp only [hh, beq_self_eq_true, if_true]
    have hall : (c_slash :: c_slash :: c_sp :: c).all (· != c_nl) = true := by simp [hnl]
    have htd := takeWhile_ne_append c_nl (c_slash :: c_slash :: c_sp :: c) rest hall
    simp only [List.cons_append, List.nil_append, List.append_assoc] at htd ⊢
    simp only [lexInitial, lineComment]
    simp [htd.1, htd.2]
    rw [cstr_noNul (c_sp :: c) (by intro x hx; rcases List.mem_cons.1 hx with rfl | hx; decide; exact h0 x hx)]
    exact trimWs_sp c
  · have hne : (c.head? == some c_hash) = false := by simpa using hh
    simp only [hne, Bool.false_eq_true, if_false]
    have hall : (c_hash :: c_sp :: c).all (· != c_nl) = true := by simp [hnl]
    have htd := takeWhile_ne_append c_nl (c_hash :: c_sp :: c) rest hall
    simp only [List.cons_append, List.nil_append, List.append_assoc] at htd ⊢
    simp only [lexInitial, lineComment]
    simp [htd.1, htd.2]
    rw [cstr_noNul (c_sp :: c) (by intro x hx; rcases List.mem_cons.1 hx with rfl | hx; decide; exact h0 x hx)]
    exact trimWs_sp c

/-- **C15 (read-back).** Every annotation that a parse can produce — the text of a `#` / `//`
comment (no newline) or of a `/* */` comment (no end marker) — is printed so that the scanner reads
back one comment token carrying exactly that text, whatever follows it. -/
theorem C15_annotation_readback (env : Env) (c rest : Bytes) (nl : Nat) (h0 : ∀ x ∈ c, x ≠ 0)
    (hreach : hasStarSlash c = false ∨ c.all (· != c_nl) = true) :
    ∃ nl', lexInitial env nl (printComment c ++ rest) = ⟨.comment (trimWs c), nl', c_nl :: rest⟩ := by
  by_cases hm : hasStarSlash c = true
  · rcases hreach with h | h
    · rw [h] at hm; cases hm
    · exact ⟨nl, C15_annotation_readback_line env c rest nl hm h h0⟩
  · exact ⟨nl + countNl c, C15_annotation_readback_block env c rest nl (by simpa using hm)⟩

-- the annotation that used to escape its comment
example : printComment [112, 32, 42, 47, 32, 116] = [35, 32, 112, 32, 42, 47, 32, 116, 10] := by decide   -- `p */ t` -> `# p */ t`
example : printComment [35, 42, 47] = [47, 47, 32, 35, 42, 47, 10] := by decide                              -- `#*/` -> `// #*/`
example : printComment [97, 10, 42, 47] = [47, 42, 32, 97, 10, 42, 32, 47, 32, 42, 47, 10] := by decide      -- API-only: marker taken apart

end Confuse
