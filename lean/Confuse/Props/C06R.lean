import Confuse.Lemmas.NoDepM
/-!
# C06 — every rejection is reported; an accepted parse says nothing but deprecation notices

Both directions of the first and last sentence of C06, for the token machine (`cfg_parse_internal`),
every schema, every callback behaviour, every token stream.
-/
namespace Confuse

/-- **C06 (rejected ⇒ reported).**  A parse that ends rejected has told the application strictly
more than it knew before: at least one diagnostic was delivered or one callback invoked (a failing
callback is the party that reports).  The only exemption is named: a function option declared
without a function (a NULL `func` in the option table; the C library would call through it), and
then the state in which that option was about to be called is exhibited. -/
theorem C06_rejection_reported (orc : Oracle) (c : Cfg) (text : Bytes) (k0 : Nat) (ts : List LTok)
    (hrej : (parseToks orc (startPM c text k0) ts).status = .rejected) :
    rep (startPM c text k0) < rep (parseToks orc (startPM c text k0) ts) ∨
      ∃ pre post, ts = pre ++ post ∧ ∃ f ∈ (parseToks orc (startPM c text k0) pre).frames.head?, NoCode f :=
  parseToks_reject_reported orc ts _ rfl (startPM_optinv c text k0) hrej

/-- the same from any reachable state, one token at a time: the step that rejects is the step that
reports -/
theorem C06_rejecting_step_reports (orc : Oracle) (m : PM) (tok : Tok) (nl : Nat) (hrun : m.status = .running) (hinv : OptInvM m)
    (hrej : (pstep orc m tok nl).status = .rejected) :
    rep m < rep (pstep orc m tok nl) ∨ ∃ f ∈ m.frames.head?, NoCode f :=
  pstep_reject_reported orc m tok nl hrun hinv hrej

/-- the invariant the previous theorem needs holds in every reachable state -/
theorem C06_invariant_reachable (orc : Oracle) (c : Cfg) (text : Bytes) (k0 : Nat) (ts : List LTok) :
    OptInvM (parseToks orc (startPM c text k0) ts) :=
  parseToks_optinv orc ts _ (startPM_optinv c text k0)

/-- **C06 (accepted ⇒ silent).**  A parse that does not end rejected has delivered nothing but
deprecation notices. -/
theorem C06_accepted_only_notices (orc : Oracle) (c : Cfg) (text : Bytes) (k0 : Nat) (ts : List LTok)
    (hacc : (parseToks orc (startPM c text k0) ts).status ≠ .rejected) :
    ∀ d ∈ (parseToks orc (startPM c text k0) ts).diags, isDep d.cls = true := by
  have h := parseToks_quiet orc ts (startPM c text k0) hacc
  have h0 : nd isDep (startPM c text k0) = [] := rfl
  rw [h0] at h
  intro d hd
  simp only [nd, List.filter_eq_nil_iff] at h
  simpa using h d hd

/-- **C06 (accepted ⇒ silent), as the property words it.**  When no option of the schema — at any
depth, declared or instantiated — carries the DEPRECATED flag, a parse that does not end rejected
delivers no diagnostic at all.  (`ndDecls`: the declaration tree has no DEPRECATED flag; the invariant
`NDM` — no frame's tree has one — is kept by every step: `pstep_ndm`.) -/
theorem C06_accepted_silent (orc : Oracle) (decls : List Decl) (flags : Flags) (text : Bytes) (ts : List LTok)
    (hnd : ndDecls decls = true)
    (hacc : (parseToks orc (startPM (cfgInit decls flags) text 0) ts).status ≠ .rejected) :
    (parseToks orc (startPM (cfgInit decls flags) text 0) ts).diags = [] :=
  parseToks_silent orc ts _ (startPM_ndm _ text 0 (cfgInit_nd decls flags hnd)) hacc

/-- the same from any context whose tree is free of the flag (a context that was parsed into
before, modified through the API, …) -/
theorem C06_accepted_silent_any (orc : Oracle) (c : Cfg) (text : Bytes) (k0 : Nat) (ts : List LTok) (hnd : ndCfg c = true)
    (hacc : (parseToks orc (startPM c text k0) ts).status ≠ .rejected) :
    (parseToks orc (startPM c text k0) ts).diags = [] :=
  parseToks_silent orc ts _ (startPM_ndm c text k0 hnd) hacc

/-- … and a deprecation notice is only ever issued for a current option carrying the DEPRECATED flag -/
theorem C06_notice_needs_flag (f : Frame) (h : (depEffect f).1 ≠ []) :
    ∃ r o, f.opt = some r ∧ f.cfg.getOpt r = some o ∧ o.flags.deprecated = true :=
  depEffect_flag f h

/-- the resolver, on which the "unknown option" branch relies: it returns only references that exist,
is silent when it resolves, and speaks when it does not (unless told not to) -/
theorem C06_resolver (c : Cfg) (name : Bytes) :
    (∀ r, (getoptPath c name).ref = some r → (c.getOpt r).isSome ∧ (getoptPath c name).diags = []) ∧
    (name ≠ [] → c.flags.ignoreUnknown = false → c.flags.keystrval = false → (getoptPath c name).ref = none → (getoptPath c name).diags ≠ []) :=
  ⟨fun r h => ⟨getoptPath_valid c name r h, getoptPath_resolved_quiet c name r h⟩, getoptPath_unresolved_diag c name⟩

/-! ### the other transitions of the parse loop (`cfg_parse_fp` around `cfg_parse_internal`) -/

theorem getOpt_setInfo (c : Cfg) (i : CfgInfo) (r : OptRef) : (c.setInfo i).getOpt r = c.getOpt r := by
  obtain ⟨i0, o⟩ := c
  obtain ⟨steps, leaf⟩ := r
  cases steps <;> rfl

theorem optInv_setInfo (f : Frame) (i : CfgInfo) (h : OptInv f) : OptInv { f with cfg := f.cfg.setInfo i } := by
  unfold OptInv at h ⊢
  cases hst : f.state <;> simp only [hst] at h ⊢ <;> first
    | trivial
    | (obtain ⟨r, o, h1, h2, h3⟩ := h; exact ⟨r, o, h1, by rw [getOpt_setInfo]; exact h2, h3⟩)

/-- `include(...)`: every way it can fail is reported; when it succeeds the invariant carries over
into the included source -/
theorem C06_include_reported (pe : PEnv) (m : PM) (fname : Bytes) (hrun : m.status = .running) (hinv : OptInvM m) :
    ((doInclude pe m fname).status = .rejected → rep m < rep (doInclude pe m fname)) ∧ OptInvM (doInclude pe m fname) := by
  unfold doInclude
  cases hfr : m.frames with
  | nil => exact ⟨fun h => by simp [hrun] at h, fun _ f hf => by simp [hfr] at hf⟩
  | cons f rest =>
    have hf : OptInv f := hinv hrun f (by simp [hfr])
    simp only []
    split
    · exact ⟨fun _ => by simp [PM.rejectWith, rep, PM.reject, collapse, PM.addDiags], fun h => by simp [PM.rejectWith] at h⟩
    · split
      · exact ⟨fun _ => by simp [PM.rejectWith, rep, PM.reject, collapse, PM.addDiags], fun h => by simp [PM.rejectWith] at h⟩
      · split
        · refine ⟨fun h => by simp [hrun] at h, fun _ g hg => ?_⟩
          simp at hg; subst hg
          exact optInv_setInfo f _ hf
        · exact ⟨fun _ => by simp [PM.rejectWith, rep, PM.reject, collapse, PM.addDiags], fun h => by simp [PM.rejectWith] at h⟩

/-- the end of an included source (position restored, parsing goes on in the includer) keeps the invariant
and says nothing -/
theorem C06_pop_source (m : PM) (f : Frame) (rest : List Frame) (srcs : List Src) (file : Option Bytes) (line : Nat)
    (hfr : m.frames = f :: rest) (hinv : OptInvM m) (hrun : m.status = .running) :
    OptInvM { m with frames := { f with cfg := f.cfg.setInfo { f.cfg.info with filename := file, line := line } } :: rest, srcs := srcs } := by
  intro _ g hg
  simp at hg; subst hg
  exact optInv_setInfo f _ (hinv hrun f (by simp [hfr]))

/-- an included source starts at line 1 under its own name, and remembers where the includer was -/
theorem C06_include_restarts (pe : PEnv) (m : PM) (fname xf content : Bytes) (f : Frame) (rest : List Frame)
    (hfr : m.frames = f :: rest) (hdepth : ¬ (m.srcs.length - 1 ≥ pe.maxInc)) (hres : resolveFile pe fname = some xf)
    (hopen : openFile pe xf = some content) :
    ∃ f', (doInclude pe m fname).frames = f' :: rest ∧ f'.cfg.info.filename = some xf ∧ f'.cfg.info.line = 1 ∧
      (doInclude pe m fname).srcs = { rest := content, savedFile := f.cfg.info.filename, savedLine := f.cfg.info.line } :: m.srcs := by
  unfold doInclude
  simp only [hfr, hdepth, if_false, hres, hopen]
  exact ⟨_, rfl, by cases f.cfg; rfl, by cases f.cfg; rfl, trivial⟩

/-- at the end of an included source the loop goes on in the includer with exactly the remembered
file name and line -/
theorem C06_return_restores (orc : Oracle) (pe : PEnv) (fuel : Nat) (sc : StartCond) (m : PM) (src : Src) (srcs : List Src)
    (f : Frame) (rest : List Frame) (hrun : m.status = .running) (hs : m.srcs = src :: srcs) (hne : srcs ≠ [])
    (hfr : m.frames = f :: rest) (heof : (lexFrom pe.env sc src.rest).tok = .eof) :
    parseLoopFrom orc pe (fuel + 1) sc m =
      parseLoopFrom orc pe fuel .initial
        { m with frames := { f with cfg := f.cfg.setInfo { f.cfg.info with filename := src.savedFile, line := src.savedLine } } :: rest,
                 srcs := srcs } := by
  rw [parseLoopFrom]
  have hne' : srcs.isEmpty = false := by cases srcs <;> simp_all
  simp [hrun, hs, heof, hne', hfr]

/-! ### the hypotheses are met, and the exemption is real -/

private def exDecls : List Decl :=
  [ .mk { name := [97], ty := .int } {} [],
    .mk { name := [112], ty := .ptr } {} [],
    .mk { name := [102], ty := .func } {} [] ]
private def exStart : PM := startPM (cfgInit exDecls {}) [] 0
private def okOrc : Oracle := fun _ _ => .ok

-- `a = x` : rejected with an "invalid integer" diagnostic
example : ((parseToks okOrc exStart [(.str [97], 0), (.eq, 0), (.str [120], 0)]).status,
    rep (parseToks okOrc exStart [(.str [97], 0), (.eq, 0), (.str [120], 0)])) = (.rejected, 1) := by decide +kernel
-- `p = x` for a pointer option declared without a parse callback: rejected, and (since the fix) reported
example : ((parseToks okOrc exStart [(.str [112], 0), (.eq, 0), (.str [120], 0)]).status,
    (parseToks okOrc exStart [(.str [112], 0), (.eq, 0), (.str [120], 0)]).diags.map (·.cls)) = (.rejected, [.noParseCb]) := by decide +kernel
-- `f ( )` for a function option without a function: the exemption
example : ((parseToks okOrc exStart [(.str [102], 0), (.lparen, 0), (.rparen, 0)]).status,
    rep (parseToks okOrc exStart [(.str [102], 0), (.lparen, 0), (.rparen, 0)])) = (.rejected, 0) := by decide +kernel
-- the schema of these examples has no deprecated option (hypothesis of `C06_accepted_silent`) …
example : ndDecls exDecls = true := by decide
-- … and one that has is told apart
example : ndDecls [.mk { name := [100], ty := .int } { deprecated := true } []] = false := by decide
-- `a = 1` then end of input: accepted, silent
example : ((parseToks okOrc exStart [(.str [97], 0), (.eq, 0), (.str [49], 0), (.eof, 0)]).status,
    (parseToks okOrc exStart [(.str [97], 0), (.eq, 0), (.str [49], 0), (.eof, 0)]).diags.length) = (.accepted, 0) := by decide +kernel

end Confuse
