import Confuse.Model.Print
import Confuse.Lemmas.Lexer
import Confuse.Props.C06
import Confuse.Props.C04
/-!
# C05 — printed configuration parses back to the same configuration (leaf round trips)
-/
namespace Confuse

theorem escBody_head_ne_lbr (cs : Bytes) (rest : Bytes) (h : cs.head? ≠ some c_lbr) :
    (escBody cs ++ c_dq :: rest).head? ≠ some c_lbr := by
  cases cs with
  | nil => simp [escBody]
  | cons d ds =>
    have hd : d ≠ c_lbr := by simpa using h
    simp only [escBody]
    by_cases h1 : d = c_dq
    · simp [h1]
    · by_cases h2 : d = c_bs
      · simp [h2]
      · by_cases h3 : d = c_dollar
        · subst h3
          cases ds with
          | nil => simp
          | cons e es => by_cases he : e = c_lbr <;> simp [he]
        · simp [h1, h2, h3, hd]

/-- the scanner reads the escaped body of a printed string back, byte for byte -/
theorem dqRun_escBody (env : Env) (s : Bytes) : ∀ (acc : Bytes) (nl : Nat) (rest : Bytes),
    dqRun env ⟨.plain, acc, nl⟩ (escBody s ++ c_dq :: rest) = ⟨.str (cstr (acc.reverse ++ s)), nl + countNl s, rest⟩ := by
  induction s with
  | nil => intro acc nl rest; simp [escBody, dqRun, dqStep, dqPlain]
  | cons c cs ih =>
    intro acc nl rest
    rw [countNl_cons]
    simp only [escBody]
    by_cases h1 : c = c_dq
    · subst h1
      simp only [if_true, List.cons_append]
      have : dqRun env ⟨.plain, acc, nl⟩ (c_bs :: c_dq :: (escBody cs ++ c_dq :: rest)) =
          dqRun env ⟨.plain, c_dq :: acc, nl⟩ (escBody cs ++ c_dq :: rest) := by
        simp [dqRun, dqStep, dqPlain, isDec, simpleEsc]
      rw [this, ih]; simp
    · by_cases h2 : c = c_bs
      · subst h2
        simp only [h1, if_false, if_true, List.cons_append]
        have : dqRun env ⟨.plain, acc, nl⟩ (c_bs :: c_bs :: (escBody cs ++ c_dq :: rest)) =
            dqRun env ⟨.plain, c_bs :: acc, nl⟩ (escBody cs ++ c_dq :: rest) := by
          simp [dqRun, dqStep, dqPlain, isDec, simpleEsc]
        rw [this, ih]; simp
      · simp only [h1, h2, if_false]
        by_cases h3 : c = c_dollar
        · subst h3
          simp only [if_true]
          cases cs with
          | nil =>
            simp only [escBody, List.cons_append, List.nil_append]
            simp [dqRun, dqStep, dqPlain, countNl]
          | cons d ds =>
            simp only
            by_cases hd : d = c_lbr
            · subst hd
              simp only [if_true, List.cons_append]
              have : dqRun env ⟨.plain, acc, nl⟩ (c_bs :: c_dollar :: (escBody (c_lbr :: ds) ++ c_dq :: rest)) =
                  dqRun env ⟨.plain, c_dollar :: acc, nl⟩ (escBody (c_lbr :: ds) ++ c_dq :: rest) := by
                simp [dqRun, dqStep, dqPlain, isDec, simpleEsc]
              rw [this, ih]; simp
            · simp only [hd, if_false, List.cons_append]
              have hh := escBody_head_ne_lbr (d :: ds) rest (by simpa using hd)
              generalize hX : escBody (d :: ds) ++ c_dq :: rest = X at hh
              have step : dqRun env ⟨.plain, acc, nl⟩ (c_dollar :: X) = dqRun env ⟨.plain, c_dollar :: acc, nl⟩ X := by
                cases X with
                | nil => simp [dqRun, dqStep, dqPlain, dqEof]
                | cons e es =>
                  have : e ≠ c_lbr := by simpa using hh
                  simp [dqRun, dqStep, dqPlain, this]
              rw [step, ← hX, ih]; simp
        · by_cases h4 : c = c_nl
          · subst h4
            simp only [show (c_nl : Nat) ≠ c_dollar from by decide, if_false, List.cons_append, if_true]
            have : dqRun env ⟨.plain, acc, nl⟩ (c_nl :: (escBody cs ++ c_dq :: rest)) =
                dqRun env ⟨.plain, c_nl :: acc, nl + 1⟩ (escBody cs ++ c_dq :: rest) := by
              simp [dqRun, dqStep, dqPlain]
            rw [this, ih]; simp; omega
          · simp only [h3, h4, if_false, List.cons_append, Nat.zero_add]
            have : dqRun env ⟨.plain, acc, nl⟩ (c :: (escBody cs ++ c_dq :: rest)) =
                dqRun env ⟨.plain, c :: acc, nl⟩ (escBody cs ++ c_dq :: rest) := by
              simp [dqRun, dqStep, dqPlain, h1, h2, h3, h4]
            rw [this, ih]; simp

theorem cstr_noNul (s : Bytes) (h : ∀ c ∈ s, c ≠ 0) : cstr s = s := by
  induction s with
  | nil => rfl
  | cons c cs ih => simp [cstr, h c (by simp)]; exact ih (fun x hx => h x (by simp [hx]))

/-- **C05 (strings and titles).** What `cfg_print` writes for a string value or a section title —
any bytes 1..255, quotes, backslashes, `$`, `{`, newlines, comment markers included — is read
back by the scanner as exactly that string, in any environment, and the line counter advances by the
newlines the string contains. -/
theorem C05_str (env : Env) (s rest : Bytes) (nl : Nat) (h : ∀ c ∈ s, c ≠ 0) :
    lexInitial env nl (printQuoted (some s) ++ rest) = ⟨.str s, nl + countNl s, rest⟩ := by
  have e : ∀ X, lexInitial env nl (c_dq :: X) = dqRun env ⟨.plain, [], nl⟩ X := by intro X; simp [lexInitial]
  simp only [printQuoted, Option.getD_some, List.cons_append, List.append_assoc, List.singleton_append]
  rw [e, dqRun_escBody]
  simp [cstr_noNul s h]

/-- **C05 (booleans).** -/
theorem C05_bool (b : Bool) : convBool (if b then bTrue else bFalse) = some b := by
  cases b <;> decide

/-- a NULL string prints as `""` (and the option is commented out, see C19) -/
theorem C05_null_prints_empty : printQuoted none = [c_dq, c_dq] := by decide

open Confuse.Spec in
theorem digitsValue_snoc (b : Nat) (ds : Bytes) (d : Nat) : digitsValue b (ds ++ [d]) = digitsValue b ds * b + digitVal d := by
  simp [digitsValue, List.foldl_append]

theorem digitVal_dec (k : Nat) (h : k < 10) : digitVal (48 + k) = k := by
  unfold digitVal
  have : isDec (48 + k) = true := by simp [isDec]; omega
  simp [this]

open Confuse.Spec in
/-- decimal digits: all digits, right value, no leading zero -/
theorem decDigits_spec (n : Nat) :
    allDigits 10 (decDigits n) = true ∧ digitsValue 10 (decDigits n) = n ∧
    (∃ c cs, decDigits n = c :: cs ∧ (n ≥ 1 → c ≠ 48) ∧ 48 ≤ c ∧ c ≤ 57) := by
  induction n using Nat.strongRecOn with
  | _ n ih =>
    rw [decDigits]
    by_cases h : n < 10
    · simp only [h, dite_true]
      refine ⟨?_, ?_, 48 + n, [], rfl, ?_, by omega, by omega⟩
      · simp [allDigits, digitVal_dec n h, h]
      · simp [digitsValue, digitVal_dec n h]
      · intro h1; omega
    · simp only [h, dite_false]
      have hlt : n / 10 < n := by omega
      obtain ⟨h1, h2, c, cs, h3, h4, h5, h6⟩ := ih (n / 10) hlt
      have hmod : n % 10 < 10 := Nat.mod_lt _ (by omega)
      refine ⟨?_, ?_, c, cs ++ [48 + n % 10], by rw [h3]; rfl, ?_, h5, h6⟩
      · simp only [allDigits, List.all_append, List.all_cons, List.all_nil, Bool.and_true, Bool.and_eq_true, decide_eq_true_eq] at h1 ⊢
        exact ⟨h1, by rw [digitVal_dec _ hmod]; exact hmod⟩
      · rw [digitsValue_snoc, h2, digitVal_dec _ hmod]; omega
      · intro _; exact h4 (by omega)

open Confuse.Spec in
/-- **C05 (integers).** Every `long` printed with `%ld` converts back to itself. -/
theorem C05_int (n : Int) (hlo : longMin ≤ n) (hhi : n ≤ longMax) : convInt (printInt n) = .ok n := by
  unfold printInt
  by_cases hneg : n < 0
  · simp only [hneg, if_true]
    obtain ⟨h1, h2, c, cs, h3, h4, h5, h6⟩ := decDigits_spec n.natAbs
    rw [C04_int _]
    unfold intExpected intNumeral
    have hne : (decDigits n.natAbs).isEmpty = false := by rw [h3]; rfl
    simp only [hne, h1, Bool.not_false, Bool.and_self, if_true, h2]
    have : -(n.natAbs : Int) = n := by omega
    rw [this]
    simp [hlo, hhi]
  · simp only [hneg, if_false]
    have hn : (n.natAbs : Int) = n := by omega
    obtain ⟨h1, h2, c, cs, h3, h4, h5, h6⟩ := decDigits_spec n.natAbs
    by_cases h0 : n.natAbs = 0
    · have : n = 0 := by omega
      subst this
      have : decDigits (Int.natAbs 0) = [48] := by
        rw [show Int.natAbs 0 = 0 from rfl, decDigits]; simp
      rw [this]; rfl
    · have hc : c ≠ 48 := h4 (by omega)
      rw [h3]
      rw [C04_int_other c cs hc (by omega) (by omega)]
      unfold intExpected
      have hin : intNumeral (c :: cs) = some (digitsValue 10 (c :: cs) : Int) := by
        have hall : allDigits 10 (c :: cs) = true := by rw [← h3]; exact h1
        unfold intNumeral
        split <;> simp_all
      rw [hin, ← h3, h2, hn]
      simp [hlo, hhi]

end Confuse
