import Confuse.Props.C01A
/-!
# C14 — the callback log of a whole item in closed form

`C14_log_monotone` says the log only grows; here is what exactly one assignment adds to it.
-/
namespace Confuse

/-- **a scalar assignment with ANY callbacks**: the first two tokens select the option and mark it "replace"; the value
token is `cfg_setopt` + validation + annotation on exactly that frame -/
theorem C01_assign_general (orc : Oracle) (m : PM) (f : Frame) (rest : List Frame) (name v : Bytes) (n1 n2 n3 : Nat)
    (r : OptRef) (o : Opt)
    (hrun : m.status = .running) (hfr : m.frames = f :: rest) (hst : f.state = .s0)
    (hnd : noPendingDeprecated f)
    (hres : (getoptPath f.cfg name).ref = some r) (hsil : (getoptPath f.cfg name).diags = [])
    (hget : f.cfg.getOpt r = some o) (hty : o.ty ≠ .sec ∧ o.ty ≠ .func) (hnl : o.flags.list = false) :
    parseToks orc m [(.str name, n1), (.eq, n2), (.str v, n3)] =
      storeValue orc
        { m with frames := { f with cfg := (f.cfg.setOpt r o.markReplace).setLine (f.cfg.line + n1 + n2 + n3), opt := some r, state := .s2 } :: rest }
        { f with cfg := (f.cfg.setOpt r o.markReplace).setLine (f.cfg.line + n1 + n2 + n3), opt := some r, state := .s2 } rest v .s0 := by
  let mk : Frame → PM := fun F => { m with frames := F :: rest }
  let F1 : Frame := { f with cfg := f.cfg.setLine (f.cfg.line + n1), opt := some r, state := .s1 }
  let F2 : Frame := { F1 with cfg := (F1.cfg.setLine (F1.cfg.line + n2)).setOpt r o.markReplace, state := .s2 }
  have g1 : F1.cfg.getOpt r = some o := by show (f.cfg.setLine _).getOpt r = some o; rw [getOpt_setLine]; exact hget
  have e1 : pstep orc m (.str name) n1 = mk F1 := pstep_name orc m f rest name n1 r o hrun hfr hst hnd hres hsil hget hty
  have e2 : pstep orc (mk F1) .eq n2 = mk F2 := pstep_eq_scalar orc (mk F1) F1 rest n2 r o hrun rfl rfl rfl g1 hnl
  simp only [parseToks, List.foldl]
  rw [e1, e2]
  have g2 : F2.cfg.getOpt r = some o.markReplace := getOpt_setOpt _ r o _ (by rw [getOpt_setLine]; exact g1)
  have hl2 : o.markReplace.flags.list = false := by cases o; simpa [Opt.markReplace, Opt.setFlags, Opt.flags] using hnl
  show pstep orc (mk F2) (.str v) n3 = _
  unfold pstep
  simp only [mk, hrun]
  simp only [F2, F1, step_s2, getOpt_setLine, Option.bind]
  have g2' : ((f.cfg.setLine (f.cfg.line + n1)).setLine ((f.cfg.setLine (f.cfg.line + n1)).line + n2) |>.setOpt r o.markReplace).getOpt r = some o.markReplace := g2
  simp only [g2', hl2]
  simp only [setLine_line, setLine_setLine, setOpt_setLine, setOpt_line]
  rfl

/-- `cfg_setopt` of an integer option that has a value-parsing callback, marked "replace": the callback is asked once,
with the token text; its answer is what is stored -/
theorem setopt_int_cb (orc : Oracle) (k : Nat) (ci : CfgInfo) (o : Opt) (v : Bytes)
    (hty : o.ty = .int) (hpc : o.info.parseCb = true) (hnl : o.flags.list = false) (hnm : o.flags.multi = false)
    (hfree : freeEvOpt o = []) :
    setopt orc k ci o.markReplace (some v) =
      (match orc k (CbCall.parse o.name (some v)) with
       | .int n => ⟨.mk o.info { o.flags with reset := false, modified := true } o.subs [.int n] o.comment, some 0, [], [CbCall.parse o.name (some v)]⟩
       | _ => ⟨o.markReplace, none, [.callback], [CbCall.parse o.name (some v)]⟩) := by
  obtain ⟨info, fl, subs, vals, cm⟩ := o
  simp only [Opt.ty, Opt.info, Opt.flags, Opt.subs, Opt.comment, Opt.name] at hty hpc hnl hnm ⊢
  have hfree' : freeEvVals info.freeCb vals = [] := by simpa [freeEvOpt] using hfree
  unfold setopt setoptConvert
  simp only [Opt.markReplace, Opt.setFlags, Opt.ty, Opt.info, Opt.flags, Opt.subs, Opt.vals, Opt.comment, Opt.name, hpc, hty]
  cases orc k (CbCall.parse info.name (some v)) <;>
    simp [dropDefaults, freeValue, Opt.flags, Opt.setFlags, Opt.vals, Opt.info, Opt.subs, Opt.comment, setoptStore, hnl, hnm, freeEvOpt, hfree', hty]

theorem info_mk (i : OptInfo) (f : Flags) (s : List Decl) (v : List Val) (c : Option Bytes) : (Opt.mk i f s v c).info = i := rfl
theorem vals_mk (i : OptInfo) (f : Flags) (s : List Decl) (v : List Val) (c : Option Bytes) : (Opt.mk i f s v c).vals = v := rfl
theorem name_mk (i : OptInfo) (f : Flags) (s : List Decl) (v : List Val) (c : Option Bytes) : (Opt.mk i f s v c).name = i.name := rfl
theorem name_info (o : Opt) : o.name = o.info.name := rfl

@[simp] theorem reject_trace (m : PM) (f : Frame) (rest : List Frame) : (m.reject f rest).trace = m.trace := by
  unfold PM.reject; split <;> rfl

/-- **C14 (the callback log of one assignment, in closed form).** `name = v` for an integer option with a value-parsing
and a validation callback, at an item boundary: the parse callback is invoked exactly once, first, with exactly the
token text `v`; if it refuses, the parse is rejected with nothing stored and nothing else invoked; otherwise the
value it produced is stored and the validation callback runs next, seeing exactly that value; its verdict decides
between going on (at an item boundary, the option holding the produced value) and rejection.  In every case the log
is the old log plus these one or two invocations, in this order. -/
theorem C14_assign_trace (orc : Oracle) (m : PM) (f : Frame) (rest : List Frame) (name v : Bytes) (n1 n2 n3 : Nat)
    (r : OptRef) (o : Opt)
    (hrun : m.status = .running) (hfr : m.frames = f :: rest) (hst : f.state = .s0)
    (hnd : noPendingDeprecated f) (hcm : f.comment = none)
    (hres : (getoptPath f.cfg name).ref = some r) (hsil : (getoptPath f.cfg name).diags = [])
    (hget : f.cfg.getOpt r = some o)
    (hty : o.ty = .int) (hpc : o.info.parseCb = true) (hvc : o.info.validCb = true)
    (hnl : o.flags.list = false) (hnm : o.flags.multi = false) (hfree : freeEvOpt o = []) :
    let res := parseToks orc m [(.str name, n1), (.eq, n2), (.str v, n3)]
    let pcall := CbCall.parse o.name (some v)
    (match orc m.k pcall with
     | .int n =>
       let vcall := CbCall.valid o.name [Snap.int n]
       res.trace = vcall :: pcall :: m.trace ∧
       (if orc (m.k + 1) vcall = .fail then res.status = .rejected
        else res.status = .running ∧
             ∃ f', res.frames = f' :: rest ∧ f'.state = .s0 ∧
               f'.cfg.getOpt r = some (.mk o.info { o.flags with reset := false, modified := true } o.subs [.int n] o.comment))
     | _ => res.trace = pcall :: m.trace ∧ res.status = .rejected) := by
  intro res pcall
  have hty' : o.ty ≠ .sec ∧ o.ty ≠ .func := by simp [hty]
  have hgen := C01_assign_general orc m f rest name v n1 n2 n3 r o hrun hfr hst hnd hres hsil hget hty' hnl
  have hres' : res = _ := hgen
  have g2 : ((f.cfg.setOpt r o.markReplace).setLine (f.cfg.line + n1 + n2 + n3)).getOpt r = some o.markReplace := by
    rw [getOpt_setLine]; exact getOpt_setOpt _ r o _ hget
  have hk : ∀ (fr : List Frame), ({ m with frames := fr } : PM).k = m.k := fun _ => rfl
  rw [hres']
  unfold storeValue
  simp only [g2, hk]
  rw [setopt_int_cb orc m.k _ o v hty hpc hnl hnm hfree]
  cases ho : orc m.k pcall with
  | int n =>
    simp only [pcall] at ho
    simp only [ho]
    have g3 : ∀ (c : Cfg) (o1 : Opt), c.getOpt r = some o.markReplace → (c.setOpt r o1).getOpt r = some o1 :=
      fun c o1 h => getOpt_setOpt c r _ o1 h
    simp only [runValid, g3 _ _ g2, info_mk, vals_mk, name_mk, hvc, if_true, PM.k, PM.addCalls, PM.addDiags, List.map, Val.snap]
    by_cases hv : orc (m.trace.length + 1) (CbCall.valid o.info.name [Snap.int n]) = CbRes.fail
    · simp [hv, vetoed, g3 _ _ g2, info_mk, vals_mk, name_mk, name_info, Val.snap, PM.addCalls, PM.addDiags, pcall]
    · simp [hv, g3 _ _ g2, info_mk, vals_mk, name_mk, name_info, Val.snap, PM.addCalls, PM.addDiags, pcall, inheritComment, hcm, hrun]
  | _ =>
    simp only [pcall] at ho
    simp [ho, PM.addCalls, PM.addDiags, pcall]

end Confuse
