import Confuse.Model.Ledger
import Confuse.Props.C08
/-!
# C07 — everything acquired is released exactly once on every path (count level)
-/
namespace Confuse

/-! the user pointers stored in a tree, in the order `cfg_free` visits them -/
mutual
def ptrsVal (freeCb : Bool) : Val → List Bytes
  | .ptr (some p) => if freeCb then [p] else []
  | .sec c => ptrsCfg c
  | _ => []
def ptrsVals (freeCb : Bool) : List Val → List Bytes
  | [] => []
  | v :: vs => ptrsVal freeCb v ++ ptrsVals freeCb vs
def ptrsOpt : Opt → List Bytes
  | .mk i _ _ vals _ => ptrsVals i.freeCb vals
def ptrsOpts : List Opt → List Bytes
  | [] => []
  | o :: os => ptrsOpt o ++ ptrsOpts os
def ptrsCfg : Cfg → List Bytes
  | .mk _ opts => ptrsOpts opts
end

mutual
theorem freeEvVal_eq (fc : Bool) : (v : Val) → freeEvVal fc v = (ptrsVal fc v).map CbCall.free
  | .ptr (some p) => by cases fc <;> simp [freeEvVal, ptrsVal]
  | .ptr none => by simp [freeEvVal, ptrsVal]
  | .sec c => by simp [freeEvVal, ptrsVal, freeEvCfg_eq c]
  | .int _ => by simp [freeEvVal, ptrsVal]
  | .flt _ => by simp [freeEvVal, ptrsVal]
  | .bool _ => by simp [freeEvVal, ptrsVal]
  | .str _ => by simp [freeEvVal, ptrsVal]
theorem freeEvVals_eq (fc : Bool) : (vs : List Val) → freeEvVals fc vs = (ptrsVals fc vs).map CbCall.free
  | [] => by simp [freeEvVals, ptrsVals]
  | v :: vs => by simp [freeEvVals, ptrsVals, freeEvVal_eq fc v, freeEvVals_eq fc vs]
theorem freeEvOpt_eq : (o : Opt) → freeEvOpt o = (ptrsOpt o).map CbCall.free
  | .mk i _ _ vals _ => by simp [freeEvOpt, ptrsOpt, freeEvVals_eq i.freeCb vals]
theorem freeEvOpts_eq : (os : List Opt) → freeEvOpts os = (ptrsOpts os).map CbCall.free
  | [] => by simp [freeEvOpts, ptrsOpts]
  | o :: os => by simp [freeEvOpts, ptrsOpts, freeEvOpt_eq o, freeEvOpts_eq os]
/-- **C07 (release function, exactly once).** Freeing a context calls the release function once for
every stored non-null pointer value of an option that has one — every section instance at every
depth included — and for nothing else. -/
theorem freeEvCfg_eq : (c : Cfg) → freeEvCfg c = (ptrsCfg c).map CbCall.free
  | .mk _ opts => by simp [freeEvCfg, ptrsCfg, freeEvOpts_eq opts]
end

theorem C07_free_releases_each_pointer_once (c : Cfg) : apiFree c = (ptrsCfg c).map CbCall.free := freeEvCfg_eq c

/-- **C07 (never twice).** Once the values of an option have been released, releasing again finds
nothing: the option holds no value any more. -/
theorem C07_never_twice (o : Opt) : (freeValue o).2 = freeEvOpt o ∧ freeEvOpt (freeValue o).1 = [] ∧ (freeValue o).1.vals = [] := by
  obtain ⟨i, f, s, v, c⟩ := o
  simp [freeValue, freeEvOpt, freeEvVals, Opt.vals, Opt.info, Opt.flags, Opt.subs, Opt.comment]

/-- **C07 (replacing a pointer value hands the old one over).** -/
theorem C07_replace_releases_old (ci : CfgInfo) (o1 : Opt) (p : Option Bytes) (q : Bytes) (value : Option Bytes)
    (hv : o1.vals = [.ptr (some q)]) (hcb : o1.info.freeCb = true) :
    (setoptStore ci o1 (.ptr p) value false none).2.2 = [.free q] ∧
    (setoptStore ci o1 (.ptr p) value false none).2.1 = [.ptr p] := by
  simp [setoptStore, hv, hcb, listSet]

/-- **C07 (a replaced or removed section releases everything inside it).** -/
theorem C07_section_replace_releases (ci : CfgInfo) (o1 : Opt) (value : Option Bytes) (i : Nat) (old : Cfg)
    (hm : o1.flags.multi = true) (hold : o1.vals[i]? = some (.sec old)) :
    (setoptStore ci o1 .sec value true (some i)).2.2 = freeEvCfg old := by
  simp [setoptStore, hold, hm]

theorem C07_rmnsec_releases (o : Opt) (i : Nat) (old : Cfg) (hs : o.ty = .sec) (hm : o.flags.multi = true)
    (hold : o.vals[i]? = some (.sec old)) :
    (rmnsec o i).2.2 = freeEvCfg old ∧ (rmnsec o i).1.vals = o.vals.eraseIdx i := by
  obtain ⟨info, f, subs, vals, c⟩ := o
  simp only [Opt.flags, Opt.vals, Opt.ty, Opt.info] at hs hm hold ⊢
  have hi : i < vals.length := by
    rcases Nat.lt_or_ge i vals.length with h | h
    · exact h
    · simp [List.getElem?_eq_none h] at hold
  have h1 : ¬ (i ≥ vals.length) := by omega
  unfold rmnsec
  simp [Opt.ty, Opt.info, Opt.flags, Opt.vals, Opt.setVals, Opt.subs, Opt.comment, hs, h1, hm, hold]

/-- **C07 (sources).** After any parse, accepted or aborted at any point, no included source stays
open and the scanner's buffers are back to where they were (from C08). -/
theorem C07_sources_closed (g : ScanG) (orc : Oracle) (pe : PEnv) (c : Cfg) (text : Bytes) :
    (parseFpG g orc pe c text).2.incDepth = g.incDepth ∧ (parseFpG g orc pe c text).2.bufDepth = g.bufDepth :=
  ⟨(C08_clean g orc pe c text).1, (C08_clean g orc pe c text).2.1⟩

/-- footprint of the empty context of a schema: what `cfg_init` allocates is a function of the declarations only -/
theorem C07_footprint_append (vals : List Val) (v : Val) : footVals (vals ++ [v]) = footVals vals + footVal v := by
  induction vals with
  | nil => simp [footVals]
  | cons a as ih => simp [footVals, ih, Nat.add_assoc]

end Confuse
