import Confuse.Lemmas.Parser
import Confuse.Lemmas.Path
/-!
# C15 — comments are transparent; annotations stick to the next option
-/
namespace Confuse

theorem setLine_self (c : Cfg) : c.setLine (c.line + 0) = c := by
  obtain ⟨i, o⟩ := c
  simp [Cfg.setLine, Cfg.setInfo, Cfg.info, Cfg.line, Cfg.opts]

theorem frame_setLine_self (f : Frame) : ({ f with cfg := f.cfg.setLine (f.cfg.line + 0) } : Frame) = f := by
  rw [setLine_self]

/-- **C15 (one step, any state but 0).** A comment token leaves the whole machine — every frame,
the logs, the pending temporaries — exactly as it was. -/
theorem C15_step_other (orc : Oracle) (m : PM) (v : Bytes)
    (h : ∀ f rest, m.frames = f :: rest → f.state ≠ .s0) :
    pstep orc m (.comment v) 0 = m := by
  unfold pstep
  by_cases hrun : (m.status != .running) = true
  · simp [hrun]
  · simp only [hrun, Bool.false_eq_true, if_false]
    cases hfr : m.frames with
    | nil => rfl
    | cons f rest =>
      have hs := h f rest hfr
      simp only [frame_setLine_self]
      have : (f.state != .s0) = true := by simpa using hs
      simp only [this, Bool.and_self, if_true]
      cases m; simp_all

/-- **C15 (one step, state 0, annotation support off).** -/
theorem C15_step_s0_off (orc : Oracle) (m : PM) (f : Frame) (rest : List Frame) (v : Bytes)
    (hfr : m.frames = f :: rest) (hs : f.state = .s0) (hoff : f.cfg.flags.comments = false)
    (hdep : noPendingDeprecated f) :
    pstep orc m (.comment v) 0 = m := by
  unfold pstep
  by_cases hrun : (m.status != .running) = true
  · simp [hrun]
  · simp only [hrun, Bool.false_eq_true, if_false, hfr, frame_setLine_self]
    simp only [hs, bne_self_eq_false, Bool.and_false, Bool.false_eq_true, if_false]
    unfold step_s0
    rw [handleDeprecated_id _ f hdep]
    simp only [hoff, Bool.false_eq_true, if_false]
    cases m; simp_all

/-- **C15 (one step, state 0, annotation support on).** Only the pending-annotation slot of the
current frame changes. -/
theorem C15_step_s0_on (orc : Oracle) (m : PM) (f : Frame) (rest : List Frame) (v : Bytes)
    (hrun : m.status = .running) (hfr : m.frames = f :: rest) (hs : f.state = .s0) (hon : f.cfg.flags.comments = true)
    (hdep : noPendingDeprecated f) :
    pstep orc m (.comment v) 0 = { m with frames := { f with comment := some v } :: rest } := by
  unfold pstep
  simp only [hrun, hfr, frame_setLine_self]
  simp only [hs, bne_self_eq_false, Bool.and_false, Bool.false_eq_true, if_false]
  unfold step_s0
  rw [handleDeprecated_id _ f hdep]
  simp [hon, hs]

theorem parseToks_append (orc : Oracle) (m : PM) (a b : List (Tok × Nat)) :
    parseToks orc m (a ++ b) = parseToks orc (parseToks orc m a) b := by
  simp [parseToks, List.foldl_append]

/-- the machine is in a position where a comment token is a no-op -/
def CommentNoop (m : PM) : Prop :=
  ∀ f rest, m.frames = f :: rest → f.state = .s0 → f.cfg.flags.comments = false ∧ noPendingDeprecated f

/-- **C15 (transparency, annotation support off).** Inserting a comment token between any two
tokens of any token list — accepted or rejected, at any nesting depth, inside lists, after `=`,
between a name or title and `{`, inside call arguments — does not change the final machine:
same acceptance, same tree, same diagnostics. -/
theorem C15_insert (orc : Oracle) (m : PM) (ts1 ts2 : List (Tok × Nat)) (v : Bytes)
    (h : CommentNoop (parseToks orc m ts1)) :
    parseToks orc m (ts1 ++ (.comment v, 0) :: ts2) = parseToks orc m (ts1 ++ ts2) := by
  have step : pstep orc (parseToks orc m ts1) (.comment v) 0 = parseToks orc m ts1 := by
    generalize parseToks orc m ts1 = m1 at h
    cases hfr : m1.frames with
    | nil =>
      apply C15_step_other
      intro f rest e; rw [hfr] at e; cases e
    | cons f rest =>
      by_cases hs : f.state = .s0
      · obtain ⟨hoff, hdep⟩ := h f rest hfr hs
        exact C15_step_s0_off orc m1 f rest v hfr hs hoff hdep
      · apply C15_step_other
        intro f' rest' e
        rw [hfr] at e
        injection e with e1 _
        subst e1; exact hs
  unfold parseToks at step ⊢
  simp only [List.foldl_append, List.foldl_cons]
  rw [step]

/-- **C15 (white space).** Blanks and newlines in front of a token change nothing but the line count. -/
theorem C15_ws (env : Env) (ws inp : Bytes) (nl : Nat) (h : ∀ c ∈ ws, c = c_sp ∨ c = c_tab ∨ c = c_nl) :
    lexInitial env nl (ws ++ inp) = lexInitial env (nl + ws.count c_nl) inp := by
  induction ws generalizing nl with
  | nil => simp
  | cons c cs ih =>
    have hc := h c (by simp)
    have hcs : ∀ x ∈ cs, x = c_sp ∨ x = c_tab ∨ x = c_nl := fun x hx => h x (by simp [hx])
    rcases hc with rfl | rfl | rfl
    · simp [lexInitial, ih _ hcs]
    · simp [lexInitial, ih _ hcs]
    · simp [lexInitial, ih _ hcs, Nat.add_assoc, Nat.add_comm 1]

/-- **C15 (a comment's bytes in front of a token).** `# text` up to the end of the line scans as one
comment token and leaves the rest of the input untouched. -/
theorem C15_line_comment_token (env : Env) (text rest : Bytes) (nl : Nat) (h : ∀ c ∈ text, c ≠ c_nl) :
    lexInitial env nl (c_hash :: (text ++ c_nl :: rest)) =
      ⟨.comment (trimWs (cstr ((c_hash :: text).dropWhile (· == c_hash)))), nl, c_nl :: rest⟩ := by
  have h1 : ∀ (t : Bytes), (∀ c ∈ t, c ≠ c_nl) → (t ++ c_nl :: rest).takeWhile (· != c_nl) = t ∧
      (t ++ c_nl :: rest).dropWhile (· != c_nl) = c_nl :: rest := by
    intro t ht
    induction t with
    | nil => simp
    | cons a as ih =>
      have ha : a ≠ c_nl := ht a (by simp)
      have := ih (fun x hx => ht x (by simp [hx]))
      simp [ha, this]
  have := h1 (c_hash :: text) (by
    intro c hc
    simp only [List.mem_cons] at hc
    rcases hc with rfl | hc
    · simp
    · exact h c hc)
  simp only [List.cons_append] at this
  simp [lexInitial, lineComment, this.1, this.2]

/-- **C15 (annotation).** With a comment pending, storing a value hands the comment — as scanned,
i.e. trimmed — to the option as its annotation and clears the slot. -/
theorem C15_annotation_attach (f : Frame) (r : OptRef) (o : Opt) (c : Bytes)
    (hc : f.comment = some c) (hr : f.opt = some r) (ho : f.cfg.getOpt r = some o) :
    (inheritComment f).comment = none ∧
    ∃ o', (inheritComment f).cfg.getOpt r = some o' ∧ o'.comment = some c ∧ o'.flags.comments = true ∧ o'.vals = o.vals := by
  unfold inheritComment
  simp only [hc, hr, ho]
  refine ⟨by simp, ?_⟩
  exact ⟨_, getOpt_setOpt f.cfg r o _ ho, rfl, rfl, rfl⟩

end Confuse
