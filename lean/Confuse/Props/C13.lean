import Confuse.Lemmas.Parser
/-!
# C13 — including a file equals reading its text in place (position bookkeeping and failures)
-/
namespace Confuse

/-- **C13 (failing targets).** A target that is missing, is a directory, cannot be resolved through
the search path, or would exceed the depth limit rejects the parse with exactly one diagnostic in the
includer's file and line, and leaves the stack of open sources as it was. -/
theorem C13_errors (pe : PEnv) (m : PM) (f : Frame) (rest : List Frame) (name : Bytes) (hfr : m.frames = f :: rest)
    (hbad : m.srcs.length - 1 ≥ pe.maxInc ∨ resolveFile pe name = none ∨
      (∃ xf, resolveFile pe name = some xf ∧ openFile pe xf = none)) :
    (doInclude pe m name).status = .rejected ∧ (doInclude pe m name).srcs = m.srcs ∧
    ∃ cls, (doInclude pe m name).diags = ⟨f.cfg.info.filename, f.cfg.info.line, cls⟩ :: m.diags := by
  unfold doInclude
  simp only [hfr]
  by_cases hd : m.srcs.length - 1 ≥ pe.maxInc
  · simp [hd, PM.rejectWith, PM.reject, PM.addDiags, Frame.diag, collapse]
  · simp only [hd, if_false]
    rcases hbad with h | h | ⟨xf, hx, hnot⟩
    · exact absurd h hd
    · simp [h, PM.rejectWith, PM.reject, PM.addDiags, Frame.diag, collapse]
    · simp [hx, hnot, PM.rejectWith, PM.reject, PM.addDiags, Frame.diag, collapse]

/-- **C13 (entering).** A good target becomes the current source; the includer's file name and line
are saved, the context continues at line 1 of the included file. -/
theorem C13_enter (pe : PEnv) (m : PM) (f : Frame) (rest : List Frame) (name xf content : Bytes)
    (hfr : m.frames = f :: rest) (hd : ¬ (m.srcs.length - 1 ≥ pe.maxInc))
    (hres : resolveFile pe name = some xf) (hfs : openFile pe xf = some content) :
    (doInclude pe m name).status = m.status ∧
    (doInclude pe m name).srcs = { rest := content, savedFile := f.cfg.info.filename, savedLine := f.cfg.info.line } :: m.srcs ∧
    ∃ f', (doInclude pe m name).frames = f' :: rest ∧ f'.cfg.info.filename = some xf ∧ f'.cfg.info.line = 1 ∧
      f'.cfg.opts = f.cfg.opts ∧ f'.state = f.state := by
  unfold doInclude
  simp only [hfr, hd, if_false, hres, hfs]
  refine ⟨trivial, trivial, _, rfl, ?_, ?_, ?_, rfl⟩ <;> simp [Cfg.setInfo, Cfg.info, Cfg.opts]

/-- **C13 (returning).** At the end of an included source the loop pops it and puts the includer's
file name and line back; nothing else in the frame changes.  Together with `C13_enter`: the
position after `include("f")` is the position before it. -/
theorem C13_return (orc : Oracle) (pe : PEnv) (fuel : Nat) (m : PM) (f : Frame) (rest : List Frame) (src : Src) (srcs : List Src)
    (hrun : m.status = .running) (hfr : m.frames = f :: rest) (hs : m.srcs = src :: srcs) (hne : srcs ≠ [])
    (heof : (lexInitial pe.env 0 src.rest).tok = .eof) :
    parseLoop orc pe (fuel + 1) m =
      parseLoop orc pe fuel { m with
        frames := { f with cfg := f.cfg.setInfo { f.cfg.info with filename := src.savedFile, line := src.savedLine } } :: rest,
        srcs := srcs } := by
  unfold parseLoop
  rw [parseLoopFrom]
  have h1 : (m.status != .running) = false := by simp [hrun]
  have h2 : srcs.isEmpty = false := by cases srcs <;> simp_all
  simp [h1, hs, heof, h2, hfr, lexFrom]

/-- save then restore is the identity on the includer's position -/
theorem C13_position_roundtrip (f : Frame) (xf : Bytes) :
    let saved : Src := { rest := [], savedFile := f.cfg.info.filename, savedLine := f.cfg.info.line }
    let inside := f.cfg.setInfo { f.cfg.info with filename := some xf, line := 1 }
    inside.setInfo { inside.info with filename := saved.savedFile, line := saved.savedLine } = f.cfg := by
  obtain ⟨⟨i, o⟩, _⟩ := f
  simp [Cfg.setInfo, Cfg.info, Cfg.opts]

/-- **C13 (depth limit).** -/
theorem C13_depth_limit (pe : PEnv) (m : PM) (f : Frame) (rest : List Frame) (name : Bytes) (hfr : m.frames = f :: rest)
    (h : m.srcs.length - 1 ≥ pe.maxInc) :
    (doInclude pe m name).diags = ⟨f.cfg.info.filename, f.cfg.info.line, .includeDepth⟩ :: m.diags := by
  unfold doInclude
  simp [hfr, h, PM.rejectWith, PM.reject, PM.addDiags, Frame.diag, collapse]

end Confuse
