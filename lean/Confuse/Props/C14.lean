import Confuse.Props.C10
import Confuse.Lemmas.Parser
/-!
# C14 — user callbacks see exactly the parsed items, and their verdict binds

All statements are for an arbitrary oracle (callback behaviour).
-/
namespace Confuse

/-- **C14 (value-parsing callback).** An option with a parse callback has the callback invoked once,
with exactly the decoded token text; the stored value is the one it produced; a failure result
refuses the value. -/
theorem C14_parse_callback (orc : Oracle) (k : Nat) (o : Opt) (tok : Bytes) (hcb : o.info.parseCb = true) (hty : o.ty = .int) :
    (∀ n, orc k (.parse o.name (some tok)) = .int n →
      setoptConvert orc k o (some tok) = .ok (.int n, [.parse o.name (some tok)])) ∧
    (orc k (.parse o.name (some tok)) = .fail →
      setoptConvert orc k o (some tok) = .error ([.callback], [.parse o.name (some tok)])) := by
  constructor
  · intro n h
    simp [setoptConvert, hty, hcb, h]
  · intro h
    simp [setoptConvert, hty, hcb, h]

/-- the same for strings: the callback's string is what gets stored -/
theorem C14_parse_callback_str (orc : Oracle) (k : Nat) (o : Opt) (tok s : Bytes) (hcb : o.info.parseCb = true) (hty : o.ty = .str)
    (h : orc k (.parse o.name (some tok)) = .str (some s)) :
    setoptConvert orc k o (some tok) = .ok (.str s, [.parse o.name (some tok)]) := by
  simp [setoptConvert, hty, hcb, h]

/-- **C14 (stored value is the callback's).** -/
theorem C14_stored_value (orc : Oracle) (k : Nat) (ci : CfgInfo) (o : Opt) (tok : Bytes) (n : Int)
    (hcb : o.info.parseCb = true) (hty : o.ty = .int) (hr : o.flags.reset = true)
    (h : orc k (.parse o.name (some tok)) = .int n) :
    (setopt orc k ci o (some tok)).opt.vals = [.int n] ∧
    (setopt orc k ci o (some tok)).calls = [.parse o.name (some tok)] ++ freeEvOpt o := by
  have hc := (C14_parse_callback orc k o tok hcb hty).1 n h
  unfold setopt
  rw [hc]
  obtain ⟨i, f, s, vs, c⟩ := o
  simp_all [dropDefaults, setoptStore, freeValue, Opt.setFlags, Opt.ty, Opt.info, Opt.vals, Opt.flags, Opt.subs, Opt.comment, freeEvOpt]

/-- **C14 (validation after every stored value, seeing it).** When a value has been stored for an
option with a validation callback, the very next callback invocation is that callback, its snapshot
of the option contains the value just stored, and a non-zero verdict fails the parse right there. -/
theorem C14_valid_after_store (orc : Oracle) (m : PM) (f : Frame) (rest : List Frame) (r : OptRef) (o : Opt) (v : Bytes) (next : PState) (i : Nat)
    (hopt : f.opt = some r) (hget : f.cfg.getOpt r = some o)
    (hok : (setopt orc m.k f.cfg.info o (some v)).res = some i)
    (hcb : o.info.validCb = true) :
    let out := setopt orc m.k f.cfg.info o (some v)
    let call := CbCall.valid o.name (out.opt.vals.map Val.snap)
    let kv := m.k + out.calls.length
    (orc kv call = .fail → (storeValue orc m f rest v next).status = .rejected) ∧
    (orc kv call ≠ .fail → (storeValue orc m f rest v next).trace = call :: (out.calls.reverse ++ m.trace)) := by
  intro out call kv
  have hsd := setopt_sameDecl orc m.k f.cfg.info o (some v)
  have hgs : (f.cfg.setOpt r out.opt).getOpt r = some out.opt := getOpt_setOpt f.cfg r o out.opt hget
  have hcb' : out.opt.info.validCb = true := by rw [hsd.1]; exact hcb
  have hname : out.opt.name = o.name := by unfold Opt.name; rw [hsd.1]
  -- the machine and frame right after the store
  let f1 : Frame := { f with cfg := f.cfg.setOpt r out.opt, opt := some r }
  let m1 : PM := (m.addCalls out.calls).addDiags f1 out.diags
  have hk : m1.k = kv := by
    simp [m1, PM.k, PM.addCalls, PM.addDiags, kv, Nat.add_comm]
  have hrv : runValid orc m1 f1 = (if orc kv call = .fail then none else some (m1.addCalls [call])) := by
    unfold runValid
    have h1 : f1.opt = some r := rfl
    have h2 : f1.cfg.getOpt r = some out.opt := hgs
    simp only [h1, h2, hcb', if_true, hname, hk]
    rfl
  have hsv : storeValue orc m f rest v next =
      (match runValid orc m1 f1 with
       | none => (vetoed orc m1 f1).reject f1 rest
       | some m2 => { m2 with frames := { (inheritComment f1) with numValues := (inheritComment f1).numValues + 1, state := next } :: rest }) := by
    unfold storeValue
    simp only [hopt, hget]
    show (match out.res with | none => _ | some _ => _) = _
    rw [hok]
    rfl
  rw [hsv, hrv]
  constructor
  · intro hf
    simp [hf]
  · intro hf
    simp [hf, m1, PM.addCalls, PM.addDiags]

/-- **C14 (function options).** The callback receives exactly the collected arguments, in order. -/
theorem C14_func_args (orc : Oracle) (m : PM) (f : Frame) (rest : List Frame) (r : OptRef) (o : Opt)
    (hopt : f.opt = some r) (hget : f.cfg.getOpt r = some o) (hfn : o.info.func = .user) :
    (orc m.k (.func o.name f.funcargs) = .fail → (callFunction orc m f rest).status = .rejected) ∧
    (callFunction orc m f rest).trace = .func o.name f.funcargs :: m.trace := by
  unfold callFunction
  simp only [hopt, hget, hfn]
  constructor
  · intro h; simp [h]
  · by_cases h : orc m.k (.func o.name f.funcargs) = .fail
    · simp [h, PM.reject, PM.addCalls, PM.addDiags, collapse]
    · simp [h, PM.addCalls]

/-- **C14 (the verdict binds: nothing after the failure is applied).** Once the parse has been
rejected no further token changes anything. -/
theorem C14_failure_stops (orc : Oracle) (m : PM) (ts : List (Tok × Nat)) (h : m.status ≠ .running) :
    parseToks orc m ts = m := by
  induction ts with
  | nil => rfl
  | cons t ts ih =>
    simp only [parseToks, List.foldl_cons] at ih ⊢
    have : pstep orc m t.1 t.2 = m := by
      unfold pstep
      have : (m.status != .running) = true := by simpa using h
      simp [this]
    rw [this]; exact ih

/-- **C14 (pre-set validation).** A by-name setter consults the callback first; a veto leaves the
configuration untouched, a rewritten number is what gets stored. -/
theorem C14_preset (orc : Oracle) (k : Nat) (c : Cfg) (path : Bytes) (n : Int) (i : Nat) (r : OptRef) (o : Opt)
    (hr : (getoptPath c path).ref = some r) (ho : c.getOpt r = some o) (hcb : o.info.valid2Cb = true) :
    (orc k (.valid2int o.name n) = .fail → (apiSetn orc k c path .int (.int n) i true).cfg = c ∧ (apiSetn orc k c path .int (.int n) i true).rc = -1) ∧
    (∀ n', orc k (.valid2int o.name n) = .int n' →
        (apiSetn orc k c path .int (.int n) i true).cfg = (modOpt c r (optSetn .int (.int n') i) (getoptPath c path).diags).cfg) ∧
    (apiSetn orc k c path .int (.int n) i true).calls.head? = some (.valid2int o.name n) := by
  unfold apiSetn
  simp only [hr, ho, hcb]
  refine ⟨?_, ?_, ?_⟩
  · intro h; simp [h]
  · intro n' h; simp [h]
  · cases h : orc k (.valid2int o.name n) <;> simp [h]

end Confuse
