import Confuse.Lemmas.Total
/-!
# C01 — parsed configuration equals the reference meaning of the text

Proved here: the laws the statement lists, at the two places where the code decides them — the
value store (`setopt`, one theorem per clause) and the token machine's handling of `=` / `+=`
(what it hands to the store).  The full refinement of the token machine to an item-level
denotation (`C01_sound`, `C01_exact` of DESIGN.md) is not proved; see PARTIAL in vlib/props/C01.py.
-/
namespace Confuse

/-- an option without a parse callback whose text converts -/
def plainInt (o : Opt) : Prop := o.ty = .int ∧ o.info.parseCb = false

theorem setoptConvert_int (orc : Oracle) (k : Nat) (o : Opt) (v : Bytes) (n : Int)
    (ho : plainInt o) (hv : convInt v = .ok n) :
    setoptConvert orc k o (some v) = .ok (.int n, []) := by
  unfold setoptConvert
  simp [ho.1, ho.2, hv]

/-- **'=' replaces** (scalar or list): the first value stored after `=` (which sets RESET) is the
only value afterwards, whatever the option held — defaults included. -/
theorem C01_eq_replaces (orc : Oracle) (k : Nat) (ci : CfgInfo) (o : Opt) (v : Bytes) (n : Int)
    (ho : plainInt o) (hv : convInt v = .ok n) (hreset : o.flags.reset = true) :
    (setopt orc k ci o (some v)).opt.vals = [.int n] ∧ (setopt orc k ci o (some v)).res = some 0 ∧
    (setopt orc k ci o (some v)).opt.flags.reset = false ∧ (setopt orc k ci o (some v)).opt.flags.modified = true := by
  unfold setopt
  rw [setoptConvert_int orc k o v n ho hv]
  have hty : o.ty = .int := ho.1
  obtain ⟨i, f, s, vs, c⟩ := o
  simp_all [dropDefaults, setoptStore, freeValue, Opt.setFlags, Opt.ty, Opt.info, Opt.vals, Opt.flags, Opt.subs, Opt.comment]

/-- **'+=' appends, also to defaults**: with RESET cleared (what the parser does on `+=`), a value
stored into a list option goes after everything the option holds. -/
theorem C01_pluseq_appends (orc : Oracle) (k : Nat) (ci : CfgInfo) (o : Opt) (v : Bytes) (n : Int)
    (ho : plainInt o) (hv : convInt v = .ok n) (hreset : o.flags.reset = false) (hlist : o.flags.list = true) :
    (setopt orc k ci o (some v)).opt.vals = o.vals ++ [.int n] ∧ (setopt orc k ci o (some v)).res = some o.vals.length := by
  unfold setopt
  rw [setoptConvert_int orc k o v n ho hv]
  have hty : o.ty = .int := ho.1
  obtain ⟨i, f, s, vs, c⟩ := o
  simp_all [dropDefaults, setoptStore, freeValue, Opt.setFlags, Opt.ty, Opt.info, Opt.vals, Opt.flags, Opt.subs, Opt.comment, Opt.setFlags]

/-- **a repeated scalar keeps the last value**: a scalar that already holds an explicit value is
overwritten in place (one value before, one value after). -/
theorem C01_scalar_last_wins (orc : Oracle) (k : Nat) (ci : CfgInfo) (o : Opt) (v : Bytes) (n : Int) (old : Val)
    (ho : plainInt o) (hv : convInt v = .ok n) (hreset : o.flags.reset = false)
    (hlist : o.flags.list = false) (hmulti : o.flags.multi = false) (hvals : o.vals = [old]) :
    (setopt orc k ci o (some v)).opt.vals = [.int n] := by
  unfold setopt
  rw [setoptConvert_int orc k o v n ho hv]
  have hty : o.ty = .int := ho.1
  obtain ⟨i, f, s, vs, c⟩ := o
  simp_all [dropDefaults, setoptStore, freeValue, Opt.setFlags, Opt.ty, Opt.info, Opt.vals, Opt.flags, Opt.subs, Opt.comment, Opt.setFlags, listSet]

/-- **rejected text changes nothing** (shared with C10): an unconvertible value leaves the option
record untouched and reports one diagnostic. -/
theorem C01_bad_value_rejected (orc : Oracle) (k : Nat) (ci : CfgInfo) (o : Opt) (v : Bytes) (e : ConvErr)
    (ho : plainInt o) (hv : convInt v = .error e) :
    (setopt orc k ci o (some v)).opt = o ∧ (setopt orc k ci o (some v)).res = none ∧
    (setopt orc k ci o (some v)).diags.length = 1 := by
  unfold setopt setoptConvert
  cases e <;> simp [ho.1, ho.2, hv]

/-- a section option as the parser meets it -/
def secOpt (o : Opt) : Prop := o.ty = .sec ∧ o.flags.reset = false

theorem setoptConvert_sec (orc : Oracle) (k : Nat) (o : Opt) (t : Option Bytes) (ho : o.ty = .sec) :
    setoptConvert orc k o t = .ok (.sec, []) := by
  unfold setoptConvert; simp [ho]

/-- **multi sections accumulate in file order**: an untitled multi section gets a fresh instance
(built from the declaration: sub-options with their defaults) after the existing ones. -/
theorem C01_multi_accumulates (orc : Oracle) (k : Nat) (ci : CfgInfo) (o : Opt)
    (ho : secOpt o) (hmulti : o.flags.multi = true) (htitle : o.flags.title = false) :
    (setopt orc k ci o none).opt.vals = o.vals ++ [.sec (mkSection ci o none)] ∧
    (setopt orc k ci o none).res = some o.vals.length := by
  unfold setopt
  rw [setoptConvert_sec orc k o none ho.1]
  obtain ⟨i, f, s, vs, c⟩ := o
  have h1 := ho.1; have h2 := ho.2
  simp_all [dropDefaults, setoptStore, freeValue, Opt.setFlags, Opt.ty, Opt.info, Opt.vals, Opt.flags, Opt.subs, Opt.comment, Opt.setFlags, mkSection, Opt.name]

/-- **a new title appends**: titled multi section, title not present yet. -/
theorem C01_new_title_appends (orc : Oracle) (k : Nat) (ci : CfgInfo) (o : Opt) (t : Bytes)
    (ho : secOpt o) (hmulti : o.flags.multi = true) (htitle : o.flags.title = true)
    (hnew : findTitle ci.flags.nocase t o.vals 0 = none) :
    (setopt orc k ci o (some t)).opt.vals = o.vals ++ [.sec (mkSection ci o (some t))] := by
  unfold setopt
  rw [setoptConvert_sec orc k o (some t) ho.1]
  obtain ⟨i, f, s, vs, c⟩ := o
  have h1 := ho.1; have h2 := ho.2
  simp_all [dropDefaults, setoptStore, freeValue, Opt.setFlags, Opt.ty, Opt.info, Opt.vals, Opt.flags, Opt.subs, Opt.comment, Opt.setFlags, mkSection, Opt.name]

/-- **a repeated title replaces that section in place** (same position, fresh contents), unless
titles must be unique. -/
theorem C01_repeated_title_replaces (orc : Oracle) (k : Nat) (ci : CfgInfo) (o : Opt) (t : Bytes) (i : Nat) (old : Cfg)
    (ho : secOpt o) (hmulti : o.flags.multi = true) (htitle : o.flags.title = true) (hdupes : o.flags.noTitleDupes = false)
    (hfound : findTitle ci.flags.nocase t o.vals 0 = some i) (hold : o.vals[i]? = some (.sec old)) :
    (setopt orc k ci o (some t)).opt.vals = listSet o.vals i (.sec (mkSection ci o (some t))) ∧
    (setopt orc k ci o (some t)).res = some i := by
  unfold setopt
  rw [setoptConvert_sec orc k o (some t) ho.1]
  obtain ⟨inf, f, s, vs, c⟩ := o
  have h1 := ho.1; have h2 := ho.2
  have hne : vs ≠ [] := by
    intro e; subst e; simp [Opt.vals] at hold
  have hlen : (vs.length == 0) = false := by cases vs <;> simp_all
  simp_all [dropDefaults, setoptStore, freeValue, Opt.setFlags, Opt.ty, Opt.info, Opt.vals, Opt.flags, Opt.subs, Opt.comment, Opt.setFlags, mkSection, Opt.name]

/-- **unique titles**: with NO_TITLE_DUPES a repeated title is refused, the option is unchanged and
a diagnostic is reported. -/
theorem C01_unique_title_rejected (orc : Oracle) (k : Nat) (ci : CfgInfo) (o : Opt) (t : Bytes) (i : Nat)
    (ho : secOpt o) (hmulti : o.flags.multi = true) (htitle : o.flags.title = true) (hdupes : o.flags.noTitleDupes = true)
    (hfound : findTitle ci.flags.nocase t o.vals 0 = some i) :
    (setopt orc k ci o (some t)).opt = o ∧ (setopt orc k ci o (some t)).res = none ∧
    (setopt orc k ci o (some t)).diags = [.dupTitle] := by
  unfold setopt
  rw [setoptConvert_sec orc k o (some t) ho.1]
  obtain ⟨inf, f, s, vs, c⟩ := o
  have h1 := ho.1; have h2 := ho.2
  have hne : (vs.length == 0) = false := by
    cases vs with
    | nil => simp [findTitle, Opt.vals] at hfound
    | cons _ _ => simp
  simp_all [dropDefaults, setoptStore, freeValue, Opt.setFlags, Opt.ty, Opt.info, Opt.vals, Opt.flags, Opt.subs, Opt.comment, Opt.setFlags]

/-- **a re-opened single section is merged**: the existing instance is kept as it is (the parser
then continues *inside* it), nothing is re-created or reset. -/
theorem C01_single_section_merges (orc : Oracle) (k : Nat) (ci : CfgInfo) (o : Opt) (t : Option Bytes) (c : Cfg)
    (ho : secOpt o) (hmulti : o.flags.multi = false) (hlist : o.flags.list = false) (hvals : o.vals = [.sec c]) :
    (setopt orc k ci o t).opt.vals = [.sec c] ∧ (setopt orc k ci o t).res = some 0 := by
  unfold setopt
  rw [setoptConvert_sec orc k o t ho.1]
  obtain ⟨inf, f, s, vs, cm⟩ := o
  have h1 := ho.1; have h2 := ho.2
  simp_all [dropDefaults, setoptStore, freeValue, Opt.setFlags, Opt.ty, Opt.info, Opt.vals, Opt.flags, Opt.subs, Opt.comment, Opt.setFlags, listSet]

/-- **unmentioned options keep their declared defaults**: a freshly created context holds, for a
scalar integer declaration, exactly the declared default, marked pristine. -/
theorem C01_default_materialised (ci : CfgInfo) (info : OptInfo) (flags : Flags) (subs : List Decl)
    (hty : info.ty = .int) (hnd : flags.nodefault = false) (hl : flags.list = false) (hdl : info.defList = none)
    (hs : info.simple = false) :      -- a CFG_SIMPLE option has no default: it holds the caller's variable (C01_simple_holds_variable)
    (mkOpt ci (.mk info flags subs)).vals = [.int info.defInt] ∧ (mkOpt ci (.mk info flags subs)).flags.reset = true ∧
    (mkOpt ci (.mk info flags subs)).flags.modified = false := by
  simp [mkOpt, hs, hty, hnd, hl, hdl, Opt.vals, Opt.flags]

/-- a CFG_SIMPLE_INT option starts out holding what the caller's variable holds, with its flags as declared (the
library installs no default for it and does not mark it pristine) -/
theorem C01_simple_holds_variable (ci : CfgInfo) (info : OptInfo) (flags : Flags) (subs : List Decl)
    (hty : info.ty = .int) (hs : info.simple = true) :
    (mkOpt ci (.mk info flags subs)).vals = [.int info.defInt] ∧ (mkOpt ci (.mk info flags subs)).flags = flags := by
  simp [mkOpt, hs, hty, Opt.vals, Opt.flags]

/-- the frame on top of a running machine -/
def topFrame (m : PM) : Option Frame := m.frames.head?

/-- **the parser's `=`**: in state 1 the token `=` marks the current option "replace" (RESET) and
MODIFIED, and moves on to expect a value (state 2) or a list (state 3). -/
theorem C01_parse_eq (orc : Oracle) (m : PM) (f : Frame) (rest : List Frame) (r : OptRef) (o : Opt) (nl : Nat)
    (hrun : m.status = .running) (hfr : m.frames = f :: rest) (hst : f.state = .s1) (hopt : f.opt = some r)
    (hget : (f.cfg.setLine (f.cfg.line + nl)).getOpt r = some o) :
    ∃ f', (pstep orc m .eq nl).frames = f' :: rest ∧ (pstep orc m .eq nl).status = .running ∧
      f'.state = (if o.flags.list then .s3 else .s2) ∧
      f'.cfg = (f.cfg.setLine (f.cfg.line + nl)).setOpt r (o.setFlags { o.flags with reset := true, modified := true }) := by
  unfold pstep
  simp only [hrun, hfr]
  simp [hst, hopt, hget, step_s1]

/-- **the parser's `+=`**: only for lists; clears RESET so that the values which follow are appended
to whatever the option holds, defaults included. -/
theorem C01_parse_pluseq (orc : Oracle) (m : PM) (f : Frame) (rest : List Frame) (r : OptRef) (o : Opt) (nl : Nat)
    (hrun : m.status = .running) (hfr : m.frames = f :: rest) (hst : f.state = .s1) (hopt : f.opt = some r)
    (hget : (f.cfg.setLine (f.cfg.line + nl)).getOpt r = some o) (hlist : o.flags.list = true) :
    ∃ f', (pstep orc m .pluseq nl).frames = f' :: rest ∧ (pstep orc m .pluseq nl).status = .running ∧
      f'.state = .s3 ∧
      f'.cfg = (f.cfg.setLine (f.cfg.line + nl)).setOpt r (o.setFlags { o.flags with reset := false, modified := true }) := by
  unfold pstep
  simp only [hrun, hfr]
  simp [hst, hopt, hget, hlist, step_s1]

/-- `+=` on a non-list option is rejected with a diagnostic. -/
theorem C01_parse_pluseq_nonlist (orc : Oracle) (m : PM) (f : Frame) (rest : List Frame) (r : OptRef) (o : Opt) (nl : Nat)
    (hrun : m.status = .running) (hfr : m.frames = f :: rest) (hst : f.state = .s1) (hopt : f.opt = some r)
    (hget : (f.cfg.setLine (f.cfg.line + nl)).getOpt r = some o) (hlist : o.flags.list = false) :
    (pstep orc m .pluseq nl).status = .rejected ∧ (pstep orc m .pluseq nl).diags.length = m.diags.length + 1 := by
  unfold pstep
  simp only [hrun, hfr]
  simp [hst, hopt, hget, hlist, step_s1, PM.rejectWith, PM.reject, PM.addDiags, collapse]

end Confuse

namespace Confuse

/-! ## The nesting structure: frame locality and compositional evaluation -/

/-- **C01 (frame locality).** Whatever frames lie underneath the stack, a step of the token machine
does the same thing to the frames above them and leaves them untouched (`liftM` puts `rest`
underneath; for a machine that stopped it replays the unwinding through `rest`).  The only step
that looks at a lower frame is the `}` that closes the section of the lowest frame considered.  So
the parse of a section body — of any length and nesting — cannot read or change any enclosing
section. -/
theorem C01_frame_local (orc : Oracle) (m : PM) (f : Frame) (inner rest : List Frame) (tok : Tok) (nl : Nat)
    (hrun : m.status = .running) (hfr : m.frames = f :: inner) (hin : tok.inner = true)
    (hpop : ¬ (inner = [] ∧ f.state = .s0 ∧ tok = .rbrace)) :
    pstep orc (liftM m rest) tok nl = liftM (pstep orc m tok nl) rest :=
  pstep_lift orc m f inner rest tok nl hrun hfr hin hpop

/-- **C01 (the token machine computes the compositional meaning of the text).** For every item
list — assignments, braced lists, calls, comments, sections nested to any depth — on which the
compositional evaluation `evalItems` is defined, the explicit-stack machine run over the flattened
tokens, on top of any stack `rest`, ends exactly in the evaluation's result on top of `rest`.
`evalItems` evaluates a section body by a recursive call on a machine holding only the new
section's frame and re-attaches the result to the enclosing frame at the closing brace. -/
theorem C01_compositional (orc : Oracle) (items : List Item) (m r : PM) (rest : List Frame)
    (hev : evalItems orc m items = some r) (hlive : m.status = .running → ∃ f inner, m.frames = f :: inner) :
    parseToks orc (liftM m rest) (flats items) = liftM r rest :=
  (evalItems_sound orc items m r rest hev hlive).1

/-- the same from a stack of its own: the run of the machine *is* the compositional evaluation -/
theorem C01_compositional_top (orc : Oracle) (items : List Item) (m r : PM)
    (hev : evalItems orc m items = some r) (hrun : m.status = .running) (f : Frame) (hfr : m.frames = [f]) :
    parseToks orc m (flats items) = liftM r [] := by
  have := C01_compositional orc items m r [] hev (fun _ => ⟨f, [], hfr⟩)
  rwa [liftM_nil_running m hrun] at this

end Confuse

namespace Confuse

/-- **C01 (refinement, unconditional).** From an item boundary (a running machine whose stack is one
frame in state 0 — the start of a parse, or of any section body), for EVERY item list: the
compositional evaluation is defined (no guard fails: the brace structure of the grammar is the
brace accounting of the machine, also through skipped undeclared sections), the token machine on top
of any stack `rest` computes exactly its result, and the result is again at an item boundary — i.e.
a text made of well-formed items is either rejected inside an item or leaves the parser between
items, never in the middle of one. -/
theorem C01_refinement (orc : Oracle) (items : List Item) (m : PM) (f : Frame) (rest : List Frame)
    (hrun : m.status = .running) (hfr : m.frames = [f]) (hs : f.state = .s0) :
    ∃ r, evalItems orc m items = some r ∧
      parseToks orc (liftM m rest) (flats items) = liftM r rest ∧
      (r.status ≠ .running ∨ (r.status = .running ∧ ∃ f', r.frames = [f'] ∧ f'.state = .s0)) := by
  have hb : Bnd m := Or.inr ⟨hrun, f, hfr, hs⟩
  obtain ⟨r, hev, hbr⟩ := evalItems_total orc items m hb
  exact ⟨r, hev, (evalItems_sound orc items m r rest hev hb.live).1, hbr⟩

/-- **C01 (acceptance).** A whole text of well-formed items followed by end of input: the machine
reaches end of input in the result of the compositional evaluation, which — if no item was rejected —
is an item boundary, where end of input is legal at nesting level 0.  (`liftM r []` is `r` itself
when `r` is running; for a stopped `r` it is `r` with its frames unwound, which a later token never
looks at.) -/
theorem C01_items_then_eof (orc : Oracle) (items : List Item) (m : PM) (f : Frame) (n : Nat)
    (hrun : m.status = .running) (hfr : m.frames = [f]) (hs : f.state = .s0) :
    ∃ r, evalItems orc m items = some r ∧
      parseToks orc m (flats items ++ [(.eof, n)]) = pstep orc (liftM r []) .eof n ∧
      (r.status = .running → liftM r [] = r ∧ ∃ f', r.frames = [f'] ∧ f'.state = .s0) := by
  obtain ⟨r, hev, hrun', hb⟩ := C01_refinement orc items m f [] hrun hfr hs
  refine ⟨r, hev, ?_, ?_⟩
  · rw [liftM_nil_running m hrun] at hrun'
    rw [parseToks_append', hrun']
    rfl
  · intro hr
    rcases hb with hst | ⟨_, h⟩
    · exact absurd hr hst
    · exact ⟨liftM_nil_running r hr, h⟩

end Confuse

namespace Confuse
/-! ### non-vacuity: a nested text on which the compositional evaluation is defined -/

private def exDecls : List Decl :=
  [ .mk { name := [97], ty := .int, defInt := 5 } {} [],
    .mk { name := [108], ty := .int, defList := some [] } { list := true } [],
    .mk { name := [115], ty := .sec } { multi := true, title := true }
      [ .mk { name := [98], ty := .int, defInt := 7 } {} [],
        .mk { name := [117], ty := .sec } {} [ .mk { name := [99], ty := .int, defInt := 9 } {} [] ] ] ]
private def exM : PM := { frames := [{ cfg := cfgInit exDecls {} }], srcs := [] }
/-- `a = 1  l = {3, 4}  s "t" { b = 2  u { c = 6 } }` -/
private def exItems : List Item :=
  [ .assign [97] 0 false 0 [49] 1,
    .list [108] 0 false 0 0 [(0, [51], 0), (0, [52], 0)] 1,
    .sec [115] 0 (some ([116], 0)) 0
      [ .assign [98] 1 false 0 [50] 0,
        .sec [117] 1 none 0 [ .assign [99] 0 false 0 [54] 0 ] 1 ] 1 ]
private def exOrc : Oracle := fun _ _ => .ok
private def intsOf (o : Opt) : List Int := o.vals.filterMap (fun v => match v with | .int n => some n | _ => none)
private def secsOf (o : Opt) : List Cfg := o.vals.filterMap (fun v => match v with | .sec c => some c | _ => none)

example : (evalItems exOrc exM exItems).map (fun r => (r.status, r.frames.length, r.diags.length)) =
    some (.running, 1, 0) := by decide +kernel
example : (evalItems exOrc exM exItems).map (fun r => r.frames.map (fun f => f.cfg.opts.map intsOf)) =
    some [[[1], [3, 4], []]] := by decide +kernel
example : (evalItems exOrc exM exItems).map (fun r => r.frames.map (fun f => f.cfg.opts.map (fun o => (secsOf o).map (fun c => c.opts.map intsOf)))) =
    some [[[], [], [[[2], []]]]] := by decide +kernel
end Confuse
