import Confuse.Model.Globals
import Confuse.Driver
import Confuse.Lemmas.Path
/-!
# C08 — a parse depends only on its own input, not on earlier parses
-/
namespace Confuse

/-- **C08 (independence).** Whatever state an earlier call left the scanner in — inside a string,
inside a comment, after a bad escape, with any include depth or buffer stack — the outcome of a parse
(return code, tree, diagnostics, callbacks) is the one obtained from the pristine state. -/
theorem C08_independent (g : ScanG) (orc : Oracle) (pe : PEnv) (c : Cfg) (text : Bytes) :
    (parseFpG g orc pe c text).1 = (parseFpG {} orc pe c text).1 := by
  simp [parseFpG, scanBegin]

/-- ... and that outcome is `parseFp`, the history-free function all other theorems are about -/
theorem C08_is_parseFp (g : ScanG) (orc : Oracle) (pe : PEnv) (c : Cfg) (text : Bytes) :
    (parseFpG g orc pe c text).1 = parseFp orc pe c text := by
  simp [parseFpG, parseFp, scanBegin, parseLoop]

/-- **C08 (what a parse leaves behind).** After any parse — accepted, or aborted anywhere — the
include stack pointer and the buffer stack are as they were on entry and the scratch buffer is
released; only the start condition may differ, and `C08_independent` shows it is never read. -/
theorem C08_clean (g : ScanG) (orc : Oracle) (pe : PEnv) (c : Cfg) (text : Bytes) :
    (parseFpG g orc pe c text).2.incDepth = g.incDepth ∧ (parseFpG g orc pe c text).2.bufDepth = g.bufDepth ∧
    (parseFpG g orc pe c text).2.qbuf = false := by
  simp [parseFpG, scanBegin, scanEnd]

/-- histories: any sequence of parses threads the globals; the last result does not depend on the prefix -/
def runHistory (orc : Oracle) (pe : PEnv) (g : ScanG) : List (Cfg × Bytes) → ScanG
  | [] => g
  | (c, t) :: rest => runHistory orc pe (parseFpG g orc pe c t).2 rest

theorem C08_history (orc : Oracle) (pe : PEnv) (hist : List (Cfg × Bytes)) (c : Cfg) (probe : Bytes) :
    (parseFpG (runHistory orc pe {} hist) orc pe c probe).1 = (parseFpG {} orc pe c probe).1 :=
  C08_independent _ orc pe c probe

/-- and the bookkeeping part of the globals is restored after every history -/
theorem C08_history_clean (orc : Oracle) (pe : PEnv) (hist : List (Cfg × Bytes)) :
    (runHistory orc pe {} hist).incDepth = 0 ∧ (runHistory orc pe {} hist).bufDepth = 0 ∧ (runHistory orc pe {} hist).qbuf = false := by
  suffices ∀ g : ScanG, g.incDepth = 0 → g.bufDepth = 0 → g.qbuf = false →
      (runHistory orc pe g hist).incDepth = 0 ∧ (runHistory orc pe g hist).bufDepth = 0 ∧ (runHistory orc pe g hist).qbuf = false from
    this {} rfl rfl rfl
  induction hist with
  | nil => intro g h1 h2 h3; exact ⟨h1, h2, h3⟩
  | cons e es ih =>
    intro g h1 h2 h3
    obtain ⟨c, t⟩ := e
    simp only [runHistory]
    have := C08_clean g orc pe c t
    exact ih _ (by rw [this.1]; exact h1) (by rw [this.2.1]; exact h2) this.2.2

/-- **C08 (two live contexts never influence each other).** An operation addressed to one context
slot leaves every other slot exactly as it was. -/
theorem C08_frame (w : Driver.World) (i j : Nat) (x : Option Driver.Ctx) (h : i ≠ j) :
    Driver.getCtx (Driver.setCtx w i x) j = Driver.getCtx w j := by
  simp [Driver.getCtx, Driver.setCtx, listSet_get_ne _ _ _ _ h]

end Confuse
