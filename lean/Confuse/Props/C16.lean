import Confuse.Props.C08
/-!
# C16 — a context owns a private copy of its schema and shares nothing

In the functional model a context *is* a value, so "no aliasing" holds by construction; what is
stated here is the content that is not automatic: the copy is complete (every declared field of
every declaration at every depth arrives in the context, and in every section instance created at
any later time), and an update addressed to one section instance leaves its siblings untouched.
-/
namespace Confuse

/-- **C16 (the copy is complete).** Each option of a new context carries the declaration's name,
type, defaults, callbacks and the whole sub-declaration tree — whatever its flags. -/
theorem C16_dup_complete (ci : CfgInfo) (d : Decl) :
    (mkOpt ci d).info = d.info ∧ (mkOpt ci d).subs = d.subs := by
  obtain ⟨info, flags, subs⟩ := d
  unfold mkOpt
  simp only [Decl.info, Decl.subs]
  repeat' split
  all_goals simp [Opt.info, Opt.subs]

theorem C16_dup_order (ci : CfgInfo) (ds : List Decl) :
    (mkOpts ci ds).map (fun o => o.info.name) = ds.map (fun d => d.info.name) := by
  induction ds with
  | nil => simp [mkOpts]
  | cons d ds ih => simp [mkOpts, ih, (C16_dup_complete ci d).1]

/-- **C16 (later instances).** A section instance created at any later time is built from the
option's own copy of the sub-declarations: it has exactly the declared sub-options, in order, each
complete — the caller's arrays are not consulted. -/
theorem C16_late_instance (ci : CfgInfo) (o : Opt) (title : Option Bytes) :
    (mkSection ci o title).opts.map (fun x => x.info.name) = o.subs.map (fun d => d.info.name) ∧
    (mkSection ci o title).info.title = title ∧ (mkSection ci o title).info.name = o.name := by
  refine ⟨?_, rfl, rfl⟩
  simp [mkSection, Cfg.opts, C16_dup_order]

/-- and a sub-option of such an instance has its declared default (string case) -/
theorem C16_late_default (ci : CfgInfo) (info : OptInfo) (flags : Flags) (subs : List Decl)
    (hty : info.ty = .str) (hnd : flags.nodefault = false) (hl : flags.list = false) (hdl : info.defList = none) :
    (mkOpt ci (.mk info flags subs)).vals = [.str info.defStr] := by
  cases hs : info.simple <;> simp [mkOpt, hs, hty, hnd, hl, hdl, Opt.vals]

/-- **C16 (sibling instances share nothing).** An update through a reference that descends into
instance `i` of a section option leaves instance `j ≠ i` exactly as it was. -/
theorem C16_sibling_frame (g : Opt → Opt) (c : Cfg) (oi i j : Nat) (rest : List (Nat × Nat)) (leaf : Nat) (h : i ≠ j) :
    (updOptAt g c ((oi, i) :: rest) leaf).child oi j = c.child oi j := by
  simp only [updOptAt]
  cases hc : c.child oi i with
  | none => rfl
  | some s =>
    simp only []
    obtain ⟨info, opts⟩ := c
    unfold Cfg.child at hc
    simp only [Cfg.opts] at hc
    split at hc
    · rename_i o ho
      simp only [Cfg.setChild, Cfg.opts, ho, Cfg.child, Cfg.setOpts]
      rw [listSet_get _ _ _ (by simp [ho])]
      simp only [Opt.setVals, Opt.vals]
      rw [listSet_get_ne _ _ _ _ h]
    · simp at hc

/-- other options of the same context are untouched as well -/
theorem C16_other_option_frame (g : Opt → Opt) (c : Cfg) (leaf k : Nat) (h : leaf ≠ k) :
    (updOptAt g c [] leaf).opts[k]? = c.opts[k]? := by
  simp only [updOptAt]
  split
  · simp [Cfg.setOpts, Cfg.opts, listSet_get_ne _ _ _ _ h]
  · rfl

/-- **C16 (two contexts).** From C08: an operation addressed to one context slot leaves the other
slots untouched. -/
theorem C16_context_frame (w : Driver.World) (i j : Nat) (x : Option Driver.Ctx) (h : i ≠ j) :
    Driver.getCtx (Driver.setCtx w i x) j = Driver.getCtx w j := C08_frame w i j x h

end Confuse
