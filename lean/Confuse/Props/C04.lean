import Confuse.Lemmas.Num
/-!
# C04 — text-to-number/boolean conversion is exact or rejected
-/
namespace Confuse
open Confuse.Spec

/-- explicit radix (0x / 0b / leading 0) -/
theorem convInt_prefixed (base : Nat) (hb : base = 2 ∨ base = 8 ∨ base = 16) (ds : Bytes) :
    convIntWith base ds =
    (if (base == 8 || !ds.isEmpty) && allDigits base ds then
       (if longMin ≤ (digitsValue base ds : Int) ∧ (digitsValue base ds : Int) ≤ longMax then .ok (digitsValue base ds : Int) else .error .range)
     else .error .invalid) := by
  have hb0 : (base == 10) = false := by rcases hb with h | h | h <;> subst h <;> rfl
  unfold convIntWith
  cases ds with
  | nil =>
    rcases hb with h | h | h <;> subst h <;> rfl
  | cons c cs =>
    have hdo : digitsOk (c :: cs) base = allDigits base (c :: cs) := by
      simp [digitsOk, hb0, allDigits]
    rw [hdo]
    by_cases hall : allDigits base (c :: cs) = true
    · rw [strtol_digits base hb c cs hall]
      simp only [hall, Bool.not_true, Bool.false_eq_true, if_false, List.isEmpty_cons, Bool.not_false, Bool.or_true, Bool.and_self, if_true]
      by_cases hbig : digitsValue base (c :: cs) > 9223372036854775807
      · have : ¬ ((digitsValue base (c :: cs) : Int) ≤ longMax) := by unfold longMax; omega
        simp [hbig, this]
      · have h1 : (digitsValue base (c :: cs) : Int) ≤ longMax := by unfold longMax; omega
        have h2 : longMin ≤ (digitsValue base (c :: cs) : Int) := by unfold longMin; omega
        simp [hbig, h1, h2]
    · simp [hall]

theorem digitVal_lt10 (c : Nat) : (digitVal c < 10) ↔ isDec c = true := by
  unfold digitVal
  split
  · rename_i h; simp only [h, iff_true]; simp only [isDec, Bool.and_eq_true, decide_eq_true_eq] at h; omega
  · rename_i h
    split
    · rename_i ha
      simp only [isAlpha, isUpper, isLower, toLower, Bool.or_eq_true, Bool.and_eq_true, decide_eq_true_eq] at ha ⊢
      constructor
      · intro hl; split at hl <;> omega
      · intro hd; exact absurd hd h
    · simp [h]

theorem hexPrefix_false (base c : Nat) (cs : Bytes) (h : ∀ x t, c :: cs ≠ 48 :: x :: t) : hexPrefix base (c :: cs) = false := by
  unfold hexPrefix
  match cs with
  | [] => simp
  | [_] => simp
  | x :: y :: t =>
    have : c ≠ 48 := by intro e; subst e; exact h x (y :: t) rfl
    simp [this]

/-- signed decimal: `tok` = optional sign ++ `r` -/
theorem convInt_decimal (tok r : Bytes) (neg : Bool)
    (hsp : tok.dropWhile isSpaceC = tok) (hs : splitSign tok = (neg, r)) (htok : tok ≠ []) :
    convIntWith 10 tok =
    (if !r.isEmpty && allDigits 10 r then
       (let n : Int := if neg then -(digitsValue 10 r : Int) else (digitsValue 10 r : Int)
        if longMin ≤ n ∧ n ≤ longMax then .ok n else .error .range)
     else .error .invalid) := by
  unfold convIntWith
  cases r with
  | nil => simp [digitsOk, hs]
  | cons c cs =>
    by_cases hc : isDec c = true
    · have hdo : digitsOk tok 10 = true := by simp [digitsOk, hs, hc]
      have hst : strtolC tok 10 = strtolCore neg 10 tok (c :: cs) := by
        unfold strtolC
        rw [hsp, hs]
        simp [hexPrefix]
      simp only [hdo, Bool.not_true, Bool.false_eq_true, if_false, hst, List.isEmpty_cons, Bool.not_false, Bool.true_and]
      by_cases hall : allDigits 10 (c :: cs) = true
      · rw [strtolCore_all neg 10 tok (c :: cs) (by simp) hall]
        simp only [hall, if_true]
        cases neg
        · simp only [Bool.false_eq_true, if_false]
          by_cases hbig : digitsValue 10 (c :: cs) > 9223372036854775807
          · have : ¬ ((digitsValue 10 (c :: cs) : Int) ≤ longMax) := by unfold longMax; omega
            simp [hbig, this]
          · have h1 : (digitsValue 10 (c :: cs) : Int) ≤ longMax := by unfold longMax; omega
            have h2 : longMin ≤ (digitsValue 10 (c :: cs) : Int) := by unfold longMin; omega
            simp [hbig, h1, h2]
        · simp only [if_true]
          by_cases hbig : digitsValue 10 (c :: cs) > 9223372036854775808
          · have : ¬ (longMin ≤ -(digitsValue 10 (c :: cs) : Int)) := by unfold longMin; omega
            simp [hbig, this]
          · have h1 : -(digitsValue 10 (c :: cs) : Int) ≤ longMax := by unfold longMax; omega
            have h2 : longMin ≤ -(digitsValue 10 (c :: cs) : Int) := by unfold longMin; omega
            simp [hbig, h1, h2]
      · have hall' : allDigits 10 (c :: cs) = false := by simpa using hall
        have := strtolCore_rest neg 10 tok (c :: cs) htok hall'
        have hne : (strtolCore neg 10 tok (c :: cs)).rest.isEmpty = false := by
          cases hr : (strtolCore neg 10 tok (c :: cs)).rest with
          | nil => exact absurd hr this
          | cons _ _ => rfl
        simp [hall', hne]
    · have hdo : digitsOk tok 10 = false := by simp [digitsOk, hs, hc]
      have hall : allDigits 10 (c :: cs) = false := by
        have : ¬ digitVal c < 10 := by rw [digitVal_lt10]; exact hc
        simp [allDigits, this]
      simp [hdo, hall]

theorem C04_int_other (c : Nat) (cs : Bytes) (h48 : c ≠ 48) (h45 : c ≠ 45) (h43 : c ≠ 43) :
    convInt (c :: cs) = intExpected (c :: cs) := by
  have hr : radixOf (c :: cs) = (10, c :: cs) := by
    unfold radixOf; split <;> simp_all
  have hin : intNumeral (c :: cs) = (if !(c :: cs).isEmpty && allDigits 10 (c :: cs) then some (digitsValue 10 (c :: cs) : Int) else none) := by
    unfold intNumeral
    split <;> simp_all
  unfold convInt intExpected
  rw [hr, hin]
  have hss : splitSign (c :: cs) = (false, c :: cs) := by simp [splitSign, h45, h43]
  by_cases hd : isDec c = true
  · have hns : isSpaceC c = false := by
      simp only [isDec, Bool.and_eq_true, decide_eq_true_eq] at hd
      simp only [isSpaceC, Bool.or_eq_false_iff, Bool.and_eq_false_iff, decide_eq_false_iff_not, beq_eq_false_iff_ne, ne_eq]
      omega
    rw [convInt_decimal (c :: cs) (c :: cs) false (by simp [hns]) hss (by simp)]
    by_cases h : allDigits 10 (c :: cs) = true <;> simp [h]
  · have hdo : digitsOk (c :: cs) 10 = false := by simp [digitsOk, hss, hd]
    have hall : allDigits 10 (c :: cs) = false := by
      have : ¬ digitVal c < 10 := by rw [digitVal_lt10]; exact hd
      simp [allDigits, this]
    simp [convIntWith, hdo, hall]

/-- **C04 (integers).** For EVERY byte string the conversion answers exactly what the numeral grammar
says: the denoted number if it fits a `long`, a range error if it does not, and "invalid" for
everything that is not a numeral — no truncation, wrap-around or default.  (Until fix F36 a sign in
front of a radix prefix, `-010` / `+0x1f`, was read by `strtol` in base 0; the theorem then needed a
hypothesis excluding those tokens.) -/
theorem C04_int (tok : Bytes) : convInt tok = intExpected tok := by
  cases tok with
  | nil => rfl
  | cons c r =>
    by_cases h48 : c = 48
    · subst h48
      unfold convInt intExpected
      match r with
      | [] => rfl
      | 120 :: ds =>
        simp only [radixOf, intNumeral]
        rw [convInt_prefixed 16 (by simp) ds]
        by_cases h : (!ds.isEmpty && allDigits 16 ds) = true <;> simp [h]
      | 98 :: ds =>
        simp only [radixOf, intNumeral]
        rw [convInt_prefixed 2 (by simp) ds]
        by_cases h : (!ds.isEmpty && allDigits 2 ds) = true <;> simp [h]
      | x :: ds =>
        by_cases hx1 : x = 120
        · subst hx1
          simp only [radixOf, intNumeral]
          rw [convInt_prefixed 16 (by simp) ds]
          by_cases h : (!ds.isEmpty && allDigits 16 ds) = true <;> simp [h]
        · by_cases hx2 : x = 98
          · subst hx2
            simp only [radixOf, intNumeral]
            rw [convInt_prefixed 2 (by simp) ds]
            by_cases h : (!ds.isEmpty && allDigits 2 ds) = true <;> simp [h]
          · have hr : radixOf (48 :: x :: ds) = (8, x :: ds) := by
              unfold radixOf; split <;> simp_all
            have hin : intNumeral (48 :: x :: ds) = (if allDigits 8 (x :: ds) then some (digitsValue 8 (x :: ds) : Int) else none) := by
              unfold intNumeral
              split <;> simp_all
            rw [hr, hin, convInt_prefixed 8 (by simp) (x :: ds)]
            by_cases h : allDigits 8 (x :: ds) = true <;> simp [h]
    · by_cases h45 : c = 45
      · subst h45
        have := convInt_decimal (45 :: r) r true (by simp [isSpaceC]) (by simp [splitSign]) (by simp)
        unfold convInt intExpected
        simp only [radixOf, intNumeral]
        rw [this]
        by_cases h : (!r.isEmpty && allDigits 10 r) = true <;> simp [h]
      · by_cases h43 : c = 43
        · subst h43
          have := convInt_decimal (43 :: r) r false (by simp [isSpaceC]) (by simp [splitSign]) (by simp)
          unfold convInt intExpected
          simp only [radixOf, intNumeral]
          rw [this]
          by_cases h : (!r.isEmpty && allDigits 10 r) = true <;> simp [h]
        · exact C04_int_other c r h48 h45 h43

/-- **C04 (no silent wrap).** Whatever is accepted is inside the range of `long`. -/
theorem C04_int_range (tok : Bytes) (n : Int) (h : convInt tok = .ok n) :
    longMin ≤ n ∧ n ≤ longMax ∧ intNumeral tok = some n := by
  rw [C04_int tok] at h
  unfold intExpected at h
  cases hn : intNumeral tok with
  | none => simp [hn] at h
  | some m =>
    simp only [hn] at h
    split at h
    · rename_i hr
      injection h with h; subst h
      exact ⟨hr.1, hr.2, rfl⟩
    · simp at h

/-- **C04 (booleans).** Exactly the six words, in any letter case. -/
theorem C04_bool (tok : Bytes) : convBool tok = boolWord tok := by
  unfold convBool boolWord
  simp only [bytesOfString]
  by_cases h1 : lowerBytes tok = [116, 114, 117, 101] <;>
  by_cases h2 : lowerBytes tok = [111, 110] <;>
  by_cases h3 : lowerBytes tok = [121, 101, 115] <;>
  by_cases h4 : lowerBytes tok = [102, 97, 108, 115, 101] <;>
  by_cases h5 : lowerBytes tok = [111, 102, 102] <;>
  by_cases h6 : lowerBytes tok = [110, 111] <;> simp_all <;> decide

/-- **C04 (floats: full match, finite).** An accepted float token was consumed entirely, does not
begin with white space, and its value is a finite double (never inf/nan, never a range error). -/
theorem C04_float_accept (tok : Bytes) (b : Nat) (h : convFloat tok = .ok b) :
    (strtodC tok).rest = [] ∧ (strtodC tok).consumed = true ∧ (strtodC tok).erange = false ∧
    (∃ neg m e, (strtodC tok).val = .fin neg m e ∧ b = (Dbl.fin neg m e).toBits) ∧
    leadingSpace tok = false := by
  unfold convFloat at h
  by_cases h1 : (!(strtodC tok).rest.isEmpty || !(strtodC tok).consumed || leadingSpace tok) = true
  · simp [h1] at h
  · by_cases h2 : (strtodC tok).erange = true
    · simp [h1, h2] at h
    · by_cases h3 : (!(strtodC tok).val.isFinite) = true
      · simp [h1, h2, h3] at h
      · simp only [h1, h2, h3, if_false, Bool.false_eq_true] at h
        injection h with h
        simp only [Bool.or_eq_true, Bool.not_eq_true', not_or, Bool.not_eq_true] at h1
        refine ⟨by simpa using h1.1.1, by simpa using h1.1.2, by simpa using h2, ?_, h1.2⟩
        cases hv : (strtodC tok).val with
        | fin neg m e => exact ⟨neg, m, e, rfl, by rw [← h, hv]⟩
        | inf neg => simp [hv, Dbl.isFinite] at h3
        | nan => simp [hv, Dbl.isFinite] at h3

/-! Non-vacuity -/
example : convInt [48, 120, 49, 70] = .ok 31 := by decide
example : convInt [45, 48, 49, 48] = .ok (-10) ∧ convInt [43, 48, 120, 49, 102] = .error .invalid := by decide
example : intExpected [57,50,50,51,51,55,50,48,51,54,56,53,52,55,55,53,56,48,56] = .error .range := by decide
example : intExpected [45,57,50,50,51,51,55,50,48,51,54,56,53,52,55,55,53,56,48,56] = .ok longMin := by decide
example : intExpected [48, 120] = .error .invalid ∧ intExpected [48, 56] = .error .invalid := by decide

end Confuse
