import Confuse.Props.C05F
import Confuse.Props.C05N
import Confuse.Props.C03
/-!
# C05 — the printed text of a flat configuration scans to the tokens of its options (byte level)
-/
namespace Confuse

/-- tokens that carry the text on: everything but end of input and scanner errors -/
def Tok.goesOn : Tok → Bool
  | .eof => false
  | .err _ => false
  | _ => true

/-- repeated scanner calls (each started with a line count of 0, as the parse loop does): the tokens found, and what is
left of the input -/
inductive LexSteps (env : Env) : Bytes → List (Tok × Nat) → Bytes → Prop
  | nil (inp : Bytes) : LexSteps env inp [] inp
  | cons (inp : Bytes) (t : Tok) (nl : Nat) (rest : Bytes) (ts : List (Tok × Nat)) (out : Bytes) :
      lexInitial env 0 inp = ⟨t, nl, rest⟩ → t.goesOn = true → LexSteps env rest ts out → LexSteps env inp ((t, nl) :: ts) out

theorem LexSteps.append {env : Env} {a b c : Bytes} {t1 t2 : List (Tok × Nat)} (h1 : LexSteps env a t1 b) (h2 : LexSteps env b t2 c) :
    LexSteps env a (t1 ++ t2) c := by
  induction h1 with
  | nil _ => exact h2
  | cons inp t nl rest ts out hl hg _ ih => exact LexSteps.cons inp t nl rest _ _ hl hg (ih h2)

theorem LexSteps.one {env : Env} {inp rest : Bytes} {t : Tok} {nl : Nat} (h : lexInitial env 0 inp = ⟨t, nl, rest⟩) (hg : t.goesOn = true) :
    LexSteps env inp [(t, nl)] rest := LexSteps.cons inp t nl rest [] rest h hg (LexSteps.nil rest)

/-! ### single tokens -/

theorem lex_sp (env : Env) (nl : Nat) (rest : Bytes) : lexInitial env nl (c_sp :: rest) = lexInitial env nl rest := by
  simp [lexInitial]
theorem lex_nl (env : Env) (nl : Nat) (rest : Bytes) : lexInitial env nl (c_nl :: rest) = lexInitial env (nl + 1) rest := by
  simp [lexInitial]
theorem lex_eq (env : Env) (nl : Nat) (rest : Bytes) : lexInitial env nl (c_eq :: rest) = ⟨.eq, nl, rest⟩ := by
  simp [lexInitial]
theorem lex_lbr (env : Env) (nl : Nat) (rest : Bytes) : lexInitial env nl (c_lbr :: rest) = ⟨.lbrace, nl, rest⟩ := by
  simp [lexInitial]
theorem lex_rbr (env : Env) (nl : Nat) (rest : Bytes) : lexInitial env nl (c_rbr :: rest) = ⟨.rbrace, nl, rest⟩ := by
  simp [lexInitial]
theorem lex_comma (env : Env) (nl : Nat) (rest : Bytes) : lexInitial env nl (c_comma :: rest) = ⟨.comma, nl, rest⟩ := by
  simp [lexInitial]

/-! ### a printed value, up to its delimiter -/

theorem decDigits_word (n : Nat) : ∃ c cs, decDigits n = c :: cs ∧ isWordByte c = true ∧ cs.all isWordByte = true ∧
    c ≠ c_slash ∧ c ≠ c_dollar ∧ (∀ x ∈ c :: cs, x ≠ 0) := by
  obtain ⟨h1, _, c, cs, h3, _, _, _⟩ := decDigits_spec n
  have hall : ∀ x ∈ decDigits n, isDec x = true := by
    intro x hx
    have : digitVal x < 10 := by
      simp only [Spec.allDigits, List.all_eq_true, decide_eq_true_eq] at h1
      exact h1 x hx
    exact (digitVal_lt10 x).mp this
  have hw : ∀ x, isDec x = true → isWordByte x = true ∧ x ≠ c_slash ∧ x ≠ c_dollar ∧ x ≠ 0 := by
    intro x hx
    simp only [isDec, Bool.and_eq_true, decide_eq_true_eq] at hx
    refine ⟨?_, by omega, by omega, by omega⟩
    simp only [isWordByte, Bool.not_eq_true', Bool.or_eq_false_iff, beq_eq_false_iff_ne, ne_eq]
    omega
  rw [h3] at hall
  refine ⟨c, cs, h3, (hw c (hall c (by simp))).1, ?_, (hw c (hall c (by simp))).2.1, (hw c (hall c (by simp))).2.2.1, ?_⟩
  · rw [List.all_eq_true]; intro x hx; exact (hw x (hall x (by simp [hx]))).1
  · intro x hx; exact (hw x (hall x hx)).2.2.2

/-- a word made of word bytes (first one neither `/` nor `$`), without NUL, before a delimiter -/
theorem lex_word (env : Env) (c : Nat) (cs : Bytes) (d : Nat) (rest : Bytes) (nl : Nat)
    (hc : isWordByte c = true) (hcs : cs.all isWordByte = true) (hd : isWordByte d = false)
    (h1 : c ≠ c_slash) (h2 : c ≠ c_dollar) (h0 : ∀ x ∈ c :: cs, x ≠ 0) :
    lexInitial env nl (c :: cs ++ d :: rest) = ⟨.str (c :: cs), nl, d :: rest⟩ := by
  have := C03_unquoted_verbatim env c cs d rest nl hc hcs hd (fun h => absurd h h1) (fun h => absurd h h2)
  rw [cstr_noNul _ h0] at this
  exact this

def isDelim (d : Nat) : Prop := d = c_nl ∨ d = c_comma ∨ d = c_rbr

theorem delim_notWord (d : Nat) (h : isDelim d) : isWordByte d = false := by
  rcases h with rfl | rfl | rfl <;> decide

/-- **a printed value scans back to its text**, whatever delimiter of a printed configuration follows it -/
theorem lex_value (env : Env) (ty : Ty) (v : Val) (t : Bytes) (d : Nat) (rest : Bytes) (nl : Nat)
    (hg : goodCell ty v = true) (ht : valText v = some t) (hd : isDelim d) :
    ∃ nl', lexInitial env nl (nprintVar ty (some v) ++ d :: rest) = ⟨.str t, nl', d :: rest⟩ := by
  have hdw := delim_notWord d hd
  cases v with
  | int n =>
    simp only [goodCell, Bool.and_eq_true, beq_iff_eq, decide_eq_true_eq] at hg
    obtain ⟨⟨hty, _⟩, _⟩ := hg
    subst hty
    simp only [valText, Option.some.injEq] at ht
    subst ht
    simp only [nprintVar]
    obtain ⟨c, cs, h3, hc, hcs, h1, h2, h0⟩ := decDigits_word n.natAbs
    refine ⟨nl, ?_⟩
    unfold printInt
    by_cases hneg : n < 0
    · simp only [hneg, if_true]
      rw [h3]
      have := lex_word env c_minus (c :: cs) d rest nl (by decide) (by simp [hc, hcs]) hdw (by decide) (by decide)
        (by intro x hx; simp only [List.mem_cons] at hx; rcases hx with rfl | hx
            · decide
            · exact h0 x (by simpa using hx))
      simpa using this
    · simp only [hneg, if_false]
      rw [h3]
      exact lex_word env c cs d rest nl hc hcs hdw h1 h2 h0
  | bool b =>
    simp only [goodCell, beq_iff_eq] at hg
    subst hg
    simp only [valText, Option.some.injEq] at ht
    subst ht
    refine ⟨nl, ?_⟩
    cases b
    · simp only [nprintVar, Bool.false_eq_true, if_false, bFalse]
      exact lex_word env 102 [97, 108, 115, 101] d rest nl (by decide) (by decide) hdw (by decide) (by decide) (by decide)
    · simp only [nprintVar, if_true, bTrue]
      exact lex_word env 116 [114, 117, 101] d rest nl (by decide) (by decide) hdw (by decide) (by decide) (by decide)
  | str s =>
    cases s with
    | none => simp [goodCell] at hg
    | some s =>
      simp only [goodCell, Bool.and_eq_true, beq_iff_eq, List.all_eq_true, bne_iff_ne, ne_eq] at hg
      obtain ⟨hty, h0⟩ := hg
      subst hty
      simp only [valText, Option.some.injEq] at ht
      subst ht
      exact ⟨_, by simpa [nprintVar] using C05_str env s (d :: rest) nl h0⟩
  | flt b => simp [goodCell] at hg
  | ptr p => simp [goodCell] at hg
  | sec c => simp [goodCell] at hg

/-! ### a printed option -/

/-- an option whose printed form the flat round trip covers -/
structure Printable (o : Opt) : Prop where
  ty : o.ty = .int ∨ o.ty = .bool ∨ o.ty = .str
  noPrintCb : o.info.printCb = false
  noComment : o.comment = none
  name0 : ∀ c ∈ o.name, c ≠ 0
  cells : ∀ v ∈ o.vals, goodCell o.ty v = true
  scalar1 : o.flags.list = false → ∃ v, o.vals = [v]

theorem goodCell_text (ty : Ty) (v : Val) (h : goodCell ty v = true) : ∃ t, valText v = some t := by
  obtain ⟨t, ht, _⟩ := convTok_valText ty v h
  exact ⟨t, ht⟩

/-- the text of a scalar option -/
theorem print_scalar (o : Opt) (v : Val) (hp : Printable o) (hl : o.flags.list = false) (hv : o.vals = [v]) :
    printOpt none 0 o = printName o.name ++ [c_eq] ++ nprintVar o.ty (some v) ++ [c_nl] := by
  obtain ⟨info, fl, subs, vals, cm⟩ := o
  have hg := hp.cells v (by rw [hv]; simp)
  simp only [Opt.ty, Opt.info, Opt.flags, Opt.vals, Opt.comment, Opt.name] at hp hl hv hg ⊢
  have hnc := hp.noComment
  have hpc := hp.noPrintCb
  simp only [Opt.comment, Opt.info] at hnc hpc
  subst hnc; subst hv
  have hty := hp.ty
  simp only [Opt.ty, Opt.info] at hty
  have hunset : isUnset (Opt.mk info fl subs [v] none) = false := by
    cases v <;> simp [isUnset, Opt.vals, Opt.ty, Opt.info, goodCell] at hg ⊢
    rename_i s; cases s <;> simp [goodCell] at hg ⊢
  rcases hty with h | h | h <;>
    simp [printOpt, h, hl, hpc, hunset, indentBytes, printValue, Opt.info, Opt.ty, Opt.vals, Opt.name]

/-- **a printed scalar option scans to its three tokens** and leaves the line's newline -/
theorem lex_lead (env : Env) (k : Nat) (Y : Bytes) : lexInitial env 0 (List.replicate k c_nl ++ Y) = lexInitial env k Y := by
  have : ∀ (k n : Nat), lexInitial env n (List.replicate k c_nl ++ Y) = lexInitial env (n + k) Y := by
    intro k
    induction k with
    | zero => intro n; rfl
    | succ j ih => intro n; simp only [List.replicate_succ, List.cons_append, lex_nl]; rw [ih]; congr 1; omega
  simpa using this k 0

theorem lex_scalar (env : Env) (o : Opt) (v : Val) (k : Nat) (rest : Bytes) (hp : Printable o) (hl : o.flags.list = false) (hv : o.vals = [v]) :
    ∃ ts, OptToks o ts ∧ LexSteps env (List.replicate k c_nl ++ (printOpt none 0 o ++ rest)) ts (c_nl :: rest) := by
  have hg := hp.cells v (by rw [hv]; simp)
  obtain ⟨t, ht⟩ := goodCell_text o.ty v hg
  rw [print_scalar o v hp hl hv]
  obtain ⟨n1, e1⟩ := C05_name env o.name (nprintVar o.ty (some v) ++ c_nl :: rest) c_eq k hp.name0 (Or.inr rfl)
  rw [← lex_lead] at e1
  obtain ⟨n3, e3⟩ := lex_value env o.ty v t c_nl rest 0 hg ht (Or.inl rfl)
  refine ⟨[(.str o.name, n1), (.eq, 0), (.str t, n3)], OptToks.scalar o v t n1 0 n3 hl hv ht hg, ?_⟩
  have a1 : printName o.name ++ [c_eq] ++ nprintVar o.ty (some v) ++ [c_nl] ++ rest =
      printName o.name ++ c_eq :: (nprintVar o.ty (some v) ++ c_nl :: rest) := by simp
  rw [a1]
  refine LexSteps.cons _ _ _ _ _ _ e1 rfl ?_
  refine LexSteps.cons _ _ _ _ _ _ (lex_eq env 0 _) rfl ?_
  exact LexSteps.one e3 rfl

/-! ### a printed list option -/

/-- the printed values of a list, separated by `, ` -/
def joinVals (ty : Ty) : List Val → Bool → Bytes
  | [], _ => []
  | v :: vs, first => (if first then [] else [c_comma, c_sp]) ++ nprintVar ty (some v) ++ joinVals ty vs false

theorem joinValues_eq (o : Opt) (hpc : o.info.printCb = false) : ∀ (rem : List Val) (i : Nat), o.vals.drop i = rem →
    joinValues o rem.length i = joinVals o.ty rem (i == 0) := by
  intro rem
  induction rem with
  | nil => intro i _; rfl
  | cons v vs ih =>
    intro i hd
    have hi : o.vals[i]? = some v := by
      have := congrArg List.head? hd
      simpa [List.head?_drop] using this
    have hd' : o.vals.drop (i + 1) = vs := by
      have := congrArg List.tail hd
      simpa [List.tail_drop] using this
    simp only [List.length_cons, joinValues, joinVals, printValue, hpc, Bool.false_eq_true, if_false, hi]
    rw [ih (i + 1) hd']
    simp

/-- the values after the first: `, v` repeated, up to the closing brace -/
theorem lex_joinVals_tail (env : Env) (ty : Ty) (rest : Bytes) : ∀ (vs : List Val), (∀ v ∈ vs, goodCell ty v = true) →
    ∃ seq : List (Nat × Bytes × Nat), seq.length = vs.length ∧
      (∀ i (h1 : i < seq.length) (h2 : i < vs.length), valText vs[i] = some seq[i].2.1 ∧ goodCell ty vs[i] = true) ∧
      LexSteps env (joinVals ty vs false ++ c_rbr :: rest) (flatSeq false seq) (c_rbr :: rest) := by
  intro vs
  induction vs with
  | nil => intro _; exact ⟨[], rfl, fun i h1 _ => absurd h1 (by simp), LexSteps.nil _⟩
  | cons v vs ih =>
    intro hall
    have hg := hall v (by simp)
    obtain ⟨t, ht⟩ := goodCell_text ty v hg
    obtain ⟨seq, hlen, hsv, hsteps⟩ := ih (fun x hx => hall x (by simp [hx]))
    -- the delimiter after this value: `,` if more follow, else `}`
    have hdl : ∃ d tail, joinVals ty vs false ++ c_rbr :: rest = d :: tail ∧ isDelim d := by
      cases vs with
      | nil => exact ⟨c_rbr, rest, rfl, Or.inr (Or.inr rfl)⟩
      | cons w ws => exact ⟨c_comma, c_sp :: (nprintVar ty (some w) ++ (joinVals ty ws false ++ c_rbr :: rest)), by simp [joinVals], Or.inr (Or.inl rfl)⟩
    obtain ⟨d, tail, hdt, hd⟩ := hdl
    obtain ⟨n, e⟩ := lex_value env ty v t d tail 0 hg ht hd
    refine ⟨(0, t, n) :: seq, by simp [hlen], ?_, ?_⟩
    · intro i h1 h2
      cases i with
      | zero => exact ⟨by simpa using ht, by simpa using hg⟩
      | succ j =>
        have := hsv j (by simpa using h1) (by simpa using h2)
        simpa using this
    · simp only [joinVals, Bool.false_eq_true, if_false, flatSeq, List.cons_append, List.nil_append, List.append_assoc]
      refine LexSteps.cons _ _ _ _ _ _ (lex_comma env 0 _) rfl ?_
      refine LexSteps.cons _ .(Tok.str t) n (d :: tail) _ _ ?_ rfl ?_
      · rw [lex_sp, hdt]; exact e
      · rw [← hdt]; exact hsteps

/-- the text of a list option -/
theorem print_list (o : Opt) (hp : Printable o) (hl : o.flags.list = true) :
    printOpt none 0 o = printName o.name ++ [c_sp, c_eq, c_sp, c_lbr] ++ joinVals o.ty o.vals true ++ [c_rbr] ++ [c_nl] := by
  have hj := joinValues_eq o hp.noPrintCb o.vals 0 (by simp)
  obtain ⟨info, fl, subs, vals, cm⟩ := o
  simp only [Opt.ty, Opt.info, Opt.flags, Opt.vals, Opt.comment, Opt.name] at hp hl hj ⊢
  have hnc := hp.noComment
  have hpc := hp.noPrintCb
  simp only [Opt.comment, Opt.info] at hnc hpc
  subst hnc
  have hty := hp.ty
  simp only [Opt.ty, Opt.info] at hty
  rcases hty with h | h | h <;>
    simp [printOpt, h, hl, hpc, indentBytes, Opt.info, Opt.ty, Opt.vals, Opt.name, hj]

/-- **a printed list option scans to its tokens** and leaves the line's newline -/
theorem lex_list (env : Env) (o : Opt) (k : Nat) (rest : Bytes) (hp : Printable o) (hl : o.flags.list = true) :
    ∃ ts, OptToks o ts ∧ LexSteps env (List.replicate k c_nl ++ (printOpt none 0 o ++ rest)) ts (c_nl :: rest) := by
  rw [print_list o hp hl]
  obtain ⟨n1, e1⟩ := C05_name env o.name ([c_eq, c_sp, c_lbr] ++ joinVals o.ty o.vals true ++ [c_rbr] ++ [c_nl] ++ rest) c_sp k hp.name0 (Or.inl rfl)
  rw [← lex_lead] at e1
  have a1 : printName o.name ++ [c_sp, c_eq, c_sp, c_lbr] ++ joinVals o.ty o.vals true ++ [c_rbr] ++ [c_nl] ++ rest =
      printName o.name ++ c_sp :: ([c_eq, c_sp, c_lbr] ++ joinVals o.ty o.vals true ++ [c_rbr] ++ [c_nl] ++ rest) := by simp
  rw [a1]
  cases hv : o.vals with
  | nil =>
    rw [hv] at e1
    refine ⟨[(.str o.name, n1), (.eq, 0), (.lbrace, 0), (.rbrace, 0)], OptToks.listNil o n1 0 0 0 hl hv, ?_⟩
    refine LexSteps.cons _ _ _ _ _ _ e1 rfl ?_
    simp only [joinVals, List.append_nil, List.cons_append, List.nil_append]
    refine LexSteps.cons _ .eq 0 _ _ _ (by rw [lex_sp, lex_eq]) rfl ?_
    refine LexSteps.cons _ .lbrace 0 _ _ _ (by rw [lex_sp, lex_lbr]) rfl ?_
    exact LexSteps.one (lex_rbr env 0 _) rfl
  | cons v0 vs =>
    rw [hv] at e1
    have hg0 := hp.cells v0 (by rw [hv]; simp)
    obtain ⟨t0, ht0⟩ := goodCell_text o.ty v0 hg0
    obtain ⟨seq, hlen, hsv, hsteps⟩ := lex_joinVals_tail env o.ty ([c_nl] ++ rest) vs (fun x hx => hp.cells x (by rw [hv]; simp [hx]))
    have hdl : ∃ d tail, joinVals o.ty vs false ++ c_rbr :: ([c_nl] ++ rest) = d :: tail ∧ isDelim d := by
      cases vs with
      | nil => exact ⟨c_rbr, [c_nl] ++ rest, rfl, Or.inr (Or.inr rfl)⟩
      | cons w ws => exact ⟨c_comma, c_sp :: (nprintVar o.ty (some w) ++ (joinVals o.ty ws false ++ c_rbr :: ([c_nl] ++ rest))), by simp [joinVals], Or.inr (Or.inl rfl)⟩
    obtain ⟨d, tail, hdt, hd⟩ := hdl
    obtain ⟨n0, e0⟩ := lex_value env o.ty v0 t0 d tail 0 hg0 ht0 hd
    refine ⟨[(.str o.name, n1), (.eq, 0), (.lbrace, 0)] ++ flatSeq true ((0, t0, n0) :: seq) ++ [(.rbrace, 0)],
      OptToks.listCons o v0 t0 vs seq n1 0 0 0 n0 0 hl hv ht0 hg0 hlen hsv, ?_⟩
    refine LexSteps.cons _ _ _ _ _ _ e1 rfl ?_
    simp only [joinVals, if_true, List.nil_append, List.cons_append, List.append_assoc, flatSeq]
    refine LexSteps.cons _ .eq 0 _ _ _ (by rw [lex_sp, lex_eq]) rfl ?_
    refine LexSteps.cons _ .lbrace 0 _ _ _ (by rw [lex_sp, lex_lbr]) rfl ?_
    have hdt' : joinVals o.ty vs false ++ (c_rbr :: c_nl :: rest) = d :: tail := by simpa using hdt
    refine LexSteps.cons _ (.str t0) n0 (d :: tail) _ _ (by rw [hdt']; exact e0) rfl ?_
    rw [← hdt']
    refine LexSteps.append (by simpa using hsteps) ?_
    exact LexSteps.one (lex_rbr env 0 _) rfl

/-- a printed option scans to its tokens (scalar or list), after any number of newlines, and leaves one newline -/
theorem lex_opt (env : Env) (o : Opt) (k : Nat) (rest : Bytes) (hp : Printable o) :
    ∃ ts, OptToks o ts ∧ LexSteps env (List.replicate k c_nl ++ (printOpt none 0 o ++ rest)) ts (List.replicate 1 c_nl ++ rest) := by
  by_cases hl : o.flags.list = true
  · exact lex_list env o k rest hp hl
  · have hl' : o.flags.list = false := by simpa using hl
    obtain ⟨v, hv⟩ := hp.scalar1 hl'
    exact lex_scalar env o v k rest hp hl' hv

/-- **the printed text of a flat configuration scans to the tokens of its options**, one option after the other -/
theorem lex_opts (env : Env) : ∀ (os : List Opt) (k : Nat) (rest : Bytes), (∀ o ∈ os, Printable o) →
    ∃ ts k', FlatToks os ts ∧ LexSteps env (List.replicate k c_nl ++ (printOpts none 0 os ++ rest)) ts (List.replicate k' c_nl ++ rest) := by
  intro os
  induction os with
  | nil => intro k rest _; exact ⟨[], k, FlatToks.nil, by simpa [printOpts] using LexSteps.nil _⟩
  | cons o os ih =>
    intro k rest hall
    obtain ⟨ts1, h1, s1⟩ := lex_opt env o k (printOpts none 0 os ++ rest) (hall o (by simp))
    obtain ⟨ts2, k', h2, s2⟩ := ih 1 rest (fun x hx => hall x (by simp [hx]))
    refine ⟨ts1 ++ ts2, k', FlatToks.cons o os ts1 ts2 h1 h2, ?_⟩
    have e : printOpts none 0 (o :: os) ++ rest = printOpt none 0 o ++ (printOpts none 0 os ++ rest) := by
      simp [printOpts, hides]
    rw [e]
    exact LexSteps.append s1 s2

end Confuse
