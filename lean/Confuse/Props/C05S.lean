import Confuse.Props.C05L
import Confuse.Props.C01
/-!
# C05 — one printed section instance, token level

`name { <flat body> }` for an untitled multi section: the tokens of a printed instance, fed to the machine at an item
boundary of a context with the same declarations, append one instance to the section option, and that instance holds
exactly the printed values (the body by `flat_steps`, run in the frame the opening brace pushes).
-/
namespace Confuse

/-- `cfg_setopt` on an untitled multi section option: one more instance, built from the option's own declarations -/
theorem setopt_new_untitled (orc : Oracle) (k : Nat) (ci : CfgInfo) (o : Opt) (ho : secOpt o) (hm : o.flags.multi = true)
    (ht : o.flags.title = false) :
    setopt orc k ci o none =
      ⟨Opt.mk o.info { o.flags with modified := true } o.subs (o.vals ++ [.sec (mkSection ci o none)]) o.comment, some o.vals.length, [], []⟩ := by
  unfold setopt
  rw [setoptConvert_sec orc k o none ho.1]
  obtain ⟨i, f, s, vs, c⟩ := o
  have h1 := ho.1; have h2 := ho.2
  simp_all [dropDefaults, setoptStore, Opt.ty, Opt.info, Opt.vals, Opt.flags, Opt.subs, Opt.comment, mkSection, Opt.name]

/-- the name token of an item whose name resolves silently to an untitled section option -/
theorem pstep_name_sec (orc : Oracle) (m : PM) (f : Frame) (rest : List Frame) (name : Bytes) (n1 : Nat) (r : OptRef) (o : Opt)
    (hrun : m.status = .running) (hfr : m.frames = f :: rest) (hst : f.state = .s0)
    (hnd : noPendingDeprecated f)
    (hres : (getoptPath f.cfg name).ref = some r) (hsil : (getoptPath f.cfg name).diags = [])
    (hget : f.cfg.getOpt r = some o) (hty : o.ty = .sec) (hnt : o.flags.title = false) :
    pstep orc m (.str name) n1 =
      { m with frames := { f with cfg := f.cfg.setLine (f.cfg.line + n1), opt := some r, state := .s5 } :: rest } := by
  have hnd' := noPending_setLine f (f.cfg.line + n1) hnd
  obtain ⟨cfg, level, state, opt, comment, opttitle, funcargs, ignore, depth, numValues, back⟩ := f
  simp only at hst hres hsil hget hnd'
  subst hst
  unfold pstep
  simp only [hrun, hfr]
  simp only [step_s0]
  rw [handleDeprecated_id _ _ hnd']
  simp only [getoptPath_setLine, hres, hsil, addDiags_nil, getOpt_setLine, hget]
  simp [hty, hnt]

/-- the instance the opening brace creates, as the child frame sees it: the option's declarations instantiated, at the
enclosing context's line and under its file name -/
def newInstance (pc : Cfg) (o : Opt) : Cfg :=
  let S := mkSection pc.info o none
  S.setInfo { S.info with line := pc.line,
                          filename := (match pc.info.filename with | some n => some n | none => S.info.filename) }

/-- the section option after one more instance was appended -/
def Opt.withInstance (o : Opt) (s : Cfg) : Opt :=
  Opt.mk o.info { o.flags with modified := true } o.subs (o.vals ++ [.sec s]) o.comment

/-- `{` after the name of an untitled multi section: a new instance is appended and a frame for it pushed -/
theorem pstep_lbrace_sec (orc : Oracle) (m : PM) (f : Frame) (rest : List Frame) (n : Nat) (r : OptRef) (o : Opt)
    (hrun : m.status = .running) (hfr : m.frames = f :: rest) (hst : f.state = .s5) (hopt : f.opt = some r) (hot : f.opttitle = none)
    (hget : f.cfg.getOpt r = some o) (ho : secOpt o) (hm : o.flags.multi = true) (ht : o.flags.title = false) :
    pstep orc m .lbrace n =
      { m with frames :=
          { cfg := newInstance ((f.cfg.setLine (f.cfg.line + n)).setOpt r (o.withInstance (mkSection (f.cfg.setLine (f.cfg.line + n)).info o none))) o,
            level := f.level + 1, back := some (r, o.vals.length) } ::
          { f with cfg := (f.cfg.setLine (f.cfg.line + n)).setOpt r (o.withInstance (mkSection (f.cfg.setLine (f.cfg.line + n)).info o none)),
                   opttitle := none } :: rest,
               maxDepth := max m.maxDepth (rest.length + 2) } := by
  obtain ⟨cfg, level, state, opt, comment, opttitle, funcargs, ignore, depth, numValues, back⟩ := f
  simp only at hst hopt hget hot
  subst hst; subst hopt; subst hot
  unfold pstep
  simp only [hrun, hfr]
  simp only [step_s5, getOpt_setLine, Option.bind, hget, PM.k]
  rw [setopt_new_untitled orc _ _ o ho hm ht]
  simp [PM.addCalls, PM.addDiags, newInstance, Opt.withInstance, Opt.vals, setOpt_info, Cfg.line]
  rfl

theorem getOpt_afterSection (c s : Cfg) (r : OptRef) : (c.afterSection s).getOpt r = c.getOpt r := by
  obtain ⟨i, o⟩ := c
  obtain ⟨steps, leaf⟩ := r
  cases steps <;> rfl

/-- `}` at an item boundary of a section's frame: the instance is written back into the enclosing frame, which goes on
at an item boundary, at the section's line -/
theorem pstep_rbrace_pop (orc : Oracle) (m : PM) (ch p : Frame) (rest : List Frame) (n : Nat) (r : OptRef) (i : Nat) (op : Opt)
    (hrun : m.status = .running) (hfr : m.frames = ch :: p :: rest) (hst : ch.state = .s0) (hlev : ch.level ≠ 0)
    (hnd : noPendingDeprecated ch) (hback : ch.back = some (r, i))
    (hpo : p.opt = some r) (hget : p.cfg.getOpt r = some op) (hvc : op.info.validCb = false) :
    pstep orc m .rbrace n =
      { m with frames :=
          { p with cfg := (p.cfg.setOpt r (op.setVals (listSet op.vals i (.sec (ch.cfg.setLine (ch.cfg.line + n)))))).afterSection
                            (ch.cfg.setLine (ch.cfg.line + n)),
                   state := .s0 } :: rest } := by
  have hnd' := noPending_setLine ch (ch.cfg.line + n) hnd
  obtain ⟨cfg, level, state, opt, comment, opttitle, funcargs, ignore, depth, numValues, back⟩ := ch
  simp only at hst hlev hback hnd'
  subst hst; subst hback
  unfold pstep
  simp only [hrun, hfr]
  simp only [step_s0]
  rw [handleDeprecated_id _ _ hnd']
  have hl : (level == 0) = false := by simpa using hlev
  simp only [hl, Bool.false_eq_true, if_false, writeBack, hget]
  have hg2 : ((p.cfg.setOpt r (op.setVals (listSet op.vals i (.sec (cfg.setLine (cfg.line + n)))))).afterSection (cfg.setLine (cfg.line + n))).getOpt r =
      some (op.setVals (listSet op.vals i (.sec (cfg.setLine (cfg.line + n))))) := by
    rw [getOpt_afterSection]; exact getOpt_setOpt _ r op _ hget
  have hvc2 : (op.setVals (listSet op.vals i (.sec (cfg.setLine (cfg.line + n))))).info.validCb = false := by cases op; exact hvc
  simp [runValid, hpo, hg2, hvc2]

/-- an untitled multi section option the section round trip covers (declaration side) -/
structure SecDecl (o : Opt) : Prop where
  sec : secOpt o
  multi : o.flags.multi = true
  notitle : o.flags.title = false
  noValid : o.info.validCb = false
  notDep : o.flags.deprecated = false
  name : plainName o.name

theorem listSet_append_length {α} (l : List α) (x y : α) : listSet (l ++ [x]) l.length y = l ++ [y] := by
  induction l with
  | nil => rfl
  | cons a as ih => simp [listSet, ih]

theorem newInstance_opts (pc : Cfg) (o : Opt) : (newInstance pc o).opts = (mkSection pc.info o none).opts := by
  unfold newInstance; cases mkSection pc.info o none; rfl

theorem newInstance_nocase (pc : Cfg) (o : Opt) : (newInstance pc o).flags.nocase = pc.flags.nocase := by
  unfold newInstance mkSection sectionInfo; rfl

/-- **one printed section instance.** From an item boundary of a frame whose option list is `pre ++ o0 :: post`, with `o0`
an untitled multi section option (no earlier option of that name), the tokens `name { body }` - `body` the tokens of a
printed flat instance `c` whose options are the declared counterparts of `o0`'s sub-options - leave the machine at an
item boundary of the same frame, with ONE MORE instance appended to that section option: an instance holding, option
by option, exactly `c`'s values.  Everything else is as it was. -/
theorem C05_section_item (orc : Oracle) (m : PM) (f : Frame) (rest : List Frame) (o0 : Opt) (pre post : List Opt) (c : Cfg)
    (body : List (Tok × Nat)) (n1 n2 n3 : Nat)
    (hrun : m.status = .running) (hfr : m.frames = f :: rest) (hat : AtItem f) (hot : f.opttitle = none)
    (hopts : f.cfg.opts = pre ++ o0 :: post)
    (hpre : ∀ p ∈ pre, titleEq f.cfg.flags.nocase p.name o0.name = false)
    (hd : SecDecl o0) (hbody : FlatToks c.opts body)
    (hal : ∀ ci, All2 Aligned c.opts (mkSection ci o0 none).opts)
    (hpw : List.Pairwise (fun a b => titleEq f.cfg.flags.nocase a.name b.name = false) c.opts) :
    ∃ f' res s', parseToks orc m ([(.str o0.name, n1), (.lbrace, n2)] ++ body ++ [(.rbrace, n3)]) =
        { m with frames := f' :: rest, maxDepth := max m.maxDepth (rest.length + 2) } ∧
      AtItem f' ∧ f'.opttitle = none ∧ f'.level = f.level ∧ f'.back = f.back ∧
      f'.cfg.opts = pre ++ res :: post ∧ f'.cfg.flags = f.cfg.flags ∧
      res.vals = o0.vals ++ [.sec s'] ∧ res.info = o0.info ∧ res.flags.deprecated = false ∧
      All2 (fun r o => r.vals = o.vals) s'.opts c.opts := by
  let r : OptRef := ⟨[], pre.length⟩
  have hlook := getoptPath_top f.cfg o0.name pre o0 post hd.name hopts hpre (titleEq_refl _ _)
  have hget := getOpt_top f.cfg pre o0 post hopts
  let mk : Frame → PM := fun F => { m with frames := F :: rest }
  let F1 : Frame := { f with cfg := f.cfg.setLine (f.cfg.line + n1), opt := some r, state := .s5 }
  have e1 : pstep orc m (.str o0.name) n1 = mk F1 :=
    pstep_name_sec orc m f rest o0.name n1 r o0 hrun hfr hat.st hat.nd hlook.1 hlook.2 hget hd.sec.1 hd.notitle
  have g1 : F1.cfg.getOpt r = some o0 := by show (f.cfg.setLine _).getOpt r = some o0; rw [getOpt_setLine]; exact hget
  let S := mkSection (F1.cfg.setLine (F1.cfg.line + n2)).info o0 none
  let P : Cfg := (F1.cfg.setLine (F1.cfg.line + n2)).setOpt r (o0.withInstance S)
  let child : Frame := { cfg := newInstance P o0, level := f.level + 1, back := some (r, o0.vals.length) }
  let F2 : Frame := { F1 with cfg := P, opttitle := none }
  let m2 : PM := { m with frames := child :: F2 :: rest, maxDepth := max m.maxDepth (rest.length + 2) }
  have e2 : pstep orc (mk F1) .lbrace n2 = m2 := by
    have := pstep_lbrace_sec orc (mk F1) F1 rest n2 r o0 hrun rfl rfl rfl hot g1 hd.sec hd.multi hd.notitle
    rw [this]
  have hPflags : P.flags = f.cfg.flags := by
    show ((F1.cfg.setLine _).setOpt r _).flags = f.cfg.flags
    rw [setOpt_flags]
    have : ∀ (c : Cfg) (n : Nat), (c.setLine n).flags = c.flags := by intro c n; cases c; rfl
    rw [this, this]
  have hchild_nc : child.cfg.flags.nocase = f.cfg.flags.nocase := by
    show (newInstance P o0).flags.nocase = _
    rw [newInstance_nocase, hPflags]
  obtain ⟨ch', done, e3, hat3, hlev3, hbk3, hopts3, _, _, hv3, _⟩ :=
    flat_steps orc c.opts (mkSection P.info o0 none).opts body m2 child (F2 :: rest) [] hbody (hal _) hrun rfl
      ⟨rfl, rfl, by intro r' o' hr' _; cases hr'⟩
      (by show (newInstance P o0).opts = [] ++ _; rw [newInstance_opts]; rfl)
      (by intro p hp; cases hp) (by rw [hchild_nc]; exact hpw)
  have gP : F2.cfg.getOpt r = some (o0.withInstance S) := getOpt_setOpt _ r o0 _ (by rw [getOpt_setLine]; exact g1)
  have e4 := pstep_rbrace_pop orc { m2 with frames := ch' :: F2 :: rest } ch' F2 rest n3 r o0.vals.length (o0.withInstance S)
    hrun rfl hat3.st (by rw [hlev3]; exact Nat.succ_ne_zero _) hat3.nd (by rw [hbk3]) rfl gP (by cases o0; exact hd.noValid)
  let chL := ch'.cfg.setLine (ch'.cfg.line + n3)
  let res : Opt := (o0.withInstance S).setVals (listSet (o0.withInstance S).vals o0.vals.length (.sec chL))
  refine ⟨{ F2 with cfg := (F2.cfg.setOpt r res).afterSection chL, state := .s0 }, res, chL, ?_, ⟨rfl, hat.cm, ?_⟩, rfl, rfl, rfl, ?_, ?_, ?_, ?_, ?_, ?_⟩
  · simp only [parseToks, List.foldl_append, List.foldl]
    rw [e1, e2]
    have e3' : List.foldl (fun m (t : Tok × Nat) => pstep orc m t.1 t.2) m2 body = { m2 with frames := ch' :: F2 :: rest } := e3
    rw [e3', e4]
  · intro r' o' hr' ho'
    simp only at hr' ho'
    injection hr' with hr'; subst hr'
    rw [getOpt_afterSection, getOpt_setOpt _ _ _ _ gP] at ho'
    injection ho' with ho'; subst ho'
    cases o0; exact hd.notDep
  · simp only [Cfg.afterSection_opts]
    exact setOpt_top _ pre (o0.withInstance S) res post (by
      show ((F1.cfg.setLine _).setOpt r (o0.withInstance S)).opts = _
      exact setOpt_top _ pre o0 _ post (by simp only [opts_setLine]; exact hopts))
  · simp only [Cfg.afterSection_flags, setOpt_flags]; exact hPflags
  · show (listSet ((o0.withInstance S).vals) o0.vals.length (.sec chL)) = _
    show listSet (o0.vals ++ [.sec S]) o0.vals.length (.sec chL) = _
    exact listSet_append_length _ _ _
  · cases o0; rfl
  · cases o0; exact hd.notDep
  · show All2 _ (ch'.cfg.setLine _).opts c.opts
    simp only [opts_setLine, hopts3, List.nil_append]
    exact hv3

/-- non-vacuity: the section `n { z = 5 }` of a schema `n` (multi) with one integer option `z` meets the premises -/
example :
    let o0 : Opt := Opt.mk { name := [110], ty := .sec } { multi := true } [Decl.mk { name := [122], ty := .int } {} []] [] none
    let c : Cfg := Cfg.mk { name := [110] } [Opt.mk { name := [122], ty := .int } {} [] [.int 5] none]
    SecDecl o0 ∧ (∀ ci, All2 Aligned c.opts (mkSection ci o0 none).opts) ∧
      FlatToks c.opts [(.str [122], 0), (.eq, 0), (.str (printInt 5), 0)] := by
  intro o0 c
  refine ⟨⟨⟨rfl, rfl⟩, rfl, rfl, rfl, rfl, ⟨by decide, by decide⟩⟩, ?_, ?_⟩
  · intro ci
    have hn : (mkOpt (sectionInfo ci o0.name o0.flags none) (Decl.mk { name := [122], ty := .int } {} [])).name = [122] := rfl
    refine All2.cons ⟨rfl, rfl, rfl, ⟨Or.inl rfl, rfl, rfl, rfl, rfl, ?_, rfl⟩⟩ All2.nil
    rw [hn]; exact ⟨by decide, by decide⟩
  · have h := FlatToks.cons (Opt.mk { name := [122], ty := .int } {} [] [.int 5] none) [] _ []
      (OptToks.scalar _ (.int 5) (printInt 5) 0 0 0 rfl rfl rfl (by decide)) FlatToks.nil
    exact h

end Confuse
