import Confuse.Props.C05L
import Confuse.Props.C01
/-!
# C05 — one printed section instance, token level

`name { <flat body> }` for an untitled multi section: the tokens of a printed instance, fed to the machine at an item
boundary of a context with the same declarations, append one instance to the section option, and that instance holds
exactly the printed values (the body by `flat_steps`, run in the frame the opening brace pushes).
-/
namespace Confuse

/-- `cfg_setopt` on an untitled multi section option: one more instance, built from the option's own declarations -/
theorem setopt_new_untitled (orc : Oracle) (k : Nat) (ci : CfgInfo) (o : Opt) (ho : secOpt o) (hm : o.flags.multi = true)
    (ht : o.flags.title = false) :
    setopt orc k ci o none =
      ⟨Opt.mk o.info { o.flags with modified := true } o.subs (o.vals ++ [.sec (mkSection ci o none)]) o.comment, some o.vals.length, [], []⟩ := by
  unfold setopt
  rw [setoptConvert_sec orc k o none ho.1]
  obtain ⟨i, f, s, vs, c⟩ := o
  have h1 := ho.1; have h2 := ho.2
  simp_all [dropDefaults, setoptStore, Opt.ty, Opt.info, Opt.vals, Opt.flags, Opt.subs, Opt.comment, mkSection, Opt.name]

/-- the name token of an item whose name resolves silently to an untitled section option -/
theorem pstep_name_sec (orc : Oracle) (m : PM) (f : Frame) (rest : List Frame) (name : Bytes) (n1 : Nat) (r : OptRef) (o : Opt)
    (hrun : m.status = .running) (hfr : m.frames = f :: rest) (hst : f.state = .s0)
    (hnd : noPendingDeprecated f)
    (hres : (getoptPath f.cfg name).ref = some r) (hsil : (getoptPath f.cfg name).diags = [])
    (hget : f.cfg.getOpt r = some o) (hty : o.ty = .sec) (hnt : o.flags.title = false) :
    pstep orc m (.str name) n1 =
      { m with frames := { f with cfg := f.cfg.setLine (f.cfg.line + n1), opt := some r, state := .s5 } :: rest } := by
  have hnd' := noPending_setLine f (f.cfg.line + n1) hnd
  obtain ⟨cfg, level, state, opt, comment, opttitle, funcargs, ignore, depth, numValues, back⟩ := f
  simp only at hst hres hsil hget hnd'
  subst hst
  unfold pstep
  simp only [hrun, hfr]
  simp only [step_s0]
  rw [handleDeprecated_id _ _ hnd']
  simp only [getoptPath_setLine, hres, hsil, addDiags_nil, getOpt_setLine, hget]
  simp [hty, hnt]

/-- the instance the opening brace creates, as the child frame sees it: the option's declarations instantiated, at the
enclosing context's line and under its file name -/
def newInstance (pc : Cfg) (o : Opt) : Cfg :=
  let S := mkSection pc.info o none
  S.setInfo { S.info with line := pc.line,
                          filename := (match pc.info.filename with | some n => some n | none => S.info.filename) }

/-- the section option after one more instance was appended -/
def Opt.withInstance (o : Opt) (s : Cfg) : Opt :=
  Opt.mk o.info { o.flags with modified := true } o.subs (o.vals ++ [.sec s]) o.comment

/-- `{` after the name of an untitled multi section: a new instance is appended and a frame for it pushed -/
theorem pstep_lbrace_sec (orc : Oracle) (m : PM) (f : Frame) (rest : List Frame) (n : Nat) (r : OptRef) (o : Opt)
    (hrun : m.status = .running) (hfr : m.frames = f :: rest) (hst : f.state = .s5) (hopt : f.opt = some r) (hot : f.opttitle = none)
    (hget : f.cfg.getOpt r = some o) (ho : secOpt o) (hm : o.flags.multi = true) (ht : o.flags.title = false) :
    pstep orc m .lbrace n =
      { m with frames :=
          { cfg := newInstance ((f.cfg.setLine (f.cfg.line + n)).setOpt r (o.withInstance (mkSection (f.cfg.setLine (f.cfg.line + n)).info o none))) o,
            level := f.level + 1, back := some (r, o.vals.length) } ::
          { f with cfg := (f.cfg.setLine (f.cfg.line + n)).setOpt r (o.withInstance (mkSection (f.cfg.setLine (f.cfg.line + n)).info o none)),
                   opttitle := none } :: rest,
               maxDepth := max m.maxDepth (rest.length + 2) } := by
  obtain ⟨cfg, level, state, opt, comment, opttitle, funcargs, ignore, depth, numValues, back⟩ := f
  simp only at hst hopt hget hot
  subst hst; subst hopt; subst hot
  unfold pstep
  simp only [hrun, hfr]
  simp only [step_s5, getOpt_setLine, Option.bind, hget, PM.k]
  rw [setopt_new_untitled orc _ _ o ho hm ht]
  simp [PM.addCalls, PM.addDiags, newInstance, Opt.withInstance, Opt.vals, setOpt_info, Cfg.line]
  rfl

theorem getOpt_afterSection (c s : Cfg) (r : OptRef) : (c.afterSection s).getOpt r = c.getOpt r := by
  obtain ⟨i, o⟩ := c
  obtain ⟨steps, leaf⟩ := r
  cases steps <;> rfl

/-- `}` at an item boundary of a section's frame: the instance is written back into the enclosing frame, which goes on
at an item boundary, at the section's line -/
theorem pstep_rbrace_pop (orc : Oracle) (m : PM) (ch p : Frame) (rest : List Frame) (n : Nat) (r : OptRef) (i : Nat) (op : Opt)
    (hrun : m.status = .running) (hfr : m.frames = ch :: p :: rest) (hst : ch.state = .s0) (hlev : ch.level ≠ 0)
    (hnd : noPendingDeprecated ch) (hback : ch.back = some (r, i))
    (hpo : p.opt = some r) (hget : p.cfg.getOpt r = some op) (hvc : op.info.validCb = false) :
    pstep orc m .rbrace n =
      { m with frames :=
          { p with cfg := (p.cfg.setOpt r (op.setVals (listSet op.vals i (.sec (ch.cfg.setLine (ch.cfg.line + n)))))).afterSection
                            (ch.cfg.setLine (ch.cfg.line + n)),
                   state := .s0 } :: rest } := by
  have hnd' := noPending_setLine ch (ch.cfg.line + n) hnd
  obtain ⟨cfg, level, state, opt, comment, opttitle, funcargs, ignore, depth, numValues, back⟩ := ch
  simp only at hst hlev hback hnd'
  subst hst; subst hback
  unfold pstep
  simp only [hrun, hfr]
  simp only [step_s0]
  rw [handleDeprecated_id _ _ hnd']
  have hl : (level == 0) = false := by simpa using hlev
  simp only [hl, Bool.false_eq_true, if_false, writeBack, hget]
  have hg2 : ((p.cfg.setOpt r (op.setVals (listSet op.vals i (.sec (cfg.setLine (cfg.line + n)))))).afterSection (cfg.setLine (cfg.line + n))).getOpt r =
      some (op.setVals (listSet op.vals i (.sec (cfg.setLine (cfg.line + n))))) := by
    rw [getOpt_afterSection]; exact getOpt_setOpt _ r op _ hget
  have hvc2 : (op.setVals (listSet op.vals i (.sec (cfg.setLine (cfg.line + n))))).info.validCb = false := by cases op; exact hvc
  simp [runValid, hpo, hg2, hvc2]

/-- an untitled multi section option the section round trip covers (declaration side) -/
structure SecDecl (o : Opt) : Prop where
  sec : secOpt o
  multi : o.flags.multi = true
  notitle : o.flags.title = false
  noValid : o.info.validCb = false
  notDep : o.flags.deprecated = false
  name : plainName o.name

theorem listSet_append_length {α} (l : List α) (x y : α) : listSet (l ++ [x]) l.length y = l ++ [y] := by
  induction l with
  | nil => rfl
  | cons a as ih => simp [listSet, ih]

theorem newInstance_opts (pc : Cfg) (o : Opt) : (newInstance pc o).opts = (mkSection pc.info o none).opts := by
  unfold newInstance; cases mkSection pc.info o none; rfl

theorem newInstance_nocase (pc : Cfg) (o : Opt) : (newInstance pc o).flags.nocase = pc.flags.nocase := by
  unfold newInstance mkSection sectionInfo; rfl

/-- **one printed section instance.** From an item boundary of a frame whose option list is `pre ++ o0 :: post`, with `o0`
an untitled multi section option (no earlier option of that name), the tokens `name { body }` - `body` the tokens of a
printed flat instance `c` whose options are the declared counterparts of `o0`'s sub-options - leave the machine at an
item boundary of the same frame, with ONE MORE instance appended to that section option: an instance holding, option
by option, exactly `c`'s values.  Everything else is as it was. -/
theorem C05_section_item (orc : Oracle) (m : PM) (f : Frame) (rest : List Frame) (o0 : Opt) (pre post : List Opt) (c : Cfg)
    (body : List (Tok × Nat)) (n1 n2 n3 : Nat)
    (hrun : m.status = .running) (hfr : m.frames = f :: rest) (hat : AtItem f) (hot : f.opttitle = none)
    (hopts : f.cfg.opts = pre ++ o0 :: post)
    (hpre : ∀ p ∈ pre, titleEq f.cfg.flags.nocase p.name o0.name = false)
    (hd : SecDecl o0) (hbody : FlatToks c.opts body)
    (hal : ∀ ci, All2 Aligned c.opts (mkSection ci o0 none).opts)
    (hpw : List.Pairwise (fun a b => titleEq f.cfg.flags.nocase a.name b.name = false) c.opts) :
    ∃ f' res s', parseToks orc m ([(.str o0.name, n1), (.lbrace, n2)] ++ body ++ [(.rbrace, n3)]) =
        { m with frames := f' :: rest, maxDepth := max m.maxDepth (rest.length + 2) } ∧
      AtItem f' ∧ f'.opttitle = none ∧ f'.level = f.level ∧ f'.back = f.back ∧
      f'.cfg.opts = pre ++ res :: post ∧ f'.cfg.flags = f.cfg.flags ∧
      res = Opt.mk o0.info { o0.flags with modified := true } o0.subs (o0.vals ++ [.sec s']) o0.comment ∧
      All2 (fun r o => r.vals = o.vals) s'.opts c.opts := by
  let r : OptRef := ⟨[], pre.length⟩
  have hlook := getoptPath_top f.cfg o0.name pre o0 post hd.name hopts hpre (titleEq_refl _ _)
  have hget := getOpt_top f.cfg pre o0 post hopts
  let mk : Frame → PM := fun F => { m with frames := F :: rest }
  let F1 : Frame := { f with cfg := f.cfg.setLine (f.cfg.line + n1), opt := some r, state := .s5 }
  have e1 : pstep orc m (.str o0.name) n1 = mk F1 :=
    pstep_name_sec orc m f rest o0.name n1 r o0 hrun hfr hat.st hat.nd hlook.1 hlook.2 hget hd.sec.1 hd.notitle
  have g1 : F1.cfg.getOpt r = some o0 := by show (f.cfg.setLine _).getOpt r = some o0; rw [getOpt_setLine]; exact hget
  let S := mkSection (F1.cfg.setLine (F1.cfg.line + n2)).info o0 none
  let P : Cfg := (F1.cfg.setLine (F1.cfg.line + n2)).setOpt r (o0.withInstance S)
  let child : Frame := { cfg := newInstance P o0, level := f.level + 1, back := some (r, o0.vals.length) }
  let F2 : Frame := { F1 with cfg := P, opttitle := none }
  let m2 : PM := { m with frames := child :: F2 :: rest, maxDepth := max m.maxDepth (rest.length + 2) }
  have e2 : pstep orc (mk F1) .lbrace n2 = m2 := by
    have := pstep_lbrace_sec orc (mk F1) F1 rest n2 r o0 hrun rfl rfl rfl hot g1 hd.sec hd.multi hd.notitle
    rw [this]
  have hPflags : P.flags = f.cfg.flags := by
    show ((F1.cfg.setLine _).setOpt r _).flags = f.cfg.flags
    rw [setOpt_flags]
    have : ∀ (c : Cfg) (n : Nat), (c.setLine n).flags = c.flags := by intro c n; cases c; rfl
    rw [this, this]
  have hchild_nc : child.cfg.flags.nocase = f.cfg.flags.nocase := by
    show (newInstance P o0).flags.nocase = _
    rw [newInstance_nocase, hPflags]
  obtain ⟨ch', done, e3, hat3, hlev3, hbk3, _, hopts3, _, _, hv3, _⟩ :=
    flat_steps orc c.opts (mkSection P.info o0 none).opts body m2 child (F2 :: rest) [] hbody (hal _) hrun rfl
      ⟨rfl, rfl, by intro r' o' hr' _; cases hr'⟩
      (by show (newInstance P o0).opts = [] ++ _; rw [newInstance_opts]; rfl)
      (by intro p hp; cases hp) (by rw [hchild_nc]; exact hpw)
  have gP : F2.cfg.getOpt r = some (o0.withInstance S) := getOpt_setOpt _ r o0 _ (by rw [getOpt_setLine]; exact g1)
  have e4 := pstep_rbrace_pop orc { m2 with frames := ch' :: F2 :: rest } ch' F2 rest n3 r o0.vals.length (o0.withInstance S)
    hrun rfl hat3.st (by rw [hlev3]; exact Nat.succ_ne_zero _) hat3.nd (by rw [hbk3]) rfl gP (by cases o0; exact hd.noValid)
  let chL := ch'.cfg.setLine (ch'.cfg.line + n3)
  let res : Opt := (o0.withInstance S).setVals (listSet (o0.withInstance S).vals o0.vals.length (.sec chL))
  refine ⟨{ F2 with cfg := (F2.cfg.setOpt r res).afterSection chL, state := .s0 }, res, chL, ?_, ⟨rfl, hat.cm, ?_⟩, rfl, rfl, rfl, ?_, ?_, ?_, ?_⟩
  · simp only [parseToks, List.foldl_append, List.foldl]
    rw [e1, e2]
    have e3' : List.foldl (fun m (t : Tok × Nat) => pstep orc m t.1 t.2) m2 body = { m2 with frames := ch' :: F2 :: rest } := e3
    rw [e3', e4]
  · intro r' o' hr' ho'
    simp only at hr' ho'
    injection hr' with hr'; subst hr'
    rw [getOpt_afterSection, getOpt_setOpt _ _ _ _ gP] at ho'
    injection ho' with ho'; subst ho'
    cases o0; exact hd.notDep
  · simp only [Cfg.afterSection_opts]
    exact setOpt_top _ pre (o0.withInstance S) res post (by
      show ((F1.cfg.setLine _).setOpt r (o0.withInstance S)).opts = _
      exact setOpt_top _ pre o0 _ post (by simp only [opts_setLine]; exact hopts))
  · simp only [Cfg.afterSection_flags, setOpt_flags]; exact hPflags
  · show (o0.withInstance S).setVals (listSet (o0.vals ++ [.sec S]) o0.vals.length (.sec chL)) = _
    rw [listSet_append_length]
    cases o0; rfl
  · show All2 _ (ch'.cfg.setLine _).opts c.opts
    simp only [opts_setLine, hopts3, List.nil_append]
    exact hv3

/-- the section option after more instances were appended -/
def Opt.withInstances (o : Opt) (ss : List Cfg) : Opt :=
  Opt.mk o.info { o.flags with modified := true } o.subs (o.vals ++ ss.map Val.sec) o.comment

theorem mkSection_congr (ci : CfgInfo) (o o' : Opt) (hn : o'.name = o.name) (hk : o'.flags.keystrval = o.flags.keystrval) (hs : o'.subs = o.subs) :
    mkSection ci o' none = mkSection ci o none := by
  unfold mkSection sectionInfo
  rw [hn, hk, hs]

theorem secDecl_withInstances (o : Opt) (ss : List Cfg) (hd : SecDecl o) : SecDecl (o.withInstances ss) := by
  obtain ⟨⟨h1, h2⟩, h3, h4, h5, h6, h7⟩ := hd
  cases o
  exact ⟨⟨h1, h2⟩, h3, h4, h5, h6, h7⟩

/-- the tokens of the printed instances of ONE untitled multi section option, in order -/
inductive InstToks (name : Bytes) : List Cfg → List (Tok × Nat) → Prop
  | nil : InstToks name [] []
  | cons (c : Cfg) (cs : List Cfg) (body ts : List (Tok × Nat)) (n1 n2 n3 : Nat) :
      FlatToks c.opts body → InstToks name cs ts →
      InstToks name (c :: cs) ([(.str name, n1), (.lbrace, n2)] ++ body ++ [(.rbrace, n3)] ++ ts)

theorem withInstances_withInstances (o : Opt) (s : Cfg) (ss : List Cfg) :
    (Opt.mk o.info { o.flags with modified := true } o.subs (o.vals ++ [.sec s]) o.comment).withInstances ss = o.withInstances (s :: ss) := by
  cases o
  simp [Opt.withInstances, Opt.info, Opt.flags, Opt.subs, Opt.vals, Opt.comment, List.append_assoc]

/-- **all printed instances of one section option.** `name { … } name { … } …` (at least one) appends, in order, one
instance per printed instance, each holding exactly the printed values. -/
theorem inst_steps (orc : Oracle) : ∀ (cs : List Cfg) (c : Cfg) (ts : List (Tok × Nat)) (m : PM) (f : Frame) (rest : List Frame) (o0 : Opt) (pre post : List Opt),
    InstToks o0.name (c :: cs) ts →
    m.status = .running → m.frames = f :: rest → AtItem f → f.opttitle = none →
    f.cfg.opts = pre ++ o0 :: post →
    (∀ p ∈ pre, titleEq f.cfg.flags.nocase p.name o0.name = false) →
    SecDecl o0 →
    (∀ x ∈ c :: cs, (∀ ci, All2 Aligned x.opts (mkSection ci o0 none).opts) ∧
               List.Pairwise (fun a b => titleEq f.cfg.flags.nocase a.name b.name = false) x.opts) →
    ∃ f' ss md, parseToks orc m ts = { m with frames := f' :: rest, maxDepth := md } ∧
      AtItem f' ∧ f'.opttitle = none ∧ f'.level = f.level ∧ f'.back = f.back ∧
      f'.cfg.opts = pre ++ (o0.withInstances ss) :: post ∧ f'.cfg.flags = f.cfg.flags ∧
      All2 (fun s' x => All2 (fun r o => r.vals = o.vals) s'.opts x.opts) ss (c :: cs) := by
  intro cs
  induction cs with
  | nil =>
    intro c ts m f rest o0 pre post hts hrun hfr hat hot hopts hpre hd hall
    cases hts with
    | cons _ _ body ts' n1 n2 n3 hb hrest =>
      cases hrest
      obtain ⟨hal, hpw⟩ := hall c (by simp)
      obtain ⟨f', res, s', e, hat', hot', hlev', hbk', hopts', hfl', hres, hv⟩ :=
        C05_section_item orc m f rest o0 pre post c body n1 n2 n3 hrun hfr hat hot hopts hpre hd hb hal hpw
      refine ⟨f', [s'], max m.maxDepth (rest.length + 2), ?_, hat', hot', hlev', hbk', ?_, hfl', All2.cons hv All2.nil⟩
      · simpa using e
      · rw [hopts', hres]; rfl
  | cons c2 cs ih =>
    intro c ts m f rest o0 pre post hts hrun hfr hat hot hopts hpre hd hall
    cases hts with
    | cons _ _ body ts' n1 n2 n3 hb hrest =>
      obtain ⟨hal, hpw⟩ := hall c (by simp)
      obtain ⟨f1, res, s', e1, hat1, hot1, hlev1, hbk1, hopts1, hfl1, hres, hv⟩ :=
        C05_section_item orc m f rest o0 pre post c body n1 n2 n3 hrun hfr hat hot hopts hpre hd hb hal hpw
      have hname : res.name = o0.name := by rw [hres]; rfl
      have hd1 : SecDecl res := by
        rw [hres]
        obtain ⟨⟨h1, h2⟩, h3, h4, h5, h6, h7⟩ := hd
        cases o0
        exact ⟨⟨h1, h2⟩, h3, h4, h5, h6, h7⟩
      have hmk : ∀ ci, mkSection ci res none = mkSection ci o0 none := by
        intro ci
        apply mkSection_congr
        · exact hname
        · rw [hres]; cases o0; rfl
        · rw [hres]; cases o0; rfl
      obtain ⟨f2, ss, md, e2, hat2, hot2, hlev2, hbk2, hopts2, hfl2, hv2⟩ :=
        ih c2 ts' { m with frames := f1 :: rest, maxDepth := max m.maxDepth (rest.length + 2) } f1 rest res pre post
          (by rw [hname]; exact hrest) hrun rfl hat1 hot1 hopts1
          (by rw [hfl1, hname]; exact hpre) hd1
          (by
            intro x hx
            obtain ⟨h1, h2⟩ := hall x (by simp [List.mem_cons] at hx ⊢; rcases hx with h | h <;> simp [h])
            exact ⟨fun ci => by rw [hmk]; exact h1 ci, by rw [hfl1]; exact h2⟩)
      refine ⟨f2, s' :: ss, md, ?_, hat2, hot2, by rw [hlev2, hlev1], by rw [hbk2, hbk1], ?_, by rw [hfl2, hfl1], All2.cons hv hv2⟩
      · have : ([(Tok.str o0.name, n1), (Tok.lbrace, n2)] ++ body ++ [(Tok.rbrace, n3)] ++ ts') =
            ([(Tok.str o0.name, n1), (Tok.lbrace, n2)] ++ body ++ [(Tok.rbrace, n3)]) ++ ts' := by simp
        rw [this, parseToks_append, e1, e2]
      · rw [hopts2, hres, withInstances_withInstances]

/-! ## a single (non-multi) section: the instance `cfg_init` created is entered again -/

/-- `cfg_setopt` on a single section option that has its instance: the instance stays, the option is marked set -/
theorem setopt_single (orc : Oracle) (k : Nat) (ci : CfgInfo) (o : Opt) (s : Cfg) (ho : secOpt o) (hm : o.flags.multi = false)
    (hl : o.flags.list = false) (hv : o.vals = [.sec s]) :
    setopt orc k ci o none = ⟨Opt.mk o.info { o.flags with modified := true } o.subs [.sec s] o.comment, some 0, [], []⟩ := by
  unfold setopt
  rw [setoptConvert_sec orc k o none ho.1]
  obtain ⟨inf, f, sb, vs, cm⟩ := o
  have h1 := ho.1; have h2 := ho.2
  simp_all [dropDefaults, setoptStore, Opt.ty, Opt.info, Opt.vals, Opt.flags, Opt.subs, Opt.comment, listSet]

/-- the existing instance as the child frame sees it: at the enclosing context's line and under its file name -/
def enterInstance (pc s : Cfg) : Cfg :=
  s.setInfo { s.info with line := pc.line,
                          filename := (match pc.info.filename with | some n => some n | none => s.info.filename) }

theorem enterInstance_opts (pc s : Cfg) : (enterInstance pc s).opts = s.opts := by
  unfold enterInstance; cases s; rfl

theorem enterInstance_flags (pc s : Cfg) : (enterInstance pc s).flags = s.flags := by
  unfold enterInstance; cases s; rfl

/-- `{` after the name of a single section: a frame for its one instance is pushed -/
theorem pstep_lbrace_single (orc : Oracle) (m : PM) (f : Frame) (rest : List Frame) (n : Nat) (r : OptRef) (o : Opt) (s : Cfg)
    (hrun : m.status = .running) (hfr : m.frames = f :: rest) (hst : f.state = .s5) (hopt : f.opt = some r) (hot : f.opttitle = none)
    (hget : f.cfg.getOpt r = some o) (ho : secOpt o) (hm : o.flags.multi = false) (hl : o.flags.list = false) (hv : o.vals = [.sec s]) :
    pstep orc m .lbrace n =
      { m with frames :=
          { cfg := enterInstance ((f.cfg.setLine (f.cfg.line + n)).setOpt r (Opt.mk o.info { o.flags with modified := true } o.subs [.sec s] o.comment)) s,
            level := f.level + 1, back := some (r, 0) } ::
          { f with cfg := (f.cfg.setLine (f.cfg.line + n)).setOpt r (Opt.mk o.info { o.flags with modified := true } o.subs [.sec s] o.comment),
                   opttitle := none } :: rest,
               maxDepth := max m.maxDepth (rest.length + 2) } := by
  obtain ⟨cfg, level, state, opt, comment, opttitle, funcargs, ignore, depth, numValues, back⟩ := f
  simp only at hst hopt hget hot
  subst hst; subst hopt; subst hot
  unfold pstep
  simp only [hrun, hfr]
  simp only [step_s5, getOpt_setLine, Option.bind, hget, PM.k]
  rw [setopt_single orc _ _ o s ho hm hl hv]
  simp [PM.addCalls, PM.addDiags, enterInstance, Opt.vals, setOpt_info, Cfg.line]
  rfl

/-- a single section option the round trip covers (declaration side) -/
structure SingleDecl (o : Opt) : Prop where
  sec : secOpt o
  single : o.flags.multi = false
  nolist : o.flags.list = false
  notitle : o.flags.title = false
  noValid : o.info.validCb = false
  notDep : o.flags.deprecated = false
  name : plainName o.name

/-- **the printed instance of a single section.** `name { body }` for a section that is not multi and holds its one
instance `s0` (as after `cfg_init`, or after anything else): the instance is entered, the body's tokens leave its
options holding exactly the printed values (whatever they held), and it is written back in place. -/
theorem C05_single_section_item (orc : Oracle) (m : PM) (f : Frame) (rest : List Frame) (o0 : Opt) (s0 : Cfg) (pre post : List Opt) (c : Cfg)
    (body : List (Tok × Nat)) (n1 n2 n3 : Nat)
    (hrun : m.status = .running) (hfr : m.frames = f :: rest) (hat : AtItem f) (hot : f.opttitle = none)
    (hopts : f.cfg.opts = pre ++ o0 :: post)
    (hpre : ∀ p ∈ pre, titleEq f.cfg.flags.nocase p.name o0.name = false)
    (hd : SingleDecl o0) (hv0 : o0.vals = [.sec s0]) (hbody : FlatToks c.opts body)
    (hal : All2 Aligned c.opts s0.opts)
    (hpw : List.Pairwise (fun a b => titleEq s0.flags.nocase a.name b.name = false) c.opts) :
    ∃ f' res s', parseToks orc m ([(.str o0.name, n1), (.lbrace, n2)] ++ body ++ [(.rbrace, n3)]) =
        { m with frames := f' :: rest, maxDepth := max m.maxDepth (rest.length + 2) } ∧
      AtItem f' ∧ f'.opttitle = none ∧ f'.level = f.level ∧ f'.back = f.back ∧
      f'.cfg.opts = pre ++ res :: post ∧ f'.cfg.flags = f.cfg.flags ∧
      res = Opt.mk o0.info { o0.flags with modified := true } o0.subs [.sec s'] o0.comment ∧
      All2 (fun r o => r.vals = o.vals) s'.opts c.opts := by
  let r : OptRef := ⟨[], pre.length⟩
  have hlook := getoptPath_top f.cfg o0.name pre o0 post hd.name hopts hpre (titleEq_refl _ _)
  have hget := getOpt_top f.cfg pre o0 post hopts
  let mk : Frame → PM := fun F => { m with frames := F :: rest }
  let F1 : Frame := { f with cfg := f.cfg.setLine (f.cfg.line + n1), opt := some r, state := .s5 }
  have e1 : pstep orc m (.str o0.name) n1 = mk F1 :=
    pstep_name_sec orc m f rest o0.name n1 r o0 hrun hfr hat.st hat.nd hlook.1 hlook.2 hget hd.sec.1 hd.notitle
  have g1 : F1.cfg.getOpt r = some o0 := by show (f.cfg.setLine _).getOpt r = some o0; rw [getOpt_setLine]; exact hget
  let O1 : Opt := Opt.mk o0.info { o0.flags with modified := true } o0.subs [.sec s0] o0.comment
  let P : Cfg := (F1.cfg.setLine (F1.cfg.line + n2)).setOpt r O1
  let child : Frame := { cfg := enterInstance P s0, level := f.level + 1, back := some (r, 0) }
  let F2 : Frame := { F1 with cfg := P, opttitle := none }
  let m2 : PM := { m with frames := child :: F2 :: rest, maxDepth := max m.maxDepth (rest.length + 2) }
  have e2 : pstep orc (mk F1) .lbrace n2 = m2 := by
    have := pstep_lbrace_single orc (mk F1) F1 rest n2 r o0 s0 hrun rfl rfl rfl hot g1 hd.sec hd.single hd.nolist hv0
    rw [this]
  have hPflags : P.flags = f.cfg.flags := by
    show ((F1.cfg.setLine _).setOpt r _).flags = f.cfg.flags
    rw [setOpt_flags]
    have : ∀ (c : Cfg) (n : Nat), (c.setLine n).flags = c.flags := by intro c n; cases c; rfl
    rw [this, this]
  obtain ⟨ch', done, e3, hat3, hlev3, hbk3, _, hopts3, _, _, hv3, _⟩ :=
    flat_steps orc c.opts s0.opts body m2 child (F2 :: rest) [] hbody hal hrun rfl
      ⟨rfl, rfl, by intro r' o' hr' _; cases hr'⟩
      (by show (enterInstance P s0).opts = [] ++ _; rw [enterInstance_opts]; rfl)
      (by intro p hp; cases hp)
      (by show List.Pairwise (fun a b => titleEq (enterInstance P s0).flags.nocase a.name b.name = false) c.opts
          rw [enterInstance_flags]; exact hpw)
  have gP : F2.cfg.getOpt r = some O1 := getOpt_setOpt _ r o0 _ (by rw [getOpt_setLine]; exact g1)
  have e4 := pstep_rbrace_pop orc { m2 with frames := ch' :: F2 :: rest } ch' F2 rest n3 r 0 O1
    hrun rfl hat3.st (by rw [hlev3]; exact Nat.succ_ne_zero _) hat3.nd (by rw [hbk3]) rfl gP (by cases o0; exact hd.noValid)
  let chL := ch'.cfg.setLine (ch'.cfg.line + n3)
  let res : Opt := O1.setVals (listSet O1.vals 0 (.sec chL))
  refine ⟨{ F2 with cfg := (F2.cfg.setOpt r res).afterSection chL, state := .s0 }, res, chL, ?_, ⟨rfl, hat.cm, ?_⟩, rfl, rfl, rfl, ?_, ?_, ?_, ?_⟩
  · simp only [parseToks, List.foldl_append, List.foldl]
    rw [e1, e2]
    have e3' : List.foldl (fun m (t : Tok × Nat) => pstep orc m t.1 t.2) m2 body = { m2 with frames := ch' :: F2 :: rest } := e3
    rw [e3', e4]
  · intro r' o' hr' ho'
    simp only at hr' ho'
    injection hr' with hr'; subst hr'
    rw [getOpt_afterSection, getOpt_setOpt _ _ _ _ gP] at ho'
    injection ho' with ho'; subst ho'
    cases o0; exact hd.notDep
  · simp only [Cfg.afterSection_opts]
    exact setOpt_top _ pre O1 res post (by
      show ((F1.cfg.setLine _).setOpt r O1).opts = _
      exact setOpt_top _ pre o0 _ post (by simp only [opts_setLine]; exact hopts))
  · simp only [Cfg.afterSection_flags, setOpt_flags]; exact hPflags
  · cases o0; rfl
  · show All2 _ (ch'.cfg.setLine _).opts c.opts
    simp only [opts_setLine, hopts3, List.nil_append]
    exact hv3

/-! ## a configuration one level deep: plain options and untitled multi sections with flat bodies -/

/-- the tokens a printed configuration of depth one scans to: option after option; a section option contributes the
tokens of its instances, none if it has none -/
inductive Tree1Toks : List Opt → List (Tok × Nat) → Prop
  | nil : Tree1Toks [] []
  | plain (o : Opt) (os : List Opt) (ts tss : List (Tok × Nat)) :
      o.ty ≠ .sec → OptToks o ts → Tree1Toks os tss → Tree1Toks (o :: os) (ts ++ tss)
  | secNone (o : Opt) (os : List Opt) (tss : List (Tok × Nat)) :
      o.ty = .sec → o.vals = [] → Tree1Toks os tss → Tree1Toks (o :: os) tss
  | sec (o : Opt) (os : List Opt) (c : Cfg) (cs : List Cfg) (ts tss : List (Tok × Nat)) :
      o.ty = .sec → o.vals = (c :: cs).map Val.sec → InstToks o.name (c :: cs) ts → Tree1Toks os tss →
      Tree1Toks (o :: os) (ts ++ tss)

/-- declared counterpart at depth one: a plain option as in the flat case; a section option is an untitled multi section
without instances whose sub-options are the declared counterparts of every printed instance's options, or a single
section holding its instance -/
def Aligned1 (nc : Bool) (o o0 : Opt) : Prop :=
  (o.ty ≠ .sec ∧ Aligned o o0) ∨
  (o.ty = .sec ∧ o0.name = o.name ∧ SecDecl o0 ∧ o0.vals = [] ∧
     ∀ c, Val.sec c ∈ o.vals → (∀ ci, All2 Aligned c.opts (mkSection ci o0 none).opts) ∧
                               List.Pairwise (fun a b => titleEq nc a.name b.name = false) c.opts) ∨
  -- a single section: both sides hold the one instance, and the instance's options are counterparts
  (o.ty = .sec ∧ o0.name = o.name ∧ SingleDecl o0 ∧
     ∃ c s0, o.vals = [.sec c] ∧ o0.vals = [.sec s0] ∧ All2 Aligned c.opts s0.opts ∧
       List.Pairwise (fun a b => titleEq s0.flags.nocase a.name b.name = false) c.opts)

/-- the same values, one level deep: a plain option holds the printed value sequence; a section option has one instance
per printed instance, in order, each holding option by option the printed values -/
def SameVals1 (r o : Opt) : Prop :=
  (o.ty ≠ .sec ∧ r.vals = o.vals) ∨
  (o.ty = .sec ∧ ∃ ss cs, o.vals = cs.map Val.sec ∧ r.vals = ss.map Val.sec ∧
     All2 (fun s' c => All2 (fun a b => a.vals = b.vals) s'.opts c.opts) ss cs)

/-- **a whole printed configuration of depth one, token level.** The tokens a printed configuration scans to - plain
options and untitled multi sections with flat bodies, any number of instances each - fed to the machine at an item
boundary of a context with the same declarations (section options still without instances, as `cfg_init` leaves them):
the machine ends at an item boundary, every plain option holds exactly the printed values, and every section option
has exactly the printed instances, in order, each holding exactly the printed values. -/
theorem tree1_steps (orc : Oracle) (nc : Bool) : ∀ (os os0 : List Opt) (ts : List (Tok × Nat)) (m : PM) (f : Frame) (rest : List Frame) (pre : List Opt),
    Tree1Toks os ts → All2 (Aligned1 nc) os os0 → f.cfg.flags.nocase = nc →
    m.status = .running → m.frames = f :: rest → AtItem f → f.opttitle = none → f.cfg.opts = pre ++ os0 →
    (∀ p ∈ pre, ∀ o ∈ os, titleEq nc p.name o.name = false) →
    List.Pairwise (fun a b => titleEq nc a.name b.name = false) os →
    ∃ f' done md, parseToks orc m ts = { m with frames := f' :: rest, maxDepth := md } ∧ AtItem f' ∧ f'.opttitle = none ∧
      f'.level = f.level ∧ f'.back = f.back ∧ f'.cfg.opts = pre ++ done ∧ f'.cfg.flags = f.cfg.flags ∧
      All2 SameVals1 done os := by
  intro os
  induction os with
  | nil =>
    intro os0 ts m f rest pre hts hal _ hrun hfr hat hot hopts _ _
    cases hts
    cases hal
    refine ⟨f, [], m.maxDepth, ?_, hat, hot, rfl, rfl, by simpa using hopts, rfl, All2.nil⟩
    obtain ⟨frames, srcs, status, diags, trace, pi, md⟩ := m
    simp only at hfr; subst hfr
    rfl
  | cons o os ih =>
    intro os0 ts m f rest pre hts hal hnc hrun hfr hat hot hopts hpre hpw
    cases hal with
    | cons hA hAs =>
      rename_i o0 os0'
      have hpre0 : ∀ p ∈ pre, titleEq f.cfg.flags.nocase p.name o.name = false := by
        intro p hp; rw [hnc]; exact hpre p hp o (by simp)
      -- what the induction hypothesis needs once the first option is done
      have next : ∀ (m1 : PM) (f1 : Frame) (res : Opt) (tss : List (Tok × Nat)), Tree1Toks os tss →
          m1.status = .running → m1.frames = f1 :: rest → AtItem f1 → f1.opttitle = none → f1.level = f.level → f1.back = f.back →
          f1.cfg.opts = pre ++ res :: os0' → f1.cfg.flags = f.cfg.flags → res.name = o.name → SameVals1 res o →
          ∃ f' done md, parseToks orc m1 tss = { m1 with frames := f' :: rest, maxDepth := md } ∧ AtItem f' ∧ f'.opttitle = none ∧
            f'.level = f.level ∧ f'.back = f.back ∧ f'.cfg.opts = pre ++ done ∧ f'.cfg.flags = f.cfg.flags ∧
            All2 SameVals1 done (o :: os) := by
        intro m1 f1 res tss h2 hrun1 hfr1 hat1 hot1 hlev1 hbk1 hopts1 hfl1 hresname hsv
        obtain ⟨f2, done, md, e2, hat2, hot2, hlev2, hbk2, hopts2, hfl2, hv2⟩ :=
          ih os0' tss m1 f1 rest (pre ++ [res]) h2 hAs (by rw [hfl1]; exact hnc) hrun1 hfr1 hat1 hot1
            (by rw [hopts1]; simp)
            (by
              intro p hp o' ho'
              rcases List.mem_append.mp hp with hp | hp
              · exact hpre p hp o' (by simp [ho'])
              · simp only [List.mem_singleton] at hp
                subst hp
                rw [hresname]
                exact (List.pairwise_cons.mp hpw).1 o' ho')
            (List.pairwise_cons.mp hpw).2
        exact ⟨f2, res :: done, md, e2, hat2, hot2, by rw [hlev2, hlev1], by rw [hbk2, hbk1], by rw [hopts2]; simp,
          by rw [hfl2, hfl1], All2.cons hsv hv2⟩
      cases hts with
      | plain _ _ ts1 tss hty h1 h2 =>
        rcases hA with ⟨_, hA⟩ | ⟨hsec, _⟩ | ⟨hsec, _⟩
        · obtain ⟨hname, hty', hlist, hd⟩ := hA
          obtain ⟨f1, res, e1, hat1, hlev1, hbk1, hot1, hopts1, hfl1, _, hv1, hi1, _, _, _⟩ :=
            opt_step orc m f rest o o0 pre os0' ts1 hrun hfr hat hopts hpre0 hname hty' hlist hd h1
          have hresname : res.name = o.name := by
            have : res.name = o0.name := by simp [Opt.name, hi1]
            rw [this, hname]
          obtain ⟨f', done, md, e2, rest'⟩ :=
            next { m with frames := f1 :: rest } f1 res tss h2 hrun rfl hat1 (by rw [hot1]; exact hot) hlev1 hbk1 hopts1 hfl1 hresname
              (Or.inl ⟨hty, hv1⟩)
          exact ⟨f', done, md, by rw [parseToks_append, e1, e2], rest'⟩
        · exact absurd hsec hty
        · exact absurd hsec hty
      | secNone =>
        rename_i hty hv h2
        rcases hA with ⟨hns, _⟩ | ⟨_, hname, hd, hv0, _⟩ | ⟨_, _, _, c', _, hvc, _⟩
        · exact absurd hty hns
        · exact next m f o0 ts h2 hrun hfr hat hot rfl rfl hopts rfl hname
            (Or.inr ⟨hty, [], [], by simpa using hv, by simpa using hv0, All2.nil⟩)
        · rw [hv] at hvc; cases hvc
      | sec _ _ c cs ts1 tss hty hv h1 h2 =>
        rcases hA with ⟨hns, _⟩ | ⟨_, hname, hd, hv0, hinst⟩ | ⟨_, hname, hd, c', s0, hvc, hv0, halc, hpwc⟩
        · exact absurd hty hns
        · obtain ⟨f1, ss, md1, e1, hat1, hot1, hlev1, hbk1, hopts1, hfl1, hvs⟩ :=
            inst_steps orc cs c ts1 m f rest o0 pre os0' (by rw [hname]; exact h1) hrun hfr hat hot hopts
              (by rw [hname]; exact hpre0) hd
              (by
                intro x hx
                have hm : Val.sec x ∈ o.vals := by rw [hv]; exact List.mem_map.mpr ⟨x, hx, rfl⟩
                obtain ⟨h1', h2'⟩ := hinst x hm
                exact ⟨h1', by rw [hnc]; exact h2'⟩)
          have hresname : (o0.withInstances ss).name = o.name := by rw [← hname]; rfl
          obtain ⟨f', done, md, e2, rest'⟩ :=
            next { m with frames := f1 :: rest, maxDepth := md1 } f1 (o0.withInstances ss) tss h2 hrun rfl hat1 hot1 hlev1 hbk1 hopts1 hfl1 hresname
              (Or.inr ⟨hty, ss, c :: cs, hv, by show o0.vals ++ ss.map Val.sec = ss.map Val.sec; rw [hv0]; rfl, hvs⟩)
          exact ⟨f', done, md, by rw [parseToks_append, e1, e2], rest'⟩
        · -- a single section: exactly one printed instance
          rw [hv] at hvc
          simp only [List.map_cons, List.cons.injEq, Val.sec.injEq, List.map_eq_nil_iff] at hvc
          obtain ⟨hcc, hcs⟩ := hvc
          subst hcc; subst hcs
          cases h1 with
          | cons _ _ body ts' n1 n2 n3 hb hrest =>
            cases hrest
            obtain ⟨f1, res, s', e1, hat1, hot1, hlev1, hbk1, hopts1, hfl1, hres, hvs⟩ :=
              C05_single_section_item orc m f rest o0 s0 pre os0' c body n1 n2 n3 hrun hfr hat hot hopts
                (by rw [hname]; exact hpre0) hd hv0 hb halc hpwc
            have hresname : res.name = o.name := by rw [hres, ← hname]; rfl
            obtain ⟨f', done, md, e2, rest'⟩ :=
              next { m with frames := f1 :: rest, maxDepth := max m.maxDepth (rest.length + 2) } f1 res tss h2 hrun rfl hat1 hot1 hlev1 hbk1 hopts1 hfl1 hresname
                (Or.inr ⟨hty, [s'], [c], hv, by rw [hres]; rfl, All2.cons hvs All2.nil⟩)
            refine ⟨f', done, md, ?_, rest'⟩
            rw [parseToks_append]
            have e1' : parseToks orc m ([(Tok.str o.name, n1), (Tok.lbrace, n2)] ++ body ++ [(Tok.rbrace, n3)] ++ []) =
                { m with frames := f1 :: rest, maxDepth := max m.maxDepth (rest.length + 2) } := by
              rw [← hname]; simpa using e1
            rw [e1', e2]

/-- non-vacuity: the section `n { z = 5 }` of a schema `n` (multi) with one integer option `z` meets the premises -/
example :
    let o0 : Opt := Opt.mk { name := [110], ty := .sec } { multi := true } [Decl.mk { name := [122], ty := .int } {} []] [] none
    let c : Cfg := Cfg.mk { name := [110] } [Opt.mk { name := [122], ty := .int } {} [] [.int 5] none]
    SecDecl o0 ∧ (∀ ci, All2 Aligned c.opts (mkSection ci o0 none).opts) ∧
      FlatToks c.opts [(.str [122], 0), (.eq, 0), (.str (printInt 5), 0)] := by
  intro o0 c
  refine ⟨⟨⟨rfl, rfl⟩, rfl, rfl, rfl, rfl, ⟨by decide, by decide⟩⟩, ?_, ?_⟩
  · intro ci
    have hn : (mkOpt (sectionInfo ci o0.name o0.flags none) (Decl.mk { name := [122], ty := .int } {} [])).name = [122] := rfl
    refine All2.cons ⟨rfl, rfl, rfl, ⟨Or.inl rfl, rfl, rfl, rfl, rfl, ?_, rfl⟩⟩ All2.nil
    rw [hn]; exact ⟨by decide, by decide⟩
  · have h := FlatToks.cons (Opt.mk { name := [122], ty := .int } {} [] [.int 5] none) [] _ []
      (OptToks.scalar _ (.int 5) (printInt 5) 0 0 0 rfl rfl rfl (by decide)) FlatToks.nil
    exact h

/-- non-vacuity of the depth-one theorem's token relation: `n { z = 5 }` as the printed form of a section option holding
one instance -/
example :
    let c : Cfg := Cfg.mk { name := [110] } [Opt.mk { name := [122], ty := .int } {} [] [.int 5] none]
    let o : Opt := Opt.mk { name := [110], ty := .sec } { multi := true } [Decl.mk { name := [122], ty := .int } {} []] [.sec c] none
    Tree1Toks [o] ([(.str [110], 0), (.lbrace, 0)] ++ [(.str [122], 0), (.eq, 0), (.str (printInt 5), 0)] ++ [(.rbrace, 1)] ++ [] ++ []) := by
  intro c o
  have hb : FlatToks c.opts [(.str [122], 0), (.eq, 0), (.str (printInt 5), 0)] :=
    FlatToks.cons (Opt.mk { name := [122], ty := .int } {} [] [.int 5] none) [] _ []
      (OptToks.scalar _ (.int 5) (printInt 5) 0 0 0 rfl rfl rfl (by decide)) FlatToks.nil
  exact Tree1Toks.sec o [] c [] _ [] rfl rfl (InstToks.cons c [] _ [] 0 0 1 hb InstToks.nil) Tree1Toks.nil

end Confuse
