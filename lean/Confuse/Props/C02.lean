import Confuse.Props.C06
import Confuse.Props.C12
/-!
# C02 — no input text can corrupt memory, hang or kill the host process (the logic part)

What a model can carry: the scanner always makes progress (so scanning any input terminates with an
end or an error token), the scratch buffer's index never passes its capacity, the token machine
adds at most one frame per token and none at all inside unknown text, and every outcome is one of
the three documented return codes.  Memory safety of the compiled C is runtime behaviour: see the
tie (ASan/UBSan, captured stdout, time-outs).
-/
namespace Confuse

/-! ## the scanner makes progress -/

theorem dropWhile_length_le {α} (p : α → Bool) (l : List α) : (l.dropWhile p).length ≤ l.length := by
  induction l with
  | nil => simp
  | cons a as ih =>
    simp only [List.dropWhile_cons]
    split
    · exact Nat.le_trans ih (by simp)
    · simp

theorem dqPlain_rest (acc : Bytes) (nl c : Nat) (cs : Bytes) (o : LexOut) (h : dqPlain acc nl c cs = .inr o) :
    o.rest.length ≤ (c :: cs).length := by
  unfold dqPlain at h
  repeat' split at h
  all_goals (first | (injection h with h; subst h; simp) | (simp at h))

theorem dqStep_rest (env : Env) (s : DqSt) (c : Nat) (cs : Bytes) (o : LexOut) (h : dqStep env s c cs = .inr o) :
    o.rest.length ≤ (c :: cs).length := by
  obtain ⟨mode, acc, nl⟩ := s
  cases mode with
  | plain => exact dqPlain_rest acc nl c cs o h
  | esc =>
    simp only [dqStep] at h
    repeat' split at h
    all_goals simp at h
  | envOpen => simp [dqStep] at h
  | env i => simp only [dqStep] at h; split at h <;> simp at h
  | hex0 =>
    simp only [dqStep] at h
    split at h
    · simp at h
    · exact dqPlain_rest _ nl c cs o h
  | hex1 v =>
    simp only [dqStep] at h
    split at h
    · simp at h
    · exact dqPlain_rest _ nl c cs o h
  | digits n ao v =>
    simp only [dqStep] at h
    split at h
    · simp at h
    · split at h
      · exact dqPlain_rest _ nl c cs o h
      · injection h with h; subst h; simp

theorem dqRun_rest (env : Env) (inp : Bytes) : ∀ s : DqSt, (dqRun env s inp).rest.length ≤ inp.length := by
  induction inp with
  | nil => intro s; simp only [dqRun, dqEof]; repeat' split
           all_goals simp
  | cons c cs ih =>
    intro s
    simp only [dqRun]
    cases hs : dqStep env s c cs with
    | inl s' => simp only; exact Nat.le_trans (ih s') (by simp)
    | inr o => exact dqStep_rest env s c cs o hs

theorem sqRun_rest (inp : Bytes) : ∀ (m : SqMode) (acc : Bytes) (nl : Nat), (sqRun m acc nl inp).rest.length ≤ inp.length := by
  induction inp with
  | nil => intro m acc nl; cases m <;> simp [sqRun]
  | cons c cs ih =>
    intro m acc nl
    cases m <;> simp only [sqRun] <;> repeat' split
    all_goals (first | (simp; done) | exact Nat.le_trans (ih _ _ _) (by simp))

theorem commentEnd_rest (inp rest : Bytes) (h : commentEnd inp = some rest) : rest.length < inp.length := by
  unfold commentEnd at h
  have h1 := dropWhile_length_le isBlank inp
  generalize inp.dropWhile isBlank = r at h h1
  cases r with
  | nil => simp at h
  | cons c t =>
    simp only at h
    split at h
    · have h2 := dropWhile_length_le (· == c_star) (c :: t)
      generalize (c :: t).dropWhile (· == c_star) = r2 at h h2
      cases r2 with
      | nil => simp at h
      | cons d ds =>
        simp only at h
        split at h
        · injection h with h; subst h
          simp only [List.length_cons] at h1 h2 ⊢
          omega
        · simp at h
    · simp at h

theorem commentRun_rest (inp : Bytes) : ∀ (acc : Bytes) (nl : Nat), (commentRun acc nl inp).rest.length ≤ inp.length := by
  induction inp with
  | nil => intro acc nl; simp [commentRun]
  | cons c cs ih =>
    intro acc nl
    simp only [commentRun]
    cases he : commentEnd (c :: cs) with
    | some rest => simp only; exact Nat.le_of_lt (commentEnd_rest _ _ he)
    | none =>
      simp only
      split <;> exact Nat.le_trans (ih _ _) (by simp)

theorem lineComment_rest (marker nl c : Nat) (cs : Bytes) (hc : c ≠ c_nl) :
    (lineComment marker nl (c :: cs)).rest.length ≤ cs.length := by
  simp only [lineComment, List.dropWhile_cons, bne_iff_ne, ne_eq, hc, not_false_eq_true, decide_true, if_true]
  exact dropWhile_length_le _ _

theorem lexWord_rest (nl c : Nat) (cs : Bytes) (hc : isWordByte c = true) :
    (lexWord nl (c :: cs)).rest.length ≤ cs.length := by
  simp only [lexWord, List.dropWhile_cons, hc, if_true]
  exact dropWhile_length_le _ _

theorem lex_progress_step (env : Env) (c : Nat) (cs : Bytes) (nl : Nat)
    (hrec : ∀ n, (lexInitial env n cs).rest.length ≤ cs.length) :
    (lexInitial env nl (c :: cs)).rest.length ≤ cs.length := by
  rw [lexInitial.eq_def]
  simp only []
  by_cases h1 : (c = c_sp || c = c_tab) = true
  · simp only [h1, if_true]; exact hrec nl
  · simp only [h1, if_false, Bool.false_eq_true]
    by_cases h2 : c = c_nl
    · subst h2; simp only [if_true]; exact hrec _
    · simp only [h2, if_false]
      by_cases h3 : c = c_hash
      · subst h3; simp only [if_true]; exact lineComment_rest _ _ _ _ (by decide)
      · simp only [h3, if_false]
        by_cases h4 : c = c_slash
        · subst h4
          simp only [if_true]
          cases cs with
          | nil => exact lexWord_rest _ _ _ (by decide)
          | cons d ds =>
            simp only
            by_cases h5 : d = c_slash
            · subst h5; simp only [if_true]; exact lineComment_rest _ _ _ _ (by decide)
            · by_cases h6 : d = c_star
              · subst h6
                simp only [show (c_star : Nat) ≠ c_slash from by decide, if_false, if_true]
                exact Nat.le_trans (commentRun_rest ds [] nl) (by simp)
              · simp only [h5, h6, if_false]
                exact lexWord_rest _ _ _ (by decide)
        · simp only [h4, if_false]
          by_cases h7 : c = c_lbr; · subst h7; simp
          by_cases h8 : c = c_rbr; · subst h8; simp
          by_cases h9 : c = c_lp; · subst h9; simp
          by_cases h10 : c = c_rp; · subst h10; simp
          by_cases h11 : c = c_eq; · subst h11; simp
          by_cases h12 : c = c_comma; · subst h12; simp
          simp only [h7, h8, h9, h10, h11, h12, if_false]
          by_cases h13 : c = c_plus
          · subst h13
            simp only [if_true]
            cases cs with
            | nil => exact hrec nl
            | cons d ds =>
              simp only
              by_cases hd2 : d = c_eq
              · subst hd2; simp
              · simp only [hd2, if_false]; exact hrec nl
          · simp only [h13, if_false]
            by_cases h14 : c = c_dq
            · subst h14; simp only [if_true]; exact dqRun_rest env _ _
            · simp only [h14, if_false]
              by_cases h15 : c = c_sq
              · subst h15; simp only [if_true]; exact sqRun_rest _ _ _ _
              · simp only [h15, if_false]
                by_cases h16 : c = c_dollar
                · subst h16
                  simp only [if_true]
                  cases cs with
                  | nil => exact lexWord_rest _ _ _ (by decide)
                  | cons d ds =>
                    simp only
                    by_cases hd3 : (d = c_lbr && hasRbr ds) = true
                    · simp only [hd3, if_true]
                      simp only [List.length_drop, List.length_cons]
                      have := dropWhile_length_le (· != c_rbr) ds
                      omega
                    · simp only [hd3, if_false, Bool.false_eq_true]
                      exact lexWord_rest _ _ _ (by decide)
                · simp only [h16, if_false]
                  by_cases h17 : isWordByte c = true
                  · simp only [h17, if_true]; exact lexWord_rest _ _ _ h17
                  · simp only [h17, if_false, Bool.false_eq_true]; exact hrec nl

/-- **C02 (progress).** Whatever the bytes are, one call of the scanner on a non-empty input consumes
at least one byte: the rest it leaves is strictly shorter.  So a loop that keeps calling the scanner
reaches the end of any input (or an error token) after at most `length` calls. -/
theorem lex_progress (env : Env) (cs : Bytes) : ∀ (c nl : Nat), (lexInitial env nl (c :: cs)).rest.length ≤ cs.length := by
  induction cs with
  | nil =>
    intro c nl
    exact lex_progress_step env c [] nl (by intro n; simp [lexInitial])
  | cons d ds ih =>
    intro c nl
    exact lex_progress_step env c (d :: ds) nl (fun n => Nat.le_trans (ih d n) (by simp))

/-- scanning to the end: with `length + 1` calls the token list of any buffer ends in `eof` or an error -/
theorem lexAll_complete (env : Env) : ∀ (fuel : Nat) (inp : Bytes), inp.length < fuel →
    ∃ pre t n, lexAll env fuel inp = pre ++ [(t, n)] ∧ (t = .eof ∨ ∃ e, t = .err e) := by
  intro fuel
  induction fuel with
  | zero => intro inp h; omega
  | succ k ih =>
    intro inp h
    simp only [lexAll]
    cases htok : (lexInitial env 0 inp).tok with
    | eof => exact ⟨[], .eof, (lexInitial env 0 inp).nl, by simp, Or.inl rfl⟩
    | err e => exact ⟨[], .err e, (lexInitial env 0 inp).nl, by simp, Or.inr ⟨e, rfl⟩⟩
    | _ =>
      all_goals (
        have hlt : (lexInitial env 0 inp).rest.length < k := by
          cases inp with
          | nil => simp [lexInitial] at htok
          | cons c cs =>
            have := lex_progress env cs c 0
            simp only [List.length_cons] at h
            omega
        obtain ⟨pre, t, n, h1, h2⟩ := ih _ hlt
        exact ⟨((lexInitial env 0 inp).tok, (lexInitial env 0 inp).nl) :: pre, t, n, by simp [h1, htok], h2⟩)

/-! ## the scratch buffer (`qputc`, lexer.l) -/

/-- the three numbers `qputc` maintains: write index, capacity (`qstring_len`), bytes allocated -/
structure QBuf where
  index : Nat
  len : Nat
  alloc : Nat          -- size passed to realloc: len + 1
deriving Repr

def QBuf.empty : QBuf := ⟨0, 0, 0⟩

/-- `qputc`: grow by 32 when full, write at `index`, advance -/
def QBuf.putc (q : QBuf) : QBuf × Nat :=
  let q1 := if q.index ≥ q.len then { q with len := q.len + 32, alloc := q.len + 32 + 1 } else q
  ({ q1 with index := q1.index + 1 }, q1.index)

/-- `qstring_index = 0` (start of a string or comment) -/
def QBuf.rewind (q : QBuf) : QBuf := { q with index := 0 }

def QBuf.Inv (q : QBuf) : Prop := q.index ≤ q.len ∧ (q.len = 0 ∨ q.alloc = q.len + 1)

/-- **C02 (scratch buffer).** Every write lands inside the allocation, the terminating NUL that
`trim_whitespace` and the parser rely on (`str[index]`) is inside it too, and the invariant
`index ≤ capacity` is kept by every operation, however long the token is. -/
theorem C02_scratch (q : QBuf) (h : q.Inv) :
    (q.putc).1.Inv ∧ (q.putc).2 < (q.putc).1.alloc ∧ (q.putc).1.index < (q.putc).1.alloc ∧ q.rewind.Inv := by
  obtain ⟨i, l, a⟩ := q
  obtain ⟨h1, h2⟩ := h
  simp only at h1 h2
  by_cases hf : i ≥ l
  · simp only [QBuf.Inv, QBuf.putc, QBuf.rewind, hf, if_true]
    refine ⟨⟨?_, ?_⟩, ?_, ?_, ?_, h2⟩ <;> first | omega | simp
  · simp only [QBuf.Inv, QBuf.putc, QBuf.rewind, hf, if_false]
    have hl : l ≠ 0 := by omega
    have ha : a = l + 1 := by rcases h2 with h | h; exact absurd h hl; exact h
    refine ⟨⟨?_, ?_⟩, ?_, ?_, ?_, h2⟩ <;> first | omega | (right; exact ha)

/-- any number of consecutive writes (a token of any length) -/
def QBuf.putN : Nat → QBuf → QBuf
  | 0, q => q
  | n + 1, q => QBuf.putN n (q.putc).1

theorem C02_scratch_run (n : Nat) : ∀ q : QBuf, q.Inv → (QBuf.putN n q).Inv := by
  induction n with
  | zero => intro q h; exact h
  | succ k ih => intro q h; exact ih _ (C02_scratch q h).1

/-! ## the token machine -/

/-- **C02 (outcome).** Every parse ends with one of the documented return codes. -/
theorem C02_outcome (orc : Oracle) (pe : PEnv) (c : Cfg) (text name : Bytes) :
    ((parseFp orc pe c text).rc = 0 ∨ (parseFp orc pe c text).rc = 1) ∧
    ((parseFile orc pe c name).rc = 0 ∨ (parseFile orc pe c name).rc = 1 ∨ (parseFile orc pe c name).rc = -1) := by
  constructor
  · simp only [parseFp, finishParse]; split <;> simp
  · simp only [parseFile]
    repeat' split
    all_goals (first | (simp; done) | (simp only [parseFp, finishParse]; split <;> simp))

/-- **C02 (no stack growth in unknown text).** While unknown content is being skipped the number of
frames — the C recursion depth — does not change, however deeply it nests (from C12). -/
theorem C02_unknown_no_recursion (orc : Oracle) (ts : List (Tok × Nat)) (m : PM) (f : Frame) (rest : List Frame) (d d' : Nat)
    (hrun : m.status = .running) (hfr : m.frames = f :: rest) (hs : f.state = .s12) (hd : f.depth = d)
    (hin : ∀ t ∈ ts, t.1.inner = true) (hda : depthAfter d ts = some d') :
    (parseToks orc m ts).frames.length = m.frames.length := by
  rw [C12_skip_body orc ts m f rest d d' hrun hfr hs hd hin hda, hfr]
  simp

end Confuse
