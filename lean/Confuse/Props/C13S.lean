import Confuse.Lemmas.Shift
import Confuse.Model.Parser
/-!
# C13 — the text of an included file, read on its own, gives the tokens it gives in place

`Scan env inp ts`: the parse loop, calling the scanner on `inp` until it answers end-of-input or an
error, is handed exactly the tokens `ts` (the last one being that end or error).  It is the
fuel-free description of what `parseLoopFrom` feeds to `pstep` from one source.

**Splice.**  If a file's text `a` (no `$`; ending in a newline, as text files do) scans on its own
to `ta` followed by end-of-input, then `a` written in place in front of `o` scans to `ta` followed
by the tokens of `o`: no token is cut, merged or re-read across the joint.  With the token-level
theorems (`C13_enter`, `C13_return`, `C13_positions_irrelevant`) this is the property's statement.
-/
namespace Confuse

inductive Scan (env : Env) : Bytes → List Tok → Prop
  | eof (inp : Bytes) : (lexInitial env 0 inp).tok = .eof → Scan env inp [.eof]
  | err (inp : Bytes) (e : LexErr) : (lexInitial env 0 inp).tok = .err e → Scan env inp [.err e]
  | tok (inp : Bytes) (ts : List Tok) : (lexInitial env 0 inp).tok ≠ .eof → (lexInitial env 0 inp).tok.isErr = false →
      Scan env (lexInitial env 0 inp).rest ts → Scan env inp ((lexInitial env 0 inp).tok :: ts)

/-- the relation is a function of the input -/
theorem Scan.unique (env : Env) {inp : Bytes} {ts ts' : List Tok} (h : Scan env inp ts) (h' : Scan env inp ts') : ts = ts' := by
  induction h generalizing ts' with
  | eof inp he =>
    cases h' with
    | eof _ _ => rfl
    | err _ e he' => rw [he] at he'; cases he'
    | tok _ _ hne _ _ => exact absurd he hne
  | err inp e he =>
    cases h' with
    | eof _ he' => rw [he] at he'; cases he'
    | err _ e' he' => rw [he] at he'; cases he'; rfl
    | tok _ _ _ herr _ => rw [he] at herr; simp [Tok.isErr] at herr
  | tok inp ts hne herr _ ih =>
    cases h' with
    | eof _ he' => exact absurd he' hne
    | err _ e' he' => rw [he'] at herr; simp [Tok.isErr] at herr
    | tok _ ts'' _ _ hs => rw [ih hs]

/-- white space (and what the scanner eats like it) at the end of `a` is skipped into what follows -/
theorem scan_skip (env : Env) (a o : Bytes) (to : List Tok) (hnd : NoDollar a) (he : EndsNl a)
    (heof : (lexInitial env 0 a).tok = .eof) (ho : Scan env o to) : Scan env (a ++ o) to := by
  have h1 := ((lexInitial_app env o a 0 hnd he).1 heof)
  have h2 := lexInitial_tok_rest env o (lexInitial env 0 a).nl
  have ht : (lexInitial env 0 (a ++ o)).tok = (lexInitial env 0 o).tok := by rw [h1]; exact h2.1
  have hr : (lexInitial env 0 (a ++ o)).rest = (lexInitial env 0 o).rest := by rw [h1]; exact h2.2
  cases ho with
  | eof _ h => exact Scan.eof _ (ht.trans h)
  | err _ e h => exact Scan.err _ e (ht.trans h)
  | tok _ ts hne herr hs =>
    rw [← ht]
    exact Scan.tok _ ts (by rw [ht]; exact hne) (by rw [ht]; exact herr) (by rw [hr]; exact hs)

/-- **C13 (splice).** -/
theorem C13_splice (env : Env) (a o : Bytes) (ta to : List Tok) (hnd : NoDollar a) (he : EndsNl a)
    (ha : Scan env a (ta ++ [.eof])) (ho : Scan env o to) : Scan env (a ++ o) (ta ++ to) := by
  generalize hx : ta ++ [Tok.eof] = x at ha
  induction ha generalizing ta with
  | eof inp heof =>
    have : ta = [] := by
      cases ta with
      | nil => rfl
      | cons t ts => simp at hx
    subst this
    exact scan_skip env inp o to hnd he heof ho
  | err inp e _ =>
    cases ta with
    | nil => simp at hx
    | cons t ts => simp at hx
  | tok inp ts hne herr hs ih =>
    cases ta with
    | nil =>
      simp only [List.nil_append, List.cons.injEq] at hx
      exact absurd hx.1.symm hne
    | cons t ta' =>
      simp only [List.cons_append, List.cons.injEq] at hx
      obtain ⟨ht, hts⟩ := hx
      have happ := (lexInitial_app env o inp 0 hnd he).2 hne herr
      have hsuf := happ.2
      have ih' := ih ta' (hnd.suffix hsuf) (he.suffix hsuf) hts
      have e1 : (lexInitial env 0 (inp ++ o)).tok = (lexInitial env 0 inp).tok := by rw [happ.1]; rfl
      have e2 : (lexInitial env 0 (inp ++ o)).rest = (lexInitial env 0 inp).rest ++ o := by rw [happ.1]; rfl
      rw [ht, ← e1]
      exact Scan.tok _ _ (by rw [e1]; exact hne) (by rw [e1]; exact herr) (by rw [e2]; exact ih')

/-- what the loop does with the outcome of one token: open the requested file, if any -/
def afterTok (pe : PEnv) (m1 : PM) : PM :=
  match m1.pendingInclude with
  | some fname => if m1.status == .running then doInclude pe m1 fname else m1
  | none => m1

/-- the link to the parse loop: from its top source the loop takes the head of that source's `Scan`
sequence — the token `lexInitial` finds — hands it to the token machine, and goes on with the rest of
the text, whose `Scan` sequence is the tail -/
theorem C13_loop_reads_scan (orc : Oracle) (pe : PEnv) (fuel : Nat) (m : PM) (src : Src) (srcs : List Src)
    (hrun : m.status = .running) (hs : m.srcs = src :: srcs) (hne : (lexInitial pe.env 0 src.rest).tok ≠ .eof) :
    parseLoopFrom orc pe (fuel + 1) .initial m =
      parseLoopFrom orc pe fuel .initial
        (afterTok pe (pstep orc { m with srcs := { src with rest := (lexInitial pe.env 0 src.rest).rest } :: srcs }
          (lexInitial pe.env 0 src.rest).tok (lexInitial pe.env 0 src.rest).nl)) := by
  rw [parseLoopFrom]
  have h1 : (m.status != .running) = false := by simp [hrun]
  have h2 : ((lexInitial pe.env 0 src.rest).tok == Tok.eof) = false := by simpa using hne
  simp only [h1, hs, lexFrom, h2, Bool.false_and, Bool.false_eq_true, if_false, afterTok]
  rfl

/-- … and at the end of the top-level source the machine gets the end-of-input token -/
theorem C13_loop_reads_eof (orc : Oracle) (pe : PEnv) (fuel : Nat) (m : PM) (src : Src)
    (hrun : m.status = .running) (hs : m.srcs = [src]) (heof : (lexInitial pe.env 0 src.rest).tok = .eof) :
    parseLoopFrom orc pe (fuel + 1) .initial m =
      parseLoopFrom orc pe fuel .initial
        (afterTok pe (pstep orc { m with srcs := [{ src with rest := (lexInitial pe.env 0 src.rest).rest }] }
          .eof (lexInitial pe.env 0 src.rest).nl)) := by
  rw [parseLoopFrom]
  have h1 : (m.status != .running) = false := by simp [hrun]
  simp only [h1, hs, lexFrom, heof, List.isEmpty_nil, Bool.not_true, Bool.and_false, Bool.false_eq_true, if_false, afterTok]
  rfl

-- the hypotheses are met by an ordinary file, and the conclusion is about a real joint
private def exA : Bytes := [120, 32, 61, 32, 49, 10]          -- "x = 1\n"
private def exO : Bytes := [10, 121, 32, 61, 32, 50, 10]      -- "\ny = 2\n"
example : NoDollar exA ∧ EndsNl exA := by
  refine ⟨by intro c hc; simp [exA] at hc; omega, by intro x hx; simp [exA] at hx; omega⟩
example : lexBuf (fun _ => none) exA = [(.str [120], 0), (.eq, 0), (.str [49], 0), (.eof, 1)] := by decide
example : (lexBuf (fun _ => none) (exA ++ exO)).map (·.1) = [.str [120], .eq, .str [49], .str [121], .eq, .str [50], .eof] := by decide

end Confuse
