import Confuse.Props.C05
import Confuse.Props.C03
/-!
# C05 — option names survive the print / scan round trip

`cfg_print_name` writes a name as it is when it is a plain word and as a quoted string otherwise
(the keys of a free-form section can be any string).  Either way the scanner reads back exactly
the name, as one string token, in front of the blank or the equal sign that `cfg_print` puts after it.
-/
namespace Confuse

theorem hasSlashSlash_head (c : Nat) (cs : Bytes) (h : hasSlashSlash (c :: cs) = false) (hc : c = c_slash) :
    cs.head? ≠ some c_slash := by
  cases cs with
  | nil => simp
  | cons e es =>
    simp only [hasSlashSlash, Bool.or_eq_false_iff, Bool.and_eq_false_iff] at h
    subst hc
    intro he
    simp only [List.head?_cons, Option.some.injEq] at he
    subst he
    simp at h

/-- a plain name is scanned back as itself -/
theorem C05_name_plain (env : Env) (n rest : Bytes) (d : Nat) (nl : Nat) (hp : isPlainName n = true)
    (h0 : ∀ c ∈ n, c ≠ 0) (hd : d = c_sp ∨ d = c_eq) :
    lexInitial env nl (printName n ++ d :: rest) = ⟨.str n, nl, d :: rest⟩ := by
  simp only [printName, hp, if_true]
  simp only [isPlainName, Bool.and_eq_true, Bool.not_eq_true'] at hp
  obtain ⟨⟨hne, hw⟩, hss⟩ := hp
  cases n with
  | nil => simp at hne
  | cons c cs =>
    simp only [List.all_cons, Bool.and_eq_true] at hw
    have hdw : isWordByte d = false := by rcases hd with rfl | rfl <;> decide
    have := C03_unquoted_verbatim env c cs d rest nl hw.1 hw.2 hdw
      (fun hc => ⟨hasSlashSlash_head c cs hss hc, fun _ => by rcases hd with rfl | rfl <;> decide⟩)
      (fun _ => by
        intro ⟨hh, _⟩
        cases cs with
        | nil => simp at hh; rcases hd with rfl | rfl <;> simp at hh
        | cons e es =>
          simp only [List.cons_append, List.head?_cons, Option.some.injEq] at hh
          subst hh
          simp [isWordByte] at hw)
    rw [cstr_noNul _ h0] at this
    simpa using this

/-- any other name is written quoted and scanned back as itself (C05_str) -/
theorem C05_name_quoted (env : Env) (n rest : Bytes) (nl : Nat) (hp : isPlainName n = false) (h0 : ∀ c ∈ n, c ≠ 0) :
    lexInitial env nl (printName n ++ rest) = ⟨.str n, nl + countNl n, rest⟩ := by
  simp only [printName, hp, Bool.false_eq_true, if_false]
  exact C05_str env n rest nl h0

/-- **C05 (option names).** Whatever the name, `cfg_print` writes it so that the scanner returns it
as one string token, and what follows it in the output is still there to be read. -/
theorem C05_name (env : Env) (n rest : Bytes) (d : Nat) (nl : Nat) (h0 : ∀ c ∈ n, c ≠ 0) (hd : d = c_sp ∨ d = c_eq) :
    ∃ nl', lexInitial env nl (printName n ++ d :: rest) = ⟨.str n, nl', d :: rest⟩ := by
  by_cases hp : isPlainName n = true
  · exact ⟨nl, C05_name_plain env n rest d nl hp h0 hd⟩
  · exact ⟨nl + countNl n, C05_name_quoted env n (d :: rest) nl (by simpa using hp) h0⟩

-- the names that used to come back as something else
example : printName [97, 32, 98] = [34, 97, 32, 98, 34] := by decide          -- `a b`
example : printName [120, 61, 121] = [34, 120, 61, 121, 34] := by decide       -- `x=y`
example : printName [] = [34, 34] := by decide                                 -- the empty key
example : printName [112, 47, 47, 113] = [34, 112, 47, 47, 113, 34] := by decide  -- `p//q`
example : printName [107, 124, 49] = [107, 124, 49] := by decide               -- `k|1` stays a word

end Confuse
