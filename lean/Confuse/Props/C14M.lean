import Confuse.Lemmas.Mono
/-!
# C14 / C06 — the invocation log and the diagnostics only grow, in token order
-/
namespace Confuse

/-- **C14 (invocations are made in text order and never retracted).** For any token sequence split
anywhere: the callback invocations made while parsing the first part are, unchanged and in the same
order, the oldest part of the invocations made while parsing the whole — so the invocation log of a
text is the concatenation, in text order, of what each piece of it caused, whatever happens later
(including a rejection).  The same holds for the diagnostics. -/
theorem C14_log_monotone (orc : Oracle) (m : PM) (a b : List LTok) :
    (∃ cs, (parseToks orc m (a ++ b)).trace = cs ++ (parseToks orc m a).trace) ∧
    (∃ ds, (parseToks orc m (a ++ b)).diags = ds ++ (parseToks orc m a).diags) := by
  rw [parseToks_append']
  exact parseToks_grows orc b (parseToks orc m a)

/-- one step never removes or reorders a callback invocation or a diagnostic -/
theorem C14_step_monotone (orc : Oracle) (m : PM) (tok : Tok) (nl : Nat) :
    (∃ cs, (pstep orc m tok nl).trace = cs ++ m.trace) ∧ (∃ ds, (pstep orc m tok nl).diags = ds ++ m.diags) :=
  pstep_grows orc m tok nl

/-- **C14 (per item).** The invocations caused by the items of a text appear item by item: after
items `is₁` the log is a suffix of the log after `is₁ ++ is₂`. -/
theorem C14_items_in_order (orc : Oracle) (m : PM) (is1 is2 : List Item) :
    ∃ cs, (parseToks orc m (flats (is1 ++ is2))).trace = cs ++ (parseToks orc m (flats is1)).trace := by
  have hf : flats (is1 ++ is2) = flats is1 ++ flats is2 := by
    induction is1 with
    | nil => rfl
    | cons i is ih => simp [flats, ih]
  rw [hf]
  exact (C14_log_monotone orc m (flats is1) (flats is2)).1

end Confuse
