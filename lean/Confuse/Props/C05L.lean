import Confuse.Props.C05B
import Confuse.Props.C02
import Confuse.Props.C13S
import Confuse.Lemmas.Srcs
import Confuse.Lemmas.LoopSim
/-!
# C05 — the print / parse round trip of a flat configuration, byte level

`C05_flat_roundtrip`: bytes written by the print model, scanned by the scanner model, fed through the parse loop and the
token machine into any context with the same declarations: accepted, and every option holds the printed values.
Ingredients: `pstep_pending` (only the `)` of a call can ask for an include), `loop_steps` (the loop over one source
takes exactly the scanned tokens), `lex_opts` (C05B), `flat_steps` (C05F).
-/
namespace Confuse

@[simp] theorem reject_pending (m : PM) (f : Frame) (rest : List Frame) : (m.reject f rest).pendingInclude = m.pendingInclude := by
  unfold PM.reject; split <;> rfl
@[simp] theorem rejectWith_pending (m : PM) (f : Frame) (rest : List Frame) (c : DiagCls) :
    (m.rejectWith f rest c).pendingInclude = m.pendingInclude := by
  simp [PM.rejectWith]

theorem handleDeprecated_pending (m : PM) (f : Frame) : (handleDeprecated m f).1.pendingInclude = m.pendingInclude := by
  unfold handleDeprecated
  repeat' split
  all_goals simp

theorem runValid_pending (orc : Oracle) (m m' : PM) (f : Frame) (h : runValid orc m f = some m') : m'.pendingInclude = m.pendingInclude := by
  unfold runValid at h
  repeat' split at h
  all_goals (first | (injection h with h; subst h; simp) | (simp at h; try (obtain ⟨_, h⟩ := h; subst h; simp)))

theorem vetoed_pending (orc : Oracle) (m : PM) (f : Frame) : (vetoed orc m f).pendingInclude = m.pendingInclude := by
  unfold vetoed
  repeat' split
  all_goals simp

theorem storeValue_pending (orc : Oracle) (m : PM) (f : Frame) (rest : List Frame) (v : Bytes) (next : PState) :
    (storeValue orc m f rest v next).pendingInclude = m.pendingInclude := by
  unfold storeValue
  split
  · simp
  · split
    · simp
    · dsimp only
      split
      · simp
      · split
        · simp [vetoed_pending]
        · rename_i m2 h2
          simp only
          rw [runValid_pending orc _ m2 _ h2]
          simp

macro "pend_auto" : tactic => `(tactic| (
  repeat' split
  all_goals (first
    | rfl
    | (simp; done)
    | (simp [handleDeprecated_pending, storeValue_pending, vetoed_pending]; done))))

theorem step_s0_pending (orc : Oracle) (m : PM) (f : Frame) (rest : List Frame) (tok : Tok) :
    (step_s0 orc m f rest tok).pendingInclude = m.pendingInclude := by
  unfold step_s0
  have hd := handleDeprecated_pending m f
  generalize handleDeprecated m f = p at hd
  obtain ⟨m1, f1⟩ := p
  simp only at hd
  dsimp only
  repeat' split
  all_goals (first
    | exact hd
    | (simp [hd]; done)
    | (rename_i m2 h2; simp only []; rw [runValid_pending orc _ m2 _ h2]; exact hd)
    | (simp [vetoed_pending, hd]; done))

theorem step_s1_pending (orc : Oracle) (m : PM) (f : Frame) (rest : List Frame) (tok : Tok) :
    (step_s1 orc m f rest tok).pendingInclude = m.pendingInclude := by
  unfold step_s1; pend_auto
theorem step_s2_pending (orc : Oracle) (m : PM) (f : Frame) (rest : List Frame) (tok : Tok) :
    (step_s2 orc m f rest tok).pendingInclude = m.pendingInclude := by
  unfold step_s2; dsimp only; pend_auto
theorem step_s3_pending (orc : Oracle) (m : PM) (f : Frame) (rest : List Frame) (tok : Tok) :
    (step_s3 orc m f rest tok).pendingInclude = m.pendingInclude := by
  unfold step_s3; pend_auto
theorem step_s4_pending (orc : Oracle) (m : PM) (f : Frame) (rest : List Frame) (tok : Tok) :
    (step_s4 orc m f rest tok).pendingInclude = m.pendingInclude := by
  unfold step_s4
  repeat' split
  all_goals (first
    | rfl
    | (simp; done)
    | (simp [vetoed_pending]; done)
    | (rename_i m2 h2; simp only []; exact runValid_pending orc _ m2 _ h2))
theorem step_s5_pending (orc : Oracle) (m : PM) (f : Frame) (rest : List Frame) (tok : Tok) :
    (step_s5 orc m f rest tok).pendingInclude = m.pendingInclude := by
  unfold step_s5; dsimp only; pend_auto
theorem step_s6_pending (orc : Oracle) (m : PM) (f : Frame) (rest : List Frame) (tok : Tok) :
    (step_s6 orc m f rest tok).pendingInclude = m.pendingInclude := by
  unfold step_s6; pend_auto
theorem step_s7_pending (orc : Oracle) (m : PM) (f : Frame) (rest : List Frame) (tok : Tok) :
    (step_s7 orc m f rest tok).pendingInclude = m.pendingInclude := by
  unfold step_s7; pend_auto
theorem step_s8_pending (orc : Oracle) (m : PM) (f : Frame) (rest : List Frame) (tok : Tok) (h : tok ≠ .rparen) :
    (step_s8 orc m f rest tok).pendingInclude = m.pendingInclude := by
  unfold step_s8
  split
  · exact absurd rfl h
  · rfl
  · simp
theorem step_s9_pending (orc : Oracle) (m : PM) (f : Frame) (rest : List Frame) (tok : Tok) (h : tok ≠ .rparen) :
    (step_s9 orc m f rest tok).pendingInclude = m.pendingInclude := by
  unfold step_s9
  split
  · exact absurd rfl h
  · rfl
  · simp
theorem step_s10_pending (orc : Oracle) (m : PM) (f : Frame) (rest : List Frame) (tok : Tok) :
    (step_s10 orc m f rest tok).pendingInclude = m.pendingInclude := by
  unfold step_s10; dsimp only; pend_auto
theorem step_s11_pending (orc : Oracle) (m : PM) (f : Frame) (rest : List Frame) (tok : Tok) :
    (step_s11 orc m f rest tok).pendingInclude = m.pendingInclude := by
  unfold step_s11; pend_auto
theorem step_s12_pending (orc : Oracle) (m : PM) (f : Frame) (rest : List Frame) (tok : Tok) :
    (step_s12 orc m f rest tok).pendingInclude = m.pendingInclude := by
  unfold step_s12; pend_auto
theorem step_s13_pending (orc : Oracle) (m : PM) (f : Frame) (rest : List Frame) (tok : Tok) :
    (step_s13 orc m f rest tok).pendingInclude = m.pendingInclude := by
  unfold step_s13; dsimp only; pend_auto
theorem step_s14_pending (orc : Oracle) (m : PM) (f : Frame) (rest : List Frame) (tok : Tok) :
    (step_s14 orc m f rest tok).pendingInclude = m.pendingInclude := by
  unfold step_s14; pend_auto

macro "state_dispatch" h:term : tactic => `(tactic| (
  first
    | exact step_s0_pending _ _ _ _ _
    | exact step_s1_pending _ _ _ _ _
    | exact step_s2_pending _ _ _ _ _
    | exact step_s3_pending _ _ _ _ _
    | exact step_s4_pending _ _ _ _ _
    | exact step_s5_pending _ _ _ _ _
    | exact step_s6_pending _ _ _ _ _
    | exact step_s7_pending _ _ _ _ _
    | exact step_s8_pending _ _ _ _ _ $h
    | exact step_s9_pending _ _ _ _ _ $h
    | exact step_s10_pending _ _ _ _ _
    | exact step_s11_pending _ _ _ _ _
    | exact step_s12_pending _ _ _ _ _
    | exact step_s13_pending _ _ _ _ _
    | exact step_s14_pending _ _ _ _ _))

/-- **only the closing parenthesis of a call can ask for an include** -/
theorem pstep_pending (orc : Oracle) (m : PM) (tok : Tok) (nl : Nat) (h : tok ≠ .rparen) :
    (pstep orc m tok nl).pendingInclude = m.pendingInclude := by
  unfold pstep
  by_cases hr : (m.status != .running) = true
  · simp [hr]
  · simp only [hr, Bool.false_eq_true, if_false]
    cases hfr : m.frames with
    | nil => rfl
    | cons f0 rest =>
      simp only []
      cases tok with
      | err e => simp
      | eof =>
        simp only []
        split
        · simp
        · have := handleDeprecated_pending { m with frames := { f0 with cfg := f0.cfg.setLine (f0.cfg.line + nl) } :: rest }
            { f0 with cfg := f0.cfg.setLine (f0.cfg.line + nl) }
          generalize handleDeprecated _ _ = p at this ⊢
          obtain ⟨m1, f1⟩ := p
          simpa using this
      | rparen => exact absurd rfl h
      | comment v =>
        simp only []
        split
        · rfl
        · cases hs : f0.state <;> simp only [] <;> state_dispatch h
      | str v => simp only [Bool.false_and, Bool.false_eq_true, if_false]; cases hs : f0.state <;> simp only [] <;> state_dispatch h
      | eq => simp only [Bool.false_and, Bool.false_eq_true, if_false]; cases hs : f0.state <;> simp only [] <;> state_dispatch h
      | pluseq => simp only [Bool.false_and, Bool.false_eq_true, if_false]; cases hs : f0.state <;> simp only [] <;> state_dispatch h
      | lbrace => simp only [Bool.false_and, Bool.false_eq_true, if_false]; cases hs : f0.state <;> simp only [] <;> state_dispatch h
      | rbrace => simp only [Bool.false_and, Bool.false_eq_true, if_false]; cases hs : f0.state <;> simp only [] <;> state_dispatch h
      | lparen => simp only [Bool.false_and, Bool.false_eq_true, if_false]; cases hs : f0.state <;> simp only [] <;> state_dispatch h
      | comma => simp only [Bool.false_and, Bool.false_eq_true, if_false]; cases hs : f0.state <;> simp only [] <;> state_dispatch h

theorem parseToks_setSrcs (orc : Oracle) (S : List Src) : ∀ (ts : List (Tok × Nat)) (m : PM),
    parseToks orc (setSrcs m S) ts = setSrcs (parseToks orc m ts) S := by
  intro ts
  induction ts with
  | nil => intro m; rfl
  | cons x xs ih => intro m; rw [parseToks_cons, parseToks_cons, pstep_srcs, ih]

/-- **the parse loop over one source takes exactly the scanned tokens**: while the scanner finds tokens that carry on
and the machine keeps running, `n` rounds of the loop are the token machine over those `n` tokens, the source
advanced to what the scanner left -/
theorem loop_steps (orc : Oracle) (pe : PEnv) {inp : Bytes} {ts : List (Tok × Nat)} {out : Bytes}
    (h : LexSteps pe.env inp ts out) :
    (∀ t ∈ ts, t.1 ≠ .rparen) →
    ∀ (fuel : Nat) (m : PM) (src : Src), m.status = .running → m.srcs = [src] → src.rest = inp → m.pendingInclude = none →
    (parseToks orc m ts).status = .running →
    parseLoopFrom orc pe (fuel + ts.length) .initial m =
      parseLoopFrom orc pe fuel .initial (setSrcs (parseToks orc m ts) [{ src with rest := out }]) := by
  induction h with
  | nil inp =>
    intro _ fuel m src _ hs hr _ _
    simp only [List.length_nil, Nat.add_zero, parseToks, List.foldl_nil]
    congr 1
    cases m; cases src
    simp only [setSrcs] at hs hr ⊢
    subst hs; subst hr; rfl
  | cons inp t nl rest ts out hl hg hrest ih =>
    intro hnp fuel m src hrun hs hr hpend hfin
    have hne : (lexInitial pe.env 0 src.rest).tok ≠ .eof := by
      rw [hr, hl]; intro e; simp only at e; subst e; simp [Tok.goesOn] at hg
    have e := C13_loop_reads_scan orc pe (fuel + ts.length) m src [] hrun hs hne
    have hlen : fuel + ((t, nl) :: ts).length = fuel + ts.length + 1 := by simp; omega
    rw [hlen, e, hr, hl]
    simp only []
    -- the machine after this token
    have hsr : ({ m with srcs := [{ src with rest := rest }] } : PM) = setSrcs m [{ src with rest := rest }] := rfl
    rw [hsr, pstep_srcs]
    have hp1 : (pstep orc m t nl).pendingInclude = none := by
      rw [pstep_pending orc m t nl (hnp (t, nl) (by simp))]; exact hpend
    have haf : afterTok pe (setSrcs (pstep orc m t nl) [{ src with rest := rest }]) = setSrcs (pstep orc m t nl) [{ src with rest := rest }] := by
      simp [afterTok, setSrcs, hp1]
    rw [haf]
    rw [parseToks_cons] at hfin ⊢
    have hrun1 : (pstep orc m t nl).status = .running := by
      by_cases hc : (pstep orc m t nl).status = .running
      · exact hc
      · exfalso
        rw [parseToks_stopped orc _ ts hc] at hfin
        exact hc hfin
    have := ih (fun x hx => hnp x (by simp [hx])) fuel (setSrcs (pstep orc m t nl) [{ src with rest := rest }]) { src with rest := rest }
      hrun1 rfl rfl hp1 (by rw [parseToks_setSrcs]; exact hfin)
    rw [this, parseToks_setSrcs]
    rfl

theorem lexSteps_length (env : Env) {inp : Bytes} {ts : List (Tok × Nat)} {out : Bytes} (h : LexSteps env inp ts out) :
    ts.length + out.length ≤ inp.length := by
  induction h with
  | nil _ => simp
  | cons inp t nl rest ts out hl hg _ ih =>
    have : rest.length + 1 ≤ inp.length := by
      cases inp with
      | nil => simp [lexInitial] at hl; rw [← hl.1] at hg; simp [Tok.goesOn] at hg
      | cons c cs =>
        have := lex_progress env cs c 0
        rw [hl] at this
        simp only [List.length_cons]
        simpa using this
    simp only [List.length_cons]
    omega

theorem flatSeq_no_rparen : ∀ (b : Bool) (l : List (Nat × Bytes × Nat)), ∀ x ∈ flatSeq b l, x.1 ≠ Tok.rparen := by
  intro b l
  induction l generalizing b with
  | nil => intro x hx; simp [flatSeq] at hx
  | cons y ys ihy =>
    obtain ⟨a, bb, cc⟩ := y
    intro x hx
    cases b <;> simp only [flatSeq, List.mem_cons] at hx
    · rcases hx with rfl | rfl | hx
      · simp
      · simp
      · exact ihy false x hx
    · rcases hx with rfl | hx
      · simp
      · exact ihy false x hx

theorem optToks_no_rparen {o : Opt} {ts : List (Tok × Nat)} (h : OptToks o ts) : ∀ t ∈ ts, t.1 ≠ .rparen := by
  intro t ht
  cases h with
  | scalar => simp at ht; rcases ht with rfl | rfl | rfl <;> simp
  | listNil => simp at ht; rcases ht with rfl | rfl | rfl | rfl <;> simp
  | listCons v0 t0 vs seq n1 n2 n3 c0' n0 n4 =>
    simp only [List.mem_append, List.mem_cons, List.mem_singleton, List.not_mem_nil, or_false] at ht
    rcases ht with ((rfl | rfl | rfl) | ht) | rfl
    · simp
    · simp
    · simp
    · exact flatSeq_no_rparen true _ t ht
    · simp

theorem flatToks_no_rparen {os : List Opt} {ts : List (Tok × Nat)} (h : FlatToks os ts) : ∀ t ∈ ts, t.1 ≠ .rparen := by
  induction h with
  | nil => intro t ht; simp at ht
  | cons o os ts1 tss h1 _ ih =>
    intro t ht
    rcases List.mem_append.mp ht with ht | ht
    · exact optToks_no_rparen h1 t ht
    · exact ih t ht

/-- only newlines left: the scanner reports the end of the input -/
theorem lex_only_newlines (env : Env) (k : Nat) : (lexInitial env 0 (List.replicate k c_nl ++ [])).tok = .eof := by
  rw [lex_lead]; rfl

/-- the end of the input at a top-level item boundary: accepted -/
theorem pstep_eof_top (orc : Oracle) (m : PM) (f : Frame) (nl : Nat)
    (hrun : m.status = .running) (hfr : m.frames = [f]) (hst : f.state = .s0) (hlev : f.level = 0) (hnd : noPendingDeprecated f) :
    pstep orc m .eof nl = { m with frames := [{ f with cfg := f.cfg.setLine (f.cfg.line + nl) }], status := .accepted } := by
  have hnd' := noPending_setLine f (f.cfg.line + nl) hnd
  obtain ⟨cfg, level, state, opt, comment, opttitle, funcargs, ignore, depth, numValues, back⟩ := f
  simp only at hst hlev hnd'
  subst hst; subst hlev
  unfold pstep
  simp only [hrun, hfr]
  rw [handleDeprecated_id _ _ hnd']
  simp

/-- **C05 (flat configurations, byte level).** Print a flat configuration `c` - top-level options only, each an
integer, boolean or string option, scalar (holding one value) or list (any number of values), without callbacks,
annotations or print filter, cells in range / non-NULL / NUL-free - and parse the printed text with `cfg_parse_buf` into
ANY context `c0` with the same declarations (same names, types and list flags in the same order; plain, i.e. no
callbacks, not deprecated; names distinct under `c0`'s case rule), whatever `c0`'s options hold: the parse is
accepted and every option of the result holds exactly the value sequence of its counterpart in `c`.  Bytes, scanner,
token machine and parse loop are all inside the statement. -/
theorem C05_flat_roundtrip (orc : Oracle) (pe : PEnv) (c c0 : Cfg)
    (hpff : c.info.pff = none) (hpr : ∀ o ∈ c.opts, Printable o)
    (hal : All2 Aligned c.opts c0.opts)
    (hpw : List.Pairwise (fun a b => titleEq c0.flags.nocase a.name b.name = false) c.opts) :
    (parseBuf orc pe c0 (cfgPrint c)).rc = 0 ∧
    All2 (fun r o => r.vals = o.vals) (parseBuf orc pe c0 (cfgPrint c)).cfg.opts c.opts ∧
    All2 (fun r o0 => r.info = o0.info ∧ r.flags.list = o0.flags.list ∧ r.comment = o0.comment)
      (parseBuf orc pe c0 (cfgPrint c)).cfg.opts c0.opts ∧
    (parseBuf orc pe c0 (cfgPrint c)).cfg.info.pff = c0.info.pff := by
  -- the text and its tokens
  have htext : cfgPrint c = printOpts none 0 c.opts := by
    cases c with
    | mk info opts => simp only [Cfg.info] at hpff; simp [cfgPrint, printCfg, hpff, effPff, Cfg.opts]
  obtain ⟨ts, k', hft, hlex⟩ := lex_opts pe.env c.opts 0 [] hpr
  simp only [List.replicate_zero, List.nil_append, List.append_nil] at hlex
  -- the start machine
  let c1 := (c0.setFilename (some bufName)).setLine 1
  have hopts1 : c1.opts = [] ++ c0.opts := by cases c0; rfl
  have hfl1 : c1.flags = c0.flags := by cases c0; rfl
  let f0 : Frame := { cfg := c1 }
  let m0 : PM := startPM c1 (cfgPrint c) 0
  have hat0 : AtItem f0 := ⟨rfl, rfl, by intro r o hr _; simp [f0] at hr⟩
  obtain ⟨f', done, e1, hat', hlev', _hbk', _hot', hopts', hfl', hpf', hvals, hdecl⟩ :=
    flat_steps orc c.opts c0.opts ts m0 f0 [] [] hft hal rfl rfl hat0 hopts1
      (by intro p hp; simp at hp) (by rw [hfl1]; exact hpw)
  have hnp := flatToks_no_rparen hft
  have hlen := lexSteps_length pe.env hlex
  rw [← htext] at hlex hlen
  have hfin : (parseToks orc m0 ts).status = .running := by rw [e1]; rfl
  -- enough fuel: one round per token and one for the end of the input
  obtain ⟨F, hF⟩ : ∃ F, fuelFor pe (cfgPrint c) = F + 1 + ts.length := ⟨fuelFor pe (cfgPrint c) - 1 - ts.length, by unfold fuelFor; omega⟩
  have hloop := loop_steps orc pe hlex hnp (F + 1) m0 { rest := cfgPrint c } rfl rfl rfl rfl hfin
  -- the end-of-input round
  let m1 : PM := setSrcs (parseToks orc m0 ts) [{ rest := List.replicate k' c_nl }]
  have heof : (lexInitial pe.env 0 (List.replicate k' c_nl)).tok = .eof := by
    have := lex_only_newlines pe.env k'; simpa using this
  have hround := C13_loop_reads_eof orc pe F m1 { rest := List.replicate k' c_nl } (by show (parseToks orc m0 ts).status = _; exact hfin) rfl heof
  -- what the end-of-input token does at the top-level item boundary
  have hpst : ∀ nl (S : List Src),
      pstep orc (setSrcs { m0 with frames := [f'] } S) .eof nl =
        { setSrcs { m0 with frames := [f'] } S with frames := [{ f' with cfg := f'.cfg.setLine (f'.cfg.line + nl) }], status := .accepted } :=
    fun nl S => pstep_eof_top orc _ f' nl rfl rfl hat'.st hlev' hat'.nd
  unfold parseBuf parseFp
  show (finishParse c1 (parseLoop orc pe (fuelFor pe (cfgPrint c)) m0) 0).rc = 0 ∧ All2 _ (finishParse c1 (parseLoop orc pe (fuelFor pe (cfgPrint c)) m0) 0).cfg.opts c.opts ∧
    All2 _ (finishParse c1 (parseLoop orc pe (fuelFor pe (cfgPrint c)) m0) 0).cfg.opts c0.opts ∧
    (finishParse c1 (parseLoop orc pe (fuelFor pe (cfgPrint c)) m0) 0).cfg.info.pff = c0.info.pff
  unfold parseLoop
  rw [hF, hloop, hround]
  simp only [m1]
  rw [e1]
  have e2 : ({ setSrcs { m0 with frames := [f'] } [{ rest := List.replicate k' c_nl }] with srcs := [{ ({ rest := List.replicate k' c_nl } : Src) with rest := (lexInitial pe.env 0 (List.replicate k' c_nl)).rest }] } : PM)
      = setSrcs { m0 with frames := [f'] } [{ rest := (lexInitial pe.env 0 (List.replicate k' c_nl)).rest }] := rfl
  rw [e2, hpst]
  generalize hM : ({ setSrcs { m0 with frames := [f'] } [{ rest := (lexInitial pe.env 0 (List.replicate k' c_nl)).rest }] with
        frames := [{ f' with cfg := f'.cfg.setLine (f'.cfg.line + (lexInitial pe.env 0 (List.replicate k' c_nl)).nl) }], status := .accepted } : PM) = M
  have hMp : M.pendingInclude = none := by rw [← hM]; rfl
  have hMs : M.status = .accepted := by rw [← hM]
  have hMf : M.frames = [{ f' with cfg := f'.cfg.setLine (f'.cfg.line + (lexInitial pe.env 0 (List.replicate k' c_nl)).nl) }] := by rw [← hM]
  simp only [afterTok, hMp]
  rw [loop_stopped orc pe F M (by rw [hMs]; simp)]
  have hpfl : ∀ (x : Cfg) (n : Nat), (x.setLine n).info.pff = x.info.pff := by intro x n; cases x; rfl
  have hpf1 : c1.info.pff = c0.info.pff := by cases c0; rfl
  refine ⟨by simp [finishParse, hMs], ?_, ?_, ?_⟩
  · simp only [finishParse, hMf, collapse, collapseInto, opts_setLine]
    rw [hopts']
    simpa using hvals
  · simp only [finishParse, hMf, collapse, collapseInto, opts_setLine]
    rw [hopts']
    simpa using hdecl
  · simp only [finishParse, hMf, collapse, collapseInto]
    rw [hpfl, hpf', hpf1]

/-- the printed form of a plain option depends only on its name, type, list flag and values -/
theorem printOpt_congr (r o : Opt) (hp : Printable o) (hname : r.name = o.name) (hty : r.ty = o.ty)
    (hpc : r.info.printCb = false) (hl : r.flags.list = o.flags.list) (hv : r.vals = o.vals) (hc : r.comment = none) :
    printOpt none 0 r = printOpt none 0 o := by
  have hpr : Printable r :=
    ⟨by rw [hty]; exact hp.ty, hpc, hc, by rw [hname]; exact hp.name0, by rw [hv, hty]; exact hp.cells,
     by intro h; rw [hv]; exact hp.scalar1 (by rw [← hl]; exact h)⟩
  by_cases hlist : o.flags.list = true
  · rw [print_list o hp hlist, print_list r hpr (by rw [hl]; exact hlist), hname, hty, hv]
  · have hl' : o.flags.list = false := by simpa using hlist
    obtain ⟨v, hvv⟩ := hp.scalar1 hl'
    rw [print_scalar o v hp hl' hvv, print_scalar r v hpr (by rw [hl]; exact hl') (by rw [hv]; exact hvv), hname, hty]

/-- three lists related position by position -/
theorem printOpts_congr : ∀ (done os os0 : List Opt),
    All2 (fun r o => r.vals = o.vals) done os →
    All2 (fun r o0 => r.info = o0.info ∧ r.flags.list = o0.flags.list ∧ r.comment = o0.comment) done os0 →
    All2 Aligned os os0 → (∀ o ∈ os, Printable o) → (∀ o0 ∈ os0, o0.comment = none ∧ o0.info.printCb = false) →
    printOpts none 0 done = printOpts none 0 os := by
  intro done
  induction done with
  | nil => intro os os0 h1 _ _ _ _; cases h1; rfl
  | cons r rs ih =>
    intro os os0 h1 h2 h3 hp hf
    cases h1 with
    | cons hv hvs =>
      rename_i o os'
      cases h2 with
      | cons hd hds =>
        rename_i o0 os0'
        cases h3 with
        | cons ha has =>
          obtain ⟨hname, hty, hlist, _⟩ := ha
          obtain ⟨hi, hl, hc⟩ := hd
          have hf0 := hf o0 (by simp)
          have e := printOpt_congr r o (hp o (by simp))
            (by show r.info.name = o.name; rw [hi]; exact hname)
            (by show r.info.ty = o.ty; rw [hi]; exact hty)
            (by rw [hi]; exact hf0.2) (by rw [hl, hlist]) hv (by rw [hc]; exact hf0.1)
          simp only [printOpts, hides, Bool.false_eq_true, if_false]
          rw [e, ih os' os0' hvs hds has (fun x hx => hp x (by simp [hx])) (fun x hx => hf x (by simp [hx]))]

/-- **C05 (flat configurations: printing the re-parsed configuration reproduces the first text).** With the target a
context of the same declarations that carries no annotations, print callbacks or print filter (as `cfg_init` makes it),
the text printed for the re-parsed configuration is, byte for byte, the text that was parsed - so a further
parse-and-print cycle changes nothing either. -/
theorem C05_flat_fixpoint (orc : Oracle) (pe : PEnv) (c c0 : Cfg)
    (hpff : c.info.pff = none) (hpr : ∀ o ∈ c.opts, Printable o)
    (hal : All2 Aligned c.opts c0.opts)
    (hpw : List.Pairwise (fun a b => titleEq c0.flags.nocase a.name b.name = false) c.opts)
    (hpff0 : c0.info.pff = none) (hfresh : ∀ o0 ∈ c0.opts, o0.comment = none ∧ o0.info.printCb = false) :
    cfgPrint (parseBuf orc pe c0 (cfgPrint c)).cfg = cfgPrint c := by
  obtain ⟨_, hv, hd, hp⟩ := C05_flat_roundtrip orc pe c c0 hpff hpr hal hpw
  have e1 : ∀ (x : Cfg), x.info.pff = none → cfgPrint x = printOpts none 0 x.opts := by
    intro x hx
    cases x with
    | mk info opts => simp only [Cfg.info] at hx; simp [cfgPrint, printCfg, hx, effPff, Cfg.opts]
  rw [e1 _ (by rw [hp]; exact hpff0), printOpts_congr _ _ _ hv hd hal hpr hfresh]
  exact (e1 c hpff).symm

/-! Non-vacuity: an ordinary flat configuration meets the hypotheses (an integer, a string with a space and a quote, an
integer list; the target context holds other values). -/
private def exI : Opt := .mk { name := [105], ty := .int } {} [] [.int 42] none
private def exS : Opt := .mk { name := [115], ty := .str } {} [] [.str (some [97, 32, 34, 98])] none
private def exL : Opt := .mk { name := [108], ty := .int } { list := true } [] [.int 1, .int (-2)] none
private def exC : Cfg := .mk { name := [114] } [exI, exS, exL]
private def exI0 : Opt := .mk { name := [105], ty := .int } { reset := true } [] [.int 7] none
private def exS0 : Opt := .mk { name := [115], ty := .str } { reset := true } [] [.str (some [100])] none
private def exL0 : Opt := .mk { name := [108], ty := .int } { list := true, reset := true } [] [.int 9] none
private def exC0 : Cfg := .mk { name := [114] } [exI0, exS0, exL0]

private theorem exPlain (o : Opt) (hty : o.ty = .int ∨ o.ty = .bool ∨ o.ty = .str) (h1 : o.info.parseCb = false) (h2 : o.info.validCb = false)
    (h3 : o.flags.deprecated = false) (h4 : o.flags.multi = false) (h5 : plainName o.name) (h6 : freeEvOpt o = []) : PlainDecl o :=
  ⟨hty, h1, h2, h3, h4, h5, h6⟩

example : exC.info.pff = none ∧ (∀ o ∈ exC.opts, Printable o) ∧ All2 Aligned exC.opts exC0.opts ∧
    List.Pairwise (fun a b => titleEq exC0.flags.nocase a.name b.name = false) exC.opts := by
  refine ⟨rfl, ?_, ?_, ?_⟩
  · intro o ho
    simp only [exC, Cfg.opts, List.mem_cons, List.not_mem_nil, or_false] at ho
    rcases ho with rfl | rfl | rfl
    · exact ⟨Or.inl rfl, rfl, rfl, by intro c hc; simp [exI, Opt.name, Opt.info] at hc; omega,
        by intro v hv; simp [exI, Opt.vals] at hv; subst hv; decide, fun _ => ⟨_, rfl⟩⟩
    · exact ⟨Or.inr (Or.inr rfl), rfl, rfl, by intro c hc; simp [exS, Opt.name, Opt.info] at hc; omega,
        by intro v hv; simp [exS, Opt.vals] at hv; subst hv; decide, fun _ => ⟨_, rfl⟩⟩
    · exact ⟨Or.inl rfl, rfl, rfl, by intro c hc; simp [exL, Opt.name, Opt.info] at hc; omega,
        by intro v hv; simp [exL, Opt.vals] at hv; rcases hv with rfl | rfl <;> decide, fun h => by simp [exL, Opt.flags] at h⟩
  · have pn : ∀ c : Nat, c ≠ 124 → c ≠ 61 → plainName [c] := by
      intro c h1 h2
      refine ⟨by simp, ?_⟩
      intro x hx
      simp only [List.mem_singleton] at hx; subst hx
      simp [isSep, h1, h2]
    refine All2.cons ⟨rfl, rfl, rfl, exPlain _ (Or.inl rfl) rfl rfl rfl rfl (pn 105 (by decide) (by decide)) rfl⟩
      (All2.cons ⟨rfl, rfl, rfl, exPlain _ (Or.inr (Or.inr rfl)) rfl rfl rfl rfl (pn 115 (by decide) (by decide)) rfl⟩
        (All2.cons ⟨rfl, rfl, rfl, exPlain _ (Or.inl rfl) rfl rfl rfl rfl (pn 108 (by decide) (by decide)) rfl⟩ All2.nil))
  · simp only [exC, Cfg.opts]
    refine List.pairwise_cons.mpr ⟨?_, List.pairwise_cons.mpr ⟨?_, List.pairwise_cons.mpr ⟨?_, List.Pairwise.nil⟩⟩⟩
    · intro b hb; simp at hb; rcases hb with rfl | rfl <;> decide
    · intro b hb; simp at hb; subst hb; decide
    · intro b hb; simp at hb

end Confuse
