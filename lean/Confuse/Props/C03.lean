import Confuse.Lemmas.Lexer
/-!
# C03 — string, escape, environment and comment lexing decode as specified

Statements only quantify over model-level objects; helper lemmas live in `Confuse.Lemmas.Lexer`.
-/
namespace Confuse
open Confuse.Spec

/-- one item of a double-quoted body, read from plain mode -/
theorem dq_item (env : Env) (i : DqItem) (acc : Bytes) (nl : Nat) (tail : Bytes)
    (hwf : i.wf = true) (hnext : i.okNext tail = true) :
    dqRun env ⟨.plain, acc, nl⟩ (i.render ++ tail) =
      dqRun env ⟨.plain, (i.value env).reverse ++ acc, nl + i.newlines⟩ tail := by
  cases i with
  | plain c =>
    simp only [DqItem.wf, Bool.and_eq_true, bne_iff_ne, ne_eq] at hwf
    obtain ⟨⟨⟨h1, h2⟩, h3⟩, h4⟩ := hwf
    simp [DqItem.render, DqItem.value, DqItem.newlines, dqRun, dqStep, dqPlain, h1, h2, h3, h4]
  | dollar =>
    simp only [DqItem.okNext] at hnext
    cases tail with
    | nil => simp [DqItem.render, DqItem.value, DqItem.newlines, dqRun, dqStep, dqPlain]
    | cons d ds =>
      simp only [List.head?_cons, List.tail_cons] at hnext
      have : (d = c_lbr && hasRbr ds) = false := by
        by_cases hd : d = c_lbr
        · subst hd; simpa using hnext
        · simp [hd]
      simp [DqItem.render, DqItem.value, DqItem.newlines, dqRun, dqStep, dqPlain, this]
  | nl => simp [DqItem.render, DqItem.value, DqItem.newlines, dqRun, dqStep, dqPlain]
  | cont => simp [DqItem.render, DqItem.value, DqItem.newlines, dqRun, dqStep, dqPlain]
  | letter l =>
    simp only [DqItem.wf] at hwf
    have hl : ∃ v, simpleEsc l = some v := Option.isSome_iff_exists.mp hwf
    obtain ⟨v, hv⟩ := hl
    have hnd : isDec l = false := by
      simp only [simpleEsc] at hv
      simp only [isDec]
      split at hv <;> (try subst l) <;> (try simp) <;>
      split at hv <;> (try subst l) <;> (try simp) <;>
      split at hv <;> (try subst l) <;> (try simp) <;>
      split at hv <;> (try subst l) <;> (try simp) <;>
      split at hv <;> (try subst l) <;> (try simp) <;>
      split at hv <;> (try subst l) <;> (try simp) <;>
      split at hv <;> (try subst l) <;> (try simp) <;>
      split at hv <;> (try subst l) <;> (try simp) <;> simp at hv
    have hnn : l ≠ c_nl := by intro e; subst e; simp [simpleEsc] at hv
    have hnx : l ≠ 120 := by intro e; subst e; simp [simpleEsc] at hv
    simp [DqItem.render, DqItem.value, DqItem.newlines, dqRun, dqStep, dqPlain, hnd, hnn, hnx, hv]
  | other c =>
    simp only [DqItem.wf, Bool.and_eq_true, bne_iff_ne, ne_eq, Bool.not_eq_true', Option.isNone_iff_eq_none] at hwf
    obtain ⟨⟨⟨h1, h2⟩, h3⟩, h4⟩ := hwf
    simp [DqItem.render, DqItem.value, DqItem.newlines, dqRun, dqStep, dqPlain, h1, h2, h3, h4]
  | xlit =>
    simp only [DqItem.okNext] at hnext
    cases tail with
    | nil =>
      simp [DqItem.render, DqItem.value, DqItem.newlines, dqRun, dqStep, dqPlain, isDec, dqEof]
    | cons d ds =>
      have hd : isHex d = false := by simpa using hnext
      simp [DqItem.render, DqItem.value, DqItem.newlines, dqRun, dqStep, dqPlain, isDec, hd]
  | hex hs =>
    simp only [DqItem.wf, Bool.and_eq_true, decide_eq_true_eq] at hwf
    obtain ⟨⟨hl1, hl2⟩, hall⟩ := hwf
    match hs, hl1, hl2, hall with
    | [h1], _, _, hall =>
      have hh1 : isHex h1 = true := by simpa using hall
      simp only [DqItem.okNext] at hnext
      cases tail with
      | nil =>
        simp [DqItem.render, DqItem.value, DqItem.newlines, dqRun, dqStep, dqPlain, isDec, dqEof, hh1]
      | cons d ds =>
        have hd : isHex d = false := by simpa using hnext
        simp [DqItem.render, DqItem.value, DqItem.newlines, dqRun, dqStep, dqPlain, isDec, hh1, hd, hexValL]
    | [h1, h2], _, _, hall =>
      have hh : isHex h1 = true ∧ isHex h2 = true := by simpa using hall
      simp [DqItem.render, DqItem.value, DqItem.newlines, dqRun, dqStep, dqPlain, isDec, hh.1, hh.2, hexValL]
  | oct ds =>
    simp only [DqItem.wf, Bool.and_eq_true, decide_eq_true_eq] at hwf
    obtain ⟨⟨⟨hl1, hl2⟩, hall⟩, hv⟩ := hwf
    cases ds with
    | nil => simp at hl1
    | cons d1 rest =>
      simp only [List.all_cons, Bool.and_eq_true] at hall
      have hd1 : isDec d1 = true := isOct_isDec d1 hall.1
      have hn1 : d1 ≠ c_nl := by intro e; subst e; simp [isDec] at hd1
      have e1 : dqRun env ⟨.plain, acc, nl⟩ ((DqItem.oct (d1 :: rest)).render ++ tail) =
          dqRun env ⟨.digits 1 true (d1 - 48), acc, nl⟩ (rest ++ tail) := by
        simp [DqItem.render, dqRun, dqStep, dqPlain, hd1, hn1, hall.1]
      rw [e1, dqRun_digits env rest 1 (d1 - 48) acc nl tail hall.2]
      have hlen : 1 + rest.length ≤ 3 := by simp at hl2; omega
      have hval : List.foldl (fun a d => a * 8 + (d - 48)) (d1 - 48) rest = octVal (d1 :: rest) := by
        simp [octVal]
      have hfin : finDigits (1 + rest.length) true (octVal (d1 :: rest)) = .ok (octVal (d1 :: rest)) := by
        have : ¬ (octVal (d1 :: rest) > 255) := by omega
        simp [finDigits, hlen, this]
      rw [hval]
      simp only [DqItem.okNext] at hnext
      cases tail with
      | nil => simp [dqRun, dqEof, hfin, DqItem.value, DqItem.newlines]
      | cons d ds =>
        have hd : isDec d = false := by simpa using hnext
        simp [dqRun, dqStep, hd, hfin, DqItem.value, DqItem.newlines]
  | env name dflt =>
    simp only [DqItem.wf, Bool.and_eq_true] at hwf
    obtain ⟨hname, hd⟩ := hwf
    have hname' : name.all (· != c_rbr) = true := by
      rw [List.all_eq_true] at hname ⊢
      intro x hx
      have := hname x hx
      simp only [Bool.and_eq_true] at this
      exact this.1
    cases dflt with
    | none =>
      have e1 : dqRun env ⟨.plain, acc, nl⟩ ((DqItem.env name none).render ++ tail) =
          dqRun env ⟨.env [], acc, nl⟩ (name ++ c_rbr :: tail) := by
        simp [DqItem.render, dqRun, dqStep, dqPlain, hasRbr_append_rbr]
      rw [e1, dqRun_envBody env name [] acc nl tail hname']
      simp [envLookup_name env name hname, DqItem.value, DqItem.newlines, envValue]
      cases env name <;> simp
    | some d =>
      have hd' : d.all (· != c_rbr) = true := by simpa using hd
      have hbody : (name ++ c_colon :: c_minus :: d).all (· != c_rbr) = true := by
        simp [List.all_append, hname', hd']
      have e1 : dqRun env ⟨.plain, acc, nl⟩ ((DqItem.env name (some d)).render ++ tail) =
          dqRun env ⟨.env [], acc, nl⟩ ((name ++ c_colon :: c_minus :: d) ++ c_rbr :: tail) := by
        have : hasRbr (name ++ (c_colon :: c_minus :: (d ++ c_rbr :: tail))) = true := by
          have := hasRbr_append_rbr (name ++ c_colon :: c_minus :: d) tail
          simpa using this
        simp [DqItem.render, dqRun, dqStep, dqPlain, this]
      rw [e1, dqRun_envBody env _ [] acc nl tail hbody]
      simp [envLookup_default env name d hname, DqItem.value, DqItem.newlines, envValue, nlCount_cons]
      cases env name <;> simp

/-- all items of a normal double-quoted body -/
theorem dq_items (env : Env) (items : List DqItem) (acc : Bytes) (nl : Nat) (tail : Bytes)
    (h : NormalDq items tail) :
    dqRun env ⟨.plain, acc, nl⟩ (renderDq items ++ tail) =
      dqRun env ⟨.plain, (valueDq env items).reverse ++ acc, nl + newlinesDq items⟩ tail :=
  dq_items_aux (dq_item env) items acc nl tail h

/-- **C03 (double quotes, accepted forms).** For every environment and every normal item list,
scanning `"` ++ render ++ `"` ++ rest yields the string token whose value is the items' value (as
the parser's `strdup` sees it), counts exactly the items' newlines, and leaves `rest`. -/
theorem C03_dq_decode (env : Env) (items : List DqItem) (nl : Nat) (rest : Bytes)
    (h : NormalDq items (c_dq :: rest)) :
    lexInitial env nl (c_dq :: (renderDq items ++ c_dq :: rest)) =
      ⟨.str (cstr (valueDq env items)), nl + newlinesDq items, rest⟩ := by
  have e : ∀ X, lexInitial env nl (c_dq :: X) = dqRun env ⟨.plain, [], nl⟩ X := by intro X; simp [lexInitial]
  rw [e, dq_items env items [] nl (c_dq :: rest) h]
  simp [dqRun, dqStep, dqPlain]

/-- **C03 (octal escape out of range).** After any normal prefix, backslash + 1..3 octal digits
with value above 0xFF, not followed by another digit, is rejected with "invalid octal number". -/
theorem C03_dq_reject_octal (env : Env) (items : List DqItem) (ds : List Nat) (d : Nat) (after : Bytes) (nl : Nat)
    (hn : NormalDq items (c_bs :: (ds ++ d :: after)))
    (hlen : 1 ≤ ds.length ∧ ds.length ≤ 3) (hoct : ds.all isOct = true) (hbig : octVal ds > 255)
    (hd : isDec d = false) :
    (lexInitial env nl (c_dq :: (renderDq items ++ c_bs :: (ds ++ d :: after)))).tok = .err .badOctal := by
  have e : ∀ X, lexInitial env nl (c_dq :: X) = dqRun env ⟨.plain, [], nl⟩ X := by intro X; simp [lexInitial]
  rw [e, dq_items env items [] nl _ hn]
  cases ds with
  | nil => simp at hlen
  | cons d1 rest =>
    simp only [List.all_cons, Bool.and_eq_true] at hoct
    have hd1 : isDec d1 = true := isOct_isDec d1 hoct.1
    have hn1 : d1 ≠ c_nl := by intro e; subst e; simp [isDec] at hd1
    have e1 : ∀ acc, dqRun env ⟨.plain, acc, nl + newlinesDq items⟩ (c_bs :: ((d1 :: rest) ++ d :: after)) =
        dqRun env ⟨.digits 1 true (d1 - 48), acc, nl + newlinesDq items⟩ (rest ++ d :: after) := by
      intro acc
      simp [dqRun, dqStep, dqPlain, hd1, hn1, hoct.1]
    rw [e1, dqRun_digits env rest 1 (d1 - 48) _ _ _ hoct.2]
    have hval : List.foldl (fun a d => a * 8 + (d - 48)) (d1 - 48) rest = octVal (d1 :: rest) := by simp [octVal]
    have hl : 1 + rest.length ≤ 3 := by simp at hlen; omega
    rw [hval]
    simp [dqRun, dqStep, hd, finDigits, hl, hbig]

/-- **C03 (bad escape).** After any normal prefix, backslash + a decimal digit run that has more
than three digits or contains 8 or 9, not followed by another digit, is rejected with
"bad escape sequence". -/
theorem C03_dq_reject_bad (env : Env) (items : List DqItem) (d1 : Nat) (ds : List Nat) (d : Nat) (after : Bytes) (nl : Nat)
    (hn : NormalDq items (c_bs :: d1 :: (ds ++ d :: after)))
    (hdec : isDec d1 = true ∧ ds.all isDec = true)
    (hbad : 1 + ds.length > 3 ∨ (isOct d1 && ds.all isOct) = false)
    (hd : isDec d = false) :
    (lexInitial env nl (c_dq :: (renderDq items ++ c_bs :: d1 :: (ds ++ d :: after)))).tok = .err .badEscape := by
  have e : ∀ X, lexInitial env nl (c_dq :: X) = dqRun env ⟨.plain, [], nl⟩ X := by intro X; simp [lexInitial]
  rw [e, dq_items env items [] nl _ hn]
  have hn1 : d1 ≠ c_nl := by intro e; subst e; simp [isDec] at hdec
  have e1 : ∀ acc, dqRun env ⟨.plain, acc, nl + newlinesDq items⟩ (c_bs :: d1 :: (ds ++ d :: after)) =
      dqRun env ⟨.digits 1 (isOct d1) (d1 - 48), acc, nl + newlinesDq items⟩ (ds ++ d :: after) := by
    intro acc
    simp [dqRun, dqStep, dqPlain, hdec.1, hn1]
  rw [e1]
  obtain ⟨v', hv'⟩ := dqRun_decdigits env ds 1 (d1 - 48) (isOct d1) ((valueDq env items).reverse ++ []) (nl + newlinesDq items) (d :: after) hdec.2
  rw [hv']
  have hf : finDigits (1 + ds.length) (isOct d1 && ds.all isOct) v' = .error .badEscape := by
    unfold finDigits
    rcases hbad with h | h
    · have : ¬ (1 + ds.length ≤ 3) := by omega
      simp [this]
    · simp [h]
  simp [dqRun, dqStep, hd, hf]

/-- **C03 (double quotes, unterminated).** A normal body that runs into the end of the input is
rejected with "unterminated string constant". -/
theorem C03_dq_unterminated (env : Env) (items : List DqItem) (nl : Nat) (h : NormalDq items []) :
    (lexInitial env nl (c_dq :: renderDq items)).tok = .err .unterminatedString := by
  have e : ∀ X, lexInitial env nl (c_dq :: X) = dqRun env ⟨.plain, [], nl⟩ X := by intro X; simp [lexInitial]
  rw [e]
  have := dq_items env items [] nl [] h
  simp only [List.append_nil] at this
  rw [this]
  simp [dqRun, dqEof]

/-- **C03 (single quotes).** Only `\'` and `\\` are unescaped, backslash-newline joins lines,
every other byte (including `$`, `{`, `"` and other backslash pairs) is kept verbatim. -/
theorem C03_sq_decode (env : Env) (items : List SqItem) (nl : Nat) (rest : Bytes)
    (h : ∀ i ∈ items, i.wf = true) :
    lexInitial env nl (c_sq :: (renderSq items ++ c_sq :: rest)) =
      ⟨.str (cstr (valueSq items)), nl + newlinesSq items, rest⟩ := by
  have e : ∀ X, lexInitial env nl (c_sq :: X) = sqRun .plain [] nl X := by intro X; simp [lexInitial]
  rw [e, sq_items items [] nl _ h]
  simp [sqRun]

/-- **C03 (single quotes, unterminated).** -/
theorem C03_sq_unterminated (env : Env) (items : List SqItem) (nl : Nat) (h : ∀ i ∈ items, i.wf = true) :
    (lexInitial env nl (c_sq :: renderSq items)).tok = .err .unterminatedString := by
  have e : ∀ X, lexInitial env nl (c_sq :: X) = sqRun .plain [] nl X := by intro X; simp [lexInitial]
  rw [e]
  have := sq_items items [] nl [] h
  simp only [List.append_nil] at this
  rw [this]
  simp [sqRun]

/-- **C03 (no substitution inside single quotes).** `'${NAME}'` denotes the five-plus bytes
themselves, whatever the environment holds. -/
theorem C03_env_not_in_sq (env : Env) (name : Bytes) (nl : Nat) (rest : Bytes)
    (hname : ∀ c ∈ name, c ≠ c_sq ∧ c ≠ c_bs ∧ c ≠ c_nl) :
    lexInitial env nl (c_sq :: ([c_dollar, c_lbr] ++ name ++ [c_rbr] ++ c_sq :: rest)) =
      ⟨.str (cstr ([c_dollar, c_lbr] ++ name ++ [c_rbr])), nl, rest⟩ := by
  have key := C03_sq_decode env (([c_dollar, c_lbr] ++ name ++ [c_rbr]).map SqItem.plain) nl rest (by
    intro i hi
    simp only [List.mem_map] at hi
    obtain ⟨c, hc, rfl⟩ := hi
    simp only [List.mem_append, List.mem_cons, List.not_mem_nil, or_false] at hc
    simp only [SqItem.wf, Bool.and_eq_true, bne_iff_ne, ne_eq]
    rcases hc with ((rfl | rfl) | hc) | rfl
    · simp
    · simp
    · exact ⟨⟨(hname c hc).1, (hname c hc).2.1⟩, (hname c hc).2.2⟩
    · simp)
  have hr : ∀ l : Bytes, renderSq (l.map SqItem.plain) = l := by
    intro l; induction l with
    | nil => rfl
    | cons a t ih => simp [renderSq, SqItem.render, ih]
  have hv : ∀ l : Bytes, valueSq (l.map SqItem.plain) = l := by
    intro l; induction l with
    | nil => rfl
    | cons a t ih => simp [valueSq, SqItem.value, ih]
  have hz : ∀ l : Bytes, newlinesSq (l.map SqItem.plain) = 0 := by
    intro l; induction l with
    | nil => rfl
    | cons a t ih => simp [newlinesSq, SqItem.newlines, ih]
  rw [hr, hv, hz] at key
  simpa using key

/-- **C03 (substitution in double quotes).** `"${NAME}"` / `"${NAME:-default}"` denote the
variable's value, else the default, else nothing. -/
theorem C03_env_dq (env : Env) (name : Bytes) (dflt : Option Bytes) (nl : Nat) (rest : Bytes)
    (hwf : (DqItem.env name dflt).wf = true) :
    lexInitial env nl (c_dq :: ((DqItem.env name dflt).render ++ c_dq :: rest)) =
      ⟨.str (cstr (envValue env name dflt)), nl + (DqItem.env name dflt).newlines, rest⟩ := by
  have := C03_dq_decode env [.env name dflt] nl rest ⟨hwf, by simp [DqItem.okNext], trivial⟩
  simpa [renderDq, valueDq, newlinesDq, DqItem.value, DqItem.newlines] using this

theorem takeWhile_ne_append (p : Nat) (a b : Bytes) (h : a.all (· != p) = true) :
    (a ++ p :: b).takeWhile (· != p) = a ∧ (a ++ p :: b).dropWhile (· != p) = p :: b := by
  induction a with
  | nil => simp
  | cons c cs ih =>
    simp only [List.all_cons, Bool.and_eq_true] at h
    simp [h.1, ih h.2]

/-- **C03 (substitution, unquoted).** `${NAME}` / `${NAME:-default}` as a token of its own. -/
theorem C03_env_initial (env : Env) (name : Bytes) (dflt : Option Bytes) (nl : Nat) (rest : Bytes)
    (hwf : (DqItem.env name dflt).wf = true) :
    lexInitial env nl ((DqItem.env name dflt).render ++ rest) =
      ⟨.str (cstr (envValue env name dflt)), nl + (DqItem.env name dflt).newlines, rest⟩ := by
  simp only [DqItem.wf, Bool.and_eq_true] at hwf
  obtain ⟨hname, hd⟩ := hwf
  have hname' : name.all (· != c_rbr) = true := by
    rw [List.all_eq_true] at hname ⊢
    intro x hx
    have := hname x hx
    simp only [Bool.and_eq_true] at this
    exact this.1
  cases dflt with
  | none =>
    have hb := takeWhile_ne_append c_rbr name rest hname'
    have hr : hasRbr (name ++ c_rbr :: rest) = true := hasRbr_append_rbr name rest
    simp only [DqItem.render, List.cons_append, List.nil_append, List.append_assoc, List.append_nil, lexInitial]
    simp [hr, hb.1, hb.2, envLookup_name env name hname, envValue, DqItem.newlines]
    cases env name <;> simp
  | some d =>
    have hd' : d.all (· != c_rbr) = true := by simpa using hd
    have hbody : (name ++ c_colon :: c_minus :: d).all (· != c_rbr) = true := by
      simp [List.all_append, hname', hd']
    have hb := takeWhile_ne_append c_rbr (name ++ c_colon :: c_minus :: d) rest hbody
    have hr : hasRbr ((name ++ c_colon :: c_minus :: d) ++ c_rbr :: rest) = true := hasRbr_append_rbr _ rest
    simp only [List.append_assoc, List.cons_append] at hb hr
    simp only [DqItem.render, List.cons_append, List.nil_append, List.append_assoc, lexInitial]
    simp [hr, hb.1, hb.2, envLookup_default env name d hname, envValue, DqItem.newlines, nlCount_cons]
    cases env name <;> simp

theorem takeWhile_word (w : Bytes) (d : Nat) (rest : Bytes) (hw : w.all isWordByte = true) (hd : isWordByte d = false) :
    (w ++ d :: rest).takeWhile isWordByte = w ∧ (w ++ d :: rest).dropWhile isWordByte = d :: rest := by
  induction w with
  | nil => simp [hd]
  | cons c cs ih =>
    simp only [List.all_cons, Bool.and_eq_true] at hw
    simp [hw.1, ih hw.2]

/-- **C03 (unquoted words are verbatim).** A run of word bytes that does not begin a comment
(`//`, `/*`) or a substitution (`${`…`}`), followed by a delimiter, is one string token holding
exactly those bytes. -/
theorem C03_unquoted_verbatim (env : Env) (c : Nat) (cs : Bytes) (d : Nat) (rest : Bytes) (nl : Nat)
    (hc : isWordByte c = true) (hcs : cs.all isWordByte = true) (hd : isWordByte d = false)
    (hslash : c = c_slash → cs.head? ≠ some c_slash ∧ (cs = [] → d ≠ c_slash ∧ d ≠ c_star))
    (hdollar : c = c_dollar → ¬ ((cs ++ d :: rest).head? = some c_lbr ∧ hasRbr (cs ++ d :: rest).tail = true)) :
    lexInitial env nl (c :: cs ++ d :: rest) = ⟨.str (cstr (c :: cs)), nl, d :: rest⟩ := by
  have hw := takeWhile_word (c :: cs) d rest (by simp [hc, hcs]) hd
  have hword : lexWord nl (c :: cs ++ d :: rest) = ⟨.str (cstr (c :: cs)), nl, d :: rest⟩ := by
    simp only [lexWord]
    rw [hw.1, hw.2]
  have hne : c ≠ c_sp ∧ c ≠ c_tab ∧ c ≠ c_nl ∧ c ≠ c_hash ∧ c ≠ c_lbr ∧ c ≠ c_rbr ∧ c ≠ c_lp ∧ c ≠ c_rp ∧ c ≠ c_eq ∧
      c ≠ c_comma ∧ c ≠ c_plus ∧ c ≠ c_dq ∧ c ≠ c_sq := by
    simp only [isWordByte, Bool.not_eq_true', Bool.or_eq_false_iff, beq_eq_false_iff_ne, ne_eq] at hc
    omega
  obtain ⟨h1, h2, h3, h4, h5, h6, h7, h8, h9, h10, h11, h12, h13⟩ := hne
  by_cases hs : c = c_slash
  · subst hs
    obtain ⟨hs1, hs2⟩ := hslash rfl
    cases cs with
    | nil =>
      obtain ⟨ha, hb⟩ := hs2 rfl
      simp only [List.cons_append, List.nil_append] at hword ⊢
      simp [lexInitial, ha, hb]
      simpa using hword
    | cons e es =>
      have he : e ≠ c_slash := by simpa using hs1
      have hes : e ≠ c_star := by
        simp only [List.all_cons, Bool.and_eq_true] at hcs
        intro h; subst h; simp [isWordByte] at hcs
      simp only [List.cons_append] at hword ⊢
      simp [lexInitial, he, hes]
      simpa using hword
  · by_cases hdl : c = c_dollar
    · subst hdl
      have hx := hdollar rfl
      simp only [List.cons_append] at hword ⊢
      generalize hX : cs ++ d :: rest = X at hx hword ⊢
      cases X with
      | nil => simp [lexInitial]; simpa using hword
      | cons e es =>
        have : (e = c_lbr && hasRbr es) = false := by
          by_cases he : e = c_lbr
          · subst he
            simp only [List.head?_cons, List.tail_cons, true_and] at hx
            simpa using hx
          · simp [he]
        simp [lexInitial, this]
        simpa using hword
    · simp only [List.cons_append] at hword ⊢
      simp [lexInitial, h1, h2, h3, h4, h5, h6, h7, h8, h9, h10, h11, h12, h13, hs, hdl, hc]
      simpa using hword

/-- **C03 (comments never contribute a value).** Whatever follows `#`, `//` or `/*`, the token
the scanner returns is a comment token or an error, never a string. -/
theorem C03_comment_no_value (env : Env) (nl : Nat) (body : Bytes) :
    (∀ v, (lexInitial env nl (c_hash :: body)).tok ≠ .str v) ∧
    (∀ v, (lexInitial env nl (c_slash :: c_slash :: body)).tok ≠ .str v) ∧
    (∀ v, (lexInitial env nl (c_slash :: c_star :: body)).tok ≠ .str v) := by
  refine ⟨?_, ?_, ?_⟩
  · intro v; simp [lexInitial, lineComment]
  · intro v; simp [lexInitial, lineComment]
  · intro v
    have : ∀ (b acc : Bytes) (n : Nat), (commentRun acc n b).tok ≠ .str v := by
      intro b
      induction b with
      | nil => intro acc n; simp [commentRun]
      | cons c cs ih =>
        intro acc n
        simp only [commentRun]
        split
        · simp
        · split
          · exact ih _ _
          · exact ih _ _
    simpa [lexInitial] using this body [] nl

/-! Non-vacuity: the hypotheses are met by concrete, non-trivial literals. -/
example : NormalDq [.plain 97, .oct [49, 48, 49], .letter 110, .hex [52], .dollar, .env [88] (some [100]), .cont, .other 34]
    (c_dq :: [32]) := by
  simp [NormalDq, DqItem.wf, DqItem.okNext, renderDq, DqItem.render, isOct, isHex, isDec, simpleEsc, octVal, hasRbr]

example : lexInitial (fun _ => none) 0 (c_dq :: (renderDq [.plain 97, .oct [49, 48, 49], .letter 110] ++ c_dq :: [32])) =
    ⟨.str [97, 65, 10], 0, [32]⟩ := by decide

end Confuse
