import Confuse.Lemmas.Assign
/-!
# C01 — whole items in closed form: a scalar assignment

`C01_refinement` relates the token machine to the compositional evaluator for every item list; the theorems here
say what a single *linear* item does, as one equation between machine states.
-/
namespace Confuse

/-- **C01 (a scalar assignment, as one item).** At an item boundary, `name = v` for a name that resolves (silently) to a
plain scalar option without callbacks whose text converts: the machine ends at an item boundary again and the only
change to the context is `cfg_setopt` of that option started from "replace" - the option holds exactly the value
`v` denotes, whatever it held before (defaults, an earlier value); the line is advanced by the three tokens. -/
theorem C01_assign_scalar (orc : Oracle) (m : PM) (f : Frame) (rest : List Frame) (name v : Bytes) (n1 n2 n3 : Nat)
    (r : OptRef) (o : Opt)
    (hrun : m.status = .running) (hfr : m.frames = f :: rest) (hst : f.state = .s0)
    (hnd : noPendingDeprecated f) (hcm : f.comment = none)
    (hres : (getoptPath f.cfg name).ref = some r) (hsil : (getoptPath f.cfg name).diags = [])
    (hget : f.cfg.getOpt r = some o)
    (hty : o.ty ≠ .sec ∧ o.ty ≠ .func) (hnl : o.flags.list = false) (hcb : o.info.validCb = false)
    (hok : (setopt orc m.k (f.cfg.setLine (f.cfg.line + n1 + n2 + n3)).info
              o.markReplace (some v)).res.isSome = true)
    (hcalls : (setopt orc m.k (f.cfg.setLine (f.cfg.line + n1 + n2 + n3)).info
              o.markReplace (some v)).calls = [])
    (hdiags : (setopt orc m.k (f.cfg.setLine (f.cfg.line + n1 + n2 + n3)).info
              o.markReplace (some v)).diags = []) :
    parseToks orc m [(.str name, n1), (.eq, n2), (.str v, n3)] =
      { m with frames := assignFrame orc m.k f r o v (f.cfg.line + n1 + n2 + n3) :: rest } := by
  have e1 := pstep_name orc m f rest name n1 r o hrun hfr hst hnd hres hsil hget hty
  simp only [parseToks, List.foldl]
  rw [e1]
  have e2 := pstep_eq_scalar orc
    { m with frames := { f with cfg := f.cfg.setLine (f.cfg.line + n1), opt := some r, state := .s1 } :: rest }
    { f with cfg := f.cfg.setLine (f.cfg.line + n1), opt := some r, state := .s1 } rest n2 r o hrun rfl rfl rfl
    (by simp only [getOpt_setLine]; exact hget) hnl
  rw [e2]
  dsimp only
  simp only [setLine_line, setLine_setLine]
  have h1 : ∀ (x : Cfg) (n : Nat), (x.setLine n).info = { x.info with line := n } := by intro x n; cases x; rfl
  have hinfo : ∀ (c : Cfg) (a b : Nat) (o' : Opt), (((c.setLine a).setOpt r o').setLine b).info = (c.setLine b).info := by
    intro c a b o'
    rw [h1, h1, setOpt_info, h1]
  have hg2 : ((f.cfg.setLine (f.cfg.line + n1 + n2)).setOpt r o.markReplace).getOpt r = some o.markReplace :=
    getOpt_setOpt _ r o _ (by rw [getOpt_setLine]; exact hget)
  have hvc' : ∀ (k : Nat) (ci : CfgInfo) (val : Option Bytes), (setopt orc k ci o.markReplace val).opt.info.validCb = false := by
    intro k ci val
    rw [(setopt_sameDecl orc k ci o.markReplace val).1]
    simpa [Opt.markReplace, Opt.setFlags, Opt.info] using hcb
  have e3 := pstep_value_scalar orc
    { m with frames := { f with cfg := (f.cfg.setLine (f.cfg.line + n1 + n2)).setOpt r o.markReplace, opt := some r, state := .s2 } :: rest }
    { f with cfg := (f.cfg.setLine (f.cfg.line + n1 + n2)).setOpt r o.markReplace, opt := some r, state := .s2 } rest v n3 r o.markReplace
    hrun rfl rfl rfl hcm hg2 (by simpa [Opt.markReplace, Opt.setFlags, Opt.flags] using hnl)
    (by dsimp only; rw [setOpt_line, setLine_line, hinfo]; exact hok)
    (by dsimp only; rw [setOpt_line, setLine_line, hinfo]; exact hcalls)
    (by dsimp only; rw [setOpt_line, setLine_line, hinfo]; exact hdiags)
    (hvc' _ _ _)
  rw [e3]
  dsimp only
  simp only [setOpt_line, setLine_line, hinfo, assignFrame]
  have hk : ∀ (fr : List Frame), ({ m with frames := fr } : PM).k = m.k := fun _ => rfl
  simp only [hk]
  simp only [setOpt_setLine, setLine_setLine, setOpt_setOpt]

/-- **C01 ('=' replaces; a repeated scalar keeps the last value).** At an item boundary the item `name = v`, for a
name that resolves silently to a plain scalar option (integer, float, boolean, string; no callbacks) and a text `v`
that denotes the value `val` for that type, leaves the machine at an item boundary with that option holding exactly
`[val]` - whatever it held before (its default, a value from an earlier line) - marked set and no longer pristine,
its annotation kept, every other option and every other frame untouched (the lens laws), no diagnostic, no callback.
The context is on the line the value token ended on. -/
theorem C01_assign_denotes (orc : Oracle) (m : PM) (f : Frame) (rest : List Frame) (name v : Bytes) (n1 n2 n3 : Nat)
    (r : OptRef) (o : Opt) (val : Val)
    (hrun : m.status = .running) (hfr : m.frames = f :: rest) (hst : f.state = .s0)
    (hnd : noPendingDeprecated f) (hcm : f.comment = none)
    (hres : (getoptPath f.cfg name).ref = some r) (hsil : (getoptPath f.cfg name).diags = [])
    (hget : f.cfg.getOpt r = some o)
    (hty : o.ty = .int ∨ o.ty = .float ∨ o.ty = .bool ∨ o.ty = .str)
    (hpc : o.info.parseCb = false) (hcb : o.info.validCb = false)
    (hnl : o.flags.list = false) (hnm : o.flags.multi = false)
    (hconv : convTok o.ty v = some val) (hfree : freeEvOpt o = []) :
    parseToks orc m [(.str name, n1), (.eq, n2), (.str v, n3)] =
      { m with frames :=
          { f with cfg := (f.cfg.setOpt r (.mk o.info { o.flags with reset := false, modified := true } o.subs [val] o.comment)).setLine
                            (f.cfg.line + n1 + n2 + n3),
                   opt := some r, state := .s0, numValues := f.numValues + 1 } :: rest } := by
  have hso := setopt_replace_plain orc m.k (f.cfg.setLine (f.cfg.line + n1 + n2 + n3)).info o v val hty hpc hnl hnm hconv hfree
  have hty' : o.ty ≠ .sec ∧ o.ty ≠ .func := by
    rcases hty with h | h | h | h <;> simp [h]
  rw [C01_assign_scalar orc m f rest name v n1 n2 n3 r o hrun hfr hst hnd hcm hres hsil hget hty' hnl hcb
        (by rw [hso]; rfl) (by rw [hso]) (by rw [hso])]
  simp only [assignFrame, hso]

/-- non-vacuity: the hypotheses are met by an ordinary integer option and the text `42` -/
example : convTok .int [52, 50] = some (.int 42) := by
  have h : convInt [52, 50] = .ok 42 := by decide
  simp [convTok, h]

/-! ## list assignments -/

/-- **C01 (a list assignment, as one item).** At an item boundary, `name = { v1, …, vk }` or `name += { v1, …, vk }`
(k ≥ 1) for a name that resolves silently to a plain list option without callbacks whose value tokens all convert:
the machine ends at an item boundary, and the option holds - after `=` - exactly the k values the tokens denote, in
order, whatever it held before (defaults, earlier values), and - after `+=` - what it held before, defaults included,
followed by those k values.  Nothing else in the context changes; the line has advanced by all the tokens. -/
theorem C01_list_item (orc : Oracle) (m : PM) (f : Frame) (rest : List Frame) (name : Bytes) (n1 : Nat) (app : Bool) (n2 n3 : Nat)
    (c0 : Nat) (v0 : Bytes) (n0 : Nat) (vs : List (Nat × Bytes × Nat)) (n4 : Nat)
    (r : OptRef) (o : Opt) (val0 : Val) (vals : List Val)
    (hrun : m.status = .running) (hfr : m.frames = f :: rest) (hst : f.state = .s0)
    (hnd : noPendingDeprecated f) (hcm : f.comment = none)
    (hres : (getoptPath f.cfg name).ref = some r) (hsil : (getoptPath f.cfg name).diags = [])
    (hget : f.cfg.getOpt r = some o)
    (hty : o.ty = .int ∨ o.ty = .float ∨ o.ty = .bool ∨ o.ty = .str)
    (hpc : o.info.parseCb = false) (hvc : o.info.validCb = false) (hl : o.flags.list = true) (hfree : freeEvOpt o = [])
    (hc0 : convTok o.ty v0 = some val0) (hcs : convToks o.ty (vs.map (·.2.1)) = some vals) :
    parseToks orc m ([(.str name, n1), (asgTok app, n2), (.lbrace, n3)] ++ flatSeq true ((c0, v0, n0) :: vs) ++ [(.rbrace, n4)]) =
      { m with frames :=
          { f with cfg := (f.cfg.setOpt r ((o.markAsg app).appendVals (val0 :: vals))).setLine
                            (f.cfg.line + n1 + n2 + n3 + n0 + seqLines vs + n4),
                   opt := some r, state := .s0, numValues := vs.length + 1 } :: rest } := by
  have hty' : o.ty ≠ .sec ∧ o.ty ≠ .func := by rcases hty with h | h | h | h <;> simp [h]
  obtain ⟨p1, p2, p3, p4, p5, p6⟩ := markAsg_props o app
  have hinfoVals : ∀ (o' : Opt) (l : List Val), (o'.appendVals l).info = o'.info := by
    intro o' l; induction l generalizing o' with
    | nil => rfl
    | cons a as ih => simp [Opt.appendVals, ih]
  let mk : Frame → PM := fun F => { m with frames := F :: rest }
  let o1 := o.markAsg app
  let o2 := o1.appendVal val0
  let o3 := o2.appendVals vals
  let F1 : Frame := { f with cfg := f.cfg.setLine (f.cfg.line + n1), opt := some r, state := .s1 }
  let F2 : Frame := { F1 with cfg := (F1.cfg.setLine (F1.cfg.line + n2)).setOpt r o1, state := .s3, numValues := 0 }
  let F3 : Frame := { F2 with cfg := F2.cfg.setLine (F2.cfg.line + n3), state := .s2 }
  let F4 : Frame := { F3 with cfg := (F3.cfg.setLine (F3.cfg.line + n0)).setOpt r o2, state := .s4, numValues := F3.numValues + 1 }
  let F5 : Frame := { F4 with cfg := (F4.cfg.setOpt r o3).setLine (F4.cfg.line + seqLines vs), numValues := F4.numValues + vs.length }
  let F6 : Frame := { F5 with cfg := F5.cfg.setLine (F5.cfg.line + n4), state := .s0 }
  have g0 : ∀ (c : Cfg), c.getOpt r = some o → ∀ n, (c.setLine n).getOpt r = some o := by
    intro c h n; rw [getOpt_setLine]; exact h
  have g1 : F1.cfg.getOpt r = some o := g0 _ hget _
  have g2 : F2.cfg.getOpt r = some o1 := getOpt_setOpt _ r o _ (g0 _ g1 _)
  have g3 : F3.cfg.getOpt r = some o1 := by show (F2.cfg.setLine _).getOpt r = some o1; rw [getOpt_setLine]; exact g2
  have g4 : F4.cfg.getOpt r = some o2 := getOpt_setOpt _ r o1 _ (by rw [getOpt_setLine]; exact g3)
  have g5 : F5.cfg.getOpt r = some o3 := by
    show ((F4.cfg.setOpt r o3).setLine _).getOpt r = some o3
    rw [getOpt_setLine]; exact getOpt_setOpt _ r o2 _ g4
  have e1 : pstep orc m (.str name) n1 = mk F1 := pstep_name orc m f rest name n1 r o hrun hfr hst hnd hres hsil hget hty'
  have e2 : pstep orc (mk F1) (asgTok app) n2 = mk F2 := pstep_asg_list orc (mk F1) F1 rest app n2 r o hrun rfl rfl rfl g1 hl
  have e3 : pstep orc (mk F2) .lbrace n3 = mk F3 := pstep_lbrace_list orc (mk F2) F2 rest n3 hrun rfl rfl
  have e4 : pstep orc (mk F3) (.str v0) n0 = mk F4 :=
    pstep_value_list orc (mk F3) F3 rest v0 n0 r o1 val0 hrun rfl rfl rfl hcm g3
      (by show (o.markAsg app).ty = _ ∨ _; rw [p1]; exact hty) (by show (o.markAsg app).info.parseCb = false; rw [p2]; exact hpc)
      (by show (o.markAsg app).info.validCb = false; rw [p2]; exact hvc) (by show (o.markAsg app).flags.list = true; rw [p3]; exact hl)
      (by show convTok (o.markAsg app).ty v0 = some val0; rw [p1]; exact hc0) (by show freeEvOpt (o.markAsg app) = []; rw [p6]; exact hfree)
  have e5 : parseToks orc (mk F4) (flatSeq false vs) = mk F5 :=
    list_tail_loop orc vs vals (mk F4) F4 rest r o2 hrun rfl rfl rfl hcm g4
      (by show ((o.markAsg app).appendVal val0).ty = _ ∨ _; rw [appendVal_ty, p1]; exact hty)
      (by show ((o.markAsg app).appendVal val0).info.parseCb = false; rw [appendVal_info, p2]; exact hpc)
      (by show ((o.markAsg app).appendVal val0).info.validCb = false; rw [appendVal_info, p2]; exact hvc)
      (by show ((o.markAsg app).appendVal val0).flags.list = true; rw [appendVal_list, p3]; exact hl)
      (appendVal_free _ v0 val0 (by rw [p6]; exact hfree) (by rw [p1]; exact hc0))
      (by show convToks ((o.markAsg app).appendVal val0).ty _ = some vals; rw [appendVal_ty, p1]; exact hcs)
  have e6 : pstep orc (mk F5) .rbrace n4 = mk F6 :=
    pstep_close_list orc (mk F5) F5 rest n4 r o3 hrun rfl rfl rfl g5
      (by show (((o.markAsg app).appendVal val0).appendVals vals).info.validCb = false; rw [hinfoVals, appendVal_info, p2]; exact hvc)
  simp only [parseToks, List.foldl_append, List.foldl, flatSeq] at e5 ⊢
  rw [e1, e2, e3, e4, e5, e6]
  show ({ m with frames := F6 :: rest } : PM) = _
  simp only [F6, F5, F4, F3, F2, F1, o3, o2, o1, setLine_line, setLine_setLine, setOpt_setLine, setOpt_setOpt, setOpt_line, Opt.appendVals]
  have ev : 0 + 1 + vs.length = vs.length + 1 := by omega
  rw [ev]

/-- **'=' replaces, '+=' appends (also to defaults).** What the option of `C01_list_item` holds afterwards. -/
theorem C01_list_item_values (o : Opt) (app : Bool) (val0 : Val) (vals : List Val) :
    ((o.markAsg app).appendVals (val0 :: vals)).vals = (if app then o.vals else []) ++ val0 :: vals := by
  rw [appendVals_vals]
  cases o; cases app <;> simp [Opt.markAsg, Opt.base, Opt.setFlags, Opt.flags, Opt.vals]

/-- **C01 (an empty list, as one item).** `name = {}` empties a plain list option - its declared defaults go too -,
`name += {}` leaves it exactly as it was (defaults included); either way the machine is back at an item boundary. -/
theorem C01_empty_list_item (orc : Oracle) (m : PM) (f : Frame) (rest : List Frame) (name : Bytes) (n1 : Nat) (app : Bool) (n2 n3 n4 : Nat)
    (r : OptRef) (o : Opt)
    (hrun : m.status = .running) (hfr : m.frames = f :: rest) (hst : f.state = .s0)
    (hnd : noPendingDeprecated f)
    (hres : (getoptPath f.cfg name).ref = some r) (hsil : (getoptPath f.cfg name).diags = [])
    (hget : f.cfg.getOpt r = some o) (hty : o.ty ≠ .sec ∧ o.ty ≠ .func)
    (hl : o.flags.list = true) (hfree : freeEvOpt o = []) :
    parseToks orc m [(.str name, n1), (asgTok app, n2), (.lbrace, n3), (.rbrace, n4)] =
      { m with frames :=
          { f with cfg := (f.cfg.setOpt r (if app then o.markAsg true else (freeValue (o.markAsg false)).1)).setLine (f.cfg.line + n1 + n2 + n3 + n4),
                   opt := some r, state := .s0, numValues := 0 } :: rest } := by
  obtain ⟨p1, p2, p3, p4, p5, p6⟩ := markAsg_props o app
  let mk : Frame → PM := fun F => { m with frames := F :: rest }
  let o1 := o.markAsg app
  let F1 : Frame := { f with cfg := f.cfg.setLine (f.cfg.line + n1), opt := some r, state := .s1 }
  let F2 : Frame := { F1 with cfg := (F1.cfg.setLine (F1.cfg.line + n2)).setOpt r o1, state := .s3, numValues := 0 }
  let F3 : Frame := { F2 with cfg := F2.cfg.setLine (F2.cfg.line + n3), state := .s2 }
  let F4 : Frame := { F3 with cfg := (F3.cfg.setLine (F3.cfg.line + n4)).setOpt r (if o1.flags.reset then (freeValue o1).1 else o1), state := .s0 }
  have g0 : ∀ (c : Cfg), c.getOpt r = some o → ∀ n, (c.setLine n).getOpt r = some o := by
    intro c h n; rw [getOpt_setLine]; exact h
  have g1 : F1.cfg.getOpt r = some o := g0 _ hget _
  have g2 : F2.cfg.getOpt r = some o1 := getOpt_setOpt _ r o _ (g0 _ g1 _)
  have g3 : F3.cfg.getOpt r = some o1 := by show (F2.cfg.setLine _).getOpt r = some o1; rw [getOpt_setLine]; exact g2
  have e1 : pstep orc m (.str name) n1 = mk F1 := pstep_name orc m f rest name n1 r o hrun hfr hst hnd hres hsil hget hty
  have e2 : pstep orc (mk F1) (asgTok app) n2 = mk F2 := pstep_asg_list orc (mk F1) F1 rest app n2 r o hrun rfl rfl rfl g1 hl
  have e3 : pstep orc (mk F2) .lbrace n3 = mk F3 := pstep_lbrace_list orc (mk F2) F2 rest n3 hrun rfl rfl
  have e4 : pstep orc (mk F3) .rbrace n4 = mk F4 :=
    pstep_close_empty orc (mk F3) F3 rest n4 r o1 hrun rfl rfl rfl rfl g3
      (by show (o.markAsg app).flags.list = true; rw [p3]; exact hl) (by show freeEvOpt (o.markAsg app) = []; rw [p6]; exact hfree)
  simp only [parseToks, List.foldl]
  rw [e1, e2, e3, e4]
  show ({ m with frames := F4 :: rest } : PM) = _
  have hr : o1.flags.reset = !app := p4
  cases app
  · simp only [F4, F3, F2, F1, o1, hr, setLine_line, setLine_setLine, setOpt_setLine, setOpt_setOpt, setOpt_line, Bool.not_false, if_true, Bool.false_eq_true, if_false]
  · simp only [F4, F3, F2, F1, o1, hr, setLine_line, setLine_setLine, setOpt_setLine, setOpt_setOpt, setOpt_line, Bool.not_true, Bool.false_eq_true, if_false, if_true]

end Confuse
