import Confuse.Model.Num
/-!
# Reference grammar of integer numerals and boolean words (C04)
-/
namespace Confuse.Spec
open Confuse

def allDigits (radix : Nat) (ds : Bytes) : Bool := ds.all (fun c => digitVal c < radix)
def digitsValue (radix : Nat) (ds : Bytes) : Nat := ds.foldl (fun a c => a * radix + digitVal c) 0

/-- the value an integer token denotes: `0x` hexadecimal, `0b` binary, leading `0` octal,
otherwise signed decimal; at least one digit (a lone `0` is octal zero); nothing else -/
def intNumeral (tok : Bytes) : Option Int :=
  match tok with
  | 48 :: 120 :: ds => if !ds.isEmpty && allDigits 16 ds then some (digitsValue 16 ds) else none
  | 48 :: 98 :: ds => if !ds.isEmpty && allDigits 2 ds then some (digitsValue 2 ds) else none
  | 48 :: ds => if allDigits 8 ds then some (digitsValue 8 ds) else none
  | 45 :: ds => if !ds.isEmpty && allDigits 10 ds then some (-(digitsValue 10 ds : Int)) else none
  | 43 :: ds => if !ds.isEmpty && allDigits 10 ds then some (digitsValue 10 ds) else none
  | ds => if !ds.isEmpty && allDigits 10 ds then some (digitsValue 10 ds) else none


/-- what the conversion must answer -/
def intExpected (tok : Bytes) : Except ConvErr Int :=
  match intNumeral tok with
  | none => .error .invalid
  | some n => if longMin ≤ n ∧ n ≤ longMax then .ok n else .error .range

def boolWord (tok : Bytes) : Option Bool :=
  let l := lowerBytes tok
  if l = bytesOfString "true" ∨ l = bytesOfString "yes" ∨ l = bytesOfString "on" then some true
  else if l = bytesOfString "false" ∨ l = bytesOfString "no" ∨ l = bytesOfString "off" then some false
  else none

end Confuse.Spec
