import Confuse.Model.Lexer
/-!
# Reference definition of the literal forms (C03)

Written independently of the scanner model: a literal body is a list of *items*, each with a
rendering (the bytes written in the file), a value (the bytes it denotes) and a number of
newlines.  `Normal` says that the item boundaries are the ones a reader would see (an octal
escape of fewer than three digits is not followed by a digit, and so on).
-/
namespace Confuse.Spec
open Confuse

/-- items of a double-quoted string body -/
inductive DqItem where
  | plain (c : Nat)               -- any byte except `"` `\` newline `$`
  | dollar                        -- a `$` that does not start a substitution
  | nl                            -- a raw newline: part of the value
  | cont                          -- backslash-newline: joins lines
  | oct (ds : List Nat)           -- backslash + 1..3 octal digits, value ≤ 0xFF
  | hex (hs : List Nat)           -- backslash x + 1..2 hex digits
  | xlit                          -- backslash x not followed by a hex digit: `x`
  | letter (l : Nat)              -- \n \t \r \b \f \a \e \v
  | other (c : Nat)               -- backslash + any other byte: that byte
  | env (name : Bytes) (dflt : Option Bytes)   -- ${name} / ${name:-dflt}
deriving Repr, DecidableEq

def octVal (ds : List Nat) : Nat := ds.foldl (fun a d => a * 8 + (d - 48)) 0
def hexValL (hs : List Nat) : Nat := hs.foldl (fun a d => a * 16 + hexVal d) 0

def DqItem.wf : DqItem → Bool
  | .plain c => c != c_dq && c != c_bs && c != c_nl && c != c_dollar
  | .oct ds => 1 ≤ ds.length && ds.length ≤ 3 && ds.all isOct && octVal ds ≤ 255
  | .hex hs => 1 ≤ hs.length && hs.length ≤ 2 && hs.all isHex
  | .letter l => (simpleEsc l).isSome
  | .other c => !isDec c && c != c_nl && c != 120 && (simpleEsc c).isNone
  | .env name dflt =>
    name.all (fun c => c != c_rbr && c != c_colon) &&
      (match dflt with | some d => d.all (· != c_rbr) | none => true)
  | _ => true

def DqItem.render : DqItem → Bytes
  | .plain c => [c]
  | .dollar => [c_dollar]
  | .nl => [c_nl]
  | .cont => [c_bs, c_nl]
  | .oct ds => c_bs :: ds
  | .hex hs => c_bs :: 120 :: hs
  | .xlit => [c_bs, 120]
  | .letter l => [c_bs, l]
  | .other c => [c_bs, c]
  | .env name dflt => [c_dollar, c_lbr] ++ name ++ (match dflt with | some d => c_colon :: c_minus :: d | none => []) ++ [c_rbr]

/-- the value of `${name}` / `${name:-dflt}`: the variable, else the default, else nothing -/
def envValue (env : Env) (name : Bytes) (dflt : Option Bytes) : Bytes :=
  match env name with | some v => v | none => dflt.getD []

def DqItem.value (env : Env) : DqItem → Bytes
  | .plain c => [c]
  | .dollar => [c_dollar]
  | .nl => [c_nl]
  | .cont => []
  | .oct ds => [octVal ds]
  | .hex hs => [hexValL hs]
  | .xlit => [120]
  | .letter l => [(simpleEsc l).getD 0]
  | .other c => [c]
  | .env name dflt => envValue env name dflt

def DqItem.newlines : DqItem → Nat
  | .nl => 1
  | .cont => 1
  | .env name dflt => nlCount name + (match dflt with | some d => nlCount d | none => 0)   -- every newline is a line
  | _ => 0

/-- what must *not* follow an item for the item boundary to be where it is written -/
def DqItem.okNext : DqItem → Bytes → Bool
  | .dollar, next => !(next.head? == some c_lbr && hasRbr next.tail)
  | .oct _, next => !(match next.head? with | some c => isDec c | none => false)
  | .hex hs, next => hs.length == 2 || !(match next.head? with | some c => isHex c | none => false)
  | .xlit, next => !(match next.head? with | some c => isHex c | none => false)
  | _, _ => true

def renderDq : List DqItem → Bytes
  | [] => []
  | i :: is => i.render ++ renderDq is

def valueDq (env : Env) : List DqItem → Bytes
  | [] => []
  | i :: is => i.value env ++ valueDq env is

def newlinesDq : List DqItem → Nat
  | [] => 0
  | i :: is => i.newlines + newlinesDq is

/-- every item is well formed and is followed by something that does not extend it -/
def NormalDq : List DqItem → Bytes → Prop
  | [], _ => True
  | i :: is, tail => i.wf = true ∧ i.okNext (renderDq is ++ tail) = true ∧ NormalDq is tail

/-- items of a single-quoted string body -/
inductive SqItem where
  | plain (c : Nat)          -- any byte except `'` `\` newline
  | nl
  | cont                     -- backslash-newline
  | escQuote                 -- \'  ↦ '
  | escBackslash             -- \\  ↦ \
  | keep (c : Nat)           -- backslash + other byte: both bytes stay
deriving Repr, DecidableEq

def SqItem.wf : SqItem → Bool
  | .plain c => c != c_sq && c != c_bs && c != c_nl
  | .keep c => c != c_sq && c != c_bs && c != c_nl
  | _ => true

def SqItem.render : SqItem → Bytes
  | .plain c => [c] | .nl => [c_nl] | .cont => [c_bs, c_nl] | .escQuote => [c_bs, c_sq]
  | .escBackslash => [c_bs, c_bs] | .keep c => [c_bs, c]

def SqItem.value : SqItem → Bytes
  | .plain c => [c] | .nl => [c_nl] | .cont => [] | .escQuote => [c_sq]
  | .escBackslash => [c_bs] | .keep c => [c_bs, c]

def SqItem.newlines : SqItem → Nat
  | .nl => 1 | .cont => 1 | _ => 0

def renderSq : List SqItem → Bytes
  | [] => []
  | i :: is => i.render ++ renderSq is
def valueSq : List SqItem → Bytes
  | [] => []
  | i :: is => i.value ++ valueSq is
def newlinesSq : List SqItem → Nat
  | [] => 0
  | i :: is => i.newlines + newlinesSq is

end Confuse.Spec
