import Confuse.Lemmas.Lift
/-!
# Item grammar of configuration texts and its compositional evaluation

`Item` is the grammar the documentation describes: assignments, braced lists, function calls,
comments and (titled) sections whose bodies are again item lists.  Every token carries the number
of line increments the scanner made while producing it, so a text is represented exactly.

`evalItems` evaluates an item list *compositionally*: the body of a section is evaluated by a
recursive call on a machine that holds nothing but the new section's frame, and its result is
re-attached to the enclosing frame afterwards.  `C01_compositional` (Props/C01.lean) proves that the
explicit-stack token machine run over the flattened text computes the same thing.

The evaluation is partial: it gives up (`none`) where the shape of the text does not match what
the machine does with it (a guard before every closing brace).  `evalItems_total` shows that this
never happens from an item boundary.
-/
namespace Confuse

abbrev LTok := Tok × Nat

inductive Item where
  | assign (name : Bytes) (n1 : Nat) (append : Bool) (n2 : Nat) (v : Bytes) (n3 : Nat)
  | list (name : Bytes) (n1 : Nat) (append : Bool) (n2 n3 : Nat) (vs : List (Nat × Bytes × Nat)) (n4 : Nat)
  | call (name : Bytes) (n1 n2 : Nat) (args : List (Nat × Bytes × Nat)) (n3 : Nat)
  | comment (text : Bytes) (n : Nat)
  | sec (name : Bytes) (n1 : Nat) (title : Option (Bytes × Nat)) (n2 : Nat) (body : List Item) (n3 : Nat)

def asgTok (append : Bool) : Tok := if append then .pluseq else .eq

/-- comma-separated values; each element carries the line increments of the comma before it (not
used for the first one) and of the value itself -/
def flatSeq : Bool → List (Nat × Bytes × Nat) → List LTok
  | _, [] => []
  | true, (_, v, n) :: t => (.str v, n) :: flatSeq false t
  | false, (c, v, n) :: t => (.comma, c) :: (.str v, n) :: flatSeq false t

def secHead (name : Bytes) (n1 : Nat) (title : Option (Bytes × Nat)) (n2 : Nat) : List LTok :=
  [(.str name, n1)] ++ (match title with | some (t, n) => [(.str t, n)] | none => []) ++ [(.lbrace, n2)]

mutual
def Item.flat : Item → List LTok
  | .assign name n1 app n2 v n3 => [(.str name, n1), (asgTok app, n2), (.str v, n3)]
  | .list name n1 app n2 n3 vs n4 =>
    ([(.str name, n1), (asgTok app, n2), (.lbrace, n3)] ++ flatSeq true vs) ++ [(.rbrace, n4)]
  | .call name n1 n2 args n3 => [(.str name, n1), (.lparen, n2)] ++ flatSeq true args ++ [(.rparen, n3)]
  | .comment t n => [(.comment t, n)]
  | .sec name n1 title n2 body n3 => (secHead name n1 title n2 ++ flats body) ++ [(.rbrace, n3)]
def flats : List Item → List LTok
  | [] => []
  | i :: is => i.flat ++ flats is
end

/-- the machine has stopped, or is at an item boundary of a one-frame stack -/
def atBoundary (m : PM) : Bool :=
  m.status != .running || (match m.frames with | [f] => f.state == .s0 | _ => false)

/-- a `}` now would not pop the last frame of the stack -/
def noPop (m : PM) : Bool :=
  m.status != .running || (match m.frames with | [f] => f.state != .s0 | [] => false | _ => true)

mutual
def evalItem (orc : Oracle) (m : PM) : Item → Option PM
  | .assign name n1 app n2 v n3 => some (parseToks orc m [(.str name, n1), (asgTok app, n2), (.str v, n3)])
  | .list name n1 app n2 n3 vs n4 =>
    let m1 := parseToks orc m ([(.str name, n1), (asgTok app, n2), (.lbrace, n3)] ++ flatSeq true vs)
    if noPop m1 then some (pstep orc m1 .rbrace n4) else none
  | .call name n1 n2 args n3 => some (parseToks orc m ([(.str name, n1), (.lparen, n2)] ++ flatSeq true args ++ [(.rparen, n3)]))
  | .comment t n => some (pstep orc m (.comment t) n)
  | .sec name n1 title n2 body n3 =>
    let m1 := parseToks orc m (secHead name n1 title n2)
    if m1.status != .running then some m1
    else
      match m1.frames with
      | [child, parent] =>
        -- the section was opened: its body is evaluated on its own, then re-attached
        if m1.maxDepth ≥ 1 then
          (match evalItems orc { m1 with frames := [child], maxDepth := m1.maxDepth - 1 } body with
           | some r => some (pstep orc (liftM r [parent]) .rbrace n3)
           | none => none)
        else none
      | [f] =>
        -- an undeclared section being skipped (ignore-unknown): the body is swallowed as tokens
        if f.state == .s12 && f.depth == 1 && depthAfter 1 (flats body) == some 1 && (flats body).all (·.1.inner) then
          some (pstep orc (parseToks orc m1 (flats body)) .rbrace n3)
        else none
      | _ => none
def evalItems (orc : Oracle) (m : PM) : List Item → Option PM
  | [] => some m
  | i :: is =>
    match evalItem orc m i with
    | some m' => evalItems orc m' is
    | none => none
end

end Confuse
