import Confuse.Lemmas.Mono
/-!
# The skip locals are clear outside the skip states

`depth` and `ignore` are used only while an undeclared item is being discarded (states 12 and 13).
Invariant of every machine reachable from a clean one: in the current frame they hold their initial
values outside those states (in state 12 `ignore` does, in state 13 `depth` does), and in every
suspended frame they always do.
-/
namespace Confuse

def Clear (f : Frame) : Prop := f.depth = 0 ∧ f.ignore = .none

def SkipInv (f : Frame) : Prop :=
  (f.state ≠ .s12 → f.depth = 0) ∧ (f.state ≠ .s13 → f.ignore = .none)

def InvM (m : PM) : Prop := (∀ f ∈ m.frames.head?, SkipInv f) ∧ (∀ p ∈ m.frames.tail, Clear p)

theorem Clear.inv {f : Frame} (h : Clear f) : SkipInv f := ⟨fun _ => h.1, fun _ => h.2⟩

theorem clear_of_inv {f : Frame} (h : SkipInv f) (h12 : f.state ≠ .s12) (h13 : f.state ≠ .s13) : Clear f := ⟨h.1 h12, h.2 h13⟩

theorem clear_writeBack (p c : Frame) (h : Clear p) : Clear (writeBack p c) := by
  unfold writeBack
  repeat' split
  all_goals exact h

theorem skipInv_collapseInto (c : Frame) (ps : List Frame) (hc : SkipInv c) (hps : ∀ p ∈ ps, Clear p) :
    SkipInv (collapseInto c ps) := by
  induction ps generalizing c with
  | nil => exact hc
  | cons p ps ih =>
    simp only [collapseInto]
    exact ih _ (clear_writeBack p c (hps p (by simp))).inv (fun q hq => hps q (by simp [hq]))

theorem invM_of (m : PM) (g : Frame) (rest : List Frame) (hfr : m.frames = g :: rest) (hg : SkipInv g) (hr : ∀ p ∈ rest, Clear p) :
    InvM m := by
  constructor
  · intro f hf; simp [hfr] at hf; subst hf; exact hg
  · intro p hp; simp [hfr] at hp; exact hr p hp

theorem invM_reject (m : PM) (f : Frame) (rest : List Frame) (hf : SkipInv f) (hr : ∀ p ∈ rest, Clear p) :
    InvM (m.reject f rest) :=
  invM_of _ (collapseInto f rest) [] (by simp [PM.reject, collapse]) (skipInv_collapseInto f rest hf hr) (by simp)

theorem clear_inherit (f : Frame) (h : Clear f) : Clear (inheritComment f) := by
  unfold inheritComment
  repeat' split
  all_goals exact h

/-- closes `InvM result` for results built from a frame whose `depth` / `ignore` are (definitionally)
those of the given facts -/
macro "inv_auto" hd:term:max hi:term:max hr:ident : tactic =>
  `(tactic| (try simp only [PM.reject, PM.rejectWith, PM.addDiags, PM.addCalls, collapse]
             repeat' split
             all_goals first
               | exact invM_of _ _ [] rfl (skipInv_collapseInto _ _ ⟨fun _ => $hd, fun _ => $hi⟩ $hr) (by simp)
               | exact invM_of _ _ _ rfl ⟨fun _ => $hd, fun _ => $hi⟩ $hr
               | (refine invM_of _ _ _ rfl ?_ $hr; simp_all [SkipInv]; done)))

theorem storeValue_inv (orc : Oracle) (m : PM) (f : Frame) (rest : List Frame) (v : Bytes) (next : PState)
    (hf : Clear f) (hr : ∀ p ∈ rest, Clear p) :
    InvM (storeValue orc m f rest v next) := by
  unfold storeValue
  cases hopt : f.opt with
  | none => exact invM_reject _ _ _ hf.inv hr
  | some r =>
    simp only []
    cases f.cfg.getOpt r with
    | none => exact invM_reject _ _ _ hf.inv hr
    | some o =>
      simp only [runValid_spec]
      generalize setopt orc m.k f.cfg.info o (some v) = out
      have hf1 : Clear { f with cfg := f.cfg.setOpt r out.opt, opt := some r } := hf
      generalize ({ f with cfg := f.cfg.setOpt r out.opt, opt := some r } : Frame) = f1 at hf1 ⊢
      cases out.res with
      | none => exact invM_reject _ _ _ hf1.inv hr
      | some i =>
        simp only []
        split
        · exact invM_reject _ _ _ hf1.inv hr
        · have := clear_inherit f1 hf1
          exact invM_of _ _ rest rfl (Clear.inv ⟨this.1, this.2⟩) hr

theorem callFunction_inv (orc : Oracle) (m : PM) (f : Frame) (rest : List Frame) (hf : Clear f) (hr : ∀ p ∈ rest, Clear p) :
    InvM (callFunction orc m f rest) := by
  have hd := hf.1
  have hi := hf.2
  unfold callFunction
  repeat' split
  all_goals inv_auto hd hi hr


theorem step_s1_inv (orc : Oracle) (m : PM) (f : Frame) (rest : List Frame) (tok : Tok) (hf : Clear f) (hr : ∀ p ∈ rest, Clear p) :
    InvM (step_s1 orc m f rest tok) := by
  have hd := hf.1
  have hi := hf.2
  unfold step_s1
  repeat' split
  all_goals inv_auto hd hi hr

theorem step_s6_inv (orc : Oracle) (m : PM) (f : Frame) (rest : List Frame) (tok : Tok) (hf : Clear f) (hr : ∀ p ∈ rest, Clear p) :
    InvM (step_s6 orc m f rest tok) := by
  have hd := hf.1
  have hi := hf.2
  unfold step_s6
  repeat' split
  all_goals inv_auto hd hi hr

theorem step_s7_inv (orc : Oracle) (m : PM) (f : Frame) (rest : List Frame) (tok : Tok) (hf : Clear f) (hr : ∀ p ∈ rest, Clear p) :
    InvM (step_s7 orc m f rest tok) := by
  have hd := hf.1
  have hi := hf.2
  unfold step_s7
  repeat' split
  all_goals inv_auto hd hi hr

theorem step_s11_inv (orc : Oracle) (m : PM) (f : Frame) (rest : List Frame) (tok : Tok) (hf : Clear f) (hr : ∀ p ∈ rest, Clear p) :
    InvM (step_s11 orc m f rest tok) := by
  have hd := hf.1
  have hi := hf.2
  unfold step_s11
  repeat' split
  all_goals inv_auto hd hi hr

theorem step_s14_inv (orc : Oracle) (m : PM) (f : Frame) (rest : List Frame) (tok : Tok) (hf : Clear f) (hr : ∀ p ∈ rest, Clear p) :
    InvM (step_s14 orc m f rest tok) := by
  have hd := hf.1
  have hi := hf.2
  unfold step_s14
  repeat' split
  all_goals inv_auto hd hi hr

theorem step_s10_inv (orc : Oracle) (m : PM) (f : Frame) (rest : List Frame) (tok : Tok) (hf : Clear f) (hr : ∀ p ∈ rest, Clear p) :
    InvM (step_s10 orc m f rest tok) := by
  have hd := hf.1
  have hi := hf.2
  unfold step_s10
  cases tok <;> inv_auto hd hi hr

theorem step_s3_inv (orc : Oracle) (m : PM) (f : Frame) (rest : List Frame) (tok : Tok) (hf : Clear f) (hr : ∀ p ∈ rest, Clear p) :
    InvM (step_s3 orc m f rest tok) := by
  have hd := hf.1
  have hi := hf.2
  unfold step_s3
  cases tok with
  | str v => exact storeValue_inv orc m f rest v _ hf hr
  | _ => inv_auto hd hi hr

theorem step_s2_inv (orc : Oracle) (m : PM) (f : Frame) (rest : List Frame) (tok : Tok) (hf : Clear f) (hr : ∀ p ∈ rest, Clear p) :
    InvM (step_s2 orc m f rest tok) := by
  have hd := hf.1
  have hi := hf.2
  unfold step_s2
  cases tok with
  | str v => exact storeValue_inv orc m f rest v _ hf hr
  | _ => simp only []; inv_auto hd hi hr

theorem step_s8_inv (orc : Oracle) (m : PM) (f : Frame) (rest : List Frame) (tok : Tok) (hf : Clear f) (hr : ∀ p ∈ rest, Clear p) :
    InvM (step_s8 orc m f rest tok) := by
  have hd := hf.1
  have hi := hf.2
  unfold step_s8
  cases tok with
  | rparen => exact callFunction_inv orc m f rest hf hr
  | _ => inv_auto hd hi hr

theorem step_s9_inv (orc : Oracle) (m : PM) (f : Frame) (rest : List Frame) (tok : Tok) (hf : Clear f) (hr : ∀ p ∈ rest, Clear p) :
    InvM (step_s9 orc m f rest tok) := by
  have hd := hf.1
  have hi := hf.2
  unfold step_s9
  cases tok with
  | rparen => exact callFunction_inv orc m f rest hf hr
  | _ => inv_auto hd hi hr

theorem step_s4_inv (orc : Oracle) (m : PM) (f : Frame) (rest : List Frame) (tok : Tok) (hf : Clear f) (hr : ∀ p ∈ rest, Clear p) :
    InvM (step_s4 orc m f rest tok) := by
  have hd := hf.1
  have hi := hf.2
  unfold step_s4
  cases tok with
  | rbrace =>
    simp only [runValid_spec]
    cases validVerdict orc m.k f with
    | none => simp only [Option.map_none]; exact invM_reject _ _ _ hf.inv hr
    | some cs => simp only [Option.map_some]; exact invM_of _ _ rest rfl (Clear.inv ⟨hd, hi⟩) hr
  | _ => inv_auto hd hi hr

theorem step_s12_inv (orc : Oracle) (m : PM) (f : Frame) (rest : List Frame) (tok : Tok) (hm : m.frames = f :: rest)
    (hi : f.ignore = .none) (hr : ∀ p ∈ rest, Clear p) (hs : f.state = .s12) :
    InvM (step_s12 orc m f rest tok) := by
  unfold step_s12
  cases tok with
  | lbrace => exact invM_of _ _ rest rfl ⟨fun h => absurd hs h, fun _ => hi⟩ hr
  | rbrace =>
    simp only []
    split
    · exact invM_of _ _ rest rfl ⟨fun _ => rfl, fun _ => hi⟩ hr
    · exact invM_of _ _ rest rfl ⟨fun h => absurd hs h, fun _ => hi⟩ hr
  | _ => exact invM_of m f rest hm ⟨fun h => absurd hs h, fun _ => hi⟩ hr

theorem step_s13_inv (orc : Oracle) (m : PM) (f : Frame) (rest : List Frame) (tok : Tok) (hm : m.frames = f :: rest)
    (hd : f.depth = 0) (hr : ∀ p ∈ rest, Clear p) (hs : f.state = .s13) :
    InvM (step_s13 orc m f rest tok) := by
  unfold step_s13
  simp only []
  split
  · simp only [if_true]
    exact invM_of _ _ rest rfl ⟨fun _ => hd, fun _ => rfl⟩ hr
  · simp only [if_true]
    exact invM_of _ _ rest rfl ⟨fun _ => hd, fun _ => rfl⟩ hr
  · simp only [Bool.false_eq_true, if_false]
    exact invM_of m f rest hm ⟨fun _ => hd, fun h => absurd hs h⟩ hr


theorem step_s5_inv (orc : Oracle) (m : PM) (f : Frame) (rest : List Frame) (tok : Tok) (hf : Clear f) (hr : ∀ p ∈ rest, Clear p) :
    InvM (step_s5 orc m f rest tok) := by
  have hd := hf.1
  have hi := hf.2
  unfold step_s5
  cases tok with
  | lbrace =>
    simp only []
    cases hopt : f.opt with
    | none => exact invM_reject _ _ _ hf.inv hr
    | some r =>
      simp only [Option.bind_some]
      cases f.cfg.getOpt r with
      | none => exact invM_reject _ _ _ hf.inv hr
      | some o =>
        simp only []
        generalize setopt orc m.k f.cfg.info o f.opttitle = out
        cases out.res with
        | none => inv_auto hd hi hr
        | some i =>
          simp only []
          split
          · refine invM_of _ _ _ rfl (Clear.inv ⟨rfl, rfl⟩) ?_
            intro p hp
            simp only [List.mem_cons] at hp
            rcases hp with hp | hp
            · subst hp; exact ⟨hd, hi⟩
            · exact hr p hp
          · inv_auto hd hi hr
  | _ => inv_auto hd hi hr

theorem depEffect_clear (f : Frame) (h : Clear f) : Clear (depEffect f).2.2 := by
  unfold depEffect
  repeat' split
  all_goals exact h

theorem step_s0_inv (orc : Oracle) (m : PM) (f : Frame) (rest : List Frame) (tok : Tok) (hf : Clear f) (hr : ∀ p ∈ rest, Clear p) :
    InvM (step_s0 orc m f rest tok) := by
  unfold step_s0
  simp only [handleDeprecated_spec]
  have hf' := depEffect_clear f hf
  generalize depEffect f = e at hf'
  obtain ⟨ds, ev, f'⟩ := e
  simp only [] at hf' ⊢
  have hd := hf'.1
  have hi := hf'.2
  cases tok with
  | rbrace =>
    cases rest with
    | nil => inv_auto hd hi hr
    | cons p rs =>
      simp only []
      have hp : Clear p := hr p (by simp)
      have hrs : ∀ q ∈ rs, Clear q := fun q hq => hr q (by simp [hq])
      split
      · inv_auto hd hi hr
      · simp only [runValid_spec]
        have hp2 : Clear { writeBack p f' with cfg := (writeBack p f').cfg.afterSection f'.cfg } := clear_writeBack p f' hp
        generalize ({ writeBack p f' with cfg := (writeBack p f').cfg.afterSection f'.cfg } : Frame) = p2 at hp2 ⊢
        cases validVerdict orc ((m.addDiags f ds).addCalls ev).k p2 with
        | none => simp only [Option.map_none]; exact invM_reject _ _ _ hp2.inv hrs
        | some cs =>
          simp only [Option.map_some]
          have hw := clear_writeBack p f' hp
          exact invM_of _ _ rs rfl (Clear.inv ⟨hw.1, hw.2⟩) hrs
  | _ =>
    simp only []
    inv_auto hd hi hr


/-- **Invariant.** One step keeps the skip locals clear outside the skip states. -/
theorem pstep_inv (orc : Oracle) (m : PM) (tok : Tok) (nl : Nat) (h : InvM m) : InvM (pstep orc m tok nl) := by
  by_cases hrun : m.status = .running
  · cases hfr : m.frames with
    | nil =>
      have : pstep orc m tok nl = m := by unfold pstep; simp [hfr]
      rw [this]; exact h
    | cons f rest =>
      have hf : SkipInv f := h.1 f (by simp [hfr])
      have hr : ∀ p ∈ rest, Clear p := fun p hp => h.2 p (by simp [hfr, hp])
      have hF : SkipInv (f.addLine nl) := hf
      cases tok with
      | err e =>
        rw [pstep_err orc m f rest e nl hrun hfr]
        exact invM_reject _ _ _ hF hr
      | eof =>
        rw [pstep_eof orc m f rest nl hrun hfr]
        split
        · exact invM_reject _ _ _ hF hr
        · rename_i hc
          simp only [handleDeprecated_spec]
          have hs0 : f.state = .s0 := by
            cases hst : f.state <;> simp_all
          have hcl := depEffect_clear (f.addLine nl) (clear_of_inv hF (by simp [Frame.addLine, hs0]) (by simp [Frame.addLine, hs0]))
          exact invM_of _ _ [] rfl hcl.inv (by simp)
      | comment v =>
        by_cases hs0 : f.state = .s0
        · rw [pstep_running orc m f rest _ nl hrun hfr rfl (Or.inr hs0)]
          simp only [hs0]
          exact step_s0_inv orc _ _ rest _ (clear_of_inv hF (by simp [Frame.addLine, hs0]) (by simp [Frame.addLine, hs0])) hr
        · rw [pstep_comment_skip orc m f rest v nl hrun hfr hs0]
          exact invM_of _ _ rest rfl hF hr
      | str v => rw [pstep_running orc m f rest _ nl hrun hfr rfl (Or.inl rfl)]; cases hs : f.state with
        | s0 => exact step_s0_inv orc _ _ rest _ (clear_of_inv hF (by simp [Frame.addLine, hs]) (by simp [Frame.addLine, hs])) hr
        | s1 => exact step_s1_inv orc _ _ rest _ (clear_of_inv hF (by simp [Frame.addLine, hs]) (by simp [Frame.addLine, hs])) hr
        | s2 => exact step_s2_inv orc _ _ rest _ (clear_of_inv hF (by simp [Frame.addLine, hs]) (by simp [Frame.addLine, hs])) hr
        | s3 => exact step_s3_inv orc _ _ rest _ (clear_of_inv hF (by simp [Frame.addLine, hs]) (by simp [Frame.addLine, hs])) hr
        | s4 => exact step_s4_inv orc _ _ rest _ (clear_of_inv hF (by simp [Frame.addLine, hs]) (by simp [Frame.addLine, hs])) hr
        | s5 => exact step_s5_inv orc _ _ rest _ (clear_of_inv hF (by simp [Frame.addLine, hs]) (by simp [Frame.addLine, hs])) hr
        | s6 => exact step_s6_inv orc _ _ rest _ (clear_of_inv hF (by simp [Frame.addLine, hs]) (by simp [Frame.addLine, hs])) hr
        | s7 => exact step_s7_inv orc _ _ rest _ (clear_of_inv hF (by simp [Frame.addLine, hs]) (by simp [Frame.addLine, hs])) hr
        | s8 => exact step_s8_inv orc _ _ rest _ (clear_of_inv hF (by simp [Frame.addLine, hs]) (by simp [Frame.addLine, hs])) hr
        | s9 => exact step_s9_inv orc _ _ rest _ (clear_of_inv hF (by simp [Frame.addLine, hs]) (by simp [Frame.addLine, hs])) hr
        | s10 => exact step_s10_inv orc _ _ rest _ (clear_of_inv hF (by simp [Frame.addLine, hs]) (by simp [Frame.addLine, hs])) hr
        | s11 => exact step_s11_inv orc _ _ rest _ (clear_of_inv hF (by simp [Frame.addLine, hs]) (by simp [Frame.addLine, hs])) hr
        | s12 => exact step_s12_inv orc _ _ rest _ rfl (hF.2 (by simp [Frame.addLine, hs])) hr (by simp [Frame.addLine, hs])
        | s13 => exact step_s13_inv orc _ _ rest _ rfl (hF.1 (by simp [Frame.addLine, hs])) hr (by simp [Frame.addLine, hs])
        | s14 => exact step_s14_inv orc _ _ rest _ (clear_of_inv hF (by simp [Frame.addLine, hs]) (by simp [Frame.addLine, hs])) hr
      | lbrace => rw [pstep_running orc m f rest _ nl hrun hfr rfl (Or.inl rfl)]; cases hs : f.state with
        | s0 => exact step_s0_inv orc _ _ rest _ (clear_of_inv hF (by simp [Frame.addLine, hs]) (by simp [Frame.addLine, hs])) hr
        | s1 => exact step_s1_inv orc _ _ rest _ (clear_of_inv hF (by simp [Frame.addLine, hs]) (by simp [Frame.addLine, hs])) hr
        | s2 => exact step_s2_inv orc _ _ rest _ (clear_of_inv hF (by simp [Frame.addLine, hs]) (by simp [Frame.addLine, hs])) hr
        | s3 => exact step_s3_inv orc _ _ rest _ (clear_of_inv hF (by simp [Frame.addLine, hs]) (by simp [Frame.addLine, hs])) hr
        | s4 => exact step_s4_inv orc _ _ rest _ (clear_of_inv hF (by simp [Frame.addLine, hs]) (by simp [Frame.addLine, hs])) hr
        | s5 => exact step_s5_inv orc _ _ rest _ (clear_of_inv hF (by simp [Frame.addLine, hs]) (by simp [Frame.addLine, hs])) hr
        | s6 => exact step_s6_inv orc _ _ rest _ (clear_of_inv hF (by simp [Frame.addLine, hs]) (by simp [Frame.addLine, hs])) hr
        | s7 => exact step_s7_inv orc _ _ rest _ (clear_of_inv hF (by simp [Frame.addLine, hs]) (by simp [Frame.addLine, hs])) hr
        | s8 => exact step_s8_inv orc _ _ rest _ (clear_of_inv hF (by simp [Frame.addLine, hs]) (by simp [Frame.addLine, hs])) hr
        | s9 => exact step_s9_inv orc _ _ rest _ (clear_of_inv hF (by simp [Frame.addLine, hs]) (by simp [Frame.addLine, hs])) hr
        | s10 => exact step_s10_inv orc _ _ rest _ (clear_of_inv hF (by simp [Frame.addLine, hs]) (by simp [Frame.addLine, hs])) hr
        | s11 => exact step_s11_inv orc _ _ rest _ (clear_of_inv hF (by simp [Frame.addLine, hs]) (by simp [Frame.addLine, hs])) hr
        | s12 => exact step_s12_inv orc _ _ rest _ rfl (hF.2 (by simp [Frame.addLine, hs])) hr (by simp [Frame.addLine, hs])
        | s13 => exact step_s13_inv orc _ _ rest _ rfl (hF.1 (by simp [Frame.addLine, hs])) hr (by simp [Frame.addLine, hs])
        | s14 => exact step_s14_inv orc _ _ rest _ (clear_of_inv hF (by simp [Frame.addLine, hs]) (by simp [Frame.addLine, hs])) hr
      | rbrace => rw [pstep_running orc m f rest _ nl hrun hfr rfl (Or.inl rfl)]; cases hs : f.state with
        | s0 => exact step_s0_inv orc _ _ rest _ (clear_of_inv hF (by simp [Frame.addLine, hs]) (by simp [Frame.addLine, hs])) hr
        | s1 => exact step_s1_inv orc _ _ rest _ (clear_of_inv hF (by simp [Frame.addLine, hs]) (by simp [Frame.addLine, hs])) hr
        | s2 => exact step_s2_inv orc _ _ rest _ (clear_of_inv hF (by simp [Frame.addLine, hs]) (by simp [Frame.addLine, hs])) hr
        | s3 => exact step_s3_inv orc _ _ rest _ (clear_of_inv hF (by simp [Frame.addLine, hs]) (by simp [Frame.addLine, hs])) hr
        | s4 => exact step_s4_inv orc _ _ rest _ (clear_of_inv hF (by simp [Frame.addLine, hs]) (by simp [Frame.addLine, hs])) hr
        | s5 => exact step_s5_inv orc _ _ rest _ (clear_of_inv hF (by simp [Frame.addLine, hs]) (by simp [Frame.addLine, hs])) hr
        | s6 => exact step_s6_inv orc _ _ rest _ (clear_of_inv hF (by simp [Frame.addLine, hs]) (by simp [Frame.addLine, hs])) hr
        | s7 => exact step_s7_inv orc _ _ rest _ (clear_of_inv hF (by simp [Frame.addLine, hs]) (by simp [Frame.addLine, hs])) hr
        | s8 => exact step_s8_inv orc _ _ rest _ (clear_of_inv hF (by simp [Frame.addLine, hs]) (by simp [Frame.addLine, hs])) hr
        | s9 => exact step_s9_inv orc _ _ rest _ (clear_of_inv hF (by simp [Frame.addLine, hs]) (by simp [Frame.addLine, hs])) hr
        | s10 => exact step_s10_inv orc _ _ rest _ (clear_of_inv hF (by simp [Frame.addLine, hs]) (by simp [Frame.addLine, hs])) hr
        | s11 => exact step_s11_inv orc _ _ rest _ (clear_of_inv hF (by simp [Frame.addLine, hs]) (by simp [Frame.addLine, hs])) hr
        | s12 => exact step_s12_inv orc _ _ rest _ rfl (hF.2 (by simp [Frame.addLine, hs])) hr (by simp [Frame.addLine, hs])
        | s13 => exact step_s13_inv orc _ _ rest _ rfl (hF.1 (by simp [Frame.addLine, hs])) hr (by simp [Frame.addLine, hs])
        | s14 => exact step_s14_inv orc _ _ rest _ (clear_of_inv hF (by simp [Frame.addLine, hs]) (by simp [Frame.addLine, hs])) hr
      | lparen => rw [pstep_running orc m f rest _ nl hrun hfr rfl (Or.inl rfl)]; cases hs : f.state with
        | s0 => exact step_s0_inv orc _ _ rest _ (clear_of_inv hF (by simp [Frame.addLine, hs]) (by simp [Frame.addLine, hs])) hr
        | s1 => exact step_s1_inv orc _ _ rest _ (clear_of_inv hF (by simp [Frame.addLine, hs]) (by simp [Frame.addLine, hs])) hr
        | s2 => exact step_s2_inv orc _ _ rest _ (clear_of_inv hF (by simp [Frame.addLine, hs]) (by simp [Frame.addLine, hs])) hr
        | s3 => exact step_s3_inv orc _ _ rest _ (clear_of_inv hF (by simp [Frame.addLine, hs]) (by simp [Frame.addLine, hs])) hr
        | s4 => exact step_s4_inv orc _ _ rest _ (clear_of_inv hF (by simp [Frame.addLine, hs]) (by simp [Frame.addLine, hs])) hr
        | s5 => exact step_s5_inv orc _ _ rest _ (clear_of_inv hF (by simp [Frame.addLine, hs]) (by simp [Frame.addLine, hs])) hr
        | s6 => exact step_s6_inv orc _ _ rest _ (clear_of_inv hF (by simp [Frame.addLine, hs]) (by simp [Frame.addLine, hs])) hr
        | s7 => exact step_s7_inv orc _ _ rest _ (clear_of_inv hF (by simp [Frame.addLine, hs]) (by simp [Frame.addLine, hs])) hr
        | s8 => exact step_s8_inv orc _ _ rest _ (clear_of_inv hF (by simp [Frame.addLine, hs]) (by simp [Frame.addLine, hs])) hr
        | s9 => exact step_s9_inv orc _ _ rest _ (clear_of_inv hF (by simp [Frame.addLine, hs]) (by simp [Frame.addLine, hs])) hr
        | s10 => exact step_s10_inv orc _ _ rest _ (clear_of_inv hF (by simp [Frame.addLine, hs]) (by simp [Frame.addLine, hs])) hr
        | s11 => exact step_s11_inv orc _ _ rest _ (clear_of_inv hF (by simp [Frame.addLine, hs]) (by simp [Frame.addLine, hs])) hr
        | s12 => exact step_s12_inv orc _ _ rest _ rfl (hF.2 (by simp [Frame.addLine, hs])) hr (by simp [Frame.addLine, hs])
        | s13 => exact step_s13_inv orc _ _ rest _ rfl (hF.1 (by simp [Frame.addLine, hs])) hr (by simp [Frame.addLine, hs])
        | s14 => exact step_s14_inv orc _ _ rest _ (clear_of_inv hF (by simp [Frame.addLine, hs]) (by simp [Frame.addLine, hs])) hr
      | rparen => rw [pstep_running orc m f rest _ nl hrun hfr rfl (Or.inl rfl)]; cases hs : f.state with
        | s0 => exact step_s0_inv orc _ _ rest _ (clear_of_inv hF (by simp [Frame.addLine, hs]) (by simp [Frame.addLine, hs])) hr
        | s1 => exact step_s1_inv orc _ _ rest _ (clear_of_inv hF (by simp [Frame.addLine, hs]) (by simp [Frame.addLine, hs])) hr
        | s2 => exact step_s2_inv orc _ _ rest _ (clear_of_inv hF (by simp [Frame.addLine, hs]) (by simp [Frame.addLine, hs])) hr
        | s3 => exact step_s3_inv orc _ _ rest _ (clear_of_inv hF (by simp [Frame.addLine, hs]) (by simp [Frame.addLine, hs])) hr
        | s4 => exact step_s4_inv orc _ _ rest _ (clear_of_inv hF (by simp [Frame.addLine, hs]) (by simp [Frame.addLine, hs])) hr
        | s5 => exact step_s5_inv orc _ _ rest _ (clear_of_inv hF (by simp [Frame.addLine, hs]) (by simp [Frame.addLine, hs])) hr
        | s6 => exact step_s6_inv orc _ _ rest _ (clear_of_inv hF (by simp [Frame.addLine, hs]) (by simp [Frame.addLine, hs])) hr
        | s7 => exact step_s7_inv orc _ _ rest _ (clear_of_inv hF (by simp [Frame.addLine, hs]) (by simp [Frame.addLine, hs])) hr
        | s8 => exact step_s8_inv orc _ _ rest _ (clear_of_inv hF (by simp [Frame.addLine, hs]) (by simp [Frame.addLine, hs])) hr
        | s9 => exact step_s9_inv orc _ _ rest _ (clear_of_inv hF (by simp [Frame.addLine, hs]) (by simp [Frame.addLine, hs])) hr
        | s10 => exact step_s10_inv orc _ _ rest _ (clear_of_inv hF (by simp [Frame.addLine, hs]) (by simp [Frame.addLine, hs])) hr
        | s11 => exact step_s11_inv orc _ _ rest _ (clear_of_inv hF (by simp [Frame.addLine, hs]) (by simp [Frame.addLine, hs])) hr
        | s12 => exact step_s12_inv orc _ _ rest _ rfl (hF.2 (by simp [Frame.addLine, hs])) hr (by simp [Frame.addLine, hs])
        | s13 => exact step_s13_inv orc _ _ rest _ rfl (hF.1 (by simp [Frame.addLine, hs])) hr (by simp [Frame.addLine, hs])
        | s14 => exact step_s14_inv orc _ _ rest _ (clear_of_inv hF (by simp [Frame.addLine, hs]) (by simp [Frame.addLine, hs])) hr
      | eq => rw [pstep_running orc m f rest _ nl hrun hfr rfl (Or.inl rfl)]; cases hs : f.state with
        | s0 => exact step_s0_inv orc _ _ rest _ (clear_of_inv hF (by simp [Frame.addLine, hs]) (by simp [Frame.addLine, hs])) hr
        | s1 => exact step_s1_inv orc _ _ rest _ (clear_of_inv hF (by simp [Frame.addLine, hs]) (by simp [Frame.addLine, hs])) hr
        | s2 => exact step_s2_inv orc _ _ rest _ (clear_of_inv hF (by simp [Frame.addLine, hs]) (by simp [Frame.addLine, hs])) hr
        | s3 => exact step_s3_inv orc _ _ rest _ (clear_of_inv hF (by simp [Frame.addLine, hs]) (by simp [Frame.addLine, hs])) hr
        | s4 => exact step_s4_inv orc _ _ rest _ (clear_of_inv hF (by simp [Frame.addLine, hs]) (by simp [Frame.addLine, hs])) hr
        | s5 => exact step_s5_inv orc _ _ rest _ (clear_of_inv hF (by simp [Frame.addLine, hs]) (by simp [Frame.addLine, hs])) hr
        | s6 => exact step_s6_inv orc _ _ rest _ (clear_of_inv hF (by simp [Frame.addLine, hs]) (by simp [Frame.addLine, hs])) hr
        | s7 => exact step_s7_inv orc _ _ rest _ (clear_of_inv hF (by simp [Frame.addLine, hs]) (by simp [Frame.addLine, hs])) hr
        | s8 => exact step_s8_inv orc _ _ rest _ (clear_of_inv hF (by simp [Frame.addLine, hs]) (by simp [Frame.addLine, hs])) hr
        | s9 => exact step_s9_inv orc _ _ rest _ (clear_of_inv hF (by simp [Frame.addLine, hs]) (by simp [Frame.addLine, hs])) hr
        | s10 => exact step_s10_inv orc _ _ rest _ (clear_of_inv hF (by simp [Frame.addLine, hs]) (by simp [Frame.addLine, hs])) hr
        | s11 => exact step_s11_inv orc _ _ rest _ (clear_of_inv hF (by simp [Frame.addLine, hs]) (by simp [Frame.addLine, hs])) hr
        | s12 => exact step_s12_inv orc _ _ rest _ rfl (hF.2 (by simp [Frame.addLine, hs])) hr (by simp [Frame.addLine, hs])
        | s13 => exact step_s13_inv orc _ _ rest _ rfl (hF.1 (by simp [Frame.addLine, hs])) hr (by simp [Frame.addLine, hs])
        | s14 => exact step_s14_inv orc _ _ rest _ (clear_of_inv hF (by simp [Frame.addLine, hs]) (by simp [Frame.addLine, hs])) hr
      | pluseq => rw [pstep_running orc m f rest _ nl hrun hfr rfl (Or.inl rfl)]; cases hs : f.state with
        | s0 => exact step_s0_inv orc _ _ rest _ (clear_of_inv hF (by simp [Frame.addLine, hs]) (by simp [Frame.addLine, hs])) hr
        | s1 => exact step_s1_inv orc _ _ rest _ (clear_of_inv hF (by simp [Frame.addLine, hs]) (by simp [Frame.addLine, hs])) hr
        | s2 => exact step_s2_inv orc _ _ rest _ (clear_of_inv hF (by simp [Frame.addLine, hs]) (by simp [Frame.addLine, hs])) hr
        | s3 => exact step_s3_inv orc _ _ rest _ (clear_of_inv hF (by simp [Frame.addLine, hs]) (by simp [Frame.addLine, hs])) hr
        | s4 => exact step_s4_inv orc _ _ rest _ (clear_of_inv hF (by simp [Frame.addLine, hs]) (by simp [Frame.addLine, hs])) hr
        | s5 => exact step_s5_inv orc _ _ rest _ (clear_of_inv hF (by simp [Frame.addLine, hs]) (by simp [Frame.addLine, hs])) hr
        | s6 => exact step_s6_inv orc _ _ rest _ (clear_of_inv hF (by simp [Frame.addLine, hs]) (by simp [Frame.addLine, hs])) hr
        | s7 => exact step_s7_inv orc _ _ rest _ (clear_of_inv hF (by simp [Frame.addLine, hs]) (by simp [Frame.addLine, hs])) hr
        | s8 => exact step_s8_inv orc _ _ rest _ (clear_of_inv hF (by simp [Frame.addLine, hs]) (by simp [Frame.addLine, hs])) hr
        | s9 => exact step_s9_inv orc _ _ rest _ (clear_of_inv hF (by simp [Frame.addLine, hs]) (by simp [Frame.addLine, hs])) hr
        | s10 => exact step_s10_inv orc _ _ rest _ (clear_of_inv hF (by simp [Frame.addLine, hs]) (by simp [Frame.addLine, hs])) hr
        | s11 => exact step_s11_inv orc _ _ rest _ (clear_of_inv hF (by simp [Frame.addLine, hs]) (by simp [Frame.addLine, hs])) hr
        | s12 => exact step_s12_inv orc _ _ rest _ rfl (hF.2 (by simp [Frame.addLine, hs])) hr (by simp [Frame.addLine, hs])
        | s13 => exact step_s13_inv orc _ _ rest _ rfl (hF.1 (by simp [Frame.addLine, hs])) hr (by simp [Frame.addLine, hs])
        | s14 => exact step_s14_inv orc _ _ rest _ (clear_of_inv hF (by simp [Frame.addLine, hs]) (by simp [Frame.addLine, hs])) hr
      | comma => rw [pstep_running orc m f rest _ nl hrun hfr rfl (Or.inl rfl)]; cases hs : f.state with
        | s0 => exact step_s0_inv orc _ _ rest _ (clear_of_inv hF (by simp [Frame.addLine, hs]) (by simp [Frame.addLine, hs])) hr
        | s1 => exact step_s1_inv orc _ _ rest _ (clear_of_inv hF (by simp [Frame.addLine, hs]) (by simp [Frame.addLine, hs])) hr
        | s2 => exact step_s2_inv orc _ _ rest _ (clear_of_inv hF (by simp [Frame.addLine, hs]) (by simp [Frame.addLine, hs])) hr
        | s3 => exact step_s3_inv orc _ _ rest _ (clear_of_inv hF (by simp [Frame.addLine, hs]) (by simp [Frame.addLine, hs])) hr
        | s4 => exact step_s4_inv orc _ _ rest _ (clear_of_inv hF (by simp [Frame.addLine, hs]) (by simp [Frame.addLine, hs])) hr
        | s5 => exact step_s5_inv orc _ _ rest _ (clear_of_inv hF (by simp [Frame.addLine, hs]) (by simp [Frame.addLine, hs])) hr
        | s6 => exact step_s6_inv orc _ _ rest _ (clear_of_inv hF (by simp [Frame.addLine, hs]) (by simp [Frame.addLine, hs])) hr
        | s7 => exact step_s7_inv orc _ _ rest _ (clear_of_inv hF (by simp [Frame.addLine, hs]) (by simp [Frame.addLine, hs])) hr
        | s8 => exact step_s8_inv orc _ _ rest _ (clear_of_inv hF (by simp [Frame.addLine, hs]) (by simp [Frame.addLine, hs])) hr
        | s9 => exact step_s9_inv orc _ _ rest _ (clear_of_inv hF (by simp [Frame.addLine, hs]) (by simp [Frame.addLine, hs])) hr
        | s10 => exact step_s10_inv orc _ _ rest _ (clear_of_inv hF (by simp [Frame.addLine, hs]) (by simp [Frame.addLine, hs])) hr
        | s11 => exact step_s11_inv orc _ _ rest _ (clear_of_inv hF (by simp [Frame.addLine, hs]) (by simp [Frame.addLine, hs])) hr
        | s12 => exact step_s12_inv orc _ _ rest _ rfl (hF.2 (by simp [Frame.addLine, hs])) hr (by simp [Frame.addLine, hs])
        | s13 => exact step_s13_inv orc _ _ rest _ rfl (hF.1 (by simp [Frame.addLine, hs])) hr (by simp [Frame.addLine, hs])
        | s14 => exact step_s14_inv orc _ _ rest _ (clear_of_inv hF (by simp [Frame.addLine, hs]) (by simp [Frame.addLine, hs])) hr
  · rw [pstep_stopped orc m tok nl hrun]; exact h

theorem parseToks_inv (orc : Oracle) (ts : List LTok) : ∀ m, InvM m → InvM (parseToks orc m ts) := by
  induction ts with
  | nil => intro m h; exact h
  | cons t ts ih => intro m h; rw [parseToks_cons]; exact ih _ (pstep_inv orc m t.1 t.2 h)

/-- the machine every parse starts from satisfies the invariant -/
theorem startPM_inv (c : Cfg) (text : Bytes) (k0 : Nat) : InvM (startPM c text k0) := by
  refine invM_of _ _ [] rfl (Clear.inv ⟨rfl, rfl⟩) (by simp)

end Confuse
