import Confuse.Lemmas.Compose
import Confuse.Lemmas.Path
import Confuse.Props.C10
/-!
# The compositional evaluation is total from an item boundary

Transition facts of the token machine on a one-frame stack, then: for every item list, from an item
boundary, every guard of `evalItems` holds and the result is again at an item boundary.
-/
namespace Confuse

/-- stopped, or exactly one frame, which satisfies `P` -/
def One (P : Frame → Prop) (m : PM) : Prop := m.status ≠ .running ∨ (m.status = .running ∧ ∃ f, m.frames = [f] ∧ P f)

theorem One.mono {P Q : Frame → Prop} {m : PM} (h : One P m) (hpq : ∀ f, P f → Q f) : One Q m := by
  rcases h with h | ⟨hr, f, hf, hp⟩
  · exact Or.inl h
  · exact Or.inr ⟨hr, f, hf, hpq f hp⟩

theorem One.live {P : Frame → Prop} {m : PM} (h : One P m) : Live m := by
  intro hrun
  rcases h with h | ⟨_, f, hf, _⟩
  · exact absurd hrun h
  · exact ⟨f, [], hf⟩

/-- the machine's own "is the current option a list" test of state 2 -/
def Frame.isList (f : Frame) : Bool := ((f.opt.bind f.cfg.getOpt).map (fun o => o.flags.list)).getD false

macro "one_tac" : tactic =>
  `(tactic| first
    | (left; simp [PM.reject, PM.rejectWith, collapse]; done)
    | (right; refine ⟨by simp [*], _, rfl, ?_⟩; simp [*]; done))

/-- a step from a running one-frame machine, in terms of the per-state function (non-comment tokens) -/
theorem pstep_one (orc : Oracle) (m : PM) (f : Frame) (tok : Tok) (nl : Nat)
    (hrun : m.status = .running) (hfr : m.frames = [f]) (hin : tok.inner = true)
    (hnc : (match tok with | .comment _ => true | _ => false) = false ∨ f.state = .s0) :
    pstep orc m tok nl =
      (match f.state with
      | .s0 => step_s0 orc { m with frames := [f.addLine nl] } (f.addLine nl) [] tok
      | .s1 => step_s1 orc { m with frames := [f.addLine nl] } (f.addLine nl) [] tok
      | .s2 => step_s2 orc { m with frames := [f.addLine nl] } (f.addLine nl) [] tok
      | .s3 => step_s3 orc { m with frames := [f.addLine nl] } (f.addLine nl) [] tok
      | .s4 => step_s4 orc { m with frames := [f.addLine nl] } (f.addLine nl) [] tok
      | .s5 => step_s5 orc { m with frames := [f.addLine nl] } (f.addLine nl) [] tok
      | .s6 => step_s6 orc { m with frames := [f.addLine nl] } (f.addLine nl) [] tok
      | .s7 => step_s7 orc { m with frames := [f.addLine nl] } (f.addLine nl) [] tok
      | .s8 => step_s8 orc { m with frames := [f.addLine nl] } (f.addLine nl) [] tok
      | .s9 => step_s9 orc { m with frames := [f.addLine nl] } (f.addLine nl) [] tok
      | .s10 => step_s10 orc { m with frames := [f.addLine nl] } (f.addLine nl) [] tok
      | .s11 => step_s11 orc { m with frames := [f.addLine nl] } (f.addLine nl) [] tok
      | .s12 => step_s12 orc { m with frames := [f.addLine nl] } (f.addLine nl) [] tok
      | .s13 => step_s13 orc { m with frames := [f.addLine nl] } (f.addLine nl) [] tok
      | .s14 => step_s14 orc { m with frames := [f.addLine nl] } (f.addLine nl) [] tok) :=
  pstep_running orc m f [] tok nl hrun hfr hin hnc

/-! ### transitions -/

theorem tr_s6_str (orc : Oracle) (m : PM) (f : Frame) (v : Bytes) (nl : Nat)
    (hrun : m.status = .running) (hfr : m.frames = [f]) (hs : f.state = .s6) :
    One (fun f' => f'.state = .s5) (pstep orc m (.str v) nl) := by
  rw [pstep_one orc m f _ nl hrun hfr rfl (Or.inl rfl)]
  simp only [hs, step_s6]
  one_tac


/-- after an option name: one of the five "head" states -/
def headState (f : Frame) : Prop :=
  f.state = .s1 ∨ f.state = .s5 ∨ f.state = .s6 ∨ f.state = .s7 ∨ f.state = .s10

theorem tr_s0_str (orc : Oracle) (m : PM) (f : Frame) (v : Bytes) (nl : Nat)
    (hrun : m.status = .running) (hfr : m.frames = [f]) (hs : f.state = .s0) :
    One headState (pstep orc m (.str v) nl) := by
  rw [pstep_one orc m f _ nl hrun hfr rfl (Or.inl rfl)]
  simp only [hs, step_s0, handleDeprecated_spec]
  generalize depEffect (f.addLine nl) = e
  obtain ⟨ds, ev, f'⟩ := e
  simp only []
  generalize getoptPath f'.cfg v = gp
  cases hr : gp.ref with
  | none =>
    simp only []
    split
    · right; exact ⟨by simp [hrun], _, rfl, by simp [headState]⟩
    · split
      · right; exact ⟨by simp [hrun], _, rfl, by simp [headState]⟩
      · split <;> one_tac
  | some ref =>
    simp only []
    split
    · one_tac
    · rename_i o ho
      right
      refine ⟨by simp [hrun], _, rfl, ?_⟩
      simp only [headState]
      by_cases h1 : (o.ty == Ty.sec) = true
      · by_cases h2 : o.flags.title = true <;> simp [h1, h2]
      · by_cases h3 : (o.ty == Ty.func) = true <;> simp [h1, h3]

theorem tr_s0_comment (orc : Oracle) (m : PM) (f : Frame) (v : Bytes) (nl : Nat)
    (hrun : m.status = .running) (hfr : m.frames = [f]) (hs : f.state = .s0) :
    One (fun f' => f'.state = .s0) (pstep orc m (.comment v) nl) := by
  rw [pstep_one orc m f _ nl hrun hfr rfl (Or.inr hs)]
  simp only [hs, step_s0, handleDeprecated_spec]
  have hst : (depEffect (f.addLine nl)).2.2.state = .s0 := by
    unfold depEffect
    repeat' split
    all_goals simp [Frame.addLine, hs]
  generalize depEffect (f.addLine nl) = e at hst
  obtain ⟨ds, ev, f'⟩ := e
  simp only [] at hst ⊢
  split
  · right; exact ⟨by simp [hrun], _, rfl, by simpa using hst⟩
  · right; exact ⟨by simp [hrun], _, rfl, by simpa using hst⟩


@[simp] theorem Opt.flags_setFlags (o : Opt) (f : Flags) : (o.setFlags f).flags = f := by cases o; rfl

theorem asg_cases (app : Bool) : asgTok app = .eq ∨ asgTok app = .pluseq := by cases app <;> simp [asgTok]

theorem getOpt_addLine (f : Frame) (nl : Nat) (r : OptRef) : (f.addLine nl).cfg.getOpt r = f.cfg.getOpt r := by
  simp [Frame.addLine, getOpt_setLine]

theorem tr_s1_asg (orc : Oracle) (m : PM) (f : Frame) (app : Bool) (nl : Nat)
    (hrun : m.status = .running) (hfr : m.frames = [f]) (hs : f.state = .s1) :
    One (fun f' => (f'.state = .s3 ∧ f'.isList = true) ∨ (f'.state = .s2 ∧ f'.isList = false)) (pstep orc m (asgTok app) nl) := by
  rw [pstep_one orc m f _ nl hrun hfr (asgTok_ok app).1 (Or.inl (by cases app <;> rfl))]
  simp only [hs, step_s1]
  cases hopt : (f.addLine nl).opt with
  | none => one_tac
  | some r =>
    cases hget : (f.addLine nl).cfg.getOpt r with
    | none => simp only [hget]; one_tac
    | some o =>
      simp only [hget]
      have hg := fun reset => getOpt_setOpt (f.addLine nl).cfg r o (o.setFlags { o.flags with reset := reset, modified := true }) hget
      rcases asg_cases app with h | h
      · rw [h]
        simp only []
        right
        refine ⟨by simp [hrun], _, rfl, ?_⟩
        by_cases hl : o.flags.list = true
        · left; simp only [Frame.isList, hopt, Option.bind_some, hg, Option.map_some, Option.getD_some, Opt.flags_setFlags]; simp [hl]
        · right; simp only [Frame.isList, hopt, Option.bind_some, hg, Option.map_some, Option.getD_some, Opt.flags_setFlags]; simp [hl]
      · rw [h]
        simp only []
        by_cases hl : o.flags.list = true
        · have hnl : (!o.flags.list) = false := by simp [hl]
          simp only [hnl, Bool.false_eq_true, if_false]
          right
          refine ⟨by simp [hrun], _, rfl, ?_⟩
          left; simp only [Frame.isList, hopt, Option.bind_some, hg, Option.map_some, Option.getD_some, Opt.flags_setFlags]; simp [hl]
        · have hnl : (!o.flags.list) = true := by simp [hl]
          simp only [hnl, if_true]
          one_tac


theorem setopt_flags_list (orc : Oracle) (k : Nat) (ci : CfgInfo) (o : Opt) (v : Option Bytes) :
    (setopt orc k ci o v).opt.flags.list = o.flags.list := by
  have h := (setopt_sameDecl orc k ci o v).2.2
  have : (setopt orc k ci o v).opt.flags.base.list = o.flags.base.list := by rw [h]
  simpa [Flags.base] using this

theorem inheritComment_isList (f : Frame) (r : OptRef) (o : Opt) (hopt : f.opt = some r) (hget : f.cfg.getOpt r = some o) :
    (inheritComment f).opt = some r ∧ ∃ o', (inheritComment f).cfg.getOpt r = some o' ∧ o'.flags.list = o.flags.list := by
  unfold inheritComment
  cases hc : f.comment with
  | none => simp [hopt, hget]
  | some c =>
    simp only [hopt, hget]
    refine ⟨trivial, _, getOpt_setOpt f.cfg r o _ hget, ?_⟩
    simp [Opt.flags]

theorem inheritComment_state (f : Frame) : (inheritComment f).state = f.state := by
  unfold inheritComment
  repeat' split
  all_goals rfl

theorem storeValue_one (orc : Oracle) (m : PM) (f : Frame) (v : Bytes) (next : PState) (hrun : m.status = .running) :
    One (fun f' => f'.state = next ∧ f'.isList = f.isList) (storeValue orc m f [] v next) := by
  unfold storeValue
  cases hopt : f.opt with
  | none => one_tac
  | some r =>
    cases hget : f.cfg.getOpt r with
    | none => simp only [hget]; one_tac
    | some o =>
      simp only [hget, runValid_spec]
      generalize hout : setopt orc m.k f.cfg.info o (some v) = out
      cases hres : out.res with
      | none => one_tac
      | some i =>
        simp only []
        have hg1 : ({ f with cfg := f.cfg.setOpt r out.opt, opt := some r } : Frame).cfg.getOpt r = some out.opt := getOpt_setOpt f.cfg r o out.opt hget
        have ho1 : ({ f with cfg := f.cfg.setOpt r out.opt, opt := some r } : Frame).opt = some r := rfl
        generalize ({ f with cfg := f.cfg.setOpt r out.opt, opt := some r } : Frame) = f1 at hg1 ho1 ⊢
        have hrun1 : ((m.addCalls out.calls).addDiags f1 out.diags).status = .running := by simp [hrun]
        generalize ((m.addCalls out.calls).addDiags f1 out.diags) = m1 at hrun1 ⊢
        cases hv : validVerdict orc m1.k f1 with
        | none => simp only [Option.map_none]; one_tac
        | some cs =>
          simp only [Option.map_some]
          right
          refine ⟨by simp [PM.addCalls, hrun1], _, rfl, rfl, ?_⟩
          obtain ⟨h1, o', h2, h3⟩ := inheritComment_isList f1 r out.opt ho1 hg1
          have hl : out.opt.flags.list = o.flags.list := by rw [← hout]; exact setopt_flags_list orc m.k f.cfg.info o (some v)
          simp only [Frame.isList, h1, h2, hopt, hget, Option.bind_some, Option.map_some, Option.getD_some, h3, hl]


@[simp] theorem isList_addLine (f : Frame) (nl : Nat) : (f.addLine nl).isList = f.isList := by
  unfold Frame.isList
  have : (f.addLine nl).opt = f.opt := rfl
  rw [this]
  cases f.opt with
  | none => rfl
  | some r => simp [getOpt_addLine]

theorem tr_s3_str (orc : Oracle) (m : PM) (f : Frame) (v : Bytes) (nl : Nat)
    (hrun : m.status = .running) (hfr : m.frames = [f]) (hs : f.state = .s3) :
    One (fun f' => f'.state = .s0) (pstep orc m (.str v) nl) := by
  rw [pstep_one orc m f _ nl hrun hfr rfl (Or.inl rfl)]
  simp only [hs, step_s3]
  exact (storeValue_one orc { m with frames := [f.addLine nl] } _ v .s0 hrun).mono (fun _ h => h.1)

theorem tr_s3_lbrace (orc : Oracle) (m : PM) (f : Frame) (nl : Nat)
    (hrun : m.status = .running) (hfr : m.frames = [f]) (hs : f.state = .s3) (hl : f.isList = true) :
    One (fun f' => f'.state = .s2 ∧ f'.isList = true) (pstep orc m .lbrace nl) := by
  rw [pstep_one orc m f _ nl hrun hfr rfl (Or.inl rfl)]
  simp only [hs, step_s3]
  right
  refine ⟨by simp [hrun], _, rfl, rfl, ?_⟩
  have : ({ f.addLine nl with state := .s2 } : Frame).isList = (f.addLine nl).isList := rfl
  rw [this, isList_addLine, hl]

theorem tr_s2_str (orc : Oracle) (m : PM) (f : Frame) (v : Bytes) (nl : Nat)
    (hrun : m.status = .running) (hfr : m.frames = [f]) (hs : f.state = .s2) :
    One (fun f' => (f.isList = true ∧ f'.state = .s4 ∧ f'.isList = true) ∨ (f.isList = false ∧ f'.state = .s0)) (pstep orc m (.str v) nl) := by
  rw [pstep_one orc m f _ nl hrun hfr rfl (Or.inl rfl)]
  simp only [hs, step_s2]
  have hil : f.isList = ((((f.addLine nl).opt.bind (f.addLine nl).cfg.getOpt).map (fun o => o.flags.list)).getD false) :=
    (isList_addLine f nl).symm
  cases hb : (f.addLine nl).opt.bind (f.addLine nl).cfg.getOpt with
  | none =>
    simp only [hb, Option.map_none, Option.getD_none] at hil ⊢
    refine (storeValue_one orc { m with frames := [f.addLine nl] } _ v _ hrun).mono ?_
    intro f' ⟨h1, _⟩
    right; exact ⟨hil, by simpa using h1⟩
  | some o =>
    simp only [hb, Option.map_some, Option.getD_some] at hil ⊢
    refine (storeValue_one orc { m with frames := [f.addLine nl] } _ v _ hrun).mono ?_
    intro f' ⟨h1, h2⟩
    rw [isList_addLine] at h2
    cases hl : o.flags.list with
    | true => left; rw [hl] at hil; simp [hl] at h1; exact ⟨hil, h1, by rw [h2, hil]⟩
    | false => right; rw [hl] at hil; simp [hl] at h1; exact ⟨hil, h1⟩


def Tok.notComment (t : Tok) : Bool := match t with | .comment _ => false | _ => true

/-- `pstep_one` for tokens that are not comments -/
theorem pstep_nc (orc : Oracle) (m : PM) (f : Frame) (tok : Tok) (nl : Nat)
    (hrun : m.status = .running) (hfr : m.frames = [f]) (hin : tok.inner = true) (hc : tok.notComment = true) :
    pstep orc m tok nl =
      (match f.state with
      | .s0 => step_s0 orc { m with frames := [f.addLine nl] } (f.addLine nl) [] tok
      | .s1 => step_s1 orc { m with frames := [f.addLine nl] } (f.addLine nl) [] tok
      | .s2 => step_s2 orc { m with frames := [f.addLine nl] } (f.addLine nl) [] tok
      | .s3 => step_s3 orc { m with frames := [f.addLine nl] } (f.addLine nl) [] tok
      | .s4 => step_s4 orc { m with frames := [f.addLine nl] } (f.addLine nl) [] tok
      | .s5 => step_s5 orc { m with frames := [f.addLine nl] } (f.addLine nl) [] tok
      | .s6 => step_s6 orc { m with frames := [f.addLine nl] } (f.addLine nl) [] tok
      | .s7 => step_s7 orc { m with frames := [f.addLine nl] } (f.addLine nl) [] tok
      | .s8 => step_s8 orc { m with frames := [f.addLine nl] } (f.addLine nl) [] tok
      | .s9 => step_s9 orc { m with frames := [f.addLine nl] } (f.addLine nl) [] tok
      | .s10 => step_s10 orc { m with frames := [f.addLine nl] } (f.addLine nl) [] tok
      | .s11 => step_s11 orc { m with frames := [f.addLine nl] } (f.addLine nl) [] tok
      | .s12 => step_s12 orc { m with frames := [f.addLine nl] } (f.addLine nl) [] tok
      | .s13 => step_s13 orc { m with frames := [f.addLine nl] } (f.addLine nl) [] tok
      | .s14 => step_s14 orc { m with frames := [f.addLine nl] } (f.addLine nl) [] tok) := by
  cases tok with
  | comment v => simp [Tok.notComment] at hc
  | eof => simp [Tok.inner] at hin
  | err e => simp [Tok.inner] at hin
  | str v => exact pstep_one orc m f _ nl hrun hfr rfl (Or.inl rfl)
  | lbrace => exact pstep_one orc m f _ nl hrun hfr rfl (Or.inl rfl)
  | rbrace => exact pstep_one orc m f _ nl hrun hfr rfl (Or.inl rfl)
  | lparen => exact pstep_one orc m f _ nl hrun hfr rfl (Or.inl rfl)
  | rparen => exact pstep_one orc m f _ nl hrun hfr rfl (Or.inl rfl)
  | eq => exact pstep_one orc m f _ nl hrun hfr rfl (Or.inl rfl)
  | pluseq => exact pstep_one orc m f _ nl hrun hfr rfl (Or.inl rfl)
  | comma => exact pstep_one orc m f _ nl hrun hfr rfl (Or.inl rfl)

macro "tr_tac" : tactic =>
  `(tactic| first
    | (left; simp [PM.reject, PM.rejectWith, collapse]; done)
    | (right; refine ⟨by simp [*], _, rfl, ?_⟩; simp [*, Frame.addLine]; done))

theorem tr_s2_rbrace (orc : Oracle) (m : PM) (f : Frame) (nl : Nat)
    (hrun : m.status = .running) (hfr : m.frames = [f]) (hs : f.state = .s2) :
    One (fun f' => f'.state = .s0) (pstep orc m .rbrace nl) := by
  rw [pstep_one orc m f _ nl hrun hfr rfl (Or.inl rfl)]
  simp only [hs, step_s2]
  repeat' split
  all_goals tr_tac

theorem tr_s2_other (orc : Oracle) (m : PM) (f : Frame) (tok : Tok) (nl : Nat)
    (hrun : m.status = .running) (hfr : m.frames = [f]) (hs : f.state = .s2) (hin : tok.inner = true) (hc : tok.notComment = true)
    (h1 : tok ≠ .rbrace) (h2 : ∀ v, tok ≠ .str v) :
    (pstep orc m tok nl).status ≠ .running := by
  rw [pstep_nc orc m f _ nl hrun hfr hin hc]
  simp only [hs, step_s2]
  cases tok <;> simp_all [PM.rejectWith]

theorem tr_s4 (orc : Oracle) (m : PM) (f : Frame) (tok : Tok) (nl : Nat)
    (hrun : m.status = .running) (hfr : m.frames = [f]) (hs : f.state = .s4) (hin : tok.inner = true) (hc : tok.notComment = true) :
    One (fun f' => (tok = .comma ∧ f'.state = .s2 ∧ f'.isList = f.isList) ∨ (tok = .rbrace ∧ f'.state = .s0)) (pstep orc m tok nl) := by
  rw [pstep_nc orc m f _ nl hrun hfr hin hc]
  simp only [hs, step_s4]
  cases tok with
  | comma =>
    right
    refine ⟨by simp [hrun], _, rfl, Or.inl ⟨rfl, rfl, ?_⟩⟩
    have : ({ f.addLine nl with state := .s2 } : Frame).isList = (f.addLine nl).isList := rfl
    rw [this, isList_addLine]
  | rbrace =>
    simp only [runValid_spec]
    cases hv : validVerdict orc ({ m with frames := [f.addLine nl] } : PM).k (f.addLine nl) with
    | none => simp only [Option.map_none]; tr_tac
    | some cs => simp only [Option.map_some]; right; exact ⟨by simp [PM.addCalls, hrun], _, rfl, Or.inr ⟨trivial, rfl⟩⟩
  | _ => tr_tac


theorem tr_s1_other (orc : Oracle) (m : PM) (f : Frame) (tok : Tok) (nl : Nat)
    (hrun : m.status = .running) (hfr : m.frames = [f]) (hs : f.state = .s1) (hin : tok.inner = true) (hc : tok.notComment = true)
    (h1 : tok ≠ .eq) (h2 : tok ≠ .pluseq) :
    (pstep orc m tok nl).status ≠ .running := by
  rw [pstep_nc orc m f _ nl hrun hfr hin hc]
  simp only [hs, step_s1]
  repeat' split
  all_goals simp_all [PM.rejectWith, PM.reject, collapse]

theorem tr_s5_other (orc : Oracle) (m : PM) (f : Frame) (tok : Tok) (nl : Nat)
    (hrun : m.status = .running) (hfr : m.frames = [f]) (hs : f.state = .s5) (hin : tok.inner = true) (hc : tok.notComment = true)
    (h1 : tok ≠ .lbrace) :
    (pstep orc m tok nl).status ≠ .running := by
  rw [pstep_nc orc m f _ nl hrun hfr hin hc]
  simp only [hs, step_s5]
  cases tok <;> simp_all [PM.rejectWith]

theorem tr_s6 (orc : Oracle) (m : PM) (f : Frame) (tok : Tok) (nl : Nat)
    (hrun : m.status = .running) (hfr : m.frames = [f]) (hs : f.state = .s6) (hin : tok.inner = true) (hc : tok.notComment = true) :
    One (fun f' => f'.state = .s5 ∧ ∃ v, tok = .str v) (pstep orc m tok nl) := by
  rw [pstep_nc orc m f _ nl hrun hfr hin hc]
  simp only [hs, step_s6]
  cases tok <;> tr_tac

theorem tr_s7 (orc : Oracle) (m : PM) (f : Frame) (tok : Tok) (nl : Nat)
    (hrun : m.status = .running) (hfr : m.frames = [f]) (hs : f.state = .s7) (hin : tok.inner = true) (hc : tok.notComment = true) :
    One (fun f' => f'.state = .s8 ∧ tok = .lparen) (pstep orc m tok nl) := by
  rw [pstep_nc orc m f _ nl hrun hfr hin hc]
  simp only [hs, step_s7]
  cases tok <;> tr_tac

theorem callFunction_one (orc : Oracle) (m : PM) (f : Frame) (hrun : m.status = .running) :
    One (fun f' => f'.state = .s0) (callFunction orc m f []) := by
  unfold callFunction
  cases hopt : f.opt with
  | none => left; simp [PM.reject, collapse]
  | some r =>
    cases hget : f.cfg.getOpt r with
    | none => left; simp [hget, PM.reject, collapse]
    | some o =>
      simp only [hget]
      cases hfn : o.info.func with
      | none => left; simp [PM.reject, collapse]
      | incl =>
        simp only []
        split
        · right; exact ⟨hrun, _, rfl, rfl⟩
        · left; simp [PM.reject, PM.rejectWith, collapse]
      | user =>
        simp only []
        split
        · left; simp [PM.reject, PM.rejectWith, collapse]
        · right; exact ⟨by simp [PM.addCalls, hrun], _, rfl, rfl⟩

theorem tr_s8 (orc : Oracle) (m : PM) (f : Frame) (tok : Tok) (nl : Nat)
    (hrun : m.status = .running) (hfr : m.frames = [f]) (hs : f.state = .s8) (hin : tok.inner = true) (hc : tok.notComment = true) :
    One (fun f' => (f'.state = .s9 ∧ ∃ v, tok = .str v) ∨ (f'.state = .s0 ∧ tok = .rparen)) (pstep orc m tok nl) := by
  rw [pstep_nc orc m f _ nl hrun hfr hin hc]
  simp only [hs, step_s8]
  cases tok with
  | rparen => exact (callFunction_one orc { m with frames := [f.addLine nl] } _ hrun).mono (fun _ h => Or.inr ⟨h, rfl⟩)
  | _ => tr_tac

theorem tr_s9 (orc : Oracle) (m : PM) (f : Frame) (tok : Tok) (nl : Nat)
    (hrun : m.status = .running) (hfr : m.frames = [f]) (hs : f.state = .s9) (hin : tok.inner = true) (hc : tok.notComment = true) :
    One (fun f' => (f'.state = .s8 ∧ tok = .comma) ∨ (f'.state = .s0 ∧ tok = .rparen)) (pstep orc m tok nl) := by
  rw [pstep_nc orc m f _ nl hrun hfr hin hc]
  simp only [hs, step_s9]
  cases tok with
  | rparen => exact (callFunction_one orc { m with frames := [f.addLine nl] } _ hrun).mono (fun _ h => Or.inr ⟨h, rfl⟩)
  | _ => tr_tac

theorem tr_s10 (orc : Oracle) (m : PM) (f : Frame) (tok : Tok) (nl : Nat)
    (hrun : m.status = .running) (hfr : m.frames = [f]) (hs : f.state = .s10) (hin : tok.inner = true) (hc : tok.notComment = true) :
    One (fun f' => (f'.state = .s14 ∧ (tok = .eq ∨ tok = .pluseq)) ∨ (f'.state = .s13 ∧ f'.ignore = .rparen ∧ tok = .lparen) ∨
        (f'.state = .s12 ∧ f'.depth = 1 ∧ tok = .lbrace) ∨ (f'.state = .s11 ∧ ∃ v, tok = .str v)) (pstep orc m tok nl) := by
  rw [pstep_nc orc m f _ nl hrun hfr hin hc]
  simp only [hs, step_s10]
  cases tok <;> tr_tac

theorem tr_s11 (orc : Oracle) (m : PM) (f : Frame) (tok : Tok) (nl : Nat)
    (hrun : m.status = .running) (hfr : m.frames = [f]) (hs : f.state = .s11) (hin : tok.inner = true) (hc : tok.notComment = true) :
    One (fun f' => f'.state = .s12 ∧ f'.depth = 1 ∧ tok = .lbrace) (pstep orc m tok nl) := by
  rw [pstep_nc orc m f _ nl hrun hfr hin hc]
  simp only [hs, step_s11]
  cases tok <;> tr_tac

theorem tr_s14 (orc : Oracle) (m : PM) (f : Frame) (tok : Tok) (nl : Nat)
    (hrun : m.status = .running) (hfr : m.frames = [f]) (hs : f.state = .s14) (hin : tok.inner = true) (hc : tok.notComment = true) :
    One (fun f' => (f'.state = .s0 ∧ ∃ v, tok = .str v) ∨ (f'.state = .s13 ∧ f'.ignore = .rbrace ∧ tok = .lbrace)) (pstep orc m tok nl) := by
  rw [pstep_nc orc m f _ nl hrun hfr hin hc]
  simp only [hs, step_s14]
  cases tok <;> tr_tac

theorem tr_s13 (orc : Oracle) (m : PM) (f : Frame) (tok : Tok) (nl : Nat)
    (hrun : m.status = .running) (hfr : m.frames = [f]) (hs : f.state = .s13) (hin : tok.inner = true) (hc : tok.notComment = true) :
    One (fun f' => (f'.state = .s0 ∧ ((tok = .rparen ∧ f.ignore = .rparen) ∨ (tok = .rbrace ∧ f.ignore = .rbrace))) ∨
        (f'.state = .s13 ∧ f'.ignore = f.ignore ∧ ¬ ((tok = .rparen ∧ f.ignore = .rparen) ∨ (tok = .rbrace ∧ f.ignore = .rbrace)))) (pstep orc m tok nl) := by
  rw [pstep_nc orc m f _ nl hrun hfr hin hc]
  simp only [hs, step_s13]
  have hig : (f.addLine nl).ignore = f.ignore := rfl
  have hst : (f.addLine nl).state = .s13 := hs
  cases tok <;> cases hi : f.ignore <;> simp only [hig, hi] <;> tr_tac

theorem tr_s12_close (orc : Oracle) (m : PM) (f : Frame) (nl : Nat)
    (hrun : m.status = .running) (hfr : m.frames = [f]) (hs : f.state = .s12) (hd : f.depth = 1) :
    One (fun f' => f'.state = .s0) (pstep orc m .rbrace nl) := by
  rw [pstep_nc orc m f _ nl hrun hfr rfl rfl]
  simp only [hs, step_s12]
  have : (f.addLine nl).depth = 1 := hd
  simp only [this]
  tr_tac


/-! ### items -/

/-- at an item boundary: stopped, or one frame in state 0 -/
abbrev Bnd (m : PM) : Prop := One (fun f => f.state = .s0) m

theorem One.step {P Q : Frame → Prop} (orc : Oracle) {m : PM} (t : Tok) (n : Nat) (h : One P m)
    (hstep : ∀ f, m.status = .running → m.frames = [f] → P f → One Q (pstep orc m t n)) : One Q (pstep orc m t n) := by
  rcases h with h | ⟨hr, f, hf, hp⟩
  · left; rw [pstep_stopped orc m t n h]; exact h
  · exact hstep f hr hf hp

theorem One.stopped {Q : Frame → Prop} {m : PM} (h : m.status ≠ .running) : One Q m := Or.inl h

theorem One.absurd {P Q : Frame → Prop} {m : PM} (h : One P m) (hp : ∀ f, ¬ P f) : One Q m := by
  rcases h with h | ⟨_, f, _, hpf⟩
  · exact Or.inl h
  · exact (hp f hpf).elim

theorem asg_ne (app : Bool) : asgTok app ≠ .lbrace ∧ (∀ v, asgTok app ≠ .str v) ∧ asgTok app ≠ .lparen ∧ (asgTok app).notComment = true := by
  cases app <;> simp [asgTok, Tok.notComment]

theorem item_assign (orc : Oracle) (m : PM) (name : Bytes) (n1 : Nat) (app : Bool) (n2 : Nat) (v : Bytes) (n3 : Nat) (h : Bnd m) :
    Bnd (parseToks orc m [(.str name, n1), (asgTok app, n2), (.str v, n3)]) := by
  simp only [parseToks, List.foldl_cons, List.foldl_nil]
  have h1 : One headState (pstep orc m (.str name) n1) := h.step orc _ _ (fun f hr hf hs => tr_s0_str orc m f name n1 hr hf hs)
  have h2 : One (fun f' => (f'.state = .s3 ∧ f'.isList = true) ∨ (f'.state = .s2 ∧ f'.isList = false) ∨ f'.state = .s14)
      (pstep orc (pstep orc m (.str name) n1) (asgTok app) n2) := by
    refine h1.step orc _ _ ?_
    intro f hr hf hs
    rcases hs with hs | hs | hs | hs | hs
    · exact (tr_s1_asg orc _ f app n2 hr hf hs).mono (fun f' h => by rcases h with h | h; exact Or.inl h; exact Or.inr (Or.inl h))
    · exact One.stopped (tr_s5_other orc _ f _ n2 hr hf hs (asgTok_ok app).1 (asg_ne app).2.2.2 (asg_ne app).1)
    · exact (tr_s6 orc _ f _ n2 hr hf hs (asgTok_ok app).1 (asg_ne app).2.2.2).absurd (fun f' ⟨_, v', hv'⟩ => (asg_ne app).2.1 v' hv')
    · exact (tr_s7 orc _ f _ n2 hr hf hs (asgTok_ok app).1 (asg_ne app).2.2.2).absurd (fun f' ⟨_, hv'⟩ => (asg_ne app).2.2.1 hv')
    · refine (tr_s10 orc _ f _ n2 hr hf hs (asgTok_ok app).1 (asg_ne app).2.2.2).mono ?_
      intro f' h
      rcases h with ⟨h, _⟩ | ⟨_, _, h⟩ | ⟨_, _, h⟩ | ⟨_, v', h⟩
      · exact Or.inr (Or.inr h)
      · exact ((asg_ne app).2.2.1 h).elim
      · exact ((asg_ne app).1 h).elim
      · exact ((asg_ne app).2.1 v' h).elim
  refine h2.step orc _ _ ?_
  intro f hr hf hs
  rcases hs with ⟨hs, _⟩ | ⟨hs, hl⟩ | hs
  · exact tr_s3_str orc _ f v n3 hr hf hs
  · refine (tr_s2_str orc _ f v n3 hr hf hs).mono ?_
    intro f' h
    rcases h with ⟨h, _⟩ | ⟨_, h⟩
    · rw [hl] at h; simp at h
    · exact h
  · refine (tr_s14 orc _ f _ n3 hr hf hs rfl rfl).mono ?_
    intro f' h
    rcases h with ⟨h, _⟩ | ⟨_, _, h⟩
    · exact h
    · simp at h


def S13 (ig : Ignore) (f : Frame) : Prop := f.state = .s13 ∧ f.ignore = ig

theorem tr_s13_keep (orc : Oracle) (m : PM) (f : Frame) (ig : Ignore) (tok : Tok) (nl : Nat)
    (hrun : m.status = .running) (hfr : m.frames = [f]) (hs : S13 ig f) (hin : tok.inner = true) (hc : tok.notComment = true)
    (hne : tok ≠ .rparen ∧ tok ≠ .rbrace) :
    One (S13 ig) (pstep orc m tok nl) := by
  refine (tr_s13 orc m f tok nl hrun hfr hs.1 hin hc).mono ?_
  intro f' h
  rcases h with ⟨_, h⟩ | ⟨h1, h2, _⟩
  · rcases h with ⟨h, _⟩ | ⟨h, _⟩
    · exact (hne.1 h).elim
    · exact (hne.2 h).elim
  · exact ⟨h1, by rw [h2, hs.2]⟩

/-- the values of a braced list: from "expecting a value" (`first`) or "after a value" -/
theorem seq_list (orc : Oracle) (vs : List (Nat × Bytes × Nat)) : ∀ (b : Bool) (m : PM),
    One (fun f => ((if b then f.state = .s2 else f.state = .s4) ∧ f.isList = true) ∨ S13 .rbrace f) m →
    One (fun f => ((f.state = .s2 ∨ f.state = .s4) ∧ f.isList = true) ∨ S13 .rbrace f) (parseToks orc m (flatSeq b vs)) := by
  induction vs with
  | nil =>
    intro b m h
    simp only [flatSeq, parseToks, List.foldl_nil]
    refine h.mono ?_
    intro f hf
    rcases hf with ⟨h1, h2⟩ | h
    · left; cases b <;> simp_all
    · exact Or.inr h
  | cons x t ih =>
    obtain ⟨c, v, n⟩ := x
    have value : ∀ m : PM, One (fun f => (f.state = .s2 ∧ f.isList = true) ∨ S13 .rbrace f) m →
        One (fun f => ((if false then f.state = .s2 else f.state = .s4) ∧ f.isList = true) ∨ S13 .rbrace f) (pstep orc m (.str v) n) := by
      intro m h
      refine h.step orc _ _ ?_
      intro f hr hf hs
      rcases hs with ⟨hs, hl⟩ | hs
      · refine (tr_s2_str orc m f v n hr hf hs).mono ?_
        intro f' h
        rcases h with ⟨_, h1, h2⟩ | ⟨h, _⟩
        · left; simp [h1, h2]
        · rw [hl] at h; simp at h
      · exact (tr_s13_keep orc m f .rbrace _ n hr hf hs rfl rfl (by simp)).mono (fun _ h => Or.inr h)
    intro b m h
    cases b with
    | true =>
      simp only [flatSeq, parseToks_cons]
      exact ih false _ (value m (h.mono (fun f hf => by simpa using hf)))
    | false =>
      simp only [flatSeq, parseToks_cons]
      refine ih false _ (value _ ?_)
      refine h.step orc _ _ ?_
      intro f hr hf hs
      rcases hs with ⟨hs, hl⟩ | hs
      · simp only [Bool.false_eq_true, if_false] at hs
        refine (tr_s4 orc m f _ c hr hf hs rfl rfl).mono ?_
        intro f' h
        rcases h with ⟨_, h1, h2⟩ | ⟨h, _⟩
        · left; exact ⟨h1, by rw [h2, hl]⟩
        · simp at h
      · exact (tr_s13_keep orc m f .rbrace _ c hr hf hs rfl rfl (by simp)).mono (fun _ h => Or.inr h)


theorem after_asg (orc : Oracle) (m : PM) (name : Bytes) (n1 : Nat) (app : Bool) (n2 : Nat) (h : Bnd m) :
    One (fun f' => (f'.state = .s3 ∧ f'.isList = true) ∨ (f'.state = .s2 ∧ f'.isList = false) ∨ f'.state = .s14)
      (pstep orc (pstep orc m (.str name) n1) (asgTok app) n2) := by
  have h1 : One headState (pstep orc m (.str name) n1) := h.step orc _ _ (fun f hr hf hs => tr_s0_str orc m f name n1 hr hf hs)
  refine h1.step orc _ _ ?_
  intro f hr hf hs
  rcases hs with hs | hs | hs | hs | hs
  · exact (tr_s1_asg orc _ f app n2 hr hf hs).mono (fun f' h => by rcases h with h | h; exact Or.inl h; exact Or.inr (Or.inl h))
  · exact One.stopped (tr_s5_other orc _ f _ n2 hr hf hs (asgTok_ok app).1 (asg_ne app).2.2.2 (asg_ne app).1)
  · exact (tr_s6 orc _ f _ n2 hr hf hs (asgTok_ok app).1 (asg_ne app).2.2.2).absurd (fun f' ⟨_, v', hv'⟩ => (asg_ne app).2.1 v' hv')
  · exact (tr_s7 orc _ f _ n2 hr hf hs (asgTok_ok app).1 (asg_ne app).2.2.2).absurd (fun f' ⟨_, hv'⟩ => (asg_ne app).2.2.1 hv')
  · refine (tr_s10 orc _ f _ n2 hr hf hs (asgTok_ok app).1 (asg_ne app).2.2.2).mono ?_
    intro f' h
    rcases h with ⟨h, _⟩ | ⟨_, _, h⟩ | ⟨_, _, h⟩ | ⟨_, v', h⟩
    · exact Or.inr (Or.inr h)
    · exact ((asg_ne app).2.2.1 h).elim
    · exact ((asg_ne app).1 h).elim
    · exact ((asg_ne app).2.1 v' h).elim

/-- before the closing brace of a list item the machine is inside the list (or skipping it) -/
theorem item_list_pre (orc : Oracle) (m : PM) (name : Bytes) (n1 : Nat) (app : Bool) (n2 n3 : Nat) (vs : List (Nat × Bytes × Nat)) (h : Bnd m) :
    One (fun f => ((f.state = .s2 ∨ f.state = .s4) ∧ f.isList = true) ∨ S13 .rbrace f)
      (parseToks orc m ([(.str name, n1), (asgTok app, n2), (.lbrace, n3)] ++ flatSeq true vs)) := by
  rw [parseToks_append']
  refine seq_list orc vs true _ ?_
  simp only [parseToks, List.foldl_cons, List.foldl_nil]
  refine (after_asg orc m name n1 app n2 h).step orc _ _ ?_
  intro f hr hf hs
  rcases hs with ⟨hs, hl⟩ | ⟨hs, _⟩ | hs
  · exact (tr_s3_lbrace orc _ f n3 hr hf hs hl).mono (fun f' h => Or.inl (by simpa using h))
  · exact One.stopped (tr_s2_other orc _ f _ n3 hr hf hs rfl rfl (by simp) (by simp))
  · refine (tr_s14 orc _ f _ n3 hr hf hs rfl rfl).mono ?_
    intro f' h
    rcases h with ⟨_, v', h⟩ | ⟨h1, h2, _⟩
    · simp at h
    · exact Or.inr ⟨h1, h2⟩

theorem noPop_of_One {P : Frame → Prop} {m : PM} (h : One P m) (hp : ∀ f, P f → f.state ≠ .s0) : noPop m = true := by
  rcases h with h | ⟨hr, f, hf, hpf⟩
  · simp [noPop, h]
  · have := hp f hpf
    simp [noPop, hf, this]

theorem item_list_close (orc : Oracle) (m : PM) (n4 : Nat)
    (h : One (fun f => ((f.state = .s2 ∨ f.state = .s4) ∧ f.isList = true) ∨ S13 .rbrace f) m) :
    noPop m = true ∧ Bnd (pstep orc m .rbrace n4) := by
  refine ⟨noPop_of_One h ?_, ?_⟩
  · intro f hf
    rcases hf with ⟨h1 | h1, _⟩ | ⟨h1, _⟩ <;> simp [h1]
  · refine h.step orc _ _ ?_
    intro f hr hf hs
    rcases hs with ⟨hs | hs, hl⟩ | hs
    · exact tr_s2_rbrace orc m f n4 hr hf hs
    · refine (tr_s4 orc m f _ n4 hr hf hs rfl rfl).mono ?_
      intro f' h
      rcases h with ⟨h, _⟩ | ⟨_, h⟩
      · simp at h
      · exact h
    · refine (tr_s13 orc m f _ n4 hr hf hs.1 rfl rfl).mono ?_
      intro f' h
      rcases h with ⟨h, _⟩ | ⟨_, _, h⟩
      · exact h
      · exact (h (Or.inr ⟨rfl, hs.2⟩)).elim


theorem seq_call (orc : Oracle) (vs : List (Nat × Bytes × Nat)) : ∀ (b : Bool) (m : PM),
    One (fun f => (if b then f.state = .s8 else f.state = .s9) ∨ S13 .rparen f) m →
    One (fun f => (f.state = .s8 ∨ f.state = .s9) ∨ S13 .rparen f) (parseToks orc m (flatSeq b vs)) := by
  induction vs with
  | nil =>
    intro b m h
    simp only [flatSeq, parseToks, List.foldl_nil]
    refine h.mono ?_
    intro f hf
    rcases hf with h1 | h
    · left; cases b <;> simp_all
    · exact Or.inr h
  | cons x t ih =>
    obtain ⟨c, v, n⟩ := x
    have value : ∀ m : PM, One (fun f => f.state = .s8 ∨ S13 .rparen f) m →
        One (fun f => (if false then f.state = .s8 else f.state = .s9) ∨ S13 .rparen f) (pstep orc m (.str v) n) := by
      intro m h
      refine h.step orc _ _ ?_
      intro f hr hf hs
      rcases hs with hs | hs
      · refine (tr_s8 orc m f _ n hr hf hs rfl rfl).mono ?_
        intro f' h
        rcases h with ⟨h1, _⟩ | ⟨_, h⟩
        · left; simp [h1]
        · simp at h
      · exact (tr_s13_keep orc m f .rparen _ n hr hf hs rfl rfl (by simp)).mono (fun _ h => Or.inr h)
    intro b m h
    cases b with
    | true =>
      simp only [flatSeq, parseToks_cons]
      exact ih false _ (value m (h.mono (fun f hf => by simpa using hf)))
    | false =>
      simp only [flatSeq, parseToks_cons]
      refine ih false _ (value _ ?_)
      refine h.step orc _ _ ?_
      intro f hr hf hs
      rcases hs with hs | hs
      · simp only [Bool.false_eq_true, if_false] at hs
        refine (tr_s9 orc m f _ c hr hf hs rfl rfl).mono ?_
        intro f' h
        rcases h with ⟨h1, _⟩ | ⟨_, h⟩
        · left; exact h1
        · simp at h
      · exact (tr_s13_keep orc m f .rparen _ c hr hf hs rfl rfl (by simp)).mono (fun _ h => Or.inr h)

theorem item_call (orc : Oracle) (m : PM) (name : Bytes) (n1 n2 : Nat) (args : List (Nat × Bytes × Nat)) (n3 : Nat) (h : Bnd m) :
    Bnd (parseToks orc m ([(.str name, n1), (.lparen, n2)] ++ flatSeq true args ++ [(.rparen, n3)])) := by
  rw [parseToks_append', parseToks_append']
  have h1 : One headState (pstep orc m (.str name) n1) := h.step orc _ _ (fun f hr hf hs => tr_s0_str orc m f name n1 hr hf hs)
  have h2 : One (fun f => (if true then f.state = .s8 else f.state = .s9) ∨ S13 .rparen f) (parseToks orc m [(.str name, n1), (.lparen, n2)]) := by
    simp only [parseToks, List.foldl_cons, List.foldl_nil]
    refine h1.step orc _ _ ?_
    intro f hr hf hs
    rcases hs with hs | hs | hs | hs | hs
    · exact One.stopped (tr_s1_other orc _ f _ n2 hr hf hs rfl rfl (by simp) (by simp))
    · exact One.stopped (tr_s5_other orc _ f _ n2 hr hf hs rfl rfl (by simp))
    · exact (tr_s6 orc _ f _ n2 hr hf hs rfl rfl).absurd (fun f' ⟨_, v', hv'⟩ => by simp at hv')
    · exact (tr_s7 orc _ f _ n2 hr hf hs rfl rfl).mono (fun f' h => Or.inl (by simpa using h.1))
    · refine (tr_s10 orc _ f _ n2 hr hf hs rfl rfl).mono ?_
      intro f' h
      rcases h with ⟨_, h | h⟩ | ⟨h1, h2, _⟩ | ⟨_, _, h⟩ | ⟨_, v', h⟩
      · simp at h
      · simp at h
      · exact Or.inr ⟨h1, h2⟩
      · simp at h
      · simp at h
  have h3 := seq_call orc args true _ h2
  simp only [parseToks, List.foldl_cons, List.foldl_nil] at h3 ⊢
  refine h3.step orc _ _ ?_
  intro f hr hf hs
  rcases hs with (hs | hs) | hs
  · refine (tr_s8 orc _ f _ n3 hr hf hs rfl rfl).mono ?_
    intro f' h
    rcases h with ⟨_, v', h⟩ | ⟨h, _⟩
    · simp at h
    · exact h
  · refine (tr_s9 orc _ f _ n3 hr hf hs rfl rfl).mono ?_
    intro f' h
    rcases h with ⟨_, h⟩ | ⟨h, _⟩
    · simp at h
    · exact h
  · refine (tr_s13 orc _ f _ n3 hr hf hs.1 rfl rfl).mono ?_
    intro f' h
    rcases h with ⟨h, _⟩ | ⟨_, _, h⟩
    · exact h
    · exact (h (Or.inl ⟨rfl, hs.2⟩)).elim

theorem item_comment (orc : Oracle) (m : PM) (t : Bytes) (n : Nat) (h : Bnd m) : Bnd (pstep orc m (.comment t) n) :=
  h.step orc _ _ (fun f hr hf hs => tr_s0_comment orc m f t n hr hf hs)


/-! ### sections -/

/-- a section was just opened: its fresh frame on top of the enclosing one -/
def Pushed (m : PM) : Prop :=
  m.status = .running ∧ ∃ child parent, m.frames = [child, parent] ∧ child.state = .s0 ∧ m.maxDepth ≥ 1

theorem tr_s5_lbrace (orc : Oracle) (m : PM) (f : Frame) (nl : Nat)
    (hrun : m.status = .running) (hfr : m.frames = [f]) (hs : f.state = .s5) :
    (pstep orc m .lbrace nl).status ≠ .running ∨ Pushed (pstep orc m .lbrace nl) := by
  rw [pstep_nc orc m f _ nl hrun hfr rfl rfl]
  simp only [hs, step_s5]
  cases hopt : (f.addLine nl).opt with
  | none => left; simp [PM.reject, collapse]
  | some r =>
    cases hget : (f.addLine nl).cfg.getOpt r with
    | none => left; simp [hget, PM.reject, collapse]
    | some o =>
      simp only [Option.bind_some, hget]
      generalize setopt orc ({ m with frames := [f.addLine nl] } : PM).k (f.addLine nl).cfg.info o (f.addLine nl).opttitle = out
      cases hres : out.res with
      | none => left; simp [PM.reject, collapse]
      | some i =>
        simp only []
        split
        · right
          refine ⟨by simp [PM.addCalls, PM.addDiags, hrun], _, _, rfl, rfl, ?_⟩
          simp
          omega
        · left; simp [PM.reject, collapse]

theorem One.stopped_of {P : Frame → Prop} {m : PM} (h : One P m) (hp : ∀ f, ¬ P f) : m.status ≠ .running := by
  rcases h with h | ⟨_, f, _, hpf⟩
  · exact h
  · exact (hp f hpf).elim

/-- after the head of a section item: rejected, opened, or being skipped -/
def Head3 (m1 : PM) : Prop :=
  m1.status ≠ .running ∨ Pushed m1 ∨ (m1.status = .running ∧ ∃ f, m1.frames = [f] ∧ f.state = .s12 ∧ f.depth = 1)

theorem sec_brace (orc : Oracle) (m' : PM) (n2 : Nat) (hm' : One (fun f => headState f ∨ f.state = .s11) m') :
    Head3 (pstep orc m' .lbrace n2) := by
  rcases hm' with hst | ⟨hr, f, hf, hs⟩
  · left; rw [pstep_stopped orc m' _ _ hst]; exact hst
  · rcases hs with (hs | hs | hs | hs | hs) | hs
    · exact Or.inl (tr_s1_other orc m' f .lbrace n2 hr hf hs rfl rfl (by simp) (by simp))
    · rcases tr_s5_lbrace orc m' f n2 hr hf hs with h | h
      · exact Or.inl h
      · exact Or.inr (Or.inl h)
    · exact Or.inl ((tr_s6 orc m' f .lbrace n2 hr hf hs rfl rfl).stopped_of (fun f' ⟨_, v', h⟩ => by simp at h))
    · exact Or.inl ((tr_s7 orc m' f .lbrace n2 hr hf hs rfl rfl).stopped_of (fun f' ⟨_, h⟩ => by simp at h))
    · rcases tr_s10 orc m' f .lbrace n2 hr hf hs rfl rfl with h | ⟨hr', f', hf', h⟩
      · exact Or.inl h
      · rcases h with ⟨_, h | h⟩ | ⟨_, _, h⟩ | ⟨h1, h2, _⟩ | ⟨_, v', h⟩
        · simp at h
        · simp at h
        · simp at h
        · exact Or.inr (Or.inr ⟨hr', f', hf', h1, h2⟩)
        · simp at h
    · rcases tr_s11 orc m' f .lbrace n2 hr hf hs rfl rfl with h | ⟨hr', f', hf', h1, h2, _⟩
      · exact Or.inl h
      · exact Or.inr (Or.inr ⟨hr', f', hf', h1, h2⟩)

theorem sec_head (orc : Oracle) (m : PM) (name : Bytes) (n1 : Nat) (title : Option (Bytes × Nat)) (n2 : Nat) (h : Bnd m) :
    Head3 (parseToks orc m (secHead name n1 title n2)) := by
  have h1 : One headState (pstep orc m (.str name) n1) := h.step orc _ _ (fun f hr hf hs => tr_s0_str orc m f name n1 hr hf hs)
  cases title with
  | none =>
    simp only [secHead, List.append_nil, List.cons_append, List.nil_append, parseToks, List.foldl_cons, List.foldl_nil]
    exact sec_brace orc _ n2 (h1.mono (fun _ h => Or.inl h))
  | some tn =>
    obtain ⟨t, n⟩ := tn
    simp only [secHead, List.cons_append, List.nil_append, parseToks, List.foldl_cons, List.foldl_nil]
    refine sec_brace orc _ n2 ?_
    refine h1.step orc _ _ ?_
    intro f hr hf hs
    rcases hs with hs | hs | hs | hs | hs
    · exact One.stopped (tr_s1_other orc _ f _ n hr hf hs rfl rfl (by simp) (by simp))
    · exact One.stopped (tr_s5_other orc _ f _ n hr hf hs rfl rfl (by simp))
    · exact (tr_s6 orc _ f _ n hr hf hs rfl rfl).mono (fun f' h => Or.inl (Or.inr (Or.inl h.1)))
    · exact One.stopped ((tr_s7 orc _ f _ n hr hf hs rfl rfl).stopped_of (fun f' ⟨_, h⟩ => by simp at h))
    · refine (tr_s10 orc _ f _ n hr hf hs rfl rfl).mono ?_
      intro f' h
      rcases h with ⟨_, h | h⟩ | ⟨_, _, h⟩ | ⟨_, _, h⟩ | ⟨h1, _⟩
      · simp at h
      · simp at h
      · simp at h
      · simp at h
      · exact Or.inr h1


/-- the `}` that closes an opened section, after its body ended at an item boundary -/
theorem sec_close (orc : Oracle) (r : PM) (parent : Frame) (n3 : Nat) (h : Bnd r) :
    Bnd (pstep orc (liftM r [parent]) .rbrace n3) := by
  rcases h with hst | ⟨hr, c, hf, hs⟩
  · left
    rw [pstep_stopped orc _ _ _ (by simpa using hst)]
    simpa using hst
  · have e : liftM r [parent] = { r with frames := [c, parent], maxDepth := r.maxDepth + 1 } := by
      simp [liftM, hr, hf]
    rw [e, pstep_running orc { r with frames := [c, parent], maxDepth := r.maxDepth + 1 } c [parent] .rbrace n3 hr rfl rfl (Or.inl rfl)]
    simp only [hs, step_s0, handleDeprecated_spec]
    have hst : (depEffect (c.addLine n3)).2.2.state = .s0 := by
      unfold depEffect
      repeat' split
      all_goals simp [Frame.addLine, hs]
    generalize depEffect (c.addLine n3) = e' at hst
    obtain ⟨ds, ev, f'⟩ := e'
    simp only [] at hst ⊢
    split
    · left; simp [PM.rejectWith, PM.reject, collapse]
    · simp only [runValid_spec]
      generalize hp2 : ({ writeBack parent f' with cfg := (writeBack parent f').cfg.afterSection f'.cfg } : Frame) = p2
      cases hv : validVerdict orc (PM.addCalls (PM.addDiags { r with frames := [c.addLine n3, parent], maxDepth := r.maxDepth + 1 } (c.addLine n3) ds) ev).k p2 with
      | none => simp only [Option.map_none]; left; simp [PM.reject, collapse]
      | some cs =>
        simp only [Option.map_some]
        right
        exact ⟨by simp [PM.addCalls, PM.addDiags, hr], _, rfl, rfl⟩

mutual
theorem flat_balanced : ∀ (i : Item) (d : Nat), d ≥ 1 → depthAfter d i.flat = some d ∧ (∀ t ∈ i.flat, t.1.inner = true)
  | .assign name n1 app n2 v n3, d, _ => by
    simp only [Item.flat]
    constructor
    · cases app <;> simp [depthAfter, asgTok]
    · intro t ht
      simp only [List.mem_cons, List.mem_nil_iff, or_false] at ht
      rcases ht with rfl | rfl | rfl
      · rfl
      · exact (asgTok_ok app).1
      · rfl
  | .list name n1 app n2 n3 vs n4, d, hd => by
    simp only [Item.flat]
    have hseq : ∀ (b : Bool) (e : Nat), depthAfter e (flatSeq b vs ++ [(.rbrace, n4)]) = if e ≤ 1 then none else some (e - 1) := by
      intro b e
      induction vs generalizing b with
      | nil => simp [flatSeq, depthAfter]
      | cons x t ih =>
        obtain ⟨c, v, n⟩ := x
        cases b <;> simp [flatSeq, depthAfter, ih]
    constructor
    · have : depthAfter d (([(Tok.str name, n1), (asgTok app, n2), (Tok.lbrace, n3)] ++ flatSeq true vs) ++ [(Tok.rbrace, n4)]) =
          depthAfter (d + 1) (flatSeq true vs ++ [(.rbrace, n4)]) := by
        cases app <;> simp [depthAfter, asgTok]
      rw [this, hseq]
      have : ¬ (d + 1 ≤ 1) := by omega
      simp [this]
    · intro t ht
      simp only [List.cons_append, List.nil_append, List.mem_cons, List.mem_append, List.mem_nil_iff, or_false] at ht
      rcases ht with rfl | rfl | rfl | ht | rfl
      · rfl
      · exact (asgTok_ok app).1
      · rfl
      · exact (flatSeq_ok true vs t ht).1
      · rfl
  | .call name n1 n2 args n3, d, _ => by
    simp only [Item.flat]
    have hseq : ∀ (b : Bool) (e : Nat), depthAfter e (flatSeq b args ++ [(.rparen, n3)]) = some e := by
      intro b e
      induction args generalizing b with
      | nil => simp [flatSeq, depthAfter]
      | cons x t ih =>
        obtain ⟨c, v, n⟩ := x
        cases b <;> simp [flatSeq, depthAfter, ih]
    constructor
    · simp [depthAfter, hseq]
    · intro t ht
      simp only [List.cons_append, List.nil_append, List.mem_cons, List.mem_append, List.mem_nil_iff, or_false] at ht
      rcases ht with rfl | rfl | ht | rfl
      · rfl
      · rfl
      · exact (flatSeq_ok true args t ht).1
      · rfl
  | .comment t n, d, _ => by
    simp [Item.flat, depthAfter, Tok.inner]
  | .sec name n1 title n2 body n3, d, hd => by
    simp only [Item.flat]
    obtain ⟨hb, hin⟩ := flats_balanced body (d + 1) (by omega)
    constructor
    · have : depthAfter d ((secHead name n1 title n2 ++ flats body) ++ [(Tok.rbrace, n3)]) =
          (depthAfter (d + 1) (flats body)).bind (fun e => depthAfter e [(.rbrace, n3)]) := by
        rw [List.append_assoc, depthAfter_append]
        cases title with
        | none => simp [secHead, depthAfter, depthAfter_append]
        | some tn => obtain ⟨t, n⟩ := tn; simp [secHead, depthAfter, depthAfter_append]
      rw [this, hb]
      have : ¬ (d + 1 ≤ 1) := by omega
      simp [depthAfter, this]
    · intro t ht
      simp only [List.mem_append, List.mem_cons, List.mem_nil_iff, or_false] at ht
      rcases ht with (ht | ht) | rfl
      · exact (secHead_ok name n1 title n2 t ht).1
      · exact hin t ht
      · rfl
theorem flats_balanced : ∀ (is : List Item) (d : Nat), d ≥ 1 → depthAfter d (flats is) = some d ∧ (∀ t ∈ flats is, t.1.inner = true)
  | [], d, _ => by simp [flats, depthAfter]
  | i :: is, d, hd => by
    obtain ⟨h1, h2⟩ := flat_balanced i d hd
    obtain ⟨h3, h4⟩ := flats_balanced is d hd
    simp only [flats]
    constructor
    · rw [depthAfter_append, h1]; simpa using h3
    · intro t ht
      simp only [List.mem_append] at ht
      rcases ht with ht | ht
      · exact h2 t ht
      · exact h4 t ht
end


mutual
theorem evalItem_total (orc : Oracle) : ∀ (i : Item) (m : PM), Bnd m → ∃ r, evalItem orc m i = some r ∧ Bnd r
  | .assign name n1 app n2 v n3, m, h => ⟨_, by simp only [evalItem], item_assign orc m name n1 app n2 v n3 h⟩
  | .list name n1 app n2 n3 vs n4, m, h => by
    have hp := item_list_pre orc m name n1 app n2 n3 vs h
    obtain ⟨hnp, hb⟩ := item_list_close orc _ n4 hp
    exact ⟨_, by simp only [evalItem, hnp, if_true], hb⟩
  | .call name n1 n2 args n3, m, h => ⟨_, by simp only [evalItem], item_call orc m name n1 n2 args n3 h⟩
  | .comment t n, m, h => ⟨_, by simp only [evalItem], item_comment orc m t n h⟩
  | .sec name n1 title n2 body n3, m, h => by
    have hh := sec_head orc m name n1 title n2 h
    simp only [evalItem]
    generalize parseToks orc m (secHead name n1 title n2) = m1 at hh ⊢
    rcases hh with hst | ⟨hr, child, parent, hfr, hcs, hmd⟩ | ⟨hr, f, hfr, hs12, hd1⟩
    · refine ⟨m1, ?_, Or.inl hst⟩
      have : (m1.status != .running) = true := by simpa using hst
      simp [this]
    · have hnr : (m1.status != .running) = false := by simp [hr]
      have hb0 : Bnd ({ m1 with frames := [child], maxDepth := m1.maxDepth - 1 } : PM) := Or.inr ⟨hr, child, rfl, hcs⟩
      obtain ⟨r, hev, hbr⟩ := evalItems_total orc body _ hb0
      refine ⟨pstep orc (liftM r [parent]) .rbrace n3, ?_, sec_close orc r parent n3 hbr⟩
      simp [hnr, hfr, hmd, hev]
    · have hnr : (m1.status != .running) = false := by simp [hr]
      obtain ⟨hbal, hin⟩ := flats_balanced body 1 (by omega)
      have hall : (flats body).all (fun t => t.1.inner) = true := by
        simp only [List.all_eq_true]; exact hin
      refine ⟨pstep orc (parseToks orc m1 (flats body)) .rbrace n3, ?_, ?_⟩
      · simp [hnr, hfr, hs12, hd1, hbal, hall]
      · rw [C12_skip_body orc (flats body) m1 f [] 1 1 hr hfr hs12 hd1 hin hbal]
        exact tr_s12_close orc _ _ n3 hr rfl (by simp [Frame.addLine, hs12]) rfl
theorem evalItems_total (orc : Oracle) : ∀ (is : List Item) (m : PM), Bnd m → ∃ r, evalItems orc m is = some r ∧ Bnd r
  | [], m, h => ⟨m, by simp only [evalItems], h⟩
  | i :: is, m, h => by
    obtain ⟨m', h1, hb⟩ := evalItem_total orc i m h
    obtain ⟨r, h2, hb2⟩ := evalItems_total orc is m' hb
    exact ⟨r, by simp only [evalItems, h1, h2], hb2⟩
end

end Confuse
