import Confuse.Model.Parser
/-!
# Helper lemmas about the token machine: what a step preserves
-/
namespace Confuse

theorem updOptAt_info (g : Opt → Opt) : ∀ (steps : List (Nat × Nat)) (c : Cfg) (leaf : Nat), (updOptAt g c steps leaf).info = c.info := by
  intro steps
  induction steps with
  | nil =>
    intro c leaf
    simp only [updOptAt]
    split <;> simp [Cfg.setOpts, Cfg.info]
  | cons st rest ih =>
    intro c leaf
    obtain ⟨oi, ii⟩ := st
    simp only [updOptAt]
    split
    · simp only [Cfg.setChild]
      split <;> simp [Cfg.setOpts, Cfg.info]
    · rfl

@[simp] theorem setOpt_info (c : Cfg) (r : OptRef) (o : Opt) : (c.setOpt r o).info = c.info := by
  simp [Cfg.setOpt, updOptAt_info]
@[simp] theorem setOpt_line (c : Cfg) (r : OptRef) (o : Opt) : (c.setOpt r o).line = c.line := by
  simp [Cfg.line]
@[simp] theorem setOpt_flags (c : Cfg) (r : OptRef) (o : Opt) : (c.setOpt r o).flags = c.flags := by
  simp [Cfg.flags]
@[simp] theorem setOpts_line (c : Cfg) (os : List Opt) : (c.setOpts os).line = c.line := rfl
@[simp] theorem setInfo_line (c : Cfg) (i : CfgInfo) : (c.setInfo i).line = i.line := rfl
@[simp] theorem setLine_line (c : Cfg) (n : Nat) : (c.setLine n).line = n := rfl

@[simp] theorem reject_status (m : PM) (f : Frame) (rest : List Frame) : (m.reject f rest).status = .rejected := by
  simp [PM.reject, collapse]
@[simp] theorem rejectWith_status (m : PM) (f : Frame) (rest : List Frame) (c : DiagCls) : (m.rejectWith f rest c).status = .rejected := by
  simp [PM.rejectWith]
@[simp] theorem addDiags_status (m : PM) (f : Frame) (cs : List DiagCls) : (m.addDiags f cs).status = m.status := rfl
@[simp] theorem addCalls_status (m : PM) (cs : List CbCall) : (m.addCalls cs).status = m.status := rfl
@[simp] theorem addDiags_frames (m : PM) (f : Frame) (cs : List DiagCls) : (m.addDiags f cs).frames = m.frames := rfl
@[simp] theorem addCalls_frames (m : PM) (cs : List CbCall) : (m.addCalls cs).frames = m.frames := rfl

theorem handleDeprecated_line (m : PM) (f : Frame) :
    (handleDeprecated m f).2.cfg.line = f.cfg.line ∧ (handleDeprecated m f).1.status = m.status ∧
    (handleDeprecated m f).2.state = f.state ∧ (handleDeprecated m f).2.level = f.level := by
  unfold handleDeprecated
  repeat' split
  all_goals simp

theorem runValid_some (orc : Oracle) (m m' : PM) (f : Frame) (h : runValid orc m f = some m') :
    m'.status = m.status ∧ m'.frames = m.frames := by
  unfold runValid at h
  repeat' split at h
  all_goals (first | (injection h with h; subst h; simp) | (simp at h; try (obtain ⟨_, h⟩ := h; subst h; simp)))

theorem inheritComment_line (f : Frame) : (inheritComment f).cfg.line = f.cfg.line := by
  unfold inheritComment
  repeat' split
  all_goals simp

/-- the result either stopped running or has a top frame on line `L` -/
def LineOk (L : Nat) (g : PM) : Prop := g.status = .running → ∃ f' rest', g.frames = f' :: rest' ∧ f'.cfg.line = L

theorem lineOk_reject (L : Nat) (m : PM) (f : Frame) (rest : List Frame) : LineOk L (m.reject f rest) := by
  intro h; simp at h
theorem lineOk_rejectWith (L : Nat) (m : PM) (f : Frame) (rest : List Frame) (c : DiagCls) : LineOk L (m.rejectWith f rest c) := by
  intro h; simp at h

theorem storeValue_line (orc : Oracle) (m : PM) (f : Frame) (rest : List Frame) (v : Bytes) (next : PState) :
    LineOk f.cfg.line (storeValue orc m f rest v next) := by
  unfold storeValue
  split
  · exact lineOk_reject _ _ _ _
  · split
    · exact lineOk_reject _ _ _ _
    · dsimp only
      split
      · exact lineOk_reject _ _ _ _
      · split
        · exact lineOk_reject _ _ _ _
        · intro _
          exact ⟨_, _, rfl, by simp [inheritComment_line]⟩

theorem callFunction_line (orc : Oracle) (m : PM) (f : Frame) (rest : List Frame) :
    LineOk f.cfg.line (callFunction orc m f rest) := by
  unfold callFunction
  repeat' split
  all_goals (first
    | exact lineOk_reject _ _ _ _
    | exact lineOk_rejectWith _ _ _ _ _
    | (intro _; exact ⟨_, _, rfl, by simp⟩)
    | (dsimp only; split <;> first | exact lineOk_reject _ _ _ _ | (intro _; exact ⟨_, _, rfl, by simp⟩))
    | (intro h; simp at h))

/-- the current option (if any) is not a deprecated one awaiting its diagnostic -/
def noPendingDeprecated (f : Frame) : Prop :=
  ∀ r o, f.opt = some r → f.cfg.getOpt r = some o → o.flags.deprecated = false

theorem handleDeprecated_id (m : PM) (f : Frame) (h : noPendingDeprecated f) : handleDeprecated m f = (m, f) := by
  unfold handleDeprecated
  split
  · rename_i r hr
    split
    · rename_i o ho
      simp [h r o hr ho]
    · rfl
  · rfl


theorem getOpt_setLine (c : Cfg) (n : Nat) (r : OptRef) : (c.setLine n).getOpt r = c.getOpt r := by
  obtain ⟨i, o⟩ := c
  obtain ⟨steps, leaf⟩ := r
  cases steps <;> rfl

end Confuse
