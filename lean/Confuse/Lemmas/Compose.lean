import Confuse.Spec.Items
import Confuse.Props.C06
/-!
# Lifting token runs; the compositional evaluation agrees with the token machine
-/
namespace Confuse

/-- a running machine has a current frame -/
def Live (m : PM) : Prop := m.status = .running → ∃ f inner, m.frames = f :: inner

theorem pstep_stopped (orc : Oracle) (m : PM) (t : Tok) (n : Nat) (h : m.status ≠ .running) : pstep orc m t n = m := by
  unfold pstep
  simp [h]

theorem parseToks_stopped (orc : Oracle) (m : PM) (ts : List LTok) (h : m.status ≠ .running) : parseToks orc m ts = m := by
  induction ts with
  | nil => rfl
  | cons t ts ih => simp only [parseToks, List.foldl_cons] at ih ⊢; rw [pstep_stopped orc m _ _ h]; exact ih

theorem pstep_live (orc : Oracle) (m : PM) (t : Tok) (n : Nat) (h : Live m) : Live (pstep orc m t n) := by
  by_cases hrun : m.status = .running
  · obtain ⟨f, inner, hfr⟩ := h hrun
    intro hstill
    obtain ⟨f', rest', h1, _⟩ := pstep_line orc m f inner t n hfr hstill
    exact ⟨f', rest', h1⟩
  · rw [pstep_stopped orc m t n hrun]; exact h

theorem parseToks_live (orc : Oracle) (ts : List LTok) : ∀ m, Live m → Live (parseToks orc m ts) := by
  induction ts with
  | nil => intro m h; exact h
  | cons t ts ih =>
    intro m h
    simp only [parseToks, List.foldl_cons]
    exact ih _ (pstep_live orc m t.1 t.2 h)

theorem parseToks_cons (orc : Oracle) (m : PM) (t : LTok) (ts : List LTok) :
    parseToks orc m (t :: ts) = parseToks orc (pstep orc m t.1 t.2) ts := rfl

/-- a step that cannot pop lifts, whatever the machine's status -/
theorem pstep_lift' (orc : Oracle) (m : PM) (rest : List Frame) (tok : Tok) (nl : Nat)
    (hlive : Live m) (hin : tok.inner = true)
    (hpop : tok = .rbrace → noPop m = true) :
    pstep orc (liftM m rest) tok nl = liftM (pstep orc m tok nl) rest := by
  by_cases hrun : m.status = .running
  · obtain ⟨f, inner, hfr⟩ := hlive hrun
    refine pstep_lift orc m f inner rest tok nl hrun hfr hin ?_
    rintro ⟨h1, h2, h3⟩
    have := hpop h3
    simp [noPop, hrun, hfr, h1, h2] at this
  · rw [pstep_stopped orc m tok nl hrun, pstep_stopped orc (liftM m rest) tok nl (by simpa using hrun)]

/-- a token run without closing braces lifts -/
theorem parseToks_lift (orc : Oracle) (rest : List Frame) (ts : List LTok)
    (hin : ∀ t ∈ ts, t.1.inner = true ∧ t.1 ≠ .rbrace) :
    ∀ m, Live m → parseToks orc (liftM m rest) ts = liftM (parseToks orc m ts) rest := by
  induction ts with
  | nil => intro m _; rfl
  | cons t ts ih =>
    intro m hl
    rw [parseToks_cons, parseToks_cons]
    rw [pstep_lift' orc m rest t.1 t.2 hl (hin t (by simp)).1 (fun h => absurd h (hin t (by simp)).2)]
    exact ih (fun t' ht' => hin t' (by simp [ht'])) _ (pstep_live orc m t.1 t.2 hl)


theorem flatSeq_ok : ∀ (b : Bool) (vs : List (Nat × Bytes × Nat)), ∀ t ∈ flatSeq b vs, t.1.inner = true ∧ t.1 ≠ .rbrace := by
  intro b vs
  induction vs generalizing b with
  | nil => intro t ht; simp [flatSeq] at ht
  | cons x xs ih =>
    obtain ⟨c, v, n⟩ := x
    intro t ht
    cases b with
    | true =>
      simp only [flatSeq, List.mem_cons] at ht
      rcases ht with rfl | ht
      · simp [Tok.inner]
      · exact ih false t ht
    | false =>
      simp only [flatSeq, List.mem_cons] at ht
      rcases ht with rfl | rfl | ht
      · simp [Tok.inner]
      · simp [Tok.inner]
      · exact ih false t ht

theorem asgTok_ok (b : Bool) : (asgTok b).inner = true ∧ asgTok b ≠ .rbrace := by
  cases b <;> simp [asgTok, Tok.inner]

theorem liftM_liftM (m : PM) (a b : List Frame) : liftM (liftM m a) b = liftM m (a ++ b) := by
  by_cases hrun : m.status = .running
  · simp [liftM, hrun, Nat.add_assoc]
  · simp only [liftM, hrun, if_false]
    cases hfs : m.frames ++ a with
    | nil =>
      have h1 : m.frames = [] := by cases hm : m.frames <;> simp_all
      have h2 : a = [] := by cases a <;> simp_all
      simp [h1, h2, collapse, Nat.add_assoc]
    | cons f r =>
      have : m.frames ++ (a ++ b) = f :: (r ++ b) := by rw [← List.append_assoc, hfs]; rfl
      simp [this, collapse, collapseInto_append, Nat.add_assoc]

theorem live_liftM (m : PM) (rest : List Frame) (h : Live m) : Live (liftM m rest) := by
  intro hrun
  have hr : m.status = .running := by simpa using hrun
  obtain ⟨f, inner, hfr⟩ := h hr
  exact ⟨f, inner ++ rest, by simp [liftM, hr, hfr]⟩

theorem noPop_liftM_cons (r : PM) (p : Frame) (h : Live r) : noPop (liftM r [p]) = true := by
  by_cases hrun : r.status = .running
  · obtain ⟨f, inner, hfr⟩ := h hrun
    cases inner <;> simp [noPop, liftM, hrun, hfr]
  · simp [noPop, hrun]


theorem secHead_ok (name : Bytes) (n1 : Nat) (title : Option (Bytes × Nat)) (n2 : Nat) :
    ∀ t ∈ secHead name n1 title n2, t.1.inner = true ∧ t.1 ≠ .rbrace := by
  intro t ht
  cases title with
  | none =>
    simp only [secHead, List.append_nil, List.cons_append, List.nil_append, List.mem_cons, List.mem_nil_iff, or_false] at ht
    rcases ht with rfl | rfl <;> simp [Tok.inner]
  | some tn =>
    obtain ⟨tt, n⟩ := tn
    simp only [secHead, List.cons_append, List.nil_append, List.mem_cons, List.mem_nil_iff, or_false] at ht
    rcases ht with rfl | rfl | rfl <;> simp [Tok.inner]

mutual
theorem evalItem_sound (orc : Oracle) : ∀ (i : Item) (m r : PM) (rest : List Frame), evalItem orc m i = some r → Live m →
    parseToks orc (liftM m rest) i.flat = liftM r rest ∧ Live r
  | .assign name n1 app n2 v n3, m, r, rest, h, hl => by
    simp only [evalItem, Option.some.injEq] at h
    subst h
    refine ⟨?_, parseToks_live orc _ m hl⟩
    simp only [Item.flat]
    refine parseToks_lift orc rest _ ?_ m hl
    intro t ht
    simp only [List.mem_cons, List.mem_nil_iff, or_false] at ht
    rcases ht with rfl | rfl | rfl
    · simp [Tok.inner]
    · exact asgTok_ok app
    · simp [Tok.inner]
  | .list name n1 app n2 n3 vs n4, m, r, rest, h, hl => by
    simp only [evalItem] at h
    split at h
    · rename_i hnp
      simp only [Option.some.injEq] at h
      subst h
      have hok : ∀ t ∈ ([(.str name, n1), (asgTok app, n2), (.lbrace, n3)] ++ flatSeq true vs : List LTok), t.1.inner = true ∧ t.1 ≠ .rbrace := by
        intro t ht
        simp only [List.cons_append, List.nil_append, List.mem_cons] at ht
        rcases ht with rfl | rfl | rfl | ht
        · simp [Tok.inner]
        · exact asgTok_ok app
        · simp [Tok.inner]
        · exact flatSeq_ok true vs t ht
      have hl1 := parseToks_live orc ([(.str name, n1), (asgTok app, n2), (.lbrace, n3)] ++ flatSeq true vs) m hl
      refine ⟨?_, pstep_live orc _ _ _ hl1⟩
      simp only [Item.flat]
      rw [parseToks_append', parseToks_lift orc rest _ hok m hl]
      simp only [parseToks, List.foldl_cons, List.foldl_nil]
      exact pstep_lift' orc _ rest .rbrace n4 hl1 rfl (fun _ => hnp)
    · simp at h
  | .call name n1 n2 args n3, m, r, rest, h, hl => by
    simp only [evalItem, Option.some.injEq] at h
    subst h
    refine ⟨?_, parseToks_live orc _ m hl⟩
    simp only [Item.flat]
    refine parseToks_lift orc rest _ ?_ m hl
    intro t ht
    simp only [List.cons_append, List.nil_append, List.mem_cons, List.mem_append, List.mem_nil_iff, or_false] at ht
    rcases ht with rfl | rfl | ht | rfl
    · simp [Tok.inner]
    · simp [Tok.inner]
    · exact flatSeq_ok true args t ht
    · simp [Tok.inner]
  | .comment t n, m, r, rest, h, hl => by
    simp only [evalItem, Option.some.injEq] at h
    subst h
    refine ⟨?_, pstep_live orc _ _ _ hl⟩
    simp only [Item.flat, parseToks, List.foldl_cons, List.foldl_nil]
    exact pstep_lift' orc m rest _ n hl rfl (fun h => by simp at h)
  | .sec name n1 title n2 body n3, m, r, rest, h, hl => by
    simp only [evalItem] at h
    have hl1 := parseToks_live orc (secHead name n1 title n2) m hl
    have hhead := parseToks_lift orc rest _ (secHead_ok name n1 title n2) m hl
    simp only [Item.flat]
    rw [parseToks_append', parseToks_append', hhead]
    generalize parseToks orc m (secHead name n1 title n2) = m1 at h hl1 ⊢
    split at h
    · -- the head was rejected
      rename_i hst
      simp only [Option.some.injEq] at h
      subst h
      have hst' : m1.status ≠ .running := by simpa using hst
      refine ⟨?_, hl1⟩
      have hst'' : (liftM m1 rest).status ≠ .running := by simpa using hst'
      rw [parseToks_stopped orc (liftM m1 rest) _ hst'', parseToks_stopped orc (liftM m1 rest) _ hst'']
    · rename_i hst
      have hrun : m1.status = .running := by simpa using hst
      split at h
      · -- opened
        rename_i child parent hfr
        split at h
        · rename_i hg
          split at h
          · rename_i r' hev
            simp only [Option.some.injEq] at h
            subst h
            have hl0 : Live ({ m1 with frames := [child], maxDepth := m1.maxDepth - 1 } : PM) := fun _ => ⟨child, [], rfl⟩
            obtain ⟨ih, hlr⟩ := evalItems_sound orc body _ r' (parent :: rest) hev hl0
            have hm1 : liftM m1 rest = liftM ({ m1 with frames := [child], maxDepth := m1.maxDepth - 1 } : PM) (parent :: rest) := by
              have : m1 = liftM ({ m1 with frames := [child], maxDepth := m1.maxDepth - 1 } : PM) [parent] := by
                cases m1
                simp only [liftM] at hrun hfr hg ⊢
                simp_all
                try omega
              conv => lhs; rw [this]
              rw [liftM_liftM]
              rfl
            rw [hm1, ih]
            have : liftM r' (parent :: rest) = liftM (liftM r' [parent]) rest := by rw [liftM_liftM]; rfl
            rw [this]
            have hl2 : Live (liftM r' [parent]) := live_liftM r' [parent] hlr
            refine ⟨?_, pstep_live orc _ _ _ hl2⟩
            simp only [parseToks, List.foldl_cons, List.foldl_nil]
            exact pstep_lift' orc _ rest .rbrace n3 hl2 rfl (fun _ => noPop_liftM_cons r' parent hlr)
          · simp at h
        · simp at h
      · -- skipping an undeclared section
        rename_i f hfr
        split at h
        · rename_i hg
          simp only [Bool.and_eq_true, beq_iff_eq, List.all_eq_true] at hg
          obtain ⟨⟨⟨hs12, hd1⟩, hbal⟩, hinner⟩ := hg
          simp only [Option.some.injEq] at h
          subst h
          have e1 := C12_skip_body orc (flats body) m1 f [] 1 1 hrun hfr hs12 hd1 (fun t ht => hinner t ht) hbal
          have e2 := C12_skip_body orc (flats body) (liftM m1 rest) f rest 1 1 (by simpa using hrun)
            (by simp [liftM, hrun, hfr]) hs12 hd1 (fun t ht => hinner t ht) hbal
          rw [e1, e2]
          have hl2 : Live ({ m1 with frames := [{ f.addLine (sumNl (flats body)) with depth := 1 }] } : PM) := fun _ => ⟨_, [], rfl⟩
          have e3 : ({ liftM m1 rest with frames := { f.addLine (sumNl (flats body)) with depth := 1 } :: rest } : PM) =
              liftM ({ m1 with frames := [{ f.addLine (sumNl (flats body)) with depth := 1 }] } : PM) rest := by
            simp [liftM, hrun]
          rw [e3]
          refine ⟨?_, pstep_live orc _ _ _ hl2⟩
          simp only [parseToks, List.foldl_cons, List.foldl_nil]
          refine pstep_lift' orc _ rest .rbrace n3 hl2 rfl (fun _ => ?_)
          simp [noPop, Frame.addLine, hs12]
        · simp at h
      · simp at h
theorem evalItems_sound (orc : Oracle) : ∀ (is : List Item) (m r : PM) (rest : List Frame), evalItems orc m is = some r → Live m →
    parseToks orc (liftM m rest) (flats is) = liftM r rest ∧ Live r
  | [], m, r, rest, h, hl => by
    simp only [evalItems, Option.some.injEq] at h
    subst h
    exact ⟨rfl, hl⟩
  | i :: is, m, r, rest, h, hl => by
    simp only [evalItems] at h
    split at h
    · rename_i m' hev
      obtain ⟨h1, hl'⟩ := evalItem_sound orc i m m' rest hev hl
      obtain ⟨h2, hl''⟩ := evalItems_sound orc is m' r rest h hl'
      refine ⟨?_, hl''⟩
      simp only [flats]
      rw [parseToks_append', h1, h2]
    · simp at h
end

end Confuse
