import Confuse.Lemmas.OptInv
/-!
# The path resolver returns references that exist, and says so when it finds nothing
-/
namespace Confuse

theorem cfgAt_append (c : Cfg) (steps : List (Nat × Nat)) (oi ii : Nat) :
    cfgAt c (steps ++ [(oi, ii)]) = (cfgAt c steps).bind (fun s => s.child oi ii) := by
  induction steps generalizing c with
  | nil => simp [cfgAt]
  | cons st rest ih =>
    obtain ⟨a, b⟩ := st
    simp only [List.cons_append, cfgAt]
    cases c.child a b with
    | none => rfl
    | some s => simp [ih]

theorem getOptAt_cfgAt (c : Cfg) (steps : List (Nat × Nat)) (leaf : Nat) :
    getOptAt c steps leaf = (cfgAt c steps).bind (fun s => s.opts[leaf]?) := by
  induction steps generalizing c with
  | nil => simp [getOptAt, cfgAt]
  | cons st rest ih =>
    obtain ⟨a, b⟩ := st
    simp only [getOptAt, cfgAt]
    cases c.child a b with
    | none => rfl
    | some s => simp [ih]

theorem findOptIdx_lt (nocase : Bool) (name : Bytes) : ∀ (os : List Opt) (i k : Nat), findOptIdx nocase name os i = some k → i ≤ k ∧ k < i + os.length := by
  intro os
  induction os with
  | nil => intro i k h; simp [findOptIdx] at h
  | cons o os ih =>
    intro i k h
    simp only [findOptIdx] at h
    split at h
    · simp only [Option.some.injEq] at h; subst h; simp
    · have := ih (i + 1) k h
      simp only [List.length_cons]; omega

theorem getoptLeaf_valid (c : Cfg) (name : Bytes) (i : Nat) (h : getoptLeaf c name = some i) : (c.opts[i]?).isSome := by
  have := findOptIdx_lt c.flags.nocase name c.opts 0 i h
  simp only [Nat.zero_add] at this
  simp [this.2]

theorem pathOpt_spec (sec : Cfg) (secname : Bytes) (oi : Nat) (o : Opt) (h : pathOpt sec secname = some (oi, o)) :
    sec.opts[oi]? = some o := by
  unfold pathOpt at h
  cases hl : getoptLeaf sec secname with
  | none => simp [hl] at h
  | some i =>
    simp only [hl] at h
    cases ho : sec.opts[i]? with
    | none => simp [ho] at h
    | some o' =>
      simp only [ho] at h
      split at h
      · simp only [Option.some.injEq, Prod.mk.injEq] at h
        obtain ⟨rfl, rfl⟩ := h
        exact ho
      · simp at h

theorem pathInst_spec (o : Opt) (i : Int) (ii : Nat) (s : Cfg) (h : pathInst o i = some (ii, s)) : o.vals[ii]? = some (.sec s) := by
  unfold pathInst at h
  split at h
  · cases hv : o.vals[i.toNat]? with
    | none => simp [hv] at h
    | some v =>
      cases v <;> simp [hv] at h
      obtain ⟨rfl, rfl⟩ := h
      exact hv
  · simp at h

theorem child_of (sec : Cfg) (oi ii : Nat) (o : Opt) (s : Cfg) (h1 : sec.opts[oi]? = some o) (h2 : o.vals[ii]? = some (.sec s)) :
    sec.child oi ii = some s := by
  simp [Cfg.child, h1, h2]

/-- **R1.** Every reference the resolver returns exists in the tree it was resolved in. -/
theorem secidx_valid (c : Cfg) : ∀ (fuel : Nat) (sec : Cfg) (steps : List (Nat × Nat)) (lo : Option OptRef) (li : Int) (name : Bytes) (r : OptRef),
    cfgAt c steps = some sec → (secidxLoop false fuel sec steps lo li name).ref = some r → (c.getOpt r).isSome := by
  intro fuel
  induction fuel with
  | zero => intro sec steps lo li name r _ h; simp [secidxLoop] at h
  | succ n ih =>
    intro sec steps lo li name r hsec h
    rw [secidxLoop] at h
    have fin : ∀ (x : PathOut), x = (match getoptLeaf sec name with
        | some i => ⟨some ⟨steps, i⟩, -1, []⟩
        | none => ⟨none, -1, [.noSuchOption]⟩) → x.ref = some r → (c.getOpt r).isSome := by
      intro x hx hr
      subst hx
      cases hl : getoptLeaf sec name with
      | none => simp [hl] at hr
      | some i =>
        simp only [hl, Option.some.injEq] at hr
        subst hr
        simp only [Cfg.getOpt, getOptAt_cfgAt, hsec, Option.bind_some]
        exact getoptLeaf_valid sec name i hl
    simp only [Bool.false_eq_true, if_false, Bool.not_false, Bool.true_and, Bool.false_and] at h
    split at h
    · exact fin _ rfl h
    · split at h
      · exact fin _ rfl h
      · split at h
        · exact fin _ rfl h
        · cases hpo : pathOpt sec (List.takeWhile (fun c => !isSep c) name) with
          | none => simp [hpo] at h
          | some oo =>
            obtain ⟨oi, o⟩ := oo
            simp only [hpo] at h
            cases hpi : pathInst o (pathQual o (List.drop (List.takeWhile (fun c => !isSep c) name).length name) (List.takeWhile (fun c => !isSep c) name).length).1 with
            | none => simp [hpi] at h
            | some is =>
              obtain ⟨ii, s⟩ := is
              simp only [hpi] at h
              split at h
              · simp at h
              refine ih s (steps ++ [(oi, ii)]) _ _ _ r ?_ h
              rw [cfgAt_append, hsec]
              exact child_of sec oi ii o s (pathOpt_spec sec _ oi o hpo) (pathInst_spec o _ ii s hpi)

theorem getoptPath_valid (c : Cfg) (name : Bytes) (r : OptRef) (h : (getoptPath c name).ref = some r) : (c.getOpt r).isSome := by
  unfold getoptPath getoptSecidx at h
  split at h
  · simp at h
  · cases hk : keyFirst c name false with
    | some i =>
      simp only [hk, Option.some.injEq] at h
      subst h
      have hl : getoptLeaf c name = some i := by
        unfold keyFirst at hk
        split at hk
        · exact hk
        · cases hk
      simpa [Cfg.getOpt, getOptAt] using getoptLeaf_valid c name i hl
    | none =>
      simp only [hk] at h
      have : (secidxLoop false (name.length + 1) c [] none (-1) name).ref = some r := by
        split at h <;> exact h
      exact secidx_valid c _ c [] none (-1) name r rfl this

/-! ### an unresolved name is reported -/

theorem takeWhile_length_le {α} (p : α → Bool) : ∀ (l : List α), (l.takeWhile p).length ≤ l.length
  | [] => by simp
  | x :: xs => by
    simp only [List.takeWhile_cons]
    split
    · simp only [List.length_cons]; have := takeWhile_length_le p xs; omega
    · simp

theorem pathQual_ge (o : Opt) (after : Bytes) (len : Nat) : len ≤ (pathQual o after len).2 := by
  unfold pathQual
  split
  · exact Nat.le_refl _
  · split
    · exact Nat.le_refl _
    · cases parseTitle (after.drop 1) with
      | none => exact Nat.le_refl _
      | some p =>
        obtain ⟨t, tl⟩ := p
        simp only []
        split <;> simp only [] <;> omega

/-- **R2.** The resolver proper never comes back empty-handed and silent. -/
theorem secidx_unresolved_diag : ∀ (fuel : Nat) (sec : Cfg) (steps : List (Nat × Nat)) (lo : Option OptRef) (li : Int) (name : Bytes),
    name.length < fuel →
    (secidxLoop false fuel sec steps lo li name).ref = none → (secidxLoop false fuel sec steps lo li name).diags ≠ [] := by
  intro fuel
  induction fuel with
  | zero => intro sec steps lo li name hl; omega
  | succ n ih =>
    intro sec steps lo li name hl
    rw [secidxLoop]
    have fin : ∀ (x : PathOut), x = (match getoptLeaf sec name with
        | some i => ⟨some ⟨steps, i⟩, -1, []⟩
        | none => ⟨none, -1, [.noSuchOption]⟩) → x.ref = none → x.diags ≠ [] := by
      intro x hx hr
      subst hx
      cases hg : getoptLeaf sec name with
      | some i => simp [hg] at hr
      | none => simp
    simp only [Bool.false_eq_true, if_false, Bool.not_false, Bool.true_and, Bool.false_and]
    split
    · exact fin _ rfl
    · split
      · exact fin _ rfl
      · split
        · exact fin _ rfl
        · rename_i hne _ hlen
          cases hpo : pathOpt sec (List.takeWhile (fun c => !isSep c) name) with
          | none => simp
          | some oo =>
            obtain ⟨oi, o⟩ := oo
            simp only []
            cases hpi : pathInst o (pathQual o (List.drop (List.takeWhile (fun c => !isSep c) name).length name) (List.takeWhile (fun c => !isSep c) name).length).1 with
            | none => simp only []; intro _; split <;> simp
            | some is =>
              obtain ⟨ii, s⟩ := is
              simp only []
              split
              · simp
              refine ih s (steps ++ [(oi, ii)]) _ _ _ ?_
              have := pathQual_ge o (List.drop (List.takeWhile (fun c => !isSep c) name).length name) (List.takeWhile (fun c => !isSep c) name).length
              have hpos : 0 < (List.takeWhile (fun c => !isSep c) name).length := by
                simp only [beq_iff_eq] at hlen; omega
              have hle := takeWhile_length_le (fun c => !isSep c) name
              simp only [List.length_drop]
              omega

/-- **R3.** A resolved name is resolved silently. -/
theorem secidx_resolved_quiet : ∀ (fuel : Nat) (sec : Cfg) (steps : List (Nat × Nat)) (lo : Option OptRef) (li : Int) (name : Bytes) (r : OptRef),
    (secidxLoop false fuel sec steps lo li name).ref = some r → (secidxLoop false fuel sec steps lo li name).diags = [] := by
  intro fuel
  induction fuel with
  | zero => intro sec steps lo li name r h; simp [secidxLoop] at h
  | succ n ih =>
    intro sec steps lo li name r
    rw [secidxLoop]
    have fin : ∀ (x : PathOut), x = (match getoptLeaf sec name with
        | some i => ⟨some ⟨steps, i⟩, -1, []⟩
        | none => ⟨none, -1, [.noSuchOption]⟩) → x.ref = some r → x.diags = [] := by
      intro x hx hr
      subst hx
      cases hg : getoptLeaf sec name with
      | some i => rfl
      | none => simp [hg] at hr
    simp only [Bool.false_eq_true, if_false, Bool.not_false, Bool.true_and, Bool.false_and]
    split
    · exact fin _ rfl
    · split
      · exact fin _ rfl
      · split
        · exact fin _ rfl
        · cases hpo : pathOpt sec (List.takeWhile (fun c => !isSep c) name) with
          | none => simp
          | some oo =>
            obtain ⟨oi, o⟩ := oo
            simp only []
            cases hpi : pathInst o (pathQual o (List.drop (List.takeWhile (fun c => !isSep c) name).length name) (List.takeWhile (fun c => !isSep c) name).length).1 with
            | none => simp
            | some is =>
              obtain ⟨ii, s⟩ := is
              simp only []
              split
              · simp
              · exact ih s (steps ++ [(oi, ii)]) _ _ _ r

theorem getoptPath_resolved_quiet (c : Cfg) (name : Bytes) (r : OptRef) (h : (getoptPath c name).ref = some r) : (getoptPath c name).diags = [] := by
  unfold getoptPath getoptSecidx at h ⊢
  by_cases h1 : name.isEmpty = true
  · simp [h1]
  · simp only [h1, Bool.false_eq_true, if_false] at h ⊢
    cases hk : keyFirst c name false with
    | some i => rfl
    | none =>
      simp only [hk] at h ⊢
      split
      · rfl
      · rename_i h2
        simp only [h2, Bool.false_eq_true, if_false] at h
        exact secidx_resolved_quiet _ c [] none (-1) name r h

/-- in a context that skips unknown options, and in a free-form one, the resolver says nothing -/
theorem getoptPath_quiet' (c : Cfg) (name : Bytes) (h : c.flags.ignoreUnknown = true ∨ c.flags.keystrval = true) : (getoptPath c name).diags = [] := by
  unfold getoptPath getoptSecidx
  split
  · rfl
  · split
    · rfl
    · rcases h with h | h <;> simp [h]

theorem getoptPath_unresolved_diag (c : Cfg) (name : Bytes) (hne : name ≠ []) (hi : c.flags.ignoreUnknown = false) (hk : c.flags.keystrval = false)
    (h : (getoptPath c name).ref = none) : (getoptPath c name).diags ≠ [] := by
  unfold getoptPath getoptSecidx at h ⊢
  have hne' : name.isEmpty = false := by cases name <;> simp_all
  have hkf : keyFirst c name false = none := by simp [keyFirst, hk]
  simp only [hne', Bool.false_eq_true, if_false, hi, hkf] at h ⊢
  simp only [hk, Bool.and_false, Bool.or_false, Bool.false_eq_true, if_false] at h ⊢
  exact secidx_unresolved_diag _ c [] none (-1) name (by omega) h

end Confuse
