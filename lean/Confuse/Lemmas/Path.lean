import Confuse.Model.Path
/-!
# The option lens: get after update
-/
namespace Confuse

theorem listSet_get {α} (l : List α) (i : Nat) (y : α) (h : (l[i]?).isSome) : (listSet l i y)[i]? = some y := by
  induction l generalizing i with
  | nil => simp at h
  | cons x xs ih =>
    cases i with
    | zero => simp [listSet]
    | succ n => simp [listSet]; exact ih n (by simpa using h)

theorem listSet_get_ne {α} (l : List α) (i j : Nat) (y : α) (h : i ≠ j) : (listSet l i y)[j]? = l[j]? := by
  induction l generalizing i j with
  | nil => simp [listSet]
  | cons x xs ih =>
    cases i with
    | zero => cases j with
      | zero => exact absurd rfl h
      | succ m => simp [listSet]
    | succ n => cases j with
      | zero => simp [listSet]
      | succ m => simp [listSet]; exact ih n m (by omega)

theorem listSet_length {α} (l : List α) (i : Nat) (y : α) : (listSet l i y).length = l.length := by
  induction l generalizing i with
  | nil => simp [listSet]
  | cons x xs ih => cases i <;> simp [listSet, ih]

theorem child_setChild (c : Cfg) (oi ii : Nat) (s s' : Cfg) (h : c.child oi ii = some s) :
    (c.setChild oi ii s').child oi ii = some s' := by
  obtain ⟨info, opts⟩ := c
  unfold Cfg.child at h
  simp only [Cfg.opts] at h
  split at h
  · rename_i o ho
    split at h
    · rename_i s0 hs0
      simp only [Cfg.setChild, Cfg.opts, ho, Cfg.child, Cfg.setOpts]
      rw [listSet_get _ _ _ (by simp [ho])]
      simp only [Opt.setVals]
      have : ((listSet o.vals ii (Val.sec s'))[ii]?) = some (Val.sec s') := listSet_get _ _ _ (by simp [hs0])
      simp only [Opt.vals] at this ⊢
      rw [this]
    · simp at h
  · simp at h

theorem getOptAt_updOptAt (g : Opt → Opt) : ∀ (steps : List (Nat × Nat)) (c : Cfg) (leaf : Nat) (o : Opt),
    getOptAt c steps leaf = some o → getOptAt (updOptAt g c steps leaf) steps leaf = some (g o) := by
  intro steps
  induction steps with
  | nil =>
    intro c leaf o h
    obtain ⟨info, opts⟩ := c
    simp only [getOptAt, Cfg.opts] at h
    simp only [updOptAt, Cfg.opts, h, getOptAt, Cfg.setOpts]
    exact listSet_get _ _ _ (by simp [h])
  | cons st rest ih =>
    intro c leaf o h
    obtain ⟨oi, ii⟩ := st
    simp only [getOptAt] at h
    split at h
    · rename_i s hs
      simp only [updOptAt, hs, getOptAt]
      rw [child_setChild c oi ii s _ hs]
      exact ih s leaf o h
    · simp at h

/-- **get after set** -/
theorem getOpt_setOpt (c : Cfg) (r : OptRef) (o o' : Opt) (h : c.getOpt r = some o) :
    (c.setOpt r o').getOpt r = some o' := by
  simpa [Cfg.getOpt, Cfg.setOpt] using getOptAt_updOptAt (fun _ => o') r.steps c r.leaf o h

end Confuse
